/-
  Proofs.C12Run — the full pool invariant over all operations and all histories whose block / undo operations are
  admissible on the chain side (helper lemmas for Props/C12 `pool_inv`).  Core Lean only.
-/
import GocoinV.Proofs.C12Block
namespace GocoinV.Mempool

/-- chain-side admissibility of one operation in state `s` (only `block` and `undo` touch the chain side; the
    conditions read nothing but `s.utxo` and `s.undo`) -/
def AdmOp (u0 : UT) (ν : OutPoint → Nat) (s : State) : Op → Prop
  | .block h txs _ => ConnectSound u0 ν s (connectUtxo s h txs) txs
  | .undo _ _ => ∀ s' txs, disconnectUtxo s = some (s', txs) → UndoCommitTxs u0 ν s s' txs
  | _ => True

/-- every block / undo operation of the history is admissible in the state it is applied to -/
def AdmRun (K : Keys) (u0 : UT) (ν : OutPoint → Nat) : State → List Op → Prop
  | _, [] => True
  | s, op :: r => AdmOp u0 ν s op ∧ AdmRun K u0 ν (step K s op) r

structure Full (K : Keys) (W : Tx → Prop) (u0 : UT) (ν : OutPoint → Nat) (s : State) : Prop where
  inv : InvR K W s
  chain : ChainOK u0 ν s
  good : PGoodP K W u0 ν s

theorem step_env_pool (K : Keys) (s : State) (op : Op) (hb : ∀ h txs mf, op ≠ .block h txs mf) (hu : ∀ uh mf, op ≠ .undo uh mf) :
    s.undo = (step K s op).undo ∧ s.utxo = (step K s op).utxo ∧ (s.panicked = true → (step K s op).panicked = true) := by
  cases op with
  | submitNet t tr mf => have e := submitNet_env K mf s t tr; exact ⟨e.undo.symm, e.utxo.symm, e.sticky⟩
  | submitLocal t mf => have e := submitLocal_env K mf s t; exact ⟨e.undo.symm, e.utxo.symm, e.sticky⟩
  | block h txs mf => exact absurd rfl (hb h txs mf)
  | undo uh mf => exact absurd rfl (hu uh mf)
  | tip h => exact ⟨rfl, rfl, id⟩
  | expire old => have e := expire_env K s old; exact ⟨e.undo.symm, e.utxo.symm, e.sticky⟩
  | evict v =>
    simp only [step]
    cases he : evict K s v with
    | none => exact ⟨rfl, rfl, id⟩
    | some s' => have e := evict_env K v s s' he; exact ⟨e.undo.symm, e.utxo.symm, e.sticky⟩
  | resort => have e := buildSorted_env K s; exact ⟨e.undo.symm, e.utxo.symm, e.sticky⟩
  | commitFlag y => exact ⟨rfl, rfl, id⟩
  | reload => have e := reload_env K s; exact ⟨e.undo.symm, e.utxo.symm, e.sticky⟩

theorem step_full {K : Keys} {W : Tx → Prop} {rank : TxId → Nat} {u0 : UT} {ν : OutPoint → Nat}
    (U : Univ2 K W rank u0 ν) (s : State) (op : Op) (h : Full K W u0 ν s) (hW : ∀ t ∈ op.txs, W t)
    (ha : AdmOp u0 ν s op) : Full K W u0 ν (step K s op) := by
  have hI := step_InvR U.base s op h.inv hW
  refine ⟨hI, ?_, ?_⟩
  · cases op with
    | submitNet t tr mf => exact h.chain.of_env (submitNet_env K mf s t tr)
    | submitLocal t mf => exact h.chain.of_env (submitLocal_env K mf s t)
    | block hh txs mf => exact ha.chain.of_env (blockMined_env K mf _ txs)
    | undo uh mf =>
      simp only [step]
      cases hd : disconnectUtxo s with
      | none => exact h.chain
      | some p =>
        obtain ⟨s', txs⟩ := p
        exact (ha s' txs hd).chain.of_env (blockUndoneAt_env K mf s' uh txs)
    | tip hh => exact h.chain.of_env ⟨rfl, rfl, id⟩
    | expire old => exact h.chain.of_env (expire_env K s old)
    | evict v =>
      simp only [step]
      cases he : evict K s v with
      | none => exact h.chain
      | some s' => exact h.chain.of_env (evict_env K v s s' he)
    | resort => exact h.chain.of_env (buildSorted_env K s)
    | commitFlag y => exact h.chain.of_env ⟨rfl, rfl, id⟩
    | reload => exact h.chain.of_env (reload_env K s)
  · cases op with
    | submitNet t tr mf => exact submitNet_good U mf s t tr h.chain h.good (hW t (by simp [Op.txs]))
    | submitLocal t mf => exact submitLocal_good U mf s t h.chain h.good (hW t (by simp [Op.txs]))
    | block hh txs mf => exact blockMined_good U mf s hh txs hW h.chain h.good h.inv ha
    | undo uh mf =>
      simp only [step]
      cases hd : disconnectUtxo s with
      | none => exact h.good
      | some p =>
        obtain ⟨s', txs⟩ := p
        exact blockUndoneAt_good U mf s s' uh txs hd h.chain h.good h.inv (ha s' txs hd)
    | tip hh =>
      exact PGoodP.lift (s := s) (s' := { s with height := hh }) ⟨rfl, rfl, id⟩
        (fun g => g.frame (Frame.of_eq rfl rfl rfl rfl rfl rfl)) h.good
    | expire old =>
      intro hp
      have e := expire_env K s old
      exact PGood.of_env (expire_ok U old s (fun hp0 => h.good hp0) hp) e
    | evict v =>
      simp only [step]
      cases he : evict K s v with
      | none => exact h.good
      | some s' =>
        intro hp
        have e := evict_env K v s s' he
        exact PGood.of_env (evict_ok v s s' (h.good (alive_of_env e hp)) he) e
    | resort =>
      show PGoodP K W u0 ν (buildSorted K s)
      exact PGoodP.lift (buildSorted_env K s) (fun g => by
        unfold buildSorted
        split
        · exact g.frame (Frame.of_eq rfl rfl rfl rfl rfl rfl)
        · exact g) h.good
    | commitFlag y =>
      exact PGoodP.lift (s := s) (s' := { s with sortDisabled := y }) ⟨rfl, rfl, id⟩
        (fun g => g.frame (Frame.of_eq rfl rfl rfl rfl rfl rfl)) h.good
    | reload =>
      intro hp
      have e := reload_env K s
      have g := h.good (alive_of_env e hp)
      refine PGood.of_env (reload_ok U s g ?_) e
      intro o ho
      unfold inU at ho
      cases hx : s.utxo.get? o with
      | none => rw [hx] at ho; cases ho
      | some c => exact h.chain.c3 o c hx

theorem run_full {K : Keys} {W : Tx → Prop} {rank : TxId → Nat} {u0 : UT} {ν : OutPoint → Nat}
    (U : Univ2 K W rank u0 ν) : ∀ (ops : List Op) (s : State), Full K W u0 ν s →
    (∀ op ∈ ops, ∀ t ∈ op.txs, W t) → AdmRun K u0 ν s ops → Full K W u0 ν (run K s ops) := by
  intro ops
  induction ops with
  | nil => intro s h _ _; exact h
  | cons op r ih =>
    intro s h hW ha
    unfold run
    simp only [List.foldl_cons]
    exact ih _ (step_full U s op h (hW op List.mem_cons_self) ha.1)
      (fun o ho => hW o (List.mem_cons_of_mem _ ho)) ha.2

/-- the initial state: an empty pool over the confirmed set `u0` -/
def genesis (cfg : Cfg) (u0 : UT) (h0 : Nat) : State := { cfg := cfg, utxo := u0, height := h0 }

theorem full_genesis {K : Keys} {W : Tx → Prop} {rank : TxId → Nat} {u0 : UT} {ν : OutPoint → Nat}
    (U : Univ2 K W rank u0 ν) (cfg : Cfg) (h0 : Nat) : Full K W u0 ν (genesis cfg u0 h0) := by
  have hI : InvR K W (genesis cfg u0 h0) := by
    refine ⟨⟨?_, ?_, ?_⟩, by simp [genesis], ?_, ?_, ?_⟩
    · intro b t h; simp [genesis, AList.get?] at h
    · intro u b h; simp [genesis, AList.get?] at h
    · intro b t h; simp [genesis, AList.get?] at h
    · intro b t h; simp [genesis, AList.get?] at h
    · intro b r t h; simp [genesis, AList.get?] at h
    · intro e he; simp [genesis] at he
  refine ⟨hI, ⟨?_, ?_, ?_, ?_, ?_⟩, ?_⟩
  · intro e he; simp [genesis] at he
  · intro e he; simp [genesis] at he
  · intro o c h
    exact Or.inl ⟨o.2, c, h⟩
  · intro o c h
    exact (U.val_u0 o c h).symm
  · intro e he; simp [genesis] at he
  · intro _
    refine ⟨⟨hI, ?_, ?_, ?_, rfl⟩, ?_⟩
    · intro b t h; simp [genesis, AList.get?] at h
    · intro b t h; simp [genesis, AList.get?] at h
    · intro b t h; simp [genesis, AList.get?] at h
    · intro b t h; simp [genesis, AList.get?] at h

end GocoinV.Mempool
