/-
  Proofs.C04Wf — the hypotheses `hwf` / `hheights` of connect_sound are invariants: UnspentDB.commit keeps every record
  filed under the key of its txid with unique keys, and no record gets higher than the block just connected.
-/
import GocoinV.Proofs.C04Apply
namespace GocoinV.Proofs.C04
open GocoinV GocoinV.Connect

/-- well-formed, and no record above height `h` -/
def Good (h : Nat) (db : DB) : Prop := WF db ∧ ∀ kr ∈ db, kr.2.height ≤ h

theorem mem_aSet {κ β : Type} [DecidableEq κ] (l : List (κ × β)) (k : κ) (v : β) (x : κ × β) (h : x ∈ aSet l k v) :
    x ∈ l ∨ x = (k, v) := by
  induction l with
  | nil => simp [aSet] at h; exact Or.inr h
  | cons p r ih =>
    obtain ⟨a, b⟩ := p
    simp only [aSet] at h
    split at h
    · simp only [List.mem_cons] at h
      rcases h with h | h
      · exact Or.inr h
      · exact Or.inl (List.mem_cons_of_mem _ h)
    · simp only [List.mem_cons] at h
      rcases h with h | h
      · exact Or.inl (by simp [h])
      · rcases ih h with q | q
        · exact Or.inl (List.mem_cons_of_mem _ q)
        · exact Or.inr q

theorem aDel_eq_filter {κ β : Type} [DecidableEq κ] (l : List (κ × β)) (k : κ) :
    aDel l k = l.filter (fun p => p.1 ≠ k) := by
  induction l with
  | nil => rfl
  | cons p r ih =>
    obtain ⟨a, b⟩ := p
    simp only [aDel, List.filter_cons]
    by_cases h : a = k <;> simp [h, ih]

theorem Good_aSet (h : Nat) (db : DB) (k : Bytes) (r : Rec) (hg : Good h db) (hk : k = key8 r.txid) (hr : r.height ≤ h) :
    Good h (aSet db k r) := by
  refine ⟨⟨?_, aSet_keys_nodup _ _ _ hg.1.nodup⟩, ?_⟩
  · intro x hx
    rcases mem_aSet _ _ _ _ hx with q | q
    · exact hg.1.filed x q
    · subst q; exact hk
  · intro x hx
    rcases mem_aSet _ _ _ _ hx with q | q
    · exact hg.2 x q
    · subst q; exact hr

theorem Good_aDel (h : Nat) (db : DB) (k : Bytes) (hg : Good h db) : Good h (aDel db k) := by
  rw [aDel_eq_filter]
  refine ⟨⟨?_, ?_⟩, ?_⟩
  · intro x hx; exact hg.1.filed x (List.mem_filter.mp hx).1
  · exact List.Nodup.sublist (List.Sublist.map _ List.filter_sublist) hg.1.nodup
  · intro x hx; exact hg.2 x (List.mem_filter.mp hx).1

theorem Good_dbDel (h : Nat) (db : DB) (t : Bytes) (m : List Bool) (hg : Good h db) : Good h (dbDel Cfg.current db t m) := by
  unfold dbDel
  cases hget : aGet db (key8 t) with
  | none => exact hg
  | some r =>
    have hft : Cfg.current.fullTxid = true := rfl
    by_cases hr : r.txid ≠ t
    · simp only [hft, true_and]; rw [if_pos hr]; exact hg
    · have hr' : r.txid = t := by simpa using hr
      simp only [hft, true_and]; rw [if_neg hr]
      split
      · exact Good_aSet h db _ _ hg (by simp only []; rw [hr']) (hg.2 _ (aGet_mem db _ r hget))
      · exact Good_aDel h db _ hg

theorem Good_applyChanges (db : DB) (b : Block) (s : St) (hg : Good b.height db) :
    Good b.height (applyChanges Cfg.current db b s) := by
  unfold applyChanges
  have h1 : ∀ (L : List (Bytes × List Bool)) (d : DB), Good b.height d →
      Good b.height (L.foldl (fun d (kv : Bytes × List Bool) => dbDel Cfg.current d kv.1 kv.2) d) := by
    intro L
    induction L with
    | nil => intro d hd; exact hd
    | cons e r ih => intro d hd; exact ih _ (Good_dbDel _ d e.1 e.2 hd)
  have h2 : ∀ (L : List Rec) (d : DB), (∀ r ∈ L, r.height ≤ b.height) → Good b.height d →
      Good b.height (L.foldl dbAdd d) := by
    intro L
    induction L with
    | nil => intro d _ hd; exact hd
    | cons e r ih =>
      intro d hL hd
      exact ih _ (fun x hx => hL x (List.mem_cons_of_mem _ hx))
        (Good_aSet _ d _ e hd rfl (hL e (by simp)))
  apply h2 _ _ _ (h1 _ _ hg)
  intro r hr
  rw [addList_eq] at hr
  obtain ⟨e, _, he⟩ := List.mem_filterMap.mp hr
  unfold addRec at he
  split at he
  · simp only [Option.some.injEq] at he; subst he; exact Nat.le_refl _
  · cases he

theorem Good_mono (h h' : Nat) (db : DB) (hle : h ≤ h') (hg : Good h db) : Good h' db :=
  ⟨hg.1, fun kr hkr => Nat.le_trans (hg.2 kr hkr) hle⟩

end GocoinV.Proofs.C04
