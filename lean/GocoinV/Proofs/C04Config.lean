/-
  Proofs.C04Config — lemmas about the three configuration / mechanism models added after the third round of seeded
  changes: the pool hook (Model/ConnectTrust), the undo files (Model/ConnectUndo), the scratch pools of the compressed
  serializer (Model/ConnectScratch).
-/
import GocoinV.Model.ConnectTrust
import GocoinV.Model.ConnectUndo
import GocoinV.Model.ConnectScratch
import GocoinV.Proofs.C04Basic
import GocoinV.Proofs.C04Witness
namespace GocoinV.Proofs.C04
open GocoinV GocoinV.Connect

/-! ### pool hook -/

theorem skipScripts_id (tx : Tx) (h : ∀ i ∈ tx.ins, i.scriptOk = true) : skipScripts tx = tx := by
  unfold skipScripts
  have : tx.ins.map (fun i => { i with scriptOk := true }) = tx.ins := by
    have : ∀ i ∈ tx.ins, (fun i : TxIn => { i with scriptOk := true }) i = i := by
      intro i hi
      have := h i hi
      cases i; simp_all
    rw [List.map_congr_left this]; simp
  rw [this]

theorem trustPerTx_honest (chk : TxChecker) (txs : List Tx)
    (h : ∀ tx ∈ txs, chk.says tx = true → ∀ i ∈ tx.ins, i.scriptOk = true) : trustPerTx chk txs = txs := by
  induction txs with
  | nil => rfl
  | cons tx r ih =>
    simp only [trustPerTx]
    rw [ih (fun t ht => h t (List.mem_cons_of_mem _ ht))]
    by_cases hs : chk.says tx = true
    · rw [if_pos hs, skipScripts_id tx (h tx (List.mem_cons_self ..) hs)]
    · rw [if_neg hs]

theorem effBlock_honest (chk : TxChecker) (b : Block)
    (h : ∀ tx ∈ b.txs.tail, chk.says tx = true → ∀ i ∈ tx.ins, i.scriptOk = true) : effBlock true chk b = b := by
  unfold effBlock
  cases hb : b.txs with
  | nil => rfl
  | cons cb rest =>
    simp only [↓reduceIte]
    rw [hb] at h
    rw [trustPerTx_honest chk rest h, ← hb]

theorem effBlock_none (perTx : Bool) (b : Block) : effBlock perTx none b = b := by
  have hp : ∀ txs, trustPerTx none txs = txs := by
    intro txs; induction txs with
    | nil => rfl
    | cons t r ih => simp [trustPerTx, TxChecker.says, ih]
  have hs : ∀ txs, trustSticky none false txs = txs := by
    intro txs; induction txs with
    | nil => rfl
    | cons t r ih => simp [trustSticky, TxChecker.says, ih]
  unfold effBlock
  cases hb : b.txs with
  | nil => rfl
  | cons cb rest =>
    cases perTx <;> simp [hp, hs, ← hb]

namespace W
/-- the pool knows T1 (spends (h1,0), valid); T2 spends T1's output with a script that FAILS and is not known to the pool -/
def blockPoolBad : Block :=
  blk [cbTx 5000000000, spend 1 1 h1 0xffffffff [⟨1000, [0x51]⟩],
       { spend 2 1 (idOf 1) 0xffffffff [⟨1000, [0x52]⟩] with
         ins := [{ prev := ⟨idOf 1, 0⟩, scriptSig := [], sequence := 0xffffffff, witness := [], scriptOk := false }] }]
def poolKnowsT1 : TxChecker := some fun tx => tx.txid == idOf 1
end W

/-! ### undo files -/

theorem readUndo_writeUndo (dir : UndoDir) (h : Nat) (recs : List Rec) :
    readUndo ⟨true, true⟩ (writeUndo ⟨true, true⟩ dir h (some recs)) h = some recs := by
  simp [readUndo, writeUndo, aGet_aSet]

theorem readUndo_missing (dir : UndoDir) (h : Nat) (hm : aGet dir h = none) : readUndo ⟨true, true⟩ dir h = none := by
  simp [readUndo, hm]

/-! ### scratch pools -/

open GocoinV.Scratch

theorem length_pass1 {α β : Type} (f : α → β) (outs : List (Option α)) (i : Nat) (pool : List β) :
    (pass1 f outs i pool).length = pool.length := by
  induction outs generalizing i pool with
  | nil => rfl
  | cons o r ih =>
    cases o with
    | none => exact ih (i + 1) pool
    | some a => simp only [pass1]; rw [ih]; simp

theorem getD_pass1_lt {α β : Type} (f : α → β) (d : β) (outs : List (Option α)) (i j : Nat) (pool : List β) (hj : j < i) :
    (pass1 f outs i pool).getD j d = pool.getD j d := by
  induction outs generalizing i pool with
  | nil => rfl
  | cons o r ih =>
    cases o with
    | none => exact ih (i + 1) pool (by omega)
    | some a =>
      simp only [pass1]
      rw [ih (i + 1) _ (by omega)]
      simp only [List.getD_eq_getElem?_getD]
      rw [List.getElem?_set_ne (by omega)]

/-- one serialization alone is exact whatever the pool held before (stale entries of earlier records are overwritten
    before they are read), provided the pool is long enough — which the allocation at the top of SerializeC ensures -/
theorem pass2_pass1 {α β : Type} (f : α → β) (d : β) (outs : List (Option α)) (i : Nat) (pool : List β)
    (hl : i + outs.length ≤ pool.length) : pass2 d outs i (pass1 f outs i pool) = expected f outs i := by
  induction outs generalizing i pool with
  | nil => rfl
  | cons o r ih =>
    cases o with
    | none =>
      simp only [pass1, pass2, expected]
      exact ih (i + 1) pool (by simp at hl; omega)
    | some a =>
      simp only [pass1, pass2, expected]
      have hl' : i + 1 + r.length ≤ (pool.set i (f a)).length := by simp at hl ⊢; omega
      rw [ih (i + 1) _ hl', getD_pass1_lt f d r (i + 1) i _ (by omega)]
      simp only [List.getD_eq_getElem?_getD]
      rw [List.getElem?_set_self (by simp at hl; omega)]
      rfl

/-- pass 2 depends on the pool only -/
theorem run_seq_ab {α β : Type} (f : α → β) (d : β) (A B : List (Option α)) (pool : List β)
    (hA : A.length ≤ pool.length) (hB : B.length ≤ pool.length) :
    (run f d A B pool [.a1, .a2, .b1, .b2]).outA = expected f A 0 ∧ (run f d A B pool [.a1, .a2, .b1, .b2]).outB = expected f B 0 := by
  simp only [run, List.foldl, exec]
  refine ⟨pass2_pass1 f d A 0 pool (by omega), pass2_pass1 f d B 0 _ ?_⟩
  rw [length_pass1]; omega

theorem run_seq_ba {α β : Type} (f : α → β) (d : β) (A B : List (Option α)) (pool : List β)
    (hA : A.length ≤ pool.length) (hB : B.length ≤ pool.length) :
    (run f d A B pool [.b1, .b2, .a1, .a2]).outA = expected f A 0 ∧ (run f d A B pool [.b1, .b2, .a1, .a2]).outB = expected f B 0 := by
  simp only [run, List.foldl, exec]
  refine ⟨pass2_pass1 f d A 0 _ ?_, pass2_pass1 f d B 0 pool (by omega)⟩
  rw [length_pass1]; omega

end GocoinV.Proofs.C04
