/-
  Proofs.C19Abort — BR_ABORT: what the visit set of a Browse is (`visitSet`), that every visiting order Go's map iteration
  can take is the visit set of some walk list, and what a Browse that may abort shows and does at the level of the map.
-/
import GocoinV.Proofs.C19Lz
namespace GocoinV.Proofs.C19
open GocoinV GocoinV.Qdb GocoinV.QdbSpec

/-! ### `walkRes` on concatenations -/

theorem walkRes_append_mem (pre r : List (Key × Nat)) (k : Key) (h : k ∈ pre.map (·.1)) :
    walkRes (pre ++ r) k = walkRes pre k := by
  unfold walkRes
  rw [List.find?_append]
  obtain ⟨x, hx, hk⟩ := List.mem_map.mp h
  cases hf : pre.find? (·.1 = k) with
  | none =>
    have := List.find?_eq_none.mp hf x hx
    simp [hk] at this
  | some y => rfl

theorem walkRes_append_not_mem (pre r : List (Key × Nat)) (k : Key) (h : k ∉ pre.map (·.1)) :
    walkRes (pre ++ r) k = walkRes r k := by
  unfold walkRes
  rw [List.find?_append]
  have : pre.find? (·.1 = k) = none := by
    apply List.find?_eq_none.mpr
    intro x hx hk
    exact h (List.mem_map.mpr ⟨x, hx, by simpa using hk⟩)
  rw [this]
  rfl

theorem walkRes_cons_self (k : Key) (f : Nat) (t : List (Key × Nat)) : walkRes ((k, f) :: t) k = f := by
  simp [walkRes]

theorem walkRes_not_listed (w : List (Key × Nat)) (k : Key) (h : k ∉ w.map (·.1)) : walkRes w k = 0 := by
  have := walkRes_append_not_mem w [] k h
  rw [List.append_nil] at this
  rw [this]; rfl

theorem zero_noAbort : hasFlag 0 BR_ABORT = false := by decide

/-! ### what the visit set is -/

/-- the statement of `visitSet_char` for a walk list split into the entries already seen (`pre`) and the rest -/
def VisitSpec (el : Key → Bool) (w : List (Key × Nat)) : Option (List Key) → Prop
  | none => ∀ k, el k = true → hasFlag (walkRes w k) BR_ABORT = false
  | some l => ∃ k t, l = k :: t ∧ el k = true ∧ hasFlag (walkRes w k) BR_ABORT = true ∧
      ∀ k' ∈ t, el k' = true ∧ hasFlag (walkRes w k') BR_ABORT = false

theorem visitSetAux_char (el : Key → Bool) (rest pre : List (Key × Nat)) (seen : List Key)
    (h1 : ∀ k, k ∈ seen ↔ (el k = true ∧ k ∈ pre.map (·.1)))
    (h2 : ∀ k ∈ seen, hasFlag (walkRes pre k) BR_ABORT = false) :
    VisitSpec el (pre ++ rest) (visitSetAux el rest seen) := by
  induction rest generalizing pre seen with
  | nil =>
    simp only [visitSetAux, VisitSpec, List.append_nil]
    intro k hk
    by_cases hm : k ∈ pre.map (·.1)
    · exact h2 k ((h1 k).mpr ⟨hk, hm⟩)
    · rw [walkRes_not_listed pre k hm]; exact zero_noAbort
  | cons x t ih =>
    obtain ⟨k, f⟩ := x
    have happ : pre ++ (k, f) :: t = (pre ++ [(k, f)]) ++ t := by simp
    have hkeys : (pre ++ [(k, f)]).map (·.1) = pre.map (·.1) ++ [k] := by simp
    simp only [visitSetAux]
    by_cases hc : (seen.contains k || !el k) = true
    · rw [if_pos hc, happ]
      apply ih (pre ++ [(k, f)]) seen
      · intro k'
        rw [hkeys, List.mem_append, List.mem_singleton]
        constructor
        · intro hs; exact ⟨((h1 k').mp hs).1, Or.inl ((h1 k').mp hs).2⟩
        · rintro ⟨he, hm | rfl⟩
          · exact (h1 k').mpr ⟨he, hm⟩
          · simp only [Bool.or_eq_true, List.contains_iff_mem, Bool.not_eq_eq_eq_not, Bool.not_true] at hc
            rcases hc with hc | hc
            · exact hc
            · rw [he] at hc; cases hc
      · intro k' hk'
        rw [walkRes_append_mem pre _ k' ((h1 k').mp hk').2]
        exact h2 k' hk'
    · rw [if_neg hc]
      simp only [Bool.or_eq_true, List.contains_iff_mem, Bool.not_eq_eq_eq_not, Bool.not_true, not_or,
        Bool.not_eq_false] at hc
      obtain ⟨hns, hel⟩ := hc
      have hnp : k ∉ pre.map (·.1) := fun hm => hns ((h1 k).mpr ⟨hel, hm⟩)
      have hwk : ∀ r, walkRes (pre ++ (k, f) :: r) k = f := fun r => by
        rw [walkRes_append_not_mem pre _ k hnp, walkRes_cons_self]
      by_cases ha : hasFlag f BR_ABORT = true
      · rw [if_pos ha]
        refine ⟨k, seen, rfl, hel, by rw [hwk]; exact ha, fun k' hk' => ⟨((h1 k').mp hk').1, ?_⟩⟩
        rw [walkRes_append_mem pre _ k' ((h1 k').mp hk').2]
        exact h2 k' hk'
      · rw [if_neg ha, happ]
        apply ih (pre ++ [(k, f)]) (k :: seen)
        · intro k'
          rw [hkeys, List.mem_append, List.mem_singleton, List.mem_cons]
          constructor
          · rintro (rfl | hs)
            · exact ⟨hel, Or.inr rfl⟩
            · exact ⟨((h1 k').mp hs).1, Or.inl ((h1 k').mp hs).2⟩
          · rintro ⟨he, hm | rfl⟩
            · exact Or.inr ((h1 k').mpr ⟨he, hm⟩)
            · exact Or.inl rfl
        · intro k' hk'
          rcases List.mem_cons.mp hk' with rfl | hs
          · have := hwk []
            rw [this]; simpa using ha
          · rw [walkRes_append_mem pre _ k' ((h1 k').mp hs).2]
            exact h2 k' hs

/-- WHAT THE VISIT SET IS. `none` (everything eligible is visited) exactly when no eligible record's answer carries
    BR_ABORT; `some (k :: t)`: the answer for `k` carries BR_ABORT, `k` and the keys of `t` are eligible, and no answer
    for a key of `t` carries it — the browse hands these records to the walk function, `k` last, and stops. -/
theorem visitSet_char {α : Type} (flagsOf : α → Nat) (all : Bool) (idx : List (Key × α)) (w : List (Key × Nat)) :
    VisitSpec (eligible flagsOf all idx) w (visitSet flagsOf all idx w) := by
  have := visitSetAux_char (eligible flagsOf all idx) w [] [] (by simp) (by simp)
  simpa [visitSet] using this

/-! ### every order Go's map iteration can take is the visit set of a walk list -/

theorem visitSetAux_prefix (el : Key → Bool) (g : Key → Nat) (init : List Key) (rest : List (Key × Nat)) (seen : List Key)
    (hnd : init.Nodup) (hel : ∀ k ∈ init, el k = true) (hns : ∀ k ∈ init, k ∉ seen)
    (hna : ∀ k ∈ init, hasFlag (g k) BR_ABORT = false) :
    visitSetAux el (init.map (fun k => (k, g k)) ++ rest) seen = visitSetAux el rest (init.reverse ++ seen) := by
  induction init generalizing seen with
  | nil => rfl
  | cons k t ih =>
    have hk1 : seen.contains k = false := by
      simpa [List.contains_iff_mem] using hns k List.mem_cons_self
    simp only [List.map_cons, List.cons_append, visitSetAux, hk1, hel k List.mem_cons_self,
      hna k List.mem_cons_self, Bool.not_true, Bool.or_self, Bool.false_eq_true, ↓reduceIte]
    rw [ih (k :: seen) (List.nodup_cons.mp hnd).2 (fun x hx => hel x (List.mem_cons_of_mem _ hx))
      (fun x hx hm => by
        rcases List.mem_cons.mp hm with rfl | hm
        · exact (List.nodup_cons.mp hnd).1 hx
        · exact hns x (List.mem_cons_of_mem _ hx) hm)
      (fun x hx => hna x (List.mem_cons_of_mem _ hx))]
    simp

theorem walkRes_ordered (w0 : List (Key × Nat)) (ord : List Key) (k : Key) :
    walkRes (ord.map (fun k => (k, walkRes w0 k)) ++ w0) k = walkRes w0 k := by
  by_cases hm : k ∈ ord
  · rw [walkRes_append_mem _ _ k (by simpa [List.map_map, Function.comp] using hm)]
    induction ord with
    | nil => cases hm
    | cons x t ih =>
      by_cases hx : x = k
      · subst hx; simp [walkRes]
      · have ht : k ∈ t := by
          rcases List.mem_cons.mp hm with h | h
          · exact absurd h.symm hx
          · exact h
        have := ih ht
        simp only [List.map_cons]
        unfold walkRes at this ⊢
        simp only [List.find?_cons, hx, decide_false]
        exact this
  · exact walkRes_append_not_mem _ _ k (by simpa [List.map_map, Function.comp] using hm)

/-- EVERY STOPPING POINT GO CAN REACH IS A WALK LIST. Take a walk function (`walkRes w0`), and any visiting sequence
    Go's map iteration can produce for it when the browse aborts: distinct eligible keys `init ++ [last]` where the
    answer for `last` carries BR_ABORT and no earlier one does. Listing these keys in front, in that order (what the
    harness does with the order observed on the real store), gives a walk list with the same answers whose visit set
    is exactly that sequence. -/
theorem every_abort_order_is_a_walk_list {α : Type} (flagsOf : α → Nat) (all : Bool) (idx : List (Key × α))
    (w0 : List (Key × Nat)) (init : List Key) (last : Key)
    (hnd : (init ++ [last]).Nodup) (hel : ∀ k ∈ init ++ [last], eligible flagsOf all idx k = true)
    (hna : ∀ k ∈ init, hasFlag (walkRes w0 k) BR_ABORT = false) (hab : hasFlag (walkRes w0 last) BR_ABORT = true) :
    let w := (init ++ [last]).map (fun k => (k, walkRes w0 k)) ++ w0
    (∀ k, walkRes w k = walkRes w0 k) ∧ visitSet flagsOf all idx w = some (last :: init.reverse) := by
  intro w
  refine ⟨fun k => walkRes_ordered w0 _ k, ?_⟩
  show visitSetAux _ ((init ++ [last]).map (fun k => (k, walkRes w0 k)) ++ w0) [] = _
  have hnd' := List.nodup_append.mp hnd
  rw [List.map_append, List.append_assoc,
    visitSetAux_prefix _ (walkRes w0) init _ [] hnd'.1 (fun k hk => hel k (List.mem_append_left _ hk))
      (fun _ _ h => by cases h) hna]
  have hl : last ∉ init := fun hm => hnd'.2.2 last hm last (List.mem_singleton.mpr rfl) rfl
  simp [visitSetAux, hl, hel last (by simp), hab]

/-! ### the map's side of a Browse that may abort -/

theorem mbrowseOutV_sound (vs : Option (List Key)) (m : M) (hnd : (Keys m).Nodup) :
    ∀ kv ∈ mbrowseOutV vs m, mget m kv.1 = some kv.2 := by
  intro kv hkv
  unfold mbrowseOutV at hkv
  obtain ⟨⟨k, v, f⟩, hmem, hf⟩ := List.mem_filterMap.mp hkv
  simp only [] at hf
  split at hf
  · cases hf
  · cases hf
    show mget m k = some v
    unfold mget
    rw [ilookup_of_mem_nodup _ hnd k (v, f) hmem]
    rfl

theorem mbrowseOutV_complete (vs : Option (List Key)) (m : M) (k : Key) (v : Bytes) (f : Nat)
    (hl : ilookup k m = some (v, f)) (hs : skipB false vs f k = false) : (k, v) ∈ mbrowseOutV vs m := by
  unfold mbrowseOutV
  exact List.mem_filterMap.mpr ⟨(k, v, f), ilookup_key_pair k (v, f) _ hl, by simp [hs]⟩

theorem mbrowseOutV_visited (vs : Option (List Key)) (m : M) :
    ∀ kv ∈ mbrowseOutV vs m, ∃ f, (kv.1, kv.2, f) ∈ m ∧ skipB false vs f kv.1 = false := by
  intro kv hkv
  unfold mbrowseOutV at hkv
  obtain ⟨⟨k, v, f⟩, hmem, hf⟩ := List.mem_filterMap.mp hkv
  simp only [] at hf
  split at hf
  · cases hf
  · rename_i hs
    cases hf
    exact ⟨f, hmem, by simpa using hs⟩

/-- the flag word of every entry after a Browse: the walk function's answer is applied to exactly the visited ones -/
theorem mbrowseState_lookup (m : M) (w : List (Key × Nat)) (k : Key) (v : Bytes) (f : Nat)
    (hl : ilookup k m = some (v, f)) :
    ilookup k (mbrowseState m w) =
      some (v, if skipB false (mvisitSet false m w) f k then f else applyBrowsingFlags f (walkRes w k)) := by
  unfold mbrowseState
  generalize mvisitSet false m w = vs
  have : (m.map fun (x : Key × (Bytes × Nat)) =>
      match x with
      | (k, v, f) => if skipB false vs f k = true then (k, v, f) else (k, v, applyBrowsingFlags f (walkRes w k))) =
      m.map fun kr => (kr.1, browseGM w vs kr.1 kr.2) := by
    apply List.map_congr_left
    intro x _
    obtain ⟨k, v, f⟩ := x
    simp only [browseGM]
    split <;> rfl
  rw [this, ilookup_mapKV (browseGM w vs) k m, hl]
  simp only [Option.map_some, browseGM]
  split <;> rfl

/-- THE ABORTING RECORD GETS ITS FLAGS. When the browse stops at `k` (its answer carries BR_ABORT), whatever else the
    answer carries — NO_BROWSE, YES_BROWSE, NO_CACHE, YES_CACHE — is applied to `k`'s flag word like for every other
    visited record. -/
theorem abort_answer_flags_applied (m : M) (w : List (Key × Nat)) (k : Key) (t : List Key) (v : Bytes) (f : Nat)
    (hvs : mvisitSet false m w = some (k :: t)) (hl : ilookup k m = some (v, f)) :
    hasFlag (walkRes w k) BR_ABORT = true ∧
    ilookup k (mbrowseState m w) = some (v, applyBrowsingFlags f (walkRes w k)) := by
  have hc := visitSet_char (α := Bytes × Nat) (·.2) false m w
  unfold mvisitSet at hvs
  rw [hvs] at hc
  obtain ⟨k0, t0, he, hel, hab, _⟩ := hc
  cases he
  refine ⟨hab, ?_⟩
  rw [mbrowseState_lookup m w k v f hl]
  have hnb : hasFlag f NO_BROWSE = false := by
    unfold eligible at hel
    rw [hl] at hel
    simpa using hel
  have : skipB false (mvisitSet false m w) f k = false := by
    unfold mvisitSet
    rw [hvs]
    simp [skipB, hnb]
  rw [this]
  rfl

end GocoinV.Proofs.C19
