/-
  Proofs.C05Script — helper lemmas for C05: UintToScript = CScript() << n, one lemma per byte-length range.
-/
import GocoinV.Model.BlockCheck
import GocoinV.Spec.ScriptNum
open GocoinV GocoinV.BlockCheck GocoinV.Spec.ScriptNum GocoinV.Gen.ConsensusConsts
namespace GocoinV.Proofs.C05
set_option linter.unusedSimpArgs false

theorem u2s_small (n : Nat) (h : n ≤ 16) : uintToScript n = cscriptPush n := by
  unfold uintToScript cscriptPush
  by_cases h1 : 1 ≤ n ∧ n ≤ 16
  · simp only [h1, and_self, ↓reduceIte, OP_1]
    congr 2; omega
  · have : n = 0 := by omega
    subst this; simp [OP_0]

theorem u2s_1 (n : Nat) (h : 17 ≤ n) (h2 : n < 128) : uintToScript n = cscriptPush n := by
  have a1 : ¬ (1 ≤ n ∧ n ≤ 16) := by omega
  have a0 : n ≠ 0 := by omega
  have e4 : n / 16777216 % 256 = 0 := by omega
  have e3 : n / 65536 % 256 = 0 := by omega
  have e2 : n / 256 % 256 = 0 := by omega
  have t : ¬ 128 ≤ n % 256 := by omega
  have hl : expLen (expByte n) 5 = 1 := by simp [expLen, expByte, e4, e3, e2, t]
  have b1 : n / 256 = 0 := by omega
  have r : List.range 1 = [0] := rfl
  simp [uintToScript, cscriptPush, a1, a0, hl, r, expByte, serialize, leMinAux, b1, t]

theorem u2s_1b (n : Nat) (h : 128 ≤ n) (h2 : n < 256) : uintToScript n = cscriptPush n := by
  have a1 : ¬ (1 ≤ n ∧ n ≤ 16) := by omega
  have a0 : n ≠ 0 := by omega
  have e4 : n / 16777216 % 256 = 0 := by omega
  have e3 : n / 65536 % 256 = 0 := by omega
  have e2 : n / 256 % 256 = 0 := by omega
  have t : 128 ≤ n % 256 := by omega
  have hl : expLen (expByte n) 5 = 2 := by simp [expLen, expByte, e4, e3, e2, t]
  have b1 : n / 256 = 0 := by omega
  have r : List.range 2 = [0, 1] := rfl
  simp [uintToScript, cscriptPush, a1, a0, hl, r, expByte, serialize, leMinAux, b1, t]

theorem u2s_2 (n : Nat) (h : 256 ≤ n) (h2 : n < 32768) : uintToScript n = cscriptPush n := by
  have a1 : ¬ (1 ≤ n ∧ n ≤ 16) := by omega
  have a0 : n ≠ 0 := by omega
  have e4 : n / 16777216 % 256 = 0 := by omega
  have e3 : n / 65536 % 256 = 0 := by omega
  have e2 : n / 256 % 256 ≠ 0 := by omega
  have t : ¬ 128 ≤ n / 256 % 256 := by omega
  have hl : expLen (expByte n) 5 = 2 := by simp [expLen, expByte, e4, e3, e2, t]
  have b1 : n / 256 ≠ 0 := by omega
  have b2 : n / 65536 = 0 := by omega
  have r : List.range 2 = [0, 1] := rfl
  simp [uintToScript, cscriptPush, a1, a0, hl, r, expByte, serialize, leMinAux, b1, b2, t, Nat.div_div_eq_div_mul]

theorem u2s_2b (n : Nat) (h : 32768 ≤ n) (h2 : n < 65536) : uintToScript n = cscriptPush n := by
  have a1 : ¬ (1 ≤ n ∧ n ≤ 16) := by omega
  have a0 : n ≠ 0 := by omega
  have e4 : n / 16777216 % 256 = 0 := by omega
  have e3 : n / 65536 % 256 = 0 := by omega
  have t : 128 ≤ n / 256 % 256 := by omega
  have hl : expLen (expByte n) 5 = 3 := by simp [expLen, expByte, e4, e3, t]
  have b1 : n / 256 ≠ 0 := by omega
  have b2 : n / 65536 = 0 := by omega
  have r : List.range 3 = [0, 1, 2] := rfl
  simp [uintToScript, cscriptPush, a1, a0, hl, r, expByte, serialize, leMinAux, b1, b2, t, e3, Nat.div_div_eq_div_mul]

theorem u2s_3 (n : Nat) (h : 65536 ≤ n) (h2 : n < 8388608) : uintToScript n = cscriptPush n := by
  have a1 : ¬ (1 ≤ n ∧ n ≤ 16) := by omega
  have a0 : n ≠ 0 := by omega
  have e4 : n / 16777216 % 256 = 0 := by omega
  have e3 : n / 65536 % 256 ≠ 0 := by omega
  have t : ¬ 128 ≤ n / 65536 % 256 := by omega
  have hl : expLen (expByte n) 5 = 3 := by simp [expLen, expByte, e4, e3, t]
  have b1 : n / 256 ≠ 0 := by omega
  have b2 : n / 65536 ≠ 0 := by omega
  have b3 : n / 16777216 = 0 := by omega
  have r : List.range 3 = [0, 1, 2] := rfl
  simp [uintToScript, cscriptPush, a1, a0, hl, r, expByte, serialize, leMinAux, b1, b2, b3, t, Nat.div_div_eq_div_mul]

theorem u2s_3b (n : Nat) (h : 8388608 ≤ n) (h2 : n < 16777216) : uintToScript n = cscriptPush n := by
  have a1 : ¬ (1 ≤ n ∧ n ≤ 16) := by omega
  have a0 : n ≠ 0 := by omega
  have e4 : n / 16777216 % 256 = 0 := by omega
  have t : 128 ≤ n / 65536 % 256 := by omega
  have hl : expLen (expByte n) 5 = 4 := by simp [expLen, expByte, e4, t]
  have b1 : n / 256 ≠ 0 := by omega
  have b2 : n / 65536 ≠ 0 := by omega
  have b3 : n / 16777216 = 0 := by omega
  have r : List.range 4 = [0, 1, 2, 3] := rfl
  simp [uintToScript, cscriptPush, a1, a0, hl, r, expByte, serialize, leMinAux, b1, b2, b3, t, e4, Nat.div_div_eq_div_mul]

theorem u2s_4 (n : Nat) (h : 16777216 ≤ n) (h2 : n < 2147483648) : uintToScript n = cscriptPush n := by
  have a1 : ¬ (1 ≤ n ∧ n ≤ 16) := by omega
  have a0 : n ≠ 0 := by omega
  have e4 : n / 16777216 % 256 ≠ 0 := by omega
  have t : ¬ 128 ≤ n / 16777216 % 256 := by omega
  have hl : expLen (expByte n) 5 = 4 := by simp [expLen, expByte, e4, t]
  have b1 : n / 256 ≠ 0 := by omega
  have b2 : n / 65536 ≠ 0 := by omega
  have b3 : n / 16777216 ≠ 0 := by omega
  have b4 : n / 4294967296 = 0 := by omega
  have r : List.range 4 = [0, 1, 2, 3] := rfl
  simp [uintToScript, cscriptPush, a1, a0, hl, r, expByte, serialize, leMinAux, b1, b2, b3, b4, t, Nat.div_div_eq_div_mul]

theorem u2s_4b (n : Nat) (h : 2147483648 ≤ n) (h2 : n < 4294967296) : uintToScript n = cscriptPush n := by
  have a1 : ¬ (1 ≤ n ∧ n ≤ 16) := by omega
  have a0 : n ≠ 0 := by omega
  have t : 128 ≤ n / 16777216 % 256 := by omega
  have hl : expLen (expByte n) 5 = 5 := by simp [expLen, expByte, t]
  have b1 : n / 256 ≠ 0 := by omega
  have b2 : n / 65536 ≠ 0 := by omega
  have b3 : n / 16777216 ≠ 0 := by omega
  have b4 : n / 4294967296 = 0 := by omega
  have r : List.range 5 = [0, 1, 2, 3, 4] := rfl
  simp [uintToScript, cscriptPush, a1, a0, hl, r, expByte, serialize, leMinAux, b1, b2, b3, b4, t, Nat.div_div_eq_div_mul]

theorem u2s_all (n : Nat) (h : n < 2^32) : uintToScript n = cscriptPush n := by
  by_cases c0 : n ≤ 16
  · exact u2s_small n c0
  by_cases c1 : n < 128
  · exact u2s_1 n (by omega) c1
  by_cases c2 : n < 256
  · exact u2s_1b n (by omega) c2
  by_cases c3 : n < 32768
  · exact u2s_2 n (by omega) c3
  by_cases c4 : n < 65536
  · exact u2s_2b n (by omega) c4
  by_cases c5 : n < 8388608
  · exact u2s_3 n (by omega) c5
  by_cases c6 : n < 16777216
  · exact u2s_3b n (by omega) c6
  by_cases c7 : n < 2147483648
  · exact u2s_4 n (by omega) c7
  · exact u2s_4b n (by omega) (by omega)
end GocoinV.Proofs.C05
