/-
  Proofs.C14Lookup — the signer's two other lookup paths (P2SH-P2WPKH hash, x-only taproot key) and the
  scrypt-locality lemma behind `Props.C14.deterministic`.
-/
import GocoinV.Proofs.C14Wallet
namespace GocoinV.WalletKeys
open GocoinV HD Proofs.C14

/-- `hash_to_key_idx` on an arbitrary hash `h` that key i answers to (as P2KH hash or as segwit-slot hash) -/
theorem hashToKeyIdx_of_match (C : WalletCrypto) (c : Config) (keys : List KeyRec) (h : Bytes) (i : Nat)
    (hi : i < keys.length) (hm : keys[i].h160 = h ∨ segwitH160 C c keys[i] = h) :
    ∃ j, ∃ hj : j < keys.length, j ≤ i ∧ hashToKeyIdx C c keys h = some j ∧
      (keys[j].h160 = h ∨ segwitH160 C c keys[j] = h) := by
  let p : KeyRec → Bool := fun k => k.h160 == h || segwitH160 C c k == h
  have hp : p keys[i] = true := by
    rcases hm with e | e <;> simp [p, e]
  have hle := findIdx_le_of_pred p keys i hi hp
  have hlt : keys.findIdx p < keys.length := by omega
  refine ⟨keys.findIdx p, hlt, hle, ?_, ?_⟩
  · unfold hashToKeyIdx
    show (if keys.findIdx p < keys.length then some (keys.findIdx p) else none) = _
    rw [if_pos hlt]
  · have := List.findIdx_getElem (w := hlt)
    simpa [p] using this

/-- `public_xo_to_key_idx` on the x-only key of key i -/
theorem publicXoToKeyIdx_spec (keys : List KeyRec) (i : Nat) (hi : i < keys.length) :
    ∃ j, ∃ hj : j < keys.length, j ≤ i ∧
      publicXoToKeyIdx keys ((keys[i].pubkey.drop 1).take 32) = some j ∧
      (keys[j].pubkey.drop 1).take 32 = (keys[i].pubkey.drop 1).take 32 := by
  let p : KeyRec → Bool := fun k => (k.pubkey.drop 1).take 32 == (keys[i].pubkey.drop 1).take 32
  have hp : p keys[i] = true := by simp [p]
  have hle := findIdx_le_of_pred p keys i hi hp
  have hlt : keys.findIdx p < keys.length := by omega
  refine ⟨keys.findIdx p, hlt, hle, ?_, ?_⟩
  · unfold publicXoToKeyIdx
    show (if keys.findIdx p < keys.length then some (keys.findIdx p) else none) = _
    rw [if_pos hlt]
  · have := List.findIdx_getElem (w := hlt)
    simpa [p] using this

/-! ### the per-template lookups of sign_tx / pkscr_to_key_idx (/repo ebf80672) -/

theorem firstIdx_spec (p : KeyRec → Bool) (keys : List KeyRec) (i : Nat) (hi : i < keys.length) (hp : p keys[i] = true) :
    ∃ j, ∃ hj : j < keys.length, j ≤ i ∧
      (if keys.findIdx p < keys.length then some (keys.findIdx p) else none) = some j ∧ p keys[j] = true := by
  have hle := findIdx_le_of_pred p keys i hi hp
  have hlt : keys.findIdx p < keys.length := by omega
  exact ⟨keys.findIdx p, hlt, hle, by rw [if_pos hlt], List.findIdx_getElem (w := hlt)⟩

theorem firstIdx_sound (p : KeyRec → Bool) (keys : List KeyRec) (j : Nat)
    (e : (if keys.findIdx p < keys.length then some (keys.findIdx p) else none) = some j) :
    ∃ hj : j < keys.length, p keys[j] = true ∧ ∀ k (hk : k < j), p (keys[k]'(by omega)) = false := by
  split at e
  · rename_i hlt
    cases e
    refine ⟨hlt, List.findIdx_getElem (w := hlt), fun k hk => ?_⟩
    have := List.not_of_lt_findIdx hk
    simpa using this
  · cases e

theorem pubhashToKeyIdx_spec (keys : List KeyRec) (i : Nat) (hi : i < keys.length) :
    ∃ j, ∃ hj : j < keys.length, j ≤ i ∧ pubhashToKeyIdx keys keys[i].h160 = some j ∧ keys[j].h160 = keys[i].h160 := by
  obtain ⟨j, hj, hle, e, hp⟩ := firstIdx_spec (fun k => k.h160 == keys[i].h160) keys i hi (by simp)
  exact ⟨j, hj, hle, e, by simpa using hp⟩

theorem scripthashToKeyIdx_spec (C : WalletCrypto) (c : Config) (keys : List KeyRec) (i : Nat) (hi : i < keys.length)
    (hm : bech32Mode c.atype = false) :
    ∃ j, ∃ hj : j < keys.length, j ≤ i ∧
      scripthashToKeyIdx C c keys (C.hash160 ([0, 20] ++ keys[i].h160)) = some j ∧
      C.hash160 ([0, 20] ++ keys[j].h160) = C.hash160 ([0, 20] ++ keys[i].h160) := by
  obtain ⟨j, hj, hle, e, hp⟩ := firstIdx_spec
    (fun k => !bech32Mode c.atype && C.hash160 ([0, 20] ++ k.h160) == C.hash160 ([0, 20] ++ keys[i].h160)) keys i hi (by simp [hm])
  exact ⟨j, hj, hle, e, by simpa [hm] using hp⟩

theorem scripthashToKeyIdx_bech32 (C : WalletCrypto) (c : Config) (keys : List KeyRec) (h : Bytes)
    (hm : bech32Mode c.atype = true) : scripthashToKeyIdx C c keys h = none := by
  unfold scripthashToKeyIdx
  have : keys.findIdx (fun k => !bech32Mode c.atype && C.hash160 ([0, 20] ++ k.h160) == h) = keys.length := by
    apply List.findIdx_eq_length.mpr
    intro x _
    simp [hm]
  show (if _ < _ then _ else _) = none
  rw [this, if_neg (Nat.lt_irrefl _)]

/-- the configuration checks hand on exactly the password `getpass` returned -/
theorem makeWalletPre_pass (c : Config) (gp : Option Bytes) (path : Option (List Nat × Bytes × Bool)) (p0 : Bytes)
    (h : makeWalletPre c gp = .ok (path, p0)) : gp = some p0 := by
  cases gp with
  | none =>
    exfalso
    unfold makeWalletPre at h
    simp only [bind, Except.bind, pure, Except.pure, throw, throwThe, MonadExceptOf.throw] at h
    repeat' split at h
    all_goals first | cases h | skip
  | some p =>
    unfold makeWalletPre at h
    simp only [bind, Except.bind, pure, Except.pure, throw, throwThe, MonadExceptOf.throw] at h
    repeat' split at h
    all_goals first | cases h | skip
    all_goals simp_all

/-- scrypt is consulted at one point only: two oracles that agree on (password, usescrypt) give the same wallet -/
theorem makeWalletS_congr (C : WalletCrypto) (sc1 sc2 : Bytes → Nat → Option Bytes) (c : Config) (gp : Option Bytes)
    (hsc : ∀ p, gp = some p → c.usescrypt ≠ 0 → c.bip39wrds ≠ -1 → sc1 p c.usescrypt = sc2 p c.usescrypt) :
    makeWalletS C sc1 c gp = makeWalletS C sc2 c gp := by
  unfold makeWalletS
  cases hpre : makeWalletPre c gp with
  | error e => rfl
  | ok pp =>
    obtain ⟨path, p0⟩ := pp
    have hgp := makeWalletPre_pass c gp path p0 hpre
    have hstep : scryptStep sc1 c p0 = scryptStep sc2 c p0 := by
      unfold scryptStep
      by_cases hu : c.usescrypt ≠ 0
      · by_cases hb : c.bip39wrds = -1
        · simp [hu, hb]
        · rw [if_pos hu, if_pos hu, if_neg hb, if_neg hb, hsc p0 hgp hu hb]
      · rw [if_neg hu, if_neg hu]
    simp only [bind, Except.bind, hstep]

end GocoinV.WalletKeys
