/-
  Proofs.C08_Group — gocoin's Jacobian group functions (Model.Group, built from the generated limb functions)
  against the reference affine law: magnitude contract followed step by step (`FeS` rules), residues of the
  result coordinates as polynomials, then `dbl_alg` / `add_alg`; the branch structure (∞, equal x → double or ∞)
  explicitly.
-/
import GocoinV.Proofs.C08_GroupAlg

namespace GocoinV.C08
open GocoinV.Gen.Field5x52

/-- the INPUT contract of the group layer = everything the Go functions admit: each coordinate is handed to
    `Field.Mul` / `Field.Sqr` somewhere in Double / Add / AddXY / mul_lambda / ECmult, whose contract is magnitude ≤ 8
    (limb i ≤ 16·(2^52−1), top limb ≤ 16·(2^48−1)); nothing narrower is needed anywhere. Z ≠ 0 for finite points. -/
def XYZ.ok (a : XYZ) : Prop := a.x.mag 8 ∧ a.y.mag 8 ∧ a.z.mag 8 ∧ (a.inf = false → a.z.z ≠ 0)

/-- what Double / Add / AddXY themselves PRODUCE for a finite result (X ≤ 6, Y ≤ 4, Z ≤ 2): a subset of `XYZ.ok` -/
def XYZ.okOut (a : XYZ) : Prop := a.x.mag 6 ∧ a.y.mag 4 ∧ a.z.mag 2 ∧ (a.inf = false → a.z.z ≠ 0)

theorem XYZ.okOut.ok {a : XYZ} (h : a.okOut) : a.ok :=
  ⟨mag_mono h.1 (by decide), mag_mono h.2.1 (by decide), mag_mono h.2.2.1 (by decide), h.2.2.2⟩

/-- affine input contract: both coordinates within what Mul/Sqr accept -/
def XY.ok (b : XY) : Prop := b.x.mag 8 ∧ b.y.mag 8

/-- the affine point a Jacobian triple stands for: (X/Z², Y/Z³) as canonical residues, `none` = ∞ -/
def XYZ.toPoint (a : XYZ) : Secp.Point :=
  if a.inf then none else ptF (a.x.z / a.z.z ^ 2) (a.y.z / a.z.z ^ 3)

def XY.toPoint (b : XY) : Secp.Point := if b.inf then none else ptF b.x.z b.y.z

theorem doubleCore_S {ax t5 az : Fe} {X Y Z : F} (hx : FeS ax 8 X) (hy : FeS t5 1 Y) (hz : FeS az 8 Z) :
    FeS (doubleCore ax t5 az).x 6 (9 * X ^ 4 - 8 * X * Y ^ 2) ∧
    FeS (doubleCore ax t5 az).y 4 (3 * X ^ 2 * (12 * X * Y ^ 2 - 9 * X ^ 4) - 8 * Y ^ 4) ∧
    FeS (doubleCore ax t5 az).z 2 (2 * Y * Z) ∧ (doubleCore ax t5 az).inf = false := by
  have rz := (hy.mul hz (by decide) (by decide)).mulInt 2 (by decide)
  have t1 := (hx.sqr (by decide)).mulInt 3 (by decide)
  have t2 := t1.sqr (by decide)
  have t3 := (hy.sqr (by decide)).mulInt 2 (by decide)
  have t4 := (t3.sqr (by decide)).mulInt 2 (by decide)
  have t3' := hx.mul t3 (by decide) (by decide)
  have rx := ((t3'.mulInt 4 (by decide)).neg 4 (by decide) (by decide)).add t2 (by decide)
  have t2' := t2.neg 1 (by decide) (by decide)
  have t3'' := (t3'.mulInt 6 (by decide)).add t2' (by decide)
  have ry := (t1.mul t3'' (by decide) (by decide)).add (t4.neg 2 (by decide) (by decide)) (by decide)
  refine ⟨⟨(rx.mono (by decide)).1, ?_⟩, ⟨(ry.mono (by decide)).1, ?_⟩, ⟨(rz.mono (by decide)).1, ?_⟩, rfl⟩
  · rw [show (doubleCore ax t5 az).x.z = _ from rx.2]; push_cast; ring
  · rw [show (doubleCore ax t5 az).y.z = _ from ry.2]; push_cast; ring
  · rw [show (doubleCore ax t5 az).z.z = _ from rz.2]; push_cast; ring


theorem addTail_S {u1 u2 s1 s2 : Fe} {U1 U2 S1 S2 W : F} (zmul : Fe → Fe)
    (hu1 : FeS u1 1 U1) (hu2 : FeS u2 1 U2) (hs1 : FeS s1 1 S1) (hs2 : FeS s2 1 S2)
    (hzm : ∀ (h : Fe) (H : F), FeS h 3 H → FeS (zmul h) 1 (W * H)) :
    FeS (addTail u1 u2 s1 s2 zmul).x 6 ((S2 - S1) ^ 2 - (2 * U1 * (U2 - U1) ^ 2 + (U2 - U1) ^ 3)) ∧
    FeS (addTail u1 u2 s1 s2 zmul).y 4
      ((U1 * (U2 - U1) ^ 2 - ((S2 - S1) ^ 2 - (2 * U1 * (U2 - U1) ^ 2 + (U2 - U1) ^ 3))) * (S2 - S1)
        - (U2 - U1) ^ 3 * S1) ∧
    FeS (addTail u1 u2 s1 s2 zmul).z 2 (W * (U2 - U1)) ∧ (addTail u1 u2 s1 s2 zmul).inf = false := by
  have h := (hu1.neg 1 (by decide) (by decide)).add hu2 (by decide)
  have i := (hs1.neg 1 (by decide) (by decide)).add hs2 (by decide)
  have i2 := i.sqr (by decide)
  have h2 := h.sqr (by decide)
  have h3 := h.mul h2 (by decide) (by decide)
  have rz := hzm _ _ h
  have t := hu1.mul h2 (by decide) (by decide)
  have rx := ((((t.mulInt 2 (by decide)).add h3 (by decide)).neg 3 (by decide) (by decide)).add i2 (by decide))
  have ry := (((rx.neg 5 (by decide) (by decide)).add t (by decide)).mul i (by decide) (by decide)).add
    ((h3.mul hs1 (by decide) (by decide)).neg 1 (by decide) (by decide)) (by decide)
  refine ⟨⟨(rx.mono (by decide)).1, ?_⟩, ⟨(ry.mono (by decide)).1, ?_⟩, ⟨(rz.mono (by decide)).1, ?_⟩, rfl⟩
  · rw [show (addTail u1 u2 s1 s2 zmul).x.z = _ from rx.2]; push_cast; ring
  · rw [show (addTail u1 u2 s1 s2 zmul).y.z = _ from ry.2]; push_cast; ring
  · rw [show (addTail u1 u2 s1 s2 zmul).z.z = _ from rz.2]; ring

theorem two_ne_zero_F : (2 : F) ≠ 0 := by
  intro h
  have : ((2 : Nat) : F) = 0 := by exact_mod_cast h
  rw [ZMod.natCast_eq_zero_iff] at this
  exact absurd (Nat.le_of_dvd (by decide) this) (by decide)

theorem XYZ.toPoint_inf {a : XYZ} (h : a.inf = true) : a.toPoint = none := by
  unfold XYZ.toPoint; simp [h]

theorem XYZ.toPoint_fin {a : XYZ} (h : a.inf = false) :
    a.toPoint = ptF (a.x.z / a.z.z ^ 2) (a.y.z / a.z.z ^ 3) := by
  unfold XYZ.toPoint; simp [h]

/-- `XYZ.Double` over its FULL input contract: X and Z go into Sqr/Mul (magnitude ≤ 8), Y is normalised first
    (magnitude ≤ 32 = `Normalize`'s contract): the result is either the input with the Infinity flag set (∞ ↦ ∞, points
    with y = 0 ↦ ∞) or a finite point within the output contract (6/4/2), and stands for the double. -/
theorem double_full (a : XYZ) (hx : a.x.mag 8) (hy : a.y.mag 32) (hz : a.z.mag 8) (hz0 : a.inf = false → a.z.z ≠ 0) :
    (XYZ.double a = { a with inf := true } ∨ (XYZ.double a).okOut) ∧ (XYZ.double a).toPoint = Secp.dbl a.toPoint := by
  obtain ⟨hn, hnd⟩ := (FeS.self hy).norm (by decide)
  unfold XYZ.double
  simp only []
  cases hinf : a.inf with
  | true =>
    simp only [Bool.true_or, if_true]
    refine ⟨Or.inl trivial, ?_⟩
    rw [XYZ.toPoint_inf rfl, XYZ.toPoint_inf hinf]; rfl
  | false =>
    have hz0' := hz0 hinf
    rw [XYZ.toPoint_fin hinf, secp_dbl_F]
    by_cases hy0 : a.y.z = 0
    · have hzero : isZero (normalize a.y) = true := (isZero_normd hnd).2 (by rw [hn.2, hy0])
      simp only [hzero, Bool.or_true, if_true]
      refine ⟨Or.inl trivial, ?_⟩
      rw [XYZ.toPoint_inf rfl, if_pos (by rw [hy0, zero_div])]
    · have hzero : isZero (normalize a.y) = false := by
        cases hc : isZero (normalize a.y) with
        | false => rfl
        | true => exact absurd (by rw [← hn.2]; exact (isZero_normd hnd).1 hc) hy0
      simp only [hzero, Bool.or_false, Bool.false_eq_true, if_false]
      obtain ⟨rx, ry, rz, ri⟩ := doubleCore_S (FeS.self hx) hn (FeS.self hz)
      obtain ⟨hrz0, e1, e2⟩ := dbl_alg a.x.z a.y.z a.z.z _ _ _ hz0' hy0 rz.2 rx.2 ry.2
      refine ⟨Or.inr ⟨rx.1, ry.1, rz.1, fun _ => hrz0⟩, ?_⟩
      rw [XYZ.toPoint_fin ri, if_neg (div_ne_zero hy0 (pow_ne_zero _ hz0')), e1, e2]

/-- `XYZ.Double` is the doubling of the reference group law (∞ ↦ ∞, points with y = 0 ↦ ∞) and keeps the contract -/
theorem double_ok (a : XYZ) (h : a.ok) :
    (XYZ.double a).ok ∧ (XYZ.double a).toPoint = Secp.dbl a.toPoint := by
  obtain ⟨hx, hy, hz, hz0⟩ := h
  obtain ⟨h1, h2⟩ := double_full a hx (mag_mono hy (by decide)) hz hz0
  refine ⟨?_, h2⟩
  cases h1 with
  | inl e => rw [e]; exact ⟨hx, hy, hz, fun h => by simp at h⟩
  | inr o => exact o.ok

theorem bool_eq_false_of_not {b : Bool} (h : ¬ b = true) : b = false := by
  cases b <;> simp_all

theorem div_sq_eq_iff {X1 X2 Z1 Z2 : F} (h1 : Z1 ≠ 0) (h2 : Z2 ≠ 0) :
    X1 / Z1 ^ 2 = X2 / Z2 ^ 2 ↔ X1 * (Z2 * Z2) = X2 * (Z1 * Z1) := by
  rw [div_eq_div_iff (pow_ne_zero _ h1) (pow_ne_zero _ h2), pow_two, pow_two]

theorem div_cu_eq_iff {Y1 Y2 Z1 Z2 : F} (h1 : Z1 ≠ 0) (h2 : Z2 ≠ 0) :
    Y1 / Z1 ^ 3 = Y2 / Z2 ^ 3 ↔ Y1 * (Z2 * Z2) * Z2 = Y2 * (Z1 * Z1) * Z1 := by
  rw [div_eq_div_iff (pow_ne_zero _ h1) (pow_ne_zero _ h2)]
  constructor <;> intro h <;> linear_combination h

/-- `XYZ.Add` (Jacobian + Jacobian) is the addition of the reference group law, including ∞ + Q, P + ∞,
    P + P (→ Double) and P + (−P) (→ ∞), and keeps the contract -/
theorem add_ok (a b : XYZ) (ha : a.ok) (hb : b.ok) :
    (XYZ.add a b).ok ∧ (XYZ.add a b).toPoint = Secp.add a.toPoint b.toPoint := by
  unfold XYZ.add
  cases hia : a.inf with
  | true =>
    simp only [if_true]
    exact ⟨hb, by rw [XYZ.toPoint_inf hia]; rfl⟩
  | false =>
    cases hib : b.inf with
    | true =>
      simp only [Bool.false_eq_true, if_false, if_true]
      exact ⟨ha, by rw [XYZ.toPoint_inf hib, XYZ.toPoint_fin hia]; rfl⟩
    | false =>
      simp only [Bool.false_eq_true, if_false]
      obtain ⟨hax, hay, haz, haz0⟩ := ha
      obtain ⟨hbx, hby, hbz, hbz0⟩ := hb
      have hz1 := haz0 hia
      have hz2 := hbz0 hib
      have z22 := (FeS.self hbz).sqr (by decide)
      have z12 := (FeS.self haz).sqr (by decide)
      have u1 := (FeS.self hax).mul z22 (by decide) (by decide)
      have u2 := (FeS.self hbx).mul z12 (by decide) (by decide)
      have s1 := ((FeS.self hay).mul z22 (by decide) (by decide)).mul (FeS.self hbz) (by decide) (by decide)
      have s2 := ((FeS.self hby).mul z12 (by decide) (by decide)).mul (FeS.self haz) (by decide) (by decide)
      obtain ⟨u1n, u1d⟩ := u1.norm (by decide)
      obtain ⟨u2n, u2d⟩ := u2.norm (by decide)
      obtain ⟨s1n, s1d⟩ := s1.norm (by decide)
      obtain ⟨s2n, s2d⟩ := s2.norm (by decide)
      have hequ := equals_normd u1d u2d
      rw [u1n.2, u2n.2] at hequ
      have heqs := equals_normd s1d s2d
      rw [s1n.2, s2n.2] at heqs
      rw [XYZ.toPoint_fin hia, XYZ.toPoint_fin hib, secp_add_F]
      by_cases hU : a.x.z * (b.z.z * b.z.z) = b.x.z * (a.z.z * a.z.z)
      · rw [if_pos (hequ.2 hU), if_pos ((div_sq_eq_iff hz1 hz2).2 hU)]
        by_cases hS : a.y.z * (b.z.z * b.z.z) * b.z.z = b.y.z * (a.z.z * a.z.z) * a.z.z
        · rw [if_pos (heqs.2 hS), if_pos ((div_cu_eq_iff hz1 hz2).2 hS)]
          have hd := double_ok a ⟨hax, hay, haz, haz0⟩
          rw [XYZ.toPoint_fin hia] at hd
          exact hd
        · rw [if_neg (fun h => hS (heqs.1 h)), if_neg (fun h => hS ((div_cu_eq_iff hz1 hz2).1 h))]
          exact ⟨⟨hax, hay, haz, fun h => by simp at h⟩, XYZ.toPoint_inf rfl⟩
      · rw [if_neg (fun h => hU (hequ.1 h)), if_neg (fun h => hU ((div_sq_eq_iff hz1 hz2).1 h))]
        have hzm : ∀ (h : Fe) (H : F), FeS h 3 H → FeS (mul (mul a.z b.z) h) 1 (a.z.z * b.z.z * H) :=
          fun h H hh => ((FeS.self haz).mul (FeS.self hbz) (by decide) (by decide)).mul hh (by decide) (by decide)
        obtain ⟨rx, ry, rz, ri⟩ := addTail_S (fun h => mul (mul a.z b.z) h) u1n u2n s1 s2 hzm
        have hw : a.z.z * b.z.z ≠ 0 := mul_ne_zero hz1 hz2
        obtain ⟨hrz0, e1, e2⟩ := add_alg (a.x.z / a.z.z ^ 2) (a.y.z / a.z.z ^ 3) (b.x.z / b.z.z ^ 2) (b.y.z / b.z.z ^ 3)
          (a.z.z * b.z.z) _ _ _ _ _ _ _ hw (fun h => hU ((div_sq_eq_iff hz1 hz2).1 h))
          (by field_simp) (by field_simp) (by field_simp) (by field_simp) rz.2 rx.2 (ry.2.trans (by rw [rx.2]))
        refine ⟨XYZ.okOut.ok ⟨rx.1, ry.1, rz.1, fun _ => hrz0⟩, ?_⟩
        rw [XYZ.toPoint_fin ri, e1, e2]

theorem XY.toPoint_fin {b : XY} (h : b.inf = false) : b.toPoint = ptF b.x.z b.y.z := by
  unfold XY.toPoint; simp [h]

theorem XY.toPoint_inf {b : XY} (h : b.inf = true) : b.toPoint = none := by
  unfold XY.toPoint; simp [h]

/-- `XYZ.AddXY` (Jacobian + affine) is the addition of the reference group law, including ∞ + Q, P + ∞,
    P + P (→ Double) and P + (−P) (→ ∞), and keeps the contract -/
theorem addXY_ok (a : XYZ) (b : XY) (ha : a.ok) (hb : b.ok) :
    (XYZ.addXY a b).ok ∧ (XYZ.addXY a b).toPoint = Secp.add a.toPoint b.toPoint := by
  unfold XYZ.addXY
  obtain ⟨hbx, hby⟩ := hb
  cases hia : a.inf with
  | true =>
    simp only [if_true]
    have one := FeS.ofInt 1 (by decide)
    rw [XYZ.toPoint_inf hia]
    refine ⟨⟨mag_mono hbx (by decide), mag_mono hby (by decide), mag_mono one.1 (by decide), fun _ => ?_⟩, ?_⟩
    · show (setInt 1).z ≠ 0
      rw [one.2, Nat.cast_one]; exact one_ne_zero
    · cases hib : b.inf with
      | true => rw [XY.toPoint_inf hib]; exact XYZ.toPoint_inf rfl
      | false =>
        rw [XY.toPoint_fin hib, XYZ.toPoint_fin rfl]
        show ptF (b.x.z / (setInt 1).z ^ 2) (b.y.z / (setInt 1).z ^ 3) = _
        rw [one.2, Nat.cast_one, one_pow, one_pow, div_one, div_one]; rfl
  | false =>
    cases hib : b.inf with
    | true =>
      simp only [Bool.false_eq_true, if_false, if_true]
      exact ⟨ha, by rw [XY.toPoint_inf hib, XYZ.toPoint_fin hia]; rfl⟩
    | false =>
      simp only [Bool.false_eq_true, if_false]
      obtain ⟨hax, hay, haz, haz0⟩ := ha
      have hz1 := haz0 hia
      have z12 := (FeS.self haz).sqr (by decide)
      obtain ⟨u1a, _⟩ := (FeS.self hax).norm (by decide)
      have u2 := (FeS.self hbx).mul z12 (by decide) (by decide)
      obtain ⟨s1, _⟩ := (FeS.self hay).norm (by decide)
      have s2 := ((FeS.self hby).mul z12 (by decide) (by decide)).mul (FeS.self haz) (by decide) (by decide)
      obtain ⟨u1n, u1d⟩ := u1a.norm (by decide)
      obtain ⟨u2n, u2d⟩ := u2.norm (by decide)
      obtain ⟨s1n, s1d⟩ := s1.norm (by decide)
      obtain ⟨s2n, s2d⟩ := s2.norm (by decide)
      have hequ := equals_normd u1d u2d
      rw [u1n.2, u2n.2] at hequ
      have heqs := equals_normd s1d s2d
      rw [s1n.2, s2n.2] at heqs
      have hxe : a.x.z / a.z.z ^ 2 = b.x.z ↔ a.x.z = b.x.z * (a.z.z * a.z.z) := by
        rw [div_eq_iff (pow_ne_zero _ hz1), pow_two]
      have hye : a.y.z / a.z.z ^ 3 = b.y.z ↔ a.y.z = b.y.z * (a.z.z * a.z.z) * a.z.z := by
        rw [div_eq_iff (pow_ne_zero _ hz1)]
        constructor <;> intro h <;> linear_combination h
      rw [XYZ.toPoint_fin hia, XY.toPoint_fin hib, secp_add_F]
      by_cases hU : a.x.z = b.x.z * (a.z.z * a.z.z)
      · rw [if_pos (hequ.2 hU), if_pos (hxe.2 hU)]
        by_cases hS : a.y.z = b.y.z * (a.z.z * a.z.z) * a.z.z
        · rw [if_pos (heqs.2 hS), if_pos (hye.2 hS)]
          have hd := double_ok a ⟨hax, hay, haz, haz0⟩
          rw [XYZ.toPoint_fin hia] at hd
          exact hd
        · rw [if_neg (fun h => hS (heqs.1 h)), if_neg (fun h => hS (hye.1 h))]
          exact ⟨⟨hax, hay, haz, fun h => by simp at h⟩, XYZ.toPoint_inf rfl⟩
      · rw [if_neg (fun h => hU (hequ.1 h)), if_neg (fun h => hU (hxe.1 h))]
        have hzm : ∀ (h : Fe) (H : F), FeS h 3 H → FeS (mul a.z h) 1 (a.z.z * H) :=
          fun h H hh => (FeS.self haz).mul hh (by decide) (by decide)
        obtain ⟨rx, ry, rz, ri⟩ := addTail_S (fun h => mul a.z h) u1n u2n s1 s2 hzm
        obtain ⟨hrz0, e1, e2⟩ := add_alg (a.x.z / a.z.z ^ 2) (a.y.z / a.z.z ^ 3) b.x.z b.y.z
          a.z.z _ _ _ _ _ _ _ hz1 (fun h => hU (hxe.1 h))
          (by field_simp) (by ring) (by field_simp) (by ring) rz.2 rx.2 (ry.2.trans (by rw [rx.2]))
        refine ⟨XYZ.okOut.ok ⟨rx.1, ry.1, rz.1, fun _ => hrz0⟩, ?_⟩
        rw [XYZ.toPoint_fin ri, e1, e2]

theorem secp_neg_F (x y : F) : Secp.neg (ptF x y) = ptF x (-y) := by
  unfold ptF Secp.neg
  simp only [secp_p_eq]
  congr 2

theorem XYZ.neg_x (a : XYZ) : (XYZ.neg a).x = a.x := by cases a; rfl
theorem XYZ.neg_z (a : XYZ) : (XYZ.neg a).z = a.z := by cases a; rfl
theorem XYZ.neg_inf (a : XYZ) : (XYZ.neg a).inf = a.inf := by cases a; rfl
theorem XYZ.neg_y (a : XYZ) : (XYZ.neg a).y = negate (normalize a.y) 1 := by cases a; rfl

/-- `XYZ.Neg` over its FULL input contract: X and Z are only copied (no hypothesis at all), Y is normalised first, so
    every Y within `Normalize`'s contract (magnitude ≤ 32 — in particular every Y that Mul/Sqr accept, magnitude ≤ 8,
    and every Y the library produces, ≤ 4) is admitted: X, Z, Infinity unchanged, new Y of magnitude ≤ 2, and the
    triple stands for the negated point. -/
theorem neg_full (a : XYZ) (hay : a.y.mag 32) :
    (XYZ.neg a).x = a.x ∧ (XYZ.neg a).z = a.z ∧ (XYZ.neg a).inf = a.inf ∧ (XYZ.neg a).y.mag 2 ∧
    (XYZ.neg a).toPoint = Secp.neg a.toPoint := by
  obtain ⟨yn, _⟩ := (FeS.self hay).norm (by decide)
  have y' := yn.neg 1 (by decide) (by decide)
  refine ⟨XYZ.neg_x a, XYZ.neg_z a, XYZ.neg_inf a, by rw [XYZ.neg_y]; exact y'.1, ?_⟩
  cases hia : a.inf with
  | true => rw [XYZ.toPoint_inf (by rw [XYZ.neg_inf]; exact hia), XYZ.toPoint_inf hia]; rfl
  | false =>
    rw [XYZ.toPoint_fin (by rw [XYZ.neg_inf]; exact hia), XYZ.toPoint_fin hia, secp_neg_F,
      XYZ.neg_x, XYZ.neg_z, XYZ.neg_y, y'.2, neg_div]

/-- `XYZ.Neg` is the negation of the reference group law and keeps the contract -/
theorem neg_ok (a : XYZ) (ha : a.ok) : (XYZ.neg a).ok ∧ (XYZ.neg a).toPoint = Secp.neg a.toPoint := by
  obtain ⟨hax, hay, haz, haz0⟩ := ha
  obtain ⟨ex, ez, ei, hy, hp⟩ := neg_full a (mag_mono hay (by decide))
  refine ⟨⟨by rw [ex]; exact hax, mag_mono hy (by decide), by rw [ez]; exact haz, ?_⟩, hp⟩
  rw [ei, ez]; exact haz0

theorem XY.neg_x (b : XY) : (XY.neg b).x = b.x := by cases b; rfl
theorem XY.neg_inf (b : XY) : (XY.neg b).inf = b.inf := by cases b; rfl
theorem XY.neg_y (b : XY) : (XY.neg b).y = negate (normalize b.y) 1 := by cases b; rfl

/-- `XY.Neg` (affine) over its FULL input contract: X copied (no hypothesis), any Y of magnitude ≤ 32 -/
theorem negXY_full (b : XY) (hby : b.y.mag 32) :
    (XY.neg b).x = b.x ∧ (XY.neg b).inf = b.inf ∧ (XY.neg b).y.mag 2 ∧ (XY.neg b).toPoint = Secp.neg b.toPoint := by
  obtain ⟨yn, _⟩ := (FeS.self hby).norm (by decide)
  have y' := yn.neg 1 (by decide) (by decide)
  refine ⟨XY.neg_x b, XY.neg_inf b, by rw [XY.neg_y]; exact y'.1, ?_⟩
  cases hib : b.inf with
  | true => rw [XY.toPoint_inf (by rw [XY.neg_inf]; exact hib), XY.toPoint_inf hib]; rfl
  | false =>
    rw [XY.toPoint_fin (by rw [XY.neg_inf]; exact hib), XY.toPoint_fin hib, secp_neg_F, XY.neg_x, XY.neg_y, y'.2]

/-- `XY.Neg` (affine) keeps the contract -/
theorem negXY_ok (b : XY) (hb : b.ok) : (XY.neg b).ok ∧ (XY.neg b).toPoint = Secp.neg b.toPoint := by
  obtain ⟨hbx, hby⟩ := hb
  obtain ⟨ex, _, hy, hp⟩ := negXY_full b (mag_mono hby (by decide))
  exact ⟨⟨by rw [ex]; exact hbx, mag_mono hy (by decide)⟩, hp⟩

/-- `XYZ.SetXY`: an affine point as a Jacobian one (Z = 1) -/
theorem ofXY_ok (b : XY) (hb : b.ok) : (XYZ.ofXY b).ok ∧ (XYZ.ofXY b).toPoint = b.toPoint := by
  obtain ⟨hbx, hby⟩ := hb
  have one := FeS.ofInt 1 (by decide)
  unfold XYZ.ofXY
  refine ⟨⟨mag_mono hbx (by decide), mag_mono hby (by decide), mag_mono one.1 (by decide), fun _ => ?_⟩, ?_⟩
  · show (setInt 1).z ≠ 0
    rw [one.2, Nat.cast_one]; exact one_ne_zero
  · cases hib : b.inf with
    | true => rw [XY.toPoint_inf hib]; exact XYZ.toPoint_inf rfl
    | false =>
      rw [XY.toPoint_fin hib, XYZ.toPoint_fin rfl]
      show ptF (b.x.z / (setInt 1).z ^ 2) (b.y.z / (setInt 1).z ^ 3) = _
      rw [one.2, Nat.cast_one, one_pow, one_pow, div_one, div_one]
end GocoinV.C08
