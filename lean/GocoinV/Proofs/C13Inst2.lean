/-
  Proofs.C13Inst2 — a concrete instance of ALL hypotheses of `send_signatures_verify` (Props/C13.lean): a whole -send run
  with TWO keys (secrets 1 and 2) and TWO inputs of DIFFERENT types - the P2PKH output of key 0 (30000 sat) and the
  P2WPKH output of key 1 (40000 sat) - paying 0.0006 BTC to bc1qw508d6qejxtdg4y5r3zarvary0c5xw7kv8f3t4 with fee 1000: both
  coins are selected, the 9000 sat change goes to the first coin's script. `hcalls` / `no_clash` quantify over every key of
  the table for every input, so they are discharged for all four (input, key) pairs. Real / toy split as in C13Inst.lean.
-/
import GocoinV.Proofs.C13Inst
import GocoinV.Proofs.C13Own
namespace GocoinV.WalletTx.Inst2
open GocoinV GocoinV.WalletTx GocoinV.WalletSpec GocoinV.Proofs.C13L GocoinV.Model
open GocoinV.WalletTx.Inst (toySha Ht signOk_of_eval hashLenI)

def K2 : C03Signer := { secs := [1, 2], nonce := fun _ _ => 2, aux := fun _ _ => [], tagged := fun _ => beBytes 32 2 }
def c2 : Cfg :=
  { testnet := false, bech32 := false, fee := 1000, subfee := false, useAll := false, seq := 4294967293,
    lockTime := 0, version := 2, change := none, msg := [] }
abbrev ks2 : List KeyRec := keyTable Ht c2.bech32 K2.pubs
def kr0 : KeyRec := mkKey Ht false (Secp.ser33 (Secp.mul 1 Secp.G))
def kr1 : KeyRec := mkKey Ht false (Secp.ser33 (Secp.mul 2 Secp.G))
def coinA : Coin := { txid := List.replicate 32 9, vout := 1, value := 30000, script := p2pkhScript kr0.h160 }
def coinB : Coin := { txid := List.replicate 32 8, vout := 0, value := 40000, script := p2wpkhScript kr1.h160 }
def send2 : Bytes := strBytes "bc1qw508d6qejxtdg4y5r3zarvary0c5xw7kv8f3t4=0.0006"
def okReq (r : Except Fail Req) : Option Req := match r with | .ok q => some q | _ => none
def req2 : Req := (okReq (sendRequest Ht c2 (some send2) none)).getD ([], 0)
def dummyBuilt : Built := { tx := ⟨0, [], [], none, 0⟩, spent := [], rest := [], change := 0 }
def okBuilt (r : Except Fail Built) : Option Built := match r with | .ok b => some b | _ => none
def b2 : Built := (okBuilt (build Ht c2 ks2 [coinA, coinB] req2)).getD dummyBuilt
abbrev WC2 : Crypto := c02Crypto toySha Ht.hash160 (Sig.ecdsaVerify true) (Sig.schnorrVerify K2.tagged)
def uoA : TxOut := { value := 30000, script := p2pkhScript kr0.h160 }
def uoB : TxOut := { value := 40000, script := p2wpkhScript kr1.h160 }

theorem keys2 : ks2[0]? = some kr0 ∧ ks2[1]? = some kr1 := by decide +kernel

theorem twoKeys {P : Nat → KeyRec → Prop} (h0 : P 0 kr0) (h1 : P 1 kr1) : ∀ j kr, ks2[j]? = some kr → P j kr := by
  intro j kr hk
  cases j with
  | zero => rw [keys2.1] at hk; cases hk; exact h0
  | succ j =>
    cases j with
    | zero => rw [keys2.2] at hk; cases hk; exact h1
    | succ j => simp [ks2, keyTable, K2, C03Signer.pubs] at hk

theorem hreq2 : sendRequest Ht c2 (some send2) none = .ok req2 := by
  have h : (okReq (sendRequest Ht c2 (some send2) none)).isSome = true := by decide +kernel
  unfold req2
  cases hs : sendRequest Ht c2 (some send2) none with
  | ok r => simp [okReq]
  | error e => rw [hs] at h; simp [okReq] at h

theorem hb2 : build Ht c2 ks2 [coinA, coinB] req2 = .ok b2 := by
  have h : (okBuilt (build Ht c2 ks2 [coinA, coinB] req2)).isSome = true := by decide +kernel
  unfold b2
  cases hs : build Ht c2 ks2 [coinA, coinB] req2 with
  | ok r => simp [okBuilt]
  | error e => rw [hs] at h; simp [okBuilt] at h

theorem spent2 : spentOuts b2 = [uoA, uoB] := by decide +kernel

def dummyW : Written := { tx := ⟨0, [], [], none, 0⟩, file := [], txid := [], applied := false, unspentAfter := [], change := 0 }
def okW (r : Except Fail (Option Written)) : Option Written := match r with | .ok (some w) => some w | _ => none
def w2 : Written :=
  (okW (runSend Ht c2 ks2 true [coinA, coinB] (some send2) none (sigOf WC2 K2.signer (spentOuts b2)))).getD dummyW

theorem hrun2 : runSend Ht c2 ks2 true [coinA, coinB] (some send2) none (sigOf WC2 K2.signer (spentOuts b2)) = .ok (some w2) := by
  have h : (okW (runSend Ht c2 ks2 true [coinA, coinB] (some send2) none (sigOf WC2 K2.signer (spentOuts b2)))).isSome = true := by
    decide +kernel
  unfold w2
  cases hs : runSend Ht c2 ks2 true [coinA, coinB] (some send2) none (sigOf WC2 K2.signer (spentOuts b2)) with
  | ok r =>
    cases r with
    | some w => simp [okW]
    | none => rw [hs] at h; simp [okW] at h
  | error e => rw [hs] at h; simp [okW] at h

theorem hbal2 : ownedSum ks2 [coinA, coinB] < 2^64 := by decide +kernel
theorem keysOk2 : ∀ d ∈ K2.secs, 0 < d ∧ d < Secp.n := by
  intro d hd; simp [K2] at hd; rcases hd with rfl | rfl <;> exact ⟨by decide, by decide⟩
theorem nonzero2 : ∀ (k : Nat) (kr : KeyRec), ks2[k]? = some kr →
    ScriptSpec.castToBool kr.h160 = true ∧ ScriptSpec.castToBool ((kr.pub.drop 1).take 32) = true :=
  twoKeys (P := fun _ kr => ScriptSpec.castToBool kr.h160 = true ∧ ScriptSpec.castToBool ((kr.pub.drop 1).take 32) = true)
    (by decide +kernel) (by decide +kernel)
theorem haddr2 : ∀ u ∈ b2.spent, (Addr.fromPkScript Ht u.script c2.testnet).isSome := by
  have : b2.spent.all (fun u => (Addr.fromPkScript Ht u.script c2.testnet).isSome) = true := by decide +kernel
  intro u hu; exact (List.all_eq_true.mp this) u hu

theorem spentCases {P : Nat → TxOut → Prop} (hA : P 0 uoA) (hB : P 1 uoB) :
    ∀ i uo, (spentOuts b2)[i]? = some uo → P i uo := by
  intro i uo hi
  rw [spent2] at hi
  cases i with
  | zero => simp at hi; subst hi; exact hA
  | succ i =>
    cases i with
    | zero => simp at hi; subst hi; exact hB
    | succ i => simp at hi

theorem callsA0 : CallsOk WC2 K2 (skeleton b2.tx) (spentOuts b2) 0 uoA 0 kr0.h160 :=
  ⟨fun _ => signOk_of_eval _ _ _ (by decide +kernel), fun h => absurd h (by decide +kernel), fun h => absurd h (by decide +kernel)⟩
theorem callsA1 : CallsOk WC2 K2 (skeleton b2.tx) (spentOuts b2) 0 uoA 1 kr1.h160 :=
  ⟨fun _ => signOk_of_eval _ _ _ (by decide +kernel), fun h => absurd h (by decide +kernel), fun h => absurd h (by decide +kernel)⟩
theorem callsB0 : CallsOk WC2 K2 (skeleton b2.tx) (spentOuts b2) 1 uoB 0 kr0.h160 :=
  ⟨fun h => absurd h (by decide +kernel), fun _ => signOk_of_eval _ _ _ (by decide +kernel), fun h => absurd h (by decide +kernel)⟩
theorem callsB1 : CallsOk WC2 K2 (skeleton b2.tx) (spentOuts b2) 1 uoB 1 kr1.h160 :=
  ⟨fun h => absurd h (by decide +kernel), fun _ => signOk_of_eval _ _ _ (by decide +kernel), fun h => absurd h (by decide +kernel)⟩

theorem calls2 : ∀ i uo, (spentOuts b2)[i]? = some uo → ∀ j kr, ks2[j]? = some kr →
    CallsOk WC2 K2 (skeleton b2.tx) (spentOuts b2) i uo j kr.h160 := by
  apply spentCases
  · exact twoKeys callsA0 callsA1
  · exact twoKeys callsB0 callsB1

theorem clashA0 : K2.signer.ecdsa 0 (WC2.legacyDigest (skeleton b2.tx) 0 uoA.script 1) ++ [1] ≠ kr0.h160 := by decide +kernel
theorem clashA1 : K2.signer.ecdsa 1 (WC2.legacyDigest (skeleton b2.tx) 0 uoA.script 1) ++ [1] ≠ kr1.h160 := by decide +kernel
theorem clashB0 : K2.signer.ecdsa 0 (WC2.legacyDigest (skeleton b2.tx) 1 uoB.script 1) ++ [1] ≠ kr0.h160 := by decide +kernel
theorem clashB1 : K2.signer.ecdsa 1 (WC2.legacyDigest (skeleton b2.tx) 1 uoB.script 1) ++ [1] ≠ kr1.h160 := by decide +kernel
theorem clash2 : ∀ i uo, (spentOuts b2)[i]? = some uo → ∀ j kr, ks2[j]? = some kr →
    K2.signer.ecdsa j (WC2.legacyDigest (skeleton b2.tx) i uo.script 1) ++ [1] ≠ kr.h160 := by
  apply spentCases
  · exact twoKeys clashA0 clashA1
  · exact twoKeys clashB0 clashB1

end GocoinV.WalletTx.Inst2
