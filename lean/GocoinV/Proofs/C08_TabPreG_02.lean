/- C08 table proof chunk (written once by Proofs/mk_c08_tab.py; static). -/
import GocoinV.Proofs.C08_TabDefs
import GocoinV.Gen.TablesPreG02
import GocoinV.Gen.TablesPreG01
namespace GocoinV.C08
open GocoinV.Gen

theorem preG_02 : chainOK (Secp.dbl Secp.G) ((pts Tables.preG01).getLastD none :: pts Tables.preG02) = true := by
  decide +kernel
theorem preG_02_ne : pts Tables.preG02 ≠ [] := by decide +kernel

end GocoinV.C08
