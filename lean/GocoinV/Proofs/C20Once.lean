/-
  Proofs.C20Once — over a whole DefragAllImproved pass the relocate callback is invoked exactly once per
  moved allocation: invariant `Once` on the relocation log and its preservation by every step of the pass.
-/
import GocoinV.Proofs.C20Inv
namespace GocoinV.Alloc
open GocoinV.Gen.MemClasses
variable {V : Type}

/-- s0 = state when the pass started (log empty), t = current state, B = bound on the classes whose pages
    hold relocated allocations so far. -/
structure Once (s0 t : State V) (B : Nat) : Prop where
  olds_nodup : (t.relog.map Prod.fst).Nodup
  entry : ∀ o n, (o, n) ∈ t.relog →
    ∃ l, s0.live.get? o = some l ∧ t.live.get? o = none ∧ t.live.get? n = some l
  olds_page : ∀ o n, (o, n) ∈ t.relog →
    ∃ p j, o = .sh p j ∧ p < t.nextPage ∧ ∀ h, t.pages.get? p = some h → h.evac = true
  news_page : ∀ o n, (o, n) ∈ t.relog →
    ∃ p j, n = .sh p j ∧ ∀ h, t.pages.get? p = some h → h.evac = false ∧ h.cls < B
  rest : ∀ a l, t.live.get? a = some l →
    (∃ o, (o, a) ∈ t.relog) ∨ (s0.live.get? a = some l ∧ ∀ n, (a, n) ∉ t.relog)
  orig : ∀ a l, s0.live.get? a = some l → (∃ n, (a, n) ∈ t.relog) ∨ t.live.get? a = some l

theorem Once.mono {s0 t : State V} {B B' : Nat} (o : Once s0 t B) (h : B ≤ B') : Once s0 t B' :=
  ⟨o.olds_nodup, o.entry, o.olds_page, fun a n m => by
      obtain ⟨p, j, e, f⟩ := o.news_page a n m
      exact ⟨p, j, e, fun hh x => ⟨(f hh x).1, Nat.lt_of_lt_of_le (f hh x).2 h⟩⟩,
    o.rest, o.orig⟩

theorem Once.start (s : State V) (B : Nat) : Once s ({ s with relog := [] } : State V) B :=
  ⟨by simp, by intro o n m; simp at m, by intro o n m; simp at m, by intro o n m; simp at m,
   fun a l h => Or.inr ⟨h, by intro n m; simp at m⟩, fun a l h => Or.inr h⟩

/-- steps that do not move an allocation: beginEvac, a skipped slot, endEvac -/
theorem Once.pagesOnly {s0 t t' : State V} {B : Nat} (o : Once s0 t B)
    (h1 : t'.live = t.live) (h2 : t'.relog = t.relog) (h3 : t.nextPage ≤ t'.nextPage)
    (h4 : ∀ q h', t'.pages.get? q = some h' →
        (∃ h, t.pages.get? q = some h ∧ h'.cls = h.cls ∧ (h'.evac = h.evac ∨ (h'.evac = true ∧ B ≤ h.cls))) ∨
        (t.pages.get? q = none ∧ t.nextPage ≤ q ∧ h'.evac = false ∧ h'.cls < B)) : Once s0 t' B := by
  refine ⟨by rw [h2]; exact o.olds_nodup, ?_, ?_, ?_, ?_, ?_⟩
  · intro a n m; rw [h2] at m; rw [h1]; exact o.entry a n m
  · intro a n m; rw [h2] at m
    obtain ⟨p, j, e, f1, f2⟩ := o.olds_page a n m
    refine ⟨p, j, e, Nat.lt_of_lt_of_le f1 h3, ?_⟩
    intro h' x
    rcases h4 p h' x with ⟨h, y1, _, y3⟩ | ⟨_, y2, _⟩
    · rcases y3 with y | y
      · rw [y]; exact f2 h y1
      · exact y.1
    · omega
  · intro a n m; rw [h2] at m
    obtain ⟨p, j, e, f⟩ := o.news_page a n m
    refine ⟨p, j, e, ?_⟩
    intro h' x
    rcases h4 p h' x with ⟨h, y1, y2, y3⟩ | ⟨_, _, y3, y4⟩
    · have := f h y1
      rcases y3 with y | y
      · exact ⟨by rw [y]; exact this.1, by rw [y2]; exact this.2⟩
      · omega
    · exact ⟨y3, y4⟩
  · intro a l x; rw [h1] at x; rw [h2]; exact o.rest a l x
  · intro a l x; rw [h1, h2]; exact o.orig a l x

theorem mem_fst_of_mem {α β : Type} {l : List (α × β)} {a : α} {b : β} (h : (a, b) ∈ l) :
    a ∈ l.map Prod.fst := List.mem_map.2 ⟨(a, b), h, rfl⟩

/-- one iteration of the slot loop -/
theorem moveNext_once {s0 t t' : State V} {c pg B : Nat} (inv : InvG t) (hc : c < nClasses) (hB : c < B)
    (hcls : ∀ h, t.pages.get? pg = some h → h.evac = true → h.cls = c)
    (hr : moveNext t c pg = .ok t') (o : Once s0 t B) : Once s0 t' B := by
  obtain ⟨_, _, _, j4, j5, ⟨P1, P2, P3, P4⟩, f⟩ := moveNext_invG inv hc hcls hr
  obtain ⟨h, h', x1, x2, _, _, x5, x6, x7, _⟩ := j4
  rcases f with ⟨f1, f2, _⟩ | ⟨i, new, lo, f1, f2, f3, f4, f5, f6, _⟩
  · -- nothing moved
    refine o.pagesOnly f1 f2 P2 ?_
    intro q hq' y
    rcases P1 q hq' y with ⟨hq, y1, y2, y3⟩ | ⟨y1, y2, y3, y4⟩
    · exact Or.inl ⟨hq, y1, y2.symm, Or.inl y3.symm⟩
    · exact Or.inr ⟨y1, y2, y3, by omega⟩
  · -- allocation old = (pg, i) moved to new
    have hpgev : h.evac = true := x6
    have old_not_new_page : ∀ p j, Addr.sh pg i = .sh p j →
        (∀ hh, t.pages.get? p = some hh → hh.evac = false ∧ hh.cls < B) → False := by
      intro p j e ff; cases e
      have := (ff h x1).1; rw [hpgev] at this; cases this
    have old_no_entry : ∀ n, (Addr.sh pg i, n) ∉ t.relog := by
      intro n m
      obtain ⟨l, _, e2, _⟩ := o.entry _ _ m
      rw [f1] at e2; cases e2
    obtain ⟨np, ni, hn, e1, e2, e3, e4⟩ := P4 _ _ f3
    have mem' : ∀ x, x ∈ t'.relog ↔ (x = (Addr.sh pg i, new) ∨ x ∈ t.relog) := by
      intro x; rw [f3]; simp
    -- an old address of the log is never the new slot
    have old_ne_new : ∀ a n, (a, n) ∈ t.relog → a ≠ new := by
      intro a n m e
      obtain ⟨p, j, ea, lt, ff⟩ := o.olds_page a n m
      rw [e, e1] at ea; cases ea
      rcases P1 np hn e2 with ⟨hq, y1, _, y3⟩ | ⟨_, y2, _⟩
      · have := ff hq y1; rw [y3, e3] at this; cases this
      · omega
    refine ⟨?_, ?_, ?_, ?_, ?_, ?_⟩
    · rw [f3]; simp only [List.map_cons]
      exact List.nodup_cons.2 ⟨fun m => by
        obtain ⟨⟨a, n⟩, m1, m2⟩ := List.mem_map.1 m
        simp only at m2; subst m2
        exact old_no_entry n m1, o.olds_nodup⟩
    · intro a n m
      rcases (mem' _).1 m with e | m
      · cases e
        refine ⟨lo, ?_, f5, f4⟩
        rcases o.rest _ _ f1 with ⟨a', m'⟩ | ⟨x, _⟩
        · obtain ⟨p, j, ee, ff⟩ := o.news_page _ _ m'
          exact absurd (old_not_new_page p j ee ff) id
        · exact x
      · obtain ⟨l, g1, g2, g3⟩ := o.entry a n m
        have a_ne_old : a ≠ .sh pg i := fun e => old_no_entry n (by rw [← e]; exact m)
        have n_ne_new : n ≠ new := fun e => f2 (by rw [← e]; simp [State.isLive, g3])
        have n_ne_old : n ≠ .sh pg i := by
          intro e
          obtain ⟨p, j, ee, ff⟩ := o.news_page a n m
          rw [e] at ee; exact old_not_new_page p j ee ff
        exact ⟨l, g1, by rw [f6 a (old_ne_new a n m) a_ne_old]; exact g2,
          by rw [f6 n n_ne_new n_ne_old]; exact g3⟩
    · intro a n m
      rcases (mem' _).1 m with e | m
      · cases e
        refine ⟨pg, i, rfl, Nat.lt_of_lt_of_le (inv.pages pg h x1).lt_next P2, ?_⟩
        intro hh y; rw [x2] at y; cases y; exact x5
      · obtain ⟨p, j, ea, lt, ff⟩ := o.olds_page a n m
        refine ⟨p, j, ea, Nat.lt_of_lt_of_le lt P2, ?_⟩
        intro hh y
        rcases P1 p hh y with ⟨hq, y1, _, y3⟩ | ⟨_, y2, _⟩
        · rw [← y3]; exact ff hq y1
        · omega
    · intro a n m
      rcases (mem' _).1 m with e | m
      · cases e
        refine ⟨np, ni, e1, ?_⟩
        intro hh y; rw [e2] at y; cases y; exact ⟨e3, by omega⟩
      · obtain ⟨p, j, en, ff⟩ := o.news_page a n m
        refine ⟨p, j, en, ?_⟩
        intro hh y
        rcases P1 p hh y with ⟨hq, y1, y2, y3⟩ | ⟨_, _, y3, y4⟩
        · have := ff hq y1; exact ⟨by rw [← y3]; exact this.1, by rw [← y2]; exact this.2⟩
        · exact ⟨y3, by omega⟩
    · intro a l x
      by_cases ea : a = new
      · exact Or.inl ⟨.sh pg i, by rw [ea]; exact (mem' _).2 (Or.inl rfl)⟩
      · have a_ne_old : a ≠ .sh pg i := fun e => by rw [e, f5] at x; cases x
        rw [f6 a ea a_ne_old] at x
        rcases o.rest a l x with ⟨a', m⟩ | ⟨y, z⟩
        · exact Or.inl ⟨a', (mem' _).2 (Or.inr m)⟩
        · refine Or.inr ⟨y, ?_⟩
          intro n m
          rcases (mem' _).1 m with e | m
          · cases e; exact a_ne_old rfl
          · exact z n m
    · intro a l x
      rcases o.orig a l x with ⟨n, m⟩ | y
      · exact Or.inl ⟨n, (mem' _).2 (Or.inr m)⟩
      · by_cases ea : a = .sh pg i
        · exact Or.inl ⟨new, by rw [ea]; exact (mem' _).2 (Or.inl rfl)⟩
        · have : a ≠ new := fun e => f2 (by rw [← e]; simp [State.isLive, y])
          exact Or.inr (by rw [f6 a this ea]; exact y)


theorem beginEvac_pages {s s' : State V} {c pg : Nat} (hr : beginEvac s c pg = .ok s') :
    s'.nextPage = s.nextPage ∧ ∀ q h', s'.pages.get? q = some h' →
      ∃ h, s.pages.get? q = some h ∧ h'.cls = h.cls ∧ (h'.evac = h.evac ∨ (h'.evac = true ∧ h.cls = c)) := by
  unfold beginEvac at hr
  cases hp : s.pages.get? pg with
  | none => simp [hp] at hr
  | some h =>
  simp only [hp] at hr
  split at hr
  · cases hr
  · next hcond =>
    simp only [not_or, Decidable.not_not, Bool.not_eq_true] at hcond
    cases hr
    refine ⟨rfl, ?_⟩
    intro q h' y
    simp only [KMap.get?_set] at y
    split at y
    · next e => subst e; cases y; exact ⟨h, hp, rfl, Or.inr ⟨rfl, hcond.1⟩⟩
    · exact ⟨h', y, rfl, Or.inl rfl⟩

theorem endEvac_next {s s' : State V} {c pg : Nat} (hr : endEvac s c pg = .ok s') :
    s'.nextPage = s.nextPage := by
  unfold endEvac at hr
  cases hp : s.pages.get? pg with
  | none => simp [hp] at hr
  | some h =>
  simp only [hp] at hr
  split at hr
  · cases hr
  · cases hr; rfl

theorem evacPage_once {s0 s s' : State V} {c pg B : Nat} {E : List Nat} (hc : c < nClasses) (hB : c < B)
    (d : DInv s c E) (o : Once s0 s B) (hr : evacPage s c pg = .ok s') : Once s0 s' B := by
  unfold evacPage at hr
  cases hp : s.pages.get? pg with
  | none => simp [hp] at hr
  | some h =>
  simp only [hp] at hr
  cases hi : iter (fun s => moveNext s c pg) h.brk s with
  | error e => simp [hi] at hr
  | ok s1 =>
  simp only [hi] at hr
  have d1 : DInv s1 c E ∧ Once s0 s1 B := by
    refine iter_inv (fun s => DInv s c E ∧ Once s0 s B) _ ?_ h.brk s s1 ⟨d, o⟩ hi
    intro t t' ⟨dt, ot⟩ ht
    exact ⟨moveNext_dinv hc dt ht,
      moveNext_once dt.g hc hB (fun h0 a b => (dt.evac pg h0 a b).2) ht ot⟩
  obtain ⟨_, k2, _, k4, _, k6⟩ := endEvac_invG d1.1.g hr
  refine d1.2.pagesOnly k2 k4 (by rw [endEvac_next hr]; exact Nat.le_refl _) ?_
  intro q h' y
  exact Or.inl ⟨h', (k6 q h' y).2, rfl, Or.inl rfl⟩

theorem defragClass_once {s0 s s' : State V} {c : Nat} {ev : List Nat} (hc : c < nClasses) (inv : Inv s)
    (o : Once s0 s c) (hr : defragClass s c ev = .ok s') : Once s0 s' (c + 1) := by
  unfold defragClass at hr
  simp only [] at hr
  split at hr
  · split at hr
    · cases hr; exact o.mono (Nat.le_succ _)
    · cases hr
  · split at hr
    · split at hr
      · cases hr; exact o.mono (Nat.le_succ _)
      · cases hr
    · split at hr
      · cases hr
      · cases h1 : foldE (fun s pg => beginEvac s c pg) s ev with
        | error e => simp [h1] at hr
        | ok s1 =>
          simp only [h1] at hr
          have p1 : DInv s1 c ev ∧ Once s0 s1 c := by
            have := foldE_inv (fun (t : State V) (l : List Nat) => (∀ x, x ∈ l → x ∈ ev) ∧ DInv t c ev ∧ Once s0 t c)
              (fun s pg => beginEvac s c pg) ?_ ev s s1
              ⟨fun _ hx => hx, ⟨inv.g, inv.allocs, fun q hq a b => by rw [inv.noEvac q hq a] at b; cases b⟩, o⟩ h1
            exact this.2
            intro t pg rest t' ⟨hsub, dt, ot⟩ ht
            obtain ⟨j1, j2, j3, j4, j5, _⟩ := beginEvac_invG dt.g ht
            obtain ⟨b1, b2⟩ := beginEvac_pages ht
            refine ⟨fun x hx => hsub x (List.mem_cons_of_mem _ hx), ⟨j1, by rw [j3, j2]; exact dt.allocs, ?_⟩, ?_⟩
            · intro q hq a b
              rcases j5 q hq a b with ⟨e1, e2⟩ | e
              · exact ⟨by rw [e1]; exact hsub pg (by simp), e2⟩
              · exact dt.evac q hq e b
            · refine ot.pagesOnly j2 j4 (by rw [b1]; exact Nat.le_refl _) ?_
              intro q h' y
              obtain ⟨h, y1, y2, y3⟩ := b2 q h' y
              refine Or.inl ⟨h, y1, y2, ?_⟩
              rcases y3 with y3 | ⟨y3, y4⟩
              · exact Or.inl y3
              · exact Or.inr ⟨y3, by omega⟩
          have p2 := foldE_inv (fun (t : State V) (l : List Nat) => DInv t c l ∧ Once s0 t (c + 1))
            (fun s pg => evacPage s c pg)
            (fun t pg rest t' ⟨dt, ot⟩ ht => ⟨evacPage_dinv hc dt ht, evacPage_once hc (Nat.lt_succ_self c) dt ot ht⟩)
            ev s1 s' ⟨p1.1, p1.2.mono (Nat.le_succ _)⟩ hr
          exact p2.2

theorem defragAll_once {s s' : State V} {ch : List (Nat × List Nat)} (inv : Inv s)
    (hr : defragAll s ch = .ok s') : ∃ B, Once s s' B := by
  unfold defragAll at hr
  have := foldE_inv (fun (t : State V) (l : List Nat) =>
      l.Pairwise (· < ·) ∧ (∀ x, x ∈ l → x < nClasses) ∧ Inv t ∧ ∃ B, Once s t B ∧ ∀ x, x ∈ l → B ≤ x) _ ?_
    (List.range nClasses) _ s'
    ⟨List.pairwise_lt_range, fun x hx => List.mem_range.1 hx, relogClear_inv inv, 0, Once.start s 0,
      fun _ _ => Nat.zero_le _⟩ hr
  · obtain ⟨_, _, _, B, o, _⟩ := this; exact ⟨B, o⟩
  · intro t c rest t' ⟨hpw, hsub, it, B, ot, hB⟩ ht
    have hpw' := List.pairwise_cons.1 hpw
    refine ⟨hpw'.2, fun x hx => hsub x (List.mem_cons_of_mem _ hx), ?_⟩
    have oc : Once s t c := ot.mono (hB c (by simp))
    split at ht
    · refine ⟨defragClass_inv (hsub c (by simp)) it ht, c + 1,
        defragClass_once (hsub c (by simp)) it oc ht, ?_⟩
      intro x hx; exact hpw'.1 x hx
    · split at ht
      · cases ht
        exact ⟨it, c, oc, fun x hx => Nat.le_of_lt (hpw'.1 x hx)⟩
      · cases ht

/-- the pass-level statement: every allocation live before the pass is afterwards live with the same
    record either at the same address with no relocate call naming it as old, or at `n` where
    relocate(a, n) was logged and no other logged call has `a` as old. -/
theorem defragAll_exactly_once {s s' : State V} {ch : List (Nat × List Nat)} (inv : Inv s)
    (hr : defragAll s ch = .ok s') (a : Addr) (l : LiveRec V) (hl : s.live.get? a = some l) :
    (s'.live.get? a = some l ∧ ∀ n, (a, n) ∉ s'.relog) ∨
    (∃ n, (a, n) ∈ s'.relog ∧ s'.live.get? n = some l ∧ s'.live.get? a = none ∧
      (∀ n', (a, n') ∈ s'.relog → n' = n) ∧
      (s'.relog.map Prod.fst).count a = 1) := by
  obtain ⟨B, o⟩ := defragAll_once inv hr
  by_cases hex : ∃ n, (a, n) ∈ s'.relog
  · right
    obtain ⟨n, m⟩ := hex
    obtain ⟨l', g1, g2, g3⟩ := o.entry a n m
    rw [hl] at g1; cases g1
    refine ⟨n, m, g3, g2, ?_, ?_⟩
    · intro n' m'
      -- two entries with the same first component in a list whose first components are duplicate-free
      have nd := o.olds_nodup
      generalize s'.relog = r at m m' nd
      induction r with
      | nil => cases m
      | cons x r ih =>
        simp only [List.map_cons, List.nodup_cons] at nd
        simp only [List.mem_cons] at m m'
        rcases m with e | m <;> rcases m' with e' | m'
        · rw [← e] at e'; cases e'; rfl
        · subst e; exact absurd (mem_fst_of_mem m') nd.1
        · subst e'; exact absurd (mem_fst_of_mem m) nd.1
        · exact ih m m' nd.2
    · rw [List.Nodup.count o.olds_nodup, if_pos (mem_fst_of_mem m)]
  · left
    rcases o.orig a l hl with x | x
    · exact absurd x hex
    · exact ⟨x, fun n m => hex ⟨n, m⟩⟩

end GocoinV.Alloc
