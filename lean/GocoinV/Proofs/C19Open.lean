/-
  Proofs.C19Open — opening a directory that satisfies the disk invariant with nothing pending gives back
  every key with its value.
-/
import GocoinV.Proofs.C19Inv
namespace GocoinV.Proofs.C19
open GocoinV GocoinV.Qdb GocoinV.QdbSpec

variable {eg : Bool}

theorem mem_isetAll (recs l : List (Key × Rec)) (kr : Key × Rec) (h : kr ∈ isetAll l recs) : kr ∈ l ∨ kr ∈ recs := by
  unfold isetAll at h
  induction recs generalizing l with
  | nil => exact Or.inl h
  | cons x t ih =>
    simp only [List.foldl_cons] at h
    rcases ih _ h with h1 | h1
    · rcases mem_iset x.1 x.2 l kr h1 with h2 | h2
      · exact Or.inr (by rw [h2]; exact List.mem_cons_self)
      · exact Or.inl h2
    · exact Or.inr (List.mem_cons_of_mem _ h1)

/-- `load` on arbitrary records whose bytes can be read back -/
def loadedRec (fs : FS) (r : Rec) : Rec :=
  { r with data := some ((((dlookup r.seq fs.dats).getD []).drop r.pos).take r.len) }

theorem loadFold_general (l : List (Key × Rec)) (d : DB) (hf : d.failed = none) (he : d.eager = eg)
    (hl : ∀ kr ∈ l, hasFlag kr.2.flags (ncOf eg) = false ∧
      ∃ f v, dlookup kr.2.seq d.fs.dats = some f ∧ ReadsBack f kr.2 v) (acc : List (Key × Rec)) :
    l.foldl loadOne (d, acc) = (d, acc ++ mapV (loadedRec d.fs) l) := by
  induction l generalizing acc with
  | nil => simp [mapV]
  | cons kr t ih =>
    obtain ⟨hnc, f, v, hfile, h1, h2, _⟩ := hl kr List.mem_cons_self
    have hstep : loadOne (d, acc) kr = (d, acc ++ [(kr.1, loadedRec d.fs kr.2)]) := by
      unfold loadOne loadedRec
      have hu : u32 (kr.2.pos + kr.2.len) = kr.2.pos + kr.2.len := Nat.mod_eq_of_lt h2
      have hb : ¬ (kr.2.pos + kr.2.len < kr.2.pos ∨ kr.2.pos + kr.2.len > f.length) := by omega
      simp only [hf, he, hnc, Bool.false_eq_true, ↓reduceIte, hfile, hu, hb, Option.getD_some]
    simp only [List.foldl_cons, hstep]
    rw [ih (fun x hx => hl x (List.mem_cons_of_mem _ hx))]
    simp [mapV, List.append_assoc]

theorem memdel_keep (db : DB) (k : Key) : (memdel db k).dataSeq = db.dataSeq := by
  unfold memdel
  cases ilookup k db.index <;> dsimp only <;> (repeat' split) <;> rfl

theorem applyLog_keep (es : List LogEntry) (db : DB) :
    (applyLog db es).fs = db.fs ∧ (applyLog db es).failed = db.failed ∧ (applyLog db es).dataSeq = db.dataSeq := by
  unfold applyLog
  induction es generalizing db with
  | nil => exact ⟨rfl, rfl, rfl⟩
  | cons e t ih =>
    simp only [List.foldl_cons]
    obtain ⟨a, b, c⟩ := ih (applyEntry db e)
    cases e with
    | put k r =>
      exact ⟨a.trans (memput_fs db k r).1, b.trans (memput_spec db k r).2.1, c.trans (memput_fs db k r).2⟩
    | del k =>
      exact ⟨a.trans (memdel_more db k).2, b.trans (memdel_spec db k).2.1, c.trans (memdel_keep db k)⟩

theorem logSeqs_mem (es : List LogEntry) (k : Key) (r : Rec) (h : LogEntry.put k r ∈ es) : r.seq ∈ logSeqs es := by
  unfold logSeqs
  exact List.mem_filterMap.mpr ⟨.put k r, h, rfl⟩

theorem applyLog_eager (es : List LogEntry) (db : DB) : (applyLog db es).eager = db.eager := by
  unfold applyLog
  induction es generalizing db with
  | nil => rfl
  | cons x t ih =>
    simp only [List.foldl_cons]
    refine (ih _).trans ?_
    cases x with
    | put k r => exact memput_eager db k r
    | del k => exact memdel_eager db k

/-- the ghost field of the store `NewDBidx` builds -/
theorem openIndex_eager (F : FS) (vol : Bool) (opts : Opts) :
    (openIndex { fs := F, volatile := vol, opts := opts, eager := eg }).eager = eg := by
  unfold openIndex
  dsimp only
  refine (frame_cleanupold _ _).eager.trans ?_
  have h1 : (loaddat { fs := F, volatile := vol, opts := opts, eager := eg }).1.eager = eg := by
    unfold loaddat
    cases pickIdx F with
    | none => rfl
    | some t =>
      obtain ⟨i, sv, d⟩ := t
      simp only []
      rw [memputAll_eager]
      rfl
  generalize (loaddat { fs := F, volatile := vol, opts := opts, eager := eg }).1 = a at h1
  generalize (loaddat { fs := F, volatile := vol, opts := opts, eager := eg }).2 = u
  unfold loadlog
  cases a.fs.log with
  | none => exact h1
  | some f =>
    simp only []
    cases logBody f a.verSeq with
    | none => exact h1
    | some body =>
      show (applyLog a _).eager = eg
      rw [applyLog_eager]; exact h1

theorem fail_eager (db : DB) (w : String) : (fail db w).eager = db.eager := by
  unfold fail; split <;> rfl

theorem loadOne_eager (st : DB × List (Key × Rec)) (kr : Key × Rec) : (loadOne st kr).1.eager = st.1.eager := by
  unfold loadOne
  repeat' split
  all_goals first | rfl | exact fail_eager _ _

theorem loadAll_eager (db : DB) : (loadAll db).eager = db.eager := by
  unfold loadAll
  have : ∀ (l : List (Key × Rec)) (st : DB × List (Key × Rec)), (l.foldl loadOne st).1.eager = st.1.eager := by
    intro l
    induction l with
    | nil => intro st; rfl
    | cons x t ih => intro st; simp only [List.foldl_cons]; exact (ih _).trans (loadOne_eager st x)
  have h := this db.index (db, [])
  dsimp only
  split <;> exact h

/-- the ghost field of the store NewDBExt builds -/
theorem openDB_eager (F : FS) (vol load : Bool) (opts : Opts) : (openDB F vol load opts eg).eager = eg := by
  unfold openDB
  dsimp only
  cases load
  · exact openIndex_eager F vol opts
  · simp only [↓reduceIte]
    exact (loadAll_eager _).trans (openIndex_eager F vol opts)

/-- the state `NewDBidx` is in just before `cleanupold`, and the data files it marks as used -/
theorem openIndex_used (F : FS) (vol : Bool) (opts : Opts) :
    ∃ dbB used, openIndex { fs := F, volatile := vol, opts := opts, eager := eg } = cleanupold dbB used ∧
      dbB.index = diskIndex F ∧ dbB.fs.dats = F.dats ∧ dbB.failed = none ∧
      (∀ kr ∈ diskIndex F, used.contains kr.2.seq = true) := by
  unfold openIndex
  dsimp only
  unfold diskIndex snapBase logEntries snapVer loaddat
  cases hp : pickIdx F with
  | none =>
    simp only [show ({ fs := F, volatile := vol, opts := opts, eager := eg } : DB).fs = F from rfl, hp]
    unfold loadlog
    cases hl : F.log with
    | none => exact ⟨_, _, rfl, by simp [applyEntriesL], rfl, rfl, by intro kr h; simp [applyEntriesL] at h⟩
    | some f =>
      simp only []
      cases hb : logBody f 0 with
      | none =>
        simp only [show ({ fs := F, volatile := vol, opts := opts, eager := eg } : DB).verSeq = 0 from rfl, hb]
        refine ⟨_, _, rfl, by simp [applyEntriesL, emit], ?_, rfl, by intro kr h; simp [applyEntriesL] at h⟩
        show (F.apply .removeLog).dats = F.dats
        rfl
      | some body =>
        simp only [show ({ fs := F, volatile := vol, opts := opts, eager := eg } : DB).verSeq = 0 from rfl, hb]
        obtain ⟨k1, k2, _⟩ := applyLog_keep (parseLog body.length body) ({ fs := F, volatile := vol, opts := opts, eager := eg } : DB)
        refine ⟨_, _, rfl, ?_, ?_, ?_, ?_⟩
        · show (applyLog _ _).index = _
          rw [applyLog_index]
        · show (applyLog _ _).fs.dats = _
          rw [k1]
        · show (applyLog _ _).failed = none
          rw [k2]
        · intro kr hkr
          rcases mem_applyEntriesL _ _ kr hkr with h | h
          · cases h
          · simp only [List.nil_append, List.contains_iff_mem]
            exact logSeqs_mem _ _ _ h
  | some t =>
    obtain ⟨i, sv, d⟩ := t
    simp only [show ({ fs := F, volatile := vol, opts := opts, eager := eg } : DB).fs = F from rfl, hp]
    let dbE : DB := { emit ({ fs := F, volatile := vol, opts := opts, eager := eg } : DB) "qdb.loadneweridx:removed" (.removeIdx (1 - i)) with
      datIdx := i, verSeq := sv }
    obtain ⟨hi, hv⟩ := memputAll_isetAll (snapshotRecs d) dbE
    obtain ⟨hfs, _, hfl⟩ := memputAll_fs (snapshotRecs d) dbE
    have hEfs : dbE.fs = F.apply (.removeIdx (1 - i)) := rfl
    have hlog : (memputAll dbE (snapshotRecs d)).fs.log = F.log := by
      rw [hfs, hEfs]
      unfold FS.apply
      by_cases h : 1 - i = 0 <;> simp [h]
    have hdats : (memputAll dbE (snapshotRecs d)).fs.dats = F.dats := by
      rw [hfs, hEfs]
      unfold FS.apply
      by_cases h : 1 - i = 0 <;> simp [h]
    have hbase : ∀ kr ∈ isetAll [] (snapshotRecs d), kr.2.seq ∈ (snapshotRecs d).map (·.2.seq) := by
      intro kr hkr
      rcases mem_isetAll _ _ kr hkr with h | h
      · cases h
      · exact List.mem_map.mpr ⟨kr, h, rfl⟩
    unfold loadlog
    rw [hlog]
    cases hl : F.log with
    | none =>
      refine ⟨_, _, rfl, by simp only [applyEntriesL, List.foldl_nil]; exact hi, hdats, hfl, ?_⟩
      intro kr hkr
      simp only [applyEntriesL, List.foldl_nil] at hkr
      simp only [List.contains_iff_mem]
      exact hbase kr hkr
    | some f =>
      simp only []
      rw [hv]
      cases hb : logBody f sv with
      | none =>
        simp only []
        refine ⟨_, _, rfl, by simp only [applyEntriesL, List.foldl_nil]; exact hi, ?_, hfl, ?_⟩
        · show ((memputAll dbE (snapshotRecs d)).fs.apply .removeLog).dats = F.dats
          rw [← hdats]; rfl
        · intro kr hkr
          simp only [applyEntriesL, List.foldl_nil] at hkr
          simp only [List.contains_iff_mem]
          exact hbase kr hkr
      | some body =>
        simp only []
        obtain ⟨k1, k2, _⟩ := applyLog_keep (parseLog body.length body) (memputAll dbE (snapshotRecs d))
        refine ⟨_, _, rfl, ?_, ?_, ?_, ?_⟩
        · show (applyLog _ _).index = _
          rw [applyLog_index, hi]; rfl
        · show (applyLog _ _).fs.dats = _
          rw [k1, hdats]
        · show (applyLog _ _).failed = none
          rw [k2, hfl]; rfl
        · intro kr hkr
          simp only [List.contains_iff_mem, List.mem_append]
          rcases mem_applyEntriesL _ _ kr hkr with h | h
          · exact Or.inl (hbase kr h)
          · exact Or.inr (logSeqs_mem _ _ _ h)

theorem ilookup_of_mem_nodup {α : Type} (l : List (Key × α)) (h : (Keys l).Nodup) (k : Key) (x : α)
    (hm : (k, x) ∈ l) : ilookup k l = some x := by
  induction l with
  | nil => cases hm
  | cons hd t ih =>
    obtain ⟨j, q⟩ := hd
    simp only [Keys, List.map_cons, List.nodup_cons] at h
    rcases List.mem_cons.mp hm with h1 | h1
    · cases h1; simp [ilookup]
    · have hj : j ≠ k := by
        intro e
        subst e
        exact h.1 (List.mem_map.mpr ⟨(j, x), h1, rfl⟩)
      simp only [ilookup, hj, ↓reduceIte]
      exact ih h.2 h1

theorem ilookup_key_pair {α : Type} (k : Key) (x : α) (l : List (Key × α)) (h : ilookup k l = some x) : (k, x) ∈ l := by
  induction l with
  | nil => simp [ilookup] at h
  | cons hd t ih =>
    obtain ⟨j, q⟩ := hd
    by_cases hj : j = k
    · simp only [ilookup, hj, ↓reduceIte, Option.some.injEq] at h
      simp [hj, h]
    · simp only [ilookup, hj, ↓reduceIte] at h
      exact List.mem_cons_of_mem _ (ih h)

/-- the value a record stands for in the abstract map -/
def valOf (r : Rec) : Bytes := r.data.getD []

/-- Opening (LoadData) a directory that satisfies the invariant with nothing pending does not fail and
    gives every key the value it has in memory. -/
theorem open_of_inv (L : DB) (inv : DiskInv L) (hp : L.pending = []) (vol : Bool) (opts : Opts) :
    (openDB L.fs vol true opts L.eager).failed = none ∧
    ∀ k, (ilookup k (openDB L.fs vol true opts L.eager).index).map valOf = (ilookup k L.index).map valOf := by
  obtain ⟨dbB, used, hoi, hidx, hdats, hfl, hused⟩ := openIndex_used (eg := L.eager) L.fs vol opts
  have hXe : (cleanupold dbB used).eager = L.eager := by rw [← hoi]; exact openIndex_eager L.fs vol opts
  have hfr := frame_cleanupold dbB used
  have hXi : (cleanupold dbB used).index = diskIndex L.fs := hfr.index.trans hidx
  have hXf : (cleanupold dbB used).failed = none := hfr.failed.trans hfl
  have hXd : ∀ kr ∈ diskIndex L.fs, dlookup kr.2.seq (cleanupold dbB used).fs.dats = dlookup kr.2.seq L.fs.dats := by
    intro kr hkr
    have hck := cleanupold_keeps dbB used kr.2.seq (Or.inr (hused kr hkr))
    unfold cleanKeeps at hck
    simp only [Prod.mk.injEq] at hck
    rw [hck.2.2.2.1, hdats]
  -- every disk record corresponds to a memory record with the same place on disk
  have hrec : ∀ kr ∈ diskIndex L.fs, ∃ r f, ilookup kr.1 L.index = some r ∧ core kr.2 = core r ∧
      dlookup kr.2.seq L.fs.dats = some f ∧ ReadsBack f kr.2 (valOf r) := by
    intro kr hkr
    have hlk := ilookup_of_mem_nodup (diskIndex L.fs) (nodup_diskIndex L.fs) kr.1 kr.2 hkr
    have hcl := inv.clean kr.1 (by rw [hp]; simp)
    rw [hlk] at hcl
    cases hm : ilookup kr.1 L.index with
    | none => rw [hm] at hcl; simp at hcl
    | some r =>
      rw [hm] at hcl
      simp only [Option.map_some, Option.some.injEq] at hcl
      obtain ⟨f, h1, h2⟩ := inv.files kr.1 r (by rw [hp]; simp) hm
      have hc : kr.2.seq = r.seq ∧ kr.2.pos = r.pos ∧ kr.2.len = r.len := by
        unfold core at hcl
        simp only [Prod.mk.injEq] at hcl
        exact hcl
      refine ⟨r, f, rfl, hcl, by rw [hc.1]; exact h1, ?_⟩
      unfold ReadsBack at h2 ⊢
      rw [hc.2.1, hc.2.2]
      exact h2
  have hfold := loadFold_general (diskIndex L.fs) (cleanupold dbB used) hXf hXe (by
    intro kr hkr
    obtain ⟨r, f, _, _, h3, h4⟩ := hrec kr hkr
    exact ⟨inv.dflags kr hkr, f, valOf r, by rw [hXd kr hkr]; exact h3, h4⟩) []
  have hopen : openDB L.fs vol true opts L.eager = { loadAll (cleanupold dbB used) with
      dataSeq := u32 ((loadAll (cleanupold dbB used)).maxSeq + 1) } := by
    unfold openDB
    simp only [↓reduceIte]
    rw [hoi]
  have hload : (loadAll (cleanupold dbB used)).failed = none ∧
      (loadAll (cleanupold dbB used)).index = mapV (loadedRec (cleanupold dbB used).fs) (diskIndex L.fs) := by
    unfold loadAll
    rw [hXi, hfold]
    simp only [hXf, List.nil_append]
    exact ⟨trivial, trivial⟩
  rw [hopen]
  refine ⟨hload.1, ?_⟩
  intro k
  show (ilookup k (loadAll (cleanupold dbB used)).index).map valOf = _
  rw [hload.2, ilookup_mapV]
  cases hD : ilookup k (diskIndex L.fs) with
  | none =>
    have hcl := inv.clean k (by rw [hp]; simp)
    rw [hD] at hcl
    cases hm : ilookup k L.index with
    | none => rfl
    | some r => rw [hm] at hcl; simp at hcl
  | some rd =>
    obtain ⟨j, hmem⟩ := ilookup_mem k rd (diskIndex L.fs) hD
    have hj : ilookup j (diskIndex L.fs) = some rd :=
      ilookup_of_mem_nodup _ (nodup_diskIndex L.fs) j rd hmem
    -- the key found is k
    have hcl := inv.clean k (by rw [hp]; simp)
    rw [hD] at hcl
    cases hm : ilookup k L.index with
    | none => rw [hm] at hcl; simp at hcl
    | some r =>
      rw [hm] at hcl
      simp only [Option.map_some, Option.some.injEq] at hcl ⊢
      obtain ⟨f, h1, h2⟩ := inv.files k r (by rw [hp]; simp) hm
      have hc : rd.seq = r.seq ∧ rd.pos = r.pos ∧ rd.len = r.len := by
        unfold core at hcl
        simp only [Prod.mk.injEq] at hcl
        exact hcl
      have hkmem : (k, rd) ∈ diskIndex L.fs := by
        have := ilookup_key_pair k rd (diskIndex L.fs) hD
        exact this
      unfold valOf loadedRec
      simp only [Option.getD_some]
      rw [hXd (k, rd) hkmem]
      show List.take rd.len (List.drop rd.pos ((dlookup rd.seq L.fs.dats).getD [])) = r.data.getD []
      rw [hc.1, hc.2.1, hc.2.2, h1]
      exact h2.2.2

end GocoinV.Proofs.C19
