/-
  Proofs.C06IdxAll — the bridge between `deliverIdx` (what the oracle runs: 8-byte `BlockIndex` key, then the whole hash)
  and `deliver` (what the theorems are about) for WHOLE HISTORIES: when the 8-byte keys of all hashes that can occur — ids
  and previous-block fields of the blocks of `U`, and the root — are pairwise distinct, every state of a history of
  deliveries satisfies `KeyOK` for every delivered block (the nodes of the tree are blocks of `U` or the root: `TreeWF.blk`),
  so the two folds are the same state.
-/
import GocoinV.Proofs.C06Deliver
import GocoinV.Proofs.C06Idx
namespace GocoinV.ChainTree
open GocoinV.UtxoOps

/-- a hash that can occur in a history over `U`: the root, the id of a block of `U`, or its previous-block field -/
def Occurs (root : Nat) (U : List Block) (x : Nat) : Prop := x = root ∨ ∃ b ∈ U, b.id = x ∨ b.parent = x

/-- no two DIFFERENT hashes that can occur share their first 8 bytes -/
def KeysDistinct (root : Nat) (U : List Block) : Prop :=
  ∀ x y, Occurs root U x → Occurs root U y → bidx x = bidx y → x = y

theorem KeyOK_of_distinct {U : List Block} {c : Chain} (w : TreeWF U c) (hk : KeysDistinct c.root U) (id : Nat)
    (hid : Occurs c.root U id) : KeyOK c id := by
  intro n hn hb
  have hsome : (getNode c n.id).isSome = true := by
    unfold getNode
    rw [List.find?_isSome]
    exact ⟨n, hn, by simp⟩
  cases hg : getNode c n.id with
  | none => rw [hg] at hsome; cases hsome
  | some n' =>
    have hocc : Occurs c.root U n.id := by
      by_cases hr : n.id = c.root
      · exact Or.inl hr
      · obtain ⟨b, hbU, hbid, _⟩ := w.blk n.id n' hg hr
        exact Or.inr ⟨b, hbU, Or.inl hbid⟩
    exact hk n.id id hocc hid hb

/-- **for every history of deliveries over a block tree with pairwise distinct 8-byte keys, what the oracle computes
    (`deliverIdx`) is what the theorems are about (`deliver`)** -/
theorem deliverIdx_all {U : List Block} (ds : List Block) : ∀ (c : Chain), Inv U c → AllData c → BlockTree c.root U →
    KeysDistinct c.root U → (∀ b ∈ ds, b ∈ U) →
    ds.foldl (fun c b => (deliverIdx c b).1) c = ds.foldl (fun c b => (deliver c b).1) c := by
  induction ds with
  | nil => intro c _ _ _ _ _; rfl
  | cons b bs ih =>
    intro c hi ha hU hk hin
    have hbU := hin b List.mem_cons_self
    have e : deliverIdx c b = deliver c b :=
      deliverIdx_eq_deliver c b (KeyOK_of_distinct hi.wf hk b.id (Or.inr ⟨b, hbU, Or.inl rfl⟩))
        (KeyOK_of_distinct hi.wf hk b.parent (Or.inr ⟨b, hbU, Or.inr rfl⟩))
    simp only [List.foldl_cons, e]
    obtain ⟨h1, h2, _, _, _, h6, _⟩ := deliver_inv hi hU b hbU (fun p hp => ha _ p hp)
    exact ih (deliver c b).1 h1 (ha.deliver hU b hbU h2 h6) (by rw [h2]; exact hU) (by rw [h2]; exact hk)
      (fun x hx => hin x (List.mem_cons_of_mem _ hx))

end GocoinV.ChainTree
