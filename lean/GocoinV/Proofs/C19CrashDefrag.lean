/-
  Proofs.C19CrashDefrag — crash states inside defrag(): which effects defrag emits, and what a reopen finds after
  any prefix of them (index snapshot smaller than the bufio buffer, so that it becomes valid with one Write).
-/
import GocoinV.Proofs.C19Crash
namespace GocoinV.Proofs.C19
open GocoinV GocoinV.Qdb GocoinV.QdbSpec

/-- `a` is `b` plus emitted effects that all satisfy `P` -/
def Emits (P : Effect → Prop) (a b : DB) : Prop := ∃ es, a.effs = b.effs ++ es ∧ ∀ e ∈ es, P e.2

theorem Emits.refl (P : Effect → Prop) (a : DB) : Emits P a a := ⟨[], by simp, by intro e h; cases h⟩

theorem Emits.of_eq {P : Effect → Prop} {a b : DB} (h : a.effs = b.effs) : Emits P a b :=
  ⟨[], by simp [h], by intro e h; cases h⟩

theorem Emits.trans {P : Effect → Prop} {a b c : DB} (h1 : Emits P a b) (h2 : Emits P b c) : Emits P a c := by
  obtain ⟨e1, a1, p1⟩ := h1
  obtain ⟨e2, a2, p2⟩ := h2
  refine ⟨e2 ++ e1, by rw [a1, a2, List.append_assoc], ?_⟩
  intro e he
  rcases List.mem_append.mp he with h | h
  · exact p2 e h
  · exact p1 e h

theorem Emits.mono {P Q : Effect → Prop} {a b : DB} (h : Emits P a b) (hpq : ∀ e, P e → Q e) : Emits Q a b := by
  obtain ⟨es, h1, h2⟩ := h
  exact ⟨es, h1, fun e he => hpq _ (h2 e he)⟩

theorem emits_emit {P : Effect → Prop} (db : DB) (t : String) (e : Effect) (h : P e) : Emits P (emit db t e) db :=
  ⟨[(t, e)], rfl, by intro x hx; simp at hx; rw [hx]; exact h⟩

def SinkEmits (P : Effect → Prop) (sink : DB → Bytes → DB) : Prop := ∀ d b, Emits P (sink d b) d

theorem emits_bufWrite {P : Effect → Prop} (sink : DB → Bytes → DB) (hs : SinkEmits P sink) (db : DB) (w : BufW)
    (p : Bytes) : Emits P (bufWrite sink db w p).1 db := by
  unfold bufWrite
  split
  · exact Emits.refl _ _
  · split
    · exact hs _ _
    · dsimp only
      split
      · exact (hs _ _).trans (hs _ _)
      · exact hs _ _

theorem emits_bufFlush {P : Effect → Prop} (sink : DB → Bytes → DB) (hs : SinkEmits P sink) (db : DB) (w : BufW) :
    Emits P (bufFlush sink db w) db := by
  unfold bufFlush
  split
  · exact Emits.refl _ _
  · exact hs _ _

/-- effects that only concern the new data file `S` -/
def OnDat (S : Nat) (e : Effect) : Prop := (∃ p b, e = .writeDat S p b) ∨ e = .createDat S

theorem defragSink_emits (S : Nat) : SinkEmits (OnDat S) (defragSink S) :=
  fun d b => emits_emit d _ _ (Or.inl ⟨_, _, rfl⟩)

theorem emits_defragRec (S : Nat) (st : DB × BufW × List (Key × Rec)) (kr : Key × Rec) :
    Emits (OnDat S) (defragRec (defragSink S) st kr).1 st.1 := by
  obtain ⟨d, w, acc⟩ := st
  unfold defragRec
  dsimp only
  split
  · exact Emits.refl _ _
  · split
    · unfold fail; split <;> exact Emits.refl _ _
    · exact Emits.trans (Emits.of_eq rfl) (emits_bufWrite _ (defragSink_emits S) d w _)

theorem emits_defragFold (S : Nat) (l : List (Key × Rec)) (st : DB × BufW × List (Key × Rec)) :
    Emits (OnDat S) (l.foldl (defragRec (defragSink S)) st).1 st.1 := by
  induction l generalizing st with
  | nil => exact Emits.refl _ _
  | cons kr t ih => exact (ih _).trans (emits_defragRec S st kr)

theorem emits_defragStart (db : DB) : Emits (OnDat (u32 (db.dataSeq + 1))) (defragStart db) db := by
  unfold defragStart checkDat
  simp only [Bool.false_eq_true, ↓reduceIte]
  refine Emits.trans (Emits.of_eq rfl) ((emits_emit _ _ _ (Or.inl ⟨_, _, rfl⟩)).trans
    ((emits_emit _ _ _ (Or.inr rfl)).trans (Emits.of_eq rfl)))

/-- removals that leave the current data file alone -/
def IsRemoval (S : Nat) (e : Effect) : Prop :=
  e = .removeLog ∨ (∃ i, e = .removeIdx i) ∨ (∃ t, t ≠ S ∧ e = .removeDat t)

theorem emits_cleanupold (db : DB) (used : List Nat) : Emits (IsRemoval db.dataSeq) (cleanupold db used) db := by
  unfold cleanupold
  have : ∀ (l : List Nat) (d : DB), d.dataSeq = db.dataSeq → Emits (IsRemoval db.dataSeq) (l.foldl (fun db s =>
      if s ≠ db.dataSeq ∧ ¬ used.contains s then emit db "qdb.cleanupold:removed" (.removeDat s) else db) d) d := by
    intro l
    induction l with
    | nil => intro d _; exact Emits.refl _ _
    | cons x t ih =>
      intro d hd
      simp only [List.foldl_cons]
      split
      · rename_i hx
        have h1 : Emits (IsRemoval db.dataSeq) (emit d "qdb.cleanupold:removed" (.removeDat x)) d :=
          emits_emit d _ _ (Or.inr (Or.inr ⟨x, by rw [← hd]; exact hx.1, rfl⟩))
        exact (ih (emit d "qdb.cleanupold:removed" (.removeDat x)) hd).trans h1
      · exact ih d hd
  exact this _ db rfl

/-! ### a small index snapshot reaches the file with ONE Write -/

theorem bufWriteAll_small (sink : DB → Bytes → DB) (ps : List Bytes) (d : DB) (w : BufW)
    (h : w.buf.length + ps.flatten.length ≤ bufSize) :
    bufWriteAll sink d w ps = (d, { buf := w.buf ++ ps.flatten }) := by
  unfold bufWriteAll
  induction ps generalizing w with
  | nil => simp
  | cons p t ih =>
    simp only [List.flatten_cons, List.length_append] at h
    have hstep : bufWrite sink d w p = (d, { buf := w.buf ++ p }) := by
      unfold bufWrite
      rw [if_pos (by omega)]
    simp only [List.foldl_cons, hstep]
    rw [ih { buf := w.buf ++ p } (by simp only [List.length_append]; omega)]
    simp [List.append_assoc]

theorem writedatfile_effs_small (db : DB)
    (h : (snapBytes (u32 (db.verSeq + 1)) db.index).length ≤ bufSize) :
    (writedatfile db).effs = db.effs ++
      [("qdb.writedatfile:created", .createIdx (1 - db.datIdx)),
       ("qdb.writedatfile:written", .appendIdx (1 - db.datIdx) (snapBytes (u32 (db.verSeq + 1)) db.index)),
       ("qdb.writedatfile:log-removed", .removeLog),
       ("qdb.writedatfile:old-removed", .removeIdx (1 - (1 - db.datIdx)))] := by
  unfold writedatfile
  dsimp only
  have hsm := bufWriteAll_small (idxSink (1 - db.datIdx))
    (idxWrites db.index (u32 (db.verSeq + 1)))
    (emit { db with datIdx := 1 - db.datIdx, verSeq := u32 (db.verSeq + 1) } "qdb.writedatfile:created"
      (.createIdx (1 - db.datIdx))) {}
    (by rw [idxWrites_flatten]; simpa using h)
  have e1 : (emit { db with datIdx := 1 - db.datIdx, verSeq := u32 (db.verSeq + 1) } "qdb.writedatfile:created"
      (.createIdx (1 - db.datIdx))).index = db.index := rfl
  have e2 : (emit { db with datIdx := 1 - db.datIdx, verSeq := u32 (db.verSeq + 1) } "qdb.writedatfile:created"
      (.createIdx (1 - db.datIdx))).verSeq = u32 (db.verSeq + 1) := rfl
  have e3 : (emit { db with datIdx := 1 - db.datIdx, verSeq := u32 (db.verSeq + 1) } "qdb.writedatfile:created"
      (.createIdx (1 - db.datIdx))).datIdx = 1 - db.datIdx := rfl
  simp only [e1, e2, e3] at hsm ⊢
  rw [hsm]
  simp only [List.nil_append, idxWrites_flatten]
  have hne : ¬ (snapBytes (u32 (db.verSeq + 1)) db.index).isEmpty = true := by
    have := snapBytes_length (u32 (db.verSeq + 1)) db.index
    intro he
    have : (snapBytes (u32 (db.verSeq + 1)) db.index).length = 0 := by
      simpa using he
    omega
  unfold bufFlush
  simp only [hne, ↓reduceIte]
  simp [idxSink, emit]

end GocoinV.Proofs.C19
