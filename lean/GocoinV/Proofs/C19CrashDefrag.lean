/-
  Proofs.C19CrashDefrag — crash states inside defrag(): which effects defrag emits, and what a reopen finds after
  any prefix of them (index snapshot smaller than the bufio buffer, so that it becomes valid with one Write).
-/
import GocoinV.Proofs.C19Crash
namespace GocoinV.Proofs.C19
open GocoinV GocoinV.Qdb GocoinV.QdbSpec

variable {eg : Bool}

/-- `a` is `b` plus emitted effects that all satisfy `P` -/
def Emits (P : Effect → Prop) (a b : DB) : Prop := ∃ es, a.effs = b.effs ++ es ∧ ∀ e ∈ es, P e.2

theorem Emits.refl (P : Effect → Prop) (a : DB) : Emits P a a := ⟨[], by simp, by intro e h; cases h⟩

theorem Emits.of_eq {P : Effect → Prop} {a b : DB} (h : a.effs = b.effs) : Emits P a b :=
  ⟨[], by simp [h], by intro e h; cases h⟩

theorem Emits.trans {P : Effect → Prop} {a b c : DB} (h1 : Emits P a b) (h2 : Emits P b c) : Emits P a c := by
  obtain ⟨e1, a1, p1⟩ := h1
  obtain ⟨e2, a2, p2⟩ := h2
  refine ⟨e2 ++ e1, by rw [a1, a2, List.append_assoc], ?_⟩
  intro e he
  rcases List.mem_append.mp he with h | h
  · exact p2 e h
  · exact p1 e h

theorem Emits.mono {P Q : Effect → Prop} {a b : DB} (h : Emits P a b) (hpq : ∀ e, P e → Q e) : Emits Q a b := by
  obtain ⟨es, h1, h2⟩ := h
  exact ⟨es, h1, fun e he => hpq _ (h2 e he)⟩

theorem emits_emit {P : Effect → Prop} (db : DB) (t : String) (e : Effect) (h : P e) : Emits P (emit db t e) db :=
  ⟨[(t, e)], rfl, by intro x hx; simp at hx; rw [hx]; exact h⟩

def SinkEmits (P : Effect → Prop) (sink : DB → Bytes → DB) : Prop := ∀ d b, Emits P (sink d b) d

theorem emits_bufWrite {P : Effect → Prop} (sink : DB → Bytes → DB) (hs : SinkEmits P sink) (db : DB) (w : BufW)
    (p : Bytes) : Emits P (bufWrite sink db w p).1 db := by
  unfold bufWrite
  split
  · exact Emits.refl _ _
  · split
    · exact hs _ _
    · dsimp only
      split
      · exact (hs _ _).trans (hs _ _)
      · exact hs _ _

theorem emits_bufFlush {P : Effect → Prop} (sink : DB → Bytes → DB) (hs : SinkEmits P sink) (db : DB) (w : BufW) :
    Emits P (bufFlush sink db w) db := by
  unfold bufFlush
  split
  · exact Emits.refl _ _
  · exact hs _ _

/-- effects that only concern the new data file `S` -/
def OnDat (S : Nat) (e : Effect) : Prop := (∃ p b, e = .writeDat S p b) ∨ e = .createDat S

theorem defragSink_emits (S : Nat) : SinkEmits (OnDat S) (defragSink S) :=
  fun d b => emits_emit d _ _ (Or.inl ⟨_, _, rfl⟩)

theorem emits_defragRec (S : Nat) (st : DB × BufW × List (Key × Rec)) (kr : Key × Rec) :
    Emits (OnDat S) (defragRec (defragSink S) st kr).1 st.1 := by
  obtain ⟨d, w, acc⟩ := st
  unfold defragRec
  dsimp only
  split
  · exact Emits.refl _ _
  · split
    · unfold fail; split <;> exact Emits.refl _ _
    · exact Emits.trans (Emits.of_eq rfl) (emits_bufWrite _ (defragSink_emits S) d w _)

theorem emits_defragFold (S : Nat) (l : List (Key × Rec)) (st : DB × BufW × List (Key × Rec)) :
    Emits (OnDat S) (l.foldl (defragRec (defragSink S)) st).1 st.1 := by
  induction l generalizing st with
  | nil => exact Emits.refl _ _
  | cons kr t ih => exact (ih _).trans (emits_defragRec S st kr)

theorem emits_defragStart (db : DB) : Emits (OnDat (u32 (db.dataSeq + 1))) (defragStart db) db := by
  unfold defragStart checkDat
  simp only [Bool.false_eq_true, ↓reduceIte]
  refine Emits.trans (Emits.of_eq rfl) ((emits_emit _ _ _ (Or.inl ⟨_, _, rfl⟩)).trans
    ((emits_emit _ _ _ (Or.inr rfl)).trans (Emits.of_eq rfl)))

/-- removals that leave the current data file alone -/
def IsRemoval (S i : Nat) (e : Effect) : Prop :=
  e = .removeLog ∨ (∃ j, (j = 0 ↔ i ≠ 0) ∧ e = .removeIdx j) ∨ (∃ t, t ≠ S ∧ e = .removeDat t)

theorem emits_cleanupold (db : DB) (used : List Nat) (i : Nat) : Emits (IsRemoval db.dataSeq i) (cleanupold db used) db := by
  unfold cleanupold
  have : ∀ (l : List Nat) (d : DB), d.dataSeq = db.dataSeq → Emits (IsRemoval db.dataSeq i) (l.foldl (fun db s =>
      if s ≠ db.dataSeq ∧ ¬ used.contains s then emit db "qdb.cleanupold:removed" (.removeDat s) else db) d) d := by
    intro l
    induction l with
    | nil => intro d _; exact Emits.refl _ _
    | cons x t ih =>
      intro d hd
      simp only [List.foldl_cons]
      split
      · rename_i hx
        have h1 : Emits (IsRemoval db.dataSeq i) (emit d "qdb.cleanupold:removed" (.removeDat x)) d :=
          emits_emit d _ _ (Or.inr (Or.inr ⟨x, by rw [← hd]; exact hx.1, rfl⟩))
        exact (ih (emit d "qdb.cleanupold:removed" (.removeDat x)) hd).trans h1
      · exact ih d hd
  exact this _ db rfl

/-! ### a small index snapshot reaches the file with ONE Write -/

theorem bufWriteAll_small (sink : DB → Bytes → DB) (ps : List Bytes) (d : DB) (w : BufW)
    (h : w.buf.length + ps.flatten.length ≤ bufSize) :
    bufWriteAll sink d w ps = (d, { buf := w.buf ++ ps.flatten }) := by
  unfold bufWriteAll
  induction ps generalizing w with
  | nil => simp
  | cons p t ih =>
    simp only [List.flatten_cons, List.length_append] at h
    have hstep : bufWrite sink d w p = (d, { buf := w.buf ++ p }) := by
      unfold bufWrite
      rw [if_pos (by omega)]
    simp only [List.foldl_cons, hstep]
    rw [ih { buf := w.buf ++ p } (by simp only [List.length_append]; omega)]
    simp [List.append_assoc]

theorem writedatfile_effs_small (db : DB)
    (h : (snapBytes (u32 (db.verSeq + 1)) db.index).length ≤ bufSize) :
    (writedatfile db).effs = db.effs ++
      [("qdb.writedatfile:created", .createIdx (1 - db.datIdx)),
       ("qdb.writedatfile:written", .appendIdx (1 - db.datIdx) (snapBytes (u32 (db.verSeq + 1)) db.index)),
       ("qdb.writedatfile:log-removed", .removeLog),
       ("qdb.writedatfile:old-removed", .removeIdx (1 - (1 - db.datIdx)))] := by
  unfold writedatfile
  dsimp only
  have hsm := bufWriteAll_small (idxSink (1 - db.datIdx))
    (idxWrites db.index (u32 (db.verSeq + 1)))
    (emit { db with datIdx := 1 - db.datIdx, verSeq := u32 (db.verSeq + 1) } "qdb.writedatfile:created"
      (.createIdx (1 - db.datIdx))) {}
    (by rw [idxWrites_flatten]; simpa using h)
  have e1 : (emit { db with datIdx := 1 - db.datIdx, verSeq := u32 (db.verSeq + 1) } "qdb.writedatfile:created"
      (.createIdx (1 - db.datIdx))).index = db.index := rfl
  have e2 : (emit { db with datIdx := 1 - db.datIdx, verSeq := u32 (db.verSeq + 1) } "qdb.writedatfile:created"
      (.createIdx (1 - db.datIdx))).verSeq = u32 (db.verSeq + 1) := rfl
  have e3 : (emit { db with datIdx := 1 - db.datIdx, verSeq := u32 (db.verSeq + 1) } "qdb.writedatfile:created"
      (.createIdx (1 - db.datIdx))).datIdx = 1 - db.datIdx := rfl
  simp only [e1, e2, e3] at hsm ⊢
  rw [hsm]
  simp only [List.nil_append, idxWrites_flatten]
  have hne : ¬ (snapBytes (u32 (db.verSeq + 1)) db.index).isEmpty = true := by
    have := snapBytes_length (u32 (db.verSeq + 1)) db.index
    intro he
    have : (snapBytes (u32 (db.verSeq + 1)) db.index).length = 0 := by
      simpa using he
    omega
  unfold bufFlush
  simp only [hne, ↓reduceIte]
  simp [idxSink, emit]

/-! ### the shape of defrag's effect list -/

/-- effects before the snapshot becomes valid: only the new data file and the creation of the new index file -/
def PreCut (S i : Nat) (e : Effect) : Prop := OnDat S e ∨ e = .createIdx i

theorem defrag_effs_shape (db : DB) (h : Cached db)
    (hsmall : (snapBytes (u32 (db.verSeq + 1)) (layout (u32 (db.dataSeq + 1)) 4 db.index)).length ≤ bufSize) :
    ∃ A B, (defrag db).effs = db.effs ++ (A ++ (("qdb.writedatfile:written",
        Effect.appendIdx (1 - db.datIdx) (snapBytes (u32 (db.verSeq + 1)) (layout (u32 (db.dataSeq + 1)) 4 db.index))) :: B)) ∧
      (∀ e ∈ A, PreCut (u32 (db.dataSeq + 1)) (1 - db.datIdx) e.2) ∧
      (∀ e ∈ B, IsRemoval (u32 (db.dataSeq + 1)) (1 - db.datIdx) e.2) := by
  obtain ⟨hs1, hs2, hs3, hs4, hs5, hs8, hs9⟩ := defragStart_disk db
  have hf0 : (defragStart db).failed = none := hs5.trans h.1
  obtain ⟨d', w', hfold, _, _, hrest⟩ :=
    defragFold_layout (u32 (db.dataSeq + 1)) db.index h.2 (defragStart db) {} [] hf0 (defragStart_frame db).eager
  have hEm1 := emits_defragStart db
  have hEm2 := emits_defragFold (u32 (db.dataSeq + 1)) db.index (defragStart db, {}, [])
  rw [hfold] at hEm2
  rw [hs3, hs2, List.nil_append] at hfold
  have hd'f : d'.failed = none := by
    have := congrArg (fun x => x.2.2.2.2.2.2.1) hrest
    exact this.trans hf0
  have hd's : d'.dataSeq = u32 (db.dataSeq + 1) := by
    have := congrArg (fun x => x.2.2.2.2.2.1) hrest
    exact this.trans hs3
  have hd'i : d'.datIdx = db.datIdx := by
    have := congrArg (fun x => x.2.2.2.2.2.2.2.1) hrest
    exact this.trans hs8
  have hd'v : d'.verSeq = db.verSeq := by
    have := congrArg (fun x => x.2.2.2.2.2.2.2.2) hrest
    exact this.trans hs9
  have hdef : defrag db = defragFinish (u32 (db.dataSeq + 1)) d' w' (layout (u32 (db.dataSeq + 1)) 4 db.index) := by
    unfold defrag
    simp only [hs4, hs3, hfold, hd'f]
  let recs := layout (u32 (db.dataSeq + 1)) 4 db.index
  let e1 : DB := { d' with index := recs }
  let e2 := bufFlush (defragSink (u32 (db.dataSeq + 1))) e1 w'
  have hfin : defragFinish (u32 (db.dataSeq + 1)) d' w' recs =
      { cleanupold (writedatfile e2) (if recs.isEmpty then [] else [u32 (db.dataSeq + 1)]) with extra := 0, pending := [] } := rfl
  have hg2 := (bufFlush_gen (defragSink (u32 (db.dataSeq + 1))) (fun _ => (none : Option Bytes))
    (fun d => (d.index, d.datIdx, d.verSeq, d.dataSeq)) (fun _ _ => rfl) (fun _ _ => rfl) e1 w').2
  simp only [Prod.mk.injEq] at hg2
  obtain ⟨g_ix, g_di, g_vs, g_ds⟩ := hg2
  have he2i : e2.datIdx = db.datIdx := g_di.trans hd'i
  have he2v : e2.verSeq = db.verSeq := g_vs.trans hd'v
  have he2x : e2.index = recs := g_ix
  have he2s : e2.dataSeq = u32 (db.dataSeq + 1) := g_ds.trans hd's
  have hEm3 : Emits (OnDat (u32 (db.dataSeq + 1))) e2 e1 := emits_bufFlush _ (defragSink_emits _) e1 w'
  have hw := writedatfile_effs_small e2 (by rw [he2v, he2x]; exact hsmall)
  rw [he2i, he2v, he2x] at hw
  have hEm5 := emits_cleanupold (writedatfile e2) (if recs.isEmpty then [] else [u32 (db.dataSeq + 1)]) (1 - db.datIdx)
  rw [writedatfile_dataSeq, he2s] at hEm5
  -- collect
  obtain ⟨a1, ha1, pa1⟩ := hEm1
  obtain ⟨a2, ha2, pa2⟩ := hEm2
  obtain ⟨a3, ha3, pa3⟩ := hEm3
  obtain ⟨b5, hb5, pb5⟩ := hEm5
  have he1 : e1.effs = d'.effs := rfl
  refine ⟨a1 ++ a2 ++ a3 ++ [("qdb.writedatfile:created", .createIdx (1 - db.datIdx))],
    [("qdb.writedatfile:log-removed", .removeLog),
     ("qdb.writedatfile:old-removed", .removeIdx (1 - (1 - db.datIdx)))] ++ b5, ?_, ?_, ?_⟩
  · rw [hdef, hfin]
    show (cleanupold (writedatfile e2) _).effs = _
    rw [hb5, hw, ha3, he1, ha2, ha1]
    simp [List.append_assoc]
    rfl
  · intro e he
    simp only [List.mem_append, List.mem_cons, List.not_mem_nil, or_false] at he
    rcases he with ((h1 | h1) | h1) | h1
    · exact Or.inl (pa1 e h1)
    · exact Or.inl (pa2 e h1)
    · exact Or.inl (pa3 e h1)
    · rw [h1]; exact Or.inr rfl
  · intro e he
    simp only [List.mem_append, List.mem_cons, List.not_mem_nil, or_false] at he
    rcases he with (h1 | h1) | h1
    · rw [h1]; exact Or.inl rfl
    · rw [h1]; exact Or.inr (Or.inl ⟨_, by omega, rfl⟩)
    · exact pb5 e h1

/-! ### before the cut: nothing a reopen looks at has changed -/

/-- relative to `F0`: the new index slot `i` is still unusable (absent or empty), the other slot, the log and every
    data file except `S` are untouched -/
structure PreState (F0 F : FS) (S i : Nat) : Prop where
  slot : checkIdxFile (idxFile F i) = none
  other : otherIdx F i = otherIdx F0 i
  log : F.log = F0.log
  dats : ∀ t, t ≠ S → dlookup t F.dats = dlookup t F0.dats

theorem PreState.step {F0 F : FS} {S i : Nat} (h : PreState F0 F S i) (e : Effect) (he : PreCut S i e) :
    PreState F0 (F.apply e) S i := by
  rcases he with (⟨p, b, rfl⟩ | rfl) | rfl
  · -- writeDat S
    have hfs : (F.apply (.writeDat S p b)).idx0 = F.idx0 ∧ (F.apply (.writeDat S p b)).idx1 = F.idx1 ∧
        (F.apply (.writeDat S p b)).log = F.log ∧ ∀ t, t ≠ S → dlookup t (F.apply (.writeDat S p b)).dats = dlookup t F.dats := by
      cases hl : dlookup S F.dats with
      | none =>
        have : F.apply (.writeDat S p b) = F := by unfold FS.apply; simp [hl]
        rw [this]; exact ⟨rfl, rfl, rfl, fun _ _ => rfl⟩
      | some old =>
        have : F.apply (.writeDat S p b) = { F with dats := dset S (writeAt old p b) F.dats } := by
          unfold FS.apply; simp [hl]
        rw [this]; exact ⟨rfl, rfl, rfl, fun t ht => dlookup_dset_other _ _ _ _ ht⟩
    obtain ⟨a, b', c, d⟩ := hfs
    exact ⟨by unfold idxFile; rw [a, b']; exact h.slot, by unfold otherIdx; rw [a, b']; exact h.other,
      c.trans h.log, fun t ht => (d t ht).trans (h.dats t ht)⟩
  · -- createDat S
    exact ⟨h.slot, h.other, h.log, fun t ht => by
      show dlookup t (dset S [] F.dats) = _
      rw [dlookup_dset_other _ _ _ _ ht]; exact h.dats t ht⟩
  · -- createIdx i
    by_cases hi : i = 0
    · have hf : F.apply (.createIdx i) = { F with idx0 := some [] } := by unfold FS.apply; simp [hi]
      rw [hf]
      refine ⟨by unfold idxFile; simp [hi, checkIdxFile], ?_, h.log, h.dats⟩
      have := h.other
      unfold otherIdx at this ⊢
      simpa [hi] using this
    · have hf : F.apply (.createIdx i) = { F with idx1 := some [] } := by unfold FS.apply; simp [hi]
      rw [hf]
      refine ⟨by unfold idxFile; simp [hi, checkIdxFile], ?_, h.log, h.dats⟩
      have := h.other
      unfold otherIdx at this ⊢
      simpa [hi] using this

theorem PreState.applyAll {F0 F : FS} {S i : Nat} (h : PreState F0 F S i) (l : List Effect)
    (hl : ∀ e ∈ l, PreCut S i e) : PreState F0 (F.applyAll l) S i := by
  induction l generalizing F with
  | nil => exact h
  | cons e t ih =>
    exact ih (h.step e (hl e List.mem_cons_self)) (fun x hx => hl x (List.mem_cons_of_mem _ hx))

theorem checkIdxFile_nil : checkIdxFile (some []) = none := by
  unfold checkIdxFile; simp

/-- a pre-cut directory reopens to the old content -/
theorem PreState.grown {F0 F : FS} {S i : Nat} (h : PreState F0 F S i) (h0 : checkIdxFile (idxFile F0 i) = none) :
    pickIdx F = pickIdx F0 ∧ logEntries F = logEntries F0 := by
  have hp : pickIdx F = pickIdx F0 := by
    have hs := h.slot
    have ho := h.other
    unfold idxFile at hs h0
    unfold otherIdx at ho
    unfold pickIdx
    by_cases hi : i = 0
    · simp only [hi, ↓reduceIte] at hs h0 ho
      rw [ho, h0, hs]
    · simp only [hi, ↓reduceIte] at hs h0 ho
      rw [ho, h0, hs]
  refine ⟨hp, ?_⟩
  unfold logEntries snapVer
  rw [h.log, hp]

/-! ### after the cut: the new snapshot and its data file stay; old things may disappear -/

structure PostState (F0 G : FS) (S i : Nat) (X fS : Bytes) : Prop where
  slot : idxFile G i = some X
  file : dlookup S G.dats = some fS
  other : otherIdx G i = otherIdx F0 i ∨ otherIdx G i = none
  log : G.log = F0.log ∨ G.log = none

theorem PostState.step {F0 G : FS} {S i : Nat} {X fS : Bytes} (h : PostState F0 G S i X fS) (e : Effect)
    (he : IsRemoval S i e) : PostState F0 (G.apply e) S i X fS := by
  rcases he with rfl | ⟨j, hj, rfl⟩ | ⟨t, ht, rfl⟩
  · exact ⟨h.slot, h.file, h.other, Or.inr rfl⟩
  · by_cases hj0 : j = 0
    · have hi : i ≠ 0 := hj.mp hj0
      have hf : G.apply (.removeIdx j) = { G with idx0 := none } := by unfold FS.apply; simp [hj0]
      rw [hf]
      refine ⟨?_, h.file, Or.inr ?_, h.log⟩
      · have := h.slot; unfold idxFile at this ⊢; simpa [hi] using this
      · unfold otherIdx; simp [hi]
    · have hi : i = 0 := by
        by_cases hi : i = 0
        · exact hi
        · exact absurd (hj.mpr hi) hj0
      have hf : G.apply (.removeIdx j) = { G with idx1 := none } := by unfold FS.apply; simp [hj0]
      rw [hf]
      refine ⟨?_, h.file, Or.inr ?_, h.log⟩
      · have := h.slot; unfold idxFile at this ⊢; simpa [hi] using this
      · unfold otherIdx; simp [hi]
  · refine ⟨h.slot, ?_, h.other, h.log⟩
    show dlookup S (derase t G.dats) = some fS
    rw [dlookup_derase_other _ _ _ (Ne.symm ht)]
    exact h.file

theorem PostState.applyAll {F0 G : FS} {S i : Nat} {X fS : Bytes} (h : PostState F0 G S i X fS) (l : List Effect)
    (hl : ∀ e ∈ l, IsRemoval S i e) : PostState F0 (G.applyAll l) S i X fS := by
  induction l generalizing G with
  | nil => exact h
  | cons e t ih =>
    exact ih (h.step e (hl e List.mem_cons_self)) (fun x hx => hl x (List.mem_cons_of_mem _ hx))

/-! ### a directory holding the new snapshot reopens to the new content -/

theorem seqNewer_succ (v : Nat) (hv : v < 2^32) :
    seqNewerEq (u32 (v + 1)) v = true ∧ seqNewerEq v (u32 (v + 1)) = false := by
  unfold seqNewerEq u32
  have h1 : v % 2^32 = v := Nat.mod_eq_of_lt hv
  by_cases hw : v + 1 < 2^32
  · have h2 : (v + 1) % 2^32 = v + 1 := Nat.mod_eq_of_lt hw
    constructor
    · simp only [h1, h2, decide_eq_true_eq]; omega
    · simp only [h2, decide_eq_false_iff_not]
      omega
  · have hv' : v = 2^32 - 1 := by omega
    subst hv'
    decide

theorem u32_succ_ne (v : Nat) (hv : v < 2^32) : u32 (v + 1) ≠ v := by
  unfold u32
  by_cases hw : v + 1 < 2^32
  · rw [Nat.mod_eq_of_lt hw]; omega
  · have : v = 2^32 - 1 := by omega
    subst this
    decide

/-- what the old directory may still contribute: the old index slot and the old log -/
structure OldParts (F0 : FS) (i v : Nat) : Prop where
  other : checkIdxFile (otherIdx F0 i) = none ∨ ∃ Xo, checkIdxFile (otherIdx F0 i) = some (v, Xo)
  log : ∃ E, LogState F0 v E

theorem post_pick {F0 G : FS} {S i v : Nat} {X fS : Bytes} (h : PostState F0 G S i X fS) (ho : OldParts F0 i v)
    (hv : v < 2^32) (hX : checkIdxFile (some X) = some (u32 (v + 1), X)) :
    (∃ j, pickIdx G = some (j, u32 (v + 1), X)) ∧ logEntries G = [] := by
  obtain ⟨hn1, hn2⟩ := seqNewer_succ v hv
  -- what the other slot can hold
  have hother : checkIdxFile (otherIdx G i) = none ∨ ∃ Xo, checkIdxFile (otherIdx G i) = some (v, Xo) := by
    rcases h.other with h1 | h1
    · rw [h1]; exact ho.other
    · rw [h1]; exact Or.inl rfl
  have hpick : ∃ j, pickIdx G = some (j, u32 (v + 1), X) := by
    have hs := h.slot
    unfold idxFile at hs
    unfold otherIdx at hother
    unfold pickIdx
    by_cases hi : i = 0
    · simp only [hi, ↓reduceIte] at hs hother
      rw [hs, hX]
      rcases hother with h1 | ⟨Xo, h1⟩
      · rw [h1]; exact ⟨0, rfl⟩
      · rw [h1]; simp only [hn1, ↓reduceIte]; exact ⟨0, rfl⟩
    · simp only [hi, ↓reduceIte] at hs hother
      rw [hs, hX]
      rcases hother with h1 | ⟨Xo, h1⟩
      · rw [h1]; exact ⟨1, rfl⟩
      · rw [h1]; simp only [hn2, Bool.false_eq_true, ↓reduceIte]; exact ⟨1, rfl⟩
  refine ⟨hpick, ?_⟩
  obtain ⟨j, hp⟩ := hpick
  unfold logEntries snapVer
  rw [hp]
  rcases h.log with h1 | h1
  · rw [h1]
    obtain ⟨E, hE⟩ := ho.log
    rcases hE with ⟨h2, _⟩ | h2
    · rw [h2]
    · rw [h2]
      simp only []
      have : logBody (le32 v ++ encLog E) (u32 (v + 1)) = none := by
        unfold logBody
        have ht : (le32 v ++ encLog E).take 4 = le32 v := List.take_left' (by simp)
        rw [ht, leVal_le32 v hv]
        have := u32_succ_ne v hv
        simp [Ne.symm this]
      rw [this]
  · rw [h1]

theorem ilookup_layout_val (S b : Nat) (l : List (Key × Rec)) (k : Key) :
    (ilookup k (layout S b l)).map valOf = (ilookup k l).map valOf := by
  have h := layout_abs S b l
  have h1 : mapV absRec (layout S b l) = mapV absRec l := h
  have h2 := congrArg (ilookup k) h1
  rw [ilookup_mapV, ilookup_mapV] at h2
  have h3 := congrArg (Option.map (fun x : Bytes × Nat => x.1)) h2
  rw [Option.map_map, Option.map_map] at h3
  exact h3

/-- any directory that holds the complete new snapshot, its data file, and at most remnants of the old
    snapshot / old log, reopens to the new content -/
theorem post_content {F0 G : FS} {S i v : Nat} (idx : List (Key × Rec)) (hwf : IndexWF eg idx) (hS : S < 2^32)
    (h : PostState F0 G S i (snapBytes (u32 (v + 1)) (layout S 4 idx)) (le32 S ++ (valsOf idx).flatten))
    (ho : OldParts F0 i v) (hv : v < 2^32) :
    DirReadable eg G ∧ ∀ k, diskValue G k = (ilookup k idx).map valOf := by
  have hV : u32 (v + 1) < 2^32 := u32_lt _
  have hfits := layout_fits S hS idx hwf.wf 4 hwf.small
  obtain ⟨⟨j, hpick⟩, hlog⟩ := post_pick h ho hv (checkIdxFile_snapBytes _ _ hV)
  have hrecs := snapshotRecs_snapBytes (u32 (v + 1)) (layout S 4 idx) hfits
  have hkeys : (Keys ((layout S 4 idx).map stripKR)).Nodup := by
    have : Keys ((layout S 4 idx).map stripKR) = idx.map (·.1) := by
      unfold Keys
      rw [List.map_map]
      have : ((fun x : Key × Rec => x.1) ∘ stripKR) = (fun x : Key × Rec => x.1) := by funext x; rfl
      rw [this, layout_keys]
    rw [this]; exact hwf.nodup
  have hDI : diskIndex G = mapV strip (layout S 4 idx) := by
    unfold diskIndex snapBase
    rw [hpick, hlog]
    simp only [applyEntriesL, List.foldl_nil, hrecs]
    exact isetAll_nil_nodup _ hkeys
  have hreads := layout_reads S idx hwf.wf (le32 S) (by simpa using hwf.small)
  simp only [le32_length] at hreads
  constructor
  · intro kr hkr
    rw [hDI] at hkr
    obtain ⟨x, hx, rfl⟩ := List.mem_map.mp hkr
    obtain ⟨h1, h2⟩ := hreads x hx
    exact ⟨(layout_cached _ _ _ hwf.cached x hx).2, _, valOf x.2,
      by show dlookup x.2.seq _ = _; rw [h1]; exact h.file, h2⟩
  · intro k
    unfold diskValue
    rw [hDI, ilookup_mapV, ← ilookup_layout_val S 4 idx k]
    cases hl : ilookup k (layout S 4 idx) with
    | none => rfl
    | some r =>
      have hmem := ilookup_key_pair k r _ hl
      obtain ⟨h1, h2⟩ := hreads (k, r) hmem
      simp only [Option.map_some, Option.some.injEq]
      show List.take r.len (List.drop r.pos ((dlookup r.seq G.dats).getD [])) = valOf r
      have h1' : r.seq = S := h1
      rw [h1', h.file]
      exact h2.2.2

/-! ### all crash points of defrag() -/

theorem removal_keeps (S i : Nat) (l : List Effect) (hl : ∀ e ∈ l, IsRemoval S i e) (G : FS) :
    idxFile (G.applyAll l) i = idxFile G i ∧ dlookup S (G.applyAll l).dats = dlookup S G.dats := by
  induction l generalizing G with
  | nil => exact ⟨rfl, rfl⟩
  | cons e t ih =>
    obtain ⟨a, b⟩ := ih (fun x hx => hl x (List.mem_cons_of_mem _ hx)) (G.apply e)
    have hstep : idxFile (G.apply e) i = idxFile G i ∧ dlookup S (G.apply e).dats = dlookup S G.dats := by
      rcases hl e List.mem_cons_self with rfl | ⟨j, hj, rfl⟩ | ⟨t', ht, rfl⟩
      · exact ⟨rfl, rfl⟩
      · by_cases hj0 : j = 0
        · have hi : i ≠ 0 := hj.mp hj0
          have hf : G.apply (.removeIdx j) = { G with idx0 := none } := by unfold FS.apply; simp [hj0]
          rw [hf]; exact ⟨by unfold idxFile; simp [hi], rfl⟩
        · have hi : i = 0 := by
            by_cases hi : i = 0
            · exact hi
            · exact absurd (hj.mpr hi) hj0
          have hf : G.apply (.removeIdx j) = { G with idx1 := none } := by unfold FS.apply; simp [hj0]
          rw [hf]; exact ⟨by unfold idxFile; simp [hi], rfl⟩
      · exact ⟨rfl, dlookup_derase_other _ _ _ (Ne.symm ht)⟩
    exact ⟨a.trans hstep.1, b.trans hstep.2⟩

theorem same_disk_readable (F0 F : FS) (hp : pickIdx F = pickIdx F0) (hl : logEntries F = logEntries F0)
    (hd : ∀ kr ∈ diskIndex F0, dlookup kr.2.seq F.dats = dlookup kr.2.seq F0.dats) (h0 : DirReadable eg F0) :
    DirReadable eg F ∧ ∀ k, diskValue F k = diskValue F0 k := by
  have hD : diskIndex F = diskIndex F0 := by unfold diskIndex snapBase; rw [hl, hp]
  constructor
  · intro kr hkr
    rw [hD] at hkr
    obtain ⟨h1, f, v, h3, h4⟩ := h0 kr hkr
    exact ⟨h1, f, v, by rw [hd kr hkr]; exact h3, h4⟩
  · intro k
    unfold diskValue
    rw [hD]
    cases hlk : ilookup k (diskIndex F0) with
    | none => rfl
    | some rd =>
      have hkmem := ilookup_key_pair k rd (diskIndex F0) hlk
      simp only [Option.map_some, Option.some.injEq]
      rw [hd (k, rd) hkmem]

/-- a directory holding the complete new snapshot is openable: what is left of the old log is discarded by
    `loadlog` (its header carries the previous version) -/
theorem post_openOK {F0 G : FS} {S i v : Nat} {X fS : Bytes} (h : PostState F0 G S i X fS) (ho : OldParts F0 i v)
    (hv : v < 2^32) (hX : checkIdxFile (some X) = some (u32 (v + 1), X)) (hR : DirReadable eg G) : OpenOK eg G := by
  obtain ⟨⟨j, hp⟩, _⟩ := post_pick h ho hv hX
  have hsv : snapVer G = u32 (v + 1) := by unfold snapVer; rw [hp]
  refine ⟨?_, by rw [hsv]; exact u32_lt _, hR⟩
  rw [hsv]
  have hnone : G.log = none → (∃ E, (∀ e ∈ E, EntryFits e) ∧ LogState G (u32 (v + 1)) E) ∨ LogDiscarded G :=
    fun hn => Or.inl ⟨[], (fun e he => by cases he), Or.inl ⟨hn, rfl⟩⟩
  rcases h.log with h1 | h1
  · obtain ⟨E, hE⟩ := ho.log
    rcases hE with ⟨h2, _⟩ | h2
    · exact hnone (h1.trans h2)
    · refine Or.inr ⟨_, h1.trans h2, ?_⟩
      rw [hsv]
      unfold logBody
      have ht : (le32 v ++ encLog E).take 4 = le32 v := List.take_left' (by simp)
      rw [ht, leVal_le32 v hv]
      have := u32_succ_ne v hv
      simp [Ne.symm this]
  · exact hnone h1

/-- what the directory must look like before defrag starts -/
structure DefragReady (db : DB) : Prop where
  cached : Cached db
  wf : IndexWF db.eager db.index
  free : checkIdxFile (idxFile db.fs (1 - db.datIdx)) = none
  old : OldParts db.fs (1 - db.datIdx) db.verSeq
  verlt : db.verSeq < 2^32
  readable : DirReadable db.eager db.fs
  seqs : ∀ kr ∈ diskIndex db.fs, kr.2.seq ≠ u32 (db.dataSeq + 1)
  logfits : ∃ E, (∀ e ∈ E, EntryFits e) ∧ LogState db.fs db.verSeq E
  ver : snapVer db.fs = db.verSeq
  small : (snapBytes (u32 (db.verSeq + 1)) (layout (u32 (db.dataSeq + 1)) 4 db.index)).length ≤ bufSize

/-- Every directory that exists inside defrag() — after any number of its file operations — reopens without
    failure, and either EVERY key has the value the directory held before defrag(), or EVERY key has its
    in-memory value. -/
theorem defrag_prefix (db : DB) (hr : DefragReady db) :
    ∃ es, (defrag db).effs = db.effs ++ es ∧
      ∀ n, OpenOK db.eager (db.fs.applyAll ((es.map (·.2)).take n)) ∧
        ((∀ k, diskValue (db.fs.applyAll ((es.map (·.2)).take n)) k = diskValue db.fs k) ∨
         (∀ k, diskValue (db.fs.applyAll ((es.map (·.2)).take n)) k = (ilookup k db.index).map valOf)) := by
  obtain ⟨A, B, hsh, hA, hB⟩ := defrag_effs_shape db hr.cached hr.small
  refine ⟨_, hsh, ?_⟩
  -- the final directory
  obtain ⟨es', he1, he2⟩ := replays_defrag db
  have hes : es' = A ++ (("qdb.writedatfile:written", Effect.appendIdx (1 - db.datIdx)
      (snapBytes (u32 (db.verSeq + 1)) (layout (u32 (db.dataSeq + 1)) 4 db.index))) :: B) :=
    List.append_cancel_left (he1.symm.trans hsh)
  obtain ⟨_, _, d3, _, _, d6, _⟩ := defrag_disk db hr.cached
  let S := u32 (db.dataSeq + 1)
  let i := 1 - db.datIdx
  let X := snapBytes (u32 (db.verSeq + 1)) (layout S 4 db.index)
  let A' := A.map (·.2)
  let B' := B.map (·.2)
  have hA' : ∀ e ∈ A', PreCut S i e := by
    intro e he
    obtain ⟨x, hx, rfl⟩ := List.mem_map.mp he
    exact hA x hx
  have hB' : ∀ e ∈ B', IsRemoval S i e := by
    intro e he
    obtain ⟨x, hx, rfl⟩ := List.mem_map.mp he
    exact hB x hx
  have hmap : (A ++ (("qdb.writedatfile:written", Effect.appendIdx i X) :: B)).map (·.2) =
      A' ++ (Effect.appendIdx i X :: B') := by simp [A', B']
  rw [hmap]
  have hpre0 : PreState db.fs db.fs S i := ⟨hr.free, rfl, rfl, fun _ _ => rfl⟩
  have hpreA := hpre0.applyAll A' hA'
  -- the state at the cut
  let Gc := (db.fs.applyAll A').apply (.appendIdx i X)
  have hfinal : (defrag db).fs = Gc.applyAll B' := by
    rw [he2, hes, hmap, applyAll_append]
    rfl
  obtain ⟨k1, k2⟩ := removal_keeps S i B' hB' Gc
  have hslotc : idxFile Gc i = some X := by rw [← k1, ← hfinal]; exact d3
  have hfilec : dlookup S Gc.dats = some (le32 S ++ (valsOf db.index).flatten) := by rw [← k2, ← hfinal]; exact d6
  have hpostc : PostState db.fs Gc S i X (le32 S ++ (valsOf db.index).flatten) := by
    refine ⟨hslotc, hfilec, Or.inl ?_, Or.inl ?_⟩
    · have := hpreA.other
      show otherIdx ((db.fs.applyAll A').apply (.appendIdx i X)) i = _
      rw [← this]
      unfold otherIdx FS.apply
      by_cases hi : i = 0 <;> simp [hi]
    · have := hpreA.log
      show ((db.fs.applyAll A').apply (.appendIdx i X)).log = _
      rw [← this]
      unfold FS.apply
      by_cases hi : i = 0 <;> simp [hi]
  intro n
  by_cases hn : n ≤ A'.length
  · -- before the cut
    have ht : (A' ++ (Effect.appendIdx i X :: B')).take n = A'.take n := by
      rw [List.take_append_of_le_length hn]
    rw [ht]
    have hpre := hpre0.applyAll (A'.take n) (fun e he => hA' e (List.mem_of_mem_take he))
    obtain ⟨g1, g2⟩ := hpre.grown hr.free
    have := same_disk_readable db.fs _ g1 g2 (fun kr hkr => hpre.dats _ (hr.seqs kr hkr)) hr.readable
    have hsv : snapVer (db.fs.applyAll (A'.take n)) = db.verSeq := by
      rw [← hr.ver]; unfold snapVer; rw [g1]
    refine ⟨⟨Or.inl ?_, by rw [hsv]; exact hr.verlt, this.1⟩, Or.inl this.2⟩
    obtain ⟨E, hE, hs⟩ := hr.logfits
    refine ⟨E, hE, ?_⟩
    rw [hsv]
    unfold LogState at hs ⊢
    rw [hpre.log]; exact hs
  · -- at or after the cut
    have ht : (A' ++ (Effect.appendIdx i X :: B')).take n =
        A' ++ (Effect.appendIdx i X :: B'.take (n - A'.length - 1)) := by
      rw [List.take_append, List.take_of_length_le (by omega)]
      obtain ⟨m, hm⟩ : ∃ m, n - A'.length = m + 1 := ⟨n - A'.length - 1, by omega⟩
      rw [hm, List.take_succ_cons]
      simp
    rw [ht, applyAll_append]
    show OpenOK db.eager (Gc.applyAll (B'.take (n - A'.length - 1))) ∧ _
    have hpost := hpostc.applyAll (B'.take (n - A'.length - 1)) (fun e he => hB' e (List.mem_of_mem_take he))
    have := post_content db.index hr.wf (u32_lt _) hpost hr.old hr.verlt
    exact ⟨post_openOK hpost hr.old hr.verlt (checkIdxFile_snapBytes _ _ (u32_lt _)) this.1, Or.inr this.2⟩

end GocoinV.Proofs.C19
