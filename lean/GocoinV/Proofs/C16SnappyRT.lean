/-
  Proofs.C16SnappyRT — the snappy round trip `decode (encode src) = .ok src` for the executable model
  `Model/Snappy.lean` (all lengths ≤ 0xffffffff).
-/
import GocoinV.Proofs.C16Snappy
namespace GocoinV.Snappy

theorem maxblock_eq : MAXBLOCK = 65536 := by decide
theorem margin_eq : MARGIN = 15 := by decide
theorem minnonlit_eq : MINNONLIT = 17 := by decide

/-! ## Layer 0: the varint header -/

theorem u8_lt_iff (a c : UInt8) : a < c ↔ a.toNat < c.toNat := UInt8.lt_iff_toNat_lt

theorem uvarintAux_small (f x i acc : Nat) (rest : Bytes) (hx : x < 128) (hi : i < 9) :
    uvarintAux (putUvarintAux f x ++ rest) i acc = some (acc + x * 2 ^ (7 * i), i + (putUvarintAux f x).length) := by
  have hp : putUvarintAux f x = [UInt8.ofNat x] := by
    cases f with
    | zero => rfl
    | succ f => simp only [putUvarintAux]; rw [if_neg (by omega)]
  rw [hp]
  have e : (UInt8.ofNat x).toNat = x := ofNat_toNat _ (by omega)
  have hlt : UInt8.ofNat x < 0x80 := by
    rw [u8_lt_iff, e]; exact hx
  simp only [List.cons_append, List.nil_append, uvarintAux]
  rw [if_neg (by omega), if_pos hlt, if_neg (by omega), e]
  simp

theorem uvarintAux_put (k : Nat) : ∀ (f x i acc : Nat) (rest : Bytes), x < 128 ^ (k + 1) → k ≤ f → i + k < 9 →
    uvarintAux (putUvarintAux f x ++ rest) i acc = some (acc + x * 2 ^ (7 * i), i + (putUvarintAux f x).length) := by
  induction k with
  | zero =>
    intro f x i acc rest hx _ hi
    exact uvarintAux_small f x i acc rest (by simpa using hx) (by omega)
  | succ k ih =>
    intro f x i acc rest hx hf hi
    by_cases hs : x < 128
    · exact uvarintAux_small f x i acc rest hs (by omega)
    · obtain ⟨f', rfl⟩ : ∃ f', f = f' + 1 := ⟨f - 1, by omega⟩
      have hp : putUvarintAux (f' + 1) x = UInt8.ofNat (x % 128 + 128) :: putUvarintAux f' (x / 128) := by
        simp only [putUvarintAux]; rw [if_pos (by omega)]
      rw [hp]
      have e : (UInt8.ofNat (x % 128 + 128)).toNat = x % 128 + 128 := ofNat_toNat _ (by omega)
      have hge : ¬ UInt8.ofNat (x % 128 + 128) < 0x80 := by
        rw [u8_lt_iff, e]; simp
      simp only [List.cons_append, uvarintAux]
      rw [if_neg (by omega), if_neg hge, e]
      have hx' : x / 128 < 128 ^ (k + 1) := by
        rw [Nat.div_lt_iff_lt_mul (by decide)]
        rw [Nat.pow_succ] at hx; exact hx
      rw [ih f' (x / 128) (i + 1) _ rest hx' (by omega) (by omega)]
      have h1 : (x % 128 + 128) % 128 = x % 128 := by omega
      have h2 : 2 ^ (7 * (i + 1)) = 128 * 2 ^ (7 * i) := by
        rw [show 7 * (i + 1) = 7 * i + 7 by omega, Nat.pow_add]; omega
      rw [h1, h2]
      have h3 : x % 128 * 2 ^ (7 * i) + x / 128 * (128 * 2 ^ (7 * i)) = x * 2 ^ (7 * i) := by
        rw [← Nat.mul_assoc, ← Nat.add_mul]
        congr 1
        omega
      simp only [List.length_cons]
      rw [Nat.add_assoc, h3]
      congr 2
      omega

theorem decodedLen_put (n : Nat) (rest : Bytes) (h : n ≤ 0xffffffff) :
    decodedLen (putUvarint n ++ rest) = some (n, (putUvarint n).length) := by
  unfold decodedLen uvarint putUvarint
  rw [uvarintAux_put 4 10 n 0 0 rest (by omega) (by omega) (by omega)]
  simp only [Nat.mul_zero, Nat.pow_zero, Nat.mul_one, Nat.zero_add]
  rw [if_neg (by omega)]

/-! ## Layer 1: the decoder over a list of emit calls -/

/-- well-formedness of a list of emit calls relative to the already decoded prefix -/
def WF (dst : Array UInt8) : List Elem → Prop
  | [] => True
  | .lit l :: es => 1 ≤ l.length ∧ l.length ≤ 65536 ∧ WF (dst ++ l.toArray) es
  | .copy o n :: es => 1 ≤ o ∧ o < 65536 ∧ o ≤ dst.size ∧ 4 ≤ n ∧ WF (copyFwd dst o n) es

theorem expand_size_ge (es : List Elem) : ∀ dst : Array UInt8, dst.size ≤ (expand dst es).size := by
  induction es with
  | nil => intro dst; exact Nat.le_refl _
  | cons e es ih =>
    intro dst
    cases e with
    | lit l => simp only [expand]; refine Nat.le_trans ?_ (ih _); simp
    | copy o n => simp only [expand]; refine Nat.le_trans ?_ (ih _); rw [copyFwd_size]; omega

theorem expand_append (a c : List Elem) : ∀ dst, expand dst (a ++ c) = expand (expand dst a) c := by
  induction a with
  | nil => intro dst; rfl
  | cons e es ih =>
    intro dst
    cases e with
    | lit l => simp only [List.cons_append, expand]; exact ih _
    | copy o n => simp only [List.cons_append, expand]; exact ih _

theorem WF_append (a c : List Elem) : ∀ dst, WF dst (a ++ c) ↔ WF dst a ∧ WF (expand dst a) c := by
  induction a with
  | nil => intro dst; simp [WF, expand]
  | cons e es ih =>
    intro dst
    cases e with
    | lit l => simp only [List.cons_append, WF, expand, ih]; simp only [and_assoc]
    | copy o n => simp only [List.cons_append, WF, expand, ih]; simp only [and_assoc]

theorem emitAll_nil : emitAll [] = [] := rfl
theorem emitAll_cons (e : Elem) (es : List Elem) : emitAll (e :: es) = emitElem e ++ emitAll es := by
  simp [emitAll]

theorem decodeLoop_step (dLen f : Nat) (src src' : Bytes) (dst dst' : Array UInt8)
    (hne : src ≠ []) (h : decodeStep dLen src dst = .ok (src', dst')) :
    decodeLoop dLen (f + 1) src dst = decodeLoop dLen f src' dst' := by
  cases src with
  | nil => exact absurd rfl hne
  | cons x xs => simp only [decodeLoop]; rw [h]

theorem copy2_length (o n : Nat) : (copy2 o n).length = 3 := rfl

/-- the bytes of one `emitCopy` call are decoded (in several steps) to the forward copy -/
theorem decodeLoop_emitCopyAux (dLen o : Nat) (ho1 : 1 ≤ o) (ho2 : o < 65536) (f : Nat) :
    ∀ (n : Nat) (rest : Bytes) (dst : Array UInt8) (F : Nat), 4 ≤ n → n / 60 + 2 ≤ f + 1 → o ≤ dst.size →
      dst.size + n ≤ dLen → (emitCopyAux f o n ++ rest).length ≤ F →
      ∃ F', rest.length ≤ F' ∧
        decodeLoop dLen F (emitCopyAux f o n ++ rest) dst = decodeLoop dLen F' rest (copyFwd dst o n) := by
  induction f with
  | zero => intro n rest dst F h4 hf; omega
  | succ f ih =>
    intro n rest dst F h4 hf hback hroom hF
    simp only [emitCopyAux] at hF ⊢
    by_cases c1 : n ≥ 68
    · rw [if_pos c1] at hF ⊢
      rw [List.append_assoc] at hF ⊢
      rw [List.length_append, copy2_length] at hF
      obtain ⟨F0, rfl⟩ : ∃ F0, F = F0 + 1 := ⟨F - 1, by omega⟩
      rw [decodeLoop_step dLen F0 _ _ _ _ (by simp [copy2])
        (decodeStep_copy2 dLen o 64 _ dst (by omega) (by omega) ho1 ho2 hback (by omega))]
      obtain ⟨F', hF', he⟩ := ih (n - 64) rest (copyFwd dst o 64) F0 (by omega) (by omega)
        (by rw [copyFwd_size]; omega) (by rw [copyFwd_size]; omega) (by omega)
      refine ⟨F', hF', ?_⟩
      rw [he, ← copyFwd_add]
      congr 2; omega
    · rw [if_neg c1] at hF ⊢
      by_cases c2 : n > 64
      · rw [if_pos c2] at hF ⊢
        rw [List.append_assoc] at hF ⊢
        rw [List.length_append, copy2_length] at hF
        obtain ⟨F0, rfl⟩ : ∃ F0, F = F0 + 1 := ⟨F - 1, by omega⟩
        rw [decodeLoop_step dLen F0 _ _ _ _ (by simp [copy2])
          (decodeStep_copy2 dLen o 60 _ dst (by omega) (by omega) ho1 ho2 hback (by omega))]
        obtain ⟨F', hF', he⟩ := ih (n - 60) rest (copyFwd dst o 60) F0 (by omega) (by omega)
          (by rw [copyFwd_size]; omega) (by rw [copyFwd_size]; omega) (by omega)
        refine ⟨F', hF', ?_⟩
        rw [he, ← copyFwd_add]
        congr 2; omega
      · rw [if_neg c2] at hF ⊢
        by_cases c3 : n ≥ 12 ∨ o ≥ 2048
        · rw [if_pos c3] at hF ⊢
          rw [List.length_append, copy2_length] at hF
          obtain ⟨F0, rfl⟩ : ∃ F0, F = F0 + 1 := ⟨F - 1, by omega⟩
          rw [decodeLoop_step dLen F0 _ _ _ _ (by simp [copy2])
            (decodeStep_copy2 dLen o n _ dst (by omega) (by omega) ho1 ho2 hback (by omega))]
          exact ⟨F0, by omega, rfl⟩
        · rw [if_neg c3] at hF ⊢
          simp only [List.length_append, List.length_cons, List.length_nil] at hF
          obtain ⟨F0, rfl⟩ : ∃ F0, F = F0 + 1 := ⟨F - 1, by omega⟩
          rw [decodeLoop_step dLen F0 _ _ _ _ (by simp)
            (decodeStep_copy1 dLen o n _ dst (by omega) (by omega) ho1 (by omega) hback (by omega))]
          exact ⟨F0, by omega, rfl⟩

theorem emitLiteral_ne_nil (l : Bytes) : emitLiteral l ≠ [] := by
  unfold emitLiteral
  simp only
  split
  · simp
  · split <;> simp

theorem emitLiteral_length_pos (l : Bytes) : 1 ≤ (emitLiteral l).length := by
  have := emitLiteral_ne_nil l
  cases h : emitLiteral l with
  | nil => exact absurd h this
  | cons x xs => simp

/-- decoding the bytes of a well-formed list of emit calls reproduces `expand` -/
theorem decodeLoop_emitAll (dLen : Nat) (es : List Elem) :
    ∀ (rest : Bytes) (dst : Array UInt8) (F : Nat), WF dst es → (expand dst es).size ≤ dLen →
      (emitAll es ++ rest).length ≤ F →
      ∃ F', rest.length ≤ F' ∧ decodeLoop dLen F (emitAll es ++ rest) dst = decodeLoop dLen F' rest (expand dst es) := by
  induction es with
  | nil => intro rest dst F _ _ hF; exact ⟨F, by simpa [emitAll_nil] using hF, by simp [emitAll_nil, expand]⟩
  | cons e es ih =>
    intro rest dst F hwf hsz hF
    rw [emitAll_cons, List.append_assoc] at hF ⊢
    cases e with
    | lit l =>
      simp only [WF] at hwf
      simp only [expand] at hsz ⊢
      simp only [emitElem] at hF ⊢
      have hge := expand_size_ge es (dst ++ l.toArray)
      have hs : (dst ++ l.toArray).size = dst.size + l.length := by simp
      rw [List.length_append] at hF
      have := emitLiteral_length_pos l
      obtain ⟨F0, rfl⟩ : ∃ F0, F = F0 + 1 := ⟨F - 1, by omega⟩
      rw [decodeLoop_step dLen F0 _ _ _ _ (by simp [emitLiteral_ne_nil])
        (decodeStep_emitLiteral dLen l _ dst hwf.1 hwf.2.1 (by omega))]
      exact ih rest _ F0 hwf.2.2 hsz (by omega)
    | copy o n =>
      simp only [WF] at hwf
      simp only [expand] at hsz ⊢
      simp only [emitElem, emitCopy] at hF ⊢
      have hge := expand_size_ge es (copyFwd dst o n)
      rw [copyFwd_size] at hge
      obtain ⟨F1, hF1, he⟩ := decodeLoop_emitCopyAux dLen o hwf.1 hwf.2.1 (n / 60 + 2) n (emitAll es ++ rest) dst F
        hwf.2.2.2.1 (by omega) hwf.2.2.1 (by omega) hF
      rw [he]
      exact ih rest _ F1 hwf.2.2.2.2 hsz hF1

/-! ## Layer 2: the encoder loop of one block -/

theorem getD_append_right (pre q : Array UInt8) (k : Nat) : (pre ++ q).getD (pre.size + k) 0 = q.getD k 0 := by
  simp only [Array.getD_eq_getD_getElem?, Array.getElem?_append]
  rw [if_neg (by omega)]
  congr 2; omega

theorem getD_extract0 (p : Array UInt8) (k c : Nat) (hk : k < c) (hc : c ≤ p.size) :
    (p.extract 0 c).getD k 0 = p.getD k 0 := by
  simp only [Array.getD_eq_getD_getElem?, Array.getElem?_extract]
  rw [if_pos (by omega)]
  simp

theorem getD_eq_getElem (p : Array UInt8) (k : Nat) (hk : k < p.size) : p.getD k 0 = p[k] := by
  simp [Array.getD_eq_getD_getElem?, hk]

theorem prefix_push (pre p : Array UInt8) (c : Nat) (hc : c < p.size) :
    (pre ++ p.extract 0 c).push (p.getD c 0) = pre ++ p.extract 0 (c + 1) := by
  rw [getD_eq_getElem p c hc, ← Array.append_push, Array.push_extract_getElem hc]
  simp

/-- a forward copy whose source range agrees with the bytes of `p` that follow reproduces them -/
theorem copyFwd_match (pre p : Array UInt8) (off : Nat) (hoff : 0 < off) :
    ∀ (n c : Nat), off ≤ c → c + n ≤ p.size →
      (∀ j, c ≤ j → j < c + n → p.getD (j - off) 0 = p.getD j 0) →
      copyFwd (pre ++ p.extract 0 c) off n = pre ++ p.extract 0 (c + n) := by
  intro n
  induction n with
  | zero => intro c _ _ _; rfl
  | succ n ih =>
    intro c hc hn hm
    simp only [copyFwd]
    have hsz : (pre ++ p.extract 0 c).size = pre.size + c := by
      simp only [Array.size_append, Array.size_extract]; omega
    have hidx : (pre ++ p.extract 0 c).size - off = pre.size + (c - off) := by omega
    rw [hidx, getD_append_right, getD_extract0 p (c - off) c (by omega) (by omega), hm c (Nat.le_refl _) (by omega),
      prefix_push pre p c (by omega), ih (c + 1) (by omega) (by omega) (fun j h1 h2 => hm j (by omega) (by omega))]
    congr 2; omega

theorem extend_spec (src : Array UInt8) (f : Nat) : ∀ (i s : Nat),
    s ≤ extend src f i s ∧ (s ≤ src.size → extend src f i s ≤ src.size) ∧
    ∀ j, s ≤ j → j < extend src f i s → src.getD (i + (j - s)) 0 = src.getD j 0 := by
  induction f with
  | zero => intro i s; simp only [extend]; exact ⟨Nat.le_refl _, fun h => h, fun j h1 h2 => by omega⟩
  | succ f ih =>
    intro i s
    simp only [extend]
    by_cases c : s < src.size ∧ src.getD i 0 = src.getD s 0
    · rw [if_pos c]
      obtain ⟨h1, h2, h3⟩ := ih (i + 1) (s + 1)
      refine ⟨by omega, fun _ => h2 (by omega), ?_⟩
      intro j hj1 hj2
      by_cases hjs : j = s
      · subst hjs; simpa using c.2
      · have := h3 j (by omega) hj2
        rw [← this]; congr 1; omega
    · rw [if_neg c]; exact ⟨Nat.le_refl _, fun h => h, fun j h1 h2 => by omega⟩

theorem at8_lt (p : Array UInt8) (i : Nat) : at8 p i < 256 := by
  unfold at8; exact UInt8.toNat_lt _

theorem load32_eq (p : Array UInt8) (a c : Nat) (h : load32 p a = load32 p c) :
    ∀ k, k < 4 → p.getD (a + k) 0 = p.getD (c + k) 0 := by
  unfold load32 at h
  have a0 := at8_lt p a; have a1 := at8_lt p (a + 1); have a2 := at8_lt p (a + 2); have a3 := at8_lt p (a + 3)
  have c0 := at8_lt p c; have c1 := at8_lt p (c + 1); have c2 := at8_lt p (c + 2); have c3 := at8_lt p (c + 3)
  have e0 : at8 p a = at8 p c := by omega
  have e1 : at8 p (a + 1) = at8 p (c + 1) := by omega
  have e2 : at8 p (a + 2) = at8 p (c + 2) := by omega
  have e3 : at8 p (a + 3) = at8 p (c + 3) := by omega
  unfold at8 at e0 e1 e2 e3
  intro k hk
  have : k = 0 ∨ k = 1 ∨ k = 2 ∨ k = 3 := by omega
  rcases this with rfl | rfl | rfl | rfl
  · exact UInt8.toNat_inj.mp e0
  · exact UInt8.toNat_inj.mp e1
  · exact UInt8.toNat_inj.mp e2
  · exact UInt8.toNat_inj.mp e3

theorem getD_setIfInBounds_le (t : Array Nat) (i v B : Nat) (ht : ∀ j, t.getD j 0 ≤ B) (hv : v ≤ B) :
    ∀ j, (t.setIfInBounds i v).getD j 0 ≤ B := by
  intro j
  have := ht j
  simp only [Array.getD_eq_getD_getElem?, Array.getElem?_setIfInBounds] at this ⊢
  split
  · split
    · simpa using hv
    · simp
  · exact this

/-- `acc` (reversed) is a well-formed list of emit calls reproducing the first `n` bytes of `p` after `pre` -/
def Acc (pre p : Array UInt8) (acc : List Elem) (n : Nat) : Prop :=
  WF pre acc.reverse ∧ expand pre acc.reverse = pre ++ p.extract 0 n

def Result (pre p : Array UInt8) (es : List Elem) : Prop :=
  WF pre es ∧ expand pre es = pre ++ p

theorem slice_length (p : Array UInt8) (a c : Nat) (hc : c ≤ p.size) : (slice p a c).length = c - a := by
  simp [slice]; omega

theorem Acc_lit (pre p : Array UInt8) (acc : List Elem) (n m : Nat) (h : Acc pre p acc n)
    (hnm : n < m) (hm : m ≤ p.size) (hlen : m - n ≤ 65536) : Acc pre p (.lit (slice p n m) :: acc) m := by
  obtain ⟨h1, h2⟩ := h
  unfold Acc
  rw [List.reverse_cons, WF_append, expand_append, h2]
  have hl := slice_length p n m hm
  refine ⟨⟨h1, ?_⟩, ?_⟩
  · simp only [WF, and_true]; omega
  · simp only [expand, slice, Array.toArray_toList]
    rw [Array.append_assoc, Array.extract_append_extract]
    congr 2 <;> omega

theorem Acc_copy (pre p : Array UInt8) (acc : List Elem) (s cand s' : Nat) (h : Acc pre p acc s)
    (hc : cand < s) (hs : s < 65536) (h4 : s + 4 ≤ s') (hs' : s' ≤ p.size)
    (hm : ∀ j, s ≤ j → j < s' → p.getD (j - (s - cand)) 0 = p.getD j 0) :
    Acc pre p (.copy (s - cand) (s' - s) :: acc) s' := by
  obtain ⟨h1, h2⟩ := h
  unfold Acc
  rw [List.reverse_cons, WF_append, expand_append, h2]
  refine ⟨⟨h1, ?_⟩, ?_⟩
  · simp only [WF, Array.size_append, Array.size_extract, and_true]; omega
  · simp only [expand]
    rw [copyFwd_match pre p (s - cand) (by omega) (s' - s) s (by omega) (by omega)
      (fun j hj1 hj2 => hm j hj1 (by omega))]
    congr 2; omega

theorem Result_remainder (pre p : Array UInt8) (e : Enc) (he : e.src = p) (acc : List Elem) (n : Nat)
    (h : Acc pre p acc n) (hn : n ≤ p.size) (hp : p.size ≤ 65536) : Result pre p (remainder e n acc) := by
  unfold remainder
  rw [he]
  by_cases c : n < p.size
  · rw [if_pos c]
    have := Acc_lit pre p acc n p.size h c (Nat.le_refl _) (by omega)
    unfold Acc at this
    rw [Array.extract_size] at this
    exact this
  · rw [if_neg c]
    have : n = p.size := by omega
    subst this
    unfold Acc at h
    rw [Array.extract_size] at h
    exact h

theorem scan_succ (e : Enc) (f : Nat) (table : Array Nat) (nextEmit nextS skip nextHash : Nat) (acc : List Elem) :
    scan e (f + 1) table nextEmit nextS skip nextHash acc =
      if nextS + skip / 32 > e.sLimit then remainder e nextEmit acc
      else if load32 e.src nextS = load32 e.src (table.getD nextHash 0) then
        copyLoop e f (table.setIfInBounds nextHash nextS) nextS (table.getD nextHash 0)
          (.lit (slice e.src nextEmit nextS) :: acc)
      else scan e f (table.setIfInBounds nextHash nextS) nextEmit (nextS + skip / 32) (skip + skip / 32)
        (hashIdx (load32 e.src (nextS + skip / 32)) e.shift) acc := by
  rw [scan]

/-- the body of `copyLoop` after the match has been extended to `s'` -/
def copyBody (e : Enc) (f : Nat) (table : Array Nat) (s cand s' : Nat) (acc : List Elem) : List Elem :=
  if s' ≥ e.sLimit then remainder e s' (.copy (s - cand) (s' - s) :: acc)
  else
    let t1 := table.setIfInBounds (hashIdx (load32 e.src (s' - 1)) e.shift) (s' - 1)
    let cand' := t1.getD (hashIdx (load32 e.src s') e.shift) 0
    let t2 := t1.setIfInBounds (hashIdx (load32 e.src s') e.shift) s'
    if load32 e.src s' ≠ load32 e.src cand' then
      scan e f t2 s' (s' + 1) 32 (hashIdx (load32 e.src (s' + 1)) e.shift) (.copy (s - cand) (s' - s) :: acc)
    else copyLoop e f t2 s' cand' (.copy (s - cand) (s' - s) :: acc)

theorem copyLoop_succ (e : Enc) (f : Nat) (table : Array Nat) (s cand : Nat) (acc : List Elem) :
    copyLoop e (f + 1) table s cand acc =
      copyBody e f table s cand (extend e.src e.src.size (cand + 4) (s + 4)) acc := by
  rw [copyLoop]; rfl

/-- loop invariant of `scan` / `copyLoop`: the emit calls reproduce the block `p` after the prefix `pre` -/
theorem scan_copy_correct (pre p : Array UInt8) (e : Enc) (he1 : e.src = p) (he2 : e.sLimit = p.size - 15)
    (hp1 : 17 ≤ p.size) (hp2 : p.size ≤ 65536) (f : Nat) :
    (∀ table nextEmit nextS skip nextHash acc, nextEmit < nextS → nextS ≤ p.size - 15 → 32 ≤ skip →
      (∀ i, table.getD i 0 < nextS) → p.size + 2 ≤ f + nextS → Acc pre p acc nextEmit →
      Result pre p (scan e f table nextEmit nextS skip nextHash acc)) ∧
    (∀ table s cand acc, cand < s → s ≤ p.size - 15 → load32 p s = load32 p cand →
      (∀ i, table.getD i 0 ≤ s) → p.size + 1 ≤ f + s → Acc pre p acc s →
      Result pre p (copyLoop e f table s cand acc)) := by
  induction f with
  | zero =>
    constructor
    · intro table nextEmit nextS skip nextHash acc h1 h2 h3 ht hf; omega
    · intro table s cand acc h1 h2 hl ht hf; omega
  | succ f ih =>
    obtain ⟨ihs, ihc⟩ := ih
    constructor
    · intro table nextEmit s skip nextHash acc h1 h2 h3 ht hf hacc
      rw [scan_succ, he1, he2]
      by_cases c1 : s + skip / 32 > p.size - 15
      · rw [if_pos c1]; exact Result_remainder pre p e he1 acc nextEmit hacc (by omega) hp2
      · rw [if_neg c1]
        have hcand := ht nextHash
        have ht' := getD_setIfInBounds_le table nextHash s s (fun j => Nat.le_of_lt (ht j)) (Nat.le_refl _)
        by_cases c2 : load32 p s = load32 p (table.getD nextHash 0)
        · rw [if_pos c2]
          exact ihc _ s _ _ hcand h2 c2 ht' (by omega)
            (Acc_lit pre p acc nextEmit s hacc h1 (by omega) (by omega))
        · rw [if_neg c2]
          exact ihs _ nextEmit _ _ _ acc (by omega) (by omega) (by omega)
            (fun j => by have := ht' j; omega) (by omega) hacc
    · intro table s cand acc h1 h2 hl ht hf hacc
      rw [copyLoop_succ, he1]
      obtain ⟨hx1, hx2, hx3⟩ := extend_spec p p.size (cand + 4) (s + 4)
      generalize extend p p.size (cand + 4) (s + 4) = s' at hx1 hx2 hx3 ⊢
      have hx2' : s' ≤ p.size := hx2 (by omega)
      have hm : ∀ j, s ≤ j → j < s' → p.getD (j - (s - cand)) 0 = p.getD j 0 := by
        intro j hj1 hj2
        by_cases hj : j < s + 4
        · have := load32_eq p s cand hl (j - s) (by omega)
          rw [show s + (j - s) = j by omega] at this
          rw [this]; congr 1; omega
        · have := hx3 j (by omega) hj2
          rw [← this]; congr 1; omega
      have hacc' := Acc_copy pre p acc s cand s' hacc h1 (by omega) hx1 hx2' hm
      unfold copyBody
      rw [he1, he2]
      by_cases c1 : s' ≥ p.size - 15
      · rw [if_pos c1]; exact Result_remainder pre p e he1 _ s' hacc' hx2' hp2
      · rw [if_neg c1]
        have ht1 := getD_setIfInBounds_le table (hashIdx (load32 p (s' - 1)) e.shift) (s' - 1) (s' - 1)
          (fun j => by have := ht j; omega) (Nat.le_refl _)
        have ht2 := getD_setIfInBounds_le (table.setIfInBounds (hashIdx (load32 p (s' - 1)) e.shift) (s' - 1))
          (hashIdx (load32 p s') e.shift) s' s'
          (fun j => by have := ht1 j; omega) (Nat.le_refl _)
        have hcand := ht1 (hashIdx (load32 p s') e.shift)
        simp only
        by_cases c2 : load32 p s' ≠ load32 p
            ((table.setIfInBounds (hashIdx (load32 p (s' - 1)) e.shift) (s' - 1)).getD (hashIdx (load32 p s') e.shift) 0)
        · rw [if_pos c2]
          exact ihs _ s' (s' + 1) 32 _ _ (by omega) (by omega) (by omega)
            (fun j => by have := ht2 j; omega) (by omega) hacc'
        · rw [if_neg c2]
          exact ihc _ s' _ _ (by omega) (by omega) (Classical.not_not.mp c2) ht2 (by omega) hacc'

theorem encodeBlockOps_correct (pre p : Array UInt8) (hp1 : 17 ≤ p.size) (hp2 : p.size ≤ 65536) :
    Result pre p (encodeBlockOps p) := by
  unfold encodeBlockOps
  simp only
  refine (scan_copy_correct pre p _ rfl (by simp only [margin_eq]) hp1 hp2 (p.size + 1)).1 _ 0 1 32 _ []
    (by omega) (by omega) (by omega) ?_ (by omega) ?_
  · intro i
    simp only [Array.getD_eq_getD_getElem?, Array.getElem?_replicate]
    split <;> simp
  · unfold Acc
    simp [WF, expand]

theorem pieceOps_correct (pre p : Array UInt8) (hp1 : 1 ≤ p.size) (hp2 : p.size ≤ 65536) :
    Result pre p (pieceOps p) := by
  unfold pieceOps
  rw [minnonlit_eq]
  by_cases c : p.size < 17
  · rw [if_pos c]
    unfold Result
    simp only [WF, expand, Array.length_toList, Array.toArray_toList, and_true]
    omega
  · rw [if_neg c]; exact encodeBlockOps_correct pre p (by omega) hp2

/-! ## Layer 3: all pieces, and the round trip -/

theorem Result_nil (pre : Array UInt8) : Result pre #[] [] := by
  unfold Result; simp [WF, expand]

theorem Result_append (pre p q : Array UInt8) (a c : List Elem) (h1 : Result pre p a) (h2 : Result (pre ++ p) q c) :
    Result pre (p ++ q) (a ++ c) := by
  obtain ⟨a1, a2⟩ := h1
  obtain ⟨c1, c2⟩ := h2
  unfold Result
  rw [WF_append, expand_append, a2]
  exact ⟨⟨a1, c1⟩, by rw [c2, Array.append_assoc]⟩

theorem pieces_correct (f : Nat) : ∀ (src : Bytes) (pre : Array UInt8), src.length ≤ f →
    Result pre src.toArray ((pieces f src).flatMap fun p => pieceOps p.toArray) := by
  induction f with
  | zero =>
    intro src pre h
    have : src = [] := List.eq_nil_of_length_eq_zero (by omega)
    subst this
    exact Result_nil pre
  | succ f ih =>
    intro src pre h
    cases src with
    | nil => exact Result_nil pre
    | cons x xs =>
      simp only [pieces, List.flatMap_cons, maxblock_eq]
      have hsplit : (x :: xs).toArray = ((x :: xs).take 65536).toArray ++ ((x :: xs).drop 65536).toArray := by
        rw [List.append_toArray, List.take_append_drop]
      rw [hsplit]
      apply Result_append
      · apply pieceOps_correct
        · simp only [List.size_toArray, List.length_take, List.length_cons]; omega
        · simp only [List.size_toArray, List.length_take]; omega
      · apply ih
        simp only [List.length_drop]; omega

theorem encodeOps_correct (src : Bytes) : Result #[] src.toArray (encodeOps src) :=
  pieces_correct src.length src #[] (Nat.le_refl _)

theorem decodeLoop_nil (dLen f : Nat) (dst : Array UInt8) :
    decodeLoop dLen f [] dst = if dst.size ≠ dLen then .error .corrupt else .ok dst := by
  cases f <;> rfl

/-- `snappy.Decode(nil, snappy.Encode(nil, src)) = src` for every input the encoder accepts -/
theorem snappy_roundtrip (src : Bytes) (h : src.length ≤ 0xffffffff) :
    Snappy.decode (Snappy.encode src) = .ok src := by
  obtain ⟨hwf, hex⟩ := encodeOps_correct src
  rw [Array.empty_append] at hex
  unfold decode encode
  rw [decodedLen_put src.length (emitAll (encodeOps src)) h]
  simp only [List.drop_left]
  obtain ⟨F', _, he⟩ := decodeLoop_emitAll src.length (encodeOps src) [] #[]
    (putUvarint src.length ++ emitAll (encodeOps src)).length hwf (by rw [hex]; simp)
    (by simp only [List.append_nil, List.length_append]; omega)
  rw [List.append_nil] at he
  rw [he, hex, decodeLoop_nil]
  simp

end GocoinV.Snappy
