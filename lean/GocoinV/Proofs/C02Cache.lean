/-
  Proofs.C02Cache — the cache invariant of Model.SigHash: a filled field of TxVerVars holds the value
  a fresh computation would give; every digest request preserves that and its result does not depend
  on which fields are filled.
-/
import GocoinV.Model.SigHash
namespace GocoinV.SigHash
open GocoinV.Wire (Tx TxIn TxOut)

theorem lazyGet_eq {α : Type} (cur : Option α) (v : α) (h : ∀ x, cur = some x → x = v) :
    lazyGet cur v = (v, some v) := by
  cases cur with
  | none => rfl
  | some x => simp [lazyGet, h x rfl]

/-- "a filled field equals the value computed from this transaction" -/
structure Cache.OK (H : Bytes → Bytes) (tx : Tx) (spent : List TxOut) (c : Cache) : Prop where
  prevouts : ∀ h, c.hashPrevouts = some h → h = H (H (prevoutsBytes tx))
  sequence : ∀ h, c.hashSequence = some h → h = H (H (sequencesBytes tx))
  outputs : ∀ h, c.hashOutputs = some h → h = H (H (outputsBytes tx))
  tapSingle : ∀ t, c.tapSingle = some t → t = (tapSingleFill H tx spent).2
  tapOut : ∀ h, c.tapOutSingle = some h → h = H (outputsBytes tx)

theorem Cache.OK_empty (H : Bytes → Bytes) (tx : Tx) (spent : List TxOut) : Cache.OK H tx spent {} := by
  constructor <;> intro _ h <;> cases h

/-- BIP143: the result does not depend on the cache, and the invariant is kept. -/
theorem witnessSigHash_cache (H : Bytes → Bytes) (tx : Tx) (spent : List TxOut) (c : Cache)
    (hc : Cache.OK H tx spent c) (sc : Bytes) (amount nIn ht : Nat) :
    (witnessSigHash H tx c sc amount nIn ht).1 = (witnessSigHash H tx {} sc amount nIn ht).1
    ∧ Cache.OK H tx spent (witnessSigHash H tx c sc amount nIn ht).2 := by
  unfold witnessSigHash
  simp only [lazyGet_eq _ _ hc.prevouts, lazyGet_eq _ _ hc.sequence, lazyGet_eq _ _ hc.outputs]
  constructor
  · cases tx.ins[nIn]? with
    | none => rfl
    | some i =>
      simp only
      congr 2
      all_goals (repeat' split) <;> rfl
  · have key : ∀ r, Cache.OK H tx spent
        { c with
          hashPrevouts := (if ¬ (ht &&& 0x80 ≠ 0) then (H (H (prevoutsBytes tx)), some (H (H (prevoutsBytes tx)))) else (zero32, c.hashPrevouts)).2,
          hashSequence := (if ¬ (ht &&& 0x80 ≠ 0) ∧ ht &&& 0x1f ≠ 3 ∧ ht &&& 0x1f ≠ 2 then (H (H (sequencesBytes tx)), some (H (H (sequencesBytes tx)))) else (zero32, c.hashSequence)).2,
          hashOutputs := (if ht &&& 0x1f ≠ 3 ∧ ht &&& 0x1f ≠ 2 then (H (H (outputsBytes tx)), some (H (H (outputsBytes tx))))
            else (r, c.hashOutputs)).2 } := by
      intro r
      constructor
      · intro h; dsimp only; split <;> intro e
        · cases e; rfl
        · exact hc.prevouts h e
      · intro h; dsimp only; split <;> intro e
        · cases e; rfl
        · exact hc.sequence h e
      · intro h; dsimp only; split <;> intro e
        · cases e; rfl
        · exact hc.outputs h e
      · exact hc.tapSingle
      · exact hc.tapOut
    cases tx.ins[nIn]? <;> dsimp only <;> (
      by_cases h3 : ht &&& 0x1f = 3
      · cases tx.outs[nIn]? with
        | none => simpa [h3] using key zero32
        | some o => simpa [h3] using key (H (H (serOut o)))
      · simpa [h3] using key zero32)

theorem tapSingleFill_fst (H : Bytes → Bytes) (tx : Tx) (spent : List TxOut) (hs : tx.ins.length ≤ spent.length) :
    (tapSingleFill H tx spent).1 = some (tapSingleFill H tx spent).2 := by
  unfold tapSingleFill
  have : ¬ spent.length < tx.ins.length := by omega
  simp [this]

theorem tapSingleGet_eq (H : Bytes → Bytes) (tx : Tx) (spent : List TxOut) (c : Cache)
    (hs : tx.ins.length ≤ spent.length) (hc : Cache.OK H tx spent c) :
    tapSingleGet H tx spent c =
      (some (tapSingleFill H tx spent).2, { c with tapSingle := some (tapSingleFill H tx spent).2 }) := by
  unfold tapSingleGet
  cases h : c.tapSingle with
  | none => simp [tapSingleFill_fst H tx spent hs]
  | some t =>
    have := hc.tapSingle t h
    subst this
    simp only [Prod.mk.injEq, true_and]
    cases c; simp_all

/-- BIP341: the result does not depend on the cache, and the invariant is kept
    (given one spent output per input, as every caller provides). -/
theorem taprootSigHash_cache (fixed : Bool) (H : Bytes → Bytes) (tx : Tx) (spent : List TxOut) (c : Cache)
    (hs : tx.ins.length ≤ spent.length)
    (hc : Cache.OK H tx spent c) (ed : ExecData) (inPos ht : Nat) (script : Bool) :
    (taprootSigHash fixed H tx spent c ed inPos ht script).1 = (taprootSigHash fixed H tx spent {} ed inPos ht script).1
    ∧ Cache.OK H tx spent (taprootSigHash fixed H tx spent c ed inPos ht script).2 := by
  unfold taprootSigHash
  simp only [tapSingleGet_eq H tx spent c hs hc, tapSingleGet_eq H tx spent {} hs (Cache.OK_empty H tx spent)]
  by_cases hv : (ht ≤ 0x03 ∨ (0x81 ≤ ht ∧ ht ≤ 0x83))
  · simp only [hv, not_true_eq_false, ↓reduceIte]
    by_cases hi : ht &&& 0x80 = 0x80
    · simp only [hi, ne_eq, not_true_eq_false, ↓reduceIte, lazyGet_eq _ _ hc.tapOut,
        lazyGet_eq _ _ (Cache.OK_empty H tx spent).tapOut]
      by_cases ho : (if ht = 0 then 1 else ht &&& 3) = 1
      · simp only [ho, ↓reduceIte]
        exact ⟨trivial, { hc with tapOut := by intro t h; cases h; rfl }⟩
      · simp only [ho, ↓reduceIte]
        exact ⟨trivial, hc⟩
    · simp only [hi, ne_eq, not_false_eq_true, ↓reduceIte, Option.map_some, lazyGet_eq _ _ hc.tapOut,
        lazyGet_eq _ _ (Cache.OK_empty H tx spent).tapOut]
      by_cases ho : (if ht = 0 then 1 else ht &&& 3) = 1
      · simp only [ho, ↓reduceIte]
        exact ⟨trivial, { hc with tapSingle := by intro t h; cases h; rfl, tapOut := by intro t h; cases h; rfl }⟩
      · simp only [ho, ↓reduceIte]
        exact ⟨trivial, { hc with tapSingle := by intro t h; cases h; rfl }⟩
  · simp only [hv, not_false_eq_true, ↓reduceIte]
    exact ⟨trivial, hc⟩

/-- one call: result independent of the cache, invariant kept -/
theorem step_cache (fixed : Bool) (H : Bytes → Bytes) (tx : Tx) (spent : List TxOut) (c : Cache)
    (hs : tx.ins.length ≤ spent.length) (hc : Cache.OK H tx spent c) (k : Call) :
    (step fixed H tx spent c k).1 = (step fixed H tx spent {} k).1
    ∧ Cache.OK H tx spent (step fixed H tx spent c k).2 := by
  cases k with
  | leg sc nIn ht => exact ⟨rfl, hc⟩
  | wit sc am nIn ht => exact witnessSigHash_cache H tx spent c hc sc am nIn ht
  | tap ed p ht s => exact taprootSigHash_cache fixed H tx spent c hs hc ed p ht s

theorem runCalls_cache (fixed : Bool) (H : Bytes → Bytes) (tx : Tx) (spent : List TxOut)
    (hs : tx.ins.length ≤ spent.length) (calls : List Call) :
    ∀ c, Cache.OK H tx spent c →
      (runCalls fixed H tx spent c calls).1 = calls.map fun k => (step fixed H tx spent {} k).1 := by
  induction calls with
  | nil => intro c _; rfl
  | cons k ks ih =>
    intro c hc
    have h := step_cache fixed H tx spent c hs hc k
    simp only [runCalls, List.map_cons, h.1, ih _ h.2]
end GocoinV.SigHash
