/-
  Proofs.C04Sim — the simulation of commitTxs' coin lookups by the specification's sequential map.
  `view db b s` is the coin map that the locals of commitTxs (DeledTxs marks, blUnsp slots) denote on top of the
  confirmed set `db`; each successful `resolve` finds exactly the coin the sequential map holds and leaves the view
  of the map with that coin deleted.
-/
import GocoinV.Proofs.C04Apply
import GocoinV.Proofs.C04Sigops
import GocoinV.Proofs.C04Sums
import GocoinV.Proofs.C04NoDouble
namespace GocoinV.Proofs.C04
open GocoinV GocoinV.Connect
open GocoinV.Spec.Connect (Coin Utxo absGet)

/-- the coin that a successful `UnspentGet` stands for -/
def foundCoin (mtpOf : Nat → Nat) (f : Found) : Coin := ⟨f.value, f.script, f.height, f.coinbase, mtpOf f.height⟩

theorem absGet_unspentGet (mtpOf : Nat → Nat) (db : DB) (op : OutPoint) :
    absGet mtpOf db op = (unspentGet Cfg.current db op).map (foundCoin mtpOf) := by
  unfold absGet unspentGet
  have hft : Cfg.current.fullTxid = true := rfl
  cases hg : aGet db (key8 op.hash) with
  | none => rfl
  | some r =>
    simp only [hft, true_and]
    by_cases hr : r.txid = op.hash
    · simp only [hr, ↓reduceIte, ne_eq, not_true_eq_false]
      cases ho : r.outs.getD op.vout none with
      | none => rfl
      | some o => rfl
    · simp [hr]

theorem unspentGet_slot (db : DB) (op : OutPoint) (f : Found) (h : unspentGet Cfg.current db op = some f) :
    ∃ r, aGet db (key8 op.hash) = some r ∧ f.height = r.height := by
  unfold unspentGet at h
  cases hg : aGet db (key8 op.hash) with
  | none => simp [hg] at h
  | some r =>
    refine ⟨r, rfl, ?_⟩
    simp only [hg] at h
    split at h
    · cases h
    · split at h
      · cases h
      · simp only [Option.some.injEq] at h
        subst h; rfl

/-- the coin map denoted by the locals of commitTxs on top of the confirmed set -/
def view (mtpOf : Nat → Nat) (db : DB) (b : Block) (s : St) (op : OutPoint) : Option Coin :=
  match unspentGet Cfg.current db op with
  | some f => if delMarked s.deled op = true then none else some (foundCoin mtpOf f)
  | none =>
    match aGet s.blUnsp op.hash with
    | some (cb, t) => (t.getD op.vout none).map fun o => ⟨o.value, o.script, b.height, cb, b.mtp⟩
    | none => none

theorem delMarked_aSet (deled : List (Bytes × List Bool)) (h : Bytes) (m : List Bool) (op : OutPoint) :
    delMarked (aSet deled h m) op = if h = op.hash then m.getD op.vout false else delMarked deled op := by
  unfold delMarked
  rw [aGet_aSet]
  by_cases hk : h = op.hash <;> simp only [hk, ↓reduceIte]

theorem op_eq_iff (p q : OutPoint) : p = q ↔ p.hash = q.hash ∧ p.vout = q.vout := by
  cases p; cases q; simp

theorem getD_set_ne {α : Type} (l : List α) (v w : Nat) (x d : α) (h : v ≠ w) : (l.set v x).getD w d = l.getD w d := by
  simp [List.getD_eq_getElem?_getD, List.getElem?_set_ne h]

/-- state invariant carried through the loops: the view is the sequential map, DeledTxs is a map (unique keys) -/
structure Inv (mtpOf : Nat → Nat) (db : DB) (b : Block) (s : St) (u : Utxo) : Prop where
  rel : ∀ op, aGet u op = view mtpOf db b s op
  dnodup : (keys s.deled).Nodup

/-- A successful lookup of commitTxs finds the coin that the sequential map holds for that outpoint, the maturity test
    of the code is the specification's (given that no record is higher than the block), and afterwards the locals
    denote the map with that coin deleted. -/
theorem resolve_sim (mtpOf : Nat → Nat) (db : DB) (b : Block) (inp : TxIn) (s s1 : St) (v : Nat) (pk : Bytes) (u : Utxo)
    (hh : ∀ k r, aGet db k = some r → r.height ≤ b.height) (hb : b.height < 2 ^ 32)
    (hinv : Inv mtpOf db b s u) (h : resolve Cfg.current db b inp s = .ok (s1, v, pk)) :
    ∃ c, aGet u inp.prev = some c ∧ c.value = v ∧ c.script = pk
      ∧ ¬ (c.coinbase = true ∧ b.height - c.height < 100)
      ∧ Inv mtpOf db b s1 (aDel u inp.prev)
      ∧ keys s1.blUnsp = keys s.blUnsp
      ∧ (absGet mtpOf db inp.prev = some c ∨ (absGet mtpOf db inp.prev = none ∧ c.height = b.height ∧ c.mtpPrev = b.mtp)) := by
  obtain ⟨hR, hn⟩ := hinv
  unfold resolve at h
  cases he : earlyCheck (aGet s.deled inp.prev.hash) inp.prev.vout with
  | some e => simp [he] at h
  | none =>
    simp only [he] at h
    cases hu : unspentGet Cfg.current db inp.prev with
    | some tout =>
      simp only [hu] at h
      unfold fromDb at h
      split at h
      · cases h
      · rename_i hmat
        simp only [Except.ok.injEq, Prod.mk.injEq] at h
        obtain ⟨h1, h2, h3⟩ := h
        -- not marked so far
        have hnm : delMarked s.deled inp.prev = false := by
          unfold delMarked
          cases hd : aGet s.deled inp.prev.hash with
          | none => rfl
          | some m =>
            rw [hd] at he
            unfold earlyCheck at he
            simp only [] at he
            split at he
            · cases he
            · split at he
              · cases he
              · rename_i hm; simpa using hm
        have hvlen : ∀ m, aGet s.deled inp.prev.hash = some m → inp.prev.vout < m.length := by
          intro m hd
          rw [hd] at he
          unfold earlyCheck at he
          simp only [] at he
          split at he
          · cases he
          · omega
        have hvc : inp.prev.vout < tout.voutCount := unspentGet_vout_lt _ db inp.prev tout hu
        obtain ⟨r, hr1, hr2⟩ := unspentGet_slot db inp.prev tout hu
        have hle : tout.height ≤ b.height := hr2 ▸ hh _ r hr1
        -- the map that receives the mark
        have hmark : ∃ m' : List Bool,
            s1 = { s with deled := aSet s.deled inp.prev.hash (m'.set inp.prev.vout true) }
            ∧ inp.prev.vout < m'.length
            ∧ ∀ op : OutPoint, inp.prev.hash = op.hash → m'.getD op.vout false = delMarked s.deled op := by
          cases hd : aGet s.deled inp.prev.hash with
          | none =>
            rw [hd] at h1
            refine ⟨List.replicate tout.voutCount false, h1.symm, by simpa using hvc, ?_⟩
            intro op hop
            unfold delMarked
            rw [← hop, hd]
            simp only [List.getD_eq_getElem?_getD, List.getElem?_replicate]
            split <;> rfl
          | some m =>
            rw [hd] at h1
            refine ⟨m, h1.symm, hvlen m hd, ?_⟩
            intro op hop
            unfold delMarked
            rw [← hop, hd]
        obtain ⟨m', h1, hlen', hget'⟩ := hmark
        refine ⟨foundCoin mtpOf tout, ?_, h2, h3, ?_, ⟨?_, ?_⟩, ?_, Or.inl (by rw [absGet_unspentGet, hu]; rfl)⟩
        · rw [hR, view, hu]; simp [hnm]
        · intro hc
          apply hmat
          refine ⟨hc.1, ?_⟩
          have : sub32 b.height tout.height = b.height - tout.height := by
            unfold sub32; omega
          rw [this]; exact hc.2
        · -- the view after the mark
          intro op
          rw [aGet_aDel, hR op]
          subst h1
          unfold view
          simp only [delMarked_aSet]
          cases huo : unspentGet Cfg.current db op with
          | none =>
            have : ¬ inp.prev = op := by intro e; rw [e, huo] at hu; cases hu
            simp only [this, ↓reduceIte]
          | some f =>
            simp only []
            by_cases hop : inp.prev = op
            · subst hop
              simp only [↓reduceIte]
              rw [getD_set_self _ _ hlen']
              simp
            · simp only [hop, ↓reduceIte]
              by_cases hhash : inp.prev.hash = op.hash
              · have hv : inp.prev.vout ≠ op.vout := fun e => hop ((op_eq_iff _ _).mpr ⟨hhash, e⟩)
                simp only [hhash, ↓reduceIte]
                rw [getD_set_ne _ _ _ _ _ hv, hget' op hhash]
              · simp only [hhash, ↓reduceIte]
        · subst h1
          exact aSet_keys_nodup _ _ _ hn
        · subst h1; rfl
    | none =>
      simp only [hu] at h
      unfold fromBlock at h
      cases hbu : aGet s.blUnsp inp.prev.hash with
      | none => simp [hbu] at h
      | some ct =>
        obtain ⟨cb, t⟩ := ct
        simp only [hbu] at h
        by_cases hv : inp.prev.vout ≥ t.length
        · simp [hv] at h
        · simp only [hv, ↓reduceIte] at h
          cases ho : t.getD inp.prev.vout none with
          | none => simp only [ho] at h; cases h
          | some o =>
            simp only [ho] at h
            cases cb with
            | true => simp at h
            | false =>
              simp only [Bool.false_eq_true, ↓reduceIte, Except.ok.injEq, Prod.mk.injEq] at h
              obtain ⟨h1, h2, h3⟩ := h
              refine ⟨⟨o.value, o.script, b.height, false, b.mtp⟩, ?_, h2, h3, by simp, ⟨?_, ?_⟩, ?_, Or.inr ⟨by rw [absGet_unspentGet, hu]; rfl, rfl, rfl⟩⟩
              · rw [hR, view, hu]; simp only [hbu, ho, Option.map_some]
              · intro op
                rw [aGet_aDel, hR op]
                subst h1
                unfold view
                cases huo : unspentGet Cfg.current db op with
                | some f =>
                  have : ¬ inp.prev = op := by intro e; rw [e, huo] at hu; cases hu
                  simp [this]
                | none =>
                  simp only [aGet_aSet]
                  by_cases hhash : inp.prev.hash = op.hash
                  · simp only [hhash, ↓reduceIte]
                    rw [← hhash, hbu]
                    simp only []
                    by_cases hvv : inp.prev.vout = op.vout
                    · have : inp.prev = op := (op_eq_iff _ _).mpr ⟨hhash, hvv⟩
                      simp only [this, ↓reduceIte]
                      rw [← hvv, getD_set_none_self]; rfl
                    · have : ¬ inp.prev = op := fun e => hvv (by rw [e])
                      simp only [this, ↓reduceIte]
                      rw [getD_set_ne _ _ _ _ _ hvv]
                  · have : ¬ inp.prev = op := fun e => hhash (by rw [e])
                    simp [this, hhash]
              · subst h1; exact hn
              · subst h1
                simp only [aSet_keys]
                have : inp.prev.hash ∈ keys s.blUnsp := by
                  apply Classical.byContradiction
                  intro hc
                  rw [(aGet_none_iff _ _).mpr hc] at hbu; cases hbu
                simp [this]

end GocoinV.Proofs.C04
