/-
  Proofs.C06IdxOps — the bridge of `Proofs.C06Idx` (look-ups through the 8-byte `BlockIndex` key followed by the
  comparison of the whole hash = look-ups by whole hash) for the header-first operations: `headerIdx = header`,
  `commitNodeIdx = commitNode`, `stepIdx = step`, whenever no entry of `BlockIndex` — attached node or unreachable
  (`limbo`) entry — shares the 8-byte key of the block's id or of its previous-block field without being that block.
-/
import GocoinV.Proofs.C06Idx
namespace GocoinV.ChainTree
open GocoinV.UtxoOps

/-- no entry of BlockIndex — attached node or unreachable (`limbo`) entry — has the 8-byte key of `id` without having
    the id `id` -/
def KeyOKAll (c : Chain) (id : Nat) : Prop :=
  KeyOK c id ∧ ∀ n ∈ c.limbo, bidx n.id = bidx id → n.id = id

/-- the key search among the unreachable entries is the search by whole id -/
theorem limboIdx_eq_inLimbo {c : Chain} {id : Nat} (h : ∀ n ∈ c.limbo, bidx n.id = bidx id → n.id = id) :
    c.limbo.find? (fun n => bidx n.id == bidx id) = inLimbo c id := by
  unfold inLimbo
  apply find_congr_mem
  intro n hn
  show (bidx n.id == bidx id) = (n.id == id)
  by_cases e : n.id = id
  · rw [e]; simp
  · have : bidx n.id ≠ bidx id := fun hk => e (h n hn hk)
    have e1 : (bidx n.id == bidx id) = false := by simpa using this
    have e2 : (n.id == id) = false := by simpa using e
    rw [e1, e2]

theorem inLimbo_id {c : Chain} {x : Nat} {n : Node} (h : inLimbo c x = some n) : n.id = x := by
  unfold inLimbo at h
  have := List.find?_some h
  simpa using this

theorem lookupAllIdx_eq_lookupAll {c : Chain} {id : Nat} (h : KeyOKAll c id) :
    lookupAllIdx c id = lookupAll c id := by
  unfold lookupAllIdx lookupAll
  rw [lookupIdx_eq_getNode h.1, limboIdx_eq_inLimbo h.2]

/-- an entry found by whole id has that id -/
theorem lookupAll_id {c : Chain} {id : Nat} {n : Node} {att : Bool} (h : lookupAll c id = some (n, att)) :
    n.id = id := by
  unfold lookupAll at h
  cases hg : getNode c id with
  | some m =>
    rw [hg] at h
    simp only [Option.some.injEq, Prod.mk.injEq] at h
    rw [← h.1]; exact getNode_id' hg
  | none =>
    rw [hg] at h
    cases hl : inLimbo c id with
    | none => rw [hl] at h; simp at h
    | some m =>
      rw [hl] at h
      simp only [Option.map_some, Option.some.injEq, Prod.mk.injEq] at h
      rw [← h.1]; exact inLimbo_id hl

/-- the parent entry as `headerIdx` obtains it (key, then whole hash) is the entry by whole hash -/
theorem lookupAllIdx_filter_eq_lookupAll {c : Chain} {id : Nat} (h : KeyOKAll c id) :
    (lookupAllIdx c id).filter (fun x => x.1.id == id) = lookupAll c id := by
  rw [lookupAllIdx_eq_lookupAll h]
  cases hl : lookupAll c id with
  | none => rfl
  | some x =>
    obtain ⟨n, att⟩ := x
    simp [Option.filter, lookupAll_id hl]

theorem headerIdx_eq_header (c : Chain) (b : Block) (h1 : KeyOKAll c b.id) (h2 : KeyOKAll c b.parent) :
    headerIdx c b = header c b := by
  unfold headerIdx header
  rw [lookupAllIdx_filter_eq_lookupAll h2, lookupAllIdx_eq_lookupAll h1]
  cases hl : lookupAll c b.id with
  | none => simp
  | some x =>
    obtain ⟨n, att⟩ := x
    simp [lookupAll_id hl]

theorem commitNodeIdx_eq_commitNode (c : Chain) (b : Block) (h1 : KeyOKAll c b.id) :
    commitNodeIdx c b = commitNode c b := by
  unfold commitNodeIdx commitNode
  rw [lookupAllIdx_eq_lookupAll h1]
  unfold lookupAll
  cases hg : getNode c b.id with
  | some n => simp [getNode_id' hg]
  | none =>
    cases hl : inLimbo c b.id with
    | none => simp
    | some m => simp [inLimbo_id hl]

/-- **the code's look-ups (8-byte key + whole-hash comparison) are look-ups by whole hash, for all three
    operations** -/
theorem stepIdx_eq_step (c : Chain) (op : Op) (h1 : KeyOKAll c op.blk.id) (h2 : KeyOKAll c op.blk.parent) :
    stepIdx c op = step c op := by
  cases op with
  | header b => exact headerIdx_eq_header c b h1 h2
  | commit b => exact commitNodeIdx_eq_commitNode c b h1
  | block b =>
    have h1' : KeyOKAll c b.id := h1
    have h2' : KeyOKAll c b.parent := h2
    unfold stepIdx step
    simp only []
    rw [deliverIdx_eq_deliver c b h1'.1 h2'.1, lookupIdx_eq_getNode h1'.1, parentIdx_eq_getNode h2'.1,
      limboIdx_eq_inLimbo h1'.2, limboIdx_eq_inLimbo h2'.2]
    cases hg : getNode c b.id with
    | some n =>
      have hd : deliver c b = (c, Outcome.dup) := by unfold deliver; simp [hg]
      cases hl : inLimbo c b.id with
      | none => simp
      | some m => simp [hd]
    | none =>
      cases hl : inLimbo c b.id with
      | some m => simp [inLimbo_id hl]
      | none =>
        cases hp : inLimbo c b.parent with
        | none => simp
        | some q => simp [Option.filter, inLimbo_id hp]

end GocoinV.ChainTree
