/-
  Proofs.C08_Field — refinement lemmas for the GENERATED limb functions of Gen.Field5x52
  (linear ones: SetAdd, MulInt, Negate, Normalize, SetB32/GetB32). Core tactics only (omega).
-/
import GocoinV.Model.FieldIO

namespace GocoinV.C08
open GocoinV.Gen.Field5x52

theorem and_M52 (x : Nat) : x &&& 4503599627370495 = x % 4503599627370496 :=
  Nat.and_two_pow_sub_one_eq_mod x 52

theorem and_M48 (x : Nat) : x &&& 281474976710655 = x % 281474976710656 :=
  Nat.and_two_pow_sub_one_eq_mod x 48

theorem P_eq : P = 115792089237316195423570985008687907853269984665640564039457584007908834671663 := by
  decide

theorem setAdd_val (r a : Fe) (m1 m2 : Nat) (hr : r.mag m1) (ha : a.mag m2) (hm : m1 + m2 ≤ 32) :
    (setAdd r a).val = r.val + a.val ∧ (setAdd r a).mag (m1 + m2) := by
  unfold Fe.mag at *
  unfold setAdd Fe.val
  simp only []
  omega

theorem mulInt_val (r : Fe) (m k : Nat) (hr : r.mag m) (hm : m * k ≤ 32) :
    (mulInt r k).val = r.val * k ∧ (mulInt r k).mag (m * k) := by
  unfold Fe.mag at *
  obtain ⟨h0, h1, h2, h3, h4⟩ := hr
  have b0 : r.n0 * k ≤ 2 * (m * k) * (2^52 - 1) := by
    calc r.n0 * k ≤ (2 * m * (2^52 - 1)) * k := Nat.mul_le_mul_right k h0
      _ = 2 * (m * k) * (2^52 - 1) := by simp only [Nat.mul_assoc, Nat.mul_comm, Nat.mul_left_comm]
  have b1 : r.n1 * k ≤ 2 * (m * k) * (2^52 - 1) := by
    calc r.n1 * k ≤ (2 * m * (2^52 - 1)) * k := Nat.mul_le_mul_right k h1
      _ = 2 * (m * k) * (2^52 - 1) := by simp only [Nat.mul_assoc, Nat.mul_comm, Nat.mul_left_comm]
  have b2 : r.n2 * k ≤ 2 * (m * k) * (2^52 - 1) := by
    calc r.n2 * k ≤ (2 * m * (2^52 - 1)) * k := Nat.mul_le_mul_right k h2
      _ = 2 * (m * k) * (2^52 - 1) := by simp only [Nat.mul_assoc, Nat.mul_comm, Nat.mul_left_comm]
  have b3 : r.n3 * k ≤ 2 * (m * k) * (2^52 - 1) := by
    calc r.n3 * k ≤ (2 * m * (2^52 - 1)) * k := Nat.mul_le_mul_right k h3
      _ = 2 * (m * k) * (2^52 - 1) := by simp only [Nat.mul_assoc, Nat.mul_comm, Nat.mul_left_comm]
  have b4 : r.n4 * k ≤ 2 * (m * k) * (2^48 - 1) := by
    calc r.n4 * k ≤ (2 * m * (2^48 - 1)) * k := Nat.mul_le_mul_right k h4
      _ = 2 * (m * k) * (2^48 - 1) := by simp only [Nat.mul_assoc, Nat.mul_comm, Nat.mul_left_comm]
  have hv : (r.n0 + r.n1 * 2^52 + r.n2 * 2^104 + r.n3 * 2^156 + r.n4 * 2^208) * k
      = r.n0 * k + r.n1 * k * 2^52 + r.n2 * k * 2^104 + r.n3 * k * 2^156 + r.n4 * k * 2^208 := by
    simp only [Nat.add_mul, Nat.mul_right_comm]
  unfold mulInt Fe.val
  simp only []
  rw [hv]
  generalize r.n0 * k = p0 at *
  generalize r.n1 * k = p1 at *
  generalize r.n2 * k = p2 at *
  generalize r.n3 * k = p3 at *
  generalize r.n4 * k = p4 at *
  generalize m * k = mk at *
  have e0 : p0 % 18446744073709551616 = p0 := by omega
  have e1 : p1 % 18446744073709551616 = p1 := by omega
  have e2 : p2 % 18446744073709551616 = p2 := by omega
  have e3 : p3 % 18446744073709551616 = p3 := by omega
  have e4 : p4 % 18446744073709551616 = p4 := by omega
  rw [e0, e1, e2, e3, e4]
  omega

theorem neg_limb (c a m : Nat) (hc : c ≤ 9007199254740990) (ha : a ≤ c * (m + 1)) (hm : m ≤ 31) :
    (c * ((m + 1) % 18446744073709551616) % 18446744073709551616 + 18446744073709551616 - a) % 18446744073709551616
      = c * (m + 1) - a := by
  have h1 : (m + 1) % 18446744073709551616 = m + 1 := by omega
  have h2 : c * (m + 1) ≤ 9007199254740990 * 32 := Nat.mul_le_mul hc (by omega)
  rw [h1]
  generalize c * (m + 1) = q at *
  omega

theorem negate_val (a : Fe) (m : Nat) (ha : a.mag m) (hm : m ≤ 31) :
    (negate a m).val + a.val = 2 * (m + 1) * P ∧ (negate a m).mag (m + 1) := by
  rw [P_eq]
  unfold Fe.mag at *
  obtain ⟨h0, h1, h2, h3, h4⟩ := ha
  have g0 : a.n0 ≤ 9007190664804446 * (m + 1) := by omega
  have g1 : a.n1 ≤ 9007199254740990 * (m + 1) := by omega
  have g2 : a.n2 ≤ 9007199254740990 * (m + 1) := by omega
  have g3 : a.n3 ≤ 9007199254740990 * (m + 1) := by omega
  have g4 : a.n4 ≤ 562949953421310 * (m + 1) := by omega
  have l0 := neg_limb 9007190664804446 a.n0 m (by omega) g0 hm
  have l1 := neg_limb 9007199254740990 a.n1 m (by omega) g1 hm
  have l2 := neg_limb 9007199254740990 a.n2 m (by omega) g2 hm
  have l3 := neg_limb 9007199254740990 a.n3 m (by omega) g3 hm
  have l4 := neg_limb 562949953421310 a.n4 m (by omega) g4 hm
  unfold negate Fe.val
  simp only []
  rw [l0, l1, l2, l3, l4]
  omega

end GocoinV.C08
