/-
  Proofs.C08_Field — refinement lemmas for the GENERATED limb functions of Gen.Field5x52
  (linear ones: SetAdd, MulInt, Negate, Normalize, SetB32/GetB32). Core tactics only (omega).
-/
import GocoinV.Model.FieldIO

namespace GocoinV.C08
open GocoinV.Gen.Field5x52

theorem and_M52 (x : Nat) : x &&& 4503599627370495 = x % 4503599627370496 :=
  Nat.and_two_pow_sub_one_eq_mod x 52

theorem and_M48 (x : Nat) : x &&& 281474976710655 = x % 281474976710656 :=
  Nat.and_two_pow_sub_one_eq_mod x 48

theorem P_eq : P = 115792089237316195423570985008687907853269984665640564039457584007908834671663 := by
  decide

theorem setAdd_val (r a : Fe) (m1 m2 : Nat) (hr : r.mag m1) (ha : a.mag m2) (hm : m1 + m2 ≤ 32) :
    (setAdd r a).val = r.val + a.val ∧ (setAdd r a).mag (m1 + m2) := by
  unfold Fe.mag at *
  unfold setAdd Fe.val
  simp only []
  omega

theorem mulInt_val (r : Fe) (m k : Nat) (hr : r.mag m) (hm : m * k ≤ 32) :
    (mulInt r k).val = r.val * k ∧ (mulInt r k).mag (m * k) := by
  unfold Fe.mag at *
  obtain ⟨h0, h1, h2, h3, h4⟩ := hr
  have b0 : r.n0 * k ≤ 2 * (m * k) * (2^52 - 1) := by
    calc r.n0 * k ≤ (2 * m * (2^52 - 1)) * k := Nat.mul_le_mul_right k h0
      _ = 2 * (m * k) * (2^52 - 1) := by simp only [Nat.mul_assoc, Nat.mul_comm, Nat.mul_left_comm]
  have b1 : r.n1 * k ≤ 2 * (m * k) * (2^52 - 1) := by
    calc r.n1 * k ≤ (2 * m * (2^52 - 1)) * k := Nat.mul_le_mul_right k h1
      _ = 2 * (m * k) * (2^52 - 1) := by simp only [Nat.mul_assoc, Nat.mul_comm, Nat.mul_left_comm]
  have b2 : r.n2 * k ≤ 2 * (m * k) * (2^52 - 1) := by
    calc r.n2 * k ≤ (2 * m * (2^52 - 1)) * k := Nat.mul_le_mul_right k h2
      _ = 2 * (m * k) * (2^52 - 1) := by simp only [Nat.mul_assoc, Nat.mul_comm, Nat.mul_left_comm]
  have b3 : r.n3 * k ≤ 2 * (m * k) * (2^52 - 1) := by
    calc r.n3 * k ≤ (2 * m * (2^52 - 1)) * k := Nat.mul_le_mul_right k h3
      _ = 2 * (m * k) * (2^52 - 1) := by simp only [Nat.mul_assoc, Nat.mul_comm, Nat.mul_left_comm]
  have b4 : r.n4 * k ≤ 2 * (m * k) * (2^48 - 1) := by
    calc r.n4 * k ≤ (2 * m * (2^48 - 1)) * k := Nat.mul_le_mul_right k h4
      _ = 2 * (m * k) * (2^48 - 1) := by simp only [Nat.mul_assoc, Nat.mul_comm, Nat.mul_left_comm]
  have hv : (r.n0 + r.n1 * 2^52 + r.n2 * 2^104 + r.n3 * 2^156 + r.n4 * 2^208) * k
      = r.n0 * k + r.n1 * k * 2^52 + r.n2 * k * 2^104 + r.n3 * k * 2^156 + r.n4 * k * 2^208 := by
    simp only [Nat.add_mul, Nat.mul_right_comm]
  unfold mulInt Fe.val
  simp only []
  rw [hv]
  generalize r.n0 * k = p0 at *
  generalize r.n1 * k = p1 at *
  generalize r.n2 * k = p2 at *
  generalize r.n3 * k = p3 at *
  generalize r.n4 * k = p4 at *
  generalize m * k = mk at *
  have e0 : p0 % 18446744073709551616 = p0 := by omega
  have e1 : p1 % 18446744073709551616 = p1 := by omega
  have e2 : p2 % 18446744073709551616 = p2 := by omega
  have e3 : p3 % 18446744073709551616 = p3 := by omega
  have e4 : p4 % 18446744073709551616 = p4 := by omega
  rw [e0, e1, e2, e3, e4]
  omega

theorem neg_limb (c a m : Nat) (hc : c ≤ 9007199254740990) (ha : a ≤ c * (m + 1)) (hm : m ≤ 31) :
    (c * ((m + 1) % 18446744073709551616) % 18446744073709551616 + 18446744073709551616 - a) % 18446744073709551616
      = c * (m + 1) - a := by
  have h1 : (m + 1) % 18446744073709551616 = m + 1 := by omega
  have h2 : c * (m + 1) ≤ 9007199254740990 * 32 := Nat.mul_le_mul hc (by omega)
  rw [h1]
  generalize c * (m + 1) = q at *
  omega

theorem negate_val (a : Fe) (m : Nat) (ha : a.mag m) (hm : m ≤ 31) :
    (negate a m).val + a.val = 2 * (m + 1) * P ∧ (negate a m).mag (m + 1) := by
  rw [P_eq]
  unfold Fe.mag at *
  obtain ⟨h0, h1, h2, h3, h4⟩ := ha
  have g0 : a.n0 ≤ 9007190664804446 * (m + 1) := by omega
  have g1 : a.n1 ≤ 9007199254740990 * (m + 1) := by omega
  have g2 : a.n2 ≤ 9007199254740990 * (m + 1) := by omega
  have g3 : a.n3 ≤ 9007199254740990 * (m + 1) := by omega
  have g4 : a.n4 ≤ 562949953421310 * (m + 1) := by omega
  have l0 := neg_limb 9007190664804446 a.n0 m (by omega) g0 hm
  have l1 := neg_limb 9007199254740990 a.n1 m (by omega) g1 hm
  have l2 := neg_limb 9007199254740990 a.n2 m (by omega) g2 hm
  have l3 := neg_limb 9007199254740990 a.n3 m (by omega) g3 hm
  have l4 := neg_limb 562949953421310 a.n4 m (by omega) g4 hm
  unfold negate Fe.val
  simp only []
  rw [l0, l1, l2, l3, l4]
  omega

theorem and_eq_M (a b : Nat) (ha : a < 4503599627370496) (hb : b < 4503599627370496) :
    (a &&& b = 4503599627370495) ↔ (a = 4503599627370495 ∧ b = 4503599627370495) := by
  constructor
  · intro h
    have h1 : a &&& b ≤ a := Nat.and_le_left
    have h2 : a &&& b ≤ b := Nat.and_le_right
    omega
  · rintro ⟨rfl, rfl⟩
    exact Nat.and_self _

theorem or_one_le (x : Nat) (h : x ≤ 1) : x ||| 1 = 1 := by
  have : x = 0 ∨ x = 1 := by omega
  rcases this with h | h <;> subst h <;> decide

theorem ge_P_limbs (a0 a1 a2 a3 a4 : Nat) (b0 : a0 < 2^52) (b1 : a1 < 2^52) (b2 : a2 < 2^52) (b3 : a3 < 2^52)
    (b4 : a4 < 2^48)
    (hV : a0 + a1 * 2^52 + a2 * 2^104 + a3 * 2^156 + a4 * 2^208 ≥
      115792089237316195423570985008687907853269984665640564039457584007908834671663) :
    a4 = 281474976710655 ∧ a3 = 4503599627370495 ∧ a2 = 4503599627370495 ∧ a1 = 4503599627370495
      ∧ a0 ≥ 4503595332402223 := by
  have h4 : a4 = 281474976710655 := by omega
  subst h4
  have h3 : a3 = 4503599627370495 := by omega
  subst h3
  have h2 : a2 = 4503599627370495 := by omega
  subst h2
  have h1 : a1 = 4503599627370495 := by omega
  subst h1
  refine ⟨rfl, rfl, rfl, rfl, ?_⟩
  omega

/-- the final reduction pass of Normalize, as equations between the intermediate words -/
theorem final_pass (c0 c1 c2 c3 c4 x d0 d1 e0 d2 e1 d3 e2 d4 e3 e4 : Nat)
    (b0 : c0 < 2^52) (b1 : c1 < 2^52) (b2 : c2 < 2^52) (b3 : c3 < 2^52) (b4 : c4 < 2^48 + 128)
    (hx : (x = 1 ∧ c0 + c1 * 2^52 + c2 * 2^104 + c3 * 2^156 + c4 * 2^208 ≥
              115792089237316195423570985008687907853269984665640564039457584007908834671663)
        ∨ (x = 0 ∧ c0 + c1 * 2^52 + c2 * 2^104 + c3 * 2^156 + c4 * 2^208 <
              115792089237316195423570985008687907853269984665640564039457584007908834671663))
    (q0 : d0 = (c0 + x * 4294968273 % 18446744073709551616) % 18446744073709551616)
    (q1 : d1 = (c1 + d0 / 2^52) % 18446744073709551616)
    (q2 : e0 = d0 % 4503599627370496)
    (q3 : d2 = (c2 + d1 / 2^52) % 18446744073709551616)
    (q4 : e1 = d1 % 4503599627370496)
    (q5 : d3 = (c3 + d2 / 2^52) % 18446744073709551616)
    (q6 : e2 = d2 % 4503599627370496)
    (q7 : d4 = (c4 + d3 / 2^52) % 18446744073709551616)
    (q8 : e3 = d3 % 4503599627370496)
    (q9 : e4 = d4 % 281474976710656) :
    e0 + e1 * 2^52 + e2 * 2^104 + e3 * 2^156 + e4 * 2^208 + x *
        115792089237316195423570985008687907853269984665640564039457584007908834671663
      = c0 + c1 * 2^52 + c2 * 2^104 + c3 * 2^156 + c4 * 2^208
    ∧ e0 + e1 * 2^52 + e2 * 2^104 + e3 * 2^156 + e4 * 2^208 <
        115792089237316195423570985008687907853269984665640564039457584007908834671663
    ∧ e0 < 2^52 ∧ e1 < 2^52 ∧ e2 < 2^52 ∧ e3 < 2^52 ∧ e4 < 2^48 := by
  rcases hx with ⟨hx, hV⟩ | ⟨hx, hV⟩
  · subst hx
    have p0 : d0 = c0 + 4294968273 := by omega
    have p1 : d1 = c1 + d0 / 2^52 := by omega
    have p2 : d2 = c2 + d1 / 2^52 := by omega
    have p3 : d3 = c3 + d2 / 2^52 := by omega
    have p4 : d4 = c4 + d3 / 2^52 := by omega
    have s : d0 % 4503599627370496 + d1 % 4503599627370496 * 2^52 + d2 % 4503599627370496 * 2^104
        + d3 % 4503599627370496 * 2^156 + d4 * 2^208 = c0 + c1 * 2^52 + c2 * 2^104 + c3 * 2^156 + c4 * 2^208 + 4294968273 := by
      omega
    have hd4 : d4 ≥ 281474976710656 ∧ d4 < 2 * 281474976710656 := by omega
    omega
  · subst hx
    have b4' : c4 < 2^48 := by omega
    have p0 : d0 = c0 := by omega
    have p1 : d1 = c1 := by omega
    have p2 : d2 = c2 := by omega
    have p3 : d3 = c3 := by omega
    have p4 : d4 = c4 := by omega
    subst p0 p1 p2 p3 p4
    omega
theorem normalize_val (r : Fe) (h : r.mag 32) :
    (normalize r).val = r.val % P ∧ (normalize r).canon := by
  unfold Fe.mag at h
  obtain ⟨h0, h1, h2, h3, h4⟩ := h
  unfold normalize Fe.canon Fe.val
  simp -zeta only [and_M52, and_M48, Nat.shiftRight_eq_div_pow]
  extract_lets t0 t1 t2 t3 t4 x1 t4b t0b t1b t0c t2b t1c m2 t3b t2c m3 t4c t3c m4 x2 cond x3 x4 t0d t1d t0e t2d t1e t3d t2e t4d t3e t4e r0 r1 r2 r3 r4
  dsimp only
  -- first pass: no 64-bit overflow, carries are small
  have hx1 : x1 ≤ 63 := by omega
  have e_t0b : t0b = t0 + x1 * 4294968273 := by omega
  have e_t1b : t1b = t1 + t0b / 2^52 := by omega
  have e_t2b : t2b = t2 + t1b / 2^52 := by omega
  have e_t3b : t3b = t3 + t2b / 2^52 := by omega
  have e_t4c : t4c = t4b + t3b / 2^52 := by omega
  have b_t4c : t4c < 2^48 + 128 := by omega
  -- value after the first pass
  have hV1 : t0 + t1 * 2^52 + t2 * 2^104 + t3 * 2^156 + t4 * 2^208
      = (t0c + t1c * 2^52 + t2c * 2^104 + t3c * 2^156 + t4c * 2^208) + x1 * P := by
    rw [P_eq]; omega
  -- bounds after the first pass
  have b0 : t0c < 2^52 := by omega
  have b1 : t1c < 2^52 := by omega
  have b2 : t2c < 2^52 := by omega
  have b3 : t3c < 2^52 := by omega
  have hx2 : x2 ≤ 1 := by omega
  -- the condition says exactly: the low 256 bits are ≥ p
  have hm3 : m3 < 4503599627370496 := by
    have : m3 ≤ m2 := Nat.and_le_left
    omega
  have hcond : cond = true ↔ (t4c = 281474976710655 ∧ t1c = 4503599627370495 ∧ t2c = 4503599627370495
      ∧ t3c = 4503599627370495 ∧ t0c ≥ 4503595332402223) := by
    simp only [cond, m4, m3, m2, Bool.and_eq_true, decide_eq_true_eq]
    rw [and_eq_M _ _ (by simpa [m3, m2] using hm3) (by omega), and_eq_M _ _ (by omega) (by omega)]
    constructor
    · rintro ⟨⟨a, ⟨b, c⟩, d⟩, e⟩; exact ⟨a, b, c, d, e⟩
    · rintro ⟨a, b, c, d, e⟩; exact ⟨⟨a, ⟨b, c⟩, d⟩, e⟩
  have hx3 : x3 = 1 := or_one_le x2 hx2
  let V1 := t0c + t1c * 2^52 + t2c * 2^104 + t3c * 2^156 + t4c * 2^208
  have bV1 : t4c < 2^48 + 128 := b_t4c
  have hx4 : (x4 = 1 ∧ V1 ≥ 115792089237316195423570985008687907853269984665640564039457584007908834671663)
      ∨ (x4 = 0 ∧ V1 < 115792089237316195423570985008687907853269984665640564039457584007908834671663) := by
    by_cases hc : cond = true
    · have e4 : x4 = 1 := by simp only [x4, hc, if_true, hx3]
      obtain ⟨q4, q1, q2, q3, q0⟩ := hcond.mp hc
      left; refine ⟨e4, ?_⟩
      show t0c + t1c * 2^52 + t2c * 2^104 + t3c * 2^156 + t4c * 2^208 ≥ _
      rw [q4, q1, q2, q3]
      clear_value t0c
      omega
    · have e4 : x4 = x2 := by simp only [x4, hc]; simp
      rw [e4]
      by_cases h48 : t4c < 2^48
      · right
        refine ⟨by omega, ?_⟩
        apply Classical.byContradiction
        intro hge
        have hge' : t0c + t1c * 2^52 + t2c * 2^104 + t3c * 2^156 + t4c * 2^208 ≥
            115792089237316195423570985008687907853269984665640564039457584007908834671663 := Nat.le_of_not_lt hge
        obtain ⟨g4, g3, g2, g1, g0⟩ := ge_P_limbs t0c t1c t2c t3c t4c b0 b1 b2 b3 h48 hge'
        exact hc (hcond.mpr ⟨g4, g1, g2, g3, g0⟩)
      · left
        refine ⟨by omega, ?_⟩
        show t0c + t1c * 2^52 + t2c * 2^104 + t3c * 2^156 + t4c * 2^208 ≥ _
        clear_value t0c t1c t2c t3c t4c
        omega
  have fin := final_pass t0c t1c t2c t3c t4c x4 t0d t1d t0e t2d t1e t3d t2e t4d t3e t4e b0 b1 b2 b3 bV1 hx4
    rfl rfl rfl rfl rfl rfl rfl rfl rfl rfl
  obtain ⟨fv, flt, f0, f1, f2, f3, f4⟩ := fin
  refine ⟨?_, f0, f1, f2, f3, f4⟩
  show t0e + t1e * 2^52 + t2e * 2^104 + t3e * 2^156 + t4e * 2^208 = (t0 + t1 * 2^52 + t2 * 2^104 + t3 * 2^156 + t4 * 2^208) % P
  rw [hV1, ← fv, P_eq]
  generalize t0e + t1e * 2^52 + t2e * 2^104 + t3e * 2^156 + t4e * 2^208 = V2 at *
  rw [Nat.add_assoc, ← Nat.add_mul, Nat.add_mul_mod_self_right, Nat.mod_eq_of_lt flt]

end GocoinV.C08
