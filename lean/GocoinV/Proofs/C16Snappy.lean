/-
  Proofs.C16Snappy — emit-level lemmas of the snappy model: what the decoder does with the bytes of one
  `emitLiteral` / one copy tag written by `emitCopy`.
-/
import GocoinV.Model.Snappy
namespace GocoinV.Snappy

theorem ofNat_toNat (n : Nat) (h : n < 256) : (UInt8.ofNat n).toNat = n := by
  simp [UInt8.toNat_ofNat']; omega

theorem copyFwd_add (dst : Array UInt8) (off a c : Nat) :
    copyFwd dst off (a + c) = copyFwd (copyFwd dst off a) off c := by
  induction a generalizing dst with
  | zero => simp [copyFwd]
  | succ a ih =>
    have : a + 1 + c = (a + c) + 1 := by omega
    rw [this]
    simp only [copyFwd]
    exact ih _

theorem copyFwd_size (dst : Array UInt8) (off n : Nat) : (copyFwd dst off n).size = dst.size + n := by
  induction n generalizing dst with
  | zero => simp [copyFwd]
  | succ n ih => simp only [copyFwd]; rw [ih]; simp; omega

/-- the decoder, given the bytes of `emitLiteral lit` followed by anything, appends exactly `lit` -/
theorem decodeStep_emitLiteral (dLen : Nat) (lit rest : Bytes) (dst : Array UInt8)
    (h1 : 1 ≤ lit.length) (h2 : lit.length ≤ 65536) (hroom : dst.size + lit.length ≤ dLen) :
    decodeStep dLen (emitLiteral lit ++ rest) dst = .ok (rest, dst ++ lit.toArray) := by
  unfold emitLiteral
  simp only
  by_cases c1 : lit.length - 1 < 60
  · simp only [c1, ↓reduceIte, List.cons_append]
    have e : (UInt8.ofNat ((lit.length - 1) * 4)).toNat = (lit.length - 1) * 4 := ofNat_toNat _ (by omega)
    unfold decodeStep parseTag
    simp only [b, List.getD_cons_zero, e]
    have m : (lit.length - 1) * 4 % 4 = 0 := by omega
    have d : (lit.length - 1) * 4 / 4 = lit.length - 1 := by omega
    simp only [m, d, c1, ↓reduceIte]
    have t : List.take (lit.length - 1 + 1) (lit ++ rest) = lit := by
      have : lit.length - 1 + 1 = lit.length := by omega
      rw [this, List.take_append_of_le_length (Nat.le_refl _), List.take_length]
    have dr : List.drop (1 + (lit.length - 1 + 1)) (UInt8.ofNat ((lit.length - 1) * 4) :: (lit ++ rest)) = rest := by
      have : 1 + (lit.length - 1 + 1) = lit.length + 1 := by omega
      rw [this]; simp
    simp only [List.drop_succ_cons, List.drop_zero, t, dr]
    have : ¬ (lit.length - 1 + 1 > dLen - dst.size ∨ lit.length < lit.length - 1 + 1) := by omega
    simp only [this, ↓reduceIte]
  · by_cases c2 : lit.length - 1 < 256
    · simp only [c1, c2, ↓reduceIte, List.cons_append]
      have e : (UInt8.ofNat (lit.length - 1)).toNat = lit.length - 1 := ofNat_toNat _ c2
      unfold decodeStep parseTag
      simp only [b, List.getD_cons_zero, List.getD_cons_succ, e]
      have e0 : (UInt8.ofNat (60 * 4)).toNat = 240 := by decide
      simp only [e0]
      have sh : shorter (UInt8.ofNat (60 * 4) :: UInt8.ofNat (lit.length - 1) :: (lit ++ rest)) 2 = false := by
        simp [shorter]
      simp only [show (240 % 4) = 0 by decide, show (240 / 4) = 60 by decide, show ¬ (60 < 60) by decide, ↓reduceIte, sh,
        Bool.false_eq_true]
      have t : List.take (lit.length - 1 + 1) (lit ++ rest) = lit := by
        have : lit.length - 1 + 1 = lit.length := by omega
        rw [this, List.take_append_of_le_length (Nat.le_refl _), List.take_length]
      have dr : List.drop (2 + (lit.length - 1 + 1)) (UInt8.ofNat (60 * 4) :: UInt8.ofNat (lit.length - 1) :: (lit ++ rest)) = rest := by
        have : 2 + (lit.length - 1 + 1) = lit.length + 1 + 1 := by omega
        rw [this]; simp
      simp only [List.drop_succ_cons, List.drop_zero, t, dr]
      have : ¬ (lit.length - 1 + 1 > dLen - dst.size ∨ lit.length < lit.length - 1 + 1) := by omega
      simp only [this, ↓reduceIte]
    · simp only [c1, c2, ↓reduceIte, List.cons_append]
      have ea : (UInt8.ofNat ((lit.length - 1) % 256)).toNat = (lit.length - 1) % 256 := ofNat_toNat _ (by omega)
      have eb : (UInt8.ofNat ((lit.length - 1) / 256)).toNat = (lit.length - 1) / 256 := ofNat_toNat _ (by omega)
      unfold decodeStep parseTag
      simp only [b, List.getD_cons_zero, List.getD_cons_succ, ea, eb]
      have e0 : (UInt8.ofNat (61 * 4)).toNat = 244 := by decide
      simp only [e0]
      have sh : shorter (UInt8.ofNat (61 * 4) :: UInt8.ofNat ((lit.length - 1) % 256) :: UInt8.ofNat ((lit.length - 1) / 256) :: (lit ++ rest)) 3 = false := by
        simp [shorter]
      simp only [show (244 % 4) = 0 by decide, show (244 / 4) = 61 by decide, show ¬ (61 < 60) by decide,
        show ¬ (61 = 60) by decide, ↓reduceIte, sh, Bool.false_eq_true]
      have ln : (lit.length - 1) % 256 + 256 * ((lit.length - 1) / 256) + 1 = lit.length := by omega
      simp only [ln]
      have t : List.take lit.length (lit ++ rest) = lit := by
        rw [List.take_append_of_le_length (Nat.le_refl _), List.take_length]
      have dr : List.drop (3 + lit.length) (UInt8.ofNat (61 * 4) :: UInt8.ofNat ((lit.length - 1) % 256) :: UInt8.ofNat ((lit.length - 1) / 256) :: (lit ++ rest)) = rest := by
        have : 3 + lit.length = lit.length + 1 + 1 + 1 := by omega
        rw [this]; simp
      simp only [List.drop_succ_cons, List.drop_zero, t, dr]
      have : ¬ (lit.length > dLen - dst.size ∨ lit.length < lit.length) := by omega
      simp only [this, ↓reduceIte]

/-- the decoder, given a 3-byte copy tag written by `emitCopy` followed by anything, performs that copy -/
theorem decodeStep_copy2 (dLen : Nat) (offset length : Nat) (rest : Bytes) (dst : Array UInt8)
    (hl1 : 1 ≤ length) (hl2 : length ≤ 64) (ho1 : 1 ≤ offset) (ho2 : offset < 65536)
    (hback : offset ≤ dst.size) (hroom : dst.size + length ≤ dLen) :
    decodeStep dLen (copy2 offset length ++ rest) dst = .ok (rest, copyFwd dst offset length) := by
  unfold copy2
  have e0 : (UInt8.ofNat ((length - 1) * 4 + 2)).toNat = (length - 1) * 4 + 2 := ofNat_toNat _ (by omega)
  have e1 : (UInt8.ofNat (offset % 256)).toNat = offset % 256 := ofNat_toNat _ (by omega)
  have e2 : (UInt8.ofNat (offset / 256)).toNat = offset / 256 := ofNat_toNat _ (by omega)
  unfold decodeStep parseTag
  simp only [List.cons_append, List.nil_append, b, List.getD_cons_zero, List.getD_cons_succ, e0, e1, e2]
  have m : ((length - 1) * 4 + 2) % 4 = 2 := by omega
  have d : ((length - 1) * 4 + 2) / 4 = length - 1 := by omega
  have sh : shorter (UInt8.ofNat ((length - 1) * 4 + 2) :: UInt8.ofNat (offset % 256) :: UInt8.ofNat (offset / 256) :: rest) 3 = false := by
    simp [shorter]
  simp only [m, d, sh, Bool.false_eq_true, ↓reduceIte]
  have eo : offset % 256 + 256 * (offset / 256) = offset := by omega
  have el : 1 + (length - 1) = length := by omega
  simp only [eo, el]
  have : ¬ (offset = 0 ∨ dst.size < offset ∨ length > dLen - dst.size) := by omega
  simp only [this, ↓reduceIte, List.drop_succ_cons, List.drop_zero]

/-- the decoder, given the 2-byte copy tag written by `emitCopy` followed by anything, performs that copy -/
theorem decodeStep_copy1 (dLen : Nat) (offset length : Nat) (rest : Bytes) (dst : Array UInt8)
    (hl1 : 4 ≤ length) (hl2 : length < 12) (ho1 : 1 ≤ offset) (ho2 : offset < 2048)
    (hback : offset ≤ dst.size) (hroom : dst.size + length ≤ dLen) :
    decodeStep dLen ([UInt8.ofNat ((offset / 256) * 32 + (length - 4) * 4 + 1), UInt8.ofNat (offset % 256)] ++ rest) dst
      = .ok (rest, copyFwd dst offset length) := by
  have e0 : (UInt8.ofNat ((offset / 256) * 32 + (length - 4) * 4 + 1)).toNat = (offset / 256) * 32 + (length - 4) * 4 + 1 :=
    ofNat_toNat _ (by omega)
  have e1 : (UInt8.ofNat (offset % 256)).toNat = offset % 256 := ofNat_toNat _ (by omega)
  unfold decodeStep parseTag
  simp only [List.cons_append, List.nil_append, b, List.getD_cons_zero, List.getD_cons_succ, e0, e1]
  have m : ((offset / 256) * 32 + (length - 4) * 4 + 1) % 4 = 1 := by omega
  have d1 : ((offset / 256) * 32 + (length - 4) * 4 + 1) / 32 = offset / 256 := by omega
  have d2 : (((offset / 256) * 32 + (length - 4) * 4 + 1) / 4) % 8 = length - 4 := by omega
  have sh : shorter (UInt8.ofNat ((offset / 256) * 32 + (length - 4) * 4 + 1) :: UInt8.ofNat (offset % 256) :: rest) 2 = false := by
    simp [shorter]
  simp only [m, d1, d2, sh, Bool.false_eq_true, ↓reduceIte]
  have eo : offset / 256 * 256 + offset % 256 = offset := by omega
  have el : 4 + (length - 4) = length := by omega
  simp only [eo, el]
  have : ¬ (offset = 0 ∨ dst.size < offset ∨ length > dLen - dst.size) := by omega
  simp only [this, ↓reduceIte, List.drop_succ_cons, List.drop_zero]

end GocoinV.Snappy
