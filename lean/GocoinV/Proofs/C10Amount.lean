/-
  Proofs.C10Amount — CompressAmount / DecompressAmount round trip.
-/
import GocoinV.Model.AmountCompress
namespace GocoinV.AmountCompress

theorem U64_pos : 0 < U64 := by decide

theorem mul10_spec (k m : Nat) (h : m < U64) : mul10 k m = m * 10 ^ k % U64 := by
  induction k generalizing m with
  | zero => simp [mul10, Nat.mod_eq_of_lt h]
  | succ k ih =>
    rw [mul10, ih _ (Nat.mod_lt _ U64_pos), Nat.pow_succ, Nat.mod_mul_mod]
    congr 1
    rw [Nat.mul_assoc, Nat.mul_comm 10]

theorem stripZeros_fst_le (fuel n e : Nat) : (stripZeros fuel n e).1 ≤ n := by
  induction fuel generalizing n e with
  | zero => simp [stripZeros]
  | succ f ih =>
    rw [stripZeros]; split
    · exact Nat.le_trans (ih _ _) (Nat.div_le_self _ _)
    · simp

theorem stripZeros_snd_ge (fuel n e : Nat) : e ≤ (stripZeros fuel n e).2 := by
  induction fuel generalizing n e with
  | zero => simp [stripZeros]
  | succ f ih =>
    rw [stripZeros]; split
    · exact Nat.le_trans (Nat.le_succ e) (ih _ _)
    · simp

theorem stripZeros_snd_le (fuel n e : Nat) (h : e ≤ 9) : (stripZeros fuel n e).2 ≤ 9 := by
  induction fuel generalizing n e with
  | zero => simpa [stripZeros]
  | succ f ih =>
    rw [stripZeros]; split
    · rename_i hc; exact ih _ _ (by omega)
    · simpa

/-- with enough fuel the loop only stops early on a non-zero last digit -/
theorem stripZeros_digit (fuel n e : Nat) (hf : 9 ≤ fuel + e) (h : (stripZeros fuel n e).2 < 9) :
    (stripZeros fuel n e).1 % 10 ≠ 0 := by
  induction fuel generalizing n e with
  | zero => simp [stripZeros] at h; omega
  | succ f ih =>
    rw [stripZeros] at h ⊢; split
    · rename_i hc; simp only [hc, and_self, ↓reduceIte] at h; exact ih _ _ (by omega) h
    · rename_i hc; simp only [hc, ↓reduceIte] at h; simp only; omega

/-- multiplying the stripped mantissa back gives the amount -/
theorem stripZeros_inv (fuel n e : Nat) (hn : n < U64) :
    mul10 ((stripZeros fuel n e).2 - e) (stripZeros fuel n e).1 = n := by
  induction fuel generalizing n e with
  | zero => simp [stripZeros, mul10]
  | succ f ih =>
    rw [stripZeros]; split
    · rename_i hc
      have hlt : n / 10 < U64 := Nat.lt_of_le_of_lt (Nat.div_le_self _ _) hn
      have h1 := ih (n / 10) (e + 1) hlt
      have hge := stripZeros_snd_ge f (n / 10) (e + 1)
      have hm : (stripZeros f (n / 10) (e + 1)).1 < U64 :=
        Nat.lt_of_le_of_lt (stripZeros_fst_le _ _ _) hlt
      rw [mul10_spec _ _ hm] at h1 ⊢
      have hk : (stripZeros f (n / 10) (e + 1)).2 - e = ((stripZeros f (n / 10) (e + 1)).2 - (e + 1)) + 1 := by omega
      rw [hk, Nat.pow_succ, ← Nat.mul_assoc, Nat.mul_mod, h1]
      have : n / 10 * (10 % U64) = n := by
        have : 10 % U64 = 10 := by decide
        rw [this]; omega
      rw [this, Nat.mod_eq_of_lt hn]
    · simp [mul10]


/-- the three definitions with the `let`s spelled out -/
def compressOf (m e : Nat) : Nat :=
  if e < 9 then (1 + ((m / 10 * 9 + m % 10 - 1) % U64 * 10) % U64 + e) % U64
  else (1 + ((m - 1) * 10) % U64 + 9) % U64

def exactOf (m e : Nat) : Nat :=
  if e < 9 then 1 + (m / 10 * 9 + m % 10 - 1) * 10 + e else 1 + (m - 1) * 10 + 9

theorem compress_def (n : Nat) :
    compress n = if n = 0 then 0 else compressOf (stripZeros 9 n 0).1 (stripZeros 9 n 0).2 := rfl

theorem compressExact_def (n : Nat) :
    compressExact n = if n = 0 then 0 else exactOf (stripZeros 9 n 0).1 (stripZeros 9 n 0).2 := rfl

theorem compressOf_eq (m e : Nat) (h : exactOf m e < U64) : compressOf m e = exactOf m e := by
  unfold compressOf exactOf at *
  split
  · rename_i he
    simp only [he, ↓reduceIte] at h
    have h1 : (m / 10 * 9 + m % 10 - 1) % U64 = m / 10 * 9 + m % 10 - 1 := Nat.mod_eq_of_lt (by omega)
    have h2 : (m / 10 * 9 + m % 10 - 1) * 10 % U64 = (m / 10 * 9 + m % 10 - 1) * 10 := Nat.mod_eq_of_lt (by omega)
    rw [h1, h2, Nat.mod_eq_of_lt h]
  · rename_i he
    simp only [he, ↓reduceIte] at h
    have h2 : (m - 1) * 10 % U64 = (m - 1) * 10 := Nat.mod_eq_of_lt (by omega)
    rw [h2, Nat.mod_eq_of_lt h]

theorem compress_eq_exact (n : Nat) (h : compressExact n < U64) : compress n = compressExact n := by
  rw [compress_def, compressExact_def] at *
  split
  · rfl
  · rename_i hn0
    simp only [hn0, ↓reduceIte] at h
    exact compressOf_eq _ _ h

theorem decompress_exactOf (m e n : Nat) (hmU : m < U64) (he9 : e ≤ 9) (hd : e < 9 → m % 10 ≠ 0)
    (hm0 : m ≠ 0) (hinv : mul10 e m = n) : decompress (exactOf m e) = n := by
  unfold exactOf
  split
  · rename_i he
    have hd' := hd he
    unfold decompress
    have hx : ¬ (1 + (m / 10 * 9 + m % 10 - 1) * 10 + e = 0) := by omega
    have e1 : (1 + (m / 10 * 9 + m % 10 - 1) * 10 + e - 1) % 10 = e := by omega
    have e2 : (1 + (m / 10 * 9 + m % 10 - 1) * 10 + e - 1) / 10 = m / 10 * 9 + m % 10 - 1 := by omega
    have e3 : (m / 10 * 9 + m % 10 - 1) % 9 + 1 = m % 10 := by omega
    have e4 : (m / 10 * 9 + m % 10 - 1) / 9 = m / 10 := by omega
    have e5 : m / 10 * 10 + m % 10 = m := by omega
    simp only [hx, ↓reduceIte, e1, e2, e3, e4, e5, he, Nat.mod_eq_of_lt hmU, hinv]
  · rename_i he
    have he9 : e = 9 := by omega
    subst he9
    unfold decompress
    have hx : ¬ (1 + (m - 1) * 10 + 9 = 0) := by omega
    have e1 : (1 + (m - 1) * 10 + 9 - 1) % 10 = 9 := by omega
    have e2 : (1 + (m - 1) * 10 + 9 - 1) / 10 = m - 1 := by omega
    have e3 : m - 1 + 1 = m := by omega
    simp only [hx, ↓reduceIte, e1, e2, e3, Nat.lt_irrefl, Nat.mod_eq_of_lt hmU, hinv]

theorem decompress_compressExact (n : Nat) (hn : n < U64) :
    decompress (compressExact n) = n := by
  rw [compressExact_def]
  split
  · rename_i h0; subst h0; rfl
  · rename_i hn0
    have hinv := stripZeros_inv 9 n 0 hn
    simp only [Nat.sub_zero] at hinv
    have hmU : (stripZeros 9 n 0).1 < U64 := Nat.lt_of_le_of_lt (stripZeros_fst_le 9 n 0) hn
    refine decompress_exactOf _ _ n hmU (stripZeros_snd_le 9 n 0 (by omega))
      (stripZeros_digit 9 n 0 (by omega)) ?_ hinv
    intro h
    rw [h, mul10_spec _ _ U64_pos] at hinv
    simp at hinv; omega

/-- the compressed value never exceeds ten times the amount plus ten -/
theorem compressExact_le (n : Nat) : compressExact n ≤ 10 * n + 10 := by
  rw [compressExact_def]
  split
  · omega
  · have hm := stripZeros_fst_le 9 n 0
    have hle := stripZeros_snd_le 9 n 0 (by omega)
    unfold exactOf
    split <;> omega

end GocoinV.AmountCompress
