/-
  Proofs.C12PanicUnmined — the panic branch of `unminedFlags` (OneTxToSend.unmined: IIdx returns -1, the spender
  registered in SpentOutputs has no input with that UIdx) is unreachable from states that satisfy the structural
  invariant `InvS` (SpentOutputs is sound: the record stored under `u` has an input with UIdx `u`).  Core Lean only.
-/
import GocoinV.Proofs.C12Flags
namespace GocoinV.Mempool

theorem posOf_some_of_mem (b : Nat) : ∀ (l : List Nat) (start : Nat), b ∈ l → ∃ p, posOf b l start = some p := by
  intro l
  induction l with
  | nil => intro _ h; cases h
  | cons x r ih =>
    intro start h
    simp only [posOf]
    split
    · exact ⟨start, rfl⟩
    · rename_i hne
      rcases List.mem_cons.mp h with e | e
      · exact absurd e.symm hne
      · exact ih (start + 1) e

/-- IIdx finds every UIdx of the record's inputs -/
theorem iidx_of_mem (K : Keys) (r : T2S) (u : Nat) (h : u ∈ uidxs K r.tx) : ∃ idx, iidx K r u = some idx :=
  posOf_some_of_mem u _ 0 h

/-- the guard of the IIdx panic branch of `mined` / `unmined` is false: the spender recorded under `u` has the input -/
theorem iidx_guard {K : Keys} {s : State} (h : InvS K s) (u val : Nat) (r : T2S) (hval : s.spent.get? u = some val)
    (hr : s.pool.get? val = some r) : ∃ idx, iidx K r u = some idx := by
  obtain ⟨x, hx, hm⟩ := h.sound u val hval
  rw [hr] at hx
  cases hx
  exact iidx_of_mem K r u hm

/-- replacing a pooled record by one carrying the same transaction keeps `InvS` -/
theorem setRec_InvS {K : Keys} {s s' : State} (h : InvS K s) (b : Nat) (r r' : T2S) (hb : s.pool.get? b = some r)
    (htx : r'.tx = r.tx) (e1 : s'.pool = s.pool.set b r') (e2 : s'.spent = s.spent) : InvS K s' := by
  have look : ∀ b0 x, s.pool.get? b0 = some x → ∃ x', s'.pool.get? b0 = some x' ∧ x'.tx = x.tx := by
    intro b0 x hx
    rw [e1]
    by_cases e : b0 = b
    · rw [e, AList.get?_set_self]; rw [e, hb] at hx; cases hx; exact ⟨r', rfl, htx⟩
    · rw [AList.get?_set_other _ _ _ _ e]; exact ⟨x, hx, rfl⟩
  have back : ∀ b0 x', s'.pool.get? b0 = some x' → ∃ x, s.pool.get? b0 = some x ∧ x'.tx = x.tx := by
    intro b0 x' hx
    rw [e1] at hx
    by_cases e : b0 = b
    · rw [e, AList.get?_set_self] at hx; cases hx; exact ⟨r, by rw [e]; exact hb, htx⟩
    · rw [AList.get?_set_other _ _ _ _ e] at hx; exact ⟨x', hx, rfl⟩
  refine ⟨?_, ?_, ?_⟩
  · intro b0 x' hx
    obtain ⟨x, hx0, e⟩ := back b0 x' hx
    rw [e]; exact h.key b0 x hx0
  · intro u b0 hu
    rw [e2] at hu
    obtain ⟨x, hx, hm⟩ := h.sound u b0 hu
    obtain ⟨x', hx', e⟩ := look b0 x hx
    exact ⟨x', hx', by rw [e]; exact hm⟩
  · intro b0 x' hx u hu
    obtain ⟨x, hx0, e⟩ := back b0 x' hx
    rw [e2]
    exact h.complete b0 x hx0 u (by rw [← e]; exact hu)

/-- one iteration of `unmined` neither raises the panic flag nor breaks `InvS` -/
theorem unminedStep_alive {K : Keys} (t : T2S) (s : State) (v : Nat) (h : InvS K s) :
    (unminedStep K t s v).panicked = s.panicked ∧ InvS K (unminedStep K t s v) := by
  unfold unminedStep
  dsimp only
  cases hval : s.spent.get? (K.uidx t.tx.id v) with
  | none => exact ⟨rfl, h⟩
  | some val =>
    simp only []
    cases hr : s.pool.get? val with
    | none => exact ⟨rfl, h⟩
    | some r =>
      simp only []
      obtain ⟨idx, hidx⟩ := iidx_guard h _ val r hval hr
      rw [hidx]
      simp only []
      split
      · exact ⟨rfl, setRec_InvS h val r (memRec r) hr rfl rfl rfl⟩
      · exact ⟨rfl, setRec_InvS h val r (setRecF r idx) hr rfl rfl rfl⟩

theorem foldl_alive {α : Type} (P : State → Prop) (f : State → α → State)
    (hf : ∀ s a, P s → (f s a).panicked = s.panicked ∧ P (f s a)) :
    ∀ (l : List α) (s : State), P s → (l.foldl f s).panicked = s.panicked ∧ P (l.foldl f s) := by
  intro l
  induction l with
  | nil => intro s h; exact ⟨rfl, h⟩
  | cons a r ih =>
    intro s h
    simp only [List.foldl_cons]
    obtain ⟨h1, h2⟩ := hf s a h
    obtain ⟨h3, h4⟩ := ih _ h2
    exact ⟨h3.trans h1, h4⟩

/-- target (2): OneTxToSend.unmined never raises the panic flag in a state with `InvS` (for ANY record `t`, pooled or
    not), and the resulting state satisfies `InvS` again -/
theorem unminedFlags_panicked {K : Keys} {s : State} (h : InvS K s) (t : T2S) :
    (unminedFlags K s t).panicked = s.panicked ∧ InvS K (unminedFlags K s t) := by
  rw [unminedFlags_eq]
  exact foldl_alive (InvS K) (unminedStep K t) (fun s v hs => unminedStep_alive t s v hs) _ s h

end GocoinV.Mempool
