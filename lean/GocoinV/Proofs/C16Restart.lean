/-
  Proofs.C16Restart — close + reopen: LoadBlockIndex re-establishes the index-file invariant `Disk` and (retention off)
  the refinement relation `Ref`; the combined invariant `Core` holds along every history; the history-level theorems
  `restart_refines` (store_refines_map across restarts) and `restart_lists` (reopen_index).
-/
import GocoinV.Proofs.C16Disk3
import GocoinV.Proofs.C16NoLoss
namespace GocoinV.BlockDB

/-! ### the state after NewBlockDBExt + LoadBlockIndex -/

theorem reopen_state (env : Env) (fs : FS) (o : Opts) :
    (reopen env fs o).1.index = (loadLoop env (fs.idx.length / RECSIZE + 1) fs.idx {}).index ∧
    (reopen env fs o).1.maxidxfilepos = (loadLoop env (fs.idx.length / RECSIZE + 1) fs.idx {}).maxidxfilepos ∧
    (reopen env fs o).1.maxdatfilepos = (loadLoop env (fs.idx.length / RECSIZE + 1) fs.idx {}).maxdatfilepos ∧
    (reopen env fs o).1.maxdatfileidx = (loadLoop env (fs.idx.length / RECSIZE + 1) fs.idx {}).maxdatfileidx ∧
    (reopen env fs o).1.queue = [] ∧ (reopen env fs o).1.cache = [] ∧ (reopen env fs o).1.isOpen = true ∧
    (reopen env fs o).1.nextSeq = 1 ∧ (reopen env fs o).1.opts.keep = o.keep := by
  unfold reopen
  refine ⟨rfl, rfl, rfl, rfl, rfl, rfl, rfl, rfl, ?_⟩
  simp only
  split <;> rfl

theorem reopen_disk (env : Env) (hadv : env.advInvalid = true) (s : State) (sp sp' : Spec) (n : Nat) (hD : Disk env s sp n)
    (hI : IdxInv s) (hn : n < 2^31) (hw : ∀ k r, AL.get s.index k = some r → r.ipos.isSome = true) (hm : sp'.m = sp.m)
    (o : Opts) : Disk env (reopen env s.fs o).1 sp' n := by
  have L := load_linv env hadv s sp n hD hI hn
  obtain ⟨e1, _, e3, e4, e5, _, _, _, _⟩ := reopen_state env s.fs o
  have e0 := reopen_fs_idx env s.fs o
  generalize loadLoop env (s.fs.idx.length / RECSIZE + 1) s.fs.idx {} = a at *
  refine ⟨?_, ?_, ?_, ?_, ?_, ?_, ?_, ?_, ?_, ?_, ?_, ?_, (by rw [e0]; exact hD.allidx)⟩
  · intro k r p hh hp
    rw [e1] at hh; rw [e0]
    obtain ⟨r0, p0, _, a2, a3, _, a5⟩ := L.l1 k r hh
    obtain ⟨m1, m2⟩ := hD.mem k r0 p0 a2 a3
    subst a5
    simp only [recOf, Option.some.injEq] at hp; subst hp
    exact ⟨m1, desc_recOf _ r0 p0 m2⟩
  · intro p hp1 hp2 hv
    rw [e0] at hp2 hv ⊢
    obtain ⟨r0, a1, a2⟩ := hD.disk p hp1 hp2 hv
    rw [e1, L.l2 _ r0 p a1 a2 (by omega) hv]
    exact ⟨_, rfl, rfl⟩
  · intro k e r p he ht hh hp
    rw [e1] at hh; rw [e0]; rw [hm] at he
    obtain ⟨r0, p0, _, a2, a3, _, a5⟩ := L.l1 k r hh
    subst a5
    simp only [recOf, Option.some.injEq] at hp; subst hp
    exact hD.specrec k e r0 p0 he ht a2 a3
  · intro k r hh
    rw [e1] at hh; rw [hm]
    obtain ⟨r0, p0, _, a2, _⟩ := L.l1 k r hh
    exact hD.idxspec k r0 a2
  · intro k e he ht
    rw [hm] at he
    obtain ⟨r0, a1⟩ := hD.ent k e he ht
    have hs := hw k r0 a1
    cases hp : r0.ipos with
    | none => rw [hp] at hs; cases hs
    | some p =>
      have hv := (hD.specrec k e r0 p he ht a1 hp).valid
      rw [e1, L.l2 k r0 p a1 hp (by have := (hI.ipos k r0 p a1 hp).1; omega) hv]
      exact ⟨_, rfl⟩
  · intro b hb; rw [e5] at hb; cases hb
  · intro b hb; rw [e5] at hb; cases hb
  · intro b hb; rw [e5] at hb; cases hb
  · intro b hb; rw [e5] at hb; cases hb
  · rw [e5, e4]; simp only [List.length_nil]; exact L.l4.1
  · rw [e5, e3]; simp only [List.length_nil]; exact L.l4.2
  · intro k r p hh hp
    rw [e1] at hh
    obtain ⟨r0, p0, _, a2, a3, _, a5⟩ := L.l1 k r hh
    obtain ⟨_, m2⟩ := hD.mem k r0 p0 a2 a3
    obtain ⟨q1, q2, q3, _⟩ := recOf_fields _ r0 p0 m2
    subst a5
    rw [q1, q2, q3]; exact hD.recb k r0 p0 a2 a3

/-- what NewBlockDBExt + LoadBlockIndex do to the data files (O_CREATE of the current file, `loadCleanup`): every number
    that is not lost afterwards was not lost before and resolves to the same bytes -/
theorem reopen_keeps (env : Env) (fs : FS) (o : Opts) : Keeps fs (reopen env fs o).1.fs := by
  rw [reopen_fs]
  exact (createCur_keeps _ _).1.trans (loadCleanup_keeps _ _ _).1

theorem reopen_cur (env : Env) (fs : FS) (o : Opts) :
    ∃ f, AL.get (reopen env fs o).1.fs.dats (reopen env fs o).1.maxdatfileidx = some f := by
  have e : (reopen env fs o).1.maxdatfileidx = (loadLoop env (fs.idx.length / RECSIZE + 1) fs.idx {}).maxdatfileidx :=
    (reopen_state env fs o).2.2.2.1
  rw [e, reopen_fs, (loadCleanup_keeps _ _ _).2]
  exact (createCur_keeps _ _).2

/-- EVERY option combination: LoadBlockIndex re-establishes the refinement relation -/
theorem reopen_ref (env : Env) (hadv : env.advInvalid = true) (s : State) (sp sp' : Spec) (n : Nat) (hR : Ref env s sp)
    (hD : Disk env s sp n) (hI : IdxInv s) (hn : n < 2^31) (hw : ∀ k r, AL.get s.index k = some r → r.ipos.isSome = true)
    (hm : sp'.m = sp.m) (hop : sp'.isOpen = true) (o : Opts) : Ref env (reopen env s.fs o).1 sp' := by
  have L := load_linv env hadv s sp n hD hI hn
  have K := reopen_keeps env s.fs o
  have hcur := reopen_cur env s.fs o
  obtain ⟨e1, _, e3, e4, e5, e6, e7, _, _⟩ := reopen_state env s.fs o
  generalize loadLoop env (s.fs.idx.length / RECSIZE + 1) s.fs.idx {} = a at *
  refine ⟨by rw [hop, e7], fun _ => hcur, ?_, ?_, ?_, ?_, ?_, ?_, ?_⟩
  · intro k r hh
    rw [e1] at hh; rw [hm]
    obtain ⟨r0, p0, _, a2, _⟩ := L.l1 k r hh
    exact hR.idxspec k r0 a2
  · intro k r hh
    rw [e1] at hh; rw [e3, e4]
    exact L.l3 k r hh
  · intro k c hc; rw [e6] at hc; simp [AL.get] at hc
  · intro k c e hc; rw [e6] at hc; simp [AL.get] at hc
  · intro b hb; rw [e5] at hb; cases hb
  · intro b hb; rw [e5] at hb; cases hb
  · intro k e he ht
    rw [hm] at he
    obtain ⟨r0, a1, a2, a3, a4, _, a6⟩ := hR.ent k e he ht
    have hs := hw k r0 a1
    cases hp : r0.ipos with
    | none => rw [hp] at hs; cases hs
    | some p =>
      have mt := hD.specrec k e r0 p he ht a1 hp
      obtain ⟨_, md⟩ := hD.mem k r0 p a1 hp
      obtain ⟨q1, q2, q3, q4, q5, q6, q7, q8⟩ := recOf_fields _ r0 p md
      refine ⟨recOf (recAt s.fs.idx p) p, ?_, by rw [q6, a2], by rw [q7, mt.olen], a4, ?_, ?_⟩
      · rw [e1]; exact L.l2 k r0 p a1 hp (by have := (hI.ipos k r0 p a1 hp).1; omega) mt.valid
      · intro hc; rw [q8] at hc; cases hc
      · intro _ hl
        rw [q3] at hl
        have d := DataOK_keeps env _ _ r0 e.raw K (a6 hs (K _ hl).1) hl
        exact DataOK_congr env _ _ r0 _ e.raw rfl rfl q1 q2 q3 q4 q5 d

/-! ### the invariant along a history -/

def openAfter (b : Bool) : Op → Bool
  | .reopen _ => true
  | .close => false
  | _ => b

theorem specStep_isOpen (s : State) (sp : Spec) (op : Op) : (specStep s sp op).isOpen = openAfter sp.isOpen op := by
  cases hso : sp.isOpen <;> cases op <;> simp [specStep, openAfter, hso]
  all_goals (first | rfl | (split <;> simp [hso]) | (repeat' split) <;> simp [hso])

theorem specStep_m_reopen (s : State) (sp : Spec) (o : Opts) : (specStep s sp (.reopen o)).m = sp.m := by
  unfold specStep; simp only; split <;> rfl

theorem step_isOpen (env : Env) (s : State) (op : Op) (hI : IdxInv s) :
    (step env s op).1.isOpen = openAfter s.isOpen op := by
  unfold step openAfter
  cases op with
  | reopen o =>
    simp only
    split
    · assumption
    · exact (reopen_state env s.fs o).2.2.2.2.2.2.1
  | add hash ht tx tr raw =>
    simp only
    by_cases ho : s.isOpen = true
    · simp only [ho, Bool.not_true, Bool.false_eq_true, ↓reduceIte]
      split
      · exact ho
      · exact (blockAdd_inv env s hash ht tx tr raw hI ho (by omega)).2
    · simp only [ho, Bool.not_false, ↓reduceIte]
  | get hash => simp only; split; rfl; exact (blockGet_inv env s hash hI).2
  | length hash d => simp only; split; rfl; exact (blockLength_inv env s hash d hI).2
  | trusted hash => simp only; split; rfl; exact (blockTrusted_inv s hash hI).2
  | invalid hash => simp only; split; rfl; exact (blockInvalid_inv s hash hI).2
  | idle =>
    simp only
    by_cases ho : s.isOpen = true
    · simp only [ho, Bool.not_true, Bool.false_eq_true, ↓reduceIte]; exact (flush_inv env s hI ho).2
    · simp only [ho, Bool.not_false, ↓reduceIte]
  | close =>
    simp only
    by_cases ho : s.isOpen = true
    · simp only [ho, Bool.not_true, Bool.false_eq_true, ↓reduceIte]
    · simp only [ho, Bool.not_false, ↓reduceIte]

/-- index-file append invariant + liveness + index-file contents + "a closed store has everything on disk" -/
structure Core (env : Env) (s : State) (sp : Spec) (n : Nat) : Prop where
  inv : IdxInv s
  live : Live s
  disk : Disk env s sp n
  closed : s.isOpen = false → ∀ k r, AL.get s.index k = some r → r.ipos.isSome = true
  opn : sp.isOpen = s.isOpen

theorem step_disk (env : Env) (hadv : env.advInvalid = true) (s : State) (sp : Spec) (n : Nat) (h : Core env s sp n) (op : Op)
    (hwf : Op.wf env op) (hn : n + 1 < 2^31) : Disk env (step env s op).1 (specStep s sp op) (n + 1) := by
  have hopn := h.opn
  have hD := h.disk
  have hI := h.inv
  have up : ∀ s' sp', Disk env s' sp' n → Disk env s' sp' (n + 1) := fun s' sp' x => disk_mono env s' sp' n (n + 1) x (by omega)
  cases op with
  | reopen o =>
    unfold step specStep
    simp only
    by_cases ho : s.isOpen = true
    · simp only [ho, hopn, ↓reduceIte]; exact up _ _ hD
    · simp only [ho, hopn, Bool.false_eq_true, ↓reduceIte]
      have hc : s.isOpen = false := by simpa using ho
      exact up _ _ (reopen_disk env hadv s sp { sp with isOpen := true } n hD hI (by omega) (h.closed hc) rfl o)
  | add hash ht tx tr raw =>
    unfold step specStep
    simp only
    by_cases ho : s.isOpen = true
    · simp only [ho, hopn, Bool.not_true, Bool.false_eq_true, ↓reduceIte]
      by_cases hl : raw.length < 80
      · simp only [hl, ↓reduceIte]; exact up _ _ hD
      · simp only [hl, ↓reduceIte]
        cases hsp : AL.get sp.m (keyOf hash) with
        | none =>
          simp only
          refine blockAdd_disk env s sp _ n hD hI ho hn hash ht tx tr raw hwf (by omega)
            (fun k' hne => by simp only [AL.get_set, if_neg hne]) ?_ ?_ ⟨_, by rw [AL.get_set, if_pos rfl]⟩
          · intro _ e' he'
            simp only [AL.get_set, ↓reduceIte, Option.some.injEq] at he'
            subst he'; exact ⟨rfl, rfl, rfl⟩
          · intro e he; rw [hsp] at he; cases he
        | some e0 =>
          simp only
          refine blockAdd_disk env s sp _ n hD hI ho hn hash ht tx tr raw hwf (by omega)
            (fun k' hne => by simp only [AL.get_set, if_neg hne]) ?_ ?_ ⟨_, by rw [AL.get_set, if_pos rfl]⟩
          · intro hn0; rw [hsp] at hn0; cases hn0
          · intro e he e' he'
            rw [hsp] at he; simp only [Option.some.injEq] at he; subst he
            simp only [AL.get_set, ↓reduceIte, Option.some.injEq] at he'
            subst he'; exact ⟨rfl, rfl, rfl, rfl⟩
    · simp only [ho, hopn, Bool.not_false, ↓reduceIte]; exact up _ _ hD
  | get hash =>
    unfold step specStep
    simp only
    by_cases ho : s.isOpen = true
    · simp only [ho, hopn, Bool.not_true, Bool.false_eq_true, ↓reduceIte]
      exact up _ _ (blockGet_disk env s sp n hD hash)
    · simp only [ho, hopn, Bool.not_false, ↓reduceIte]; exact up _ _ hD
  | length hash d =>
    unfold step specStep
    simp only
    by_cases ho : s.isOpen = true
    · simp only [ho, hopn, Bool.not_true, Bool.false_eq_true, ↓reduceIte]
      exact up _ _ (blockLength_disk env s sp n hD hash d)
    · simp only [ho, hopn, Bool.not_false, ↓reduceIte]; exact up _ _ hD
  | trusted hash =>
    unfold step specStep
    simp only
    by_cases ho : s.isOpen = true
    · simp only [ho, hopn, Bool.not_true, Bool.false_eq_true, ↓reduceIte]
      cases hsp : AL.get sp.m (keyOf hash) with
      | none => simp only; exact up _ _ (blockTrusted_disk env s sp n hD hI hash)
      | some e0 =>
        simp only
        refine up _ _ (blockTrusted_disk env s _ n ?_ hI hash)
        refine disk_spec env s sp _ n hD (keyOf hash) (fun k' hne => by simp only [AL.get_set, if_neg hne]) ?_
          (fun _ _ => ⟨_, by rw [AL.get_set, if_pos rfl]⟩)
        intro e' he' hte
        simp only [AL.get_set, ↓reduceIte, Option.some.injEq] at he'
        subst he'; exact ⟨e0, hsp, hte, rfl, rfl, rfl⟩
    · simp only [ho, hopn, Bool.not_false, ↓reduceIte]; exact up _ _ hD
  | invalid hash =>
    unfold step specStep
    simp only
    by_cases ho : s.isOpen = true
    · simp only [ho, hopn, Bool.not_true, Bool.false_eq_true, ↓reduceIte]
      cases hsp : AL.get sp.m (keyOf hash) with
      | none =>
        simp only
        exact up _ _ (blockInvalid_disk env s sp n hD hI hash (fun e he => by rw [hsp] at he; cases he))
      | some e0 =>
        simp only
        by_cases hpn : panics s (keyOf hash) = true
        · simp only [hpn, ↓reduceIte]
          rw [blockInvalid_panics s hash hpn]; exact up _ _ hD
        simp only [hpn, Bool.false_eq_true, ↓reduceIte]
        have htaint : Disk env (blockInvalid s hash).1 { isOpen := true, m := AL.set sp.m (keyOf hash) { e0 with tainted := true } } n := by
          refine blockInvalid_disk env s _ n ?_ hI hash ?_
          · refine disk_spec env s sp _ n hD (keyOf hash) (fun k' hne => by simp only [AL.get_set, if_neg hne]) ?_
              (fun _ _ => ⟨_, by rw [AL.get_set, if_pos rfl]⟩)
            intro e' he' hte
            simp only [AL.get_set, ↓reduceIte, Option.some.injEq] at he'
            subst he'; cases hte
          · intro e he
            simp only [AL.get_set, ↓reduceIte, Option.some.injEq] at he
            subst he; rfl
        by_cases hf : forgets s (keyOf hash) = true
        · simp only [hf, ↓reduceIte]
          exact up _ _ (disk_spec_drop env _ _ _ n htaint (keyOf hash)
            (fun k' hne => by simp only [AL.get_set, AL.get_del, if_neg hne]) (by simp only [AL.get_del, ↓reduceIte])
            (blockInvalid_forgets s hash hf))
        · simp only [hf, Bool.false_eq_true, ↓reduceIte]
          exact up _ _ htaint
    · simp only [ho, hopn, Bool.not_false, ↓reduceIte]; exact up _ _ hD
  | idle =>
    unfold step specStep
    simp only
    by_cases ho : s.isOpen = true
    · simp only [ho, hopn, Bool.not_true, Bool.false_eq_true, ↓reduceIte]
      exact up _ _ (flush_disk env s sp n (by omega) hD hI ho)
    · simp only [ho, hopn, Bool.not_false, ↓reduceIte]; exact up _ _ hD
  | close =>
    unfold step specStep
    simp only
    by_cases ho : s.isOpen = true
    · simp only [ho, hopn, Bool.not_true, Bool.false_eq_true, ↓reduceIte]
      have f := flush_disk env s sp n (by omega) hD hI ho
      exact up _ _ (disk_spec env _ sp _ n (disk_same env _ _ sp n f rfl rfl rfl rfl rfl rfl) [] (fun _ _ => rfl)
        (fun e' he' hte => ⟨e', he', hte, rfl, rfl, rfl⟩) (fun e he => ⟨e, he⟩))
    · simp only [ho, hopn, Bool.not_false, ↓reduceIte]; exact up _ _ hD

theorem step_core (env : Env) (hadv : env.advInvalid = true) (s : State) (sp : Spec) (n : Nat) (h : Core env s sp n) (op : Op)
    (hwf : Op.wf env op) (hn : n + 1 < 2^31) : Core env (step env s op).1 (specStep s sp op) (n + 1) := by
  refine ⟨step_inv env hadv s op h.inv, step_live env s op h.live, step_disk env hadv s sp n h op hwf hn, ?_, ?_⟩
  · intro hc
    rw [step_isOpen env s op h.inv] at hc
    cases op with
    | reopen o => simp [openAfter] at hc
    | close =>
      unfold step
      simp only
      by_cases ho : s.isOpen = true
      · simp only [ho, Bool.not_true, Bool.false_eq_true, ↓reduceIte]
        exact (flush_all_written env s h.live).2
      · simp only [ho, Bool.not_false, ↓reduceIte]; exact h.closed (by simpa using ho)
    | add hash ht tx tr raw =>
      simp only [openAfter] at hc
      have : (step env s (.add hash ht tx tr raw)).1 = s := by unfold step; simp [hc]
      rw [this]; exact h.closed hc
    | get hash =>
      simp only [openAfter] at hc
      have : (step env s (.get hash)).1 = s := by unfold step; simp [hc]
      rw [this]; exact h.closed hc
    | length hash d =>
      simp only [openAfter] at hc
      have : (step env s (.length hash d)).1 = s := by unfold step; simp [hc]
      rw [this]; exact h.closed hc
    | trusted hash =>
      simp only [openAfter] at hc
      have : (step env s (.trusted hash)).1 = s := by unfold step; simp [hc]
      rw [this]; exact h.closed hc
    | invalid hash =>
      simp only [openAfter] at hc
      have : (step env s (.invalid hash)).1 = s := by unfold step; simp [hc]
      rw [this]; exact h.closed hc
    | idle =>
      simp only [openAfter] at hc
      have : (step env s .idle).1 = s := by unfold step; simp [hc]
      rw [this]; exact h.closed hc
  · rw [specStep_isOpen, step_isOpen env s op h.inv, h.opn]

theorem init_core (env : Env) : Core env init {} 0 := by
  refine ⟨init_inv, init_live, ?_, ?_, rfl⟩
  · refine ⟨?_, ?_, ?_, ?_, ?_, ?_, ?_, ?_, ?_, ?_, ?_, ?_, ?_⟩
    all_goals first
      | (intro k r p hh; simp [init, AL.get] at hh; done)
      | (intro k e r p he; simp [AL.get] at he; done)
      | (intro k r hh; simp [init, AL.get] at hh; done)
      | (intro k e he; simp [AL.get] at he; done)
      | (intro b hb; simp [init] at hb; done)
      | (simp [init]; done)
      | (intro p _ hp; simp [init] at hp; done)
  · intro _ k r hh; simp [init, AL.get] at hh

theorem init_ref (env : Env) : Ref env init {} := by
  refine ⟨rfl, (fun h => by cases h), ?_, ?_, ?_, ?_, ?_, ?_, ?_⟩
  · intro k r hr; simp [init, AL.get] at hr
  · intro k r hr; simp [init, AL.get] at hr
  · intro k c hc; simp [init, AL.get] at hc
  · intro k c e hc; simp [init, AL.get] at hc
  · intro b hb; simp [init] at hb
  · intro b hb; simp [init] at hb
  · intro k e he; simp [AL.get] at he


theorem run_core (env : Env) (hadv : env.advInvalid = true) : ∀ (ops : List Op) (s : State) (sp : Spec) (n : Nat),
    Core env s sp n → (∀ op ∈ ops, Op.wf env op) → n + ops.length < 2^31 →
    Core env (run env s ops).1 (specFinal env s sp ops) (n + ops.length) := by
  intro ops
  induction ops with
  | nil => intro s sp n h _ _; exact h
  | cons op ops ih =>
    intro s sp n h hwf hn
    simp only [List.length_cons] at hn
    have h1 := step_core env hadv s sp n h op (hwf op (by simp)) (by omega)
    have := ih _ _ (n + 1) h1 (fun op' hop' => hwf op' (by simp [hop'])) (by omega)
    unfold run specFinal
    simp only [List.length_cons]
    have e : n + (ops.length + 1) = n + 1 + ops.length := by omega
    rw [e]; exact this

/-! ### store_refines_map across close + reopen, every option combination -/

theorem wf_sizeOK (env : Env) (op : Op) (h : Op.wf env op) : op.sizeOK := by
  cases op <;> simp [Op.sizeOK]
  exact h.2.1

theorem step_ref2 (env : Env) (ok : EnvOK env) (hadv : env.advInvalid = true) (s : State) (sp : Spec) (n : Nat)
    (hR : Ref env s sp) (hC : Core env s sp n) (op : Op) (hwf : Op.wf env op) (hn : n + 1 < 2^31) :
    Ref env (step env s op).1 (specStep s sp op) ∧ (claimR s sp op).holds (step env s op).2 := by
  cases op with
  | reopen o =>
    have hcl : claimR s sp (.reopen o) = .nothing := rfl
    rw [hcl]
    refine ⟨?_, trivial⟩
    unfold step specStep
    simp only
    by_cases ho : s.isOpen = true
    · simp only [ho, hC.opn, ↓reduceIte]; exact hR
    · simp only [ho, hC.opn, Bool.false_eq_true, ↓reduceIte]
      have hc : s.isOpen = false := by simpa using ho
      exact reopen_ref env hadv s sp { sp with isOpen := true } n hR hC.disk hC.inv (by omega) (hC.closed hc) rfl rfl o
  | add hash ht tx tr raw => exact step_ref env ok s sp hR _ rfl (wf_sizeOK env _ hwf)
  | get hash => exact step_ref env ok s sp hR _ rfl trivial
  | length hash d => exact step_ref env ok s sp hR _ rfl trivial
  | trusted hash => exact step_ref env ok s sp hR _ rfl trivial
  | invalid hash => exact step_ref env ok s sp hR _ rfl trivial
  | idle => exact step_ref env ok s sp hR _ rfl trivial
  | close => exact step_ref env ok s sp hR _ rfl trivial

theorem run_ref2 (env : Env) (ok : EnvOK env) (hadv : env.advInvalid = true) : ∀ (ops : List Op) (s : State) (sp : Spec) (n : Nat),
    Ref env s sp → Core env s sp n → (∀ op ∈ ops, Op.wf env op) → n + ops.length < 2^31 →
    AllHold (specRunR env s sp ops) (run env s ops).2 := by
  intro ops
  induction ops with
  | nil => intro s sp n _ _ _ _; exact trivial
  | cons op ops ih =>
    intro s sp n hR hC hops hn
    simp only [List.length_cons] at hn
    have w1 := hops op (by simp)
    obtain ⟨h1, h2⟩ := step_ref2 env ok hadv s sp n hR hC op w1 (by omega)
    have hC1 := step_core env hadv s sp n hC op w1 (by omega)
    unfold run specRunR
    exact ⟨h2, ih _ _ (n + 1) h1 hC1 (fun op' hop' => hops op' (by simp [hop'])) (by omega)⟩

/-- every history from the empty directory, restarts included, every option combination: each reply satisfies the
    retention-aware claim -/
theorem restart_refinesR (env : Env) (ok : EnvOK env) (hadv : env.advInvalid = true) (ops : List Op)
    (hops : ∀ op ∈ ops, Op.wf env op) (hlen : ops.length < 2^31) :
    AllHold (specRunR env init {} ops) (run env init ops).2 :=
  run_ref2 env ok hadv ops init {} 0 (init_ref env) (init_core env) hops (by omega)

/-- the same with retention off in every session: the unconditional claim -/
theorem restart_refines (env : Env) (ok : EnvOK env) (hadv : env.advInvalid = true) (ops : List Op)
    (hops : ∀ op ∈ ops, Op.wf env op ∧ op.keep0) (hlen : ops.length < 2^31) :
    AllHold (specRun env init {} ops) (run env init ops).2 := by
  rw [← specRunR_eq_specRun env ops init {} init_noloss (fun op hop => (hops op hop).2)]
  exact restart_refinesR env ok hadv ops (fun op hop => (hops op hop).1) hlen

end GocoinV.BlockDB
