/-
  Proofs.C16Load — lemmas about LoadBlockIndex (`loadRecord`, `loadLoop`, `reopen`) and the index-file
  append invariant of the block store model.
-/
import GocoinV.Model.BlockDB
namespace GocoinV.BlockDB

/-! ### association lists -/
namespace AL
variable {κ : Type} [DecidableEq κ] {α : Type}

theorem get_set (l : List (κ × α)) (k k' : κ) (v : α) :
    get (set l k v) k' = if k = k' then some v else get l k' := by
  induction l with
  | nil => simp [set, get]
  | cons h t ih =>
    obtain ⟨a, b⟩ := h
    simp only [set]
    by_cases h1 : a = k
    · subst h1
      simp only [↓reduceIte, get]
      by_cases h2 : a = k' <;> simp [h2]
    · simp only [h1, ↓reduceIte, get, ih]
      by_cases h2 : a = k'
      · subst h2; simp [Ne.symm h1]
      · simp [h2]

theorem get_del (l : List (κ × α)) (k k' : κ) :
    get (del l k) k' = if k = k' then none else get l k' := by
  induction l with
  | nil => simp [del, get]
  | cons h t ih =>
    obtain ⟨a, b⟩ := h
    simp only [del]
    by_cases h1 : a = k
    · subst h1
      simp only [↓reduceIte, ih, get]
      by_cases h2 : a = k' <;> simp [h2]
    · simp only [h1, ↓reduceIte, get, ih]
      by_cases h2 : a = k'
      · subst h2; simp [Ne.symm h1]
      · simp [h2]

end AL

/-! ### pwrite -/

theorem pwrite_length_inside (f : Bytes) (p : Nat) (x : UInt8) (h : p < f.length) :
    (pwrite f p [x]).length = f.length := by
  simp [pwrite]; omega

theorem pwrite_at_end (f d : Bytes) : pwrite f f.length d = f ++ d := by
  simp [pwrite]

theorem mkRecord_length (fl di ol he fp bl tx : Nat) (hdr : Bytes) (h : hdr.length ≥ 80) :
    (mkRecord fl di ol he fp bl tx hdr).length = 136 := by
  simp [mkRecord]; omega

@[simp] theorem recsize_eq : RECSIZE = 136 := by decide

/-! ### LoadBlockIndex -/

/-- the invalid-record branch touches the two data-file accumulators only, and never lowers the file number -/
theorem bumpInvalid_fields (a : LoadAcc) (fl : Nat) (b : Bytes) :
    (bumpInvalid a fl b).index = a.index ∧ (bumpInvalid a fl b).maxidxfilepos = a.maxidxfilepos ∧
    (bumpInvalid a fl b).walk = a.walk ∧ a.maxdatfileidx ≤ (bumpInvalid a fl b).maxdatfileidx ∧
    ((bumpInvalid a fl b).maxdatfileidx = a.maxdatfileidx → (bumpInvalid a fl b).maxdatfilepos = a.maxdatfilepos) ∧
    (bumpInvalid a fl b).maxdatfilepos ≤ a.maxdatfilepos ∧
    (bumpInvalid a fl b).maxdatfileidx ≤ max a.maxdatfileidx (field b 28 32) := by
  unfold bumpInvalid
  simp only
  have hd : (if hasFlag fl BLOCK_INDEX = true then field b 28 32 else 0) ≤ field b 28 32 := by split <;> omega
  generalize (if hasFlag fl BLOCK_INDEX = true then field b 28 32 else 0) = d at hd
  by_cases hc : Gen.BlockDBFacts.invalidCountsFile = true ∧ d ≠ 0xffffffff ∧ d > a.maxdatfileidx
  · rw [if_pos hc]
    refine ⟨rfl, rfl, rfl, by simp only; omega, ?_, Nat.zero_le _, by simp only; omega⟩
    intro e; simp only at e; omega
  · rw [if_neg hc]
    exact ⟨rfl, rfl, rfl, Nat.le_refl _, fun _ => rfl, Nat.le_refl _, by omega⟩

/-- with the fix, every record — valid or invalid-flagged — advances the index position by one record -/
theorem loadRecord_maxidx (env : Env) (h : env.advInvalid = true) (a : LoadAcc) (b : Bytes) :
    (loadRecord env a b).maxidxfilepos = a.maxidxfilepos + 136 := by
  unfold loadRecord
  simp only [h, recsize_eq]
  split
  · simp only [↓reduceIte, (bumpInvalid_fields a _ b).2.1]
  · simp

/-- every index entry produced by one record has an ipos below the new position -/
theorem loadRecord_ipos (env : Env) (h : env.advInvalid = true) (a : LoadAcc) (b : Bytes)
    (ha : ∀ k r p, AL.get a.index k = some r → r.ipos = some p → p + 136 ≤ a.maxidxfilepos ∧ p % 136 = 0)
    (hm : a.maxidxfilepos % 136 = 0) :
    ∀ k r p, AL.get (loadRecord env a b).index k = some r → r.ipos = some p →
      p + 136 ≤ (loadRecord env a b).maxidxfilepos ∧ p % 136 = 0 := by
  intro k r p
  rw [loadRecord_maxidx env h]
  unfold loadRecord
  simp only [h, recsize_eq]
  split
  · simp only [↓reduceIte, (bumpInvalid_fields a _ b).1]
    intro h1 h2
    have := ha k r p h1 h2
    omega
  · simp only [AL.get_set]
    split
    · intro h1 h2
      simp only [Option.some.injEq] at h1
      subst h1
      simp only [Option.some.injEq] at h2
      omega
    · intro h1 h2
      have := ha k r p h1 h2
      omega

theorem loadLoop_inv (env : Env) (h : env.advInvalid = true) :
    ∀ (fuel : Nat) (file : Bytes) (a : LoadAcc), fuel * 136 > file.length →
      (∀ k r p, AL.get a.index k = some r → r.ipos = some p → p + 136 ≤ a.maxidxfilepos ∧ p % 136 = 0) →
      a.maxidxfilepos % 136 = 0 →
      (loadLoop env fuel file a).maxidxfilepos = a.maxidxfilepos + 136 * (file.length / 136) ∧
      (∀ k r p, AL.get (loadLoop env fuel file a).index k = some r → r.ipos = some p →
         p + 136 ≤ (loadLoop env fuel file a).maxidxfilepos ∧ p % 136 = 0) := by
  intro fuel
  induction fuel with
  | zero => intro file a hf; omega
  | succ f ih =>
    intro file a hf ha hm
    unfold loadLoop
    simp only [recsize_eq]
    by_cases hl : file.length < 136
    · simp only [hl, ↓reduceIte]
      have : file.length / 136 = 0 := Nat.div_eq_of_lt hl
      simp [this]
      exact ha
    · simp only [hl, ↓reduceIte]
      have hl' : 136 ≤ file.length := Nat.le_of_not_lt hl
      have hlen : (file.drop 136).length = file.length - 136 := by simp
      have hfu : f * 136 > (file.drop 136).length := by rw [hlen]; omega
      have hm' : (loadRecord env a (file.take 136)).maxidxfilepos % 136 = 0 := by
        rw [loadRecord_maxidx env h]; omega
      obtain ⟨e1, e2⟩ := ih (file.drop 136) (loadRecord env a (file.take 136)) hfu
        (loadRecord_ipos env h a _ ha hm) hm'
      refine ⟨?_, e2⟩
      rw [e1, loadRecord_maxidx env h, hlen]
      have : file.length / 136 = (file.length - 136) / 136 + 1 := by omega
      rw [this]; omega

end GocoinV.BlockDB
