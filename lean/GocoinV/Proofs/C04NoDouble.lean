/-
  Proofs.C04NoDouble — invariant of commitTxs: every outpoint spent so far in the block is marked (in DeledTxs, or
  as a nil slot of blUnsp), a marked outpoint is refused, marks are never removed.
-/
import GocoinV.Proofs.C04Basic
namespace GocoinV.Proofs.C04
open GocoinV GocoinV.Connect

/-- `op` has been spent earlier in this block, as commitTxs remembers it -/
def marked (cfg : Cfg) (db : DB) (s : St) (op : OutPoint) : Prop :=
  (∃ m, aGet s.deled op.hash = some m ∧ m.getD op.vout false = true) ∨
  (unspentGet cfg db op = none ∧
    ∃ cb t, aGet s.blUnsp op.hash = some (cb, t) ∧ op.vout < t.length ∧ t.getD op.vout none = none)

theorem getD_set_true (m : List Bool) (v w : Nat) (h : m.getD w false = true) : (m.set v true).getD w false = true := by
  simp only [List.getD_eq_getElem?_getD, List.getElem?_set] at *
  split
  · split <;> simp_all
  · exact h

theorem getD_set_self (m : List Bool) (v : Nat) (h : v < m.length) : (m.set v true).getD v false = true := by
  simp [List.getD_eq_getElem?_getD, h]

theorem getD_set_none {α : Type} (t : List (Option α)) (v w : Nat) (h : t.getD w none = none) :
    (t.set v none).getD w none = none := by
  simp only [List.getD_eq_getElem?_getD, List.getElem?_set] at *
  split
  · split <;> simp_all
  · exact h

theorem getD_set_none_self {α : Type} (t : List (Option α)) (v : Nat) : (t.set v none).getD v none = none := by
  simp only [List.getD_eq_getElem?_getD, List.getElem?_set]
  split
  · split <;> rfl
  · rename_i h; exact absurd trivial h

theorem unspentGet_vout_lt (cfg : Cfg) (db : DB) (op : OutPoint) (tout : Found)
    (hu : unspentGet cfg db op = some tout) : op.vout < tout.voutCount := by
  unfold unspentGet at hu
  split at hu
  · simp at hu
  · split at hu
    · simp at hu
    · rename_i r _ _
      rw [List.getD_eq_getElem?_getD] at hu
      cases hg : r.outs[op.vout]? with
      | none => simp [hg] at hu
      | some o =>
        have hl : op.vout < r.outs.length := (List.getElem?_eq_some_iff.mp hg).1
        cases o with
        | none => simp [hg] at hu
        | some x =>
          simp only [hg, Option.getD_some, Option.some.injEq] at hu
          subst hu
          exact hl

/-- a marked outpoint is refused -/
theorem resolve_marked (cfg : Cfg) (db : DB) (b : Block) (inp : TxIn) (s : St)
    (hm : marked cfg db s inp.prev) : ∃ e, resolve cfg db b inp s = .error e := by
  unfold resolve
  rcases hm with ⟨m, h1, h2⟩ | ⟨hu, cb, t, h1, h2, h3⟩
  · -- DeledTxs has the mark: earlyCheck fires
    have : earlyCheck (aGet s.deled inp.prev.hash) inp.prev.vout ≠ none := by
      rw [h1]; unfold earlyCheck
      by_cases hv : inp.prev.vout ≥ m.length
      · simp [hv]
      · rw [List.getD_eq_getElem?_getD] at h2
        simp [hv, h2]
    cases he : earlyCheck (aGet s.deled inp.prev.hash) inp.prev.vout with
    | none => exact absurd he this
    | some e => exact ⟨e, rfl⟩
  · cases he : earlyCheck (aGet s.deled inp.prev.hash) inp.prev.vout with
    | some e => exact ⟨e, rfl⟩
    | none =>
      simp only [hu]
      unfold fromBlock
      simp only [h1]
      have : ¬ inp.prev.vout ≥ t.length := by omega
      rw [List.getD_eq_getElem?_getD] at h3
      simp only [this, ↓reduceIte, List.getD_eq_getElem?_getD, h3]
      exact ⟨_, rfl⟩

/-- a successful lookup marks its outpoint, keeps all marks, and keeps the key set of blUnsp -/
theorem resolve_marks (cfg : Cfg) (db : DB) (b : Block) (inp : TxIn) (s s1 : St) (v : Nat) (pk : Bytes)
    (h : resolve cfg db b inp s = .ok (s1, v, pk)) :
    marked cfg db s1 inp.prev ∧ (∀ op, marked cfg db s op → marked cfg db s1 op)
    ∧ (∀ k, aGet s1.blUnsp k ≠ none → aGet s.blUnsp k ≠ none) := by
  unfold resolve at h
  cases he : earlyCheck (aGet s.deled inp.prev.hash) inp.prev.vout with
  | some e => simp [he] at h
  | none =>
    simp only [he] at h
    cases hu : unspentGet cfg db inp.prev with
    | none =>
      simp only [hu] at h
      unfold fromBlock at h
      cases hb : aGet s.blUnsp inp.prev.hash with
      | none => simp [hb] at h
      | some ct =>
        obtain ⟨cb, t⟩ := ct
        simp only [hb] at h
        by_cases hv : inp.prev.vout ≥ t.length
        · simp [hv] at h
        · simp only [hv, ↓reduceIte, List.getD_eq_getElem?_getD] at h
          cases ho : t[inp.prev.vout]?.getD none with
          | none => simp [ho] at h
          | some o =>
            simp only [ho] at h
            cases cb with
            | true => simp at h
            | false =>
              simp only [Bool.false_eq_true, ↓reduceIte, Except.ok.injEq, Prod.mk.injEq] at h
              obtain ⟨h1, _, _⟩ := h
              subst h1
              refine ⟨?_, ?_, ?_⟩
              · right
                refine ⟨hu, false, t.set inp.prev.vout none, by simp [aGet_aSet], by simp; omega, getD_set_none_self t _⟩
              · intro op hm
                rcases hm with ⟨m, h1, h2⟩ | ⟨hu', cb', t', h1, h2, h3⟩
                · left; exact ⟨m, h1, h2⟩
                · right
                  refine ⟨hu', ?_⟩
                  by_cases hk : inp.prev.hash = op.hash
                  · rw [← hk, hb] at h1
                    simp only [Option.some.injEq, Prod.mk.injEq] at h1
                    obtain ⟨hc, ht⟩ := h1
                    subst hc; subst ht
                    exact ⟨false, t.set inp.prev.vout none, by simp [aGet_aSet, hk], by simpa using h2,
                      getD_set_none t _ _ h3⟩
                  · exact ⟨cb', t', by simp [aGet_aSet, hk, h1], h2, h3⟩
              · intro k hk
                simp only [aGet_aSet] at hk
                by_cases hkk : inp.prev.hash = k
                · subst hkk; simp [hb]
                · simpa [hkk] using hk
    | some tout =>
      simp only [hu] at h
      unfold fromDb at h
      split at h
      · simp at h
      · simp only [Except.ok.injEq, Prod.mk.injEq] at h
        obtain ⟨h1, _, _⟩ := h
        subst h1
        -- the vout is inside the map that gets the mark
        have hlen : ∀ m, aGet s.deled inp.prev.hash = some m → inp.prev.vout < m.length := by
          intro m hm
          rw [hm] at he
          unfold earlyCheck at he
          by_cases hv : inp.prev.vout ≥ m.length
          · simp [hv] at he
          · omega
        have hvc : inp.prev.vout < tout.voutCount := unspentGet_vout_lt cfg db inp.prev tout hu
        refine ⟨?_, ?_, ?_⟩
        · left
          cases hd : aGet s.deled inp.prev.hash with
          | none =>
            exact ⟨(List.replicate tout.voutCount false).set inp.prev.vout true, by simp [aGet_aSet],
              getD_set_self _ _ (by simpa using hvc)⟩
          | some m =>
            exact ⟨m.set inp.prev.vout true, by simp [aGet_aSet], getD_set_self _ _ (hlen m hd)⟩
        · intro op hm
          rcases hm with ⟨m, h1, h2⟩ | hm
          · left
            by_cases hk : inp.prev.hash = op.hash
            · have h1' : aGet s.deled op.hash = some m := hk ▸ h1
              exact ⟨m.set inp.prev.vout true, by simp [aGet_aSet, hk, h1'], getD_set_true m _ _ h2⟩
            · exact ⟨m, by simp [aGet_aSet, hk, h1], h2⟩
          · right; exact hm
        · intro k hk; exact hk

theorem marked_congr (cfg : Cfg) (db : DB) (s s' : St) (hd : s'.deled = s.deled) (hb : s'.blUnsp = s.blUnsp)
    (op : OutPoint) : marked cfg db s' op ↔ marked cfg db s op := by
  unfold marked; rw [hd, hb]

theorem procInput_marks (cfg : Cfg) (db : DB) (b : Block) (inp : TxIn) (s s' : St) (a a' : Nat)
    (h : procInput cfg db b inp s a = .ok (s', a')) :
    ¬ marked cfg db s inp.prev ∧ marked cfg db s' inp.prev ∧ (∀ op, marked cfg db s op → marked cfg db s' op)
    ∧ (∀ k, aGet s'.blUnsp k ≠ none → aGet s.blUnsp k ≠ none) := by
  unfold procInput at h
  cases hr : resolve cfg db b inp s with
  | error e => simp [hr] at h
  | ok r =>
    obtain ⟨s1, v, pk⟩ := r
    simp only [hr] at h
    split at h
    · simp at h
    · simp only [Except.ok.injEq, Prod.mk.injEq] at h
      obtain ⟨h1, _⟩ := h
      obtain ⟨m1, m2, m3⟩ := resolve_marks cfg db b inp s s1 v pk hr
      have hc : ∀ op, marked cfg db s' op ↔ marked cfg db s1 op := by
        intro op; subst h1; exact marked_congr cfg db s1 _ rfl rfl op
      refine ⟨?_, (hc _).mpr m1, fun op hm => (hc op).mpr (m2 op hm), ?_⟩
      · intro hm
        obtain ⟨e, he⟩ := resolve_marked cfg db b inp s hm
        rw [he] at hr; cases hr
      · intro k hk; subst h1; exact m3 k hk

theorem procInputs_marks (cfg : Cfg) (db : DB) (b : Block) (ins : List TxIn) (s s' : St) (a a' : Nat)
    (L : List OutPoint) (hn : L.Nodup) (hL : ∀ op ∈ L, marked cfg db s op)
    (h : procInputs cfg db b ins s a = .ok (s', a')) :
    (L ++ ins.map (·.prev)).Nodup ∧ (∀ op ∈ L ++ ins.map (·.prev), marked cfg db s' op)
    ∧ (∀ k, aGet s'.blUnsp k ≠ none → aGet s.blUnsp k ≠ none) := by
  induction ins generalizing s a L with
  | nil =>
    simp only [procInputs, Except.ok.injEq, Prod.mk.injEq] at h
    obtain ⟨h1, _⟩ := h
    subst h1
    simpa using ⟨hn, hL⟩
  | cons i r ih =>
    unfold procInputs at h
    cases hp : procInput cfg db b i s a with
    | error e => simp [hp] at h
    | ok q =>
      obtain ⟨s1, a1⟩ := q
      simp only [hp] at h
      obtain ⟨n1, n2, n3, n4⟩ := procInput_marks cfg db b i s s1 a a1 hp
      have hnotin : i.prev ∉ L := fun hin => n1 (hL _ hin)
      have hn' : (L ++ [i.prev]).Nodup := by
        rw [List.nodup_append]
        refine ⟨hn, by simp, ?_⟩
        intro x hx y hy
        simp only [List.mem_singleton] at hy
        subst hy
        intro hxy; subst hxy; exact hnotin hx
      have hL' : ∀ op ∈ L ++ [i.prev], marked cfg db s1 op := by
        intro op hop
        simp only [List.mem_append, List.mem_singleton] at hop
        rcases hop with hop | hop
        · exact n3 op (hL op hop)
        · subst hop; exact n2
      obtain ⟨g1, g2, g3⟩ := ih s1 a1 (L ++ [i.prev]) hn' hL' h
      simp only [List.map_cons]
      rw [show L ++ i.prev :: List.map (·.prev) r = (L ++ [i.prev]) ++ List.map (·.prev) r by simp]
      exact ⟨g1, g2, fun k hk => n4 k (g3 k hk)⟩

theorem settle_maps (cfg : Cfg) (isCb : Bool) (s1 s2 : St) (a o : Nat) (h : settle cfg isCb s1 a o = .ok s2) :
    s2.deled = s1.deled ∧ s2.blUnsp = s1.blUnsp := by
  unfold settle at h
  repeat' split at h
  all_goals first
    | (simp at h; done)
    | (simp only [Except.ok.injEq] at h; subst h; simp; done)
    | (simp only [] at h
       split at h
       · simp at h
       · simp only [Except.ok.injEq] at h; subst h; simp)

/-- outpoints named by the inputs of a list of (non-coinbase) transactions, in block order -/
def spentOps (txs : List Tx) : List OutPoint := txs.flatMap fun t => t.ins.map (·.prev)

theorem procTx_marks (cfg : Cfg) (db : DB) (b : Block) (tx : Tx) (s s' : St)
    (L : List OutPoint) (hn : L.Nodup) (hL : ∀ op ∈ L, marked cfg db s op)
    (hfresh : aGet s.blUnsp tx.txid = none)
    (h : procTx cfg db b false tx s = .ok s') :
    (L ++ tx.ins.map (·.prev)).Nodup ∧ (∀ op ∈ L ++ tx.ins.map (·.prev), marked cfg db s' op)
    ∧ (∀ k, aGet s'.blUnsp k ≠ none → k = tx.txid ∨ aGet s.blUnsp k ≠ none) := by
  unfold procTx at h
  cases h1 : txInputs cfg db b false tx s with
  | error e => simp [h1] at h
  | ok q =>
    obtain ⟨s1, a⟩ := q
    simp only [h1] at h
    cases h2 : settle cfg false s1 a (sumOuts tx.outs) with
    | error e => simp [h2] at h
    | ok s2 =>
      simp only [h2, Except.ok.injEq] at h
      obtain ⟨d2, b2⟩ := settle_maps cfg false s1 s2 a _ h2
      unfold txInputs at h1
      simp only [Bool.false_eq_true, ↓reduceIte] at h1
      split at h1
      · simp at h1
      · rename_i sp a0 hp
        simp only [Except.ok.injEq, Prod.mk.injEq] at h1
        obtain ⟨e1, _⟩ := h1
        have hL0 : ∀ op ∈ L, marked cfg db { s with sigops := u32 (s.sigops + u32 (WITNESS_SCALE_FACTOR * legacySigOps tx)) } op :=
          fun op hop => (marked_congr cfg db s _ rfl rfl op).mpr (hL op hop)
        obtain ⟨g1, g2, g3⟩ := procInputs_marks cfg db b tx.ins _ sp 0 a0 L hn hL0 hp
        have hd1 : s1.deled = sp.deled := by subst e1; rfl
        have hb1 : s1.blUnsp = sp.blUnsp := by subst e1; rfl
        -- the txid is still absent from blUnsp
        have hfr : aGet s2.blUnsp tx.txid = none := by
          rw [b2, hb1]
          cases hc : aGet sp.blUnsp tx.txid with
          | none => rfl
          | some x => exact absurd hfresh (g3 tx.txid (by simp [hc]))
        refine ⟨g1, ?_, ?_⟩
        · intro op hop
          have hm : marked cfg db s2 op :=
            (marked_congr cfg db sp s2 (by rw [d2, hd1]) (by rw [b2, hb1]) op).mpr (g2 op hop)
          subst h
          rcases hm with ⟨m, q1, q2⟩ | ⟨hu, cb, t, q1, q2, q3⟩
          · left; exact ⟨m, q1, q2⟩
          · right
            refine ⟨hu, cb, t, ?_, q2, q3⟩
            have hne : tx.txid ≠ op.hash := by
              intro hc; rw [← hc, hfr] at q1; cases q1
            simp [aGet_aSet, hne, q1]
        · intro k hk
          subst h
          simp only [aGet_aSet] at hk
          by_cases hkk : tx.txid = k
          · left; exact hkk.symm
          · right
            simp only [hkk, ↓reduceIte] at hk
            rw [b2, hb1] at hk
            exact g3 k hk

theorem procTxs_marks (cfg : Cfg) (db : DB) (b : Block) (txs : List Tx) (s s' : St)
    (L : List OutPoint) (hn : L.Nodup) (hL : ∀ op ∈ L, marked cfg db s op)
    (hids : (txs.map (·.txid)).Nodup) (hfresh : ∀ tx ∈ txs, aGet s.blUnsp tx.txid = none)
    (h : procTxs cfg db b false txs s = .ok s') :
    (L ++ spentOps txs).Nodup := by
  induction txs generalizing s L with
  | nil => simpa [spentOps] using hn
  | cons tx r ih =>
    unfold procTxs at h
    cases hp : procTx cfg db b false tx s with
    | error e => simp [hp] at h
    | ok s1 =>
      simp only [hp] at h
      obtain ⟨g1, g2, g3⟩ := procTx_marks cfg db b tx s s1 L hn hL (hfresh tx (by simp)) hp
      simp only [List.map_cons, List.nodup_cons] at hids
      have hfresh' : ∀ t ∈ r, aGet s1.blUnsp t.txid = none := by
        intro t ht
        cases hc : aGet s1.blUnsp t.txid with
        | none => rfl
        | some x =>
          rcases g3 t.txid (by simp [hc]) with hk | hk
          · exact absurd (List.mem_map.mpr ⟨t, ht, hk⟩) hids.1
          · exact absurd (hfresh t (by simp [ht])) hk
      have := ih s1 (L ++ tx.ins.map (·.prev)) g1 g2 hids.2 hfresh' h
      simpa [spentOps, List.append_assoc] using this

theorem procTx_cb_keys (cfg : Cfg) (db : DB) (b : Block) (tx : Tx) (s s' : St)
    (h : procTx cfg db b true tx s = .ok s') :
    ∀ k, aGet s'.blUnsp k ≠ none → k = tx.txid ∨ aGet s.blUnsp k ≠ none := by
  unfold procTx at h
  cases h1 : txInputs cfg db b true tx s with
  | error e => simp [h1] at h
  | ok q =>
    obtain ⟨s1, a⟩ := q
    simp only [h1] at h
    cases h2 : settle cfg true s1 a (sumOuts tx.outs) with
    | error e => simp [h2] at h
    | ok s2 =>
      simp only [h2, Except.ok.injEq] at h
      obtain ⟨_, b2⟩ := settle_maps cfg true s1 s2 a _ h2
      unfold txInputs at h1
      simp only [↓reduceIte] at h1
      split at h1
      · simp at h1
      · simp only [Except.ok.injEq, Prod.mk.injEq] at h1
        obtain ⟨e1, _⟩ := h1
        intro k hk
        subst h
        simp only [aGet_aSet] at hk
        by_cases hkk : tx.txid = k
        · left; exact hkk.symm
        · right
          simp only [hkk, ↓reduceIte] at hk
          rw [b2] at hk
          subst e1
          exact hk

theorem commitTxs_nodup (cfg : Cfg) (db : DB) (b : Block) (s : St)
    (hids : (b.txs.map (·.txid)).Nodup) (h : commitTxs cfg db b = .ok s) :
    (spentOps b.txs.tail).Nodup := by
  unfold commitTxs at h
  cases hp : procTxs cfg db b true b.txs (St.init b) with
  | error e => simp [hp] at h
  | ok s0 =>
    cases ht : b.txs with
    | nil => simp [spentOps]
    | cons cb rest =>
      rw [ht] at hp hids
      unfold procTxs at hp
      cases h1 : procTx cfg db b true cb (St.init b) with
      | error e => simp [h1] at hp
      | ok s1 =>
        simp only [h1] at hp
        have hk := procTx_cb_keys cfg db b cb (St.init b) s1 h1
        simp only [List.map_cons, List.nodup_cons] at hids
        have hfresh : ∀ t ∈ rest, aGet s1.blUnsp t.txid = none := by
          intro t ht'
          cases hc : aGet s1.blUnsp t.txid with
          | none => rfl
          | some x =>
            rcases hk t.txid (by simp [hc]) with hk' | hk'
            · exact absurd (List.mem_map.mpr ⟨t, ht', hk'⟩) hids.1
            · simp [St.init, aGet] at hk'
        have := procTxs_marks cfg db b rest s1 s0 [] List.nodup_nil (by simp) hids.2 hfresh hp
        simpa using this

end GocoinV.Proofs.C04
