/-
  Proofs.C06Delete — DeleteBranch of the chain model in a well-formed tree: `subtree` (fuel #nodes+1) is exactly the set
  of descendants of the deleted block, the result is again well-formed, strictly smaller, and keeps every other node
  (parent, height, bits) and every other stored block.
-/
import GocoinV.Proofs.C06Wf
namespace GocoinV.ChainTree
open GocoinV.UtxoOps

-- ------------------------------------------------------------------------------------------ subtree = descendants

theorem self_mem_subtree (c : Chain) (f a : Nat) : a ∈ subtree c f a := by
  cases f with
  | zero => simp [subtree]
  | succ f => unfold subtree; split <;> simp

theorem subtree_desc {U : List Block} {c : Chain} (w : TreeWF U c) :
    ∀ (f a x : Nat), x ∈ subtree c f a → Desc c a x := by
  intro f
  induction f with
  | zero =>
    intro a x h
    simp only [subtree, List.mem_singleton] at h
    subst h; exact Desc.refl
  | succ f ih =>
    intro a x h
    unfold subtree at h
    split at h
    · simp only [List.mem_singleton] at h
      subst h; exact Desc.refl
    · rename_i na hna
      rcases List.mem_cons.mp h with h | h
      · subst h; exact Desc.refl
      · obtain ⟨ch, hch, hx⟩ := List.mem_flatMap.mp h
        obtain ⟨hcr, m, hm, hmp⟩ := w.childs a na hna ch hch
        have h1 : Desc c a ch := hmp ▸ Desc.parent hm hcr
        exact h1.trans (ih ch x hx)

theorem desc_subtree {U : List Block} {c : Chain} (w : TreeWF U c) (H : Nat)
    (hH : ∀ y m, getNode c y = some m → m.height < H) :
    ∀ (f a : Nat) (na : Node) (x : Nat), getNode c a = some na → na.height + f ≥ H → Desc c a x →
      x ∈ subtree c f a := by
  intro f
  induction f with
  | zero =>
    intro a na x hna hf _
    have := hH a na hna
    omega
  | succ f ih =>
    intro a na x hna hf hd
    unfold subtree
    rw [hna]
    simp only
    by_cases hax : a = x
    · subst hax; exact List.mem_cons_self
    · obtain ⟨ch, m, hm, hmp, hcr, hdd⟩ := hd.child_split hax
      obtain ⟨p, hp, hh, hmem⟩ := w.par ch m hm hcr
      rw [hmp, hna] at hp; cases hp
      exact List.mem_cons_of_mem _ (List.mem_flatMap.mpr ⟨ch, hmem, ih ch m x hm (by omega) hdd⟩)

/-- **`subtree` with fuel #nodes+1 is the set of descendants** -/
theorem mem_subtree_iff {U : List Block} {c : Chain} (w : TreeWF U c) {a : Nat} {na : Node}
    (hna : getNode c a = some na) (x : Nat) :
    x ∈ subtree c (c.nodes.length + 1) a ↔ Desc c a x :=
  ⟨subtree_desc w _ a x,
   desc_subtree w c.nodes.length (fun _ _ h => height_lt_length w h) _ a na x hna (by omega)⟩

/-- the filter of DeleteBranch: ids outside the subtree below `a` -/
def aliveB (c : Chain) (a : Nat) (x : Nat) : Bool := !(subtree c (c.nodes.length + 1) a).contains x

theorem dead_iff {U : List Block} {c : Chain} (w : TreeWF U c) {a : Nat} {na : Node}
    (hna : getNode c a = some na) (x : Nat) :
    aliveB c a x = true ↔ ¬ Desc c a x := by
  rw [← mem_subtree_iff w hna x]
  simp [aliveB]

-- ------------------------------------------------------------------------------------------ deleteBranch as a function

/-- what DeleteBranch does to the parent of the deleted node -/
def delChild (nx : Nat) (p : Node) : Node := { p with childs := p.childs.filter (· != nx) }

theorem deleteBranch_root {c : Chain} {nx : Nat} {nxt : Node} (hn : getNode c nx = some nxt) :
    (deleteBranch c nx).root = c.root := by
  unfold deleteBranch; rw [hn]; rfl

theorem deleteBranch_nodes {c : Chain} {nx : Nat} {nxt : Node} (hn : getNode c nx = some nxt) :
    (deleteBranch c nx).nodes = (modNode c nxt.parent (delChild nx)).nodes.filter
      (fun m => aliveB c nx m.id) := by
  unfold deleteBranch; rw [hn]; rfl

theorem deleteBranch_store {c : Chain} {nx : Nat} {nxt : Node} (hn : getNode c nx = some nxt) :
    (deleteBranch c nx).store = c.store.filter
      (fun s => aliveB c nx s.1) := by
  unfold deleteBranch; rw [hn]; rfl

theorem getNode_deleteBranch_aux {c : Chain} {nx : Nat} {nxt : Node} (hn : getNode c nx = some nxt) (x : Nat) :
    getNode (deleteBranch c nx) x =
      if aliveB c nx x = true then
        (getNode c x).map (fun n => if n.id == nxt.parent then delChild nx n else n) else none := by
  have h1 := getNode_nodes (c' := deleteBranch c nx)
    (c := { modNode c nxt.parent (delChild nx) with
      nodes := (modNode c nxt.parent (delChild nx)).nodes.filter
        (fun m => aliveB c nx m.id) })
    (deleteBranch_nodes hn) x
  rw [h1, getNode_filter_eq _ (aliveB c nx) x, getNode_modNode_eq c nxt.parent x (delChild nx) (fun _ => rfl)]

theorem getNode_deleteBranch_alive {U : List Block} {c : Chain} (w : TreeWF U c) {nx : Nat} {nxt : Node}
    (hn : getNode c nx = some nxt) (x : Nat) (ha : ¬ Desc c nx x) :
    getNode (deleteBranch c nx) x = (getNode c x).map (fun n => if n.id == nxt.parent then delChild nx n else n) := by
  rw [getNode_deleteBranch_aux hn, if_pos ((dead_iff w hn x).mpr ha)]

theorem getNode_deleteBranch_dead {U : List Block} {c : Chain} (w : TreeWF U c) {nx : Nat} {nxt : Node}
    (hn : getNode c nx = some nxt) (x : Nat) (hd : Desc c nx x) : getNode (deleteBranch c nx) x = none := by
  rw [getNode_deleteBranch_aux hn, if_neg (fun h => (dead_iff w hn x).mp h hd)]

theorem store_deleteBranch_alive {U : List Block} {c : Chain} (w : TreeWF U c) {nx : Nat} {nxt : Node}
    (hn : getNode c nx = some nxt) (k : Nat) (ha : ¬ Desc c nx k) :
    alookup k (deleteBranch c nx).store = alookup k c.store := by
  rw [deleteBranch_store hn, alookup_filter_eq (aliveB c nx) k c.store, if_pos ((dead_iff w hn k).mpr ha)]

theorem store_deleteBranch_dead {U : List Block} {c : Chain} (w : TreeWF U c) {nx : Nat} {nxt : Node}
    (hn : getNode c nx = some nxt) (k : Nat) (hd : Desc c nx k) :
    alookup k (deleteBranch c nx).store = none := by
  rw [deleteBranch_store hn, alookup_filter_eq (aliveB c nx) k c.store, if_neg (fun h => (dead_iff w hn k).mp h hd)]

/-- a node that is not below `nx` survives with the same parent, height, bits, txCount, and its children except `nx` -/
theorem deleteBranch_old {U : List Block} {c : Chain} (w : TreeWF U c) {nx : Nat} {nxt : Node}
    (hn : getNode c nx = some nxt) (x : Nat) (n : Node) (h : getNode c x = some n) (ha : ¬ Desc c nx x) :
    ∃ n', getNode (deleteBranch c nx) x = some n' ∧ n'.parent = n.parent ∧ n'.height = n.height ∧
      n'.bits = n.bits ∧ n'.txCount = n.txCount ∧ (∀ z, z ∈ n.childs → z ≠ nx → z ∈ n'.childs) := by
  rw [getNode_deleteBranch_alive w hn x ha, h]
  simp only [Option.map_some]
  by_cases hp : (n.id == nxt.parent) = true
  · rw [if_pos hp]
    refine ⟨_, rfl, rfl, rfl, rfl, rfl, fun z hz hne => ?_⟩
    simp only [delChild, List.mem_filter]
    exact ⟨hz, by simpa using hne⟩
  · rw [if_neg hp]
    exact ⟨n, rfl, rfl, rfl, rfl, rfl, fun z hz _ => hz⟩

/-- every node of the result is a node of `c` not below `nx`; the parent of `nx` no longer lists it -/
theorem deleteBranch_back {U : List Block} {c : Chain} (w : TreeWF U c) {nx : Nat} {nxt : Node}
    (hn : getNode c nx = some nxt) (x : Nat) (n' : Node) (h : getNode (deleteBranch c nx) x = some n') :
    ¬ Desc c nx x ∧ ∃ n, getNode c x = some n ∧ n'.parent = n.parent ∧ n'.height = n.height ∧
      n'.bits = n.bits ∧ n'.txCount = n.txCount ∧ (∀ z, z ∈ n'.childs → z ∈ n.childs) ∧
      (x = nxt.parent → nx ∉ n'.childs) := by
  by_cases ha : Desc c nx x
  · rw [getNode_deleteBranch_dead w hn x ha] at h; cases h
  · rw [getNode_deleteBranch_alive w hn x ha] at h
    refine ⟨ha, ?_⟩
    cases h0 : getNode c x with
    | none => rw [h0] at h; cases h
    | some n =>
      rw [h0] at h
      simp only [Option.map_some, Option.some.injEq] at h
      have hid : n.id = x := getNode_id h0
      by_cases hp : (n.id == nxt.parent) = true
      · rw [if_pos hp] at h
        subst h
        refine ⟨n, rfl, rfl, rfl, rfl, rfl, fun z hz => ?_, fun _ hm => ?_⟩
        · simp only [delChild, List.mem_filter] at hz; exact hz.1
        · simp only [delChild, List.mem_filter] at hm
          simp at hm
      · rw [if_neg hp] at h
        subst h
        refine ⟨n, rfl, rfl, rfl, rfl, rfl, fun z hz => hz, fun e => ?_⟩
        exact absurd (by rw [hid, e]; simp) hp

-- ------------------------------------------------------------------------------------------ the invariant

theorem deleteBranch_wf {U : List Block} {c : Chain} (w : TreeWF U c) {nx : Nat} {nxt : Node}
    (hn : getNode c nx = some nxt) (hx : nx ≠ c.root) : TreeWF U (deleteBranch c nx) := by
  have hr := deleteBranch_root hn
  have old := deleteBranch_old w hn
  have back := deleteBranch_back w hn
  have hrootAlive : ¬ Desc c nx c.root := fun h => hx (Desc.root_only h)
  refine ⟨?_, ?_, ?_, ?_, ?_, ?_, ?_⟩
  · obtain ⟨r, h1, h2, h3⟩ := w.root
    obtain ⟨r', g1, _, g2, g3, _⟩ := old _ _ h1 hrootAlive
    exact ⟨r', by rw [hr]; exact g1, by rw [g2]; exact h2, by rw [g3]; exact h3⟩
  · intro x n' hn' hxr
    rw [hr] at hxr
    obtain ⟨ha, n, h1, e1, e2, _, _, _, _⟩ := back x n' hn'
    obtain ⟨p, h2, h3, h4⟩ := w.par x n h1 hxr
    have hpa : ¬ Desc c nx n.parent := fun hd => ha (Desc.step h1 hxr hd)
    obtain ⟨p', g1, _, g2, _, _, g3⟩ := old _ _ h2 hpa
    have hxn : x ≠ nx := fun e => ha (e ▸ Desc.refl)
    exact ⟨p', by rw [e1]; exact g1, by rw [e2, g2]; exact h3, g3 x h4 hxn⟩
  · intro y p' hp' z hz
    obtain ⟨hya, p, h1, _, _, _, _, hch, hnp⟩ := back y p' hp'
    obtain ⟨h3, m, h4, h5⟩ := w.childs y p h1 z (hch z hz)
    have hza : ¬ Desc c nx z := by
      intro hd
      cases hd with
      | refl =>
        rw [hn] at h4; cases h4
        exact hnp h5.symm hz
      | step hm _ hd2 =>
        rw [h4] at hm; cases hm
        rw [h5] at hd2
        exact hya hd2
    obtain ⟨m', g1, g2, _⟩ := old _ _ h4 hza
    exact ⟨by rw [hr]; exact h3, m', g1, g2.trans h5⟩
  · intro x n' hn' hxr
    rw [hr] at hxr
    obtain ⟨ha, n, h1, e1, _, e3, e4, _, _⟩ := back x n' hn'
    obtain ⟨b0, hb0, g1, g2, g3, gd⟩ := w.blk x n h1 hxr
    refine ⟨b0, hb0, g1, by rw [e1]; exact g2, by rw [e3]; exact g3, fun htc => ?_⟩
    obtain ⟨g4, s0, g5, g6⟩ := gd (by rw [← e4]; exact htc)
    exact ⟨by rw [e4]; exact g4, s0, by rw [store_deleteBranch_alive w hn x ha]; exact g5, g6⟩
  · intro x n' hn' h0
    obtain ⟨ha, n, h1, _, _, _, e4, _, _⟩ := back x n' hn'
    rw [store_deleteBranch_alive w hn x ha]
    exact w.hdr x n h1 (by rw [← e4]; exact h0)
  · intro x n' hn' hxr htc
    rw [hr] at hxr
    obtain ⟨ha, n, h1, e1, _, _, e4, _, _⟩ := back x n' hn'
    obtain ⟨p, h2, h3⟩ := w.anc x n h1 hxr (by rw [← e4]; exact htc)
    have hpa : ¬ Desc c nx n.parent := fun hd => ha (Desc.step h1 hxr hd)
    obtain ⟨p', g1, _, _, _, g5, _⟩ := old _ _ h2 hpa
    refine ⟨p', by rw [e1]; exact g1, ?_⟩
    unfold HasData at h3 ⊢
    rw [e1, hr, g5]; exact h3
  · intro k s h
    by_cases ha : Desc c nx k
    · rw [store_deleteBranch_dead w hn k ha] at h; cases h
    · rw [store_deleteBranch_alive w hn k ha] at h
      obtain ⟨h1, h2⟩ := w.store k s h
      cases h3 : getNode c k with
      | none => rw [h3] at h2; cases h2
      | some n =>
        obtain ⟨n', g1, _⟩ := old _ _ h3 ha
        exact ⟨by rw [hr]; exact h1, by rw [g1]; rfl⟩

theorem deleteBranch_length {U : List Block} {c : Chain} (w : TreeWF U c) {nx : Nat} {nxt : Node}
    (hn : getNode c nx = some nxt) : (deleteBranch c nx).nodes.length < c.nodes.length := by
  rw [deleteBranch_nodes hn]
  have hlen : (modNode c nxt.parent (delChild nx)).nodes.length = c.nodes.length := by
    unfold modNode; simp only [List.length_map]
  refine Nat.lt_of_lt_of_eq ?_ hlen
  apply List.length_filter_lt_length_iff_exists.mpr
  have h1 : getNode (modNode c nxt.parent (delChild nx)) nx =
      some (if nxt.id == nxt.parent then delChild nx nxt else nxt) := by
    rw [getNode_modNode_eq c nxt.parent nx (delChild nx) (fun _ => rfl), hn]; rfl
  refine ⟨_, getNode_mem h1, ?_⟩
  rw [getNode_id h1]
  exact fun h => (dead_iff w hn nx).mp h Desc.refl

/-- **DeleteBranch keeps the tree well-formed and removes exactly the descendants of `nx`** -/
theorem deleteBranch_spec {U : List Block} {c : Chain} (w : TreeWF U c) {nx : Nat} {nxt : Node}
    (hn : getNode c nx = some nxt) (hx : nx ≠ c.root) :
    TreeWF U (deleteBranch c nx) ∧ (deleteBranch c nx).nodes.length < c.nodes.length ∧
    (∀ x n, getNode c x = some n → ¬ Desc c nx x →
      ∃ n', getNode (deleteBranch c nx) x = some n' ∧ n'.parent = n.parent ∧ n'.height = n.height ∧ n'.bits = n.bits ∧
        n'.txCount = n.txCount) ∧
    (∀ x n', getNode (deleteBranch c nx) x = some n' →
      ∃ n, getNode c x = some n ∧ n'.parent = n.parent ∧ n'.height = n.height ∧ n'.bits = n.bits ∧
        n'.txCount = n.txCount) ∧
    (∀ k s, alookup k c.store = some s → ¬ Desc c nx k → alookup k (deleteBranch c nx).store = some s) := by
  refine ⟨deleteBranch_wf w hn hx, deleteBranch_length w hn, ?_, ?_, ?_⟩
  · intro x n h ha
    obtain ⟨n', g1, g2, g3, g4, g5, _⟩ := deleteBranch_old w hn x n h ha
    exact ⟨n', g1, g2, g3, g4, g5⟩
  · intro x n' h
    obtain ⟨_, n, g1, g2, g3, g4, g5, _⟩ := deleteBranch_back w hn x n' h
    exact ⟨n, g1, g2, g3, g4, g5⟩
  · intro k s h ha
    rw [store_deleteBranch_alive w hn k ha]; exact h

end GocoinV.ChainTree
