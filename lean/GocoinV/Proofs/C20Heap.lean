/-
  Proofs.C20Heap — what the link writes of Model/Alloc.lean's pointer layer (hPush, hPop, hUnlinkG,
  hLinkPage, hUnlinkPage) do to each pointer field, as closed formulas.  The back-link writes are there
  because the generated facts `lnk*` (regenerated from the Go source) are `true`.
-/
import GocoinV.Proofs.C20DL
namespace GocoinV.Alloc
open GocoinV.Gen.MemClasses

def nxG (g : Heap) (x : Slot) : Option Slot := (g.N x).next
def pvG (g : Heap) (x : Slot) : Option Slot := (g.N x).prev
def nxP (g : Heap) (x : Slot) : Option Slot := (g.N x).nextInPage
def pvP (g : Heap) (x : Slot) : Option Slot := (g.N x).prevInPage
def nxH (g : Heap) (p : Nat) : Option Nat := (g.H p).next
def pvH (g : Heap) (p : Nat) : Option Nat := (g.H p).prev

namespace Heap
theorem N_setN (g : Heap) (x y : Slot) (f : Node → Node) :
    (g.setN x f).N y = if x = y then f (g.N x) else g.N y := by
  simp only [N, setN, KMap.get?_set]; split <;> rfl
@[simp] theorem H_setN (g : Heap) (x : Slot) (f : Node → Node) (p : Nat) : (g.setN x f).H p = g.H p := rfl
@[simp] theorem C_setN (g : Heap) (x : Slot) (f : Node → Node) (c : Nat) : (g.setN x f).C c = g.C c := rfl
theorem H_setH (g : Heap) (p q : Nat) (f : PHdr → PHdr) :
    (g.setH p f).H q = if p = q then f (g.H p) else g.H q := by
  simp only [H, setH, KMap.get?_set]; split <;> rfl
@[simp] theorem N_setH (g : Heap) (p : Nat) (f : PHdr → PHdr) (x : Slot) : (g.setH p f).N x = g.N x := rfl
@[simp] theorem C_setH (g : Heap) (p : Nat) (f : PHdr → PHdr) (c : Nat) : (g.setH p f).C c = g.C c := rfl
theorem C_setC (g : Heap) (c d : Nat) (f : PCls → PCls) :
    (g.setC c f).C d = if c = d then f (g.C c) else g.C d := by
  simp only [C, setC, KMap.get?_set]; split <;> rfl
@[simp] theorem N_setC (g : Heap) (c : Nat) (f : PCls → PCls) (x : Slot) : (g.setC c f).N x = g.N x := rfl
@[simp] theorem H_setC (g : Heap) (c : Nat) (f : PCls → PCls) (p : Nat) : (g.setC c f).H p = g.H p := rfl
end Heap

theorem lnk_all : lnkPushGlobalBack = true ∧ lnkPushPageBack = true ∧ lnkPopGlobalBack = true ∧
    lnkPopPageBack = true ∧ lnkPurgeBack = true ∧ lnkLinkPagePrev = true ∧ lnkUnlinkPageBack = true := by
  decide

/-! ### hPush -/

structure PushSpec (g g' : Heap) (c : Nat) (x : Slot) : Prop where
  nxG : ∀ a, nxG g' a = if a = x then (g.C c).lists else nxG g a
  pvG : ∀ a, pvG g' a = if (g.C c).lists = some a then some x else if a = x then none else pvG g a
  nxP : ∀ a, nxP g' a = if a = x then (g.H x.1).freeList else nxP g a
  pvP : ∀ a, pvP g' a = if (g.H x.1).freeList = some a then some x else if a = x then none else pvP g a
  lists : ∀ d, (g'.C d).lists = if c = d then some x else (g.C d).lists
  first : ∀ d, (g'.C d).first = (g.C d).first
  last : ∀ d, (g'.C d).last = (g.C d).last
  fl : ∀ q, (g'.H q).freeList = if x.1 = q then some x else (g.H q).freeList
  hnx : ∀ q, nxH g' q = nxH g q
  hpv : ∀ q, pvH g' q = pvH g q

set_option linter.unusedSimpArgs false
macro "heap_crunch" "[" ts:Lean.Parser.Tactic.simpLemma,* "]" : tactic => `(tactic|
  (simp only [hPush, hPop, hUnlinkG, hLinkPage, hUnlinkPage, nxG, pvG, nxP, pvP, nxH, pvH, onSome, if_true,
    Heap.N_setN, Heap.N_setH, Heap.N_setC, Heap.H_setN, Heap.H_setC, Heap.H_setH, Heap.C_setN, Heap.C_setH,
    Heap.C_setC, $ts,*] <;> (repeat' split) <;>
    first | rfl | (subst_vars; first | rfl | contradiction | (simp at *; done) | simp_all)))

theorem hPush_spec (g : Heap) (c : Nat) (x : Slot) : PushSpec g (hPush g c x) c x := by
  have b1 := lnk_all.1
  have b2 := lnk_all.2.1
  constructor
  all_goals
    intro a
    cases ho : (g.C c).lists <;> cases hp : (g.H x.1).freeList <;> heap_crunch [ho, hp, b1, b2]

/-! ### hPop -/

structure PopSpec (g g' : Heap) (c : Nat) (n : Slot) : Prop where
  nxG : ∀ a, nxG g' a = nxG g a
  pvG : ∀ a, pvG g' a = if (g.N n).next = some a then none else pvG g a
  nxP : ∀ a, nxP g' a = if (g.N n).prevInPage = some a then (g.N n).nextInPage else nxP g a
  pvP : ∀ a, pvP g' a = if (g.N n).nextInPage = some a then (g.N n).prevInPage else pvP g a
  lists : ∀ d, (g'.C d).lists = if c = d then (g.N n).next else (g.C d).lists
  first : ∀ d, (g'.C d).first = (g.C d).first
  last : ∀ d, (g'.C d).last = (g.C d).last
  fl : ∀ q, (g'.H q).freeList =
    if (g.N n).prevInPage = none ∧ n.1 = q then (g.N n).nextInPage else (g.H q).freeList
  hnx : ∀ q, nxH g' q = nxH g q
  hpv : ∀ q, pvH g' q = pvH g q

theorem hPop_spec (g : Heap) (c : Nat) (n : Slot) (hl : (g.C c).lists = some n) :
    PopSpec g (hPop g c) c n := by
  have b1 := lnk_all.2.2.1
  have b2 := lnk_all.2.2.2.1
  constructor
  all_goals
    intro a
    cases h1 : (g.N n).next <;> cases h2 : (g.N n).prevInPage <;> cases h3 : (g.N n).nextInPage <;>
      heap_crunch [hl, h1, h2, h3, b1, b2]

/-! ### hUnlinkG -/

structure UnlinkSpec (g g' : Heap) (c : Nat) (n : Slot) : Prop where
  nxG : ∀ a, nxG g' a = if (g.N n).prev = some a then (g.N n).next else nxG g a
  pvG : ∀ a, pvG g' a = if (g.N n).next = some a then (g.N n).prev else pvG g a
  nxP : ∀ a, nxP g' a = nxP g a
  pvP : ∀ a, pvP g' a = pvP g a
  lists : ∀ d, (g'.C d).lists = if (g.N n).prev = none ∧ c = d then (g.N n).next else (g.C d).lists
  first : ∀ d, (g'.C d).first = (g.C d).first
  last : ∀ d, (g'.C d).last = (g.C d).last
  hdr : ∀ q, g'.H q = g.H q

theorem hUnlinkG_spec (g : Heap) (c : Nat) (n : Slot) : UnlinkSpec g (hUnlinkG g c n) c n := by
  have b1 := lnk_all.2.2.2.2.1
  constructor
  all_goals
    intro a
    cases h1 : (g.N n).next <;> cases h2 : (g.N n).prev <;> heap_crunch [h1, h2, b1]

/-! ### hLinkPage / hUnlinkPage -/

structure LinkPageSpec (g g' : Heap) (c p : Nat) : Prop where
  hnx : ∀ q, nxH g' q = if (g.C c).last = some q then some p else if q = p then none else nxH g q
  hpv : ∀ q, pvH g' q = if q = p then (g.C c).last else pvH g q
  fl : ∀ q, (g'.H q).freeList = if q = p then none else (g.H q).freeList
  first : ∀ d, (g'.C d).first =
    if c = d then (if (g.C c).first.isNone then some p else (g.C c).first) else (g.C d).first
  last : ∀ d, (g'.C d).last = if c = d then some p else (g.C d).last
  lists : ∀ d, (g'.C d).lists = (g.C d).lists
  node : ∀ x, g'.N x = g.N x

theorem hLinkPage_spec (g : Heap) (c p : Nat) : LinkPageSpec g (hLinkPage g c p) c p := by
  have b1 := lnk_all.2.2.2.2.2.1
  constructor
  all_goals
    intro a
    cases h1 : (g.C c).last <;> cases h2 : (g.C c).first <;> heap_crunch [h1, h2, b1]

structure UnlinkPageSpec (g g' : Heap) (c pg : Nat) : Prop where
  hnx : ∀ q, nxH g' q = if (g.H pg).prev = some q then (g.H pg).next else nxH g q
  hpv : ∀ q, pvH g' q = if (g.H pg).next = some q then (g.H pg).prev else pvH g q
  fl : ∀ q, (g'.H q).freeList = (g.H q).freeList
  first : ∀ d, (g'.C d).first = if (g.H pg).prev = none ∧ c = d then (g.H pg).next else (g.C d).first
  last : ∀ d, (g'.C d).last = if (g.H pg).next = none ∧ c = d then (g.H pg).prev else (g.C d).last
  lists : ∀ d, (g'.C d).lists = (g.C d).lists
  node : ∀ x, g'.N x = g.N x

theorem hUnlinkPage_spec (g : Heap) (c pg : Nat) : UnlinkPageSpec g (hUnlinkPage g c pg) c pg := by
  have b1 := lnk_all.2.2.2.2.2.2
  constructor
  all_goals
    intro a
    cases h1 : (g.H pg).prev <;> cases h2 : (g.H pg).next <;> heap_crunch [h1, h2, b1]

end GocoinV.Alloc
