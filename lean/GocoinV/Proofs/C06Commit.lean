/-
  Proofs.C06Commit — `commitTxs` produces `ValidChanges` (the hypothesis of `undo_commit`): invariant of the
  input loop (delete list and undo list stay aligned, keys distinct and present, spent-flag lists as long as
  the record) carried through procInput / procInputs / procTxs.
-/
import GocoinV.Model.UtxoOps
import GocoinV.Proofs.C06Utxo
namespace GocoinV.UtxoOps

-- ------------------------------------------------------------------------------------------ association lists

theorem alookup_some_mem {β} {k : Nat} {l : List (Nat × β)} {v : β} (h : alookup k l = some v) : (k, v) ∈ l := by
  induction l with
  | nil => simp [alookup] at h
  | cons p ps ih =>
    obtain ⟨a, b⟩ := p
    by_cases hab : a = k
    · subst hab
      simp [alookup] at h
      subst h
      exact List.mem_cons_self
    · have : (a == k) = false := by simpa using hab
      simp only [alookup, this] at h
      exact List.mem_cons_of_mem _ (ih h)

theorem alookup_none_not_mem {β} {k : Nat} {l : List (Nat × β)} (h : alookup k l = none) : k ∉ l.map (·.1) := by
  induction l with
  | nil => simp
  | cons p ps ih =>
    obtain ⟨a, b⟩ := p
    by_cases hab : a = k
    · subst hab; simp [alookup] at h
    · have : (a == k) = false := by simpa using hab
      simp only [alookup, this] at h
      simp only [List.map_cons, List.mem_cons, not_or]
      exact ⟨fun e => hab e.symm, ih h⟩

theorem mem_aset {β} {k : Nat} {v : β} {l : List (Nat × β)} {p : Nat × β} (h : p ∈ aset k v l) :
    p ∈ l ∨ p = (k, v) := by
  induction l with
  | nil => simp [aset] at h; exact Or.inr h
  | cons q qs ih =>
    obtain ⟨a, b⟩ := q
    by_cases hab : a = k
    · subst hab
      simp only [aset, beq_self_eq_true, if_true, List.mem_cons] at h
      rcases h with h | h
      · exact Or.inr h
      · exact Or.inl (List.mem_cons_of_mem _ h)
    · have : (a == k) = false := by simpa using hab
      simp only [aset, this, Bool.false_eq_true, if_false, List.mem_cons] at h
      rcases h with h | h
      · exact Or.inl (h ▸ List.mem_cons_self)
      · rcases ih h with h | h
        · exact Or.inl (List.mem_cons_of_mem _ h)
        · exact Or.inr h

theorem aset_keys {β} (k : Nat) (v : β) (l : List (Nat × β)) :
    (aset k v l).map (·.1) = if k ∈ l.map (·.1) then l.map (·.1) else l.map (·.1) ++ [k] := by
  induction l with
  | nil => simp [aset]
  | cons q qs ih =>
    obtain ⟨a, b⟩ := q
    by_cases hab : a = k
    · subst hab; simp [aset]
    · have h1 : (a == k) = false := by simpa using hab
      have h2 : ¬ k = a := fun e => hab e.symm
      simp only [aset, h1, Bool.false_eq_true, if_false, List.map_cons, ih, List.mem_cons, h2, false_or]
      by_cases hm : k ∈ qs.map (·.1)
      · simp [hm]
      · simp [hm]

theorem aset_nodup {β} (k : Nat) (v : β) (l : List (Nat × β)) (h : (l.map (·.1)).Nodup) :
    ((aset k v l).map (·.1)).Nodup := by
  rw [aset_keys]
  by_cases hm : k ∈ l.map (·.1)
  · simp only [hm, if_true]; exact h
  · simp only [hm, if_false]
    rw [List.nodup_append]
    refine ⟨h, by simp, ?_⟩
    intro a ha b hb
    simp only [List.mem_singleton] at hb
    subst hb
    intro e; subst e; exact hm ha

/-- the aligned update: `recSet` on the mapped list does what `aset` does on the delete list -/
theorem recSet_map_aset (g : Nat × List Bool → Rec) (hg : ∀ p, (g p).txid = p.1)
    (t : Nat) (m : List Bool) (f : Rec → Rec) (mk : Unit → Rec) (l : List (Nat × List Bool))
    (hsome : ∀ m0, alookup t l = some m0 → f (g (t, m0)) = g (t, m))
    (hnone : alookup t l = none → f (mk ()) = g (t, m)) :
    recSet t f mk (l.map g) = (aset t m l).map g := by
  induction l with
  | nil =>
    simp only [List.map_nil, recSet, aset, List.map_cons]
    rw [hnone rfl]
  | cons q qs ih =>
    obtain ⟨a, b⟩ := q
    by_cases hab : a = t
    · subst hab
      have := hsome b (by simp [alookup])
      simp only [List.map_cons, recSet, hg, beq_self_eq_true, if_true, aset, this]
    · have h1 : (a == t) = false := by simpa using hab
      simp only [List.map_cons, recSet, hg, h1, aset, Bool.false_eq_true, if_false]
      rw [ih]
      · intro m0 h; exact hsome m0 (by simpa [alookup, h1] using h)
      · intro h; exact hnone (by simpa [alookup, h1] using h)

-- ------------------------------------------------------------------------------------------ mask algebra

theorem maskOuts_set (outs : List (Option Out)) (m : List Bool) (v : Nat) (hv : v < m.length) :
    maskOuts outs (m.set v true) = (maskOuts outs m).set v (outs.getD v none) := by
  induction outs generalizing m v with
  | nil => simp [maskOuts]
  | cons o os ih =>
    cases m with
    | nil => simp at hv
    | cons b bs =>
      cases v with
      | zero => simp [maskOuts]
      | succ v =>
        simp only [List.set_cons_succ, maskOuts, List.getD_cons_succ]
        rw [ih bs v (by simpa using hv)]

theorem maskOuts_replicate_false (outs : List (Option Out)) (n : Nat) :
    maskOuts outs (List.replicate n false) = List.replicate outs.length none := by
  induction outs generalizing n with
  | nil => simp [maskOuts]
  | cons o os ih =>
    cases n with
    | zero =>
      have := ih 0
      simp only [List.replicate_zero] at this
      simp [maskOuts, this, List.replicate_succ]
    | succ n => simp [maskOuts, List.replicate_succ, ih n]

-- ------------------------------------------------------------------------------------------ the loop invariant


structure CInv (u : DB) (K : List Nat) (st : CState) : Prop where
  nodup : (st.deled.map (·.1)).Nodup
  present : ∀ p ∈ st.deled, ∃ r, u.get p.1 = some r ∧ p.2.length = r.outs.length
  aligned : st.undo = st.deled.map (undoRecOf u)
  keys : ∀ p ∈ st.blUnsp, p.1 ∈ K

theorem unspentGet_some {u : DB} {t v : Nat} {r : Rec} {o : Out} (h : unspentGet u t v = some (r, o)) :
    u.get t = some r ∧ r.outs[v]? = some (some o) := by
  unfold unspentGet at h
  split at h
  · cases h
  · rename_i r' hr'
    split at h
    · rename_i o' ho'
      simp only [Option.some.injEq, Prod.mk.injEq] at h
      obtain ⟨rfl, rfl⟩ := h
      exact ⟨hr', ho'⟩
    · cases h

theorem cinv_blUnsp (u : DB) (K : List Nat) (st : CState) (k : Nat) (x y : List (Option Out) × Bool)
    (hi : CInv u K st) (hl : alookup k st.blUnsp = some y) :
    CInv u K { deled := st.deled, undo := st.undo, blUnsp := aset k x st.blUnsp } := by
  refine ⟨hi.nodup, hi.present, hi.aligned, ?_⟩
  intro p hp
  rcases mem_aset hp with h | h
  · exact hi.keys p h
  · subst h
    exact hi.keys (k, y) (alookup_some_mem hl)

theorem cinv_spend (u : DB) (K : List Nat) (st : CState) (i : TxIn) (r : Rec) (o : Out)
    (hi : CInv u K st) (hg : unspentGet u i.txid i.vout = some (r, o))
    (hlen : ∀ m0, alookup i.txid st.deled = some m0 → i.vout < m0.length) :
    CInv u K
      { deled := aset i.txid (((alookup i.txid st.deled).getD (List.replicate r.outs.length false)).set i.vout true) st.deled,
        undo := recSet i.txid (fun u => { txid := u.txid, height := u.height, coinbase := u.coinbase, outs := u.outs.set i.vout (some o) })
                  (fun _ => { txid := i.txid, height := r.height, coinbase := r.coinbase, outs := List.replicate r.outs.length none })
                  st.undo,
        blUnsp := st.blUnsp } := by
  obtain ⟨hget, hout⟩ := unspentGet_some hg
  have hvlt : i.vout < r.outs.length := by
    have := List.getElem?_eq_some_iff.mp hout
    exact this.1
  have hgetD : r.outs.getD i.vout none = some o := by
    simp [List.getD, hout]
  have htx : r.txid = i.txid := get_txid hget
  refine ⟨aset_nodup _ _ _ hi.nodup, ?_, ?_, hi.keys⟩
  · intro p hp
    rcases mem_aset hp with h | h
    · exact hi.present p h
    · subst h
      refine ⟨r, hget, ?_⟩
      simp only [List.length_set]
      cases hm : alookup i.txid st.deled with
      | none => simp
      | some m0 =>
        obtain ⟨r', hr', hl'⟩ := hi.present _ (alookup_some_mem hm)
        simp only at hr' hl'
        rw [hget] at hr'
        cases hr'
        simpa using hl'
  · simp only
    rw [hi.aligned]
    apply recSet_map_aset (undoRecOf u) (undoRecOf_txid u)
    · intro m0 hm0
      simp only [hm0, Option.getD_some, undoRecOf, hget]
      rw [maskOuts_set _ _ _ (hlen m0 hm0), hgetD]
    · intro hn
      simp only [hn, Option.getD_none, undoRecOf, hget]
      rw [maskOuts_set _ _ _ (by simpa using hvlt), hgetD, maskOuts_replicate_false]
      cases r
      simp_all

theorem procInput_inv (u : DB) (K : List Nat) (h : Nat) (st st' : CState) (i : TxIn) (v : Nat)
    (hi : CInv u K st) (hr : procInput u h st i = .ok (st', v)) : CInv u K st' := by
  unfold procInput at hr
  simp only [bind, Except.bind, pure, Except.pure, throw, throwThe, MonadExceptOf.throw] at hr
  split at hr
  · rename_i m hm
    split at hr
    · cases hr
    · rename_i hlt
      split at hr
      · cases hr
      · split at hr
        · split at hr
          · cases hr
          · rename_i t wasCb hb
            split at hr
            · cases hr
            · split at hr
              · cases hr
              · split at hr
                · cases hr
                · simp only [Except.ok.injEq, Prod.mk.injEq] at hr
                  rw [← hr.1]
                  exact cinv_blUnsp u K st _ _ _ hi hb
        · rename_i r o hg
          split at hr
          · cases hr
          · simp only [Except.ok.injEq, Prod.mk.injEq] at hr
            rw [← hr.1]
            apply cinv_spend u K st i r o hi hg
            intro m0 hm0
            rw [hm] at hm0
            cases hm0
            omega
  · rename_i hm
    split at hr
    · split at hr
      · cases hr
      · rename_i t wasCb hb
        split at hr
        · cases hr
        · split at hr
          · cases hr
          · split at hr
            · cases hr
            · simp only [Except.ok.injEq, Prod.mk.injEq] at hr
              rw [← hr.1]
              exact cinv_blUnsp u K st _ _ _ hi hb
    · rename_i r o hg
      split at hr
      · cases hr
      · simp only [Except.ok.injEq, Prod.mk.injEq] at hr
        rw [← hr.1]
        apply cinv_spend u K st i r o hi hg
        intro m0 hm0
        rw [hm] at hm0
        cases hm0

theorem procInputs_inv (u : DB) (K : List Nat) (h : Nat) (is : List TxIn) (st st' : CState) (v : Nat)
    (hi : CInv u K st) (hr : procInputs u h st is = .ok (st', v)) : CInv u K st' := by
  induction is generalizing st st' v with
  | nil =>
    simp only [procInputs, pure, Except.pure, Except.ok.injEq, Prod.mk.injEq] at hr
    rw [← hr.1]; exact hi
  | cons i is ih =>
    simp only [procInputs, bind, Except.bind, pure, Except.pure] at hr
    split at hr
    · cases hr
    · rename_i x hx
      obtain ⟨st1, v1⟩ := x
      have h1 := procInput_inv u K h st st1 i v1 hi hx
      simp only at hr
      split at hr
      · cases hr
      · rename_i y hy
        obtain ⟨st2, s⟩ := y
        simp only [Except.ok.injEq, Prod.mk.injEq] at hr
        rw [← hr.1]
        exact ih st1 _ s h1 hy

theorem cinv_addtx (u : DB) (K : List Nat) (st : CState) (k : Nat) (x : List (Option Out) × Bool)
    (hi : CInv u K st) (hk : k ∈ K) :
    CInv u K { deled := st.deled, undo := st.undo, blUnsp := aset k x st.blUnsp } := by
  refine ⟨hi.nodup, hi.present, hi.aligned, ?_⟩
  intro p hp
  rcases mem_aset hp with h | h
  · exact hi.keys p h
  · subst h; exact hk

theorem procTxs_inv (u : DB) (K : List Nat) (h : Nat) (txs : List Tx) (first : Bool) (st st' : CState)
    (res : Nat × Nat × Bool)
    (hi : CInv u K st) (hk : ∀ tx ∈ txs, tx.txid ∈ K)
    (hr : procTxs u h first st txs = .ok (st', res)) : CInv u K st' := by
  induction txs generalizing st st' first res with
  | nil =>
    simp only [procTxs, pure, Except.pure, Except.ok.injEq, Prod.mk.injEq] at hr
    rw [← hr.1]; exact hi
  | cons tx txs ih =>
    have hk1 : tx.txid ∈ K := hk tx List.mem_cons_self
    have hk2 : ∀ t ∈ txs, t.txid ∈ K := fun t ht => hk t (List.mem_cons_of_mem _ ht)
    cases first with
    | true =>
      simp only [procTxs, bind, Except.bind, pure, Except.pure, if_true, Bool.not_true, Bool.false_and,
        Bool.false_eq_true, if_false] at hr
      split at hr
      · cases hr
      · rename_i y hy
        simp only [Except.ok.injEq, Prod.mk.injEq] at hr
        rw [← hr.1]
        exact ih false _ _ _ (cinv_addtx u K st tx.txid _ hi hk1) hk2 hy
    | false =>
      simp only [procTxs, bind, Except.bind, pure, Except.pure, Bool.false_eq_true, if_false] at hr
      split at hr
      · cases hr
      · rename_i x hx
        have h1 := procInputs_inv u K h tx.ins st x.1 x.2 hi hx
        split at hr
        · simp only [throw, throwThe, MonadExceptOf.throw] at hr
          cases hr
        · split at hr
          · cases hr
          · rename_i y hy
            simp only [Except.ok.injEq, Prod.mk.injEq] at hr
            rw [← hr.1]
            exact ih false _ _ _ (cinv_addtx u K x.1 tx.txid _ h1 hk1) hk2 hy

theorem cinv_empty (u : DB) (K : List Nat) : CInv u K {} :=
  ⟨List.nodup_nil, (fun p hp => by simp at hp), rfl,
   (fun p hp => by simp at hp)⟩

theorem addListOf_txid (h : Nat) (bl : List (Nat × (List (Option Out) × Bool))) (r : Rec)
    (hr : r ∈ addListOf h bl) : ∃ p ∈ bl, r.txid = p.1 := by
  unfold addListOf at hr
  simp only [List.mem_filterMap] at hr
  obtain ⟨p, hp, hpr⟩ := hr
  refine ⟨p, hp, ?_⟩
  obtain ⟨t, outs, cb⟩ := p
  simp only at hpr
  split at hpr
  · simp only [Option.some.injEq] at hpr
    rw [← hpr]
  · cases hpr

/-- `commitTxs` produces valid changes: the hypothesis of `undo_commit` holds for every block `commitTxs` accepts
    on a map that does not yet contain the block's own txids -/
theorem commitTxs_validChanges (u : DB) (h rwd : Nat) (tr : Bool) (txs : List Tx) (ch : Changes)
    (hok : commitTxs u h rwd tr txs = .ok ch) (hfresh : ∀ t ∈ txs.map (·.txid), u.get t = none) :
    ValidChanges u (txs.map (·.txid)) ch := by
  unfold commitTxs at hok
  simp only [bind, Except.bind, pure, Except.pure, throw, throwThe, MonadExceptOf.throw] at hok
  split at hok
  · cases hok
  · split at hok
    · cases hok
    · rename_i x hx
      obtain ⟨st, sin, sout, ok⟩ := x
      have hinv := procTxs_inv u (txs.map (·.txid)) h txs true {} st (sin, sout, ok) (cinv_empty u _)
        (fun tx htx => List.mem_map_of_mem htx) hx
      simp only at hok
      split at hok
      · cases hok
      · split at hok
        · cases hok
        · simp only [Except.ok.injEq] at hok
          subst hok
          refine ⟨hinv.nodup, ?_, ?_, hfresh, ?_⟩
          · intro p hp
            obtain ⟨r, hr, _⟩ := hinv.present p hp
            simp [hr]
          · exact hinv.aligned
          · intro r hr
            obtain ⟨p, hp, hpr⟩ := addListOf_txid h st.blUnsp r hr
            rw [hpr]
            exact hinv.keys p hp

end GocoinV.UtxoOps
