/-
  Proofs.C04Sim2 — the simulation lifted through commitTxs' loops: one input, the inputs of a transaction, one
  transaction, the transactions after the coinbase.  Each level shows: if the model's step succeeds then the
  specification's step succeeds on the denoted map, and the invariant (`Inv`, fees, sigop cost mod 2^32, key list
  of blUnsp) holds afterwards.
-/
import GocoinV.Proofs.C04Sim
namespace GocoinV.Proofs.C04
open GocoinV GocoinV.Connect
open GocoinV.Spec.Connect (Coin Utxo absGet InAcc Acc spendInput spendInputs connectTx connectTxs addOuts moneyRange
  seqLockOk inputSigOpCost outSum)

theorem spendInput_ok (b : Block) (tx : Tx) (inp : TxIn) (a : InAcc) (c : Coin)
    (h1 : aGet a.utxo inp.prev = some c)
    (h2 : ¬ (c.coinbase = true ∧ b.height - c.height < 100))
    (h3 : c.value ≤ Spec.Connect.MAX_MONEY) (h4 : a.valueIn + c.value ≤ Spec.Connect.MAX_MONEY)
    (h5 : b.csv = true → 2 ≤ tx.version → seqLockOk b.height b.mtp inp c = true)
    (h6 : inp.scriptOk = true) :
    spendInput b tx inp a = .ok { utxo := aDel a.utxo inp.prev, valueIn := a.valueIn + c.value,
                                   sigops := a.sigops + inputSigOpCost b inp c } := by
  unfold spendInput
  simp only [h1]
  simp [h2, moneyRange, h3, h4, h6, bind, Except.bind, pure, Except.pure]
  exact h5

theorem Inv_congr (mtpOf : Nat → Nat) (db : DB) (b : Block) (s s' : St) (u : Utxo)
    (hd : s'.deled = s.deled) (hb : s'.blUnsp = s.blUnsp) (h : Inv mtpOf db b s u) : Inv mtpOf db b s' u := by
  obtain ⟨h1, h2⟩ := h
  refine ⟨?_, by rw [hd]; exact h2⟩
  intro op; rw [h1 op]; unfold view; rw [hd, hb]

theorem SPEC_MAX : Spec.Connect.MAX_MONEY = MAX_MONEY := by decide

/-- the per-input context hypotheses of the refinement -/
structure InOk (mtpOf : Nat → Nat) (db : DB) (b : Block) (tx : Tx) (inp : TxIn) : Prop where
  script : inp.scriptOk = true
  /-- BIP68 holds for the coin this input spends: a confirmed one, or one created in this very block -/
  seq : ∀ c : Coin, (absGet mtpOf db inp.prev = some c ∨ (absGet mtpOf db inp.prev = none ∧ c.height = b.height ∧ c.mtpPrev = b.mtp)) →
        b.csv = true → 2 ≤ tx.version → seqLockOk b.height b.mtp inp c = true
  ret1 : countsAgree (redeemOf inp.scriptSig) = true
  ret2 : countsAgree (inp.witness.getLastD []) = true

theorem procInput_sim (mtpOf : Nat → Nat) (db : DB) (b : Block) (tx : Tx) (inp : TxIn) (s s' : St) (a a' : Nat)
    (u : Utxo) (so base : Nat)
    (hh : ∀ k r, aGet db k = some r → r.height ≤ b.height) (hb : b.height < 2 ^ 32)
    (hinv : Inv mtpOf db b s u) (ha : a ≤ MAX_MONEY) (hsig : s.sigops = u32 (base + so))
    (hin : InOk mtpOf db b tx inp)
    (h : procInput Cfg.current db b inp s a = .ok (s', a')) :
    ∃ u' so', spendInput b tx inp ⟨u, a, so⟩ = .ok ⟨u', a', so'⟩ ∧ Inv mtpOf db b s' u' ∧ a' ≤ MAX_MONEY
      ∧ s'.sigops = u32 (base + so') ∧ keys s'.blUnsp = keys s.blUnsp
      ∧ s'.fees = s.fees ∧ s'.sumIn = s.sumIn ∧ s'.sumOut = s.sumOut ∧ s'.scriptBad = s.scriptBad := by
  obtain ⟨s1, v, pk, hr, hav, hle⟩ := procInput_sum db b inp s s' a a' ha h
  obtain ⟨c, c1, c2, c3, c4, c5, c6, c7⟩ := resolve_sim mtpOf db b inp s s1 v pk u hh hb hinv hr
  obtain ⟨f1, f2, f3, f4, f5⟩ := resolve_fields _ db b inp s s1 v pk hr
  have hm := MAX_MONEY_val
  have hv : c.value ≤ Spec.Connect.MAX_MONEY := by rw [SPEC_MAX, c2]; omega
  have hsum : a + c.value ≤ Spec.Connect.MAX_MONEY := by rw [SPEC_MAX, c2]; omega
  have hsp := spendInput_ok b tx inp ⟨u, a, so⟩ c c1 c4 hv hsum (hin.seq c c7) hin.script
  -- the model's new state
  unfold procInput at h
  simp only [hr] at h
  split at h
  · cases h
  · simp only [Except.ok.injEq, Prod.mk.injEq] at h
    obtain ⟨h1, _⟩ := h
    refine ⟨aDel u inp.prev, so + inputSigOpCost b inp c, ?_, ?_, hle, ?_, ?_, ?_, ?_, ?_, ?_⟩
    · rw [hsp]; simp only [c2, hav]
    · subst h1; exact Inv_congr mtpOf db b s1 _ _ rfl rfl c5
    · subst h1
      simp only []
      rw [f4, hsig, p2sh_eq _ hin.ret1, countWitness_eq _ _ hin.ret2]
      unfold inputSigOpCost
      rw [c3]
      have hw : WITNESS_SCALE_FACTOR = 4 := rfl
      rw [hw]
      by_cases q1 : (b.p2sh = true ∧ isP2SH pk = true)
      · by_cases q2 : b.witness = true
        · simp only [q1, and_self, ↓reduceIte, q2]; unfold u32; omega
        · simp only [q1, and_self, ↓reduceIte, q2, Bool.false_eq_true]; unfold u32; omega
      · by_cases q2 : b.witness = true
        · simp only [q1, ↓reduceIte, q2]; unfold u32; omega
        · simp only [q1, ↓reduceIte, q2, Bool.false_eq_true]; unfold u32; omega
    · subst h1; exact c6
    · subst h1; exact f1
    · subst h1; exact f2
    · subst h1; exact f3
    · subst h1; exact f5

theorem procInputs_sim (mtpOf : Nat → Nat) (db : DB) (b : Block) (tx : Tx) (ins : List TxIn) (s s' : St) (a a' : Nat)
    (u : Utxo) (so base : Nat)
    (hh : ∀ k r, aGet db k = some r → r.height ≤ b.height) (hb : b.height < 2 ^ 32)
    (hinv : Inv mtpOf db b s u) (ha : a ≤ MAX_MONEY) (hsig : s.sigops = u32 (base + so))
    (hin : ∀ i ∈ ins, InOk mtpOf db b tx i)
    (h : procInputs Cfg.current db b ins s a = .ok (s', a')) :
    ∃ u' so', spendInputs b tx ins ⟨u, a, so⟩ = .ok ⟨u', a', so'⟩ ∧ Inv mtpOf db b s' u' ∧ a' ≤ MAX_MONEY
      ∧ s'.sigops = u32 (base + so') ∧ keys s'.blUnsp = keys s.blUnsp
      ∧ s'.fees = s.fees ∧ s'.sumIn = s.sumIn ∧ s'.sumOut = s.sumOut ∧ s'.scriptBad = s.scriptBad := by
  induction ins generalizing s a u so with
  | nil =>
    simp only [procInputs, Except.ok.injEq, Prod.mk.injEq] at h
    obtain ⟨h1, h2⟩ := h
    subst h1; subst h2
    exact ⟨u, so, rfl, hinv, ha, hsig, rfl, rfl, rfl, rfl, rfl⟩
  | cons i r ih =>
    unfold procInputs at h
    cases hp : procInput Cfg.current db b i s a with
    | error e => simp [hp] at h
    | ok q =>
      obtain ⟨s1, a1⟩ := q
      simp only [hp] at h
      obtain ⟨u1, so1, g1, g2, g3, g4, g5, g6, g7, g8, g9⟩ :=
        procInput_sim mtpOf db b tx i s s1 a a1 u so base hh hb hinv ha hsig (hin i (by simp)) hp
      obtain ⟨u2, so2, k1, k2, k3, k4, k5, k6, k7, k8, k9⟩ :=
        ih s1 a1 u1 so1 g2 g3 g4 (fun j hj => hin j (List.mem_cons_of_mem _ hj)) h
      refine ⟨u2, so2, ?_, k2, k3, k4, k5.trans g5, k6.trans g6, k7.trans g7, k8.trans g8, k9.trans g9⟩
      unfold spendInputs
      simp only [g1]
      exact k1

/-! ### adding the outputs of a transaction -/

theorem aGet_addOuts (u : Utxo) (txid : Bytes) (b : Block) (cb : Bool) (outs : List TxOut) (i : Nat) (op : OutPoint) :
    aGet (addOuts u txid b cb outs i) op =
      if txid = op.hash ∧ i ≤ op.vout ∧ op.vout < i + outs.length then
        (outs[op.vout - i]?).map (fun o => (⟨o.value, o.script, b.height, cb, b.mtp⟩ : Coin))
      else aGet u op := by
  induction outs generalizing u i with
  | nil =>
    have : ¬ (txid = op.hash ∧ i ≤ op.vout ∧ op.vout < i + ([] : List TxOut).length) := by
      simp only [List.length_nil]; omega
    simp only [addOuts, this, ↓reduceIte]
  | cons o r ih =>
    simp only [addOuts, ih, aGet_aSet, List.length_cons]
    by_cases hh : txid = op.hash
    · by_cases hv : i = op.vout
      · have e : (⟨txid, i⟩ : OutPoint) = op := (op_eq_iff _ _).mpr ⟨hh, hv⟩
        have c1 : ¬ (txid = op.hash ∧ i + 1 ≤ op.vout ∧ op.vout < i + 1 + r.length) := by omega
        have c2 : (txid = op.hash ∧ i ≤ op.vout ∧ op.vout < i + (r.length + 1)) := ⟨hh, by omega, by omega⟩
        have c3 : op.vout - i = 0 := by omega
        rw [if_neg c1, if_pos c2, if_pos e, c3]
        rfl
      · have e : ¬ (⟨txid, i⟩ : OutPoint) = op := fun e => hv (by rw [← e])
        by_cases hlt : i + 1 ≤ op.vout ∧ op.vout < i + 1 + r.length
        · have c1 : (txid = op.hash ∧ i + 1 ≤ op.vout ∧ op.vout < i + 1 + r.length) := ⟨hh, hlt⟩
          have c2 : (txid = op.hash ∧ i ≤ op.vout ∧ op.vout < i + (r.length + 1)) := ⟨hh, by omega, by omega⟩
          have c3 : op.vout - i = (op.vout - (i + 1)) + 1 := by omega
          rw [if_pos c1, if_pos c2, c3, List.getElem?_cons_succ]
        · have c1 : ¬ (txid = op.hash ∧ i + 1 ≤ op.vout ∧ op.vout < i + 1 + r.length) := fun q => hlt q.2
          have c2 : ¬ (txid = op.hash ∧ i ≤ op.vout ∧ op.vout < i + (r.length + 1)) := by omega
          rw [if_neg c1, if_neg c2, if_neg e]
    · have e : ¬ (⟨txid, i⟩ : OutPoint) = op := fun e => hh (by rw [← e])
      have c1 : ¬ (txid = op.hash ∧ i + 1 ≤ op.vout ∧ op.vout < i + 1 + r.length) := fun q => hh q.1
      have c2 : ¬ (txid = op.hash ∧ i ≤ op.vout ∧ op.vout < i + (r.length + 1)) := fun q => hh q.1
      rw [if_neg c1, if_neg c2, if_neg e]

theorem getD_map_some {α : Type} (l : List α) (v : Nat) : (l.map some).getD v none = l[v]? := by
  simp only [List.getD_eq_getElem?_getD, List.getElem?_map]
  cases l[v]? <;> rfl

/-- filing the outputs of a transaction into blUnsp denotes adding them to the sequential map (the txid is new: not a
    key of blUnsp, and no record of the confirmed set lives under its 8-byte key) -/
theorem rel_addOuts (mtpOf : Nat → Nat) (db : DB) (b : Block) (s s' : St) (u : Utxo) (txid : Bytes) (cb : Bool)
    (outs : List TxOut)
    (hrel : ∀ op, aGet u op = view mtpOf db b s op)
    (hfresh : txid ∉ keys s.blUnsp) (hfree : aGet db (key8 txid) = none)
    (hd : s'.deled = s.deled) (hbu : s'.blUnsp = aSet s.blUnsp txid (cb, outs.map some)) :
    ∀ op, aGet (addOuts u txid b cb outs 0) op = view mtpOf db b s' op := by
  intro op
  rw [aGet_addOuts, hrel op]
  unfold view
  rw [hd, hbu, aGet_aSet]
  cases huo : unspentGet Cfg.current db op with
  | some f =>
    obtain ⟨r, hr, _⟩ := unspentGet_slot db op f huo
    have : ¬ txid = op.hash := by intro e; rw [e, hr] at hfree; cases hfree
    simp only [this, false_and, ↓reduceIte]
  | none =>
    simp only []
    by_cases hh : txid = op.hash
    · have hn : aGet s.blUnsp op.hash = none := by rw [← hh]; exact (aGet_none_iff _ _).mpr hfresh
      simp only [hh, ↓reduceIte, true_and, Nat.zero_le, Nat.zero_add, Nat.sub_zero, hn, getD_map_some]
      by_cases hv : op.vout < outs.length
      · simp only [hv, ↓reduceIte]
      · simp only [hv, ↓reduceIte]
        rw [List.getElem?_eq_none (by omega)]; rfl
    · simp only [hh, false_and, ↓reduceIte]

/-! ### one transaction -/

theorem settle_other (cfg : Cfg) (isCb : Bool) (s1 s2 : St) (a o : Nat) (h : settle cfg isCb s1 a o = .ok s2) :
    s2.sigops = s1.sigops ∧ s2.scriptBad = s1.scriptBad := by
  unfold settle at h
  repeat' split at h
  all_goals first
    | (simp at h; done)
    | (simp only [Except.ok.injEq] at h; subst h; simp; done)
    | (simp only [] at h
       split at h
       · simp at h
       · simp only [Except.ok.injEq] at h; subst h; simp)

theorem connectTx_ok (b : Block) (tx : Tx) (a : Acc) (r : InAcc)
    (h1 : spendInputs b tx tx.ins ⟨a.utxo, 0, 0⟩ = .ok r) (h2 : outSum tx ≤ r.valueIn)
    (h3 : a.fees + (r.valueIn - outSum tx) ≤ Spec.Connect.MAX_MONEY) :
    connectTx b tx a = .ok { utxo := addOuts r.utxo tx.txid b false tx.outs 0, fees := a.fees + (r.valueIn - outSum tx),
                              sigops := a.sigops + 4 * Spec.Connect.legacySigOps tx + r.sigops } := by
  unfold connectTx
  have : ¬ r.valueIn < outSum tx := by omega
  simp [h1, bind, Except.bind, pure, Except.pure, this, moneyRange, h3]

/-- the per-transaction context hypotheses of the refinement (non-coinbase transaction) -/
structure TxOk (mtpOf : Nat → Nat) (db : DB) (b : Block) (tx : Tx) : Prop where
  ins : ∀ i ∈ tx.ins, InOk mtpOf db b tx i
  ret : txCountsAgree tx = true
  outs : checkOutValues tx.outs 0 = .ok ()
  free : aGet db (key8 tx.txid) = none

theorem procTx_sim (mtpOf : Nat → Nat) (db : DB) (b : Block) (tx : Tx) (s s' : St) (a : Acc)
    (hh : ∀ k r, aGet db k = some r → r.height ≤ b.height) (hb : b.height < 2 ^ 32)
    (hinv : Inv mtpOf db b s a.utxo) (hfees : s.fees = a.fees) (hf : s.fees ≤ MAX_MONEY)
    (hsig : s.sigops = u32 a.sigops) (hfresh : tx.txid ∉ keys s.blUnsp) (htx : TxOk mtpOf db b tx)
    (h : procTx Cfg.current db b false tx s = .ok s') :
    ∃ a', connectTx b tx a = .ok a' ∧ Inv mtpOf db b s' a'.utxo ∧ s'.fees = a'.fees ∧ s'.fees ≤ MAX_MONEY
      ∧ s'.sigops = u32 a'.sigops ∧ keys s'.blUnsp = keys s.blUnsp ++ [tx.txid]
      ∧ s'.sumIn = s.sumIn ∧ s'.sumOut = s.sumOut ∧ s'.scriptBad = s.scriptBad := by
  unfold procTx at h
  cases h1 : txInputs Cfg.current db b false tx s with
  | error e => simp [h1] at h
  | ok q =>
    obtain ⟨s1, ain⟩ := q
    simp only [h1] at h
    cases h2 : settle Cfg.current false s1 ain (sumOuts tx.outs) with
    | error e => simp [h2] at h
    | ok s2 =>
      simp only [h2, Except.ok.injEq] at h
      obtain ⟨d2, b2⟩ := settle_maps _ false s1 s2 ain _ h2
      obtain ⟨o1, o2⟩ := settle_other _ false s1 s2 ain _ h2
      unfold txInputs at h1
      simp only [Bool.false_eq_true, ↓reduceIte] at h1
      split at h1
      · cases h1
      · rename_i sp a0 hp
        simp only [Except.ok.injEq, Prod.mk.injEq] at h1
        obtain ⟨e1, e2⟩ := h1
        subst e2
        -- the input loop
        have hinv0 : Inv mtpOf db b { s with sigops := u32 (s.sigops + u32 (WITNESS_SCALE_FACTOR * legacySigOps tx)) } a.utxo :=
          Inv_congr mtpOf db b s _ _ rfl rfl hinv
        have hsig0 : ({ s with sigops := u32 (s.sigops + u32 (WITNESS_SCALE_FACTOR * legacySigOps tx)) } : St).sigops
            = u32 ((a.sigops + 4 * Spec.Connect.legacySigOps tx) + 0) := by
          simp only []
          rw [hsig, legacy_eq tx htx.ret]
          have hw : WITNESS_SCALE_FACTOR = 4 := rfl
          rw [hw]; unfold u32; omega
        obtain ⟨u', so', k1, k2, k3, k4, k5, k6, k7, k8, k9⟩ :=
          procInputs_sim mtpOf db b tx tx.ins _ sp 0 a0 a.utxo 0 (a.sigops + 4 * Spec.Connect.legacySigOps tx)
            hh hb hinv0 (by omega) hsig0 htx.ins hp
        -- the amounts
        have hs1f : s1.fees = s.fees := by subst e1; exact k6
        obtain ⟨g1, g2, _, g4⟩ := settle_current false s1 s2 a0 _ k3 (by rw [hs1f]; exact hf) h2
        obtain ⟨g5, g6, g7⟩ := g4 rfl
        obtain ⟨x1, x2⟩ := checkOutValues_exact tx.outs 0 (by omega) htx.outs
        simp only [Nat.zero_add] at x1 x2
        have hout : sumOuts tx.outs = outSum tx := by unfold sumOuts; rw [x2]; rfl
        rw [hout] at g5 g6
        have hfee : a.fees + (a0 - outSum tx) ≤ Spec.Connect.MAX_MONEY := by
          rw [SPEC_MAX, ← hfees, ← hs1f, ← g6]; exact g2
        have hct := connectTx_ok b tx a ⟨u', a0, so'⟩ k1 g5 hfee
        refine ⟨_, hct, ⟨?_, ?_⟩, ?_, ?_, ?_, ?_, ?_, ?_, ?_⟩
        · -- the view after filing the outputs
          have hrel2 : ∀ op, aGet u' op = view mtpOf db b s2 op := by
            intro op; rw [k2.rel op]; unfold view; rw [d2, b2]; subst e1; rfl
          have hfresh2 : tx.txid ∉ keys s2.blUnsp := by
            rw [b2]; subst e1; simp only []; rw [k5]; exact hfresh
          subst h
          exact rel_addOuts mtpOf db b s2 _ u' tx.txid false tx.outs hrel2 hfresh2 htx.free rfl rfl
        · subst h; simp only []; rw [d2]; subst e1; exact k2.dnodup
        · subst h; simp only []; rw [g6, hs1f, hfees]
        · subst h; exact g2
        · subst h; simp only []; rw [o1]; subst e1; simp only []; rw [k4]
        · subst h
          simp only [aSet_keys]
          have : tx.txid ∉ keys s2.blUnsp := by
            rw [b2]; subst e1; simp only []; rw [k5]; exact hfresh
          simp only [this, ↓reduceIte]
          rw [b2]; subst e1; simp only []; rw [k5]
        · subst h; simp only []; rw [g1]; subst e1; exact k7
        · subst h; simp only []; rw [g7]; subst e1; exact k8
        · subst h; simp only []; rw [o2]; subst e1; simp only []
          have hany : tx.ins.any (fun i => !i.scriptOk) = false := by
            rw [List.any_eq_false]; intro i hi; simp [(htx.ins i hi).script]
          rw [hany, Bool.or_false, k9]

/-! ### the transactions after the coinbase -/

theorem procTxs_sim (mtpOf : Nat → Nat) (db : DB) (b : Block) (txs : List Tx) (s s' : St) (a : Acc)
    (hh : ∀ k r, aGet db k = some r → r.height ≤ b.height) (hb : b.height < 2 ^ 32)
    (hinv : Inv mtpOf db b s a.utxo) (hfees : s.fees = a.fees) (hf : s.fees ≤ MAX_MONEY)
    (hsig : s.sigops = u32 a.sigops)
    (hfresh : ∀ tx ∈ txs, tx.txid ∉ keys s.blUnsp) (hids : (txs.map (·.txid)).Nodup)
    (hall : ∀ tx ∈ txs, TxOk mtpOf db b tx)
    (h : procTxs Cfg.current db b false txs s = .ok s') :
    ∃ a', connectTxs b txs a = .ok a' ∧ Inv mtpOf db b s' a'.utxo ∧ s'.fees = a'.fees ∧ s'.fees ≤ MAX_MONEY
      ∧ s'.sigops = u32 a'.sigops ∧ keys s'.blUnsp = keys s.blUnsp ++ txs.map (·.txid)
      ∧ s'.sumIn = s.sumIn ∧ s'.sumOut = s.sumOut ∧ s'.scriptBad = s.scriptBad := by
  induction txs generalizing s a with
  | nil =>
    simp only [procTxs, Except.ok.injEq] at h
    subst h
    exact ⟨a, rfl, hinv, hfees, hf, hsig, by simp, rfl, rfl, rfl⟩
  | cons tx r ih =>
    unfold procTxs at h
    cases hp : procTx Cfg.current db b false tx s with
    | error e => simp [hp] at h
    | ok s1 =>
      simp only [hp] at h
      obtain ⟨a1, g1, g2, g3, g4, g5, g6, g7, g8, g9⟩ :=
        procTx_sim mtpOf db b tx s s1 a hh hb hinv hfees hf hsig (hfresh tx (by simp)) (hall tx (by simp)) hp
      simp only [List.map_cons, List.nodup_cons] at hids
      have hfresh1 : ∀ t ∈ r, t.txid ∉ keys s1.blUnsp := by
        intro t ht
        rw [g6]
        simp only [List.mem_append, List.mem_singleton, not_or]
        refine ⟨hfresh t (List.mem_cons_of_mem _ ht), ?_⟩
        intro e
        exact hids.1 (List.mem_map.mpr ⟨t, ht, e⟩)
      obtain ⟨a2, k1, k2, k3, k4, k5, k6, k7, k8, k9⟩ :=
        ih s1 a1 g2 g3 g4 g5 hfresh1 hids.2 (fun t ht => hall t (List.mem_cons_of_mem _ ht)) h
      refine ⟨a2, ?_, k2, k3, k4, k5, ?_, k7.trans g7, k8.trans g8, k9.trans g9⟩
      · unfold connectTxs; simp only [g1]; exact k1
      · rw [k6, g6]; simp

end GocoinV.Proofs.C04
