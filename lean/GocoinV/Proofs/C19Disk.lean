/-
  Proofs.C19Disk — what the disk-level functions leave in the directory:
  bufio.Writer delivers exactly the concatenation of its writes; writedatfile leaves a complete snapshot of
  the index in qdbidx.<new>, no log and no other snapshot; loaddat reads that snapshot back.
-/
import GocoinV.Proofs.C19Codec
import GocoinV.Proofs.C19
namespace GocoinV.Proofs.C19
open GocoinV GocoinV.Qdb GocoinV.QdbSpec

variable {eg : Bool}

/-- the content of qdbidx.<i> (`i = 0` → qdbidx.0, otherwise qdbidx.1, as in `FS.apply`) -/
def idxFile (fs : FS) (i : Nat) : Option Bytes := if i = 0 then fs.idx0 else fs.idx1

theorem idxFile_appendIdx (fs : FS) (i : Nat) (b : Bytes) :
    idxFile (fs.apply (.appendIdx i b)) i = (idxFile fs i).map (· ++ b) := by
  unfold idxFile FS.apply
  by_cases h : i = 0 <;> simp [h]

/-- everything of the directory except qdbidx.<i> -/
def restOf (fs : FS) (i : Nat) : List (Nat × Bytes) × Option Bytes × Option Bytes :=
  (fs.dats, (if i = 0 then fs.idx1 else fs.idx0), fs.log)

theorem restOf_appendIdx (fs : FS) (i : Nat) (b : Bytes) : restOf (fs.apply (.appendIdx i b)) i = restOf fs i := by
  unfold restOf FS.apply
  by_cases h : i = 0 <;> simp [h]

/-- the logical stream of a bufio.Writer on qdbidx.<i>: what is in the file plus what is in the buffer -/
def stream (i : Nat) (db : DB) (w : BufW) : Option Bytes := (idxFile db.fs i).map (· ++ w.buf)

theorem idxSink_file (i : Nat) (db : DB) (b : Bytes) :
    idxFile (idxSink i db b).fs i = (idxFile db.fs i).map (· ++ b) := idxFile_appendIdx db.fs i b

theorem idxSink_rest (i : Nat) (db : DB) (b : Bytes) : restOf (idxSink i db b).fs i = restOf db.fs i :=
  restOf_appendIdx db.fs i b

theorem bufWrite_stream (i : Nat) (db : DB) (w : BufW) (p : Bytes) :
    stream i (bufWrite (idxSink i) db w p).1 (bufWrite (idxSink i) db w p).2 = (stream i db w).map (· ++ p) ∧
    restOf (bufWrite (idxSink i) db w p).1.fs i = restOf db.fs i := by
  unfold bufWrite stream
  split
  · constructor
    · cases idxFile db.fs i <;> simp [List.append_assoc]
    · rfl
  · split
    · rename_i he
      have hb : w.buf = [] := by simpa using he
      constructor
      · rw [idxSink_file]
        cases idxFile db.fs i <;> simp [hb]
      · exact idxSink_rest i db p
    · dsimp only
      split
      · constructor
        · rw [idxSink_file, idxSink_file]
          cases idxFile db.fs i with
          | none => rfl
          | some f =>
            simp only [Option.map_some, List.append_nil, Option.some.injEq, List.append_assoc]
            rw [List.take_append_drop]
        · rw [idxSink_rest, idxSink_rest]
      · constructor
        · rw [idxSink_file]
          cases idxFile db.fs i with
          | none => rfl
          | some f =>
            simp only [Option.map_some, Option.some.injEq, List.append_assoc]
            rw [List.take_append_drop]
        · rw [idxSink_rest]

theorem bufWriteAll_stream (i : Nat) (ps : List Bytes) (db : DB) (w : BufW) :
    stream i (bufWriteAll (idxSink i) db w ps).1 (bufWriteAll (idxSink i) db w ps).2 =
      (stream i db w).map (· ++ ps.flatten) ∧
    restOf (bufWriteAll (idxSink i) db w ps).1.fs i = restOf db.fs i := by
  unfold bufWriteAll
  induction ps generalizing db w with
  | nil =>
    constructor
    · simp only [List.foldl_nil, List.flatten_nil, List.append_nil]
      cases stream i db w <;> rfl
    · rfl
  | cons p t ih =>
    simp only [List.foldl_cons]
    obtain ⟨h1, h2⟩ := bufWrite_stream i db w p
    obtain ⟨h3, h4⟩ := ih (bufWrite (idxSink i) db w p).1 (bufWrite (idxSink i) db w p).2
    constructor
    · rw [h3, h1]
      cases stream i db w <;> simp [List.append_assoc]
    · rw [h4, h2]

theorem bufFlush_stream (i : Nat) (db : DB) (w : BufW) :
    idxFile (bufFlush (idxSink i) db w).fs i = stream i db w ∧
    restOf (bufFlush (idxSink i) db w).fs i = restOf db.fs i := by
  unfold bufFlush stream
  split
  · rename_i he
    have hb : w.buf = [] := by simpa using he
    constructor
    · cases idxFile db.fs i <;> simp [hb]
    · rfl
  · exact ⟨idxSink_file i db _, idxSink_rest i db _⟩

theorem frame_like_write (i : Nat) (db : DB) (w : BufW) (p : Bytes) :
    (bufWrite (idxSink i) db w p).1.index = db.index ∧ (bufWrite (idxSink i) db w p).1.datIdx = db.datIdx ∧
    (bufWrite (idxSink i) db w p).1.verSeq = db.verSeq := by
  unfold bufWrite
  split
  · exact ⟨rfl, rfl, rfl⟩
  · split
    · exact ⟨rfl, rfl, rfl⟩
    · dsimp only
      split <;> exact ⟨rfl, rfl, rfl⟩

theorem frame_like_writeAll (i : Nat) (ps : List Bytes) (db : DB) (w : BufW) :
    (bufWriteAll (idxSink i) db w ps).1.index = db.index ∧ (bufWriteAll (idxSink i) db w ps).1.datIdx = db.datIdx ∧
    (bufWriteAll (idxSink i) db w ps).1.verSeq = db.verSeq := by
  unfold bufWriteAll
  induction ps generalizing db w with
  | nil => exact ⟨rfl, rfl, rfl⟩
  | cons p t ih =>
    simp only [List.foldl_cons]
    obtain ⟨a, b, c⟩ := frame_like_write i db w p
    obtain ⟨a', b', c'⟩ := ih (bufWrite (idxSink i) db w p).1 (bufWrite (idxSink i) db w p).2
    exact ⟨a'.trans a, b'.trans b, c'.trans c⟩

theorem frame_like_flush (i : Nat) (db : DB) (w : BufW) :
    (bufFlush (idxSink i) db w).index = db.index ∧ (bufFlush (idxSink i) db w).datIdx = db.datIdx ∧
    (bufFlush (idxSink i) db w).verSeq = db.verSeq := by
  unfold bufFlush
  split <;> exact ⟨rfl, rfl, rfl⟩

/-- the other snapshot slot -/
def otherIdx (fs : FS) (i : Nat) : Option Bytes := if i = 0 then fs.idx1 else fs.idx0

/-- what `writedatfile` leaves on disk: a complete snapshot of the index under the new sequence number in
    the other slot, no log, no older snapshot; data files untouched -/
theorem writedatfile_disk (db : DB) :
    idxFile (writedatfile db).fs (1 - db.datIdx) = some (snapBytes (u32 (db.verSeq + 1)) db.index) ∧
    otherIdx (writedatfile db).fs (1 - db.datIdx) = none ∧
    (writedatfile db).fs.log = none ∧
    (writedatfile db).fs.dats = db.fs.dats ∧
    (writedatfile db).datIdx = 1 - db.datIdx ∧
    (writedatfile db).verSeq = u32 (db.verSeq + 1) ∧
    (writedatfile db).index = db.index := by
  -- name the intermediate states
  let i := 1 - db.datIdx
  let v := u32 (db.verSeq + 1)
  let db2 := emit { db with datIdx := i, verSeq := v } "qdb.writedatfile:created" (.createIdx i)
  let st := bufWriteAll (idxSink i) db2 {} (idxWrites db2.index db2.verSeq)
  let db3 := bufFlush (idxSink i) st.1 st.2
  have hw : writedatfile db = emit (emit { db3 with logOpen := false } "qdb.writedatfile:log-removed" .removeLog)
      "qdb.writedatfile:old-removed" (.removeIdx (1 - i)) := rfl
  have h2f : idxFile db2.fs i = some [] := by
    show idxFile (db.fs.apply (.createIdx i)) i = some []
    unfold idxFile FS.apply
    by_cases h : i = 0 <;> simp [h]
  have h2r : restOf db2.fs i = restOf db.fs i := by
    show restOf (db.fs.apply (.createIdx i)) i = restOf db.fs i
    unfold restOf FS.apply
    by_cases h : i = 0 <;> simp [h]
  obtain ⟨hs1, hs2⟩ := bufWriteAll_stream i (idxWrites db2.index db2.verSeq) db2 {}
  obtain ⟨hf1, hf2⟩ := bufFlush_stream i st.1 st.2
  have h3f : idxFile db3.fs i = some (snapBytes v db.index) := by
    rw [hf1, hs1]
    simp only [stream, h2f, Option.map_some, List.append_nil, List.nil_append, idxWrites_flatten]
    rfl
  have h3r : restOf db3.fs i = restOf db.fs i := by rw [hf2, hs2, h2r]
  have h3i : db3.index = db.index := by
    have a := frame_like_flush i st.1 st.2
    have b := frame_like_writeAll i (idxWrites db2.index db2.verSeq) db2 {}
    exact a.1.trans b.1
  have h3d : db3.datIdx = i ∧ db3.verSeq = v := by
    have a := frame_like_flush i st.1 st.2
    have b := frame_like_writeAll i (idxWrites db2.index db2.verSeq) db2 {}
    exact ⟨a.2.1.trans b.2.1, a.2.2.trans b.2.2⟩
  rw [hw]
  have hrest : restOf db3.fs i = restOf db.fs i := h3r
  unfold restOf at hrest
  simp only [Prod.mk.injEq] at hrest
  obtain ⟨hd, _, _⟩ := hrest
  refine ⟨?_, ?_, ?_, ?_, h3d.1, h3d.2, h3i⟩
  · show idxFile ((db3.fs.apply .removeLog).apply (.removeIdx (1 - i))) i = _
    rw [← h3f]
    unfold idxFile FS.apply
    by_cases h : i = 0
    · simp [h]
    · have : 1 - i = 0 := by omega
      simp [h, this]
  · show otherIdx ((db3.fs.apply .removeLog).apply (.removeIdx (1 - i))) i = none
    unfold otherIdx FS.apply
    by_cases h : i = 0
    · simp [h]
    · have : 1 - i = 0 := by omega
      simp [h, this]
  · show ((db3.fs.apply .removeLog).apply (.removeIdx (1 - i))).log = none
    unfold FS.apply
    by_cases h : 1 - i = 0 <;> simp [h]
  · show ((db3.fs.apply .removeLog).apply (.removeIdx (1 - i))).dats = db.fs.dats
    rw [← hd]
    unfold FS.apply
    by_cases h : 1 - i = 0 <;> simp [h]

/-! ### generic bufio lemma (any sink that appends to one file) -/

theorem bufWrite_gen {β : Type} (sink : DB → Bytes → DB) (file : DB → Option Bytes) (g : DB → β)
    (hs : ∀ d b, file (sink d b) = (file d).map (· ++ b)) (hg : ∀ d b, g (sink d b) = g d)
    (db : DB) (w : BufW) (p : Bytes) :
    (file (bufWrite sink db w p).1).map (· ++ (bufWrite sink db w p).2.buf) = ((file db).map (· ++ w.buf)).map (· ++ p) ∧
    g (bufWrite sink db w p).1 = g db := by
  unfold bufWrite
  split
  · constructor
    · cases file db <;> simp [List.append_assoc]
    · rfl
  · split
    · rename_i he
      have hb : w.buf = [] := by simpa using he
      constructor
      · rw [hs]
        cases file db <;> simp [hb]
      · exact hg db p
    · dsimp only
      split
      · constructor
        · rw [hs, hs]
          cases file db with
          | none => rfl
          | some f =>
            simp only [Option.map_some, List.append_nil, Option.some.injEq, List.append_assoc]
            rw [List.take_append_drop]
        · rw [hg, hg]
      · constructor
        · rw [hs]
          cases file db with
          | none => rfl
          | some f =>
            simp only [Option.map_some, Option.some.injEq, List.append_assoc]
            rw [List.take_append_drop]
        · rw [hg]

theorem bufFlush_gen {β : Type} (sink : DB → Bytes → DB) (file : DB → Option Bytes) (g : DB → β)
    (hs : ∀ d b, file (sink d b) = (file d).map (· ++ b)) (hg : ∀ d b, g (sink d b) = g d)
    (db : DB) (w : BufW) :
    file (bufFlush sink db w) = (file db).map (· ++ w.buf) ∧ g (bufFlush sink db w) = g db := by
  unfold bufFlush
  split
  · rename_i he
    have hb : w.buf = [] := by simpa using he
    constructor
    · cases file db <;> simp [hb]
    · rfl
  · exact ⟨hs db _, hg db _⟩

/-! ### data files -/

theorem dlookup_dset_same (s : Nat) (b : Bytes) (l : List (Nat × Bytes)) : dlookup s (dset s b l) = some b := by
  induction l with
  | nil => simp [dset, dlookup]
  | cons h t ih =>
    obtain ⟨x, c⟩ := h
    by_cases hx : x = s
    · simp [dset, dlookup, hx]
    · simp [dset, dlookup, hx, ih]

theorem dlookup_dset_other (s t : Nat) (b : Bytes) (l : List (Nat × Bytes)) (h : t ≠ s) :
    dlookup t (dset s b l) = dlookup t l := by
  induction l with
  | nil => simp [dset, dlookup, Ne.symm h]
  | cons hd tl ih =>
    obtain ⟨x, c⟩ := hd
    by_cases hx : x = s
    · subst hx
      simp [dset, dlookup, Ne.symm h]
    · by_cases hxt : x = t
      · subst hxt; simp [dset, dlookup, h]
      · simp [dset, dlookup, hx, hxt, ih]

theorem dlookup_derase_other (s t : Nat) (l : List (Nat × Bytes)) (h : t ≠ s) :
    dlookup t (derase s l) = dlookup t l := by
  induction l with
  | nil => rfl
  | cons hd tl ih =>
    obtain ⟨x, c⟩ := hd
    by_cases hx : x = s
    · subst hx
      simp [derase, dlookup, Ne.symm h, ih]
    · by_cases hxt : x = t
      · subst hxt; simp [derase, dlookup, h]
      · simp [derase, dlookup, hx, hxt, ih]

theorem writeAt_end (old b : Bytes) : writeAt old old.length b = old ++ b := by
  unfold writeAt
  simp

/-- the file `<seq>.dat` -/
def datFile (seq : Nat) (db : DB) : Option Bytes := dlookup seq db.fs.dats

theorem defragSink_file (seq : Nat) (db : DB) (b : Bytes) :
    datFile seq (defragSink seq db b) = (datFile seq db).map (· ++ b) := by
  unfold datFile defragSink emit FS.apply
  cases h : dlookup seq db.fs.dats with
  | none => simp [h]
  | some old => simp [h, dlookup_dset_same, writeAt_end]

/-- everything the data sink does not touch: the index files, the other data files, and the in-memory state -/
def datRest (seq : Nat) (db : DB) :=
  (db.fs.idx0, db.fs.idx1, db.fs.log, (fun t => if t = seq then none else dlookup t db.fs.dats),
   db.index, db.lastPos, db.dataSeq, db.failed, db.datIdx, db.verSeq)

theorem defragSink_rest (seq : Nat) (db : DB) (b : Bytes) : datRest seq (defragSink seq db b) = datRest seq db := by
  unfold datRest defragSink emit FS.apply
  cases h : dlookup seq db.fs.dats with
  | none => simp [h]
  | some old =>
    simp only [h, Prod.mk.injEq, true_and, and_true]
    funext t
    by_cases ht : t = seq
    · simp [ht]
    · simp [ht, dlookup_dset_other _ _ _ _ ht]

/-! ### the data file written by defrag -/

/-- the records as defrag lays them out in the new data file, starting at offset `base` -/
def layout (seq : Nat) : Nat → List (Key × Rec) → List (Key × Rec)
  | _, [] => []
  | base, (k, r) :: t => (k, { r with pos := u32 base, seq := seq }) :: layout seq (base + (r.data.getD []).length) t

def valsOf (l : List (Key × Rec)) : List Bytes := l.map fun kr => kr.2.data.getD []

/-- the state outside the new data file and the write position -/
def datRest' (seq : Nat) (db : DB) :=
  (db.fs.idx0, db.fs.idx1, db.fs.log, (fun t => if t = seq then none else dlookup t db.fs.dats),
   db.index, db.dataSeq, db.failed, db.datIdx, db.verSeq)

theorem datRest'_of (seq : Nat) (a b : DB) (h : datRest seq a = datRest seq b) : datRest' seq a = datRest' seq b := by
  unfold datRest at h
  unfold datRest'
  simp only [Prod.mk.injEq] at h ⊢
  obtain ⟨h1, h2, h3, h4, h5, _, h7, h8, h9, h10⟩ := h
  exact ⟨h1, h2, h3, h4, h5, h7, h8, h9, h10⟩

theorem defragRec_exact (s : Nat) (d : DB) (w : BufW) (acc : List (Key × Rec)) (kr : Key × Rec)
    (hf : d.failed = none) (he : d.eager = eg) (hc : RecCached eg kr.2) :
    defragRec (defragSink s) (d, w, acc) kr =
      ({ (bufWrite (defragSink s) d w (kr.2.data.getD [])).1 with lastPos := d.lastPos + (kr.2.data.getD []).length },
       (bufWrite (defragSink s) d w (kr.2.data.getD [])).2,
       acc ++ [(kr.1, { kr.2 with pos := u32 d.lastPos, seq := d.dataSeq })]) := by
  obtain ⟨_, hg⟩ := bufWrite_gen (defragSink s) (datFile s) (datRest s) (defragSink_file s) (defragSink_rest s) d w
    (kr.2.data.getD [])
  have hlp : (bufWrite (defragSink s) d w (kr.2.data.getD [])).1.lastPos = d.lastPos := by
    have := congrArg (fun x => x.2.2.2.2.2.1) hg
    exact this
  have hds : (bufWrite (defragSink s) d w (kr.2.data.getD [])).1.dataSeq = d.dataSeq := by
    have := congrArg (fun x => x.2.2.2.2.2.2.1) hg
    exact this
  have hee : (bufWrite (defragSink s) d w (kr.2.data.getD [])).1.eager = eg :=
    (frame_bufWrite (defragSink s) (defragSink_framed s) d w (kr.2.data.getD [])).eager.trans he
  unfold defragRec
  simp only [hf, loadrec_cached d.fs kr.2 hc, hlp, hds, hee]
  rw [freerec_cached _ _ (by exact hc.2)]

theorem defragFold_layout (s : Nat) (l : List (Key × Rec)) (hl : AllCached eg l) (d : DB) (w : BufW)
    (acc : List (Key × Rec)) (hf : d.failed = none) (he : d.eager = eg) :
    ∃ d' w', l.foldl (defragRec (defragSink s)) (d, w, acc) = (d', w', acc ++ layout d.dataSeq d.lastPos l) ∧
      (datFile s d').map (· ++ w'.buf) = ((datFile s d).map (· ++ w.buf)).map (· ++ (valsOf l).flatten) ∧
      d'.lastPos = d.lastPos + (valsOf l).flatten.length ∧
      datRest' s d' = datRest' s d := by
  induction l generalizing d w acc with
  | nil =>
    refine ⟨d, w, by simp [layout], ?_, by simp [valsOf], rfl⟩
    cases datFile s d <;> simp [valsOf]
  | cons kr t ih =>
    have hc := hl kr List.mem_cons_self
    obtain ⟨hfile, hg⟩ := bufWrite_gen (defragSink s) (datFile s) (datRest s) (defragSink_file s) (defragSink_rest s)
      d w (kr.2.data.getD [])
    have hg' := datRest'_of s _ _ hg
    -- the state after this record
    let d1 : DB := { (bufWrite (defragSink s) d w (kr.2.data.getD [])).1 with
      lastPos := d.lastPos + (kr.2.data.getD []).length }
    have hd1r : datRest' s d1 = datRest' s d := hg'
    have hd1f : d1.failed = none := by
      have := congrArg (fun x => x.2.2.2.2.2.2.1) hd1r
      exact this.trans hf
    have hd1s : d1.dataSeq = d.dataSeq := by
      have := congrArg (fun x => x.2.2.2.2.2.1) hd1r
      exact this
    obtain ⟨d', w', h1, h2, h3, h4⟩ := ih (fun x hx => hl x (List.mem_cons_of_mem _ hx)) d1
      (bufWrite (defragSink s) d w (kr.2.data.getD [])).2 (acc ++ [(kr.1, { kr.2 with pos := u32 d.lastPos, seq := d.dataSeq })]) hd1f
      ((frame_bufWrite (defragSink s) (defragSink_framed s) d w (kr.2.data.getD [])).eager.trans he)
    refine ⟨d', w', ?_, ?_, ?_, h4.trans hd1r⟩
    · simp only [List.foldl_cons, defragRec_exact s d w acc kr hf he hc]
      rw [h1, hd1s]
      obtain ⟨k, r⟩ := kr
      simp [layout, List.append_assoc]
      rfl
    · rw [h2]
      show Option.map _ (Option.map _ (datFile s (bufWrite (defragSink s) d w (kr.2.data.getD [])).1)) = _
      rw [hfile]
      cases datFile s d <;> simp [valsOf, List.append_assoc]
    · rw [h3]
      show d.lastPos + (kr.2.data.getD []).length + _ = _
      simp [valsOf, List.length_append]
      omega

/-! ### cleanupold never touches the index files, the current data file or a used data file -/

/-- what cleanupold preserves, for a data file `keep` that is current or used -/
def cleanKeeps (keep : Nat) (db : DB) :=
  (db.fs.idx0, db.fs.idx1, db.fs.log, dlookup keep db.fs.dats, db.dataSeq, db.index, db.failed,
   db.datIdx, db.verSeq, db.maxSeq, db.volatile, db.opts)

theorem cleanupold_keeps (db : DB) (used : List Nat) (keep : Nat) (hk : keep = db.dataSeq ∨ used.contains keep = true) :
    cleanKeeps keep (cleanupold db used) = cleanKeeps keep db := by
  unfold cleanupold
  have hstep : ∀ (l : List Nat) (d : DB), d.dataSeq = db.dataSeq →
      cleanKeeps keep (l.foldl (fun db s =>
        if s ≠ db.dataSeq ∧ ¬ used.contains s then emit db "qdb.cleanupold:removed" (.removeDat s) else db) d)
        = cleanKeeps keep d := by
    intro l
    induction l with
    | nil => intro d _; rfl
    | cons x t ih =>
      intro d hd
      simp only [List.foldl_cons]
      split
      · rename_i hx
        have hne : keep ≠ x := by
          rcases hk with h | h
          · rw [h, ← hd]; exact fun e => hx.1 e.symm
          · intro e; rw [e] at h; exact hx.2 h
        rw [ih _ (by exact hd)]
        unfold cleanKeeps emit FS.apply
        simp only [Prod.mk.injEq, and_true, true_and]
        exact dlookup_derase_other x keep d.fs.dats hne
      · exact ih d hd
  exact hstep _ db rfl

theorem writedatfile_dataSeq (db : DB) : (writedatfile db).dataSeq = db.dataSeq := by
  have a := fun (i : Nat) (d : DB) (w : BufW) => (bufFlush_gen (idxSink i) (fun _ => (none : Option Bytes)) (fun d => d.dataSeq)
    (fun _ _ => rfl) (fun _ _ => rfl) d w).2
  have b : ∀ (i : Nat) (ps : List Bytes) (d : DB) (w : BufW), (bufWriteAll (idxSink i) d w ps).1.dataSeq = d.dataSeq := by
    intro i ps
    unfold bufWriteAll
    induction ps with
    | nil => intro d w; rfl
    | cons p t ih =>
      intro d w
      simp only [List.foldl_cons]
      rw [ih]
      exact (bufWrite_gen (idxSink i) (fun _ => (none : Option Bytes)) (fun d => d.dataSeq)
        (fun _ _ => rfl) (fun _ _ => rfl) d w p).2
  unfold writedatfile
  dsimp only [emit]
  rw [a, b]

/-! ### what defrag leaves on disk -/

theorem defragStart_disk (db : DB) :
    datFile (u32 (db.dataSeq + 1)) (defragStart db) = some (le32 (u32 (db.dataSeq + 1))) ∧ (defragStart db).lastPos = 4 ∧ (defragStart db).dataSeq = (u32 (db.dataSeq + 1)) ∧
    (defragStart db).index = db.index ∧ (defragStart db).failed = db.failed ∧
    (defragStart db).datIdx = db.datIdx ∧ (defragStart db).verSeq = db.verSeq := by
  unfold defragStart checkDat
  simp only [Bool.false_eq_true, ↓reduceIte]
  refine ⟨?_, ?_, ?_, ?_, ?_, ?_, ?_⟩ <;> try trivial
  unfold datFile emit FS.apply
  simp only [dlookup_dset_same]
  simp [writeAt]

/-- After defrag of a cached store: the index is the laid-out one, the new data file holds the header and
    all values in order, the new snapshot describes exactly that index, and there is neither a log nor
    another snapshot. -/
theorem defrag_disk (db : DB) (h : Cached db) :
    (defrag db).failed = none ∧
    (defrag db).index = layout (u32 (db.dataSeq + 1)) 4 db.index ∧
    idxFile (defrag db).fs (1 - db.datIdx) = some (snapBytes (u32 (db.verSeq + 1)) (layout (u32 (db.dataSeq + 1)) 4 db.index)) ∧
    otherIdx (defrag db).fs (1 - db.datIdx) = none ∧
    (defrag db).fs.log = none ∧
    dlookup (u32 (db.dataSeq + 1)) (defrag db).fs.dats = some (le32 (u32 (db.dataSeq + 1)) ++ (valsOf db.index).flatten) ∧
    (defrag db).dataSeq = (u32 (db.dataSeq + 1)) := by
  obtain ⟨hs1, hs2, hs3, hs4, hs5, hs8, hs9⟩ := defragStart_disk db
  have hf0 : (defragStart db).failed = none := hs5.trans h.1
  obtain ⟨d', w', hfold, hstream, _, hrest⟩ :=
    defragFold_layout (u32 (db.dataSeq + 1)) db.index h.2 (defragStart db) {} [] hf0 (defragStart_frame db).eager
  rw [hs3, hs2, List.nil_append] at hfold
  have hd's : d'.dataSeq = (u32 (db.dataSeq + 1)) := by
    have := congrArg (fun x => x.2.2.2.2.2.1) hrest
    exact this.trans hs3
  have hd'f : d'.failed = none := by
    have := congrArg (fun x => x.2.2.2.2.2.2.1) hrest
    exact this.trans hf0
  have hd'i : d'.datIdx = db.datIdx := by
    have := congrArg (fun x => x.2.2.2.2.2.2.2.1) hrest
    exact this.trans hs8
  have hd'v : d'.verSeq = db.verSeq := by
    have := congrArg (fun x => x.2.2.2.2.2.2.2.2) hrest
    exact this.trans hs9
  have hdef : defrag db = defragFinish (u32 (db.dataSeq + 1)) d' w' (layout (u32 (db.dataSeq + 1)) 4 db.index) := by
    unfold defrag
    simp only [hs4, hs3, hfold, hd'f]
  rw [hdef]
  -- the steps of defragFinish
  let recs := layout (u32 (db.dataSeq + 1)) 4 db.index
  let e1 : DB := { d' with index := recs }
  let e2 := bufFlush (defragSink (u32 (db.dataSeq + 1))) e1 w'
  let e3 := writedatfile e2
  have hfin : defragFinish (u32 (db.dataSeq + 1)) d' w' recs =
      { cleanupold e3 (if recs.isEmpty then [] else [(u32 (db.dataSeq + 1))]) with extra := 0, pending := [] } := rfl
  obtain ⟨hfl1, hfl2⟩ := bufFlush_gen (defragSink (u32 (db.dataSeq + 1))) (datFile (u32 (db.dataSeq + 1))) (datRest (u32 (db.dataSeq + 1))) (defragSink_file (u32 (db.dataSeq + 1))) (defragSink_rest (u32 (db.dataSeq + 1))) e1 w'
  have he2file : datFile (u32 (db.dataSeq + 1)) e2 = some (le32 (u32 (db.dataSeq + 1)) ++ (valsOf db.index).flatten) := by
    rw [hfl1]
    show Option.map _ (datFile (u32 (db.dataSeq + 1)) d') = _
    rw [hstream, hs1]
    simp
  have he2r := hfl2
  have he2idx : e2.index = recs := by
    have := congrArg (fun x => x.2.2.2.2.1) he2r
    exact this
  have he2s : e2.dataSeq = (u32 (db.dataSeq + 1)) := by
    have := congrArg (fun x => x.2.2.2.2.2.2.1) he2r
    exact this.trans hd's
  have he2f : e2.failed = none := by
    have := congrArg (fun x => x.2.2.2.2.2.2.2.1) he2r
    exact this.trans hd'f
  have he2i : e2.datIdx = db.datIdx := by
    have := congrArg (fun x => x.2.2.2.2.2.2.2.2.1) he2r
    exact this.trans hd'i
  have he2v : e2.verSeq = db.verSeq := by
    have := congrArg (fun x => x.2.2.2.2.2.2.2.2.2) he2r
    exact this.trans hd'v
  obtain ⟨w1, w2, w3, w4, _, _, w7⟩ := writedatfile_disk e2
  have he3fr := frame_writedatfile e2
  have he3s : e3.dataSeq = (u32 (db.dataSeq + 1)) := (writedatfile_dataSeq e2).trans he2s
  have hck := cleanupold_keeps e3 (if recs.isEmpty then [] else [(u32 (db.dataSeq + 1))]) (u32 (db.dataSeq + 1)) (Or.inl he3s.symm)
  unfold cleanKeeps at hck
  simp only [Prod.mk.injEq] at hck
  obtain ⟨c0, c1, c2, c3, c4, c5, c6, _⟩ := hck
  rw [hfin]
  refine ⟨?_, ?_, ?_, ?_, ?_, ?_, ?_⟩
  · exact c6.trans (he3fr.failed.trans he2f)
  · exact c5.trans (w7.trans he2idx)
  · show idxFile (cleanupold e3 _).fs (1 - db.datIdx) = _
    have : idxFile (cleanupold e3 (if recs.isEmpty then [] else [(u32 (db.dataSeq + 1))])).fs (1 - db.datIdx) = idxFile e3.fs (1 - db.datIdx) := by
      unfold idxFile; rw [c0, c1]
    rw [this, ← he2i, w1, he2v, he2idx]
  · show otherIdx (cleanupold e3 _).fs (1 - db.datIdx) = none
    have : otherIdx (cleanupold e3 (if recs.isEmpty then [] else [(u32 (db.dataSeq + 1))])).fs (1 - db.datIdx) = otherIdx e3.fs (1 - db.datIdx) := by
      unfold otherIdx; rw [c0, c1]
    rw [this, ← he2i, w2]
  · exact c2.trans w3
  · show dlookup (u32 (db.dataSeq + 1)) (cleanupold e3 _).fs.dats = _
    rw [c3]
    show dlookup (u32 (db.dataSeq + 1)) (writedatfile e2).fs.dats = _
    rw [w4]
    exact he2file
  · exact c4.trans he3s

end GocoinV.Proofs.C19
