/-
  Proofs.C09Size — `btc.TxSize` walks exactly the byte layout `btc.NewTx` decodes: `txSize_eq` says that
  `Wire.txSize b` is the `consumed` of the rule-free decoder `decodeTxWith vlenWire false b` (no superfluous-witness
  and no unknown-optional-data refusal; TxSize has neither), 0 when that decoder fails. Core tactics only.
-/
import GocoinV.Proofs.C09
namespace GocoinV.Wire
open GocoinV GocoinV.CompactSize

/-- one step of `skipN` -/
def skipOne (f : Bytes → Option Nat) (b : Bytes) : Option Bytes :=
  match f b with
  | none => none
  | some k => if k = 0 ∨ k > b.length then none else some (b.drop k)

theorem skipN_succ (f : Bytes → Option Nat) (n : Nat) (b : Bytes) :
    skipN f (n+1) b = (skipOne f b).bind (skipN f n) := by
  simp only [skipN, skipOne]
  cases f b with
  | none => rfl
  | some k => by_cases hk : k = 0 ∨ k > b.length <;> simp [hk]

theorem decodeN_succ_snd {α : Type} (g : Bytes → Option (α × Bytes)) (n : Nat) (b : Bytes) :
    (decodeN g (n+1) b).map (·.2) = ((g b).map (·.2)).bind (fun b' => (decodeN g n b').map (·.2)) := by
  simp only [decodeN]
  cases g b with
  | none => rfl
  | some p =>
    obtain ⟨x, b'⟩ := p
    simp only [Option.map_some, Option.bind_some]
    cases decodeN g n b' with
    | none => rfl
    | some q => rfl

theorem skipN_eq {α : Type} (f : Bytes → Option Nat) (g : Bytes → Option (α × Bytes))
    (h : ∀ b, skipOne f b = (g b).map (·.2)) :
    ∀ (n : Nat) (b : Bytes), skipN f n b = (decodeN g n b).map (·.2) := by
  intro n
  induction n with
  | zero => intro b; simp [skipN, decodeN]
  | succ n ih =>
    intro b
    rw [skipN_succ, decodeN_succ_snd, h b]
    congr 1
    funext b'
    exact ih b'

theorem readN_eq_some {k : Nat} {b : Bytes} (h : k ≤ b.length) : readN k b = some (b.take k, b.drop k) := by
  simp [readN, h]
theorem readN_eq_none {k : Nat} {b : Bytes} (h : ¬ k ≤ b.length) : readN k b = none := by
  simp [readN, h]

theorem vlenWire_rest {b r : Bytes} {v : Nat} (h : vlenWire b = some (v, r)) :
    r = b.drop (b.length - r.length) ∧ r.length ≤ b.length ∧ 1 ≤ b.length - r.length := by
  obtain ⟨hb, _, _⟩ := vlenWire_spec h
  have hl := congrArg List.length hb
  simp only [List.length_append] at hl
  have hp := putULe_ne_nil v
  refine ⟨?_, by omega, by omega⟩
  have : b.length - r.length = (putULe v).length := by omega
  rw [this]
  conv => rhs; rw [hb]
  simp

/-- `TxInSize` skips what `NewTxIn` reads -/
theorem skipOne_txIn (b : Bytes) : skipOne txInSize b = (decodeTxIn b).map (·.2) := by
  unfold skipOne txInSize decodeTxIn decodeTxInWith
  by_cases h36 : 36 ≤ b.length
  · have h32 : 32 ≤ b.length := by omega
    rw [readN_eq_some h36, readN_eq_some h32]
    simp only
    have h4 : 4 ≤ (b.drop 32).length := by simp; omega
    rw [readN_eq_some h4]
    simp only [List.drop_drop]
    cases hv : vlenWire (b.drop 36) with
    | none => simp
    | some p =>
      obtain ⟨le', r⟩ := p
      obtain ⟨hb, hle, _⟩ := vlenWire_spec hv
      obtain ⟨hr, hrl, hr1⟩ := vlenWire_rest hv
      simp only
      rw [readN_eq_some hle]
      simp only
      have hdl : (b.drop 36).length = b.length - 36 := by simp
      by_cases h5 : 4 ≤ (r.drop le').length
      · rw [readN_eq_some h5]
        simp only [List.length_drop] at h5
        have hk : ¬ (36 + ((b.drop 36).length - r.length) + le' + 4 = 0 ∨
            36 + ((b.drop 36).length - r.length) + le' + 4 > b.length) := by omega
        simp only [hk, ↓reduceIte, Option.map_some, Option.some.injEq, List.drop_drop]
        conv => rhs; rw [hr]
        simp only [List.drop_drop]
        congr 1; try omega
      · rw [readN_eq_none h5]
        simp only [List.length_drop] at h5
        have hk : (36 + ((b.drop 36).length - r.length) + le' + 4 = 0 ∨
            36 + ((b.drop 36).length - r.length) + le' + 4 > b.length) := by omega
        rw [if_pos hk]; rfl
  · rw [readN_eq_none h36]
    by_cases h32 : 32 ≤ b.length
    · rw [readN_eq_some h32]
      simp only
      have h4 : ¬ 4 ≤ (b.drop 32).length := by simp; omega
      rw [readN_eq_none h4]
      simp
    · rw [readN_eq_none h32]
      simp

/-- `TxOutSize` skips what `NewTxOut` reads -/
theorem skipOne_txOut (b : Bytes) : skipOne txOutSize b = (decodeTxOut b).map (·.2) := by
  unfold skipOne txOutSize decodeTxOut decodeTxOutWith
  by_cases h8 : 8 ≤ b.length
  · rw [readN_eq_some h8]
    simp only
    cases hv : vlenWire (b.drop 8) with
    | none => simp
    | some p =>
      obtain ⟨le', r⟩ := p
      obtain ⟨hb, hle, _⟩ := vlenWire_spec hv
      obtain ⟨hr, hrl, hr1⟩ := vlenWire_rest hv
      simp only
      rw [readN_eq_some hle]
      have hdl : (b.drop 8).length = b.length - 8 := by simp
      have hk : ¬ (8 + ((b.drop 8).length - r.length) + le' = 0 ∨
          8 + ((b.drop 8).length - r.length) + le' > b.length) := by omega
      simp only [hk, ↓reduceIte, Option.map_some, Option.some.injEq]
      conv => rhs; rw [hr]
      simp only [List.drop_drop]
      try (congr 1; omega)
  · rw [readN_eq_none h8]
    simp

/-- the witness-item step of `TxSize` skips what `NewTx` reads for one item -/
theorem skipOne_item (b : Bytes) : skipOne itemSize b = (decodeItem b).map (·.2) := by
  unfold skipOne itemSize decodeItem decodeItemWith
  cases hv : vlenWire b with
  | none => simp
  | some p =>
    obtain ⟨le', r⟩ := p
    obtain ⟨hb, hle, _⟩ := vlenWire_spec hv
    obtain ⟨hr, hrl, hr1⟩ := vlenWire_rest hv
    simp only
    rw [readN_eq_some hle]
    have hk : ¬ (b.length - r.length + le' = 0 ∨ b.length - r.length + le' > b.length) := by omega
    simp only [hk, ↓reduceIte, Option.map_some, Option.some.injEq]
    conv => rhs; rw [hr]
    simp only [List.drop_drop]

theorem skipStack_eq (b : Bytes) : skipStack b = (decodeStack b).map (·.2) := by
  unfold skipStack decodeStack decodeStackWith
  cases hv : vlenWire b with
  | none => rfl
  | some p =>
    obtain ⟨n, r⟩ := p
    simp only
    exact skipN_eq itemSize (decodeItemWith vlenWire) skipOne_item n r

theorem skipStacks_eq : ∀ (n : Nat) (b : Bytes), skipStacks n b = (decodeN decodeStack n b).map (·.2) := by
  intro n
  induction n with
  | zero => intro b; simp [skipStacks, decodeN]
  | succ n ih =>
    intro b
    rw [decodeN_succ_snd]
    simp only [skipStacks]
    rw [skipStack_eq]
    cases decodeStack b with
    | none => rfl
    | some p => simp only [Option.map_some, Option.bind_some]; exact ih _

theorem decodeN_rest_le {α : Type} (g : Bytes → Option (α × Bytes))
    (hg : ∀ b x r, g b = some (x, r) → r.length ≤ b.length) :
    ∀ (n : Nat) (b : Bytes) (xs : List α) (r : Bytes), decodeN g n b = some (xs, r) → r.length ≤ b.length ∧ xs.length = n := by
  intro n
  induction n with
  | zero =>
    intro b xs r h
    simp only [decodeN, Option.some.injEq, Prod.mk.injEq] at h
    obtain ⟨rfl, rfl⟩ := h
    simp
  | succ n ih =>
    intro b xs r h
    simp only [decodeN] at h
    split at h
    · simp at h
    · rename_i x b' hfx
      split at h
      · simp at h
      · rename_i ys b'' hrec
        simp only [Option.some.injEq, Prod.mk.injEq] at h
        obtain ⟨rfl, rfl⟩ := h
        have h1 := hg _ _ _ hfx
        have ⟨h2, h3⟩ := ih _ _ _ hrec
        exact ⟨by omega, by simp [h3]⟩

theorem decodeTxIn_rest_le (b : Bytes) (x : TxIn) (r : Bytes) (h : decodeTxIn b = some (x, r)) : r.length ≤ b.length := by
  have := congrArg List.length (decodeTxIn_spec h)
  simp only [List.length_append] at this; omega
theorem decodeTxOut_rest_le (b : Bytes) (x : TxOut) (r : Bytes) (h : decodeTxOut b = some (x, r)) : r.length ≤ b.length := by
  have := congrArg List.length (decodeTxOut_spec h)
  simp only [List.length_append] at this; omega
theorem decodeStack_rest_le (b : Bytes) (x : List Bytes) (r : Bytes) (h : decodeStack b = some (x, r)) : r.length ≤ b.length := by
  have := congrArg List.length (decodeStack_spec h)
  simp only [List.length_append] at this; omega

/-- **`btc.TxSize` = bytes consumed by the rule-free decoder**, 0 when that decoder fails. -/
theorem txSize_eq (b : Bytes) :
    txSize b = ((decodeTxWith vlenWire false b).map (·.consumed)).getD 0 := by
  unfold txSize decodeTxWith
  cases e1 : readN 4 b with
  | none => rfl
  | some p1 =>
  obtain ⟨ver, b1⟩ := p1
  simp only
  cases e2 : readMarker b1 with
  | none => rfl
  | some p2 =>
  obtain ⟨segwit, b2⟩ := p2
  simp only
  cases e3 : vlenWire b2 with
  | none => rfl
  | some p3 =>
  obtain ⟨nin, b3⟩ := p3
  simp only
  rw [skipN_eq txInSize (decodeTxInWith vlenWire) skipOne_txIn nin b3]
  cases e4 : decodeN (decodeTxInWith vlenWire) nin b3 with
  | none => rfl
  | some p4 =>
  obtain ⟨ins, b4⟩ := p4
  simp only [Option.map_some]
  cases e5 : vlenWire b4 with
  | none => rfl
  | some p5 =>
  obtain ⟨nout, b5⟩ := p5
  simp only [Bool.false_and, Bool.false_eq_true, ↓reduceIte]
  rw [skipN_eq txOutSize (decodeTxOutWith vlenWire) skipOne_txOut nout b5]
  cases e6 : decodeN (decodeTxOutWith vlenWire) nout b5 with
  | none => rfl
  | some p6 =>
  obtain ⟨outs, b6⟩ := p6
  simp only [Option.map_some]
  -- suffix lengths
  have ⟨a1, l1⟩ := readN_spec e1
  have hm := readMarker_spec e2
  have ⟨_, r3, _⟩ := vlenWire_rest e3
  have ⟨r4, n4⟩ := decodeN_rest_le (decodeTxInWith vlenWire) decodeTxIn_rest_le _ _ _ _ e4
  have ⟨_, r5, _⟩ := vlenWire_rest e5
  have ⟨r6, _⟩ := decodeN_rest_le (decodeTxOutWith vlenWire) decodeTxOut_rest_le _ _ _ _ e6
  have hb1 : b1.length + 4 = b.length := by
    have := congrArg List.length a1
    simp only [List.length_append] at this; omega
  have hb2 : b2.length ≤ b1.length := by
    rcases hm with ⟨_, h⟩ | ⟨_, h⟩
    · rw [h]; simp only [List.length_cons]; omega
    · rw [h]; exact Nat.le_refl _
  cases segwit with
  | false =>
    simp only [Bool.false_eq_true, ↓reduceIte]
    by_cases h4 : 4 ≤ b6.length
    · rw [readN_eq_some h4]
      simp only [h4, ↓reduceIte, Option.map_some, Option.getD_some, List.length_drop]
      omega
    · rw [readN_eq_none h4]
      simp [h4]
  | true =>
    simp only [↓reduceIte]
    rw [n4, skipStacks_eq]
    cases e7 : decodeN decodeStack nin b6 with
    | none =>
      have : decodeN (decodeStackWith vlenWire) nin b6 = none := e7
      simp [this]
    | some p7 =>
      obtain ⟨wit, b7⟩ := p7
      have e7' : decodeN (decodeStackWith vlenWire) nin b6 = some (wit, b7) := e7
      have ⟨r7, _⟩ := decodeN_rest_le (decodeStackWith vlenWire) decodeStack_rest_le _ _ _ _ e7'
      simp only [e7', Option.map_some]
      by_cases h4 : 4 ≤ b7.length
      · rw [readN_eq_some h4]
        simp only [h4, ↓reduceIte, Option.map_some, Option.getD_some, List.length_drop]
        omega
      · rw [readN_eq_none h4]
        simp [h4]

/-- the strict decoder only removes accepted inputs: what it accepts, the rule-free one accepts identically -/
theorem decodeTxWith_strict_imp {rd : Bytes → Option (Nat × Bytes)} {b : Bytes} {d : Decoded}
    (h : decodeTxWith rd true b = some d) : decodeTxWith rd false b = some d := by
  unfold decodeTxWith at h ⊢
  cases e1 : readN 4 b with
  | none => simp [e1] at h
  | some p1 =>
  obtain ⟨ver, b1⟩ := p1
  simp only [e1] at h ⊢
  cases e2 : readMarker b1 with
  | none => simp [e2] at h
  | some p2 =>
  obtain ⟨segwit, b2⟩ := p2
  simp only [e2] at h ⊢
  cases e3 : rd b2 with
  | none => simp [e3] at h
  | some p3 =>
  obtain ⟨nin, b3⟩ := p3
  simp only [e3] at h ⊢
  cases e4 : decodeN (decodeTxInWith rd) nin b3 with
  | none => simp [e4] at h
  | some p4 =>
  obtain ⟨ins, b4⟩ := p4
  simp only [e4] at h ⊢
  cases e5 : rd b4 with
  | none => simp [e5] at h
  | some p5 =>
  obtain ⟨nout, b5⟩ := p5
  simp only [e5] at h ⊢
  split at h; · simp at h
  simp only [Bool.false_and, Bool.false_eq_true, ↓reduceIte]
  cases e6 : decodeN (decodeTxOutWith rd) nout b5 with
  | none => simp [e6] at h
  | some p6 =>
  obtain ⟨outs, b6⟩ := p6
  simp only [e6] at h ⊢
  cases segwit with
  | false => simpa using h
  | true =>
    simp only [↓reduceIte] at h ⊢
    cases e7 : decodeN (decodeStackWith rd) ins.length b6 with
    | none => simp [e7] at h
    | some p7 =>
      obtain ⟨wit, b7⟩ := p7
      simp only [e7] at h ⊢
      split at h; · simp at h
      simpa using h

end GocoinV.Wire
