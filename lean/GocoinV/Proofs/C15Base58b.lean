/-
  Proofs.C15Base58b — the converse Base58 round trip: decode then encode is the identity on every
  accepted string (`encode_decode`), hence `Decodeb58` is injective on what it accepts (`decode_inj`).
-/
import GocoinV.Proofs.C15Base58
namespace GocoinV.Base58
open Gen.Base58Consts

theorem chr2int_inv_tab : ∀ i : Fin 256,
    (chr2int (UInt8.ofNat i.val)).all (fun d => decide (d < 58) && (digitChar d == UInt8.ofNat i.val)) = true := by
  decide +kernel

/-- a character that `b58chr2int` knows is the alphabet character of the index returned -/
theorem chr2int_inv (c : UInt8) (d : Nat) (h : chr2int c = some d) : d < 58 ∧ digitChar d = c := by
  have := chr2int_inv_tab ⟨c.toNat, c.toNat_lt⟩
  simp only [UInt8.ofNat_toNat] at this
  rw [h] at this
  simpa using this

/-- an accepted digit string is the image of a list of digits < 58 -/
theorem value?_digits (s : Bytes) : ∀ acc v, value? s acc = some v →
    ∃ ds : List Nat, (∀ d ∈ ds, d < 58) ∧ s = ds.map digitChar := by
  induction s with
  | nil => intro _ _ _; exact ⟨[], by simp, rfl⟩
  | cons c t ih =>
    intro acc v h
    unfold value? at h
    cases hc : chr2int c with
    | none => simp [hc] at h
    | some d =>
      simp only [hc] at h
      obtain ⟨ds, h1, h2⟩ := ih _ _ h
      obtain ⟨hd, he⟩ := chr2int_inv c d hc
      refine ⟨d :: ds, ?_, by simp [he, h2]⟩
      intro x hx
      rcases List.mem_cons.mp hx with rfl | hx
      · exact hd
      · exact h1 x hx

theorem digits_step (a d : Nat) (hd : d < 58) (hne : a * 58 + d ≠ 0) : digits (a * 58 + d) = digits a ++ [d] := by
  rw [digits]
  have h1 : (a * 58 + d) / 58 = a := by omega
  have h2 : (a * 58 + d) % 58 = d := by omega
  simp only [hne, ↓reduceDIte, h1, h2]

/-- the digits of the value of a digit list without a leading zero digit are that list -/
theorem digits_ofDigits (ds : List Nat) : ∀ acc, (∀ d ∈ ds, d < 58) →
    (acc ≠ 0 ∨ ∀ d t, ds = d :: t → d ≠ 0) → digits (ofDigits ds acc) = digits acc ++ ds := by
  induction ds with
  | nil => intro acc _ _; simp [ofDigits]
  | cons d t ih =>
    intro acc hlt hnz
    have hd : d < 58 := hlt d (by simp)
    have hne : acc * 58 + d ≠ 0 := by
      rcases hnz with h | h
      · omega
      · have := h d t rfl; omega
    simp only [ofDigits]
    rw [ih (acc * 58 + d) (fun x hx => hlt x (by simp [hx])) (Or.inl hne), digits_step acc d hd hne]
    simp

theorem digits_zero : digits 0 = [] := by rw [digits]; simp

theorem natBytes_zero : natBytes 0 = [] := by rw [natBytes]; simp

/-- `big.Int.Bytes` has no leading zero byte -/
theorem natBytes_head_ne_zero (n : Nat) : ∀ x t, natBytes n = x :: t → x ≠ 0 := by
  induction n using Nat.strongRecOn with
  | _ n ih =>
    intro x t hxt
    rw [natBytes] at hxt
    split at hxt
    · simp at hxt
    · rename_i h
      by_cases hq : n / 256 = 0
      · rw [hq, natBytes_zero] at hxt
        simp only [List.nil_append, List.cons.injEq] at hxt
        have hm : n % 256 = n := Nat.mod_eq_of_lt (by omega)
        intro hx0
        have : (UInt8.ofNat (n % 256)).toNat = 0 := by rw [hxt.1, hx0]; rfl
        rw [UInt8.toNat_ofNat'] at this
        omega
      · cases hdq : natBytes (n / 256) with
        | nil =>
          rw [natBytes] at hdq
          simp [hq] at hdq
        | cons d' t' =>
          rw [hdq] at hxt
          simp at hxt
          exact hxt.1 ▸ ih (n / 256) (by omega) d' t' hdq

theorem leVal_append (a b : Bytes) : leVal (a ++ b) = leVal a + 256 ^ a.length * leVal b := by
  induction a with
  | nil => simp [leVal]
  | cons x t ih =>
    simp only [List.cons_append, leVal, ih, List.length_cons, Nat.pow_succ]
    rw [Nat.mul_add, Nat.add_assoc]
    congr 1
    rw [← Nat.mul_assoc, Nat.mul_comm 256 (256 ^ t.length)]

theorem leVal_replicate_zero (k : Nat) : leVal (List.replicate k (0 : UInt8)) = 0 := by
  induction k with
  | zero => rfl
  | succ k ih => simp [List.replicate_succ, leVal, ih]

theorem beVal_zeros_append (k : Nat) (l : Bytes) : beVal (List.replicate k (0 : UInt8) ++ l) = beVal l := by
  unfold beVal
  rw [List.reverse_append, leVal_append, List.reverse_replicate, leVal_replicate_zero]
  simp

theorem beVal_natBytes (n : Nat) : beVal (natBytes n) = n := by
  induction n using Nat.strongRecOn with
  | _ n ih =>
    rw [natBytes]
    split
    · rename_i h; subst h; rfl
    · rename_i h
      have := ih (n / 256) (by omega)
      unfold beVal at this ⊢
      rw [List.reverse_append]
      simp only [List.reverse_cons, List.reverse_nil, List.nil_append, List.singleton_append, leVal, this]
      rw [UInt8.toNat_ofNat']
      omega

theorem takeWhile_eq_replicate (z : UInt8) (a : Bytes) :
    a.takeWhile (· == z) = List.replicate (a.takeWhile (· == z)).length z := by
  apply List.ext_getElem (by simp)
  intro i h1 h2
  simp only [List.getElem_replicate]
  have hall := List.all_eq_true.mp (List.all_takeWhile (l := a) (p := (· == z)))
  have := hall _ (List.getElem_mem h1)
  simpa using this

theorem dropWhile_head (p : UInt8 → Bool) : ∀ (l : Bytes) (x : UInt8) (t : Bytes),
    l.dropWhile p = x :: t → p x = false := by
  intro l
  induction l with
  | nil => intro x t h; simp at h
  | cons a r ih =>
    intro x t h
    by_cases hp : p a = true
    · rw [List.dropWhile_cons_of_pos hp] at h; exact ih x t h
    · rw [List.dropWhile_cons_of_neg hp] at h
      simp only [List.cons.injEq] at h
      rw [← h.1]; simpa using hp

/-- Base58 decode → encode: whatever `Decodeb58` accepts re-encodes to exactly the input string. -/
theorem encode_decode (s pkb : Bytes) (h : decode s = some pkb) : encode pkb = s := by
  unfold decode at h
  cases hv : value? s 0 with
  | none => simp [hv] at h
  | some bn =>
    simp only [hv] at h
    split at h
    · simp at h
    simp only [Option.some.injEq] at h
    -- split the string
    generalize hi : (s.takeWhile (· == digitChar 0)).length = i at h
    have hsplit : s = List.replicate i (digitChar 0) ++ s.dropWhile (· == digitChar 0) := by
      rw [← hi, ← takeWhile_eq_replicate, List.takeWhile_append_dropWhile]
    generalize hrest : s.dropWhile (· == digitChar 0) = rest at hsplit
    have hvr : value? rest 0 = some bn := by
      rw [hsplit, value?_replicate_zero] at hv; exact hv
    obtain ⟨ds, hlt, hds⟩ := value?_digits rest 0 bn hvr
    have hbn : bn = ofDigits ds 0 := by
      rw [hds, value?_map ds hlt] at hvr
      exact (Option.some.inj hvr).symm
    have hhead : ∀ d t, ds = d :: t → d ≠ 0 := by
      intro d t hdt hd0
      subst hdt; subst hd0
      simp only [List.map_cons] at hds
      have := dropWhile_head _ s _ _ (hrest.trans hds)
      simp at this
    have hdig : digits bn = ds := by
      rw [hbn, digits_ofDigits ds 0 hlt (Or.inr hhead), digits_zero]; rfl
    -- the decoded bytes
    subst h
    unfold encode
    have hlz : leadingZeros (List.replicate i (0 : UInt8) ++ natBytes bn) = i := by
      unfold leadingZeros
      rw [List.takeWhile_append_of_pos (by intro x hx; rw [List.eq_of_mem_replicate hx]; rfl)]
      have : (natBytes bn).takeWhile (· == 0) = [] := by
        cases hn : natBytes bn with
        | nil => rfl
        | cons x t =>
          have := natBytes_head_ne_zero bn x t hn
          rw [List.takeWhile_cons_of_neg (by simpa using this)]
      rw [this]; simp
    rw [hlz, beVal_zeros_append, beVal_natBytes, hdig, ← hds]
    exact hsplit.symm

/-- `Decodeb58` is injective on the strings it accepts: a payload has exactly one spelling -/
theorem decode_inj (s t pkb : Bytes) (hs : decode s = some pkb) (ht : decode t = some pkb) : s = t := by
  rw [← encode_decode s pkb hs, ← encode_decode t pkb ht]

end GocoinV.Base58
