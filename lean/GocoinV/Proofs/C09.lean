/-
  Proofs.C09 — helper lemmas for Props/C09.lean (wire format round trips). Core tactics only.
-/
import GocoinV.Model.Wire
namespace GocoinV.Wire
open GocoinV GocoinV.CompactSize

/-! ### readN -/

theorem readN_spec {k : Nat} {b x r : Bytes} (h : readN k b = some (x, r)) :
    b = x ++ r ∧ x.length = k := by
  unfold readN at h
  split at h
  · rename_i hk
    simp only [Option.some.injEq, Prod.mk.injEq] at h
    obtain ⟨rfl, rfl⟩ := h
    refine ⟨(List.take_append_drop k b).symm, ?_⟩
    simp [List.length_take]; omega
  · simp at h

theorem readN_append (x r : Bytes) : readN x.length (x ++ r) = some (x, r) := by
  unfold readN; simp

theorem readN_append' {k : Nat} (x r : Bytes) (hk : x.length = k) : readN k (x ++ r) = some (x, r) := by
  subst hk; exact readN_append x r

/-! ### CompactSize -/

theorem leBytes_leVal' (k : Nat) (bs : Bytes) (h : bs.length = k) : leBytes k (leVal bs) = bs := by
  subst h; exact leBytes_leVal bs

theorem u8_ofNat_toNat (h : UInt8) : UInt8.ofNat h.toNat = h := by
  simp

theorem vule_fd (t : Bytes) :
    vule (0xfd :: t) = (if t.length ≥ 2 then (leVal (t.take 2), 3) else (0, 0)) := by
  simp [vule]
theorem vule_fe (t : Bytes) :
    vule (0xfe :: t) = (if t.length ≥ 4 then (leVal (t.take 4), 5) else (0, 0)) := by
  have e : ((0xfe : UInt8) = 0xfd) = False := by decide
  simp [vule, e]
theorem vule_ff (t : Bytes) :
    vule (0xff :: t) = (if t.length ≥ 8 then (leVal (t.take 8), 9) else (0, 0)) := by
  have e : ((0xff : UInt8) = 0xfd) = False := by decide
  have e2 : ((0xff : UInt8) = 0xfe) = False := by decide
  simp [vule, e, e2]
theorem vule_small (hd : UInt8) (t : Bytes) (h1 : hd ≠ 0xfd) (h2 : hd ≠ 0xfe) (h3 : hd ≠ 0xff) :
    vule (hd :: t) = (hd.toNat, 1) := by
  simp [vule, h1, h2, h3]

theorem vlenWire_spec {b r : Bytes} {v : Nat} (h : vlenWire b = some (v, r)) :
    b = putULe v ++ r ∧ v ≤ r.length ∧ v < 2^64 := by
  unfold vlenWire at h
  cases b with
  | nil => simp [vule] at h
  | cons hd t =>
    by_cases h1 : hd = 0xfd
    · subst h1
      rw [vule_fd] at h
      by_cases ht : t.length ≥ 2
      · simp only [ht, ↓reduceIte] at h
        split at h
        · simp at h
        · rename_i hc
          simp only [Option.some.injEq, Prod.mk.injEq] at h
          obtain ⟨rfl, rfl⟩ := h
          have hlt := leVal_lt (t.take 2)
          have hl2 : (t.take 2).length = 2 := by simp [List.length_take]; omega
          rw [hl2] at hlt
          simp only [vlenSize] at hc
          have hge : ¬ leVal (t.take 2) < 0xfd := by
            intro hh; simp [hh] at hc
          refine ⟨?_, ?_, by omega⟩
          · have : putULe (leVal (t.take 2)) = 0xfd :: t.take 2 := by
              unfold putULe
              have h2 : leVal (t.take 2) < 0x10000 := by omega
              simp only [hge, h2, ↓reduceIte]
              rw [leBytes_leVal' 2 _ hl2]
            rw [this]
            simp [List.drop_succ_cons, List.take_append_drop]
          · simp only [List.length_cons, List.drop_succ_cons, List.length_drop] at hc ⊢
            omega
      · simp [ht] at h
    · by_cases h2 : hd = 0xfe
      · subst h2
        rw [vule_fe] at h
        by_cases ht : t.length ≥ 4
        · simp only [ht, ↓reduceIte] at h
          split at h
          · simp at h
          · rename_i hc
            simp only [Option.some.injEq, Prod.mk.injEq] at h
            obtain ⟨rfl, rfl⟩ := h
            have hlt := leVal_lt (t.take 4)
            have hl2 : (t.take 4).length = 4 := by simp [List.length_take]; omega
            rw [hl2] at hlt
            simp only [vlenSize] at hc
            have hge : ¬ leVal (t.take 4) < 0xfd := by
              intro hh; simp [hh] at hc
            have hge2 : ¬ leVal (t.take 4) < 0x10000 := by
              intro hh; simp [hge, hh] at hc
            refine ⟨?_, ?_, by omega⟩
            · have : putULe (leVal (t.take 4)) = 0xfe :: t.take 4 := by
                unfold putULe
                have h2 : leVal (t.take 4) < 0x100000000 := by omega
                simp only [hge, hge2, h2, ↓reduceIte]
                rw [leBytes_leVal' 4 _ hl2]
              rw [this]
              simp [List.drop_succ_cons, List.take_append_drop]
            · simp only [List.length_cons, List.drop_succ_cons, List.length_drop] at hc ⊢
              omega
        · simp [ht] at h
      · by_cases h3 : hd = 0xff
        · subst h3
          rw [vule_ff] at h
          by_cases ht : t.length ≥ 8
          · simp only [ht, ↓reduceIte] at h
            split at h
            · simp at h
            · rename_i hc
              simp only [Option.some.injEq, Prod.mk.injEq] at h
              obtain ⟨rfl, rfl⟩ := h
              have hlt := leVal_lt (t.take 8)
              have hl2 : (t.take 8).length = 8 := by simp [List.length_take]; omega
              rw [hl2] at hlt
              simp only [vlenSize] at hc
              have hge : ¬ leVal (t.take 8) < 0xfd := by
                intro hh; simp [hh] at hc
              have hge2 : ¬ leVal (t.take 8) < 0x10000 := by
                intro hh; simp [hge, hh] at hc
              have hge3 : ¬ leVal (t.take 8) < 0x100000000 := by
                intro hh; simp [hge, hge2, hh] at hc
              refine ⟨?_, ?_, by omega⟩
              · have : putULe (leVal (t.take 8)) = 0xff :: t.take 8 := by
                  unfold putULe
                  simp only [hge, hge2, hge3, ↓reduceIte]
                  rw [leBytes_leVal' 8 _ hl2]
                rw [this]
                simp [List.drop_succ_cons, List.take_append_drop]
              · simp only [List.length_cons, List.drop_succ_cons, List.length_drop] at hc ⊢
                omega
          · simp [ht] at h
        · rw [vule_small hd t h1 h2 h3] at h
          dsimp only at h
          split at h
          · simp at h
          · rename_i hc
            simp only [Option.some.injEq, Prod.mk.injEq] at h
            obtain ⟨rfl, rfl⟩ := h
            have hb := hd.toNat_lt
            have hne : hd.toNat < 0xfd := by
              have a : hd.toNat ≠ 0xfd := fun e => h1 (by rw [← u8_ofNat_toNat hd, e]; rfl)
              have b : hd.toNat ≠ 0xfe := fun e => h2 (by rw [← u8_ofNat_toNat hd, e]; rfl)
              have c : hd.toNat ≠ 0xff := fun e => h3 (by rw [← u8_ofNat_toNat hd, e]; rfl)
              omega
            refine ⟨?_, ?_, by omega⟩
            · unfold putULe
              simp [hne]
            · simp only [List.length_cons, List.drop_succ_cons, List.drop_zero] at hc ⊢
              omega

theorem vlenSize_pos (v : Nat) : 1 ≤ vlenSize v := by
  unfold vlenSize
  split; · omega
  split; · omega
  split <;> omega

theorem vlenWire_putULe (v : Nat) (rest : Bytes) (hv : v < 2^64) (hb : v ≤ rest.length) :
    vlenWire (putULe v ++ rest) = some (v, rest) := by
  unfold vlenWire
  rw [vule_putULe v hv rest]
  have hl := putULe_length v
  have hs : 1 ≤ vlenSize v := vlenSize_pos v
  have hd : List.drop (vlenSize v) (putULe v ++ rest) = rest := by
    rw [← hl]; simp
  simp only [hd]
  have : ¬ (vlenSize v = 0 ∨ vlenSize v ≠ vlenSize v ∨ v > (putULe v ++ rest).length - vlenSize v) := by
    simp only [List.length_append, hl]
    omega
  rw [if_neg this]

theorem putULe_ne_nil (v : Nat) : 1 ≤ (putULe v).length := by
  rw [putULe_length]; exact vlenSize_pos v

/-- the first byte of the CompactSize of a non-zero count is not the segwit marker 00 -/
theorem putULe_head_ne_zero (v : Nat) (h0 : v ≠ 0) (hv : v < 2^64) :
    ∃ x t, putULe v = x :: t ∧ x ≠ 0 := by
  unfold putULe
  by_cases h1 : v < 0xfd
  · refine ⟨UInt8.ofNat v, [], by simp [h1], ?_⟩
    intro hc
    have : (UInt8.ofNat v).toNat = v := by simp [UInt8.toNat_ofNat']; omega
    rw [hc] at this
    simp at this; omega
  · by_cases h2 : v < 0x10000
    · exact ⟨0xfd, leBytes 2 v, by simp [h1, h2], by decide⟩
    · by_cases h3 : v < 0x100000000
      · exact ⟨0xfe, leBytes 4 v, by simp [h1, h2, h3], by decide⟩
      · exact ⟨0xff, leBytes 8 v, by simp [h1, h2, h3], by decide⟩

/-! ### decodeN / encodeList -/

theorem decodeN_spec {α : Type} (f : Bytes → Option (α × Bytes)) (enc : α → Bytes)
    (hf : ∀ b x r, f b = some (x, r) → b = enc x ++ r) :
    ∀ (n : Nat) (b : Bytes) (xs : List α) (r : Bytes),
      decodeN f n b = some (xs, r) → b = encodeList enc xs ++ r ∧ xs.length = n := by
  intro n
  induction n with
  | zero =>
    intro b xs r h
    simp only [decodeN, Option.some.injEq, Prod.mk.injEq] at h
    obtain ⟨rfl, rfl⟩ := h
    simp [encodeList]
  | succ n ih =>
    intro b xs r h
    simp only [decodeN] at h
    split at h
    · simp at h
    · rename_i x b' hfx
      split at h
      · simp at h
      · rename_i ys b'' hrec
        simp only [Option.some.injEq, Prod.mk.injEq] at h
        obtain ⟨rfl, rfl⟩ := h
        have h1 := hf _ _ _ hfx
        have ⟨h2, h3⟩ := ih _ _ _ hrec
        refine ⟨?_, by simp [h3]⟩
        rw [h1, h2]; simp [encodeList]

theorem decodeN_encode {α : Type} (f : Bytes → Option (α × Bytes)) (enc : α → Bytes) :
    ∀ (xs : List α) (r : Bytes), (∀ x ∈ xs, ∀ r', f (enc x ++ r') = some (x, r')) →
      decodeN f xs.length (encodeList enc xs ++ r) = some (xs, r) := by
  intro xs
  induction xs with
  | nil => intro r _; simp [decodeN, encodeList]
  | cons x xs ih =>
    intro r h
    simp only [List.length_cons, decodeN, encodeList, List.append_assoc]
    rw [h x (by simp)]
    simp only
    rw [ih r (fun y hy => h y (by simp [hy]))]

theorem encodeList_length_ge {α : Type} (enc : α → Bytes) (h1 : ∀ x, 1 ≤ (enc x).length) :
    ∀ xs : List α, xs.length ≤ (encodeList enc xs).length := by
  intro xs
  induction xs with
  | nil => simp [encodeList]
  | cons x xs ih => simp only [encodeList, List.length_cons, List.length_append]; have := h1 x; omega

/-! ### elements -/

theorem decodeTxIn_spec {b r : Bytes} {i : TxIn} (h : decodeTxIn b = some (i, r)) :
    b = encodeTxIn i ++ r := by
  unfold decodeTxIn decodeTxInWith at h
  split at h; · simp at h
  rename_i hh b1 e1
  split at h; · simp at h
  rename_i v b2 e2
  split at h; · simp at h
  rename_i le' b3 e3
  split at h; · simp at h
  rename_i s b4 e4
  split at h; · simp at h
  rename_i q b5 e5
  simp only [Option.some.injEq, Prod.mk.injEq] at h
  obtain ⟨rfl, rfl⟩ := h
  have ⟨a1, l1⟩ := readN_spec e1
  have ⟨a2, l2⟩ := readN_spec e2
  have ⟨a3, _, _⟩ := vlenWire_spec e3
  have ⟨a4, l4⟩ := readN_spec e4
  have ⟨a5, l5⟩ := readN_spec e5
  simp only [encodeTxIn]
  rw [leBytes_leVal' 4 v l2, leBytes_leVal' 4 q l5, l4, a1, a2, a3, a4, a5]
  simp

theorem decodeTxOut_spec {b r : Bytes} {o : TxOut} (h : decodeTxOut b = some (o, r)) :
    b = encodeTxOut o ++ r := by
  unfold decodeTxOut decodeTxOutWith at h
  split at h; · simp at h
  rename_i v b1 e1
  split at h; · simp at h
  rename_i le' b2 e2
  split at h; · simp at h
  rename_i s b3 e3
  simp only [Option.some.injEq, Prod.mk.injEq] at h
  obtain ⟨rfl, rfl⟩ := h
  have ⟨a1, l1⟩ := readN_spec e1
  have ⟨a2, _, _⟩ := vlenWire_spec e2
  have ⟨a3, l3⟩ := readN_spec e3
  simp only [encodeTxOut]
  rw [leBytes_leVal' 8 v l1, l3, a1, a2, a3]
  simp

theorem decodeItem_spec {b r : Bytes} {x : Bytes} (h : decodeItem b = some (x, r)) :
    b = encodeItem x ++ r := by
  unfold decodeItem decodeItemWith at h
  split at h; · simp at h
  rename_i le' b1 e1
  have ⟨a1, _, _⟩ := vlenWire_spec e1
  have ⟨a2, l2⟩ := readN_spec h
  simp only [encodeItem]
  rw [l2, a1, a2]; simp

theorem decodeStack_spec {b r : Bytes} {s : List Bytes} (h : decodeStack b = some (s, r)) :
    b = encodeStack s ++ r := by
  unfold decodeStack decodeStackWith at h
  split at h; · simp at h
  rename_i n b1 e1
  have ⟨a1, _, _⟩ := vlenWire_spec e1
  have ⟨a2, l2⟩ := decodeN_spec (decodeItemWith vlenWire) encodeItem
    (fun b x r hx => decodeItem_spec hx) _ _ _ _ h
  simp only [encodeStack]
  rw [l2, a1, a2]; simp

/-! ### transactions -/

theorem readMarker_spec {b1 b2 : Bytes} {sw : Bool} (h : readMarker b1 = some (sw, b2)) :
    (sw = true ∧ b1 = 0 :: 1 :: b2) ∨ (sw = false ∧ b2 = b1) := by
  unfold readMarker at h
  split at h; · simp at h
  rename_i x t
  split at h
  · rename_i hx
    split at h; · simp at h
    rename_i y t'
    split at h
    · rename_i hy
      simp only [Option.some.injEq, Prod.mk.injEq] at h
      obtain ⟨rfl, rfl⟩ := h
      left; simp [hx, hy]
    · simp only [Option.some.injEq, Prod.mk.injEq] at h
      obtain ⟨rfl, rfl⟩ := h
      right; simp
  · simp only [Option.some.injEq, Prod.mk.injEq] at h
    obtain ⟨rfl, rfl⟩ := h
    right; simp

/-- everything `btc.NewTx` establishes about an accepted input -/
theorem decodeTxFull_spec {b : Bytes} {d : Decoded} (h : decodeTxFull b = some d) :
    ∃ rest, b = encodeTx d.tx ++ rest ∧ d.consumed = (encodeTx d.tx).length ∧
      d.noWitSize = (encodeTxNoWit d.tx).length % 2^32 ∧
      (∀ w, d.tx.witness = some w → w.length = d.tx.ins.length ∧ noWitness w = false) := by
  unfold decodeTxFull decodeTxWith at h
  split at h; · simp at h
  rename_i ver b1 e1
  split at h; · simp at h
  rename_i segwit b2 e2
  split at h; · simp at h
  rename_i nin b3 e3
  split at h; · simp at h
  rename_i ins b4 e4
  split at h; · simp at h
  rename_i nout b5 e5
  split at h; · simp at h
  rename_i hzin
  split at h; · simp at h
  rename_i outs b6 e6
  have ⟨a1, l1⟩ := readN_spec e1
  have ⟨a3, _, _⟩ := vlenWire_spec e3
  have ⟨a4, l4⟩ := decodeN_spec (decodeTxInWith vlenWire) encodeTxIn (fun b x r hx => decodeTxIn_spec hx) _ _ _ _ e4
  have ⟨a5, _, _⟩ := vlenWire_spec e5
  have ⟨a6, l6⟩ := decodeN_spec (decodeTxOutWith vlenWire) encodeTxOut (fun b x r hx => decodeTxOut_spec hx) _ _ _ _ e6
  have hm := readMarker_spec e2
  dsimp only at h
  split at h
  · -- segwit
    rename_i hsw
    split at h; · simp at h
    rename_i wit b7 e7
    split at h; · simp at h
    rename_i hnw
    split at h; · simp at h
    rename_i lt rest e8
    simp only [Option.some.injEq] at h
    subst h
    have ⟨a7, l7⟩ := decodeN_spec (decodeStackWith vlenWire) encodeStack (fun b x r hx => decodeStack_spec hx) _ _ _ _ e7
    have ⟨a8, l8⟩ := readN_spec e8
    rcases hm with ⟨_, hm⟩ | ⟨hf, _⟩
    · have hb : b = encodeTx { version := leVal ver, ins := ins, outs := outs, witness := some wit, lockTime := leVal lt } ++ rest := by
        simp only [encodeTx, encodeBody, encodeWitness]
        rw [leBytes_leVal' 4 ver l1, leBytes_leVal' 4 lt l8, l4, l6, a1, hm, a3, a4, a5, a6, a7, a8]
        simp
      refine ⟨rest, hb, ?_, ?_, ?_⟩
      · simp only
        have := congrArg List.length hb
        simp only [List.length_append] at this
        omega
      · simp only
        have e : b.length - b6.length = 4 + 2 + (encodeBody { version := leVal ver, ins := ins, outs := outs, witness := some wit, lockTime := leVal lt }).length := by
          simp only [encodeBody]
          rw [l4, l6, a1, hm, a3, a4, a5, a6]
          simp [l1]; omega
        rw [e]
        simp only [encodeTxNoWit, List.length_append, leBytes_length]
        congr 1; omega
      · intro w hw
        simp only [Option.some.injEq] at hw
        subst hw
        refine ⟨l7, ?_⟩
        simpa using hnw
    · rw [hf] at hsw; simp at hsw
  · rename_i hsw
    split at h; · simp at h
    rename_i lt rest e8
    simp only [Option.some.injEq] at h
    subst h
    have ⟨a8, l8⟩ := readN_spec e8
    rcases hm with ⟨ht, _⟩ | ⟨_, hm⟩
    · rw [ht] at hsw; simp at hsw
    · have hb : b = encodeTx { version := leVal ver, ins := ins, outs := outs, witness := none, lockTime := leVal lt } ++ rest := by
        simp only [encodeTx, encodeTxNoWit, encodeBody]
        rw [leBytes_leVal' 4 ver l1, leBytes_leVal' 4 lt l8, l4, l6, a1, ← hm, a3, a4, a5, a6, a8]
        simp
      refine ⟨rest, hb, ?_, ?_, ?_⟩
      · simp only
        have := congrArg List.length hb
        simp only [List.length_append] at this
        omega
      · simp only
        have e : b.length - b6.length = 4 + (encodeBody { version := leVal ver, ins := ins, outs := outs, witness := none, lockTime := leVal lt }).length := by
          simp only [encodeBody]
          rw [l4, l6, a1, ← hm, a3, a4, a5, a6]
          simp [l1]; omega
        rw [e]
        simp only [encodeTxNoWit, List.length_append, leBytes_length]
        congr 1
      · intro w hw; simp at hw

/-! ### concrete witnesses of DESIGN §7 F4 (replayed on the real code by the harness corpus) -/

def cIn : Bytes := List.replicate 31 0 ++ [1] ++ [0,0,0,0] ++ [0] ++ [0xff,0xff,0xff,0xff]
def cOut : Bytes := [1,0,0,0,0,0,0,0] ++ [0]
/-- `01000000 fd0100 <in> 01 <out> 00000000`: input count 1 written in the 3-byte form -/
def witNonMinimal : Bytes := [1,0,0,0] ++ [0xfd,1,0] ++ cIn ++ [1] ++ cOut ++ [0,0,0,0]
/-- the same transaction, canonical -/
def witCanonical : Bytes := [1,0,0,0] ++ [1] ++ cIn ++ [1] ++ cOut ++ [0,0,0,0]
/-- `01000000 0001 01 <in> 01 <out> 00 00000000`: witness flag, the only witness stack empty -/
def witSuperfluous : Bytes := [1,0,0,0] ++ [0,1] ++ [1] ++ cIn ++ [1] ++ cOut ++ [0] ++ [0,0,0,0]
/-- `01000000 feffffff0f …`: input count 0x0fffffff in a 64-byte string -/
def witHugeCount : Bytes := [1,0,0,0] ++ [0xfe,0xff,0xff,0xff,0x0f] ++ cIn ++ [1] ++ cOut ++ [0,0,0,0]

/-- `01000000 00 02 <out> <out> 00000000`: no inputs, then a byte that is neither 00 nor the witness flag 01 -/
def witZeroInputs : Bytes := [1,0,0,0] ++ [0] ++ [2] ++ cOut ++ cOut ++ [0,0,0,0]

theorem lax_nonminimal_eval :
    (decodeTxLax witNonMinimal).map (fun p => (decide (encodeTx p.1 = witNonMinimal.take p.2), p.2)) = some (false, 62) := by
  decide +kernel
theorem lax_nonminimal_same_tx :
    (decodeTxLax witNonMinimal).map (·.1) = (decodeTxLax witCanonical).map (·.1) := by
  decide +kernel
theorem lax_superfluous_eval : (decodeTxLax witSuperfluous).isSome = true := by decide +kernel
theorem fixed_refuses_witnesses :
    decodeTx witNonMinimal = none ∧ decodeTx witSuperfluous = none ∧ decodeTx witHugeCount = none ∧
    (decodeTx witCanonical).isSome = true := by
  decide +kernel

/-! ### encode → decode -/

theorem leVal_leBytes_of_lt (k n : Nat) (h : n < 256 ^ k) : leVal (leBytes k n) = n := by
  rw [leVal_leBytes]; exact Nat.mod_eq_of_lt h

theorem decodeTxIn_encode (i : TxIn) (hw : i.WF) (r : Bytes) :
    decodeTxIn (encodeTxIn i ++ r) = some (i, r) := by
  obtain ⟨h32, hidx, hseq, hlen⟩ := hw
  have e : encodeTxIn i ++ r =
      i.prevHash ++ (leBytes 4 i.prevIdx ++ (putULe i.scriptSig.length ++ (i.scriptSig ++ (leBytes 4 i.sequence ++ r)))) := by
    simp [encodeTxIn, List.append_assoc]
  rw [e]
  unfold decodeTxIn decodeTxInWith
  rw [readN_append' _ _ h32]
  simp only
  rw [readN_append' _ _ (leBytes_length 4 _)]
  simp only
  rw [vlenWire_putULe _ _ hlen (by simp)]
  simp only
  rw [readN_append]
  simp only
  rw [readN_append' _ _ (leBytes_length 4 _)]
  simp only
  rw [leVal_leBytes_of_lt 4 _ (by simpa using hidx), leVal_leBytes_of_lt 4 _ (by simpa using hseq)]

theorem decodeTxOut_encode (o : TxOut) (hw : o.WF) (r : Bytes) :
    decodeTxOut (encodeTxOut o ++ r) = some (o, r) := by
  obtain ⟨hv, hlen⟩ := hw
  have e : encodeTxOut o ++ r = leBytes 8 o.value ++ (putULe o.pkScript.length ++ (o.pkScript ++ r)) := by
    simp [encodeTxOut, List.append_assoc]
  rw [e]
  unfold decodeTxOut decodeTxOutWith
  rw [readN_append' _ _ (leBytes_length 8 _)]
  simp only
  rw [vlenWire_putULe _ _ hlen (by simp)]
  simp only
  rw [readN_append]
  simp only
  rw [leVal_leBytes_of_lt 8 _ (by simpa using hv)]

theorem decodeItem_encode (x : Bytes) (hl : x.length < 2^64) (r : Bytes) :
    decodeItem (encodeItem x ++ r) = some (x, r) := by
  have e : encodeItem x ++ r = putULe x.length ++ (x ++ r) := by simp [encodeItem, List.append_assoc]
  rw [e]
  unfold decodeItem decodeItemWith
  rw [vlenWire_putULe _ _ hl (by simp)]
  simp only
  rw [readN_append]

theorem encodeItem_pos (x : Bytes) : 1 ≤ (encodeItem x).length := by
  have := putULe_ne_nil x.length
  simp only [encodeItem, List.length_append]; omega

theorem decodeStack_encode (s : List Bytes) (hl : s.length < 2^64) (hx : ∀ x ∈ s, x.length < 2^64) (r : Bytes) :
    decodeStack (encodeStack s ++ r) = some (s, r) := by
  have e : encodeStack s ++ r = putULe s.length ++ (encodeList encodeItem s ++ r) := by
    simp [encodeStack, List.append_assoc]
  rw [e]
  unfold decodeStack decodeStackWith
  have hb : s.length ≤ (encodeList encodeItem s ++ r).length := by
    have := encodeList_length_ge encodeItem encodeItem_pos s
    simp only [List.length_append]; omega
  rw [vlenWire_putULe _ _ hl hb]
  simp only
  exact decodeN_encode (decodeItemWith vlenWire) encodeItem s r (fun x hxs r' => decodeItem_encode x (hx x hxs) r')

theorem encodeTxIn_pos (i : TxIn) : 1 ≤ (encodeTxIn i).length := by
  simp only [encodeTxIn, List.length_append, leBytes_length]; omega
theorem encodeTxOut_pos (o : TxOut) : 1 ≤ (encodeTxOut o).length := by
  simp only [encodeTxOut, List.length_append, leBytes_length]; omega
theorem encodeStack_pos (s : List Bytes) : 1 ≤ (encodeStack s).length := by
  have := putULe_ne_nil s.length
  simp only [encodeStack, List.length_append]; omega

theorem readMarker_nonzero (x : UInt8) (t : Bytes) (hx : x ≠ 0) : readMarker (x :: t) = some (false, x :: t) := by
  simp [readMarker, hx]

/-- `btc.NewTx (tx.SerializeNew() ++ rest)` gives `tx` back, for every well-formed `tx`. -/
theorem decodeTxFull_encode (t : Tx) (hw : t.WF) (rest : Bytes) :
    decodeTxFull (encodeTx t ++ rest) =
      some { tx := t, consumed := (encodeTx t).length, noWitSize := (encodeTxNoWit t).length % 2^32 } := by
  have hins : ∀ r, decodeN (decodeTxInWith vlenWire) t.ins.length (encodeList encodeTxIn t.ins ++ r) = some (t.ins, r) :=
    fun r => decodeN_encode _ encodeTxIn t.ins r (fun x hx r' => decodeTxIn_encode x (hw.ins x hx) r')
  have houts : ∀ r, decodeN (decodeTxOutWith vlenWire) t.outs.length (encodeList encodeTxOut t.outs ++ r) = some (t.outs, r) :=
    fun r => decodeN_encode _ encodeTxOut t.outs r (fun x hx r' => decodeTxOut_encode x (hw.outs x hx) r')
  have hbi : ∀ r : Bytes, t.ins.length ≤ (encodeList encodeTxIn t.ins ++ r).length := by
    intro r
    have := encodeList_length_ge encodeTxIn encodeTxIn_pos t.ins
    simp only [List.length_append]; omega
  have hbo : ∀ r : Bytes, t.outs.length ≤ (encodeList encodeTxOut t.outs ++ r).length := by
    intro r
    have := encodeList_length_ge encodeTxOut encodeTxOut_pos t.outs
    simp only [List.length_append]; omega
  cases hwit : t.witness with
  | none =>
    by_cases hin : t.ins = []
    · -- no inputs, hence no outputs: `ver 00 00 locktime`
      have hout := hw.ins_ne hin
      have hv : leVal (leBytes 4 t.version) = t.version := leVal_leBytes_of_lt 4 _ (by simpa using hw.version)
      have hl : leVal (leBytes 4 t.lockTime) = t.lockTime := leVal_leBytes_of_lt 4 _ (by simpa using hw.lockTime)
      have hp0 : putULe 0 = [0] := by decide
      have e : encodeTx t ++ rest = leBytes 4 t.version ++ (0 :: 0 :: (leBytes 4 t.lockTime ++ rest)) := by
        simp [encodeTx, hwit, encodeTxNoWit, encodeBody, hin, hout, encodeList, hp0]
      have elen : (encodeTx t).length = 10 := by
        simp [encodeTx, hwit, encodeTxNoWit, encodeBody, hin, hout, encodeList, hp0]
      have enw : encodeTxNoWit t = encodeTx t := by simp [encodeTx, hwit]
      have hv0 : ∀ r : Bytes, vlenWire (0 :: r) = some (0, r) := by
        intro r
        have := vlenWire_putULe 0 r (by decide) (by omega)
        rwa [hp0] at this
      have hm : ∀ r : Bytes, readMarker (0 :: 0 :: r) = some (false, 0 :: 0 :: r) := by intro r; simp [readMarker]
      rw [enw, elen, e]
      unfold decodeTxFull decodeTxWith
      rw [readN_append' _ _ (leBytes_length 4 _)]
      simp only
      rw [hm]
      simp only
      rw [hv0]
      simp only [decodeN]
      rw [hv0]
      simp only [decodeN, bne_self_eq_false, Bool.and_false, Bool.false_eq_true, ↓reduceIte]
      rw [readN_append' _ _ (leBytes_length 4 _)]
      simp only [Option.some.injEq]
      rw [hv, hl]
      have ht : ({ version := t.version, ins := [], outs := [], witness := none, lockTime := t.lockTime } : Tx) = t := by
        cases t; simp_all
      rw [ht]
      congr 1
      · simp only [List.length_append, List.length_cons, leBytes_length]; omega
      · simp only [List.length_append, List.length_cons, leBytes_length]; congr 1; omega
    have hne : t.ins.length ≠ 0 := by
      intro h; exact hin (List.length_eq_zero_iff.mp h)
    obtain ⟨x, tl, hput, hx0⟩ := putULe_head_ne_zero t.ins.length hne hw.nins
    have e : encodeTx t ++ rest = leBytes 4 t.version ++ (putULe t.ins.length ++ (encodeList encodeTxIn t.ins ++
        (putULe t.outs.length ++ (encodeList encodeTxOut t.outs ++ (leBytes 4 t.lockTime ++ rest))))) := by
      simp [encodeTx, hwit, encodeTxNoWit, encodeBody, List.append_assoc]
    have elen : (encodeTx t).length = 4 + ((putULe t.ins.length).length + ((encodeList encodeTxIn t.ins).length +
        ((putULe t.outs.length).length + ((encodeList encodeTxOut t.outs).length + 4)))) := by
      simp [encodeTx, hwit, encodeTxNoWit, encodeBody]
    have enw : encodeTxNoWit t = encodeTx t := by simp [encodeTx, hwit]
    rw [enw, elen, e]
    unfold decodeTxFull decodeTxWith
    rw [readN_append' _ _ (leBytes_length 4 _)]
    simp only
    rw [hput, List.cons_append, readMarker_nonzero x _ hx0, ← List.cons_append, ← hput]
    simp only
    rw [vlenWire_putULe _ _ hw.nins (hbi _)]
    simp only
    rw [hins]
    simp only
    rw [vlenWire_putULe _ _ hw.nouts (hbo _)]
    have hz : (t.ins.length == 0) = false := by simpa using hne
    simp only [hz, Bool.and_false, Bool.false_and, Bool.false_eq_true, ↓reduceIte]
    rw [houts]
    simp only
    rw [readN_append' _ _ (leBytes_length 4 _)]
    simp only [Option.some.injEq]
    have hv : leVal (leBytes 4 t.version) = t.version := leVal_leBytes_of_lt 4 _ (by simpa using hw.version)
    have hl : leVal (leBytes 4 t.lockTime) = t.lockTime := leVal_leBytes_of_lt 4 _ (by simpa using hw.lockTime)
    rw [hv, hl]
    have ht : ({ version := t.version, ins := t.ins, outs := t.outs, witness := none, lockTime := t.lockTime } : Tx) = t := by
      cases t; simp_all
    rw [ht]
    congr 1
    · simp only [List.length_append, leBytes_length]; omega
    · simp only [List.length_append, leBytes_length]; congr 1; omega
  | some w =>
    obtain ⟨hwl, hnw, hws⟩ := hw.wit w hwit
    have hwd : ∀ r, decodeN (decodeStackWith vlenWire) t.ins.length (encodeList encodeStack w ++ r) = some (w, r) := by
      intro r
      rw [← hwl]
      exact decodeN_encode _ encodeStack w r (fun s hs r' => decodeStack_encode s (hws s hs).1 (hws s hs).2 r')
    have e : encodeTx t ++ rest = leBytes 4 t.version ++ (0 :: 1 :: (putULe t.ins.length ++ (encodeList encodeTxIn t.ins ++
        (putULe t.outs.length ++ (encodeList encodeTxOut t.outs ++ (encodeList encodeStack w ++ (leBytes 4 t.lockTime ++ rest))))))) := by
      simp [encodeTx, hwit, encodeBody, encodeWitness, List.append_assoc]
    have elen : (encodeTx t).length = 4 + (2 + ((putULe t.ins.length).length + ((encodeList encodeTxIn t.ins).length +
        ((putULe t.outs.length).length + ((encodeList encodeTxOut t.outs).length + ((encodeList encodeStack w).length + 4)))))) := by
      simp [encodeTx, hwit, encodeBody, encodeWitness]; omega
    have enwlen : (encodeTxNoWit t).length = 4 + ((putULe t.ins.length).length + ((encodeList encodeTxIn t.ins).length +
        ((putULe t.outs.length).length + ((encodeList encodeTxOut t.outs).length + 4)))) := by
      simp [encodeTxNoWit, encodeBody]
    rw [enwlen, elen, e]
    unfold decodeTxFull decodeTxWith
    rw [readN_append' _ _ (leBytes_length 4 _)]
    simp only
    have hm : ∀ r : Bytes, readMarker (0 :: 1 :: r) = some (true, r) := by intro r; simp [readMarker]
    rw [hm]
    simp only
    rw [vlenWire_putULe _ _ hw.nins (hbi _)]
    simp only
    rw [hins]
    simp only
    rw [vlenWire_putULe _ _ hw.nouts (hbo _)]
    simp only [Bool.not_true, Bool.false_and, Bool.and_false, Bool.false_eq_true, ↓reduceIte]
    rw [houts]
    simp only
    rw [hwd]
    simp only [hnw, Bool.and_false, Bool.false_eq_true, ↓reduceIte]
    rw [readN_append' _ _ (leBytes_length 4 _)]
    simp only [Option.some.injEq]
    have hv : leVal (leBytes 4 t.version) = t.version := leVal_leBytes_of_lt 4 _ (by simpa using hw.version)
    have hl : leVal (leBytes 4 t.lockTime) = t.lockTime := leVal_leBytes_of_lt 4 _ (by simpa using hw.lockTime)
    rw [hv, hl]
    have ht : ({ version := t.version, ins := t.ins, outs := t.outs, witness := some w, lockTime := t.lockTime } : Tx) = t := by
      cases t; simp_all
    rw [ht]
    congr 1
    · simp only [List.length_append, List.length_cons, leBytes_length]; omega
    · simp only [List.length_append, List.length_cons, leBytes_length]; congr 1; omega

/-! ### blocks -/

/-- what is known about one transaction parsed out of a block -/
def Good (p : Decoded × Bytes) : Prop :=
  p.2 = encodeTx p.1.tx ∧ p.1.noWitSize = (encodeTxNoWit p.1.tx).length ∧
  (encodeTxNoWit p.1.tx).length ≤ p.2.length

theorem encodeTxNoWit_le (t : Tx) : (encodeTxNoWit t).length ≤ (encodeTx t).length := by
  unfold encodeTx
  split
  · exact Nat.le_refl _
  · simp only [encodeTxNoWit, List.length_append, leBytes_length, List.length_cons, List.length_nil]; omega

theorem decodeTxs_spec : ∀ (n : Nat) (b : Bytes), b.length < 2^32 → ∀ l ok, decodeTxs n b = (l, ok) →
    (∀ p ∈ l, Good p) ∧ (l.map (·.2.length)).sum ≤ b.length ∧ (ok = true → l.length = n) := by
  intro n
  induction n with
  | zero =>
    intro b _ l ok h
    simp only [decodeTxs, Prod.mk.injEq] at h
    obtain ⟨rfl, rfl⟩ := h
    simp
  | succ n ih =>
    intro b hb l ok h
    simp only [decodeTxs] at h
    split at h
    · simp only [Prod.mk.injEq] at h
      obtain ⟨rfl, rfl⟩ := h
      simp
    · rename_i d hd
      split at h
      · simp only [Prod.mk.injEq] at h
        obtain ⟨rfl, rfl⟩ := h
        simp
      · obtain ⟨rest, hbe, hc, hn, _⟩ := decodeTxFull_spec hd
        have hlen := congrArg List.length hbe
        simp only [List.length_append] at hlen
        cases hrec : decodeTxs n (b.drop d.consumed) with
        | mk l' ok' =>
          rw [hrec] at h
          simp only [Prod.mk.injEq] at h
          obtain ⟨rfl, rfl⟩ := h
          have hdl : (b.drop d.consumed).length = b.length - d.consumed := by simp
          obtain ⟨g, s, k⟩ := ih (b.drop d.consumed) (by rw [hdl]; omega) l' ok' hrec
          have htake : b.take d.consumed = encodeTx d.tx := by
            rw [hc]; conv => lhs; rw [hbe]
            simp
          refine ⟨?_, ?_, ?_⟩
          · intro p hp
            simp only [List.mem_cons] at hp
            rcases hp with rfl | hp
            · refine ⟨htake, ?_, ?_⟩
              · simp only; rw [hn]; apply Nat.mod_eq_of_lt
                have := encodeTxNoWit_le d.tx; omega
              · simp only; rw [htake]; exact encodeTxNoWit_le d.tx
            · exact g p hp
          · simp only [List.map_cons, List.sum_cons, htake]
            rw [hdl] at s; omega
          · intro hok; simp only [List.length_cons]; rw [k hok]

theorem mkBlockTxs_map (H : Bytes → Bytes) : ∀ (l : List (Decoded × Bytes)) (f : Bool),
    (mkBlockTxs H f l).map (fun t => (t.ids.noWitSize, t.ids.size, t.tx)) =
    l.map (fun p => (p.1.noWitSize, p.2.length % 2^32, p.1.tx)) := by
  intro l
  induction l with
  | nil => intro f; simp [mkBlockTxs]
  | cons p l ih =>
    intro f
    obtain ⟨d, raw⟩ := p
    simp only [mkBlockTxs, List.map_cons, ih false, List.cons.injEq, and_true]
    unfold blockTxIds
    split <;> simp

theorem weight_sum (L : Nat) (hL : L < 2^30) : ∀ (l : List (Decoded × Bytes)), (∀ p ∈ l, Good p) →
    (l.map (·.2.length)).sum ≤ L →
    (l.map (fun p => (3 * p.1.noWitSize + p.2.length % 2^32) % 2^32)).sum =
      3 * (l.map (fun p => (encodeTxNoWit p.1.tx).length)).sum + (l.map (fun p => (encodeTx p.1.tx).length)).sum := by
  intro l
  induction l with
  | nil => intro _ _; simp
  | cons p l ih =>
    intro g s
    simp only [List.map_cons, List.sum_cons] at s ⊢
    have ⟨g1, g2, g3⟩ := g p (by simp)
    rw [ih (fun q hq => g q (by simp [hq])) (by omega)]
    rw [← g1, g2]
    have h1 : p.2.length % 2^32 = p.2.length := Nat.mod_eq_of_lt (by omega)
    rw [h1]
    have h2 : (3 * (encodeTxNoWit p.1.tx).length + p.2.length) % 2^32 = 3 * (encodeTxNoWit p.1.tx).length + p.2.length :=
      Nat.mod_eq_of_lt (by omega)
    rw [h2]; omega

theorem sum_le_of_weight (l : List (Decoded × Bytes)) (g : ∀ p ∈ l, Good p) :
    (l.map (fun p => (encodeTxNoWit p.1.tx).length)).sum ≤ (l.map (·.2.length)).sum ∧
    (l.map (fun p => (encodeTx p.1.tx).length)).sum = (l.map (·.2.length)).sum := by
  induction l with
  | nil => simp
  | cons p l ih =>
    have ⟨g1, _, g3⟩ := g p (by simp)
    have ⟨i1, i2⟩ := ih (fun q hq => g q (by simp [hq]))
    simp only [List.map_cons, List.sum_cons]
    rw [i2, ← g1]; omega
