/-
  Proofs.C03Bip340 — the two ways of writing BIP340's "R = s·G − e·P" agree on keys whose lifted point
  has order dividing n: ((n − e) mod n)·P + s·G  (the Go code's shape, `Spec.Bip340.verify`)  versus
  s·G + (−(e·P))  (the BIP text, `Spec.Bip340.verifyText`).  That every point of secp256k1 has order
  dividing n is the point count #E(F_p) = n, which is NOT proved in this development; the statement
  therefore carries `mul n (some P) = none` for the lifted key as a hypothesis.
-/
import GocoinV.Proofs.C03Recover
import GocoinV.Spec.Bip340
namespace GocoinV.Proofs.C03
open GocoinV GocoinV.Secp GocoinV.Model GocoinV.Model.Sig GocoinV.C03

/-- lift_x returns a point of the curve -/
theorem liftX_onCurve (x : Nat) (P : Nat × Nat) (h : liftX x = some P) : onCurve (some P) = true := by
  unfold liftX at h
  by_cases hx : x ≥ p
  · rw [if_pos hx] at h; exact absurd h (by simp)
  rw [if_neg hx] at h
  cases hs : sqrt? ((x * x % p * x + 7) % p) with
  | none => rw [hs] at h; simp at h
  | some r =>
    rw [hs] at h
    simp only [Option.some.injEq] at h
    have hr := sqrt?_lt _ r hs
    unfold sqrt? at hs
    simp only at hs
    split at hs
    · rename_i hsq
      simp only [Option.some.injEq] at hs
      rw [hs, Nat.mod_mod] at hsq
      subst h
      unfold onCurve
      simp only [Bool.and_eq_true, decide_eq_true_eq, beq_iff_eq]
      by_cases he : r % 2 = 0
      · rw [if_pos he]; exact ⟨⟨by omega, hr⟩, hsq⟩
      · rw [if_neg he]
        refine ⟨⟨by omega, by omega⟩, ?_⟩
        rw [sq_neg r (Nat.le_of_lt hr)]; exact hsq
    · simp at hs

section
variable [L : SecpGroupLaw]

/-- on a point of order dividing n, the scalar (n − e) mod n negates e (e < n) -/
theorem neg_smul_of_order (R : CurvePt) (hR : n • R = 0) (e : Nat) (he : e < n) :
    ((n - e) % n) • R = -(e • R) := by
  apply eq_neg_of_add_eq_zero_left
  rw [← add_nsmul]
  by_cases h0 : e = 0
  · subst h0; simp
  · rw [Nat.mod_eq_of_lt (by omega), Nat.sub_add_cancel (Nat.le_of_lt he)]; exact hR

/-- code-shaped and text-shaped BIP340 verification agree when the lifted key has order dividing n -/
theorem bip340_verify_eq_text (H : Hash) (pk sig msg : Bytes)
    (hord : ∀ P, liftX (beVal pk) = some P → mul n (some P) = none) :
    Spec.Bip340.verify H pk sig msg = Spec.Bip340.verifyText H pk sig msg := by
  unfold Spec.Bip340.verify Spec.Bip340.verifyText
  split
  · rfl
  · cases hl : liftX (beVal pk) with
    | none => rfl
    | some P =>
      simp only
      split
      · rfl
      · have hon : OnC (some P) := liftX_onCurve _ P hl
        let Pc : CurvePt := ⟨some P, hon⟩
        have hR : n • Pc = 0 := Subtype.ext (by rw [← mul_eq_nsmul]; exact hord P hl)
        have he : Spec.Bip340.challenge H (sig.take 32) pk msg < n := Nat.mod_lt _ n_pos
        have key : add (mul ((n - Spec.Bip340.challenge H (sig.take 32) pk msg) % n) (some P))
              (mul (beVal (sig.drop 32)) G)
            = add (mul (beVal (sig.drop 32)) G)
              (neg (mul (Spec.Bip340.challenge H (sig.take 32) pk msg) (some P))) := by
          rw [mul_eq_nsmul _ Pc, mul_eq_nsmul _ Pc, mul_G, ← val_neg, ← val_add, ← val_add]
          refine congrArg Subtype.val ?_
          rw [neg_smul_of_order Pc hR _ he, add_comm]
        rw [key]

end
end GocoinV.Proofs.C03
