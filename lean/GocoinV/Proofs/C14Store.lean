/-
  Proofs.C14Store — the key store over one invocation (Model/WalletKeysStore.lean): a list made of the freshly derived
  records followed by further copies of them answers every first-match lookup exactly like the fresh list; operations
  whose Go functions write no stored key leave the store alone; hence every operation of a session, whatever came
  before it in the same process, uses the key a fresh wallet's lookup gives.
-/
import GocoinV.Model.WalletKeysStore
namespace GocoinV.WalletKeys.Store
open GocoinV HD WalletKeys

/-- first-match search in `a ++ b` when everything in `b` also occurs in `a` -/
theorem firstIdx_append_sub {α} (p : α → Bool) (a b : List α) (hb : ∀ x ∈ b, x ∈ a) :
    (if (a ++ b).findIdx p < (a ++ b).length then some ((a ++ b).findIdx p) else none) =
    (if a.findIdx p < a.length then some (a.findIdx p) else none) := by
  rw [List.findIdx_append]
  by_cases h : a.findIdx p < a.length
  · rw [if_pos h, if_pos h, if_pos (by rw [List.length_append]; omega)]
  · rw [if_neg h, if_neg h]
    have hle : a.findIdx p ≤ a.length := List.findIdx_le_length
    have hea : a.findIdx p = a.length := by omega
    have hna : ∀ x ∈ a, p x = false := List.findIdx_eq_length.mp hea
    have hnb : ∀ x ∈ b, p x = false := fun x hx => hna x (hb x hx)
    have heb : b.findIdx p = b.length := List.findIdx_eq_length.mpr hnb
    rw [if_neg (by rw [List.length_append, heb]; omega)]

theorem hashToKeyIdx_append_sub (C : WalletCrypto) (c : Config) (a b : List KeyRec) (hb : ∀ x ∈ b, x ∈ a) (h : Bytes) :
    hashToKeyIdx C c (a ++ b) h = hashToKeyIdx C c a h := by
  unfold hashToKeyIdx
  exact firstIdx_append_sub _ a b hb

theorem publicXoToKeyIdx_append_sub (a b : List KeyRec) (hb : ∀ x ∈ b, x ∈ a) (x : Bytes) :
    publicXoToKeyIdx (a ++ b) x = publicXoToKeyIdx a x := by
  unfold publicXoToKeyIdx
  exact firstIdx_append_sub _ a b hb

theorem addrToIdx_append_sub (C : WalletCrypto) (c : Config) (a b : List KeyRec) (hb : ∀ x ∈ b, x ∈ a) (addr : Bytes) :
    addrToIdx C c (a ++ b) addr = addrToIdx C c a addr := by
  unfold addrToIdx addressToKeyIdx
  simp only [hashToKeyIdx_append_sub C c a b hb, publicXoToKeyIdx_append_sub a b hb]

theorem scriptToKeyIdx_append_sub (C : WalletCrypto) (c : Config) (a b : List KeyRec) (hb : ∀ x ∈ b, x ∈ a) (s : Bytes) :
    scriptToKeyIdx C c (a ++ b) s = scriptToKeyIdx C c a s := by
  unfold scriptToKeyIdx
  simp only [hashToKeyIdx_append_sub C c a b hb, publicXoToKeyIdx_append_sub a b hb]

theorem hashToKeyIdx_lt (C : WalletCrypto) (c : Config) (a : List KeyRec) (h : Bytes) (i : Nat)
    (e : hashToKeyIdx C c a h = some i) : i < a.length := by
  unfold hashToKeyIdx at e
  simp only [] at e
  split at e
  · cases e; assumption
  · cases e

theorem publicXoToKeyIdx_lt (a : List KeyRec) (x : Bytes) (i : Nat)
    (e : publicXoToKeyIdx a x = some i) : i < a.length := by
  unfold publicXoToKeyIdx at e
  simp only [] at e
  split at e
  · cases e; assumption
  · cases e

theorem addrToIdx_lt (C : WalletCrypto) (c : Config) (a : List KeyRec) (addr : Bytes) (i : Nat)
    (e : addrToIdx C c a addr = some i) : i < a.length := by
  unfold addrToIdx addressToKeyIdx at e
  split at e
  · cases e
  · split at e
    · exact hashToKeyIdx_lt C c a _ i (by simpa using e)
    · split at e
      · exact publicXoToKeyIdx_lt a _ i (by simpa using e)
      · cases e
  · exact hashToKeyIdx_lt C c a _ i (by simpa using e)

theorem scriptToKeyIdx_lt (C : WalletCrypto) (c : Config) (a : List KeyRec) (s : Bytes) (i : Nat)
    (e : scriptToKeyIdx C c a s = some i) : i < a.length := by
  unfold scriptToKeyIdx at e
  split at e
  · exact hashToKeyIdx_lt C c a _ i e
  · split at e
    · exact hashToKeyIdx_lt C c a _ i e
    · split at e
      · exact hashToKeyIdx_lt C c a _ i e
      · split at e
        · exact publicXoToKeyIdx_lt a _ i e
        · cases e

/-- an index found in the front part reads the front part's record -/
theorem useAt_append (a b : List KeyRec) (i : Option Nat) (hi : ∀ j, i = some j → j < a.length) :
    useAt (a ++ b) i = useAt a i := by
  cases i with
  | none => rfl
  | some j =>
    have := hi j rfl
    simp only [useAt, Option.bind]
    rw [List.getElem?_append_left this]

theorem clobber_id (wipers : List String) (fn : String) (junk : Bytes) (st : List KeyRec) (idxs : List Nat)
    (h : wipers.contains fn = false) : clobber wipers fn junk st idxs = st := by
  unfold clobber
  rw [h]
  rfl

theorem flatten_replicate_comm {α} (l : List α) : ∀ n : Nat,
    l ++ (List.replicate n l).flatten = (List.replicate n l).flatten ++ l
  | 0 => by simp
  | n+1 => by
    rw [List.replicate_succ, List.flatten_cons, List.append_assoc, ← flatten_replicate_comm l n]

/-- the shape every store of a session has: the fresh records, then only further copies of them -/
def Inv (fresh st : List KeyRec) : Prop := ∃ rest, st = fresh ++ rest ∧ ∀ x ∈ rest, x ∈ fresh

theorem Inv.append_fresh {fresh st : List KeyRec} (h : Inv fresh st) : Inv fresh (st ++ fresh) := by
  obtain ⟨rest, e, hr⟩ := h
  refine ⟨rest ++ fresh, by rw [e, List.append_assoc], ?_⟩
  intro x hx
  rcases List.mem_append.mp hx with h1 | h1
  · exact hr x h1
  · exact h1

/-- no function a session is made of writes a stored key -/
def Quiet (wipers : List String) : Prop := ∀ f ∈ sessionFns, wipers.contains f = false

theorem step_quiet (wipers : List String) (hq : Quiet wipers) (C : WalletCrypto) (c : Config) (fresh : List KeyRec)
    (junk : Bytes) (st : List KeyRec) (hinv : Inv fresh st) (op : Op) :
    (step wipers C c fresh junk st op).2 = pureUse C c fresh op ∧
    (step wipers C c fresh junk st op).1 = (if op = .makeWallet then st ++ fresh else st) := by
  obtain ⟨rest, e, hr⟩ := hinv
  have q1 : wipers.contains "sign_message" = false := hq _ (by simp [sessionFns])
  have q2 : wipers.contains "sign_tx" = false := hq _ (by simp [sessionFns])
  have q3 : wipers.contains "dump_prvkey" = false := hq _ (by simp [sessionFns])
  subst e
  cases op with
  | makeWallet => exact ⟨rfl, by simp [step]⟩
  | signMessage a =>
    refine ⟨?_, by simp [step, clobber_id _ _ _ _ _ q1]⟩
    simp only [step, pureUse, addrToIdx_append_sub C c fresh rest hr]
    rw [useAt_append fresh rest _ (fun j hj => addrToIdx_lt C c fresh a j hj)]
  | dumpPrvkey a =>
    refine ⟨?_, by simp [step, clobber_id _ _ _ _ _ q3]⟩
    simp only [step, pureUse, addrToIdx_append_sub C c fresh rest hr]
    rw [useAt_append fresh rest _ (fun j hj => addrToIdx_lt C c fresh a j hj)]
  | signTx scrs =>
    refine ⟨?_, by simp [step, clobber_id _ _ _ _ _ q2]⟩
    simp only [step, pureUse, List.map_map]
    apply List.map_congr_left
    intro s _
    simp only [Function.comp, scriptToKeyIdx_append_sub C c fresh rest hr]
    exact useAt_append fresh rest _ (fun j hj => scriptToKeyIdx_lt C c fresh s j hj)

theorem run_quiet (wipers : List String) (hq : Quiet wipers) (C : WalletCrypto) (c : Config) (fresh : List KeyRec)
    (junk : Bytes) : ∀ (ops : List Op) (st : List KeyRec), Inv fresh st →
    (run wipers C c fresh junk st ops).2 = ops.map (pureUse C c fresh) ∧
    (run wipers C c fresh junk st ops).1 = st ++ (List.replicate (ops.count .makeWallet) fresh).flatten
  | [], st, _ => by simp [run]
  | op :: r, st, hinv => by
    obtain ⟨hu, hs⟩ := step_quiet wipers hq C c fresh junk st hinv op
    have hinv' : Inv fresh (step wipers C c fresh junk st op).1 := by
      rw [hs]
      split
      · exact hinv.append_fresh
      · exact hinv
    obtain ⟨ih1, ih2⟩ := run_quiet wipers hq C c fresh junk r _ hinv'
    refine ⟨?_, ?_⟩
    · simp only [run, List.map_cons]
      rw [ih1, hu]
    · simp only [run]
      rw [ih2, hs]
      by_cases hop : op = .makeWallet
      · subst hop
        simp [List.replicate_succ', List.flatten_append, List.append_assoc]
        exact flatten_replicate_comm fresh _
      · simp [hop]

end GocoinV.WalletKeys.Store
