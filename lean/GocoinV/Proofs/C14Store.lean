/-
  Proofs.C14Store — the key store over one invocation (Model/WalletKeysStore.lean): a list made of the freshly derived
  records followed by further copies of them answers every first-match lookup exactly like the fresh list; operations
  whose Go functions write no stored key leave the store alone; hence every operation of a session, whatever came
  before it in the same process, uses the key a fresh wallet's lookup gives.
-/
import GocoinV.Model.WalletKeysStore
import GocoinV.Proofs.C14Lookup
namespace GocoinV.WalletKeys.Store
open GocoinV HD WalletKeys

/-- first-match search in `a ++ b` when everything in `b` also occurs in `a` -/
theorem firstIdx_append_sub {α} (p : α → Bool) (a b : List α) (hb : ∀ x ∈ b, x ∈ a) :
    (if (a ++ b).findIdx p < (a ++ b).length then some ((a ++ b).findIdx p) else none) =
    (if a.findIdx p < a.length then some (a.findIdx p) else none) := by
  rw [List.findIdx_append]
  by_cases h : a.findIdx p < a.length
  · rw [if_pos h, if_pos h, if_pos (by rw [List.length_append]; omega)]
  · rw [if_neg h, if_neg h]
    have hle : a.findIdx p ≤ a.length := List.findIdx_le_length
    have hea : a.findIdx p = a.length := by omega
    have hna : ∀ x ∈ a, p x = false := List.findIdx_eq_length.mp hea
    have hnb : ∀ x ∈ b, p x = false := fun x hx => hna x (hb x hx)
    have heb : b.findIdx p = b.length := List.findIdx_eq_length.mpr hnb
    rw [if_neg (by rw [List.length_append, heb]; omega)]

theorem hashToKeyIdx_append_sub (C : WalletCrypto) (c : Config) (a b : List KeyRec) (hb : ∀ x ∈ b, x ∈ a) (h : Bytes) :
    hashToKeyIdx C c (a ++ b) h = hashToKeyIdx C c a h := by
  unfold hashToKeyIdx
  exact firstIdx_append_sub _ a b hb

theorem publicXoToKeyIdx_append_sub (a b : List KeyRec) (hb : ∀ x ∈ b, x ∈ a) (x : Bytes) :
    publicXoToKeyIdx (a ++ b) x = publicXoToKeyIdx a x := by
  unfold publicXoToKeyIdx
  exact firstIdx_append_sub _ a b hb

theorem pubhashToKeyIdx_append_sub (a b : List KeyRec) (hb : ∀ x ∈ b, x ∈ a) (h : Bytes) :
    pubhashToKeyIdx (a ++ b) h = pubhashToKeyIdx a h := by
  unfold pubhashToKeyIdx
  exact firstIdx_append_sub _ a b hb

theorem scripthashToKeyIdx_append_sub (C : WalletCrypto) (c : Config) (a b : List KeyRec) (hb : ∀ x ∈ b, x ∈ a) (h : Bytes) :
    scripthashToKeyIdx C c (a ++ b) h = scripthashToKeyIdx C c a h := by
  unfold scripthashToKeyIdx
  exact firstIdx_append_sub _ a b hb

theorem addrToIdx_append_sub (C : WalletCrypto) (c : Config) (a b : List KeyRec) (hb : ∀ x ∈ b, x ∈ a) (addr : Bytes) :
    addrToIdx C c (a ++ b) addr = addrToIdx C c a addr := by
  unfold addrToIdx addressToKeyIdx
  simp only [hashToKeyIdx_append_sub C c a b hb, publicXoToKeyIdx_append_sub a b hb]

theorem scriptToKeyIdx_append_sub (C : WalletCrypto) (c : Config) (a b : List KeyRec) (hb : ∀ x ∈ b, x ∈ a) (s : Bytes) :
    scriptToKeyIdx C c (a ++ b) s = scriptToKeyIdx C c a s := by
  unfold scriptToKeyIdx
  simp only [pubhashToKeyIdx_append_sub a b hb, scripthashToKeyIdx_append_sub C c a b hb,
    publicXoToKeyIdx_append_sub a b hb]

theorem hashToKeyIdx_lt (C : WalletCrypto) (c : Config) (a : List KeyRec) (h : Bytes) (i : Nat)
    (e : hashToKeyIdx C c a h = some i) : i < a.length := by
  unfold hashToKeyIdx at e
  simp only [] at e
  split at e
  · cases e; assumption
  · cases e

theorem publicXoToKeyIdx_lt (a : List KeyRec) (x : Bytes) (i : Nat)
    (e : publicXoToKeyIdx a x = some i) : i < a.length := by
  unfold publicXoToKeyIdx at e
  simp only [] at e
  split at e
  · cases e; assumption
  · cases e

theorem pubhashToKeyIdx_lt (a : List KeyRec) (h : Bytes) (i : Nat)
    (e : pubhashToKeyIdx a h = some i) : i < a.length := by
  unfold pubhashToKeyIdx at e
  simp only [] at e
  split at e
  · cases e; assumption
  · cases e

theorem scripthashToKeyIdx_lt (C : WalletCrypto) (c : Config) (a : List KeyRec) (h : Bytes) (i : Nat)
    (e : scripthashToKeyIdx C c a h = some i) : i < a.length := by
  unfold scripthashToKeyIdx at e
  simp only [] at e
  split at e
  · cases e; assumption
  · cases e

theorem addrToIdx_lt (C : WalletCrypto) (c : Config) (a : List KeyRec) (addr : Bytes) (i : Nat)
    (e : addrToIdx C c a addr = some i) : i < a.length := by
  unfold addrToIdx addressToKeyIdx at e
  split at e
  · cases e
  · split at e
    · exact hashToKeyIdx_lt C c a _ i (by simpa using e)
    · split at e
      · exact publicXoToKeyIdx_lt a _ i (by simpa using e)
      · cases e
  · exact hashToKeyIdx_lt C c a _ i (by simpa using e)

theorem scriptToKeyIdx_lt (C : WalletCrypto) (c : Config) (a : List KeyRec) (s : Bytes) (i : Nat)
    (e : scriptToKeyIdx C c a s = some i) : i < a.length := by
  unfold scriptToKeyIdx at e
  split at e
  · exact pubhashToKeyIdx_lt a _ i e
  · split at e
    · exact scripthashToKeyIdx_lt C c a _ i e
    · split at e
      · exact pubhashToKeyIdx_lt a _ i e
      · split at e
        · exact publicXoToKeyIdx_lt a _ i e
        · cases e

/-! ### the script lookup on the four own forms, and its soundness -/

theorem scriptToKeyIdx_p2pkh (C : WalletCrypto) (c : Config) (keys : List KeyRec) (h : Bytes) (hl : h.length = 20) :
    scriptToKeyIdx C c keys (p2pkhScr h) = pubhashToKeyIdx keys h := by
  have e1 : (p2pkhScr h).length = 25 := by simp [p2pkhScr, hl]
  have e2 : (p2pkhScr h).take 3 = [0x76, 0xa9, 0x14] := by simp [p2pkhScr]
  have e3 : (p2pkhScr h).drop 23 = [0x88, 0xac] := by
    simp only [p2pkhScr, List.append_assoc]
    rw [show (23 : Nat) = ([0x76, 0xa9, 0x14] ++ h : Bytes).length by simp [hl], ← List.append_assoc, List.drop_left]
  have e4 : ((p2pkhScr h).drop 3).take 20 = h := by
    simp only [p2pkhScr, List.append_assoc]
    rw [show (3 : Nat) = ([0x76, 0xa9, 0x14] : Bytes).length by rfl, List.drop_left, ← hl, List.take_left]
  unfold scriptToKeyIdx
  rw [if_pos ⟨e1, e2, e3⟩, e4]

theorem scriptToKeyIdx_p2sh (C : WalletCrypto) (c : Config) (keys : List KeyRec) (h : Bytes) (hl : h.length = 20) :
    scriptToKeyIdx C c keys (p2shScr h) = scripthashToKeyIdx C c keys h := by
  have e1 : (p2shScr h).length = 23 := by simp [p2shScr, hl]
  have e2 : (p2shScr h).take 2 = [0xa9, 0x14] := by simp [p2shScr]
  have e3 : (p2shScr h).drop 22 = [0x87] := by
    simp only [p2shScr, List.append_assoc]
    rw [show (22 : Nat) = ([0xa9, 0x14] ++ h : Bytes).length by simp [hl], ← List.append_assoc, List.drop_left]
  have e4 : ((p2shScr h).drop 2).take 20 = h := by
    simp only [p2shScr, List.append_assoc]
    rw [show (2 : Nat) = ([0xa9, 0x14] : Bytes).length by rfl, List.drop_left, ← hl, List.take_left]
  unfold scriptToKeyIdx
  rw [if_neg (by rw [e1]; omega), if_pos ⟨e1, e2, e3⟩, e4]

theorem scriptToKeyIdx_p2wpkh (C : WalletCrypto) (c : Config) (keys : List KeyRec) (h : Bytes) (hl : h.length = 20) :
    scriptToKeyIdx C c keys (p2wpkhScr h) = pubhashToKeyIdx keys h := by
  have e1 : (p2wpkhScr h).length = 22 := by simp [p2wpkhScr, hl]
  have e2 : (p2wpkhScr h).take 2 = [0x00, 0x14] := by simp [p2wpkhScr]
  have e4 : (p2wpkhScr h).drop 2 = h := by simp [p2wpkhScr]
  unfold scriptToKeyIdx
  rw [if_neg (by rw [e1]; omega), if_neg (by rw [e1]; omega), if_pos ⟨e1, e2⟩, e4]

theorem scriptToKeyIdx_p2tr (C : WalletCrypto) (c : Config) (keys : List KeyRec) (x : Bytes) (hl : x.length = 32) :
    scriptToKeyIdx C c keys (p2trScr x) = publicXoToKeyIdx keys x := by
  have e1 : (p2trScr x).length = 34 := by simp [p2trScr, hl]
  have e2 : (p2trScr x).take 2 = [0x51, 32] := by simp [p2trScr]
  have e4 : (p2trScr x).drop 2 = x := by simp [p2trScr]
  unfold scriptToKeyIdx
  rw [if_neg (by rw [e1]; omega), if_neg (by rw [e1]; omega), if_neg (by rw [e1]; omega), if_pos ⟨e1, e2⟩, e4]

theorem split3 (s : Bytes) (a b : Nat) : s = s.take a ++ ((s.drop a).take b ++ s.drop (a + b)) := by
  rw [← List.drop_drop, List.take_append_drop, List.take_append_drop]

/-- soundness of the script lookup: a script attributed to record j IS one of record j's own four scripts -/
theorem scriptToKeyIdx_only_own (C : WalletCrypto) (c : Config) (keys : List KeyRec) (scr : Bytes) (j : Nat)
    (e : scriptToKeyIdx C c keys scr = some j) :
    ∃ hj : j < keys.length,
      scr = p2pkhScr keys[j].h160 ∨ scr = p2wpkhScr keys[j].h160 ∨
      (bech32Mode c.atype = false ∧ scr = p2shScr (C.hash160 ([0, 20] ++ keys[j].h160))) ∨
      scr = p2trScr ((keys[j].pubkey.drop 1).take 32) := by
  unfold scriptToKeyIdx at e
  split at e
  · rename_i h
    obtain ⟨hj, hp, _⟩ := firstIdx_sound _ keys j e
    refine ⟨hj, Or.inl ?_⟩
    have hp' : keys[j].h160 = (scr.drop 3).take 20 := by simpa using hp
    have := split3 scr 3 20
    rw [h.2.1, h.2.2, ← hp'] at this
    simpa [p2pkhScr] using this
  · split at e
    · rename_i h
      obtain ⟨hj, hp, _⟩ := firstIdx_sound _ keys j e
      refine ⟨hj, Or.inr (Or.inr (Or.inl ?_))⟩
      simp only [Bool.and_eq_true, Bool.not_eq_true', beq_iff_eq] at hp
      have := split3 scr 2 20
      rw [h.2.1, h.2.2, ← hp.2] at this
      exact ⟨hp.1, by simpa [p2shScr] using this⟩
    · split at e
      · rename_i h
        obtain ⟨hj, hp, _⟩ := firstIdx_sound _ keys j e
        refine ⟨hj, Or.inr (Or.inl ?_)⟩
        have hp' : keys[j].h160 = scr.drop 2 := by simpa using hp
        have := (List.take_append_drop 2 scr).symm
        rw [h.2, ← hp'] at this
        simpa [p2wpkhScr] using this
      · split at e
        · rename_i h
          obtain ⟨hj, hp, _⟩ := firstIdx_sound _ keys j e
          refine ⟨hj, Or.inr (Or.inr (Or.inr ?_))⟩
          have hp' : (keys[j].pubkey.drop 1).take 32 = scr.drop 2 := by simpa using hp
          have := (List.take_append_drop 2 scr).symm
          rw [h.2, ← hp'] at this
          simpa [p2trScr] using this
        · cases e

/-- an index found in the front part reads the front part's record -/
theorem useAt_append (a b : List KeyRec) (i : Option Nat) (hi : ∀ j, i = some j → j < a.length) :
    useAt (a ++ b) i = useAt a i := by
  cases i with
  | none => rfl
  | some j =>
    have := hi j rfl
    simp only [useAt, Option.bind]
    rw [List.getElem?_append_left this]

theorem clobber_id (wipers : List String) (fn : String) (junk : Bytes) (st : List KeyRec) (idxs : List Nat)
    (h : wipers.contains fn = false) : clobber wipers fn junk st idxs = st := by
  unfold clobber
  rw [h]
  rfl

theorem flatten_replicate_comm {α} (l : List α) : ∀ n : Nat,
    l ++ (List.replicate n l).flatten = (List.replicate n l).flatten ++ l
  | 0 => by simp
  | n+1 => by
    rw [List.replicate_succ, List.flatten_cons, List.append_assoc, ← flatten_replicate_comm l n]

/-- the shape every store of a session has: the fresh records, then only further copies of them -/
def Inv (fresh st : List KeyRec) : Prop := ∃ rest, st = fresh ++ rest ∧ ∀ x ∈ rest, x ∈ fresh

theorem Inv.append_fresh {fresh st : List KeyRec} (h : Inv fresh st) : Inv fresh (st ++ fresh) := by
  obtain ⟨rest, e, hr⟩ := h
  refine ⟨rest ++ fresh, by rw [e, List.append_assoc], ?_⟩
  intro x hx
  rcases List.mem_append.mp hx with h1 | h1
  · exact hr x h1
  · exact h1

/-- no function a session is made of writes a stored key -/
def Quiet (wipers : List String) : Prop := ∀ f ∈ sessionFns, wipers.contains f = false

theorem step_quiet (wipers : List String) (hq : Quiet wipers) (C : WalletCrypto) (c : Config) (fresh : List KeyRec)
    (junk : Bytes) (st : List KeyRec) (hinv : Inv fresh st) (op : Op) :
    (step wipers C c fresh junk st op).2 = pureUse C c fresh op ∧
    (step wipers C c fresh junk st op).1 = (if op = .makeWallet then st ++ fresh else st) := by
  obtain ⟨rest, e, hr⟩ := hinv
  have q1 : wipers.contains "sign_message" = false := hq _ (by simp [sessionFns])
  have q2 : wipers.contains "sign_tx" = false := hq _ (by simp [sessionFns])
  have q3 : wipers.contains "dump_prvkey" = false := hq _ (by simp [sessionFns])
  subst e
  cases op with
  | makeWallet => exact ⟨rfl, by simp [step]⟩
  | signMessage a =>
    refine ⟨?_, by simp [step, clobber_id _ _ _ _ _ q1]⟩
    simp only [step, pureUse, addrToIdx_append_sub C c fresh rest hr]
    rw [useAt_append fresh rest _ (fun j hj => addrToIdx_lt C c fresh a j hj)]
  | dumpPrvkey a =>
    refine ⟨?_, by simp [step, clobber_id _ _ _ _ _ q3]⟩
    simp only [step, pureUse, addrToIdx_append_sub C c fresh rest hr]
    rw [useAt_append fresh rest _ (fun j hj => addrToIdx_lt C c fresh a j hj)]
  | signTx scrs =>
    refine ⟨?_, by simp [step, clobber_id _ _ _ _ _ q2]⟩
    simp only [step, pureUse, List.map_map]
    apply List.map_congr_left
    intro s _
    simp only [Function.comp, scriptToKeyIdx_append_sub C c fresh rest hr]
    exact useAt_append fresh rest _ (fun j hj => scriptToKeyIdx_lt C c fresh s j hj)

theorem run_quiet (wipers : List String) (hq : Quiet wipers) (C : WalletCrypto) (c : Config) (fresh : List KeyRec)
    (junk : Bytes) : ∀ (ops : List Op) (st : List KeyRec), Inv fresh st →
    (run wipers C c fresh junk st ops).2 = ops.map (pureUse C c fresh) ∧
    (run wipers C c fresh junk st ops).1 = st ++ (List.replicate (ops.count .makeWallet) fresh).flatten
  | [], st, _ => by simp [run]
  | op :: r, st, hinv => by
    obtain ⟨hu, hs⟩ := step_quiet wipers hq C c fresh junk st hinv op
    have hinv' : Inv fresh (step wipers C c fresh junk st op).1 := by
      rw [hs]
      split
      · exact hinv.append_fresh
      · exact hinv
    obtain ⟨ih1, ih2⟩ := run_quiet wipers hq C c fresh junk r _ hinv'
    refine ⟨?_, ?_⟩
    · simp only [run, List.map_cons]
      rw [ih1, hu]
    · simp only [run]
      rw [ih2, hs]
      by_cases hop : op = .makeWallet
      · subst hop
        simp [List.replicate_succ', List.flatten_append, List.append_assoc]
        exact flatten_replicate_comm fresh _
      · simp [hop]

end GocoinV.WalletKeys.Store
