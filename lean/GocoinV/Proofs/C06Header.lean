/-
  Proofs.C06Header — a header ALONE (`header` = the tree part of PreCheckBlock + AcceptHeader on the 80 header bytes, the
  client's ProcessNewHeader) keeps the whole invariant `Inv` and touches nothing but the tree (or `limbo`): tip, unspent
  map, block store, undo files and last height are untouched; no node gains or loses data; the only new node (if any) is
  the header itself, without data.
-/
import GocoinV.Proofs.C06Deliver
namespace GocoinV.ChainTree
open GocoinV.UtxoOps

/-- the header-only node AcceptHeader creates for `b` under the parent node `p` -/
def hdrNode (b : Block) (p : Node) : Node :=
  { id := b.id, parent := p.id, height := p.height + 1, bits := b.bits, childs := [], txCount := 0 }

/-- the tree after AcceptHeader, as a function -/
theorem getNode_accepted (c : Chain) (b : Block) (p : Node) (hb : getNode c b.id = none)
    (hp : getNode c b.parent = some p) (x : Nat) :
    getNode (accepted c b p) x =
      if x = b.id then some (hdrNode b p)
      else if x = b.parent then some { p with childs := p.childs ++ [b.id] } else getNode c x := by
  have hpid : p.id = b.parent := getNode_id hp
  have hpb : b.parent ≠ b.id := by intro e; rw [e, hb] at hp; cases hp
  have e2 : getNode (accepted c b p) x =
      match getNode (modNode c p.id (fun q => { q with childs := q.childs ++ [b.id] })) x with
      | some m => some m
      | none => if b.id == x then
          some { id := b.id, parent := p.id, height := p.height + 1, bits := b.bits, childs := [], txCount := 0 } else none :=
    getNode_append_eq (modNode c p.id (fun q => { q with childs := q.childs ++ [b.id] }))
      { id := b.id, parent := p.id, height := p.height + 1, bits := b.bits, childs := [], txCount := 0 } x
  have e3 : getNode (modNode c p.id (fun q => { q with childs := q.childs ++ [b.id] })) x =
      (getNode c x).map (fun n => if n.id == p.id then { n with childs := n.childs ++ [b.id] } else n) :=
    getNode_modNode_eq c p.id x (fun q => { q with childs := q.childs ++ [b.id] }) (fun _ => rfl)
  rw [e2, e3]
  by_cases hx : x = b.id
  · subst hx
    simp only [hb, Option.map_none, beq_self_eq_true, if_true]
    rfl
  · simp only [if_neg hx]
    have hx' : (b.id == x) = false := by simpa using fun e : b.id = x => hx e.symm
    cases hg : getNode c x with
    | none =>
      simp only [Option.map_none, hx', Bool.false_eq_true, if_false]
      by_cases hxp : x = b.parent
      · rw [hxp, hp] at hg; cases hg
      · simp only [if_neg hxp]
    | some n =>
      have hnid : n.id = x := getNode_id hg
      simp only [Option.map_some]
      by_cases hxp : x = b.parent
      · rw [hxp, hp] at hg; cases hg
        have e1 : (p.id == p.id) = true := by simp
        simp only [if_pos hxp, e1, if_true]
      · have e1 : (n.id == p.id) = false := by rw [hnid, hpid]; simpa using hxp
        simp only [if_neg hxp, e1, Bool.false_eq_true, if_false]

theorem lookupAll_none {c : Chain} {x : Nat} (h : lookupAll c x = none) : getNode c x = none := by
  unfold lookupAll at h
  cases hg : getNode c x with
  | none => rfl
  | some n => rw [hg] at h; cases h

theorem lookupAll_attached {c : Chain} {x : Nat} {p : Node} (h : lookupAll c x = some (p, true)) :
    getNode c x = some p := by
  unfold lookupAll at h
  cases hg : getNode c x with
  | some n => rw [hg] at h; simp only [Option.some.injEq, Prod.mk.injEq, and_true] at h; rw [h]
  | none =>
    rw [hg] at h
    cases hl : inLimbo c x with
    | none => rw [hl] at h; cases h
    | some m => rw [hl] at h; simp at h

/-- the invariant does not look at `limbo` -/
theorem Inv_limbo {U : List Block} {c : Chain} (hi : Inv U c) (l : List Node) : Inv U { c with limbo := l } := by
  obtain ⟨w, ⟨path, ⟨hpath, t, ht, hth⟩, hx⟩, hm⟩ := hi
  have hg : ∀ x, getNode { c with limbo := l } x = getNode c x := fun _ => rfl
  have hr : ({ c with limbo := l } : Chain).root = c.root := rfl
  refine ⟨TreeWF_same w hr hg (fun _ => rfl), ⟨path, ⟨?_, t, ht, hth⟩, hx.of_store_eq (c' := { c with limbo := l }) rfl⟩, ?_⟩
  · exact PathOK_mono hpath hr rfl rfl rfl rfl (fun e _ n hn => ⟨n, hn, rfl, rfl⟩) (fun _ _ b0 hb0 => ⟨b0, hb0, rfl⟩)
  · obtain ⟨t0, ht0, hmax⟩ := hm
    refine ⟨t0, ht0, fun x n hn hd => ?_⟩
    rw [W_same hr hg, W_same hr hg]
    exact hmax x n hn hd

/-- AcceptHeader on an attached parent keeps the whole invariant -/
theorem accepted_inv {U : List Block} {c : Chain} (hi : Inv U c) (b : Block) (hbU : b ∈ U) (p : Node)
    (hb : getNode c b.id = none) (hp : getNode c b.parent = some p) :
    Inv U (accepted c b p) ∧
    (∀ x n, getNode c x = some n → ∃ n', getNode (accepted c b p) x = some n' ∧ n'.txCount = n.txCount) ∧
    (∀ x n', getNode (accepted c b p) x = some n' →
      (x = b.id ∧ n'.txCount = 0) ∨ ∃ n, getNode c x = some n ∧ n'.txCount = n.txCount) := by
  obtain ⟨w, ⟨path, ⟨hpath, t, ht, hth⟩, hx⟩, hm⟩ := hi
  have hpid : p.id = b.parent := getNode_id hp
  have hg := getNode_accepted c b p hb hp
  have hr : (accepted c b p).root = c.root := rfl
  have hnew : getNode (accepted c b p) b.id = some (hdrNode b p) := by rw [hg, if_pos rfl]
  have old : ∀ x n, getNode c x = some n → ∃ n', getNode (accepted c b p) x = some n' ∧ n'.parent = n.parent ∧
      n'.height = n.height ∧ n'.bits = n.bits ∧ n'.txCount = n.txCount := by
    intro x n h
    have hxb : x ≠ b.id := by intro e; rw [e, hb] at h; cases h
    rw [hg, if_neg hxb]
    by_cases hxp : x = b.parent
    · rw [if_pos hxp]; rw [hxp, hp] at h; cases h; exact ⟨_, rfl, rfl, rfl, rfl, rfl⟩
    · rw [if_neg hxp]; exact ⟨n, h, rfl, rfl, rfl, rfl⟩
  have back : ∀ x n', getNode (accepted c b p) x = some n' → x ≠ b.id →
      ∃ n, getNode c x = some n ∧ n'.txCount = n.txCount := by
    intro x n' h hxb
    rw [hg, if_neg hxb] at h
    by_cases hxp : x = b.parent
    · rw [if_pos hxp] at h; cases h; exact ⟨p, by rw [hxp]; exact hp, rfl⟩
    · rw [if_neg hxp] at h; exact ⟨n', h, rfl⟩
  have hWold : ∀ {x : Nat} {n n' : Node}, getNode c x = some n → getNode (accepted c b p) x = some n' →
      W (accepted c b p) n' = W c n := by
    intro x n n' hn hn'
    unfold W
    rw [workOf_congr w hr (fun x n h => by
      obtain ⟨m, a1, a2, a3, a4, _⟩ := old x n h
      exact ⟨m, a1, a2, a3, a4⟩) n.height x n n' hn hn' rfl]
  have hrootb : b.id ≠ c.root := by
    intro e
    obtain ⟨r, h1, _⟩ := w.root
    rw [← e, hb] at h1; cases h1
  have w1 : TreeWF U (accepted c b p) :=
    TreeWF_header w b hbU p (hdrNode b p) hb hp ⟨hpid, rfl, rfl, rfl, rfl⟩ hr hg rfl
  obtain ⟨t', ht', _, hth', _⟩ := old _ _ ht
  refine ⟨⟨w1, ⟨path, ⟨PathOK_accepted hpath b p, t', ht', hth'.trans hth⟩,
    hx.of_store_eq (c' := accepted c b p) rfl⟩, ?_⟩, ?_, ?_⟩
  · obtain ⟨t0, ht0, hmax⟩ := hm
    obtain ⟨t1, ht1, _⟩ := old _ _ ht0
    refine ⟨t1, ht1, fun x n' hn' hd' => ?_⟩
    by_cases hxb : x = b.id
    · exfalso
      rw [hxb, hnew] at hn'; cases hn'
      rcases hd' with h1 | h1
      · exact hrootb (hxb ▸ h1)
      · exact h1 rfl
    · obtain ⟨n, hn, htx⟩ := back x n' hn' hxb
      rw [hWold hn hn', hWold ht0 ht1]
      exact hmax x n hn (by unfold HasData at hd' ⊢; rw [← htx]; exact hd')
  · intro x n h
    obtain ⟨n', g1, _, _, _, g5⟩ := old x n h
    exact ⟨n', g1, g5⟩
  · intro x n' h
    by_cases hxb : x = b.id
    · rw [hxb, hnew] at h; cases h; exact Or.inl ⟨hxb, rfl⟩
    · exact Or.inr (back x n' h hxb)

theorem headerAt_attached (c : Chain) (b : Block) (p t : Node)
    (hdeep : (p.id != t.id && decide (t.height ≥ p.height + 1 + MovingCheckpointDepth)) = false) :
    headerAt c b p t true = (accepted c b p, Outcome.ok) := by
  unfold headerAt accepted
  simp only [hdeep, Bool.false_eq_true, if_false, if_true]

theorem headerAt_limbo (c : Chain) (b : Block) (p t : Node)
    (hdeep : (p.id != t.id && decide (t.height ≥ p.height + 1 + MovingCheckpointDepth)) = false) :
    headerAt c b p t false =
      ({ c with limbo := (c.limbo.map fun q => if q.id == p.id then { q with childs := q.childs ++ [b.id] } else q) ++
          [{ id := b.id, parent := p.id, height := p.height + 1, bits := b.bits, childs := [], txCount := 0 }] },
        Outcome.ok) := by
  unfold headerAt
  simp only [hdeep, Bool.false_eq_true, if_false]

theorem headerAt_deep (c : Chain) (b : Block) (p t : Node) (att : Bool)
    (hdeep : (p.id != t.id && decide (t.height ≥ p.height + 1 + MovingCheckpointDepth)) = true) :
    headerAt c b p t att = (c, Outcome.tooDeep) := by
  unfold headerAt
  simp only [hdeep, if_true]

/-- **a header alone keeps the whole invariant** and touches nothing but the tree: root, tip, unspent map, block store,
    undo files and last height are those of before; it never panics; every node of before is still a node with the
    transaction count it had; and every node afterwards is the header itself — WITHOUT data — or a node of before with
    the transaction count it had. -/
theorem header_inv {U : List Block} {c : Chain} (hi : Inv U c) (hU : BlockTree c.root U) (b : Block) (hbU : b ∈ U) :
    Inv U (header c b).1 ∧ (header c b).1.root = c.root ∧ (∀ s, (header c b).2 ≠ Outcome.panic s) ∧
    (header c b).1.tip = c.tip ∧ (header c b).1.utxo = c.utxo ∧ (header c b).1.store = c.store ∧
    (header c b).1.undoFiles = c.undoFiles ∧ (header c b).1.lastHeight = c.lastHeight ∧
    (∀ x n, getNode c x = some n → ∃ n', getNode (header c b).1 x = some n' ∧ n'.txCount = n.txCount) ∧
    (∀ x n', getNode (header c b).1 x = some n' →
      (x = b.id ∧ n'.txCount = 0) ∨ ∃ n, getNode c x = some n ∧ n'.txCount = n.txCount) := by
  have _ := hU
  obtain ⟨t, ht, _⟩ := hi.path.choose_spec.1.2
  have noop : ∀ o : Outcome, (∀ s, o ≠ Outcome.panic s) →
      Inv U (c, o).1 ∧ (c, o).1.root = c.root ∧ (∀ s, (c, o).2 ≠ Outcome.panic s) ∧
      (c, o).1.tip = c.tip ∧ (c, o).1.utxo = c.utxo ∧ (c, o).1.store = c.store ∧
      (c, o).1.undoFiles = c.undoFiles ∧ (c, o).1.lastHeight = c.lastHeight ∧
      (∀ x n, getNode c x = some n → ∃ n', getNode (c, o).1 x = some n' ∧ n'.txCount = n.txCount) ∧
      (∀ x n', getNode (c, o).1 x = some n' →
        (x = b.id ∧ n'.txCount = 0) ∨ ∃ n, getNode c x = some n ∧ n'.txCount = n.txCount) :=
    fun o ho => ⟨hi, rfl, ho, rfl, rfl, rfl, rfl, rfl, fun x n h => ⟨n, h, rfl⟩, fun x n' h => Or.inr ⟨n', h, rfl⟩⟩
  cases hl : lookupAll c b.id with
  | some r =>
    have : header c b = (c, Outcome.dup) := by unfold header; simp only [hl, Option.isSome_some, if_true]
    rw [this]; exact noop _ (fun s hs => by cases hs)
  | none =>
    have hb : getNode c b.id = none := lookupAll_none hl
    cases hpl : lookupAll c b.parent with
    | none =>
      have : header c b = (c, Outcome.later) := by
        unfold header; simp only [hl, Option.isSome_none, Bool.false_eq_true, if_false, hpl]
      rw [this]; exact noop _ (fun s hs => by cases hs)
    | some pa =>
      obtain ⟨p, att⟩ := pa
      have : header c b = headerAt c b p t att := by
        unfold header; simp only [hl, Option.isSome_none, Bool.false_eq_true, if_false, hpl, ht]
      rw [this]
      cases hdeep : (p.id != t.id && decide (t.height ≥ p.height + 1 + MovingCheckpointDepth)) with
      | true =>
        rw [headerAt_deep c b p t att hdeep]; exact noop _ (fun s hs => by cases hs)
      | false =>
        cases att with
        | false =>
          rw [headerAt_limbo c b p t hdeep]
          exact ⟨Inv_limbo hi _, rfl, (fun s hs => by cases hs), rfl, rfl, rfl, rfl, rfl,
            fun x n h => ⟨n, h, rfl⟩, fun x n' h => Or.inr ⟨n', h, rfl⟩⟩
        | true =>
          rw [headerAt_attached c b p t hdeep]
          obtain ⟨h1, h2, h3⟩ := accepted_inv hi b hbU p hb (lookupAll_attached hpl)
          exact ⟨h1, rfl, (fun s hs => by cases hs), rfl, rfl, rfl, rfl, rfl, h2, h3⟩

end GocoinV.ChainTree
