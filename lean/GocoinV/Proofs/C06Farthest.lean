/-
  Proofs.C06Farthest — `BlockTreeNode.FindFarthestNode` of the chain model (`farthest`, called on the root with fuel
  #nodes+1 by ParseTillBlock's fall-back) returns a node of the tree whose cumulative work is maximal among ALL nodes.
-/
import GocoinV.Proofs.C06Work
namespace GocoinV.ChainTree
open GocoinV.UtxoOps

theorem root_height0 {U : List Block} {c : Chain} (w : TreeWF U c) {n : Node} (hn : getNode c c.root = some n) :
    n.height = 0 := by
  obtain ⟨r, hr, h0, _⟩ := w.root
  rw [hn] at hr; cases hr; exact h0

theorem Desc_root_height {U : List Block} {c : Chain} (w : TreeWF U c) :
    ∀ (h x : Nat) (n : Node), getNode c x = some n → n.height = h → Desc c c.root x := by
  intro h
  induction h with
  | zero =>
    intro x n hn h0
    rw [w.root_of_height0 hn h0]; exact Desc.refl
  | succ h ih =>
    intro x n hn hh
    have hx : x ≠ c.root := by
      intro e
      rw [e] at hn
      have := root_height0 w hn
      omega
    obtain ⟨p, hp, hph, _⟩ := w.par x n hn hx
    exact Desc.step hn hx (ih n.parent p hp (by omega))

/-- every node of a well-formed tree descends from the root -/
theorem Desc_root_all {U : List Block} {c : Chain} (w : TreeWF U c) {x : Nat} {n : Node} (hn : getNode c x = some n) :
    Desc c c.root x :=
  Desc_root_height w n.height x n hn rfl

/-- what `farthest c f n` returns for the node `n` (id `x`): a descendant `L` of `x` of maximal work among the descendants
    of `x`, and the sum of the difficulties from `n` down to `L` (both included) -/
def FarOK (c : Chain) (x : Nat) (n : Node) (res : Nat × Q) : Prop :=
  ∃ nL, getNode c res.1 = some nL ∧ Desc c x res.1 ∧ res.2.den > 0 ∧
    res.2.val = W c nL - W c n + (difficulty n.bits).val ∧
    ∀ y m, getNode c y = some m → Desc c x y → W c m ≤ W c nL

/-- the `foldl` of `farthest`: the result is the result of one of the candidates, and its sum is maximal -/
theorem foldl_best (g : Node → Nat × Q) (step : Nat × Q → Node → Nat × Q)
    (hstep : ∀ acc ch, step acc ch = if (g ch).2.gt acc.2 = true then g ch else acc) :
    ∀ (rest : List Node) (acc : Nat × Q), acc.2.den > 0 → (∀ ch ∈ rest, (g ch).2.den > 0) →
      (rest.foldl step acc = acc ∨ ∃ ch ∈ rest, rest.foldl step acc = g ch) ∧ (rest.foldl step acc).2.den > 0 ∧
        acc.2.val ≤ (rest.foldl step acc).2.val ∧ ∀ ch ∈ rest, (g ch).2.val ≤ (rest.foldl step acc).2.val := by
  intro rest
  induction rest with
  | nil => intro acc ha _; exact ⟨Or.inl rfl, ha, le_refl _, fun _ h => by cases h⟩
  | cons a rest ih =>
    intro acc ha hr
    simp only [List.foldl_cons]
    have hga := hr a List.mem_cons_self
    have hrr : ∀ ch ∈ rest, (g ch).2.den > 0 := fun ch h => hr ch (List.mem_cons_of_mem _ h)
    rw [hstep]
    by_cases hgt : (g a).2.gt acc.2 = true
    · rw [if_pos hgt]
      obtain ⟨h1, h2, h3, h4⟩ := ih (g a) hga hrr
      have hlt := (Q.gt_iff _ _ hga ha).mp hgt
      refine ⟨Or.inr ?_, h2, by linarith, ?_⟩
      · rcases h1 with h1 | ⟨ch, hch, h1⟩
        · exact ⟨a, List.mem_cons_self, h1⟩
        · exact ⟨ch, List.mem_cons_of_mem _ hch, h1⟩
      · intro ch hch
        rcases List.mem_cons.mp hch with rfl | hch
        · exact h3
        · exact h4 ch hch
    · rw [if_neg hgt]
      obtain ⟨h1, h2, h3, h4⟩ := ih acc ha hrr
      have hle : (g a).2.val ≤ acc.2.val := by
        have := mt (Q.gt_iff _ _ hga ha).mpr hgt
        exact not_lt.mp this
      refine ⟨?_, h2, h3, ?_⟩
      · rcases h1 with h1 | ⟨ch, hch, h1⟩
        · exact Or.inl h1
        · exact Or.inr ⟨ch, List.mem_cons_of_mem _ hch, h1⟩
      · intro ch hch
        rcases List.mem_cons.mp hch with rfl | hch
        · linarith
        · exact h4 ch hch

/-- a node without children: the only descendant is the node itself -/
theorem far_leaf {c : Chain} {x : Nat} {n : Node} (hn : getNode c x = some n) (hb : n.bits % 0x1000000 ≠ 0)
    (hno : ∀ z nch, getNode c z = some nch → nch.parent = x → z ≠ c.root → False) :
    FarOK c x n (n.id, difficulty n.bits) := by
  have hid := getNode_id hn
  refine ⟨n, by rw [hid]; exact hn, by rw [hid]; exact Desc.refl, difficulty_den_pos _ hb, by simp, ?_⟩
  intro y m hm hd
  by_cases hxy : x = y
  · subst hxy; rw [hn] at hm; cases hm; exact le_refl _
  · obtain ⟨z, nch, hz, hp, hzr, _⟩ := Desc.child_split hd hxy
    exact (hno z nch hz hp hzr).elim

/-- a node with children: the best of the children's results, plus the node's own difficulty -/
theorem far_node {U : List Block} {c : Chain} (w : TreeWF U c) (hU : BlockTree c.root U) {x : Nat} {n : Node}
    (hn : getNode c x = some n) (hb : n.bits % 0x1000000 ≠ 0) (g : Node → Nat × Q) (l : List Node)
    (hl : ∀ ch ∈ l, ∃ z, getNode c z = some ch ∧ z ≠ c.root ∧ ch.parent = x ∧ FarOK c z ch (g ch))
    (hall : ∀ z nch, getNode c z = some nch → nch.parent = x → z ≠ c.root → nch ∈ l)
    (best : Nat × Q) (hbest : ∃ ch ∈ l, best = g ch) (hmax : ∀ ch ∈ l, (g ch).2.val ≤ best.2.val) :
    FarOK c x n (best.1, best.2.add (difficulty n.bits)) := by
  obtain ⟨cb, hcb, rfl⟩ := hbest
  obtain ⟨zb, hzb, hzbr, hpb, nL, hL, hdL, hden, hval, hmaxb⟩ := hl cb hcb
  have hpb' : getNode c cb.parent = some n := by rw [hpb]; exact hn
  have hWb := (W_step w hU hzb hzbr hpb').1
  have hdx : Desc c x (g cb).1 := by
    have := Desc.parent hzb hzbr
    rw [hpb] at this
    exact Desc.trans this hdL
  have hdn := difficulty_den_pos _ hb
  refine ⟨nL, hL, hdx, Q.add_den_pos _ _ hden hdn, ?_, ?_⟩
  · show ((g cb).2.add (difficulty n.bits)).val = _
    rw [Q.val_add _ _ hden hdn, hval]; linarith
  · intro y m hm hd
    by_cases hxy : x = y
    · subst hxy
      exact W_mono w hU hdx nL m hL hm
    · obtain ⟨z, nch, hz, hp, hzr, hdz⟩ := Desc.child_split hd hxy
      have hin := hall z nch hz hp hzr
      obtain ⟨z', hz', hzr', hp', nL', hL', _, _, hval', hmax'⟩ := hl nch hin
      have e : z' = z := by rw [← getNode_id hz', getNode_id hz]
      subst e
      have hp'' : getNode c nch.parent = some n := by rw [hp]; exact hn
      have hW := (W_step w hU hz hzr hp'').1
      have h1 := hmax' y m hm hdz
      have h2 := hmax nch hin
      linarith

theorem farthest_sub {U : List Block} {c : Chain} (w : TreeWF U c) (hU : BlockTree c.root U) (H : Nat)
    (hH : ∀ y m, getNode c y = some m → m.height < H) :
    ∀ (f x : Nat) (n : Node), getNode c x = some n → n.bits % 0x1000000 ≠ 0 → n.height + f ≥ H →
      FarOK c x n (farthest c f n) := by
  intro f
  induction f with
  | zero =>
    intro x n hn _ hf
    have := hH x n hn
    omega
  | succ f ih =>
    intro x n hn hb hf
    have hchild : ∀ ch ∈ n.childs.filterMap (getNode c),
        ∃ z, getNode c z = some ch ∧ z ≠ c.root ∧ ch.parent = x ∧ FarOK c z ch (farthest c f ch) := by
      intro ch hch
      obtain ⟨z, hz, hzc⟩ := List.mem_filterMap.mp hch
      obtain ⟨hzr, n', hn', hpar⟩ := w.childs x n hn z hz
      rw [hzc] at hn'; cases hn'
      obtain ⟨p, hp, hph, _⟩ := w.par z ch hzc hzr
      rw [hpar, hn] at hp; cases hp
      exact ⟨z, hzc, hzr, hpar, ih z ch hzc (node_bits_ok w hU hzc hzr) (by omega)⟩
    have hall : ∀ z nch, getNode c z = some nch → nch.parent = x → z ≠ c.root →
        nch ∈ n.childs.filterMap (getNode c) := by
      intro z nch hz hp hzr
      obtain ⟨p, hp', _, hzin⟩ := w.par z nch hz hzr
      rw [hp, hn] at hp'; cases hp'
      exact List.mem_filterMap.mpr ⟨z, hzin, hz⟩
    rw [farthest]
    split
    · next hk =>
      rw [hk] at hall
      exact far_leaf hn hb (fun z nch hz hp hzr => by cases hall z nch hz hp hzr)
    · next c0 rest hk =>
      rw [hk] at hall hchild
      have hden : ∀ ch ∈ c0 :: rest, (farthest c f ch).2.den > 0 := by
        intro ch hch
        obtain ⟨_, _, _, _, _, _, _, h, _⟩ := hchild ch hch
        exact h
      obtain ⟨h1, _, h3, h4⟩ := foldl_best (farthest c f)
        (fun acc ch => let r := farthest c f ch; if r.2.gt acc.2 then r else acc) (fun _ _ => rfl) rest
        (farthest c f c0) (hden c0 List.mem_cons_self) (fun ch h => hden ch (List.mem_cons_of_mem _ h))
      refine far_node w hU hn hb (farthest c f) (c0 :: rest) hchild hall _ ?_ ?_
      · rcases h1 with h1 | ⟨ch, hch, h1⟩
        · exact ⟨c0, List.mem_cons_self, h1⟩
        · exact ⟨ch, List.mem_cons_of_mem _ hch, h1⟩
      · intro ch hch
        rcases List.mem_cons.mp hch with rfl | hch
        · exact h3
        · exact h4 ch hch

/-- **FindFarthestNode from the root returns a maximum-work node**: the id it returns is a node of the tree and no node
    of the tree has more cumulative work (ties: the first child's subtree wins, which is what the known finding
    `tie-not-first-seen-after-failed-reorg` is about). -/
theorem farthest_spec {U : List Block} {c : Chain} (w : TreeWF U c) (hU : BlockTree c.root U) {r : Node}
    (hr : getNode c c.root = some r) (hrb : r.bits % 0x1000000 ≠ 0) :
    ∃ nL, getNode c (farthest c (c.nodes.length + 1) r).1 = some nL ∧
      ∀ x n, getNode c x = some n → W c n ≤ W c nL := by
  obtain ⟨nL, hL, _, _, _, hmax⟩ := farthest_sub w hU c.nodes.length (fun y m hm => height_lt_length w hm)
    (c.nodes.length + 1) c.root r hr hrb (by omega)
  exact ⟨nL, hL, fun x n hn => hmax x n hn (Desc_root_all w hn)⟩

end GocoinV.ChainTree
