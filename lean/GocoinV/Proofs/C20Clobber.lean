/-
  Proofs.C20Clobber — the node writes of the pointer layer are contained in the `clobber` sets.
  `State.mem` (the bytes "a live allocation keeps") is written by the allocator only through
  `clobber s.mem wr` with hand-listed `wr` (allocSlot / freeSlot / beginEvac in Model/Alloc.lean), while the link
  writes themselves happen in `State.heap` (`setN` inside hPush / hPop / hUnlinkG / hPurge).  Here: every slot
  whose node the heap operation of a step changes is in the `wr` list of that step, i.e. holds `junk` in
  `State.mem` afterwards — so the contents theorems really are about the node writes of the code.
-/
import GocoinV.Proofs.C20Ptr
namespace GocoinV.Alloc
open GocoinV.Gen.MemClasses
variable {V : Type}

theorem node_ext (a b : Node) (h1 : a.prev = b.prev) (h2 : a.next = b.next)
    (h3 : a.prevInPage = b.prevInPage) (h4 : a.nextInPage = b.nextInPage) : a = b := by
  cases a; cases b; simp_all

/-- a node is unchanged when its four fields are -/
theorem N_eq_of_fields {g g' : Heap} {y : Slot} (h1 : pvG g' y = pvG g y) (h2 : nxG g' y = nxG g y)
    (h3 : pvP g' y = pvP g y) (h4 : nxP g' y = nxP g y) : g'.N y = g.N y :=
  node_ext _ _ h1 h2 h3 h4

theorem clobber_mem (m : KMap Addr (SlotMem V)) (wr : List Addr) (a : Addr) (h : a ∈ wr) :
    (clobber m wr).get? a = some junk := by
  induction wr generalizing m with
  | nil => cases h
  | cons b bs ih =>
    simp only [clobber]
    by_cases hb : a ∈ bs
    · exact ih _ hb
    · rcases List.mem_cons.1 h with e | e
      · subst e; rw [clobber_get _ _ _ hb, KMap.get?_set, if_pos rfl]
      · exact absurd e hb

/-! ### hPush (uintptrFreeShared / classFree) -/

/-- the nodes hPush writes: the slot itself, the old head of the global list, the old head of the page's list -/
theorem hPush_writes (g : Heap) (c : Nat) (x y : Slot)
    (hy : (hPush g c x).N y ≠ g.N y) : y = x ∨ (g.C c).lists = some y ∨ (g.H x.1).freeList = some y := by
  have sp := hPush_spec g c x
  by_cases h1 : y = x
  · exact Or.inl h1
  by_cases h2 : (g.C c).lists = some y
  · exact Or.inr (Or.inl h2)
  by_cases h3 : (g.H x.1).freeList = some y
  · exact Or.inr (Or.inr h3)
  exfalso; apply hy
  refine N_eq_of_fields ?_ ?_ ?_ ?_
  · rw [sp.pvG, if_neg h2, if_neg h1]
  · rw [sp.nxG, if_neg h1]
  · rw [sp.pvP, if_neg h3, if_neg h1]
  · rw [sp.nxP, if_neg h1]

/-- freeSlot: every slot whose node is written is in the clobber list of the step (holds `junk` afterwards) -/
theorem freeSlot_writes_clobbered {s : State V} (r : Rep s) {p i : Nat} {h : Page}
    (hp : s.pages.get? p = some h) (y : Slot)
    (hy : (freeSlot s p i h).heap.N y ≠ s.heap.N y) :
    (freeSlot s p i h).mem.get? (.sh y.1 y.2) = some junk := by
  unfold freeSlot at hy ⊢
  simp only [] at hy ⊢
  split at hy
  · exact absurd rfl hy
  · next hev =>
    rw [if_neg hev]
    apply clobber_mem
    have hg := (r.glob h.cls).head
    have hpg := (r.page p h hp).head
    rcases hPush_writes _ _ _ _ hy with e | e | e
    · subst e; simp
    · rw [hg] at e
      cases hgl : (s.K h.cls).glist with
      | nil => rw [hgl] at e; cases e
      | cons a rest =>
        rw [hgl] at e; simp only [List.head?_cons, Option.some.injEq] at e
        subst e; simp [headAddrs]
    · rw [hpg] at e
      cases hfl : h.freeList with
      | nil => rw [hfl] at e; cases e
      | cons j rest =>
        rw [hfl] at e; simp only [List.map_cons, List.head?_cons, Option.some.injEq] at e
        subst e; simp [headSlots]

/-! ### hPurge (defragClass, first loop) -/

/-- beginEvac: the purge writes only nodes of the class's global free list, all of which are clobbered -/
theorem beginEvac_writes_clobbered {s s' : State V} {c pg : Nat} (inv : InvG s) (r : Rep s)
    (hr : beginEvac s c pg = .ok s') (y : Slot) (hy : s'.heap.N y ≠ s.heap.N y) :
    s'.mem.get? (.sh y.1 y.2) = some junk := by
  unfold beginEvac at hr
  cases hp : s.pages.get? pg with
  | none => simp [hp] at hr
  | some h =>
  simp only [hp] at hr
  split at hr
  · cases hr
  · next hcond =>
    simp only [not_or, Decidable.not_not, Bool.not_eq_true] at hcond
    obtain ⟨hcl, hev⟩ := hcond
    cases hr
    simp only [] at hy ⊢
    apply clobber_mem
    have okp := inv.pages pg h hp
    have rp := r.page pg h hp
    have hlen : (h.freeList.map (Prod.mk pg)).length ≤ h.brk := by
      rw [List.length_map]; exact nodup_bound h.brk h.freeList okp.fl_nodup okp.fl_lt
    have hsub : ∀ x, x ∈ h.freeList.map (Prod.mk pg) → x ∈ (s.K c).glist := by
      intro x hx
      obtain ⟨x1, x2⟩ := mem_mk hx
      have : x = (pg, x.2) := by rw [← x1]
      rw [this]
      exact ((inv.classes c).gl_iff pg x.2).2 ⟨h, hp, hcl, hev, x2⟩
    obtain ⟨_, i2, _, _, _, i6⟩ := purgeWalk_spec c _ h.brk (s.heap.H pg).freeList none s.heap (s.K c).glist
      rp hlen (r.glob c) (inv.classes c).gl_nodup hsub (nodup_mk pg okp.fl_nodup)
    have hin : y ∈ (s.K c).glist := by
      by_cases hin : y ∈ (s.K c).glist
      · exact hin
      · exfalso; apply hy
        show (hPurge s.heap c pg h.brk).N y = s.heap.N y
        unfold hPurge
        rw [Heap.N_setH]
        exact N_eq_of_fields (i6 y hin).2 (i6 y hin).1 (i2 y).2 (i2 y).1
    exact List.mem_map.2 ⟨y, hin, rfl⟩

/-! ### hPop (uintptrMallocShared / classMalloc, "Allocate from free list") -/

/-- the nodes hPop writes: the popped node's global successor and its two per-page neighbours -/
theorem hPop_writes (g : Heap) (c : Nat) (n y : Slot) (hl : (g.C c).lists = some n)
    (hy : (hPop g c).N y ≠ g.N y) :
    (g.N n).next = some y ∨ (g.N n).prevInPage = some y ∨ (g.N n).nextInPage = some y := by
  have sp := hPop_spec g c n hl
  by_cases h1 : (g.N n).next = some y
  · exact Or.inl h1
  by_cases h2 : (g.N n).prevInPage = some y
  · exact Or.inr (Or.inl h2)
  by_cases h3 : (g.N n).nextInPage = some y
  · exact Or.inr (Or.inr h3)
  exfalso; apply hy
  refine N_eq_of_fields ?_ ?_ ?_ ?_
  · rw [sp.pvG, if_neg h1]
  · rw [sp.nxG]
  · rw [sp.pvP, if_neg h3]
  · rw [sp.nxP, if_neg h2]

/-- in a doubly linked per-page list the `nextInPage` / `prevInPage` fields of slot i point to the list
    neighbours `nbrs l i` of the model (or, for the first node, `prevInPage` is the list's back pointer) -/
theorem DL.nbrs_page {nx pv : Slot → Option Slot} (p i : Nat) :
    ∀ (l : List Nat) (hd pp : Option Slot), DL nx pv hd pp (l.map (Prod.mk p)) → i ∈ l →
      (∀ y, nx (p, i) = some y → y.1 = p ∧ y.2 ∈ nbrs l i) ∧
      (∀ y, pv (p, i) = some y → (l.head? = some i ∧ some y = pp) ∨ (y.1 = p ∧ y.2 ∈ nbrs l i)) := by
  intro l
  induction l with
  | nil => intro hd pp _ hi; cases hi
  | cons a t ih =>
    intro hd pp h hi
    obtain ⟨_, hpv, h3⟩ := h
    cases t with
    | nil =>
      have ha : i = a := by simpa using hi
      subst ha
      have hn : nx (p, i) = none := h3
      refine ⟨?_, ?_⟩
      · intro y hy; rw [hn] at hy; cases hy
      · intro y hy; left; exact ⟨rfl, by rw [← hy]; exact hpv⟩
    | cons b t' =>
      obtain ⟨hnx, hpvb, h4⟩ := h3
      by_cases ea : a = i
      · subst ea
        refine ⟨?_, ?_⟩
        · intro y hy; rw [hnx] at hy; cases hy; simp [nbrs]
        · intro y hy; left; exact ⟨rfl, by rw [← hy]; exact hpv⟩
      · by_cases eb : b = i
        · subst eb
          refine ⟨?_, ?_⟩
          · intro y hy
            have hh := h4.head
            rw [hy] at hh
            cases t' with
            | nil => cases hh
            | cons c t'' =>
              simp only [List.map_cons, List.head?_cons, Option.some.injEq] at hh
              subst hh; simp [nbrs, ea]
          · intro y hy
            right
            rw [hpvb] at hy; cases hy
            simp [nbrs, ea]
        · have hi' : i ∈ b :: t' := by
            rcases List.mem_cons.1 hi with e | e
            · exact absurd e.symm ea
            · exact e
          have key := ih (nx (p, a)) (some (p, a)) ⟨hnx, hpvb, h4⟩ hi'
          have hn : nbrs (a :: b :: t') i = nbrs (b :: t') i := by
            simp only [nbrs, if_neg ea, if_neg eb]
          refine ⟨?_, ?_⟩
          · intro y hy; rw [hn]; exact key.1 y hy
          · intro y hy
            rcases key.2 y hy with ⟨e1, _⟩ | e
            · simp only [List.head?_cons, Option.some.injEq] at e1; exact absurd e1 eb
            · right; rw [hn]; exact e

/-- allocSlot: every slot whose node is written by the pop is in the clobber list of the step -/
theorem allocSlot_writes_clobbered {s s' : State V} {c p i : Nat} (inv : InvG s) (r : Rep s)
    (hr : allocSlot s c = .ok (s', p, i)) (y : Slot) (hy : s'.heap.N y ≠ s.heap.N y) :
    s'.mem.get? (.sh y.1 y.2) = some junk := by
  unfold allocSlot at hr
  simp only [] at hr
  cases hcur : (s.K c).cur with
  | some q =>
    simp only [hcur] at hr
    cases hq : s.pages.get? q with
    | none => simp [hq] at hr
    | some h => simp only [hq] at hr; cases hr; exact absurd rfl hy
  | none =>
    simp only [hcur] at hr
    cases hgl : (s.K c).glist with
    | nil => simp [hgl] at hr
    | cons n rest =>
      obtain ⟨q, j⟩ := n
      simp only [hgl] at hr
      cases hq : s.pages.get? q with
      | none => simp [hq] at hr
      | some h =>
        simp only [hq] at hr
        cases hr
        simp only [] at hy ⊢
        apply clobber_mem
        have rc := r.glob c
        rw [hgl] at rc
        obtain ⟨hl, _, rc3⟩ := rc
        have hj : i ∈ h.freeList := by
          obtain ⟨h0, a, _, _, d⟩ := ((inv.classes c).gl_iff p i).1 (by rw [hgl]; simp)
          rw [hq] at a; cases a; exact d
        have nb := DL.nbrs_page p i h.freeList _ _ (r.page p h hq) hj
        rcases hPop_writes _ _ _ _ hl hy with e | e | e
        · have hh := rc3.head
          change nxG s.heap (p, i) = rest.head? at hh
          rw [show nxG s.heap (p, i) = some y from e] at hh
          cases rest with
          | nil => cases hh
          | cons a rest' =>
            simp only [List.head?_cons, Option.some.injEq] at hh
            subst hh; simp [headAddrs]
        · rcases nb.2 y e with ⟨_, e2⟩ | ⟨e1, e2⟩
          · cases e2
          · apply List.mem_append_right
            exact List.mem_map.2 ⟨y.2, e2, by rw [← e1]⟩
        · obtain ⟨e1, e2⟩ := nb.1 y e
          apply List.mem_append_right
          exact List.mem_map.2 ⟨y.2, e2, by rw [← e1]⟩

/-! ### transitions that write no node -/

theorem newPage_writes_none (s : State V) (c : Nat) (y : Slot) : (newPage s c).heap.N y = s.heap.N y :=
  (hLinkPage_spec s.heap c s.nextPage).node y

theorem endEvac_writes_none {s s' : State V} {c pg : Nat} (hr : endEvac s c pg = .ok s') (y : Slot) :
    s'.heap.N y = s.heap.N y := by
  unfold endEvac at hr
  cases hp : s.pages.get? pg with
  | none => simp [hp] at hr
  | some h =>
    simp only [hp] at hr
    split at hr
    · cases hr
    · cases hr; exact (hUnlinkPage_spec s.heap c pg).node y

end GocoinV.Alloc
