/-
  Proofs.C06MorePow — `BlockTreeNode.MorePOW` of the chain model (`morePOW`: climb both nodes to their common
  ancestor summing the exact difficulties) decides "strictly more cumulative work" in a well-formed tree.
-/
import GocoinV.Proofs.C06Work
namespace GocoinV.ChainTree
open GocoinV.UtxoOps

/-- a node of positive height is not the root -/
theorem ne_root_of_height_pos {U : List Block} {c : Chain} (w : TreeWF U c) {x : Nat} {n : Node}
    (hn : getNode c x = some n) (h : n.height > 0) : x ≠ c.root := by
  intro e
  obtain ⟨r, hr, h0, _⟩ := w.root
  rw [e, hr] at hn; cases hn; omega

/-- the climbing loop of MorePOW with accumulated sums `s1`, `s2`: with enough fuel it compares
    `W b1 + s1` with `W b2 + s2` -/
theorem morePOWAux_spec {U : List Block} {c : Chain} (w : TreeWF U c) (hU : BlockTree c.root U) :
    ∀ (f : Nat) (y1 y2 : Nat) (b1 b2 : Node) (s1 s2 : Q), getNode c y1 = some b1 → getNode c y2 = some b2 →
      s1.den > 0 → s2.den > 0 → f > b1.height + b2.height →
      (morePOWAux c f b1 b2 s1 s2 = true ↔ W c b1 + s1.val > W c b2 + s2.val) := by
  intro f
  induction f with
  | zero => intro y1 y2 b1 b2 s1 s2 _ _ _ _ hf; omega
  | succ f ih =>
    intro y1 y2 b1 b2 s1 s2 h1 h2 d1 d2 hf
    rw [morePOWAux]
    by_cases c1 : b1.height > b2.height
    · rw [if_pos c1]
      have hx : y1 ≠ c.root := ne_root_of_height_pos w h1 (by omega)
      obtain ⟨p, hp, hh, _⟩ := w.par y1 b1 h1 hx
      simp only [hp]
      obtain ⟨hW, _⟩ := W_step w hU h1 hx hp
      have hb := difficulty_den_pos _ (node_bits_ok w hU h1 hx)
      rw [ih _ _ p b2 _ _ hp h2 (Q.add_den_pos _ _ d1 hb) d2 (by omega), Q.val_add _ _ d1 hb, hW]
      constructor <;> intro h <;> linarith
    · rw [if_neg c1]
      by_cases c2 : b2.height > b1.height
      · rw [if_pos c2]
        have hx : y2 ≠ c.root := ne_root_of_height_pos w h2 (by omega)
        obtain ⟨p, hp, hh, _⟩ := w.par y2 b2 h2 hx
        simp only [hp]
        obtain ⟨hW, _⟩ := W_step w hU h2 hx hp
        have hb := difficulty_den_pos _ (node_bits_ok w hU h2 hx)
        rw [ih _ _ b1 p _ _ h1 hp d1 (Q.add_den_pos _ _ d2 hb) (by omega), Q.val_add _ _ d2 hb, hW]
        constructor <;> intro h <;> linarith
      · rw [if_neg c2]
        have i1 : b1.id = y1 := getNode_id h1
        have i2 : b2.id = y2 := getNode_id h2
        by_cases c3 : b1.id = b2.id
        · have hb : (b1.id == b2.id) = true := by simpa using c3
          rw [if_pos hb]
          have : y1 = y2 := by rw [← i1, ← i2]; exact c3
          subst this
          rw [h1] at h2; cases h2
          rw [Q.gt_iff _ _ d1 d2]
          constructor <;> intro h <;> linarith
        · have hb : ¬ (b1.id == b2.id) = true := by simpa using c3
          rw [if_neg hb]
          have hpos : b1.height > 0 := by
            apply Nat.pos_of_ne_zero
            intro h0
            have e1 := w.root_of_height0 h1 h0
            have e2 := w.root_of_height0 h2 (by omega)
            exact c3 (by rw [i1, i2, e1, e2])
          have hx1 : y1 ≠ c.root := ne_root_of_height_pos w h1 hpos
          have hx2 : y2 ≠ c.root := ne_root_of_height_pos w h2 (by omega)
          obtain ⟨p1, hp1, hh1, _⟩ := w.par y1 b1 h1 hx1
          obtain ⟨p2, hp2, hh2, _⟩ := w.par y2 b2 h2 hx2
          simp only [hp1, hp2]
          obtain ⟨hW1, _⟩ := W_step w hU h1 hx1 hp1
          obtain ⟨hW2, _⟩ := W_step w hU h2 hx2 hp2
          have hb1 := difficulty_den_pos _ (node_bits_ok w hU h1 hx1)
          have hb2 := difficulty_den_pos _ (node_bits_ok w hU h2 hx2)
          rw [ih _ _ p1 p2 _ _ hp1 hp2 (Q.add_den_pos _ _ d1 hb1) (Q.add_den_pos _ _ d2 hb2) (by omega),
            Q.val_add _ _ d1 hb1, Q.val_add _ _ d2 hb2, hW1, hW2]
          constructor <;> intro h <;> linarith

/-- **MorePOW is the comparison of cumulative work**: in a well-formed tree over a block tree with valid bits,
    `b1.MorePOW(b2)` holds exactly when the exact cumulative work of `b1` exceeds that of `b2`
    (it never runs out of fuel and never meets a missing parent). -/
theorem morePOW_spec {U : List Block} {c : Chain} (w : TreeWF U c) (hU : BlockTree c.root U) {x1 x2 : Nat} {b1 b2 : Node}
    (h1 : getNode c x1 = some b1) (h2 : getNode c x2 = some b2) :
    morePOW c b1 b2 = true ↔ W c b1 > W c b2 := by
  unfold morePOW
  rw [morePOWAux_spec w hU _ x1 x2 b1 b2 Q.zero Q.zero h1 h2 (by decide) (by decide) (by omega), Q.val_zero]
  simp
