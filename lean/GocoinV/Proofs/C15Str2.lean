/-
  Proofs.C15Str2 — a typed string with a byte ≥ 0x80 (any character outside ASCII, in any encoding) is refused by
  `bech32.Decode`, `SegwitDecode`, `NewAddrFromString` and `DecodePrivateAddr` (the models read bytes; the Base58
  part rests on Proofs/C15Str.lean).
-/
import GocoinV.Proofs.C15Str
import GocoinV.Proofs.C15Bech32Inv
import GocoinV.Model.AddrWif
namespace GocoinV.Bech32
open Gen.Bech32Consts

theorem hibit_tab : ∀ i : Fin 256, 128 ≤ i.val → (UInt8.ofNat i.val &&& 0x80 ≠ 0) := by decide +kernel

theorem hibit (c : UInt8) (h : 128 ≤ c.toNat) : c &&& 0x80 ≠ 0 := by
  have := hibit_tab ⟨c.toNat, c.toNat_lt⟩ h
  simpa only [UInt8.ofNat_toNat] using this

theorem decHrp?_hi (l : Bytes) : ∀ s, (∃ c ∈ l, 128 ≤ c.toNat) → decHrp? l s = none := by
  induction l with
  | nil => intro _ ⟨c, hc, _⟩; cases hc
  | cons x t ih =>
    intro s ⟨c, hc, h⟩
    simp only [decHrp?]
    split
    · rfl
    · rename_i hx
      apply ih
      rcases List.mem_cons.mp hc with rfl | hm
      · omega
      · exact ⟨c, hm, h⟩

theorem decData?_hi (l : Bytes) : ∀ s, (∃ c ∈ l, 128 ≤ c.toNat) → decData? l s = none := by
  induction l with
  | nil => intro _ ⟨c, hc, _⟩; cases hc
  | cons x t ih =>
    intro s ⟨c, hc, h⟩
    simp only [decData?]
    split
    · rfl
    · rename_i hx
      split
      · rfl
      · apply ih
        rcases List.mem_cons.mp hc with rfl | hm
        · exact absurd (hibit c h) hx
        · exact ⟨c, hm, h⟩

/-- `bech32.Decode` refuses every string that has a byte ≥ 0x80 -/
theorem decode_hi (s : Bytes) (h : ∃ c ∈ s, 128 ≤ c.toNat) : decode s = none := by
  unfold decode
  simp only
  split
  · rfl
  · split
    · rfl
    · rename_i h1 h2
      obtain ⟨Hh, T, hs, hT⟩ := split_at_sep s (by omega)
      have hlen : s.length - (1 + dataLenOf s) = Hh.length := by
        have := congrArg List.length hs
        simp only [List.length_append, List.length_cons, List.length_nil] at this
        omega
      rw [hlen]
      have htake : s.take Hh.length = Hh := by
        rw [hs, List.append_assoc, List.take_left']
        rfl
      have hdrop : s.drop (Hh.length + 1) = T := by
        have : Hh.length + 1 = (Hh ++ [49]).length := by simp
        rw [hs, this, List.drop_left']
        rfl
      rw [htake, hdrop]
      obtain ⟨c, hc, hge⟩ := h
      rw [hs] at hc
      simp only [List.mem_append, List.mem_singleton] at hc
      rcases hc with (hc | hc) | hc
      · rw [decHrp?_hi Hh _ ⟨c, hc, hge⟩]
      · subst hc; simp at hge
      · cases decHrp? Hh ⟨1, [], false, false⟩ with
        | none => rfl
        | some hsn =>
          simp only
          rw [decData?_hi T _ ⟨c, hc, hge⟩]

theorem segwitDecode_hi (hrp s : Bytes) (h : ∃ c ∈ s, 128 ≤ c.toNat) : segwitDecode hrp s = .error .decode := by
  unfold segwitDecode
  rw [decode_hi s h]

end GocoinV.Bech32

namespace GocoinV.Addr

/-- `NewAddrFromString` refuses every string that has a byte ≥ 0x80 -/
theorem fromString_hi (H : Hashes) (s : Bytes) (h : ∃ c ∈ s, 128 ≤ c.toNat) :
    fromString H s = .error .short ∨ fromString H s = .error (.segwit .decode) ∨ fromString H s = .error .b58decode := by
  unfold fromString
  split
  · exact Or.inl rfl
  · simp only
    split
    · rw [Bech32.segwitDecode_hi _ s h]
      exact Or.inr (Or.inl rfl)
    · rw [Base58Str.decode_hi s h]
      exact Or.inr (Or.inr rfl)

end GocoinV.Addr

namespace GocoinV.AddrWif

/-- `DecodePrivateAddr` refuses every string that has a byte ≥ 0x80 -/
theorem decode_hi (C : WalletCrypto) (s : Bytes) (h : ∃ c ∈ s, 128 ≤ c.toNat) : decode C s = .error .b58 := by
  unfold decode
  rw [Base58Str.decode_hi s h]

end GocoinV.AddrWif
