/-
  Proofs.C03Schnorr — `secp256k1.SchnorrSign` is BIP340 default signing, byte for byte, whenever the
  nonce hash (as an integer) is below n. Core Lean only; no group law needed (both sides end with the
  same verification, `schnorr_eq`).
-/
import GocoinV.Proofs.C03Der
namespace GocoinV.Proofs.C03
open GocoinV GocoinV.Secp GocoinV.Model GocoinV.Model.Sig GocoinV.C03

theorem beBytes_length (k v : Nat) : (beBytes k v).length = k := by
  unfold beBytes; simp

theorem beBytes_beVal (bs : Bytes) : beBytes bs.length (beVal bs) = bs := by
  unfold beBytes beVal
  have := leBytes_leVal bs.reverse
  rw [List.length_reverse] at this
  rw [this, List.reverse_reverse]

theorem beVal_lt (bs : Bytes) : beVal bs < 256 ^ bs.length := by
  unfold beVal
  have := leVal_lt bs.reverse
  rwa [List.length_reverse] at this

theorem xorBytes_comm : ∀ (a b : Bytes), a.length = b.length → xorBytes a b = xorBytes b a
  | [], [], _ => rfl
  | [], _ :: _, h => by simp at h
  | _ :: _, [], h => by simp at h
  | x :: a, y :: b, h => by
    simp only [xorBytes]
    rw [UInt8.xor_comm, xorBytes_comm a b (by simpa using h)]

/-- the hash `rand` of BIP340 signing (nonce before reduction), `[]` for an invalid key -/
def signNonceHash (H : Hash) (msg sk aux : Bytes) : Bytes :=
  match mul (beVal sk) G with
  | none => []
  | some (px, py) =>
    let d := if py % 2 = 0 then beVal sk else n - beVal sk
    taggedHash H "BIP0340/nonce" (xorBytes (beBytes 32 d) (taggedHash H "BIP0340/aux" aux) ++ beBytes 32 px ++ msg)

theorem taggedHash_length (H : Hash) (hH : ∀ b, (H b).length = 32) (tag : String) (d : Bytes) :
    (taggedHash H tag d).length = 32 := by
  unfold taggedHash; exact hH _

theorem schnorrSign_eq (H : Hash) (hH : ∀ b, (H b).length = 32) (m sk a : Bytes) (hsk : sk.length = 32)
    (hk : beVal (signNonceHash H m sk a) < n) :
    schnorrSign H m sk a = Spec.Bip340.sign H m sk a := by
  unfold schnorrSign Spec.Bip340.sign
  simp only [hsk, ne_eq, not_true_eq_false, ↓reduceIte]
  by_cases hd : beVal sk = 0 ∨ beVal sk ≥ n
  · simp only [hd, ↓reduceIte]
  · simp only [hd, ↓reduceIte]
    unfold signNonceHash at hk
    cases hP : mul (beVal sk) G with
    | none => rfl
    | some P =>
      obtain ⟨px, py⟩ := P
      rw [hP] at hk
      simp only [] at hk ⊢
      have hdn : beVal sk < n := by omega
      have hn256 : n < 256 ^ 32 := by decide
      -- the (possibly negated) secret key: bytes on the Go side, integer in the BIP
      have hdb : (if py % 2 = 1 then beBytes 32 (n - beVal sk) else sk)
          = beBytes 32 (if py % 2 = 0 then beVal sk else n - beVal sk) := by
        rcases Nat.mod_two_eq_zero_or_one py with e | e
        · simp only [e, Nat.zero_ne_one, ↓reduceIte]
          rw [← hsk, beBytes_beVal]
        · simp only [e, ↓reduceIte, Nat.one_ne_zero]
      have hdv : beVal (beBytes 32 (if py % 2 = 0 then beVal sk else n - beVal sk))
          = (if py % 2 = 0 then beVal sk else n - beVal sk) := by
        apply beVal_beBytes
        split <;> omega
      rw [hdb, hdv]
      rw [xorBytes_comm (taggedHash H "BIP0340/aux" a) _
        (by rw [taggedHash_length H hH, beBytes_length])]
      generalize hk0 : taggedHash H "BIP0340/nonce"
        (xorBytes (beBytes 32 (if py % 2 = 0 then beVal sk else n - beVal sk)) (taggedHash H "BIP0340/aux" a)
          ++ beBytes 32 px ++ m) = k0 at hk ⊢
      generalize (if py % 2 = 0 then beVal sk else n - beVal sk) = d
      have hkr : beVal k0 % n = beVal k0 := Nat.mod_eq_of_lt hk
      rw [hkr]
      by_cases hz : beVal k0 = 0
      · simp only [hz, ↓reduceIte]
      · simp only [hz, ↓reduceIte]
        cases hR : mul (beVal k0) G with
        | none => rfl
        | some R =>
          obtain ⟨rx, ry⟩ := R
          simp only []
          have hkk : (if ry % 2 = 1 then ((n : Int) - (beVal k0 : Int)).natAbs else beVal k0)
              = (if ry % 2 = 0 then beVal k0 else n - beVal k0) := by
            rcases Nat.mod_two_eq_zero_or_one ry with e | e
            · simp only [e, Nat.zero_ne_one, ↓reduceIte]
            · simp only [e, ↓reduceIte, Nat.one_ne_zero]; omega
          have he : ∀ ev : Nat, ev < 256 ^ 32 → (if ev < n then ev else ev - n) = ev % n := by
            intro ev hev
            have h2 : 256 ^ 32 < 2 * n := by decide
            by_cases hlt : ev < n
            · rw [if_pos hlt, Nat.mod_eq_of_lt hlt]
            · rw [if_neg hlt, Nat.mod_eq_sub_mod (by omega), Nat.mod_eq_of_lt (by omega)]
          have hch : (if beVal (taggedHash H "BIP0340/challenge" (beBytes 32 rx ++ beBytes 32 px ++ m)) < n
                then beVal (taggedHash H "BIP0340/challenge" (beBytes 32 rx ++ beBytes 32 px ++ m))
                else beVal (taggedHash H "BIP0340/challenge" (beBytes 32 rx ++ beBytes 32 px ++ m)) - n)
              = Spec.Bip340.challenge H (beBytes 32 rx) (beBytes 32 px) m := by
            unfold Spec.Bip340.challenge
            apply he
            have := beVal_lt (taggedHash H "BIP0340/challenge" (beBytes 32 rx ++ beBytes 32 px ++ m))
            rwa [taggedHash_length H hH] at this
          rw [hkk, hch, schnorr_eq]
          have hs : (Spec.Bip340.challenge H (beBytes 32 rx) (beBytes 32 px) m * d +
                (if ry % 2 = 0 then beVal k0 else n - beVal k0)) % n
              = ((if ry % 2 = 0 then beVal k0 else n - beVal k0) +
                Spec.Bip340.challenge H (beBytes 32 rx) (beBytes 32 px) m * d) % n := by
            rw [Nat.add_comm]
          rw [hs]


/-- `SchnorrSign` only returns signatures that `SchnorrVerify` accepts for the x-only public key of
    the secret key (the code verifies before returning). -/
theorem schnorrSign_verifies (H : Hash) (m sk a sig : Bytes) (h : schnorrSign H m sk a = some sig) :
    ∃ px py, mul (beVal sk) G = some (px, py) ∧ schnorrVerify H (beBytes 32 px) sig m = true := by
  unfold schnorrSign at h
  by_cases h32 : sk.length ≠ 32
  · simp [h32] at h
  · simp only [h32, ↓reduceIte] at h
    by_cases hd : beVal sk = 0 ∨ beVal sk ≥ n
    · simp [hd] at h
    · simp only [hd, ↓reduceIte] at h
      cases hP : mul (beVal sk) G with
      | none => rw [hP] at h; simp at h
      | some P =>
        obtain ⟨px, py⟩ := P
        rw [hP] at h
        simp only [] at h
        refine ⟨px, py, rfl, ?_⟩
        generalize (if py % 2 = 1 then beBytes 32 (n - beVal sk) else sk) = d at h
        generalize taggedHash H "BIP0340/nonce" (xorBytes (taggedHash H "BIP0340/aux" a) d ++ beBytes 32 px ++ m) = k0 at h
        by_cases hz : beVal k0 % n = 0
        · simp [hz] at h
        · simp only [hz, ↓reduceIte] at h
          cases hR : mul (beVal k0 % n) G with
          | none => rw [hR] at h; simp at h
          | some R =>
            obtain ⟨rx, ry⟩ := R
            rw [hR] at h
            simp only [] at h
            generalize beBytes 32 rx ++ beBytes 32 _ = res at h
            by_cases hv : schnorrVerify H (beBytes 32 px) res m = true
            · rw [if_pos hv] at h
              simp only [Option.some.injEq] at h
              rw [← h]; exact hv
            · rw [if_neg hv] at h; simp at h

end GocoinV.Proofs.C03
