/-
  Proofs.C08_MultGen — `ECmultGen` (64×16 comb over the table `prec`, then `+ fin`) followed through the
  proved `XYZ.AddXY`: the result represents the left-nested reference sum of the selected table points;
  pointwise meaning of the table `prec` from its proved row relations.
-/
import GocoinV.Proofs.C08_Group
import GocoinV.Proofs.C08_TabPrec
import GocoinV.Proofs.C08_TabAll

namespace GocoinV.C08
open GocoinV.Gen.Field5x52 GocoinV.Gen

/-- both coordinates of a 10-limb table entry are within magnitude 2 (the affine contract `XY.ok`; `fin` has a negated, magnitude-2 y) -/
def entryMagOK (l : List Nat) : Bool :=
  l.length == 10 && decide ((Fe.ofList (l.take 5)).mag 2) && decide ((Fe.ofList (l.drop 5)).mag 2)

theorem prec_mags : Tables.precAll.all entryMagOK = true := by decide +kernel
theorem prec_len : Tables.precAll.length = 1024 := by decide +kernel
theorem fin_mag : entryMagOK Tables.fin = true := by decide +kernel

theorem ofLimbs_ok {l : List Nat} (h : entryMagOK l = true) : (XY.ofLimbs l).ok := by
  unfold entryMagOK at h
  simp only [Bool.and_eq_true, decide_eq_true_eq] at h
  exact ⟨mag_mono h.1.2 (by decide), mag_mono h.2 (by decide)⟩

theorem ofLimbs_toPoint (l : List Nat) : (XY.ofLimbs l).toPoint = ptOfLimbs l := by
  unfold XY.toPoint XY.ofLimbs ptOfLimbs ptF
  simp only [Bool.false_eq_true, if_false, secp_p_eq]
  unfold Fe.z
  rw [ZMod.val_natCast, ZMod.val_natCast]

theorem precXY_ok (j i : Nat) (h : j * 16 + i < 1024) : (precXY j i).ok := by
  unfold precXY Tables.precAt
  apply ofLimbs_ok
  have hall := List.all_eq_true.1 prec_mags
  have hi : j * 16 + i < Tables.precAll.length := by rw [prec_len]; exact h
  simp only [List.getD_eq_getElem?_getD, List.getElem?_eq_getElem hi, Option.getD_some]
  exact hall _ (List.getElem_mem hi)

theorem finXY_ok : finXY.ok := ofLimbs_ok fin_mag

/-- a fold of contract-preserving steps that each realise a reference step realises the reference fold -/
theorem foldl_ok {α : Type} (f : XYZ → α → XYZ) (g : Secp.Point → α → Secp.Point) (l : List α)
    (hstep : ∀ r k, k ∈ l → r.ok → (f r k).ok ∧ (f r k).toPoint = g r.toPoint k) :
    ∀ r : XYZ, r.ok → (l.foldl f r).ok ∧ (l.foldl f r).toPoint = l.foldl g r.toPoint := by
  induction l with
  | nil => intro r hr; exact ⟨hr, rfl⟩
  | cons k t ih =>
    intro r hr
    obtain ⟨h1, h2⟩ := hstep r k (List.mem_cons_self) hr
    have := ih (fun r k' hk hr' => hstep r k' (List.mem_cons_of_mem _ hk) hr') (f r k) h1
    rw [List.foldl_cons, List.foldl_cons, ← h2]
    exact this

/-- the reference value of `ECmultGen(a)`: the table points selected by the 64 hex digits of `a`
    (row j, column digit_j), added left to right, then `fin` -/
def ecmultGenRef (a : Nat) : Secp.Point :=
  Secp.add
    ((List.range 63).foldl (fun r k => Secp.add r (ptOfLimbs (Tables.precAt ((k + 1) * 16 + (a / 16 ^ (k + 1)) % 16))))
      (ptOfLimbs (Tables.precAt (0 * 16 + a % 16))))
    (ptOfLimbs Tables.fin)

theorem ecmultGen_ref (a : Nat) : (ecmultGen a).ok ∧ (ecmultGen a).toPoint = ecmultGenRef a := by
  unfold ecmultGen ecmultGenRef
  simp only []
  have h0 := ofXY_ok (precXY 0 (a % 16)) (precXY_ok 0 (a % 16) (by omega))
  have hfold := foldl_ok
    (fun (r : XYZ) (k : Nat) => XYZ.addXY r (precXY (k + 1) ((a / 16 ^ (k + 1)) % 16)))
    (fun r k => Secp.add r (ptOfLimbs (Tables.precAt ((k + 1) * 16 + (a / 16 ^ (k + 1)) % 16))))
    (List.range 63)
    (fun r k hk hr => by
      have hk' : k < 63 := List.mem_range.1 hk
      have := addXY_ok r (precXY (k + 1) ((a / 16 ^ (k + 1)) % 16)) hr (precXY_ok _ _ (by omega))
      rw [show (precXY (k + 1) ((a / 16 ^ (k + 1)) % 16)).toPoint = _ from ofLimbs_toPoint _] at this
      exact this)
    _ h0.1
  obtain ⟨hr, hp⟩ := hfold
  have hfin := addXY_ok _ finXY hr finXY_ok
  rw [show finXY.toPoint = _ from ofLimbs_toPoint _, hp, h0.2,
    show (precXY 0 (a % 16)).toPoint = _ from ofLimbs_toPoint _] at hfin
  exact hfin

/-- base point of row j counted from a first row base h: B_0 = h, B_{j+1} = 16·B_j (15 reference additions of B_j to itself) -/
def rbFrom : Secp.Point → Nat → Secp.Point
  | h, 0 => h
  | h, j+1 => rbFrom (addSteps h h 15) j

theorem getLastD_eq_getD {α : Type} (l : List α) (d : α) (n : Nat) (h : l.length = n + 1) :
    l.getLastD d = l.getD n d := by
  induction l generalizing n with
  | nil => simp at h
  | cons a t ih =>
    cases t with
    | nil => simp at h; subst h; rfl
    | cons b t' =>
      cases n with
      | zero => simp at h
      | succ m =>
        have := ih m (by simpa using h)
        simpa [List.getLastD] using this

theorem rows_pointwise : ∀ (n : Nat) (h : Secp.Point) (l : List Secp.Point), precRowsOK n h l = true →
    ∀ j i, j < n → i < 16 → l.getD (j * 16 + i) none = addSteps (rbFrom h j) (rbFrom h j) i := by
  intro n
  induction n with
  | zero => intro h l _ j i hj; omega
  | succ n ih =>
    intro h l hok j i hj hi
    unfold precRowsOK at hok
    simp only [Bool.and_eq_true, beq_iff_eq] at hok
    obtain ⟨⟨⟨hlen, hhead⟩, hchain⟩, hrec⟩ := hok
    have hhead' : (l.take 16).head? = some h := by
      cases hrow : l.take 16 with
      | nil => rw [hrow] at hlen; simp at hlen
      | cons a t => rw [hrow] at hhead; simp at hhead; simp [hhead]
    have hrowi : ∀ k, k < 16 → l.getD k none = addSteps h h k := by
      intro k hk
      have := chain_spec h h (l.take 16) hchain hhead' k (by omega)
      have e : l.getD k none = (l.take 16).getD k none := by
        simp only [List.getD_eq_getElem?_getD, List.getElem?_take, hk, if_true]
      rw [e]
      exact this
    cases j with
    | zero =>
      show l.getD (0 * 16 + i) none = addSteps h h i
      rw [Nat.zero_mul, Nat.zero_add]
      exact hrowi i hi
    | succ j' =>
      have hlast : (l.take 16).getLastD none = addSteps h h 15 := by
        have e : (l.take 16).getD 15 none = l.getD 15 none := by
          simp only [List.getD_eq_getElem?_getD, List.getElem?_take]
          simp
        exact (getLastD_eq_getD _ _ 15 hlen).trans (e.trans (hrowi 15 (by omega)))
      rw [hlast] at hrec
      have := ih _ _ hrec j' i (by omega) hi
      have e : l.getD ((j' + 1) * 16 + i) none = (l.drop 16).getD (j' * 16 + i) none := by
        simp only [List.getD_eq_getElem?_getD, List.getElem?_drop]
        congr 2
        omega
      exact e.trans this

/-- 16^j·G by repeated reference addition -/
def precBase (j : Nat) : Secp.Point := rbFrom Secp.G j

theorem rbFrom_succ (h : Secp.Point) (j : Nat) :
    rbFrom h (j + 1) = addSteps (rbFrom h j) (rbFrom h j) 15 := by
  induction j generalizing h with
  | zero => rfl
  | succ k ih =>
    show rbFrom (addSteps h h 15) (k + 1) = _
    rw [ih]; rfl

/-- pointwise form of the comb table: prec[j][i] = B_j + i·B_j = (i+1)·16^j·G (repeated reference addition) -/
theorem prec_pointwise' (j i : Nat) (hj : j < 64) (hi : i < 16) :
    ptOfLimbs (Tables.precAt (j * 16 + i)) = addSteps (precBase j) (precBase j) i := by
  have h := rows_pointwise 64 Secp.G (pts Tables.precAll) prec_rows j i hj hi
  rw [pts_getD _ _ (by rw [prec_len]; omega)] at h
  exact h

end GocoinV.C08
