/-
  Proofs.C12RejPanic — Props/C12 OPEN (d), corollaries: under `RejInv` the reject-related panic branches of the model
  (`rejEvictOldest`: ring slot without record; `txAcceptedAux`: empty waiting list, listed id without record, record
  without data) are unreachable.  Core Lean only.
-/
import GocoinV.Proofs.C12RejInv
namespace GocoinV.Mempool

/-! ### rejEvictOldest -/

/-- the guard of the panic branch of `rejEvictOldest` is false: the oldest ring slot has its record -/
theorem rejEvictOldest_guard' {K : Keys} {s : State} (h : RejInv K s) (old : Nat) (rest : List (Option Nat))
    (hring : s.ring = some old :: rest) : s.rej.get? old ≠ none := by
  obtain ⟨r, hr, _⟩ := h.ring_rej old (by rw [hring]; exact List.mem_cons_self)
  rw [hr]; simp

theorem rejEvictOldest_panicked {K : Keys} {s : State} (h : RejInv K s) :
    (rejEvictOldest K s).panicked = s.panicked :=
  (rejEvictOldest_RCs h.toRJ.rc (by intro _ _ _ _; simp)).2.1

/-- … and the same inside `Add`, where the eviction runs on the state that already holds the new record in the map
    and in the ring (for ANY record `r`, fresh key or not): `Add` never raises the panic flag -/
theorem rejAdd_panicked {K : Keys} {s : State} (h : RejInv K s) (r : Rej) :
    (rejAdd K s r).panicked = s.panicked := by
  unfold rejAdd
  dsimp only
  generalize hs1 : ({ s with ring := s.ring ++ [some (K.bidx r.id)], rej := s.rej.set (K.bidx r.id) r } : State) = s1
  have r1 : s1.rej = s.rej.set (K.bidx r.id) r := by rw [← hs1]
  have g1 : s1.ring = s.ring ++ [some (K.bidx r.id)] := by rw [← hs1]
  have p1 : s1.panicked = s.panicked := by rw [← hs1]
  have e3 : (rejAddRefs K (rejEvictOldest K s1) r).panicked = (rejEvictOldest K s1).panicked := by
    rw [rejAddRefs_eq]; cases r.tx <;> rfl
  rw [e3, ← p1]
  rcases rejEvictOldest_cases K s1 with e0 | ⟨_, _, o, _, _, _, e0⟩ | ⟨old, rest, hring, ho, _⟩ | ⟨_, e0⟩
  · rw [e0]
  · rw [e0, rejDelete_panicked]
  · exfalso
    rw [r1, AList.get?_set] at ho
    split at ho
    · cases ho
    · rename_i hne
      rw [g1] at hring
      have hm : some old ∈ s.ring ++ [some (K.bidx r.id)] := by rw [hring]; exact List.mem_cons_self
      rcases List.mem_append.mp hm with hm | hm
      · obtain ⟨r', hr', _⟩ := h.ring_rej old hm
        rw [hr'] at ho; cases ho
      · simp only [List.mem_singleton, Option.some.injEq] at hm
        exact hne hm
  · rw [e0]

/-! ### txAccepted -/

/-- the guards of the three panic branches of `txAcceptedAux` are false in every state that satisfies `RejInv`: a
    WaitingForInputs list is not empty, its first id has a record, and that record has its transaction.
    (`txAcceptedAux_RJ` shows that every iteration of the loop starts in such a state.) -/
theorem txAccepted_guards {K : Keys} {s : State} (h : RejInv K s) (cur : Nat) (id : TxId) (ids : List Nat)
    (hw : s.waiting.get? cur = some (id, ids)) :
    ∃ first rest txr t, ids = first :: rest ∧ s.rej.get? first = some txr ∧ txr.tx = some t := by
  obtain ⟨_, hne, _, hall⟩ := h.waiting_sound cur id ids hw
  cases ids with
  | nil => exact absurd rfl hne
  | cons first rest =>
    obtain ⟨r, w, hr, hw4, _⟩ := hall first List.mem_cons_self
    cases ht : r.tx with
    | none =>
      have := (h.shape first r hr).1 ht
      rw [hw4] at this; cases this
    | some t => exact ⟨first, rest, r, t, rfl, hr, ht⟩

/-- `txAcceptedAux` with the three reject-related panic branches replaced by an arbitrary `bad` (the exhausted iteration
    budget — fuel 0 — is NOT one of them: it stays the flag and is not shown unreachable) -/
def txAcceptedAuxP (K : Keys) (minFee : Nat) (bad : State → State) : Nat → State → List Nat → Nat → State
  | 0, s, _, _ => { s with panicked := true }
  | fuel + 1, s, recs, delidx =>
    match recs[delidx]? with
    | none => s
    | some cur =>
      match s.waiting.get? cur with
      | none => txAcceptedAuxP K minFee bad fuel s recs (delidx + 1)
      | some (_, ids) =>
        match ids with
        | [] => bad s
        | first :: _ =>
          match s.rej.get? first with
          | none => bad s
          | some txr =>
            let s := rejDelete K s txr
            match txr.tx with
            | none => bad s
            | some t =>
              let (res, s) := processTx K minFee s t {}
              let recs := if res = 0 then recs ++ [K.bidx t.id] else recs
              let s := if res = R_NO_TXOU then
                  match s.waiting.get? cur with
                  | some (_, ids') =>
                    if ids'.contains (K.bidx t.id) then
                      rejectTx K (rejDeleteByIdx K s (K.bidx t.id)) t R_BAD_INPUT none
                    else s
                  | none => s
                else s
              txAcceptedAuxP K minFee bad fuel s recs delidx

theorem txAcceptedAux_eq_P (K : Keys) (mf : Nat) : ∀ (fuel : Nat) (s : State) (recs : List Nat) (d : Nat),
    txAcceptedAux K mf fuel s recs d = txAcceptedAuxP K mf (fun s => { s with panicked := true }) fuel s recs d := by
  intro fuel
  induction fuel with
  | zero => intro s recs d; rfl
  | succ n ih =>
    intro s recs d
    unfold txAcceptedAux txAcceptedAuxP
    simp only [ih]
    rfl

/-- the state with which the loop of txAccepted continues after re-submitting the orphan `t` of the record `txr` -/
def txaNext (K : Keys) (mf : Nat) (s : State) (cur : Nat) (txr : Rej) (t : Tx) : State :=
  if (processTx K mf (rejDelete K s txr) t {}).1 = R_NO_TXOU then
    match (processTx K mf (rejDelete K s txr) t {}).2.waiting.get? cur with
    | some (_, ids') =>
      if ids'.contains (K.bidx t.id) then
        rejectTx K (rejDeleteByIdx K (processTx K mf (rejDelete K s txr) t {}).2 (K.bidx t.id)) t R_BAD_INPUT none
      else (processTx K mf (rejDelete K s txr) t {}).2
    | none => (processTx K mf (rejDelete K s txr) t {}).2
  else (processTx K mf (rejDelete K s txr) t {}).2

theorem txaNext_inv {K : Keys} {W : Tx → Prop} {rank : TxId → Nat} (U : Univ K W rank) (mf : Nat) (s : State)
    (cur first : Nat) (txr : Rej) (t : Tx) (hI : InvR K W s) (h : RJ K s) (htxr : s.rej.get? first = some txr)
    (htx : txr.tx = some t) : InvR K W (txaNext K mf s cur txr t) ∧ RJ K (txaNext K mf s cur txr t) := by
  have hk := h.rc.key _ txr htxr
  have h1 := rejDelete_RJ h txr (by rw [hk]; exact htxr)
  have hI1 := InvR_of_frame hI (rejDelete_frame K W s txr)
  have ht : W t := hI.rejW _ txr t htxr htx
  have hid : t.id = txr.id := (h.rc.shape _ txr htxr).id t htx
  have hf : (rejDelete K s txr).rej.get? (K.bidx t.id) = none := by
    rw [rejDelete_rej, hid, AList.get?_del_self]
  have hp : (rejDelete K s txr).pool.get? (K.bidx t.id) = none := by
    rw [(rejDelete_core K s txr).1, hid]
    cases hx : s.pool.get? (K.bidx txr.id) with
    | none => rfl
    | some x =>
      have := h.disj _ x hx
      rw [hk, htxr] at this
      cases this
  have h2 := processTx_RJ mf _ t {} hI1 h1 hf hp
  have hI2 := processTx_InvR U mf _ t {} hI1 ht
  obtain ⟨pp1, _⟩ := processTx_pool K mf (rejDelete K s txr) t {}
  unfold txaNext
  split
  · rename_i hres
    split
    · split
      · refine ⟨InvR_of_frame hI2 ((rejDeleteByIdx_frame K W _ _).trans (rejectTx_frame K W _ t _ _ ht)), ?_⟩
        obtain ⟨q1, q2, _⟩ := rejDeleteByIdx_RJ h2 (K.bidx t.id)
        refine (rejectTx_RJ q1 t _ _ q2 ?_ (by decide)).1
        rw [(rejDeleteByIdx_core K _ _).1, pp1 (by rw [hres]; decide), hp]
      · exact ⟨hI2, h2⟩
    · exact ⟨hI2, h2⟩
  · exact ⟨hI2, h2⟩

/-- corollary (d), second part: over every state that satisfies the invariants, the result of `txAccepted` does not
    depend on what the three panic branches do — they are never taken -/
theorem txAcceptedAuxP_indep {K : Keys} {W : Tx → Prop} {rank : TxId → Nat} (U : Univ K W rank) (mf : Nat)
    (bad bad' : State → State) : ∀ (fuel : Nat) (s : State) (recs : List Nat) (d : Nat), InvR K W s → RejInv K s →
    txAcceptedAuxP K mf bad fuel s recs d = txAcceptedAuxP K mf bad' fuel s recs d := by
  intro fuel
  induction fuel with
  | zero => intro s recs d _ _; rfl
  | succ n ih =>
    intro s recs d hI h
    unfold txAcceptedAuxP
    cases hc : recs[d]? with
    | none => rfl
    | some cur =>
      simp only []
      cases hw : s.waiting.get? cur with
      | none => exact ih _ _ _ hI h
      | some p =>
        obtain ⟨id, ids⟩ := p
        obtain ⟨first, rest, txr, t, e1, e2, e3⟩ := txAccepted_guards h cur id ids hw
        subst e1
        simp only [e2, e3]
        obtain ⟨n1, n2⟩ := txaNext_inv U mf s cur first txr t hI h.toRJ e2 e3
        exact ih _ _ _ n1 n2.toRejInv

theorem txAccepted_no_rej_panic {K : Keys} {W : Tx → Prop} {rank : TxId → Nat} (U : Univ K W rank) (mf : Nat)
    (bad : State → State) (s : State) (b : Nat) (hI : InvR K W s) (h : RejInv K s) :
    txAccepted K mf s b = txAcceptedAuxP K mf bad (txAccFuel s) s [b] 0 := by
  unfold txAccepted
  rw [txAcceptedAux_eq_P]
  exact txAcceptedAuxP_indep U mf _ bad _ s _ _ hI h

end GocoinV.Mempool
