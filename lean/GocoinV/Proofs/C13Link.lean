/-
  Proofs.C13Link — the cryptographic side of `signatures_verify`, IMPORTED from C03 (not assumed):
  an output of `Signature.Sign` + `Signature.Bytes` (+ the hash-type byte 01), together with the compressed key
  of the secret, is a `GoodSig` for every oracle instance whose `ecdsaVerify` is C03's model of `btc.EcdsaVerify`
  (strict DER: `sign_canonical` + `strict_append`; low S: `sign_low` + `derS_append`; the ECDSA equation:
  `own_signature_accepted` + `parseBytes_append`); an output of `SchnorrSign` is a 64-byte signature that C03's
  model of `btc.SchnorrVerify` accepts under the x-only key (`schnorrSign_verifies`).
-/
import GocoinV.Proofs.C03Curve
import GocoinV.Proofs.C03Ecdsa
import GocoinV.Proofs.C03Schnorr
import GocoinV.Proofs.C13Der
import GocoinV.Proofs.C13Script
namespace GocoinV.Proofs.C13L
open GocoinV GocoinV.Secp GocoinV.Model GocoinV.Proofs.C03 GocoinV.Proofs.C13S GocoinV.Proofs.C13D
open GocoinV.Script (Oracles SigVersion)

theorem halfOrder_eq : Sig.halfOrder = ScriptSpec.secpHalfOrder := rfl

theorem ser33_compressed (x y : Nat) : ScriptSpec.isCompressedPubKey (ser33 (some (x, y))) = true := by
  simp only [ser33]
  by_cases h : y % 2 = 0 <;> simp [h, ScriptSpec.isCompressedPubKey, beBytes]

/-- what the C03 signer hands out for secret `d`, digest `m`, nonce `k` (empty when `Sign` fails) -/
def ecdsaDer (d : Nat) (m : Bytes) (k : Nat) : Bytes :=
  match Sig.sign d (beVal m) k with
  | some (r, s, _) => (Sig.sigBytes r s).getD []
  | none => []

/-- the signing call succeeded with R ≠ 0 (R = 0 is the one case `Sign` does not refuse — C03's observation) -/
def SignOk (d : Nat) (m : Bytes) (k : Nat) : Prop :=
  ∃ r s recid, Sig.sign d (beVal m) k = some (r, s, recid) ∧ r ≠ 0

theorem goodSig_of_sign (O : Oracles) (sv : SigVersion) (code : Bytes) (d k : Nat) (m : Bytes)
    (hd0 : 0 < d) (hdn : d < n) (hok : SignOk d m k)
    (hdig : (if sv == .witnessV0 then O.sigHashWitV0 code 1 else O.sigHashLegacy code 1) = some m)
    (hO : ∀ pk sg dg, O.ecdsaVerify pk sg dg = some (Sig.ecdsaVerify true pk sg dg)) :
    GoodSig O sv code (ecdsaDer d m k ++ [1]) (ser33 (Secp.mul d G)) := by
  obtain ⟨r, s, recid, hsign, hr⟩ := hok
  obtain ⟨der, hder, hstrict, hver⟩ := own_signature_accepted d k r s recid m hd0 hdn hsign hr
  have hlow := sign_low d (beVal m) k r s recid hsign
  obtain ⟨der', hder', _, hdec⟩ := sigBytes_canonical r s (Nat.pos_of_ne_zero hr)
    (by have : n < 2 ^ 256 := by decide
        omega) hlow.1
    (by have : Sig.halfOrder < 2 ^ 256 := by decide
        omega)
  have e : der' = der := by rw [hder] at hder'; exact (Option.some.inj hder').symm
  subst e
  have hpb := parseBytes_eq der'
  rw [hdec] at hpb
  obtain ⟨c, hpc⟩ : ∃ c, Sig.parseBytes der' = some (r, s, c) := by
    cases hp : Sig.parseBytes der' with
    | none => rw [hp] at hpb; simp at hpb
    | some t =>
      obtain ⟨r', s', c⟩ := t
      rw [hp] at hpb
      simp only [Option.map_some, Option.some.injEq, Prod.mk.injEq] at hpb
      obtain ⟨rfl, rfl⟩ := hpb
      exact ⟨c, rfl⟩
  have hE : ecdsaDer d m k = der' := by simp [ecdsaDer, hsign, hder]
  rw [hE]
  obtain ⟨x, y, hQ⟩ : ∃ x y, Secp.mul d G = some (x, y) := by
    cases hq : Secp.mul d G with
    | none => exact absurd hq (mul_G_ne_none d hd0 hdn)
    | some q => exact ⟨q.1, q.2, rfl⟩
  refine ⟨strict_append der' 1 hstrict, ?_, ?_, ?_, 1, m, by simp, hdig, ?_⟩
  · rw [derS_append der' r s c 1 hpc, ← halfOrder_eq]; exact hlow.2.1
  · simp [ScriptSpec.isDefinedHashtypeSignature]
  · rw [hQ]; exact ser33_compressed x y
  · rw [hO]
    congr 1
    -- the trailing hash-type byte is ignored by ParseBytes
    have hne : der' ≠ [] := by
      intro e; rw [e] at hpc; simp [Sig.parseBytes] at hpc
    unfold Sig.ecdsaVerify Sig.ecdsaVerifyCode at hver ⊢
    rw [parseBytes_append der' r s c 1 hpc]
    rw [hpc] at hver
    have l1 : (der' ++ [1]).length ≠ 0 := by simp
    have l2 : der'.length ≠ 0 := by simpa using hne
    simp only [l1, l2, or_false] at hver ⊢
    exact hver

/-- what the C03 Schnorr signer hands out (empty when `SchnorrSign` returns nil) -/
def schnorrSig (Hs : C03.Hash) (d : Nat) (m a : Bytes) : Bytes := (Sig.schnorrSign Hs m (beBytes 32 d) a).getD []

theorem schnorr_good (Hs : C03.Hash) (d : Nat) (m a : Bytes) (hdn : d < n)
    (hok : (Sig.schnorrSign Hs m (beBytes 32 d) a).isSome = true) :
    (schnorrSig Hs d m a).length = 64 ∧
    Sig.schnorrVerify Hs (((ser33 (Secp.mul d G)).drop 1).take 32) (schnorrSig Hs d m a) m = true := by
  obtain ⟨sig, hs⟩ := Option.isSome_iff_exists.mp hok
  obtain ⟨px, py, hP, hv⟩ := schnorrSign_verifies Hs m (beBytes 32 d) a sig hs
  have hbv : beVal (beBytes 32 d) = d := beVal_beBytes 32 d (by
    have : n < 256 ^ 32 := by decide
    omega)
  rw [hbv] at hP
  have hE : schnorrSig Hs d m a = sig := by simp [schnorrSig, hs]
  have hx : ((ser33 (Secp.mul d G)).drop 1).take 32 = beBytes 32 px := by
    rw [hP]; unfold ser33; simp [beBytes]
  rw [hE, hx]
  refine ⟨?_, hv⟩
  unfold Sig.schnorrVerify Sig.schnorrVerify? at hv
  by_cases h64 : sig.length = 64
  · exact h64
  · simp [h64] at hv

end GocoinV.Proofs.C13L
