/-
  Proofs.C03Field — the modular arithmetic of Base/Secp (powMod, invMod, subMod, sqrt?) read in the
  prime fields ZMod p and ZMod n (primality: Proofs/C08_Primes.lean, Pratt certificates).
    * powMod b e m = b^e % m
    * invMod a q is the field inverse for a prime q (Fermat)
    * sqrtCand a squares to a whenever a is a square (p ≡ 3 mod 4)
    * −7 is not a cube modulo p  (so no point of secp256k1 has y = 0)
-/
import GocoinV.Proofs.C03
import GocoinV.Proofs.C08_Primes
import Mathlib.FieldTheory.Finite.Basic
import Mathlib.Tactic.Ring
import Mathlib.Tactic.LinearCombination
namespace GocoinV.Proofs.C03
open GocoinV GocoinV.Secp GocoinV.Model GocoinV.Model.Sig

theorem p_prime : Nat.Prime p := GocoinV.C08.secp_p_prime
theorem n_prime : Nat.Prime n := GocoinV.C08.secp_n_prime
instance : Fact (Nat.Prime p) := ⟨p_prime⟩
instance : Fact (Nat.Prime n) := ⟨n_prime⟩

theorem powModAux_spec (m : Nat) : ∀ (fuel b e acc : Nat), e < 2 ^ fuel →
    powModAux m fuel b e acc % m = acc * b ^ e % m := by
  intro fuel
  induction fuel with
  | zero =>
    intro b e acc he
    have : e = 0 := by omega
    subst this
    simp [powModAux]
  | succ f ih =>
    intro b e acc he
    unfold powModAux
    by_cases h0 : e = 0
    · subst h0; simp
    · simp only [h0, if_false]
      have he2 : e / 2 < 2 ^ f := by
        rw [Nat.pow_succ] at he; omega
      rw [ih _ _ _ he2]
      have hb : (b * b % m) ^ (e / 2) % m = (b * b) ^ (e / 2) % m := by
        rw [Nat.pow_mod, Nat.mod_mod, ← Nat.pow_mod]
      have hsq : (b * b) ^ (e / 2) = b ^ (2 * (e / 2)) := by
        rw [← Nat.pow_two, ← Nat.pow_mul]
      by_cases h1 : e % 2 = 1
      · simp only [h1, if_true]
        have hE : e = 2 * (e / 2) + 1 := by omega
        conv_rhs => rw [hE, Nat.pow_succ]
        rw [Nat.mul_mod, Nat.mod_mod, hb, hsq, ← Nat.mul_mod]
        congr 1
        rw [Nat.mul_assoc, Nat.mul_comm b, ← Nat.mul_assoc]
      · simp only [h1, if_false]
        have hE : e = 2 * (e / 2) := by omega
        conv_rhs => rw [hE]
        rw [Nat.mul_mod, hb, hsq, ← Nat.mul_mod]

/-- `Secp.powMod` is modular exponentiation (exponents below 2^600, modulus > 1) -/
theorem powMod_spec (b e m : Nat) (he : e < 2 ^ 256) (hm : 1 < m) : powMod b e m = b ^ e % m := by
  have hlt : powMod b e m < m := powMod_lt b e m hm
  rw [← Nat.mod_eq_of_lt hlt]
  unfold powMod
  rw [powModAux_spec m 600 (b % m) e (1 % m)
    (Nat.lt_of_lt_of_le he (Nat.pow_le_pow_right (by decide) (by decide : 256 ≤ 600))), Nat.mod_eq_of_lt hm, Nat.one_mul, ← Nat.pow_mod]

theorem powMod_cast (q : Nat) (hq : 1 < q) (b e : Nat) (he : e < 2 ^ 256) :
    ((powMod b e q : Nat) : ZMod q) = (b : ZMod q) ^ e := by
  rw [powMod_spec b e q he hq, ZMod.natCast_mod, Nat.cast_pow]

/-- Fermat inversion in a prime field -/
theorem invMod_cast (q : Nat) [hq : Fact (Nat.Prime q)] (hlt : q < 2 ^ 256) (h2q : 2 < q) (a : Nat) :
    ((invMod a q : Nat) : ZMod q) = ((a : ZMod q))⁻¹ := by
  unfold invMod
  rw [powMod_cast q hq.out.one_lt a (q - 2) (by omega)]
  by_cases ha : (a : ZMod q) = 0
  · rw [ha, inv_zero]
    exact zero_pow (by omega)
  · have h1 : (a : ZMod q) ^ (q - 1) = 1 := ZMod.pow_card_sub_one_eq_one ha
    have h2 : q - 1 = (q - 2) + 1 := by have := hq.out.two_le; omega
    rw [h2, pow_succ] at h1
    exact eq_inv_of_mul_eq_one_left h1


theorem p_lt : p < 2 ^ 256 := by decide
theorem n_lt : n < 2 ^ 256 := by decide

theorem invP_cast (a : Nat) : ((invMod a p : Nat) : ZMod p) = ((a : ZMod p))⁻¹ :=
  invMod_cast p p_lt (by decide) a
theorem invN_cast (a : Nat) : ((invMod a n : Nat) : ZMod n) = ((a : ZMod n))⁻¹ :=
  invMod_cast n n_lt (by decide) a

theorem subMod_cast (q a b : Nat) (hq : 0 < q) :
    ((subMod a b q : Nat) : ZMod q) = (a : ZMod q) - (b : ZMod q) := by
  unfold subMod
  have hb : b % q ≤ a % q + q := by
    have := Nat.mod_lt b hq; omega
  rw [ZMod.natCast_mod, Nat.cast_sub hb, Nat.cast_add, ZMod.natCast_mod, ZMod.natCast_mod,
    ZMod.natCast_self, add_zero]

/-- equality of residues = equality in ZMod -/
theorem mod_eq_iff_cast (q u v : Nat) : u % q = v % q ↔ (u : ZMod q) = (v : ZMod q) :=
  (ZMod.natCast_eq_natCast_iff' u v q).symm

theorem cast_inj_of_lt (q u v : Nat) (hu : u < q) (hv : v < q) (h : (u : ZMod q) = (v : ZMod q)) : u = v := by
  have := (mod_eq_iff_cast q u v).mpr h
  rwa [Nat.mod_eq_of_lt hu, Nat.mod_eq_of_lt hv] at this

theorem curveRhs_cast (x : Nat) : ((curveRhs x : Nat) : ZMod p) = (x : ZMod p) ^ 3 + 7 := by
  unfold curveRhs
  rw [ZMod.natCast_mod]
  push_cast
  rw [ZMod.natCast_mod]
  push_cast
  ring

/-- the curve equation of `Secp.onCurve` in the field -/
theorem onCurve_iff (x y : Nat) :
    onCurve (some (x, y)) = true ↔ x < p ∧ y < p ∧ ((y : ZMod p)) ^ 2 = (x : ZMod p) ^ 3 + 7 := by
  unfold onCurve
  simp only [Bool.and_eq_true, decide_eq_true_eq, beq_iff_eq]
  have e : (y * y) % p = (x * x % p * x + 7) % p ↔ ((y : ZMod p)) ^ 2 = (x : ZMod p) ^ 3 + 7 := by
    have h1 : (x * x % p * x + 7) % p = curveRhs x % p := by unfold curveRhs; rw [Nat.mod_mod]
    rw [h1, mod_eq_iff_cast, curveRhs_cast]
    push_cast
    rw [pow_two]
  rw [e]; tauto

/-- p ≡ 3 (mod 4): the candidate a^((p+1)/4) squares to a whenever a is a square -/
theorem sqrtCand_sq (a : Nat) (y : ZMod p) (h : (a : ZMod p) = y ^ 2) :
    ((sqrtCand a : Nat) : ZMod p) ^ 2 = (a : ZMod p) := by
  unfold sqrtCand
  rw [powMod_cast p (by decide) a _ (by decide), h, ← pow_mul, ← pow_mul]
  by_cases hy : y = 0
  · subst hy; rw [zero_pow (by decide), zero_pow (by decide)]
  · have h1 : y ^ (p - 1) = 1 := ZMod.pow_card_sub_one_eq_one hy
    have e : 2 * ((p + 1) / 4 * 2) = (p - 1) + 2 := by decide
    rw [e, pow_add, h1, one_mul]

theorem sq_eq_sq_cases (u v : Nat) (hu : u < p) (hv : v < p)
    (h : ((u : ZMod p)) ^ 2 = (v : ZMod p) ^ 2) : u = v ∨ (v ≠ 0 ∧ u = p - v) := by
  rcases sq_eq_sq_iff_eq_or_eq_neg.mp h with e | e
  · exact Or.inl (cast_inj_of_lt p u v hu hv e)
  · by_cases hv0 : v = 0
    · subst hv0; left
      apply cast_inj_of_lt p u 0 hu hv
      rw [e]; simp
    · right
      refine ⟨hv0, cast_inj_of_lt p u (p - v) hu (by omega) ?_⟩
      rw [e, Nat.cast_sub (by omega), ZMod.natCast_self, zero_sub]

/-- `XY.SetXO` on the x of a curve point returns that point's y or its negation, by parity. -/
theorem setXO_onCurve (x y : Nat) (h : onCurve (some (x, y)) = true) (odd : Bool) :
    setXO x odd = if (y % 2 == 1) = odd then y else (p - y) % p := by
  obtain ⟨hx, hy, heq⟩ := (onCurve_iff x y).mp h
  have hc : (x % p * (x % p) % p * (x % p) + 7) % p = curveRhs x := by
    rw [Nat.mod_eq_of_lt hx]; rfl
  have hsq := sqrtCand_sq (curveRhs x) (y : ZMod p) (by rw [curveRhs_cast, heq])
  rw [curveRhs_cast, ← heq] at hsq
  have hr := sqrtCand_lt (curveRhs x)
  have e2 : setXO x odd = (if (sqrtCand (curveRhs x) % 2 == 1) != odd then (p - sqrtCand (curveRhs x)) % p else sqrtCand (curveRhs x)) := by
    simp only [setXO, hc]
  rw [e2]
  generalize sqrtCand (curveRhs x) = r at hr hsq ⊢
  have hpodd : p % 2 = 1 := by decide
  rcases sq_eq_sq_cases r y hr hy hsq with e | ⟨hy0, e⟩
  · subst e
    generalize (p - r) % p = z
    generalize (r % 2 == 1) = b
    cases odd <;> cases b <;> rfl
  · subst e
    have hpp : p - (p - y) = y := by omega
    have hlt : p - y < p := by omega
    have hb : ((p - y) % 2 == 1) = !(y % 2 == 1) := by
      rcases Nat.mod_two_eq_zero_or_one y with h2 | h2
      · have : (p - y) % 2 = 1 := by omega
        rw [this, h2]; rfl
      · have : (p - y) % 2 = 0 := by omega
        rw [this, h2]; rfl
    rw [hpp, Nat.mod_eq_of_lt hy, Nat.mod_eq_of_lt hlt, hb]
    generalize (y % 2 == 1) = b
    generalize p - y = z
    cases odd <;> cases b <;> rfl

/-! ### −7 is not a cube modulo p -/

theorem neg7_pow : powMod (p - 7) ((p - 1) / 3) p ≠ 1 := by decide +kernel

theorem curveRhs_ne_zero (x : Nat) : curveRhs x ≠ 0 := by
  intro h0
  have hc : ((x : ZMod p)) ^ 3 + 7 = 0 := by rw [← curveRhs_cast, h0]; simp
  have hx3 : ((x : ZMod p)) ^ 3 = -7 := eq_neg_of_add_eq_zero_left hc
  have hx : (x : ZMod p) ≠ 0 := by
    intro hx; rw [hx, zero_pow (by decide)] at hx3
    have h7 : ((7 : Nat) : ZMod p) = 0 := by
      have : (7 : ZMod p) = 0 := by linear_combination hx3
      exact_mod_cast this
    rw [ZMod.natCast_eq_zero_iff] at h7
    exact absurd (Nat.le_of_dvd (by decide) h7) (by decide)
  have h1 : (x : ZMod p) ^ (p - 1) = 1 := ZMod.pow_card_sub_one_eq_one hx
  have e : p - 1 = 3 * ((p - 1) / 3) := by decide
  rw [e, pow_mul, hx3] at h1
  apply neg7_pow
  have hcast : ((powMod (p - 7) ((p - 1) / 3) p : Nat) : ZMod p) = ((1 : Nat) : ZMod p) := by
    rw [powMod_cast p (by decide) _ _ (by decide), Nat.cast_sub (by decide), ZMod.natCast_self, zero_sub]
    rw [Nat.cast_one, ← h1]; norm_num
  exact cast_inj_of_lt p _ _ (powMod_lt _ _ _ (by decide)) (by decide) hcast

/-- no key is `Exceptional` -/
theorem not_exceptional (pk : Bytes) : ¬ Exceptional pk := by
  rintro ⟨t, _, _, h⟩
  exact curveRhs_ne_zero _ h

/-- no point of secp256k1 has y = 0 (there is no point of order two) -/
theorem onCurve_y_ne_zero (x y : Nat) (h : onCurve (some (x, y)) = true) : y ≠ 0 := by
  intro hy; subst hy
  obtain ⟨_, _, heq⟩ := (onCurve_iff x 0).mp h
  apply curveRhs_ne_zero x
  refine cast_inj_of_lt p (curveRhs x) 0 (by unfold curveRhs; exact Nat.mod_lt _ p_pos) (by decide) ?_
  have := curveRhs_cast x
  rw [this, ← heq]; simp

end GocoinV.Proofs.C03
