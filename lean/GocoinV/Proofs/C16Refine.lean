/-
  Proofs.C16Refine — the block store model refines the durable-map specification `Spec.BlockStoreMap`:
  the data-file half of the invariant (every written record's [fpos, fpos+blen) lies in its data file, below the
  append position, and decodes to the block), the cache / queue half (an unwritten block is cached and is never
  evicted; a queue entry that will be written carries the block's bytes), preserved by every operation.
-/
import GocoinV.Proofs.C16Inv
import GocoinV.Spec.BlockStoreMap
namespace GocoinV.BlockDB

/-! ### pwrite: what a positioned write leaves in the file -/

theorem pwrite_split (f : Bytes) (pos : Nat) (d : Bytes) :
    ∃ X Y, pwrite f pos d = X ++ d ++ Y ∧ X.length = pos ∧ X = (f ++ List.replicate (pos - f.length) 0).take pos :=
  ⟨_, _, rfl, by simp; omega, rfl⟩

/-- reading back what was written -/
theorem pwrite_read (f : Bytes) (pos : Nat) (d : Bytes) :
    ((pwrite f pos d).drop pos).take d.length = d := by
  obtain ⟨X, Y, e, hl, _⟩ := pwrite_split f pos d
  rw [e, List.append_assoc, List.drop_append_of_le_length (by omega), ← hl, List.drop_length]
  simp

theorem pwrite_length_ge (f : Bytes) (pos : Nat) (d : Bytes) : pos + d.length ≤ (pwrite f pos d).length := by
  obtain ⟨X, Y, e, hl, _⟩ := pwrite_split f pos d
  rw [e]; simp; omega

theorem pwrite_length_ge' (f : Bytes) (pos : Nat) (d : Bytes) : f.length ≤ (pwrite f pos d).length := by
  simp [pwrite]; omega

theorem take_drop_append_left (P Q : Bytes) (a n : Nat) (h : a + n ≤ P.length) :
    ((P ++ Q).drop a).take n = (P.drop a).take n := by
  rw [List.drop_append_of_le_length (by omega), List.take_append_of_le_length (by simp; omega)]

/-- a region that ends at or before the write position (and inside the old file) is untouched -/
theorem pwrite_keep (f : Bytes) (pos : Nat) (d : Bytes) (a n : Nat) (h1 : a + n ≤ pos) (h2 : a + n ≤ f.length) :
    ((pwrite f pos d).drop a).take n = (f.drop a).take n := by
  obtain ⟨X, Y, e, hl, hx⟩ := pwrite_split f pos d
  rw [e, List.append_assoc, take_drop_append_left _ _ _ _ (by omega), hx]
  rw [List.drop_take, List.take_take, Nat.min_eq_left (by omega)]
  exact take_drop_append_left _ _ _ _ h2

/-! ### the cache: entries of unwritten blocks are never evicted -/

theorem oldest_evictable (index : List (Key × Rec)) : ∀ (cache : List (Key × CacheEnt)) k u,
    oldest index cache = some (k, u) → evictable index k = true := by
  intro cache
  induction cache with
  | nil => intro k u h; simp [oldest] at h
  | cons hd t ih =>
    intro k u h
    obtain ⟨k0, c0⟩ := hd
    unfold oldest at h
    split at h
    · split at h
      · simp only [Option.some.injEq, Prod.mk.injEq] at h; rw [← h.1]; assumption
      · cases h
    · rename_i k' u' hk
      split at h
      · rename_i hc
        simp only [Option.some.injEq, Prod.mk.injEq] at h; rw [← h.1]; exact hc.1
      · simp only [Option.some.injEq, Prod.mk.injEq] at h
        rw [← h.1]; exact ih k' u' hk

/-- what `evict` leaves: a sub-map; entries of non-evictable keys stay -/
theorem evict_spec (index : List (Key × Rec)) (max : Nat) : ∀ (f : Nat) (cache : List (Key × CacheEnt)),
    (∀ k c, AL.get (evict index max f cache) k = some c → AL.get cache k = some c) ∧
    (∀ k c, AL.get cache k = some c → evictable index k = false → AL.get (evict index max f cache) k = some c) := by
  intro f
  induction f with
  | zero => intro cache; exact ⟨fun _ _ h => h, fun _ _ h _ => h⟩
  | succ f ih =>
    intro cache
    unfold evict
    split
    · split
      · exact ⟨fun _ _ h => h, fun _ _ h _ => h⟩
      · rename_i k u hk
        have hev := oldest_evictable index cache k u hk
        obtain ⟨i1, i2⟩ := ih (AL.del cache k)
        constructor
        · intro k' c h
          have := i1 k' c h
          rw [AL.get_del] at this
          split at this
          · cases this
          · exact this
        · intro k' c h hne
          apply i2 k' c _ hne
          rw [AL.get_del]
          split
          · rename_i e; subst e; rw [hev] at hne; cases hne
          · exact h
    · exact ⟨fun _ _ h => h, fun _ _ h _ => h⟩

theorem addToCache_fields (s : State) (k : Key) (d : Bytes) :
    (addToCache s k d).index = s.index ∧ (addToCache s k d).queue = s.queue ∧ (addToCache s k d).fs = s.fs ∧
    (addToCache s k d).opts = s.opts ∧ (addToCache s k d).isOpen = s.isOpen ∧ (addToCache s k d).nextSeq = s.nextSeq ∧
    (addToCache s k d).maxdatfilepos = s.maxdatfilepos ∧ (addToCache s k d).maxdatfileidx = s.maxdatfileidx ∧
    (addToCache s k d).datToWrite = s.datToWrite := by
  unfold addToCache
  split <;> simp

/-- the cache after `addToCache s k d` -/
theorem addToCache_cache (s : State) (k : Key) (d : Bytes) :
    (∀ k' c', AL.get (addToCache s k d).cache k' = some c' →
       (∃ c, AL.get s.cache k' = some c ∧ c.data = c'.data) ∨ (k' = k ∧ c'.data = d ∧ AL.get s.cache k = none)) ∧
    (∀ k' c, AL.get s.cache k' = some c → evictable s.index k' = false → ∃ c', AL.get (addToCache s k d).cache k' = some c') ∧
    (∃ c', AL.get (addToCache s k d).cache k = some c') := by
  unfold addToCache
  split
  · rename_i c0 hc0
    refine ⟨?_, ?_, ?_⟩
    · intro k' c' h
      simp only [AL.get_set] at h
      split at h
      · rename_i e; subst e
        simp only [Option.some.injEq] at h
        exact .inl ⟨c0, hc0, by rw [← h]⟩
      · exact .inl ⟨c', h, rfl⟩
    · intro k' c h _
      simp only [AL.get_set]
      split
      · exact ⟨_, rfl⟩
      · exact ⟨c, h⟩
    · simp [AL.get_set]
  · rename_i hc0
    obtain ⟨i1, i2⟩ := evict_spec s.index s.opts.maxCached s.cache.length s.cache
    refine ⟨?_, ?_, ?_⟩
    · intro k' c' h
      simp only [AL.get_set] at h
      split at h
      · rename_i e; subst e
        simp only [Option.some.injEq] at h
        exact .inr ⟨rfl, by rw [← h], hc0⟩
      · exact .inl ⟨c', i1 k' c' h, rfl⟩
    · intro k' c h hne
      simp only [AL.get_set]
      split
      · exact ⟨_, rfl⟩
      · exact ⟨c, i2 k' c h hne⟩
    · simp [AL.get_set]

end GocoinV.BlockDB
