/-
  Proofs.C16Refine — the block store model refines the durable-map specification `Spec.BlockStoreMap`:
  the data-file half of the invariant (every written record's [fpos, fpos+blen) lies in its data file, below the
  append position, and decodes to the block), the cache / queue half (an unwritten block is cached and is never
  evicted; a queue entry that will be written carries the block's bytes), preserved by every operation.
-/
import GocoinV.Proofs.C16Retain
namespace GocoinV.BlockDB

/-! ### pwrite: what a positioned write leaves in the file -/

theorem pwrite_split (f : Bytes) (pos : Nat) (d : Bytes) :
    ∃ X Y, pwrite f pos d = X ++ d ++ Y ∧ X.length = pos ∧ X = (f ++ List.replicate (pos - f.length) 0).take pos :=
  ⟨_, _, rfl, by simp; omega, rfl⟩

/-- reading back what was written -/
theorem pwrite_read (f : Bytes) (pos : Nat) (d : Bytes) :
    ((pwrite f pos d).drop pos).take d.length = d := by
  obtain ⟨X, Y, e, hl, _⟩ := pwrite_split f pos d
  rw [e, List.append_assoc, List.drop_append_of_le_length (by omega), ← hl, List.drop_length]
  simp

theorem pwrite_length_ge (f : Bytes) (pos : Nat) (d : Bytes) : pos + d.length ≤ (pwrite f pos d).length := by
  obtain ⟨X, Y, e, hl, _⟩ := pwrite_split f pos d
  rw [e]; simp; omega

theorem pwrite_length_ge' (f : Bytes) (pos : Nat) (d : Bytes) : f.length ≤ (pwrite f pos d).length := by
  simp [pwrite]; omega

theorem take_drop_append_left (P Q : Bytes) (a n : Nat) (h : a + n ≤ P.length) :
    ((P ++ Q).drop a).take n = (P.drop a).take n := by
  rw [List.drop_append_of_le_length (by omega), List.take_append_of_le_length (by simp; omega)]

/-- a region that ends at or before the write position (and inside the old file) is untouched -/
theorem pwrite_keep (f : Bytes) (pos : Nat) (d : Bytes) (a n : Nat) (h1 : a + n ≤ pos) (h2 : a + n ≤ f.length) :
    ((pwrite f pos d).drop a).take n = (f.drop a).take n := by
  obtain ⟨X, Y, e, hl, hx⟩ := pwrite_split f pos d
  rw [e, List.append_assoc, take_drop_append_left _ _ _ _ (by omega), hx]
  rw [List.drop_take, List.take_take, Nat.min_eq_left (by omega)]
  exact take_drop_append_left _ _ _ _ h2

/-! ### the cache: entries of unwritten blocks are never evicted -/

theorem oldest_evictable (index : List (Key × Rec)) : ∀ (cache : List (Key × CacheEnt)) k u,
    oldest index cache = some (k, u) → evictable index k = true := by
  intro cache
  induction cache with
  | nil => intro k u h; simp [oldest] at h
  | cons hd t ih =>
    intro k u h
    obtain ⟨k0, c0⟩ := hd
    unfold oldest at h
    split at h
    · split at h
      · simp only [Option.some.injEq, Prod.mk.injEq] at h; rw [← h.1]; assumption
      · cases h
    · rename_i k' u' hk
      split at h
      · rename_i hc
        simp only [Option.some.injEq, Prod.mk.injEq] at h; rw [← h.1]; exact hc.1
      · simp only [Option.some.injEq, Prod.mk.injEq] at h
        rw [← h.1]; exact ih k' u' hk

/-- what `evict` leaves: a sub-map; entries of non-evictable keys stay -/
theorem evict_spec (index : List (Key × Rec)) (max : Nat) : ∀ (f : Nat) (cache : List (Key × CacheEnt)),
    (∀ k c, AL.get (evict index max f cache) k = some c → AL.get cache k = some c) ∧
    (∀ k c, AL.get cache k = some c → evictable index k = false → AL.get (evict index max f cache) k = some c) := by
  intro f
  induction f with
  | zero => intro cache; exact ⟨fun _ _ h => h, fun _ _ h _ => h⟩
  | succ f ih =>
    intro cache
    unfold evict
    split
    · split
      · exact ⟨fun _ _ h => h, fun _ _ h _ => h⟩
      · rename_i k u hk
        have hev := oldest_evictable index cache k u hk
        obtain ⟨i1, i2⟩ := ih (AL.del cache k)
        constructor
        · intro k' c h
          have := i1 k' c h
          rw [AL.get_del] at this
          split at this
          · cases this
          · exact this
        · intro k' c h hne
          apply i2 k' c _ hne
          rw [AL.get_del]
          split
          · rename_i e; subst e; rw [hev] at hne; cases hne
          · exact h
    · exact ⟨fun _ _ h => h, fun _ _ h _ => h⟩

theorem addToCache_fields (s : State) (k : Key) (d : Bytes) :
    (addToCache s k d).index = s.index ∧ (addToCache s k d).queue = s.queue ∧ (addToCache s k d).fs = s.fs ∧
    (addToCache s k d).opts = s.opts ∧ (addToCache s k d).isOpen = s.isOpen ∧ (addToCache s k d).nextSeq = s.nextSeq ∧
    (addToCache s k d).maxdatfilepos = s.maxdatfilepos ∧ (addToCache s k d).maxdatfileidx = s.maxdatfileidx ∧
    (addToCache s k d).datToWrite = s.datToWrite := by
  unfold addToCache
  split <;> simp

/-- the cache after `addToCache s k d` -/
theorem addToCache_cache (s : State) (k : Key) (d : Bytes) :
    (∀ k' c', AL.get (addToCache s k d).cache k' = some c' →
       (∃ c, AL.get s.cache k' = some c ∧ c.data = c'.data) ∨ (k' = k ∧ c'.data = d ∧ AL.get s.cache k = none)) ∧
    (∀ k' c, AL.get s.cache k' = some c → evictable s.index k' = false → ∃ c', AL.get (addToCache s k d).cache k' = some c') ∧
    (∃ c', AL.get (addToCache s k d).cache k = some c') := by
  unfold addToCache
  split
  · rename_i c0 hc0
    refine ⟨?_, ?_, ?_⟩
    · intro k' c' h
      simp only [AL.get_set] at h
      split at h
      · rename_i e; subst e
        simp only [Option.some.injEq] at h
        exact .inl ⟨c0, hc0, by rw [← h]⟩
      · exact .inl ⟨c', h, rfl⟩
    · intro k' c h _
      simp only [AL.get_set]
      split
      · exact ⟨_, rfl⟩
      · exact ⟨c, h⟩
    · simp [AL.get_set]
  · rename_i hc0
    obtain ⟨i1, i2⟩ := evict_spec s.index s.opts.maxCached s.cache.length s.cache
    refine ⟨?_, ?_, ?_⟩
    · intro k' c' h
      simp only [AL.get_set] at h
      split at h
      · rename_i e; subst e
        simp only [Option.some.injEq] at h
        exact .inr ⟨rfl, by rw [← h], hc0⟩
      · exact .inl ⟨c', i1 k' c' h, rfl⟩
    · intro k' c h hne
      simp only [AL.get_set]
      split
      · exact ⟨_, rfl⟩
      · exact ⟨c, i2 k' c h hne⟩
    · simp [AL.get_set]

/-! ### the refinement relation -/

/-- what the theorems need of the codec: decode ∘ encode = id (on inputs whose length fits the 32-bit length header),
    and an encoding is never empty -/
structure EnvOK (env : Env) : Prop where
  rt : ∀ x : Bytes, x.length ≤ 0xffffffff → env.dec (env.enc x) = some x
  ne : ∀ x, env.enc x ≠ []

/-- the data-file half: the record's byte range lies inside its data file and decodes to the block -/
def DataOK (env : Env) (fs : FS) (r : Rec) (raw : Bytes) : Prop :=
  r.blen ≠ 0 ∧ ∃ file, fileOf fs r.datfileidx = some file ∧ r.fpos + r.blen ≤ file.length ∧
    decodeStored env r ((file.drop r.fpos).take r.blen) = (raw, none)

structure Ref (env : Env) (s : State) (sp : Spec) : Prop where
  opn : sp.isOpen = s.isOpen
  /-- the data file that is being appended to exists in the main directory -/
  cur : s.isOpen = true → ∃ f, AL.get s.fs.dats s.maxdatfileidx = some f
  idxspec : ∀ k r, AL.get s.index k = some r → ∃ e, AL.get sp.m k = some e
  pos : ∀ k r, AL.get s.index k = some r →
    r.datfileidx ≤ s.maxdatfileidx ∧ (r.datfileidx = s.maxdatfileidx → r.fpos + r.blen ≤ s.maxdatfilepos)
  cacheidx : ∀ k c, AL.get s.cache k = some c → ∃ r, AL.get s.index k = some r
  /-- a cached block is the stored one — unless a `BlockGet` read it from a data file that had left retention / was shadowed
      (the record then stays lost for good: `keyLost` is monotone) -/
  cachedata : ∀ k c e, AL.get s.cache k = some c → AL.get sp.m k = some e → e.tainted = false → keyLost s k = false →
    c.data = e.raw
  qseq : ∀ b ∈ s.queue, b.seq < s.nextSeq
  qdata : ∀ b ∈ s.queue, ∀ r e, AL.get s.index b.idx = some r → r.seq = b.seq → r.ipos = none →
    AL.get sp.m b.idx = some e → e.tainted = false → b.data = e.raw
  ent : ∀ k e, AL.get sp.m k = some e → e.tainted = false →
    ∃ r, AL.get s.index k = some r ∧ r.trusted = e.trusted ∧ r.olen = e.raw.length ∧ (80 ≤ e.raw.length ∧ e.raw.length ≤ 0xffffffff) ∧
      (r.ipos = none → ∃ c, AL.get s.cache k = some c) ∧
      (r.ipos.isSome = true → s.fs.lost.contains r.datfileidx = false → DataOK env s.fs r e.raw)

theorem DataOK_congr (env : Env) (fs fs' : FS) (r r' : Rec) (raw : Bytes) (hd : fs'.dats = fs.dats) (ho : fs'.olds = fs.olds)
    (h1 : r'.fpos = r.fpos) (h2 : r'.blen = r.blen) (h3 : r'.datfileidx = r.datfileidx)
    (h4 : r'.compressed = r.compressed) (h5 : r'.snappied = r.snappied) (h : DataOK env fs r raw) :
    DataOK env fs' r' raw := by
  unfold DataOK fileOf at *
  unfold decodeStored at *
  rw [h1, h2, h3, h4, h5, hd, ho]
  exact h

theorem keyLost_of (s : State) (k : Key) (r : Rec) (hr : AL.get s.index k = some r) :
    keyLost s k = (r.ipos.isSome && s.fs.lost.contains r.datfileidx) := by
  unfold keyLost; rw [hr]

theorem keyLost_none (s : State) (k : Key) (hr : AL.get s.index k = none) : keyLost s k = false := by
  unfold keyLost; rw [hr]

theorem keyLost_congr (s s' : State) (k : Key) (hi : AL.get s'.index k = AL.get s.index k) (hl : s'.fs.lost = s.fs.lost) :
    keyLost s' k = keyLost s k := by
  unfold keyLost; rw [hi, hl]

/-- the index record of key `k` is replaced by one with the same disk fields, and / or the specification changes at `k`
    in a compatible way; cache, queue, data files, positions unchanged -/
theorem ref_update (env : Env) (s s' : State) (sp sp' : Spec) (h : Ref env s sp) (k : Key) (r0 r' : Rec)
    (hr : AL.get s.index k = some r0)
    (hidx : ∀ k', AL.get s'.index k' = if k = k' then some r' else AL.get s.index k')
    (f1 : s'.cache = s.cache) (f2 : s'.queue = s.queue)
    (f3 : s'.fs.dats = s.fs.dats ∧ s'.fs.olds = s.fs.olds ∧ s'.fs.lost = s.fs.lost) (_f4 : s'.opts = s.opts)
    (f5 : s'.isOpen = s.isOpen) (f6 : s'.nextSeq = s.nextSeq) (f7 : s'.maxdatfilepos = s.maxdatfilepos)
    (f8 : s'.maxdatfileidx = s.maxdatfileidx)
    (g1 : r'.fpos = r0.fpos) (g2 : r'.blen = r0.blen) (g3 : r'.datfileidx = r0.datfileidx)
    (g4 : r'.compressed = r0.compressed) (g5 : r'.snappied = r0.snappied) (g6 : r'.ipos = r0.ipos) (g7 : r'.seq = r0.seq)
    (hopen : sp'.isOpen = sp.isOpen)
    (hm : ∀ k', k ≠ k' → AL.get sp'.m k' = AL.get sp.m k')
    (hk : ∀ e', AL.get sp'.m k = some e' → e'.tainted = false →
      ∃ e, AL.get sp.m k = some e ∧ e.tainted = false ∧ e.raw = e'.raw ∧ r'.trusted = e'.trusted ∧ r'.olen = r0.olen)
    (hex : ∃ e', AL.get sp'.m k = some e') : Ref env s' sp' := by
  have hkl_eq : ∀ k', keyLost s' k' = keyLost s k' := by
    intro k'
    by_cases hkk : k = k'
    · subst hkk
      rw [keyLost_of s' k r' (by rw [hidx, if_pos rfl]), keyLost_of s k r0 hr, g6, g3, f3.2.2]
    · exact keyLost_congr s s' k' (by rw [hidx, if_neg hkk]) f3.2.2
  refine ⟨by rw [hopen, f5]; exact h.opn, by rw [f5, f3.1, f8]; exact h.cur, ?_, ?_, ?_, ?_, ?_, ?_, ?_⟩
  · intro k' r hh
    rw [hidx] at hh
    split at hh
    · rename_i e; subst e; exact hex
    · rename_i ne; rw [hm k' ne]; exact h.idxspec k' r hh
  · intro k' r hh
    rw [hidx] at hh
    rw [f7, f8]
    split at hh
    · simp only [Option.some.injEq] at hh; subst hh
      rw [g1, g2, g3]; exact h.pos k r0 hr
    · exact h.pos k' r hh
  · intro k' c hh
    rw [f1] at hh
    obtain ⟨r, hr'⟩ := h.cacheidx k' c hh
    rw [hidx]
    split
    · exact ⟨_, rfl⟩
    · exact ⟨r, hr'⟩
  · intro k' c e' hc he' ht hkl
    rw [f1] at hc
    rw [hkl_eq] at hkl
    by_cases hkk : k = k'
    · subst hkk
      obtain ⟨e, he, hte, hraw, _, _⟩ := hk e' he' ht
      rw [← hraw]; exact h.cachedata k c e hc he hte hkl
    · rw [hm k' hkk] at he'; exact h.cachedata k' c e' hc he' ht hkl
  · intro b hb; rw [f2] at hb; rw [f6]; exact h.qseq b hb
  · intro b hb r e' hri hseq hip he' ht
    rw [f2] at hb
    rw [hidx] at hri
    by_cases hkk : k = b.idx
    · rw [if_pos hkk] at hri
      simp only [Option.some.injEq] at hri; subst hri
      rw [← hkk] at he'
      obtain ⟨e, he, hte, hraw, _, _⟩ := hk e' he' ht
      rw [← hraw]
      exact h.qdata b hb r0 e (by rw [← hkk]; exact hr) (by rw [← g7]; exact hseq) (by rw [← g6]; exact hip) (by rw [← hkk]; exact he) hte
    · rw [if_neg hkk] at hri
      rw [hm _ hkk] at he'
      exact h.qdata b hb r e' hri hseq hip he' ht
  · intro k' e' he' ht
    by_cases hkk : k = k'
    · subst hkk
      obtain ⟨e, he, hte, hraw, htr, hol⟩ := hk e' he' ht
      obtain ⟨r, hr1, _, hr3, hr4, hr5, hr6⟩ := h.ent k e he hte
      rw [hr] at hr1; simp only [Option.some.injEq] at hr1; subst hr1
      refine ⟨r', by rw [hidx]; simp, htr, by rw [hol, hr3, hraw], by rw [← hraw]; exact hr4, ?_, ?_⟩
      · intro hn; rw [f1]; exact hr5 (by rw [← g6]; exact hn)
      · intro hn hl
        rw [← hraw]
        exact DataOK_congr env s.fs s'.fs r0 r' e.raw f3.1 f3.2.1 g1 g2 g3 g4 g5
          (hr6 (by rw [← g6]; exact hn) (by rw [← g3, ← f3.2.2]; exact hl))
    · rw [hm k' hkk] at he'
      obtain ⟨r, hr1, hr2, hr3, hr4, hr5, hr6⟩ := h.ent k' e' he' ht
      refine ⟨r, by rw [hidx, if_neg hkk]; exact hr1, hr2, hr3, hr4, ?_, ?_⟩
      · intro hn; rw [f1]; exact hr5 hn
      · intro hn hl
        exact DataOK_congr env s.fs s'.fs r r e'.raw f3.1 f3.2.1 rfl rfl rfl rfl rfl (hr6 hn (by rw [← f3.2.2]; exact hl))

/-- only the cache changes: same keys, same data -/
theorem ref_cache (env : Env) (s s' : State) (sp : Spec) (h : Ref env s sp)
    (f0 : s'.index = s.index) (f2 : s'.queue = s.queue) (f3 : s'.fs = s.fs) (_f4 : s'.opts = s.opts)
    (f5 : s'.isOpen = s.isOpen) (f6 : s'.nextSeq = s.nextSeq) (f7 : s'.maxdatfilepos = s.maxdatfilepos)
    (f8 : s'.maxdatfileidx = s.maxdatfileidx)
    (c1 : ∀ k' c', AL.get s'.cache k' = some c' → (∃ c, AL.get s.cache k' = some c ∧ c.data = c'.data) ∨
        ((∃ r, AL.get s.index k' = some r) ∧
          ∀ e, AL.get sp.m k' = some e → e.tainted = false → keyLost s k' = false → c'.data = e.raw))
    (c2 : ∀ k' c r, AL.get s.cache k' = some c → AL.get s.index k' = some r → r.ipos = none →
        ∃ c', AL.get s'.cache k' = some c') : Ref env s' sp := by
  refine ⟨by rw [f5]; exact h.opn, by rw [f5, f3, f8]; exact h.cur, by rw [f0]; exact h.idxspec,
    by rw [f0, f7, f8]; exact h.pos, ?_, ?_, by rw [f2, f6]; exact h.qseq, by rw [f2, f0]; exact h.qdata, ?_⟩
  · intro k c hc
    rw [f0]
    rcases c1 k c hc with ⟨c0, hc0, _⟩ | ⟨hr, _⟩
    · exact h.cacheidx k c0 hc0
    · exact hr
  · intro k c e hc he ht hkl
    rw [keyLost_congr s s' k (by rw [f0]) (by rw [f3])] at hkl
    rcases c1 k c hc with ⟨c0, hc0, hd⟩ | ⟨_, hd⟩
    · rw [← hd]; exact h.cachedata k c0 e hc0 he ht hkl
    · exact hd e he ht hkl
  · intro k e he ht
    obtain ⟨r, hr1, hr2, hr3, hr4, hr5, hr6⟩ := h.ent k e he ht
    refine ⟨r, by rw [f0]; exact hr1, hr2, hr3, hr4, ?_, by rw [f3]; exact hr6⟩
    intro hn
    obtain ⟨c, hc⟩ := hr5 hn
    exact c2 k c r hc hr1 hn

theorem evictable_none (index : List (Key × Rec)) (k : Key) (r : Rec) (h : AL.get index k = some r) (hn : r.ipos = none) :
    evictable index k = false := by
  unfold evictable; rw [h]; simp [hn]

/-- `addToCache s k d` for a key that is in the index, with the block's own bytes -/
theorem addToCache_ref (env : Env) (s : State) (sp : Spec) (h : Ref env s sp) (k : Key) (d : Bytes)
    (hr : ∃ r, AL.get s.index k = some r)
    (hd : ∀ e, AL.get sp.m k = some e → e.tainted = false → keyLost s k = false → d = e.raw) : Ref env (addToCache s k d) sp := by
  obtain ⟨g1, g2, g3, g4, g5, g6, g7, g8, _⟩ := addToCache_fields s k d
  obtain ⟨a1, a2, _⟩ := addToCache_cache s k d
  refine ref_cache env s _ sp h g1 g2 g3 g4 g5 g6 g7 g8 ?_ ?_
  · intro k' c' hc
    rcases a1 k' c' hc with hh | ⟨e1, e2, _⟩
    · exact .inl hh
    · subst e1; exact .inr ⟨hr, fun e he ht hkl => by rw [e2]; exact hd e he ht hkl⟩
  · intro k' c r hc hri hn
    exact a2 k' c hc (evictable_none s.index k' r hri hn)

/-! ### writing -/

theorem ref_pop (env : Env) (s : State) (sp : Spec) (h : Ref env s sp) (b : B2W) (q : List B2W) (hq : s.queue = b :: q) (n : Nat) :
    Ref env { s with queue := q, datToWrite := n } sp :=
  ⟨h.opn, h.cur, h.idxspec, h.pos, h.cacheidx, h.cachedata,
    fun b' hb' => h.qseq b' (by rw [hq]; simp [hb']),
    fun b' hb' => h.qdata b' (by rw [hq]; simp [hb']), h.ent⟩

theorem DataOK_keeps (env : Env) (fs fs' : FS) (r : Rec) (raw : Bytes) (hk : Keeps fs fs') (h : DataOK env fs r raw)
    (hl : fs'.lost.contains r.datfileidx = false) : DataOK env fs' r raw := by
  obtain ⟨d1, file, d2, d3, d4⟩ := h
  exact ⟨d1, file, (hk _ hl).2 file d2, d3, d4⟩

/-- the roll-over of `writeOne` — `os.Create` of the next data file, then `removeDatFile(maxdatfileidx - keep)` (delete, or
    rename into oldat/): every record that is still within retention keeps its bytes; the new current file exists -/
theorem maybeRoll_ref (env : Env) (s : State) (sp : Spec) (h : Ref env s sp) (n : Nat) :
    Ref env (maybeRoll s n) sp ∧ (maybeRoll s n).index = s.index ∧ (maybeRoll s n).queue = s.queue
      ∧ (maybeRoll s n).opts = s.opts ∧ (maybeRoll s n).isOpen = s.isOpen := by
  unfold maybeRoll
  split
  · unfold rollOver
    generalize hfs1 : ({ s.fs with dats := AL.set s.fs.dats (s.maxdatfileidx + 1) [] } : FS) = fs1
    have k12 : Keeps fs1 (if s.opts.keep ≠ 0 ∧ s.maxdatfileidx ≥ s.opts.keep
        then removeDatFile s.opts fs1 (s.maxdatfileidx - s.opts.keep) else fs1) := by
      split
      · exact removeDatFile_keeps _ _ _
      · exact Keeps.refl _
    have hcur : AL.get (if s.opts.keep ≠ 0 ∧ s.maxdatfileidx ≥ s.opts.keep
        then removeDatFile s.opts fs1 (s.maxdatfileidx - s.opts.keep) else fs1).dats (s.maxdatfileidx + 1) = some [] := by
      have : AL.get fs1.dats (s.maxdatfileidx + 1) = some [] := by rw [← hfs1]; simp only [AL.get_set, ↓reduceIte]
      split
      · rw [removeDatFile_dats_other _ _ _ _ (by omega)]; exact this
      · exact this
    simp only [hfs1]
    generalize (if s.opts.keep ≠ 0 ∧ s.maxdatfileidx ≥ s.opts.keep
        then removeDatFile s.opts fs1 (s.maxdatfileidx - s.opts.keep) else fs1) = fs2 at k12 hcur
    refine ⟨⟨h.opn, fun _ => ⟨[], hcur⟩, h.idxspec, ?_, h.cacheidx, ?_, h.qseq, h.qdata, ?_⟩, by simp⟩
    · intro k r hr
      have := h.pos k r hr
      simp only
      omega
    · intro k c e hc he ht hkl
      refine h.cachedata k c e hc he ht ?_
      cases hr : AL.get s.index k with
      | none => exact keyLost_none s k hr
      | some r =>
        unfold keyLost at hkl
        simp only [hr] at hkl
        rw [keyLost_of s k r hr]
        cases hi : r.ipos.isSome with
        | false => rfl
        | true =>
          rw [hi, Bool.true_and] at hkl
          have := (k12 _ hkl).1
          rw [← hfs1] at this
          rw [Bool.true_and]; exact this
    · intro k e he ht
      obtain ⟨r, hr1, hr2, hr3, hr4, hr5, hr6⟩ := h.ent k e he ht
      refine ⟨r, hr1, hr2, hr3, hr4, hr5, ?_⟩
      intro hn hl
      have hl1 := (k12 _ hl).1
      have hl0 : s.fs.lost.contains r.datfileidx = false := by rw [← hfs1] at hl1; exact hl1
      obtain ⟨d1, file, d2, d3, d4⟩ := hr6 hn hl0
      have := (h.pos k r hr1).1
      refine DataOK_keeps env fs1 fs2 r e.raw k12 ⟨d1, file, ?_, d3, d4⟩ hl
      rw [← hfs1]
      unfold fileOf at d2 ⊢
      simp only [AL.get_set]
      rw [if_neg (by omega)]
      exact d2
  · exact ⟨h, rfl, rfl, rfl, rfl⟩

theorem decodeStored_written (env : Env) (ok : EnvOK env) (r : Rec) (c : Bool) (raw : Bytes)
    (h1 : r.compressed = c) (h2 : r.snappied = c) (hb : raw.length ≤ 0xffffffff) :
    decodeStored env r (if c = true then env.enc raw else raw) = (raw, none) := by
  unfold decodeStored
  cases c
  · simp [h1]
  · simp [h1, h2, ok.rt raw hb]

/-- `writeOne`'s record write keeps the relation: the new range is read back as written, older ranges are untouched -/
theorem writeRecord_ref (env : Env) (ok : EnvOK env) (s : State) (sp : Spec) (h : Ref env s sp) (b : B2W) (r0 : Rec)
    (hr0 : AL.get s.index b.idx = some r0) (hn0 : r0.ipos = none) (ho : s.isOpen = true)
    (hdat : ∀ e, AL.get sp.m b.idx = some e → e.tainted = false → b.data = e.raw) :
    Ref env (writeRecord s b r0 (if s.opts.compress = true then env.enc b.data else b.data)) sp := by
  generalize hcb : (if s.opts.compress = true then env.enc b.data else b.data) = cbts
  obtain ⟨fcur, hfcur⟩ := h.cur ho
  unfold writeRecord
  refine ⟨h.opn, fun _ => ⟨pwrite ((AL.get s.fs.dats s.maxdatfileidx).getD []) s.maxdatfilepos cbts, by simp only [AL.get_set, ↓reduceIte]⟩,
    ?_, ?_, ?_, ?_, h.qseq, ?_, ?_⟩
  · intro k r hr
    simp only [AL.get_set] at hr
    split at hr
    · rename_i e; subst e; exact h.idxspec _ r0 hr0
    · exact h.idxspec k r hr
  · intro k r hr
    simp only [AL.get_set] at hr
    simp only
    split at hr
    · simp only [Option.some.injEq] at hr; subst hr
      simp
    · have := h.pos k r hr; omega
  · intro k c hc
    obtain ⟨r, hr⟩ := h.cacheidx k c hc
    simp only [AL.get_set]
    split
    · exact ⟨_, rfl⟩
    · exact ⟨r, hr⟩
  · intro k c e hc he ht hkl
    refine h.cachedata k c e hc he ht ?_
    by_cases hk : b.idx = k
    · subst hk; rw [keyLost_of s _ r0 hr0, hn0]; rfl
    · rw [← hkl]; symm
      exact keyLost_congr s _ k (by simp only [AL.get_set, if_neg hk]) rfl
  · intro b' hb' r e hri hseq hip he ht
    simp only [AL.get_set] at hri
    split at hri
    · simp only [Option.some.injEq] at hri; subst hri
      simp at hip
    · exact h.qdata b' hb' r e hri hseq hip he ht
  · intro k e he ht
    obtain ⟨r, hr1, hr2, hr3, hr4, hr5, hr6⟩ := h.ent k e he ht
    by_cases hk : b.idx = k
    · subst hk
      rw [hr0] at hr1; simp only [Option.some.injEq] at hr1; subst hr1
      have hraw := hdat e he ht
      refine ⟨{ r0 with compressed := s.opts.compress, snappied := s.opts.compress, blen := cbts.length,
                        datfileidx := s.maxdatfileidx, fpos := s.maxdatfilepos, ipos := some s.maxidxfilepos },
        by simp only [AL.get_set]; simp, hr2, hr3, hr4, by simp, ?_⟩
      intro _ _
      have hne : cbts ≠ [] := by
        rw [← hcb]
        split
        · exact ok.ne _
        · intro hh; rw [hraw] at hh; rw [hh] at hr4; simp at hr4
      refine ⟨by simpa using hne, pwrite ((AL.get s.fs.dats s.maxdatfileidx).getD []) s.maxdatfilepos cbts, ?_, ?_, ?_⟩
      · apply fileOf_dats; simp only [AL.get_set]; simp
      · exact pwrite_length_ge _ _ _
      · simp only [pwrite_read]
        rw [← hcb, hraw]
        exact decodeStored_written env ok _ s.opts.compress e.raw rfl rfl hr4.2
    · refine ⟨r, by simp only [AL.get_set]; rw [if_neg hk]; exact hr1, hr2, hr3, hr4, hr5, ?_⟩
      intro hn hl
      obtain ⟨d1, file, d2, d3, d4⟩ := hr6 hn hl
      by_cases hf : s.maxdatfileidx = r.datfileidx
      · have hp := (h.pos k r hr1).2 hf.symm
        have hfile : file = fcur := by
          rw [← hf, fileOf_dats _ _ _ hfcur] at d2; exact (Option.some.inj d2).symm
        subst hfile
        refine ⟨d1, pwrite file s.maxdatfilepos cbts, ?_, ?_, ?_⟩
        · apply fileOf_dats; simp only [AL.get_set]; rw [if_pos hf, hfcur]; simp
        · have := pwrite_length_ge' file s.maxdatfilepos cbts; omega
        · rw [pwrite_keep _ _ _ _ _ hp d3]; exact d4
      · refine ⟨d1, file, ?_, d3, d4⟩
        unfold fileOf at d2 ⊢
        simp only [AL.get_set]; rw [if_neg hf]; exact d2

theorem writeOne_ref (env : Env) (ok : EnvOK env) (s s' : State) (sp : Spec) (h : Ref env s sp) (ho : s.isOpen = true)
    (hw : writeOne env s = some s') : Ref env s' sp ∧ s'.isOpen = true := by
  unfold writeOne at hw
  split at hw
  · cases hw
  · rename_i b q hq
    have h0 := ref_pop env s sp h b q hq (s.datToWrite - b.data.length)
    simp only at hw
    split at hw
    · cases hw; exact ⟨h0, ho⟩
    · rename_i r0 hr0
      split at hw
      · cases hw; exact ⟨h0, ho⟩
      · rename_i hc
        simp only [Option.some.injEq] at hw
        subst hw
        have hseq : r0.seq = b.seq := by
          by_cases e : r0.seq = b.seq
          · exact e
          · exact absurd (Or.inl e) hc
        have hip : r0.ipos = none := by
          cases hh : r0.ipos with
          | none => rfl
          | some p => exact absurd (Or.inr (by simp [hh])) hc
        obtain ⟨m1, m2, _, m4, m5⟩ := maybeRoll_ref env _ sp h0
          (if s.opts.compress = true then env.enc b.data else b.data).length
        have key := writeRecord_ref env ok _ sp m1 b r0 (by rw [m2]; exact hr0) hip (by rw [m5]; exact ho)
          (fun e he ht => h.qdata b (by rw [hq]; simp) r0 e hr0 hseq hip he ht)
        rw [m4] at key
        refine ⟨key, ?_⟩
        unfold writeRecord
        simp only
        rw [m5]; exact ho

theorem writeAll_ref (env : Env) (ok : EnvOK env) (sp : Spec) : ∀ (f : Nat) (s : State), Ref env s sp → s.isOpen = true →
    Ref env (writeAll env f s) sp := by
  intro f
  induction f with
  | zero => intro s h _; exact h
  | succ f ih =>
    intro s h ho
    unfold writeAll
    split
    · exact h
    · rename_i s' hw
      obtain ⟨a, b⟩ := writeOne_ref env ok s s' sp h ho hw
      exact ih s' a b

theorem flush_ref (env : Env) (ok : EnvOK env) (s : State) (sp : Spec) (h : Ref env s sp) (ho : s.isOpen = true) :
    Ref env (flush env s) sp :=
  writeAll_ref env ok sp _ s h ho

/-! ### flag updates -/

/-- the specification changes at key `k` only, compatibly; the state does not change -/
theorem ref_spec (env : Env) (s : State) (sp sp' : Spec) (h : Ref env s sp) (k : Key)
    (hopen : sp'.isOpen = sp.isOpen)
    (hm : ∀ k', k ≠ k' → AL.get sp'.m k' = AL.get sp.m k')
    (hk : ∀ e', AL.get sp'.m k = some e' → e'.tainted = false →
      ∃ e, AL.get sp.m k = some e ∧ e.tainted = false ∧ e.raw = e'.raw ∧ e.trusted = e'.trusted)
    (hex : ∀ e, AL.get sp.m k = some e → ∃ e', AL.get sp'.m k = some e') : Ref env s sp' := by
  refine ⟨by rw [hopen]; exact h.opn, h.cur, ?_, h.pos, h.cacheidx, ?_, h.qseq, ?_, ?_⟩
  · intro k' r hr
    obtain ⟨e, he⟩ := h.idxspec k' r hr
    by_cases hkk : k = k'
    · subst hkk; exact hex e he
    · rw [hm k' hkk]; exact ⟨e, he⟩
  · intro k' c e' hc he' ht hkl
    by_cases hkk : k = k'
    · subst hkk
      obtain ⟨e, he, hte, hraw, _⟩ := hk e' he' ht
      rw [← hraw]; exact h.cachedata k c e hc he hte hkl
    · rw [hm k' hkk] at he'; exact h.cachedata k' c e' hc he' ht hkl
  · intro b hb r e' hri hseq hip he' ht
    by_cases hkk : k = b.idx
    · rw [← hkk] at he'
      obtain ⟨e, he, hte, hraw, _⟩ := hk e' he' ht
      rw [← hraw]
      exact h.qdata b hb r e hri hseq hip (by rw [← hkk]; exact he) hte
    · rw [hm _ hkk] at he'
      exact h.qdata b hb r e' hri hseq hip he' ht
  · intro k' e' he' ht
    by_cases hkk : k = k'
    · subst hkk
      obtain ⟨e, he, hte, hraw, htr⟩ := hk e' he' ht
      obtain ⟨r, hr1, hr2, hr3, hr4, hr5, hr6⟩ := h.ent k e he hte
      exact ⟨r, hr1, by rw [← htr]; exact hr2, by rw [← hraw]; exact hr3, by rw [← hraw]; exact hr4, hr5,
        by rw [← hraw]; exact hr6⟩
    · rw [hm k' hkk] at he'
      exact h.ent k' e' he' ht

theorem setBlockFlag_fields (s : State) (k : Key) (r0 : Rec) (fl : Nat) :
    (∀ k', AL.get (setBlockFlag s k r0 fl).index k' =
        if k = k' then some { r0 with trusted := r0.trusted || fl == BLOCK_TRUSTED } else AL.get s.index k') ∧
    (setBlockFlag s k r0 fl).cache = s.cache ∧ (setBlockFlag s k r0 fl).queue = s.queue ∧
    ((setBlockFlag s k r0 fl).fs.dats = s.fs.dats ∧ (setBlockFlag s k r0 fl).fs.olds = s.fs.olds ∧
      (setBlockFlag s k r0 fl).fs.lost = s.fs.lost) ∧ (setBlockFlag s k r0 fl).opts = s.opts ∧
    (setBlockFlag s k r0 fl).isOpen = s.isOpen ∧ (setBlockFlag s k r0 fl).nextSeq = s.nextSeq ∧
    (setBlockFlag s k r0 fl).maxdatfilepos = s.maxdatfilepos ∧ (setBlockFlag s k r0 fl).maxdatfileidx = s.maxdatfileidx := by
  unfold setBlockFlag
  split <;> simp [AL.get_set]

/-- BlockTrusted (also reached from BlockAdd of a known block with the trusted flag) against any specification change
    that sets the key's trusted flag and keeps everything else -/
theorem blockTrusted_ref (env : Env) (s : State) (sp sp' : Spec) (h : Ref env s sp) (hash : Bytes)
    (hopen : sp'.isOpen = sp.isOpen)
    (hm : ∀ k', keyOf hash ≠ k' → AL.get sp'.m k' = AL.get sp.m k')
    (hk : ∀ e', AL.get sp'.m (keyOf hash) = some e' →
      ∃ e, AL.get sp.m (keyOf hash) = some e ∧ e'.tainted = e.tainted ∧ e'.raw = e.raw ∧ e'.trusted = true)
    (hex : ∀ e, AL.get sp.m (keyOf hash) = some e → ∃ e', AL.get sp'.m (keyOf hash) = some e') :
    Ref env (blockTrusted s hash) sp' := by
  unfold blockTrusted
  simp only
  split
  · rename_i hnone
    refine ref_spec env s sp sp' h (keyOf hash) hopen hm ?_ hex
    intro e' he' ht
    obtain ⟨e, he, h1, _, _⟩ := hk e' he'
    obtain ⟨r, hr, _⟩ := h.ent _ e he (by rw [← h1]; exact ht)
    rw [hnone] at hr; cases hr
  · rename_i r0 hr0
    split
    · rename_i htr
      refine ref_spec env s sp sp' h (keyOf hash) hopen hm ?_ hex
      intro e' he' ht
      obtain ⟨e, he, h1, h2, h3⟩ := hk e' he'
      have hte : e.tainted = false := by rw [← h1]; exact ht
      obtain ⟨r, hr, hr2, _⟩ := h.ent _ e he hte
      rw [hr0] at hr; simp only [Option.some.injEq] at hr; subst hr
      exact ⟨e, he, hte, h2.symm, by rw [h3, ← hr2]; exact htr⟩
    · obtain ⟨i0, i1, i2, i3, i4, i5, i6, i7, i8⟩ := setBlockFlag_fields s (keyOf hash) r0 BLOCK_TRUSTED
      obtain ⟨e0, he0⟩ := h.idxspec _ r0 hr0
      refine ref_update env s _ sp sp' h (keyOf hash) r0 _ hr0 i0 i1 i2 i3 i4 i5 i6 i7 i8 rfl rfl rfl rfl rfl rfl rfl hopen hm ?_ (hex e0 he0)
      intro e' he' ht
      obtain ⟨e, he, h1, h2, h3⟩ := hk e' he'
      exact ⟨e, he, by rw [← h1]; exact ht, h2.symm, by simp [h3], rfl⟩

/-! ### BlockInvalid -/

theorem ref_delete (env : Env) (s : State) (sp : Spec) (h : Ref env s sp) (k : Key)
    (ht : ∀ e, AL.get sp.m k = some e → e.tainted = true) :
    Ref env { s with cache := AL.del s.cache k, index := AL.del s.index k } sp := by
  refine ⟨h.opn, h.cur, ?_, ?_, ?_, ?_, h.qseq, ?_, ?_⟩
  · intro k' r hr
    simp only [AL.get_del] at hr
    split at hr
    · cases hr
    · exact h.idxspec k' r hr
  · intro k' r hr
    simp only [AL.get_del] at hr
    split at hr
    · cases hr
    · exact h.pos k' r hr
  · intro k' c hc
    simp only [AL.get_del] at hc ⊢
    split at hc
    · cases hc
    · rename_i hne; rw [if_neg hne]; exact h.cacheidx k' c hc
  · intro k' c e hc he hte hkl
    simp only [AL.get_del] at hc
    split at hc
    · cases hc
    · rename_i hne
      refine h.cachedata k' c e hc he hte ?_
      rw [← hkl]; symm
      exact keyLost_congr s _ k' (by simp only [AL.get_del, if_neg hne]) rfl
  · intro b hb r e hri
    simp only [AL.get_del] at hri
    split at hri
    · cases hri
    · exact h.qdata b hb r e hri
  · intro k' e he hte
    have hne : ¬ k = k' := by
      intro hh; subst hh; rw [ht e he] at hte; cases hte
    obtain ⟨r, hr1, hr2, hr3, hr4, hr5, hr6⟩ := h.ent k' e he hte
    refine ⟨r, by simp only [AL.get_del]; rw [if_neg hne]; exact hr1, hr2, hr3, hr4, ?_, hr6⟩
    intro hn
    simp only [AL.get_del]; rw [if_neg hne]; exact hr5 hn

theorem blockInvalid_ref (env : Env) (s : State) (sp sp' : Spec) (h : Ref env s sp) (hash : Bytes)
    (hopen : sp'.isOpen = sp.isOpen)
    (hm : ∀ k', keyOf hash ≠ k' → AL.get sp'.m k' = AL.get sp.m k')
    (hk : ∀ e', AL.get sp'.m (keyOf hash) = some e' → e'.tainted = true)
    (hex : ∀ e, AL.get sp.m (keyOf hash) = some e → ∃ e', AL.get sp'.m (keyOf hash) = some e') :
    Ref env (blockInvalid s hash).1 sp' := by
  have hsp : Ref env s sp' := by
    refine ref_spec env s sp sp' h (keyOf hash) hopen hm ?_ hex
    intro e' he' ht; rw [hk e' he'] at ht; cases ht
  unfold blockInvalid
  simp only
  split
  · exact hsp
  · rename_i r0 hr0
    split
    · exact hsp
    · split
      · exact ref_delete env s sp' hsp (keyOf hash) hk
      · obtain ⟨i0, i1, i2, i3, i4, i5, i6, i7, i8⟩ := setBlockFlag_fields s (keyOf hash) r0 BLOCK_INVALID
        obtain ⟨e0, he0⟩ := hsp.idxspec _ r0 hr0
        refine ref_update env s _ sp' sp' hsp (keyOf hash) r0 _ hr0 i0 i1 i2 i3 i4 i5 i6 i7 i8 rfl rfl rfl rfl rfl rfl rfl rfl
          (fun _ _ => rfl) ?_ ⟨e0, he0⟩
        intro e' he' ht; rw [hk e' he'] at ht; cases ht

/-- `panics`: BlockInvalid of a trusted block changes nothing -/
theorem blockInvalid_panics (s : State) (hash : Bytes) (hp : panics s (keyOf hash) = true) :
    blockInvalid s hash = (s, .panic) := by
  unfold panics at hp
  unfold blockInvalid
  simp only
  split at hp
  · rename_i r hr
    simp only [hr, hp, ↓reduceIte]
  · cases hp

/-- `forgets`: BlockInvalid takes the delete branch, the key leaves the index -/
theorem blockInvalid_forgets (s : State) (hash : Bytes) (hf : forgets s (keyOf hash) = true) :
    AL.get (blockInvalid s hash).1.index (keyOf hash) = none := by
  unfold forgets at hf
  unfold blockInvalid
  simp only
  split
  · rename_i hn; exact hn
  · rename_i r0 hr0
    rw [hr0] at hf
    simp only [Bool.and_eq_true, Bool.not_eq_eq_eq_not, Bool.not_true] at hf
    simp only [hf.1, Bool.false_eq_true, ↓reduceIte, hf.2, AL.get_del]

/-- an entry the specification makes no claim about (tainted) whose key is not in the index can be dropped -/
theorem ref_spec_drop (env : Env) (s : State) (sp sp' : Spec) (h : Ref env s sp) (k : Key)
    (hopen : sp'.isOpen = sp.isOpen)
    (hm : ∀ k', k ≠ k' → AL.get sp'.m k' = AL.get sp.m k')
    (hnone : AL.get sp'.m k = none) (hidx : AL.get s.index k = none) : Ref env s sp' := by
  refine ⟨by rw [hopen]; exact h.opn, h.cur, ?_, h.pos, h.cacheidx, ?_, h.qseq, ?_, ?_⟩
  · intro k' r hr
    by_cases hkk : k = k'
    · subst hkk; rw [hidx] at hr; cases hr
    · rw [hm k' hkk]; exact h.idxspec k' r hr
  · intro k' c e' hc he' ht hkl
    by_cases hkk : k = k'
    · subst hkk; rw [hnone] at he'; cases he'
    · rw [hm k' hkk] at he'; exact h.cachedata k' c e' hc he' ht hkl
  · intro b hb r e' hri hseq hip he' ht
    by_cases hkk : k = b.idx
    · rw [← hkk, hnone] at he'; cases he'
    · rw [hm _ hkk] at he'; exact h.qdata b hb r e' hri hseq hip he' ht
  · intro k' e' he' ht
    by_cases hkk : k = k'
    · subst hkk; rw [hnone] at he'; cases he'
    · rw [hm k' hkk] at he'; exact h.ent k' e' he' ht

/-! ### BlockAdd -/

theorem addNew_ref (env : Env) (s : State) (sp sp' : Spec) (h : Ref env s sp) (k : Key)
    (hnone : AL.get s.index k = none) (raw : Bytes) (ht tx : Nat) (tr : Bool) (hraw : 80 ≤ raw.length ∧ raw.length ≤ 0xffffffff)
    (hopen : sp'.isOpen = sp.isOpen)
    (hm : ∀ k', k ≠ k' → AL.get sp'.m k' = AL.get sp.m k')
    (hk : ∀ e', AL.get sp'.m k = some e' → e'.tainted = false → e'.raw = raw ∧ e'.trusted = tr)
    (hex : ∃ e', AL.get sp'.m k = some e') (s2 : State)
    (hs2 : s2 = addToCache { s with index := AL.set s.index k { ipos := none, trusted := tr, olen := raw.length, seq := s.nextSeq } } k raw) :
    Ref env { s2 with datToWrite := s2.datToWrite + raw.length, nextSeq := s2.nextSeq + 1,
                      queue := s2.queue ++ [{ data := raw, idx := k, height := ht, txcount := tx % 2^32, seq := s2.nextSeq }] } sp' := by
  generalize hs1 : ({ s with index := AL.set s.index k { ipos := none, trusted := tr, olen := raw.length, seq := s.nextSeq } } : State) = s1 at hs2
  have e_idx : s1.index = AL.set s.index k { ipos := none, trusted := tr, olen := raw.length, seq := s.nextSeq } := by rw [← hs1]
  have e_cache : s1.cache = s.cache := by rw [← hs1]
  have e_q : s1.queue = s.queue := by rw [← hs1]
  have e_fs : s1.fs = s.fs := by rw [← hs1]
  have e_opts : s1.opts = s.opts := by rw [← hs1]
  have e_open : s1.isOpen = s.isOpen := by rw [← hs1]
  have e_seq : s1.nextSeq = s.nextSeq := by rw [← hs1]
  have e_mp : s1.maxdatfilepos = s.maxdatfilepos := by rw [← hs1]
  have e_mi : s1.maxdatfileidx = s.maxdatfileidx := by rw [← hs1]
  obtain ⟨g1, g2, g3, g4, g5, g6, g7, g8, _⟩ := addToCache_fields s1 k raw
  obtain ⟨a1, a2, a3⟩ := addToCache_cache s1 k raw
  rw [← hs2] at g1 g2 g3 g4 g5 g6 g7 g8 a1 a2 a3
  have hix : ∀ k', AL.get s2.index k' = if k = k' then some { ipos := none, trusted := tr, olen := raw.length, seq := s.nextSeq } else AL.get s.index k' := by
    intro k'; rw [g1, e_idx, AL.get_set]
  refine ⟨by rw [hopen]; simp only; rw [g5, e_open]; exact h.opn, by simp only; rw [g5, e_open, g3, e_fs, g8, e_mi]; exact h.cur, ?_, ?_, ?_, ?_, ?_, ?_, ?_⟩
  · intro k' r hr
    simp only [hix] at hr
    split at hr
    · rename_i e; subst e; exact hex
    · rename_i hne; rw [hm k' hne]; exact h.idxspec k' r hr
  · intro k' r hr
    simp only [hix] at hr
    simp only [g7, g8, e_mp, e_mi]
    split at hr
    · simp only [Option.some.injEq] at hr; subst hr; simp
    · exact h.pos k' r hr
  · intro k' c hc
    simp only at hc
    simp only [hix]
    rcases a1 k' c hc with ⟨c0, hc0, _⟩ | ⟨e1, _, _⟩
    · rw [e_cache] at hc0
      obtain ⟨r, hr⟩ := h.cacheidx k' c0 hc0
      split
      · exact ⟨_, rfl⟩
      · exact ⟨r, hr⟩
    · rw [if_pos e1.symm]; exact ⟨_, rfl⟩
  · intro k' c e' hc he' hte hkl
    simp only at hc
    rcases a1 k' c hc with ⟨c0, hc0, hd⟩ | ⟨e1, e2, _⟩
    · rw [e_cache] at hc0
      have hne : ¬ k = k' := by
        intro hh; subst hh
        obtain ⟨r, hr⟩ := h.cacheidx k c0 hc0
        rw [hnone] at hr; cases hr
      rw [hm k' hne] at he'
      rw [← hd]; refine h.cachedata k' c0 e' hc0 he' hte ?_
      rw [← hkl]; symm
      exact keyLost_congr s _ k' (by simp only [hix, if_neg hne]) (by simp only [g3, e_fs])
    · subst e1; rw [e2]; exact (hk e' he' hte).1.symm
  · intro b hb
    simp only [List.mem_append, List.mem_singleton] at hb
    simp only [g6, e_seq]
    rcases hb with hb | hb
    · rw [g2, e_q] at hb; have := h.qseq b hb; omega
    · subst hb; simp only; omega
  · intro b hb r e' hri hseq hip he' hte
    simp only [List.mem_append, List.mem_singleton] at hb
    simp only [hix] at hri
    rcases hb with hb | hb
    · rw [g2, e_q] at hb
      split at hri
      · simp only [Option.some.injEq] at hri; subst hri
        have := h.qseq b hb
        simp only at hseq; omega
      · rename_i hne
        rw [hm _ hne] at he'
        exact h.qdata b hb r e' hri hseq hip he' hte
    · subst hb
      simp only at he' ⊢
      exact (hk e' he' hte).1.symm
  · intro k' e' he' hte
    by_cases hkk : k = k'
    · subst hkk
      obtain ⟨h1, h2⟩ := hk e' he' hte
      refine ⟨{ ipos := none, trusted := tr, olen := raw.length, seq := s.nextSeq }, by simp only [hix]; simp, h2.symm,
        by rw [h1], by rw [h1]; exact hraw, fun _ => a3, by simp⟩
    · rw [hm k' hkk] at he'
      obtain ⟨r, hr1, hr2, hr3, hr4, hr5, hr6⟩ := h.ent k' e' he' hte
      refine ⟨r, by simp only [hix]; rw [if_neg hkk]; exact hr1, hr2, hr3, hr4, ?_, ?_⟩
      · intro hn
        obtain ⟨c, hc⟩ := hr5 hn
        refine a2 k' c (by rw [e_cache]; exact hc) (evictable_none _ k' r ?_ hn)
        rw [e_idx, AL.get_set, if_neg hkk]; exact hr1
      · intro hn hl
        simp only [g3, e_fs] at hl ⊢; exact hr6 hn hl

theorem blockAdd_ref (env : Env) (ok : EnvOK env) (s : State) (sp sp' : Spec) (h : Ref env s sp) (ho : s.isOpen = true) (hash : Bytes)
    (ht tx : Nat) (tr : Bool) (raw : Bytes) (hraw : 80 ≤ raw.length ∧ raw.length ≤ 0xffffffff)
    (hopen : sp'.isOpen = sp.isOpen)
    (hm : ∀ k', keyOf hash ≠ k' → AL.get sp'.m k' = AL.get sp.m k')
    (hnew : AL.get sp.m (keyOf hash) = none → ∀ e', AL.get sp'.m (keyOf hash) = some e' → e'.raw = raw ∧ e'.trusted = tr)
    (hold : ∀ e, AL.get sp.m (keyOf hash) = some e → ∀ e', AL.get sp'.m (keyOf hash) = some e' →
      e'.tainted = e.tainted ∧ e'.raw = e.raw ∧ e'.trusted = (e.trusted || tr))
    (hex : ∃ e', AL.get sp'.m (keyOf hash) = some e') :
    Ref env (blockAdd env s hash ht tx tr raw) sp' := by
  unfold blockAdd
  simp only
  split
  · rename_i hnone
    have hk : ∀ e', AL.get sp'.m (keyOf hash) = some e' → e'.tainted = false → e'.raw = raw ∧ e'.trusted = tr := by
      intro e' he' hte
      cases hsp : AL.get sp.m (keyOf hash) with
      | none => exact hnew hsp e' he'
      | some e =>
        obtain ⟨h1, _, _⟩ := hold e hsp e' he'
        obtain ⟨r, hr, _⟩ := h.ent _ e hsp (by rw [← h1]; exact hte)
        rw [hnone] at hr; cases hr
    have key := addNew_ref env s sp sp' h (keyOf hash) hnone raw ht tx tr hraw hopen hm hk hex _ rfl
    split
    · exact flush_ref env ok _ sp' key (by simp only; rw [(addToCache_fields _ _ _).2.2.2.2.1]; exact ho)
    · exact key
  · rename_i r0 hr0
    obtain ⟨e0, he0⟩ := h.idxspec _ r0 hr0
    split
    · rename_i hc
      simp only [Bool.and_eq_true, Bool.not_eq_eq_eq_not, Bool.not_true] at hc
      split
      · refine ref_update env s _ sp sp' h (keyOf hash) r0 { r0 with trusted := true } hr0 (fun k' => by simp only [AL.get_set])
          rfl rfl ⟨rfl, rfl, rfl⟩ rfl rfl rfl rfl rfl rfl rfl rfl rfl rfl rfl rfl hopen hm ?_ hex
        intro e' he' hte
        obtain ⟨h1, h2, h3⟩ := hold e0 he0 e' he'
        exact ⟨e0, he0, by rw [← h1]; exact hte, h2.symm, by rw [h3, hc.2]; simp, rfl⟩
      · refine blockTrusted_ref env s sp sp' h hash hopen hm ?_ (fun _ _ => hex)
        intro e' he'
        obtain ⟨h1, h2, h3⟩ := hold e0 he0 e' he'
        exact ⟨e0, he0, h1, h2, by rw [h3, hc.2]; simp⟩
    · rename_i hc
      refine ref_spec env s sp sp' h (keyOf hash) hopen hm ?_ (fun _ _ => hex)
      intro e' he' hte
      obtain ⟨h1, h2, h3⟩ := hold e0 he0 e' he'
      have hte0 : e0.tainted = false := by rw [← h1]; exact hte
      obtain ⟨r, hr, hr2, _⟩ := h.ent _ e0 he0 hte0
      rw [hr0] at hr; simp only [Option.some.injEq] at hr; subst hr
      refine ⟨e0, he0, hte0, h2.symm, ?_⟩
      rw [h3, ← hr2]
      cases h5 : r0.trusted <;> cases h6 : tr <;> simp_all

/-! ### BlockGet / BlockLength -/

theorem blockGet_ref (env : Env) (s : State) (sp : Spec) (h : Ref env s sp) (hash : Bytes) :
    Ref env (blockGet env s hash).1 sp ∧
    (∀ e, AL.get sp.m (keyOf hash) = some e → e.tainted = false → keyLost s (keyOf hash) = false →
      (blockGet env s hash).2 = .data e.raw e.trusted) := by
  unfold blockGet
  simp only
  split
  · rename_i hnone
    refine ⟨h, ?_⟩
    intro e he hte _
    obtain ⟨r, hr, _⟩ := h.ent _ e he hte
    rw [hnone] at hr; cases hr
  · rename_i r0 hr0
    split
    · rename_i c hc
      constructor
      · refine ref_cache env s _ sp h rfl rfl rfl rfl rfl rfl rfl rfl ?_ ?_
        · intro k' c' hc'
          simp only [AL.get_set] at hc'
          split at hc'
          · rename_i e; subst e
            simp only [Option.some.injEq] at hc'
            exact .inl ⟨c, hc, by rw [← hc']⟩
          · exact .inl ⟨c', hc', rfl⟩
        · intro k' c0 r hc0 _ _
          simp only [AL.get_set]
          split
          · exact ⟨_, rfl⟩
          · exact ⟨c0, hc0⟩
      · intro e he hte hkl
        obtain ⟨r, hr, hr2, _⟩ := h.ent _ e he hte
        rw [hr0] at hr; simp only [Option.some.injEq] at hr; subst hr
        rw [h.cachedata _ c e hc he hte hkl, hr2]
    · rename_i hcn
      split
      · rename_i hin
        refine ⟨h, ?_⟩
        intro e he hte _
        obtain ⟨r, hr, _, _, _, hr5, _⟩ := h.ent _ e he hte
        rw [hr0] at hr; simp only [Option.some.injEq] at hr; subst hr
        obtain ⟨c, hc⟩ := hr5 (by simpa using hin)
        rw [hcn] at hc; cases hc
      · rename_i hin
        have hsome : r0.ipos.isSome = true := by
          cases hh : r0.ipos with
          | none => simp [hh] at hin
          | some p => rfl
        have hlost : keyLost s (keyOf hash) = false → s.fs.lost.contains r0.datfileidx = false := by
          intro hkl
          unfold keyLost at hkl
          rw [hr0] at hkl
          simpa [hsome] using hkl
        split
        · rename_i hb0
          refine ⟨h, ?_⟩
          intro e he hte hkl
          obtain ⟨r, hr, _, _, _, _, hr6⟩ := h.ent _ e he hte
          rw [hr0] at hr; simp only [Option.some.injEq] at hr; subst hr
          exact absurd hb0 (hr6 hsome (hlost hkl)).1
        · split
          · rename_i hnf
            refine ⟨h, ?_⟩
            intro e he hte hkl
            obtain ⟨r, hr, _, _, _, _, hr6⟩ := h.ent _ e he hte
            rw [hr0] at hr; simp only [Option.some.injEq] at hr; subst hr
            obtain ⟨_, file, d2, _, _⟩ := hr6 hsome (hlost hkl)
            unfold fileOf at d2
            rw [d2] at hnf; simp at hnf
          · rename_i file hfile
            split
            · rename_i hshort
              refine ⟨h, ?_⟩
              intro e he hte hkl
              obtain ⟨r, hr, _, _, _, _, hr6⟩ := h.ent _ e he hte
              rw [hr0] at hr; simp only [Option.some.injEq] at hr; subst hr
              obtain ⟨_, file', d2, d3, _⟩ := hr6 hsome (hlost hkl)
              unfold fileOf at d2
              rw [d2] at hfile; simp at hfile; subst hfile
              omega
            · generalize hble : decodeStored env r0 (List.take r0.blen (List.drop r0.fpos file)) = ble
              obtain ⟨bl, err⟩ := ble
              simp only
              have holen : ∀ e, AL.get sp.m (keyOf hash) = some e → e.tainted = false → r0.trusted = e.trusted ∧ r0.olen ≠ 0 := by
                intro e he hte
                obtain ⟨r, hr, hr2, hr3, hr4, _, _⟩ := h.ent _ e he hte
                rw [hr0] at hr; simp only [Option.some.injEq] at hr; subst hr
                exact ⟨hr2, by omega⟩
              have hbl : ∀ e, AL.get sp.m (keyOf hash) = some e → e.tainted = false → s.fs.lost.contains r0.datfileidx = false →
                  bl = e.raw ∧ err = none := by
                intro e he hte hl
                obtain ⟨r, hr, hr2, hr3, hr4, _, hr6⟩ := h.ent _ e he hte
                rw [hr0] at hr; simp only [Option.some.injEq] at hr; subst hr
                obtain ⟨_, file', d2, d3, d4⟩ := hr6 hsome hl
                unfold fileOf at d2
                rw [d2] at hfile; simp at hfile; subst hfile
                rw [hble] at d4
                simp only [Prod.mk.injEq] at d4
                exact ⟨d4.1, d4.2⟩
              have h1 : Ref env { s with index := AL.set s.index (keyOf hash) (if r0.olen = 0 then ({ r0 with olen := bl.length } : Rec) else r0) } sp := by
                obtain ⟨e0, he0⟩ := h.idxspec _ r0 hr0
                refine ref_update env s _ sp sp h (keyOf hash) r0 (if r0.olen = 0 then ({ r0 with olen := bl.length } : Rec) else r0) hr0
                  (fun k' => by simp only [AL.get_set]) rfl rfl ⟨rfl, rfl, rfl⟩ rfl rfl rfl rfl rfl
                  (by split <;> rfl) (by split <;> rfl) (by split <;> rfl) (by split <;> rfl) (by split <;> rfl) (by split <;> rfl) (by split <;> rfl)
                  rfl (fun _ _ => rfl) ?_ ⟨e0, he0⟩
                intro e' he' hte
                obtain ⟨h3, h4⟩ := holen e' he' hte
                exact ⟨e', he', hte, rfl, by rw [if_neg h4]; exact h3, by rw [if_neg h4]⟩
              have hkl1 : keyLost ({ s with index := AL.set s.index (keyOf hash) (if r0.olen = 0 then ({ r0 with olen := bl.length } : Rec) else r0) } : State) (keyOf hash)
                  = keyLost s (keyOf hash) := by
                unfold keyLost
                simp only [AL.get_set, ↓reduceIte, hr0]
                split <;> rfl
              have h2 := addToCache_ref env _ sp h1 (keyOf hash) bl (by simp only [AL.get_set]; simp)
                (fun e he hte hkl => (hbl e he hte (hlost (by rw [← hkl1]; exact hkl))).1)
              constructor
              · split <;> exact h2
              · intro e he hte hkl
                obtain ⟨b1, b2⟩ := hbl e he hte (hlost hkl)
                obtain ⟨b3, _⟩ := holen e he hte
                subst b2
                simp only [b1, b3]

theorem blockLength_ref (env : Env) (s : State) (sp : Spec) (h : Ref env s sp) (hash : Bytes) (d : Bool) :
    Ref env (blockLength env s hash d).1 sp ∧
    (∀ e, AL.get sp.m (keyOf hash) = some e → e.tainted = false → keyLost s (keyOf hash) = false →
      (blockLength env s hash d).2 = .len e.raw.length) := by
  unfold blockLength
  simp only
  split
  · rename_i hnone
    refine ⟨h, ?_⟩
    intro e he hte _
    obtain ⟨r, hr, _⟩ := h.ent _ e he hte
    rw [hnone] at hr; cases hr
  · rename_i r0 hr0
    have holen : ∀ e, AL.get sp.m (keyOf hash) = some e → e.tainted = false → r0.olen = e.raw.length ∧ r0.olen ≠ 0 := by
      intro e he hte
      obtain ⟨r, hr, _, hr3, hr4, _⟩ := h.ent _ e he hte
      rw [hr0] at hr; simp only [Option.some.injEq] at hr; subst hr
      exact ⟨hr3, by omega⟩
    split
    · refine ⟨h, ?_⟩
      intro e he hte _
      rw [(holen e he hte).1]
    · rename_i hz
      have hcontra : ∀ e, AL.get sp.m (keyOf hash) = some e → e.tainted = false → False := by
        intro e he hte
        exact hz (holen e he hte).2
      split
      · exact ⟨h, fun e he hte _ => (hcontra e he hte).elim⟩
      · have := (blockGet_ref env s sp h hash).1
        generalize blockGet env s hash = res at this ⊢
        obtain ⟨s', out⟩ := res
        cases out <;> exact ⟨this, fun e he hte _ => (hcontra e he hte).elim⟩

/-! ### one operation, a whole session -/

theorem step_ref (env : Env) (ok : EnvOK env) (s : State) (sp : Spec) (h : Ref env s sp) (op : Op)
    (hno : op.isReopen = false) (hsz : op.sizeOK) :
    Ref env (step env s op).1 (specStep s sp op) ∧ (claimR s sp op).holds (step env s op).2 := by
  have hopn := h.opn
  cases op with
  | reopen o => simp [Op.isReopen] at hno
  | add hash ht tx tr raw =>
    unfold step specStep claimR
    simp only
    by_cases ho : s.isOpen = true
    · simp only [ho, hopn, Bool.not_true, Bool.false_eq_true, ↓reduceIte]
      by_cases hl : raw.length < 80
      · simp only [hl, ↓reduceIte]; exact ⟨h, trivial⟩
      · simp only [hl, ↓reduceIte]
        refine ⟨?_, trivial⟩
        cases hsp : AL.get sp.m (keyOf hash) with
        | none =>
          simp only
          refine blockAdd_ref env ok s sp _ h ho hash ht tx tr raw ⟨by omega, hsz⟩ (hopn.trans ho).symm
            (fun k' hne => by simp only [AL.get_set, if_neg hne]) ?_ ?_ ⟨_, by rw [AL.get_set, if_pos rfl]⟩
          · intro _ e' he'
            simp only [AL.get_set, ↓reduceIte, Option.some.injEq] at he'
            subst he'; exact ⟨rfl, rfl⟩
          · intro e he; rw [hsp] at he; cases he
        | some e0 =>
          simp only
          refine blockAdd_ref env ok s sp _ h ho hash ht tx tr raw ⟨by omega, hsz⟩ (hopn.trans ho).symm
            (fun k' hne => by simp only [AL.get_set, if_neg hne]) ?_ ?_ ⟨_, by rw [AL.get_set, if_pos rfl]⟩
          · intro hn; rw [hsp] at hn; cases hn
          · intro e he e' he'
            rw [hsp] at he; simp only [Option.some.injEq] at he; subst he
            simp only [AL.get_set, ↓reduceIte, Option.some.injEq] at he'
            subst he'; exact ⟨rfl, rfl, rfl⟩
    · simp only [ho, hopn, Bool.not_false, ↓reduceIte]; exact ⟨h, trivial⟩
  | get hash =>
    unfold step specStep claimR claim
    simp only
    by_cases ho : s.isOpen = true
    · simp only [ho, hopn, Bool.not_true, Bool.false_eq_true, ↓reduceIte]
      obtain ⟨g1, g2⟩ := blockGet_ref env s sp h hash
      refine ⟨g1, ?_⟩
      cases hkl : keyLost s (keyOf hash) with
      | true => trivial
      | false =>
        simp only [Bool.false_eq_true, ↓reduceIte]
        cases hsp : AL.get sp.m (keyOf hash) with
        | none => trivial
        | some e =>
          simp only
          cases hte : e.tainted with
          | true => trivial
          | false => exact g2 e hsp hte hkl
    · simp only [ho, hopn, Bool.not_false, ↓reduceIte]
      refine ⟨h, ?_⟩
      split <;> trivial
  | length hash d =>
    unfold step specStep claimR claim
    simp only
    by_cases ho : s.isOpen = true
    · simp only [ho, hopn, Bool.not_true, Bool.false_eq_true, ↓reduceIte]
      obtain ⟨g1, g2⟩ := blockLength_ref env s sp h hash d
      refine ⟨g1, ?_⟩
      cases hkl : keyLost s (keyOf hash) with
      | true => trivial
      | false =>
        simp only [Bool.false_eq_true, ↓reduceIte]
        cases hsp : AL.get sp.m (keyOf hash) with
        | none => trivial
        | some e =>
          simp only
          cases hte : e.tainted with
          | true => trivial
          | false => exact g2 e hsp hte hkl
    · simp only [ho, hopn, Bool.not_false, ↓reduceIte]
      refine ⟨h, ?_⟩
      split <;> trivial
  | trusted hash =>
    unfold step specStep claimR
    simp only
    by_cases ho : s.isOpen = true
    · simp only [ho, hopn, Bool.not_true, Bool.false_eq_true, ↓reduceIte]
      refine ⟨?_, trivial⟩
      cases hsp : AL.get sp.m (keyOf hash) with
      | none =>
        simp only
        refine blockTrusted_ref env s sp sp h hash rfl (fun _ _ => rfl) ?_ (fun e he => ⟨e, he⟩)
        intro e' he'; rw [hsp] at he'; cases he'
      | some e0 =>
        simp only
        refine blockTrusted_ref env s sp _ h hash (hopn.trans ho).symm (fun k' hne => by simp only [AL.get_set, if_neg hne]) ?_
          (fun _ _ => ⟨_, by rw [AL.get_set, if_pos rfl]⟩)
        intro e' he'
        simp only [AL.get_set, ↓reduceIte, Option.some.injEq] at he'
        subst he'; exact ⟨e0, hsp, rfl, rfl, rfl⟩
    · simp only [ho, hopn, Bool.not_false, ↓reduceIte]; exact ⟨h, trivial⟩
  | invalid hash =>
    unfold step specStep claimR
    simp only
    by_cases ho : s.isOpen = true
    · simp only [ho, hopn, Bool.not_true, Bool.false_eq_true, ↓reduceIte]
      refine ⟨?_, trivial⟩
      cases hsp : AL.get sp.m (keyOf hash) with
      | none =>
        simp only
        refine blockInvalid_ref env s sp sp h hash rfl (fun _ _ => rfl) ?_ (fun e he => ⟨e, he⟩)
        intro e' he'; rw [hsp] at he'; cases he'
      | some e0 =>
        simp only
        by_cases hpn : panics s (keyOf hash) = true
        · simp only [hpn, ↓reduceIte]
          rw [blockInvalid_panics s hash hpn]; exact h
        simp only [hpn, Bool.false_eq_true, ↓reduceIte]
        have htaint : Ref env (blockInvalid s hash).1 { isOpen := true, m := AL.set sp.m (keyOf hash) { e0 with tainted := true } } := by
          refine blockInvalid_ref env s sp _ h hash (hopn.trans ho).symm (fun k' hne => by simp only [AL.get_set, if_neg hne]) ?_
            (fun _ _ => ⟨_, by rw [AL.get_set, if_pos rfl]⟩)
          intro e' he'
          simp only [AL.get_set, ↓reduceIte, Option.some.injEq] at he'
          subst he'; rfl
        by_cases hf : forgets s (keyOf hash) = true
        · simp only [hf, ↓reduceIte]
          exact ref_spec_drop env _ _ _ htaint (keyOf hash) rfl
            (fun k' hne => by simp only [AL.get_set, AL.get_del, if_neg hne]) (by simp only [AL.get_del, ↓reduceIte])
            (blockInvalid_forgets s hash hf)
        · simp only [hf, Bool.false_eq_true, ↓reduceIte]
          exact htaint
    · simp only [ho, hopn, Bool.not_false, ↓reduceIte]; exact ⟨h, trivial⟩
  | idle =>
    unfold step specStep claimR
    simp only
    by_cases ho : s.isOpen = true
    · simp only [ho, hopn, Bool.not_true, Bool.false_eq_true, ↓reduceIte]
      exact ⟨flush_ref env ok s sp h ho, trivial⟩
    · simp only [ho, hopn, Bool.not_false, ↓reduceIte]; exact ⟨h, trivial⟩
  | close =>
    unfold step specStep claimR
    simp only
    by_cases ho : s.isOpen = true
    · simp only [ho, hopn, Bool.not_true, Bool.false_eq_true, ↓reduceIte]
      have f := flush_ref env ok s sp h ho
      exact ⟨⟨rfl, (fun hc => by cases hc), f.idxspec, f.pos, f.cacheidx, f.cachedata, f.qseq, f.qdata, f.ent⟩, trivial⟩
    · simp only [ho, hopn, Bool.not_false, ↓reduceIte]; exact ⟨h, trivial⟩

theorem run_ref (env : Env) (ok : EnvOK env) : ∀ (ops : List Op) (s : State) (sp : Spec), Ref env s sp →
    (∀ op ∈ ops, op.isReopen = false ∧ op.sizeOK) →
    AllHold (specRunR env s sp ops) (run env s ops).2 := by
  intro ops
  induction ops with
  | nil => intro s sp _ _; exact trivial
  | cons op ops ih =>
    intro s sp h hno
    obtain ⟨h1, h2⟩ := step_ref env ok s sp h op (hno op (by simp)).1 (hno op (by simp)).2
    unfold run specRunR
    exact ⟨h2, ih _ _ h1 (fun op' hop' => hno op' (by simp [hop']))⟩

/-- a fresh store: `NewBlockDBExt` + `LoadBlockIndex` on an empty directory (any options) -/
theorem reopen_fresh_ref (env : Env) (o : Opts) :
    Ref env (reopen env {} o).1 { isOpen := true, m := [] } := by
  have e : (reopen env {} o).1.index = [] ∧ (reopen env {} o).1.cache = [] ∧ (reopen env {} o).1.queue = []
      ∧ (reopen env {} o).1.isOpen = true ∧ (reopen env {} o).1.maxdatfileidx = 0 := by
    unfold reopen
    simp [loadLoop]
  obtain ⟨e1, e2, e3, e4, e5⟩ := e
  have e6 : ∃ f, AL.get (reopen env {} o).1.fs.dats 0 = some f := by
    rw [reopen_fs]
    have hm : (loadLoop env (({} : FS).idx.length / RECSIZE + 1) ({} : FS).idx {}).maxdatfileidx = 0 := by
      simp [loadLoop]
    rw [hm, (loadCleanup_keeps _ 0 _).2]
    exact (createCur_keeps {} 0).2
  refine ⟨e4.symm, fun _ => by rw [e5]; exact e6, ?_, ?_, ?_, ?_, ?_, ?_, ?_⟩
  · intro k r hr; rw [e1] at hr; simp [AL.get] at hr
  · intro k r hr; rw [e1] at hr; simp [AL.get] at hr
  · intro k c hc; rw [e2] at hc; simp [AL.get] at hc
  · intro k c e hc; rw [e2] at hc; simp [AL.get] at hc
  · intro b hb; rw [e3] at hb; simp at hb
  · intro b hb; rw [e3] at hb; simp at hb
  · intro k e he; simp [AL.get] at he

end GocoinV.BlockDB
