/-
  Proofs.C13Inst —
  (1) the DER assembly inside `Tx.Sign` / `Tx.SignWitness` (Model/WalletDer.lean) equals C03's `Signature.Bytes()` on the
      same (r, s), followed by the hash-type byte; hence on `Signature.Sign`'s output it is the `ecdsaDer … ++ [1]` that
      `signatures_verify` is stated for, and the scriptSig / witness the wallet model assembles are the ones of `Tx.Sign` /
      `Tx.SignWitness`;
  (2) `walletOracles`: THE oracle instance built from C02's and C03's model functions (digest requests = C02's functions on
      the signed transaction with the empty cache, `ecdsaVerify` / `schnorrVerify` = C03's models, HASH160 = the wallet's):
      the four hypotheses of `signatures_verify` that "name which function the oracle is" hold for it by construction.
-/
import GocoinV.Proofs.C13Final
import GocoinV.Proofs.C13Digest
import GocoinV.Model.WalletDer
namespace GocoinV.WalletTx
open GocoinV.WalletSpec GocoinV.ScriptSpec GocoinV.Proofs.C13S GocoinV.Proofs.C13L GocoinV.Model GocoinV.SigHash
open GocoinV.Script (Oracles TxCtx SigVersion)

/-! ### (1) Tx.Sign's own DER assembly = Signature.Bytes() -/

theorem txSignInt_eq_derInt (v : Nat) : txSignInt v = Sig.derInt v := by
  unfold txSignInt Sig.derInt
  cases h : Sig.natBytes v with
  | nil => simp
  | cons b bs => simp

/-- the blob `busig` that `Tx.Sign` / `Tx.SignWitness` build from (r, s) is `Signature.Bytes()` of (r, s) followed by the
    hash-type byte — including the panic case (r = 0 or s = 0: `rb[0]` on an empty slice in all three functions) -/
theorem txSignBusig_eq_sigBytes (r s : Nat) (ht : UInt8) :
    txSignBusig r s ht = (Sig.sigBytes r s).map (· ++ [ht]) := by
  unfold txSignBusig Sig.sigBytes
  rw [txSignInt_eq_derInt, txSignInt_eq_derInt]
  cases Sig.derInt r <;> cases Sig.derInt s <;> simp

/-- on the output of a successful `Signature.Sign` (R ≠ 0) the wallet's own assembly yields exactly the signer of
    `signatures_verify`: `ecdsaDer d m k` (C03's Sign + Bytes) followed by SIGHASH_ALL -/
theorem txSign_is_ecdsaDer (d k : Nat) (m : Bytes) (hd0 : 0 < d) (hdn : d < Secp.n) (hok : SignOk d m k) :
    ∃ r s recid, Sig.sign d (beVal m) k = some (r, s, recid) ∧
      txSignBusig r s 1 = some (ecdsaDer d m k ++ [1]) := by
  obtain ⟨r, s, recid, hsign, hr⟩ := hok
  obtain ⟨der, hder, _, _⟩ := Proofs.C03.own_signature_accepted d k r s recid m hd0 hdn hsign hr
  refine ⟨r, s, recid, hsign, ?_⟩
  rw [txSignBusig_eq_sigBytes, hder]
  simp [ecdsaDer, hsign, hder]

/-- `Tx.Sign`'s scriptSig and `Tx.SignWitness`'s witness stack are what the wallet model's `signInput` assembles -/
theorem txSign_assembly (busig pub : Bytes) :
    txSignScriptSig busig pub = push1 busig ++ push1 pub ∧ txSignWitness busig pub = [busig, pub] := by
  simp [txSignScriptSig, txSignWitness, push1]

/-! ### (2) the oracle instance made of C02's and C03's model functions -/

/-- script-verification oracles for input `i` of the (signed) transaction `tv`: digests = C02's model functions on `tv`
    (empty cache), signature checks = C03's models, HASH160 = `h160`; the remaining fields (SHA-1, RIPEMD-160, …, the
    taproot tweak check — not used by the four templates) are taken from `base` -/
def walletOracles (base : Oracles) (sha h160 : Bytes → Bytes) (tagged : GocoinV.C03.Hash) (tv : Tx) (spent : List TxOut)
    (i amount : Nat) : Oracles :=
  { base with
    hash160 := h160
    sigHashLegacy := fun sc ht => (signatureHash sha (toWire tv) sc i ht).digest?
    sigHashWitV0 := fun sc ht => (witnessSigHash sha (toWire tv) {} sc amount i ht).1.digest?
    sigHashTap := fun ah tl cp ht scr =>
      (taprootSigHash true sha (toWire tv) (spent.map wireOut) {}
        { annexHash := ah, tapleafHash := tl, codesepPos := cp } i ht scr).1.digest?
    ecdsaVerify := fun pk sg dg => some (Sig.ecdsaVerify true pk sg dg)
    schnorrVerify := fun pk sg dg => some (Sig.schnorrVerify tagged pk sg dg) }

theorem walletOracles_digests (base : Oracles) (sha h160 : Bytes → Bytes) (tagged : GocoinV.C03.Hash) (tv : Tx)
    (spent : List TxOut) (i amount : Nat) :
    DigestsAreC02 (walletOracles base sha h160 tagged tv spent i amount) sha tv spent i amount :=
  ⟨fun _ _ => rfl, fun _ _ => ⟨{}, Cache.OK_empty _ _ _, rfl⟩, ⟨{}, Cache.OK_empty _ _ _, rfl⟩⟩

end GocoinV.WalletTx

/-! ### (3) a concrete instance of ALL hypotheses of `signatures_verify`, one input of each of the four owned types
    (used by the `example`s at the end of Props/C13.lean).
    REAL in it: the secp256k1 arithmetic, the key (secret 1, compressed public key 02‖Gx), C03's `Signature.Sign` /
    `Bytes()` / `SchnorrSign` / verify models, C02's three digest functions on the transaction, the script templates and the
    whole reference interpreter. TOY, and only where the theorem is parametric: `sha` (a polynomial hash instead of
    SHA-256 — Base/Sha256.lean is a `while` loop the kernel cannot unfold), HASH160 (its first 20 bytes), the BIP340 tagged
    hash (constant 2) and the nonce source (constant 2) — the theorem holds for every such function. -/
namespace GocoinV.WalletTx.Inst
open GocoinV GocoinV.WalletTx GocoinV.WalletSpec GocoinV.Model GocoinV.Proofs.C13L GocoinV.Proofs.C13S

def toySha : Bytes → Bytes := fun b =>
  beBytes 32 (b.foldl (fun a x => (a * 257 + x.toNat + 1) % 0xffffffffffffffffffffffffffffffffffffffffffffffffffffffffffffff43) 7)
def Ht : Addr.Hashes := { sha2sum := fun b => toySha (toySha b), hash160 := fun b => (toySha b).take 20 }
def K0 : C03Signer := { secs := [1], nonce := fun _ _ => 2, aux := fun _ _ => [], tagged := fun _ => beBytes 32 2 }
def cI : Cfg :=
  { testnet := false, bech32 := false, fee := 1000, subfee := false, useAll := false, seq := 4294967293,
    lockTime := 0, version := 2, change := none, msg := [] }
def pubI : Bytes := Secp.ser33 (Secp.mul 1 Secp.G)
def krI : KeyRec := mkKey Ht false pubI
def inpI : TxIn := ⟨List.replicate 32 9, 1, [], 4294967293⟩
def tI : Tx := { version := 2, ins := [inpI], outs := [⟨50000, p2pkhScript (List.replicate 20 5)⟩], wit := none, lockTime := 0 }
def uoPkh : TxOut := { value := 60000, script := p2pkhScript krI.h160 }
def uoWpkh : TxOut := { value := 60000, script := p2wpkhScript krI.h160 }
def uoSh : TxOut := { value := 60000, script := p2shScript krI.segH160 }
def uoTr : TxOut := { value := 60000, script := p2trScript ((krI.pub.drop 1).take 32) }
abbrev WC : Crypto := c02Crypto toySha Ht.hash160 (Sig.ecdsaVerify true) (Sig.schnorrVerify K0.tagged)
abbrev ksI : List KeyRec := keyTable Ht cI.bech32 K0.pubs

theorem keyI : ksI[0]? = some krI := rfl

theorem singleKey {P : Nat → KeyRec → Prop} (h : P 0 krI) : ∀ j kr, ksI[j]? = some kr → P j kr := by
  intro j kr hk
  cases j with
  | zero => rw [keyI] at hk; cases hk; exact h
  | succ j => simp [ksI, keyTable, K0, C03Signer.pubs] at hk

theorem signOk_of_eval (d : Nat) (m : Bytes) (k : Nat)
    (h : (Sig.sign d (beVal m) k).map (fun t => decide (t.1 ≠ 0)) = some true) : SignOk d m k := by
  unfold SignOk
  cases hs : Sig.sign d (beVal m) k with
  | none => rw [hs] at h; simp at h
  | some t => obtain ⟨r, s, c⟩ := t; rw [hs] at h; exact ⟨r, s, c, rfl, by simpa using h⟩

theorem hashLenI : ∀ b, (Ht.hash160 b).length = 20 := by intro b; simp [Ht, toySha, beBytes]
theorem keysI : ∀ d ∈ K0.secs, 0 < d ∧ d < Secp.n := by
  intro d hd; simp [K0] at hd; subst hd; exact ⟨by decide, by decide⟩
theorem nonzeroI : ∀ (k : Nat) (kr : KeyRec), ksI[k]? = some kr →
    ScriptSpec.castToBool kr.h160 = true ∧ ScriptSpec.castToBool ((kr.pub.drop 1).take 32) = true :=
  singleKey (P := fun _ kr => ScriptSpec.castToBool kr.h160 = true ∧ ScriptSpec.castToBool ((kr.pub.drop 1).take 32) = true)
    (by decide +kernel)

theorem callsPkh : ∀ j kr, ksI[j]? = some kr → CallsOk WC K0 (skeleton tI) [uoPkh] 0 uoPkh j kr.h160 :=
  singleKey (P := fun j kr => CallsOk WC K0 (skeleton tI) [uoPkh] 0 uoPkh j kr.h160)
    ⟨fun _ => signOk_of_eval _ _ _ (by decide +kernel),
     fun h => absurd h (by decide +kernel), fun h => absurd h (by decide +kernel)⟩
theorem clashPkh : ∀ j kr, ksI[j]? = some kr →
    K0.signer.ecdsa j (WC.legacyDigest (skeleton tI) 0 uoPkh.script 1) ++ [1] ≠ kr.h160 :=
  singleKey (P := fun j kr => K0.signer.ecdsa j (WC.legacyDigest (skeleton tI) 0 uoPkh.script 1) ++ [1] ≠ kr.h160)
    (by decide +kernel)

theorem callsWpkh : ∀ j kr, ksI[j]? = some kr → CallsOk WC K0 (skeleton tI) [uoWpkh] 0 uoWpkh j kr.h160 :=
  singleKey (P := fun j kr => CallsOk WC K0 (skeleton tI) [uoWpkh] 0 uoWpkh j kr.h160)
    ⟨fun h => absurd h (by decide +kernel), fun _ => signOk_of_eval _ _ _ (by decide +kernel),
     fun h => absurd h (by decide +kernel)⟩
theorem clashWpkh : ∀ j kr, ksI[j]? = some kr →
    K0.signer.ecdsa j (WC.legacyDigest (skeleton tI) 0 uoWpkh.script 1) ++ [1] ≠ kr.h160 :=
  singleKey (P := fun j kr => K0.signer.ecdsa j (WC.legacyDigest (skeleton tI) 0 uoWpkh.script 1) ++ [1] ≠ kr.h160)
    (by decide +kernel)

theorem callsSh : ∀ j kr, ksI[j]? = some kr → CallsOk WC K0 (skeleton tI) [uoSh] 0 uoSh j kr.h160 :=
  singleKey (P := fun j kr => CallsOk WC K0 (skeleton tI) [uoSh] 0 uoSh j kr.h160)
    ⟨fun h => absurd h (by decide +kernel), fun _ => signOk_of_eval _ _ _ (by decide +kernel),
     fun h => absurd h (by decide +kernel)⟩
theorem clashSh : ∀ j kr, ksI[j]? = some kr →
    K0.signer.ecdsa j (WC.legacyDigest (skeleton tI) 0 uoSh.script 1) ++ [1] ≠ kr.h160 :=
  singleKey (P := fun j kr => K0.signer.ecdsa j (WC.legacyDigest (skeleton tI) 0 uoSh.script 1) ++ [1] ≠ kr.h160)
    (by decide +kernel)

theorem callsTr : ∀ j kr, ksI[j]? = some kr → CallsOk WC K0 (skeleton tI) [uoTr] 0 uoTr j kr.h160 :=
  singleKey (P := fun j kr => CallsOk WC K0 (skeleton tI) [uoTr] 0 uoTr j kr.h160)
    ⟨fun h => absurd h (by decide +kernel), fun h => absurd h (by decide +kernel), fun _ => by decide +kernel⟩
theorem clashTr : ∀ j kr, ksI[j]? = some kr →
    K0.signer.ecdsa j (WC.legacyDigest (skeleton tI) 0 uoTr.script 1) ++ [1] ≠ kr.h160 :=
  singleKey (P := fun j kr => K0.signer.ecdsa j (WC.legacyDigest (skeleton tI) 0 uoTr.script 1) ++ [1] ≠ kr.h160)
    (by decide +kernel)

theorem addrPkh : (Addr.fromPkScript Ht uoPkh.script cI.testnet).isSome := by decide +kernel
theorem addrWpkh : (Addr.fromPkScript Ht uoWpkh.script cI.testnet).isSome := by decide +kernel
theorem addrSh : (Addr.fromPkScript Ht uoSh.script cI.testnet).isSome := by decide +kernel
theorem addrTr : (Addr.fromPkScript Ht uoTr.script cI.testnet).isSome := by decide +kernel

end GocoinV.WalletTx.Inst
