/-
  Proofs.C19Log — the index as `NewDBidx` would rebuild it from the directory (`diskIndex`), as a pure
  function of qdbidx.0 / qdbidx.1 / qdbidx.log, and association-list lemmas for replaying log entries.
-/
import GocoinV.Proofs.C19Reopen
namespace GocoinV.Proofs.C19
open GocoinV GocoinV.Qdb GocoinV.QdbSpec

variable {eg : Bool}

/-! ### association lists with distinct keys -/

def Keys {α : Type} (l : List (Key × α)) : List Key := l.map (·.1)

theorem ilookup_iset {α : Type} (k j : Key) (r : α) (l : List (Key × α)) :
    ilookup k (iset j r l) = if j = k then some r else ilookup k l := by
  induction l with
  | nil => simp [iset, ilookup]
  | cons hd t ih =>
    obtain ⟨x, q⟩ := hd
    by_cases hx : x = j
    · subst hx
      by_cases hk : x = k <;> simp [iset, ilookup, hk]
    · by_cases hk : x = k
      · subst hk
        have hx' : ¬ j = x := fun e => hx e.symm
        simp [iset, ilookup, hx, hx']
      · simp only [iset, hx, ↓reduceIte, ilookup, hk, ih]

theorem keys_iset {α : Type} (j : Key) (r : α) (l : List (Key × α)) :
    Keys (iset j r l) = if j ∈ Keys l then Keys l else Keys l ++ [j] := by
  induction l with
  | nil => simp [iset, Keys]
  | cons hd t ih =>
    obtain ⟨x, q⟩ := hd
    by_cases hx : x = j
    · subst hx; simp [iset, Keys]
    · have hx' : ¬ j = x := fun e => hx e.symm
      simp only [iset, hx, ↓reduceIte, Keys, List.map_cons, List.mem_cons, hx', false_or] at ih ⊢
      rw [ih]
      split <;> simp [*]

theorem nodup_iset {α : Type} (j : Key) (r : α) (l : List (Key × α)) (h : (Keys l).Nodup) :
    (Keys (iset j r l)).Nodup := by
  rw [keys_iset]
  split
  · exact h
  · rename_i hj
    exact List.nodup_append.mpr ⟨h, by simp, by intro a ha b hb; simp at hb; subst hb; exact fun e => hj (e ▸ ha)⟩

theorem keys_ierase_sub {α : Type} (j : Key) (l : List (Key × α)) : ∀ x ∈ Keys (ierase j l), x ∈ Keys l := by
  intro x hx
  obtain ⟨kr, hkr, rfl⟩ := List.mem_map.mp hx
  exact List.mem_map.mpr ⟨kr, mem_ierase j l kr hkr, rfl⟩

theorem nodup_ierase {α : Type} (j : Key) (l : List (Key × α)) (h : (Keys l).Nodup) : (Keys (ierase j l)).Nodup := by
  induction l with
  | nil => exact h
  | cons hd t ih =>
    obtain ⟨x, q⟩ := hd
    simp only [Keys, List.map_cons, List.nodup_cons] at h
    by_cases hx : x = j
    · simp only [ierase, hx, ↓reduceIte]; exact h.2
    · simp only [ierase, hx, ↓reduceIte, Keys, List.map_cons, List.nodup_cons]
      exact ⟨fun hm => h.1 (keys_ierase_sub j t x hm), ih h.2⟩

theorem ilookup_none_of_not_mem {α : Type} (k : Key) (l : List (Key × α)) (h : k ∉ Keys l) : ilookup k l = none := by
  induction l with
  | nil => rfl
  | cons hd t ih =>
    obtain ⟨x, q⟩ := hd
    simp only [Keys, List.map_cons, List.mem_cons, not_or] at h
    have : ¬ x = k := fun e => h.1 e.symm
    simp only [ilookup, this, ↓reduceIte]
    exact ih h.2

theorem ilookup_ierase {α : Type} (k j : Key) (l : List (Key × α)) (h : (Keys l).Nodup) :
    ilookup k (ierase j l) = if j = k then none else ilookup k l := by
  induction l with
  | nil => simp [ierase, ilookup]
  | cons hd t ih =>
    obtain ⟨x, q⟩ := hd
    simp only [Keys, List.map_cons, List.nodup_cons] at h
    by_cases hx : x = j
    · subst hx
      simp only [ierase, ↓reduceIte, ilookup]
      by_cases hk : x = k
      · subst hk
        simp only [↓reduceIte]
        exact ilookup_none_of_not_mem x t h.1
      · simp [hk]
    · simp only [ierase, hx, ↓reduceIte, ilookup]
      by_cases hk : x = k
      · subst hk
        have hx' : ¬ j = x := fun e => hx e.symm
        simp [hx']
      · simp only [hk, ↓reduceIte]
        exact ih h.2

/-! ### the index that NewDBidx rebuilds, as a function of the three index files -/

def applyEntryL (l : List (Key × Rec)) : LogEntry → List (Key × Rec)
  | .put k r => iset k r l
  | .del k => ierase k l

def applyEntriesL (l : List (Key × Rec)) (es : List LogEntry) : List (Key × Rec) := es.foldl applyEntryL l

def isetAll (l : List (Key × Rec)) (recs : List (Key × Rec)) : List (Key × Rec) :=
  recs.foldl (fun l kr => iset kr.1 kr.2 l) l

def snapVer (fs : FS) : Nat := match pickIdx fs with | none => 0 | some (_, s, _) => s

def snapBase (fs : FS) : List (Key × Rec) :=
  match pickIdx fs with | none => [] | some (_, _, d) => isetAll [] (snapshotRecs d)

def logEntries (fs : FS) : List LogEntry :=
  match fs.log with
  | none => []
  | some f => match logBody f (snapVer fs) with
    | none => []
    | some body => parseLog body.length body

/-- the index `NewDBidx` builds from a directory -/
def diskIndex (fs : FS) : List (Key × Rec) := applyEntriesL (snapBase fs) (logEntries fs)

theorem memput_more (db : DB) (k : Key) (r : Rec) :
    (memput db k r).verSeq = db.verSeq ∧ (memput db k r).datIdx = db.datIdx := by
  unfold memput
  cases ilookup k db.index <;> dsimp only <;> (repeat' split) <;> exact ⟨rfl, rfl⟩

theorem memdel_more (db : DB) (k : Key) :
    (memdel db k).verSeq = db.verSeq ∧ (memdel db k).fs = db.fs := by
  unfold memdel
  cases ilookup k db.index <;> dsimp only <;> (repeat' split) <;> exact ⟨rfl, rfl⟩

theorem memputAll_isetAll (recs : List (Key × Rec)) (db : DB) :
    (memputAll db recs).index = isetAll db.index recs ∧ (memputAll db recs).verSeq = db.verSeq := by
  unfold memputAll isetAll
  induction recs generalizing db with
  | nil => exact ⟨rfl, rfl⟩
  | cons kr t ih =>
    simp only [List.foldl_cons]
    obtain ⟨a, b⟩ := ih (memput db kr.1 kr.2)
    rw [a, b, (memput_spec db kr.1 kr.2).1, (memput_more db kr.1 kr.2).1]
    exact ⟨rfl, rfl⟩

theorem applyLog_index (es : List LogEntry) (db : DB) :
    (applyLog db es).index = applyEntriesL db.index es := by
  unfold applyLog applyEntriesL
  induction es generalizing db with
  | nil => rfl
  | cons e t ih =>
    simp only [List.foldl_cons]
    rw [ih]
    cases e with
    | put k r => simp only [applyEntry, applyEntryL, (memput_spec db k r).1]
    | del k => simp only [applyEntry, applyEntryL, (memdel_spec db k).1]

theorem openIndex_index (F : FS) (vol : Bool) (opts : Opts) :
    (openIndex { fs := F, volatile := vol, opts := opts, eager := eg }).index = diskIndex F := by
  unfold openIndex
  dsimp only
  rw [(frame_cleanupold _ _).index]
  unfold diskIndex snapBase logEntries snapVer loaddat
  cases hp : pickIdx F with
  | none =>
    simp only [show ({ fs := F, volatile := vol, opts := opts, eager := eg } : DB).fs = F from rfl, hp]
    unfold loadlog
    cases hl : F.log with
    | none => simp [hl, applyEntriesL]
    | some f =>
      simp only [hl]
      cases hb : logBody f 0 with
      | none => simp [show ({ fs := F, volatile := vol, opts := opts, eager := eg } : DB).verSeq = 0 from rfl, hb, applyEntriesL, emit]
      | some body =>
        simp only [show ({ fs := F, volatile := vol, opts := opts, eager := eg } : DB).verSeq = 0 from rfl, hb]
        rw [applyLog_index]
  | some t =>
    obtain ⟨i, sv, d⟩ := t
    simp only [show ({ fs := F, volatile := vol, opts := opts, eager := eg } : DB).fs = F from rfl, hp]
    let dbE : DB := { emit ({ fs := F, volatile := vol, opts := opts, eager := eg } : DB) "qdb.loadneweridx:removed" (.removeIdx (1 - i)) with
      datIdx := i, verSeq := sv }
    obtain ⟨hi, hv⟩ := memputAll_isetAll (snapshotRecs d) dbE
    have hfs := (memputAll_fs (snapshotRecs d) dbE).1
    have hlog : (memputAll dbE (snapshotRecs d)).fs.log = F.log := by
      rw [hfs]
      show (F.apply (.removeIdx (1 - i))).log = F.log
      unfold FS.apply
      by_cases h : 1 - i = 0 <;> simp [h]
    unfold loadlog
    rw [hlog]
    cases hl : F.log with
    | none => simp only [applyEntriesL, List.foldl_nil]; exact hi
    | some f =>
      simp only []
      rw [hv]
      cases hb : logBody f sv with
      | none => simp only [applyEntriesL, List.foldl_nil]; exact hi
      | some body =>
        simp only []
        rw [applyLog_index, hi]
        rfl

/-! ### the log as a list of entries -/

/-- qdbidx.log is absent (no entries) or holds the header `v` followed by the entries `E` -/
def LogState (fs : FS) (v : Nat) (E : List LogEntry) : Prop :=
  (fs.log = none ∧ E = []) ∨ fs.log = some (le32 v ++ encLog E)

theorem logBody_ok (v : Nat) (hv : v < 2^32) (X : Bytes) : logBody (le32 v ++ X) v = some X := by
  unfold logBody
  have h1 : ¬ (le32 v ++ X).length < 4 := by simp
  have h2 : (le32 v ++ X).take 4 = le32 v := List.take_left' (by simp)
  have h3 : (le32 v ++ X).drop 4 = X := List.drop_left' (by simp)
  simp [h1, h2, h3, leVal_le32 v hv]

theorem logEntries_of_state (fs : FS) (v : Nat) (E : List LogEntry) (hs : LogState fs v E) (hver : snapVer fs = v)
    (hv : v < 2^32) (hE : ∀ e ∈ E, EntryFits e) : logEntries fs = E.map stripE := by
  unfold logEntries
  rcases hs with ⟨h1, h2⟩ | h1
  · simp [h1, h2]
  · rw [h1, hver]
    simp only [logBody_ok v hv]
    exact parseLog_encLog E hE _ (encLog_length_ge E)

theorem encLog_append (a b : List LogEntry) : encLog (a ++ b) = encLog a ++ encLog b := by
  simp [encLog]

theorem applyEntriesL_append (l : List (Key × Rec)) (a b : List LogEntry) :
    applyEntriesL l (a ++ b) = applyEntriesL (applyEntriesL l a) b := by
  simp [applyEntriesL]

/-- appending entries to the log (or creating it with them) replays them on top of the old disk index -/
theorem diskIndex_log_append (fs fs' : FS) (v : Nat) (E E2 : List LogEntry)
    (hs : LogState fs v E) (hver : snapVer fs = v) (hv : v < 2^32)
    (hE : ∀ e ∈ E, EntryFits e) (hE2 : ∀ e ∈ E2, EntryFits e)
    (h0 : fs'.idx0 = fs.idx0) (h1 : fs'.idx1 = fs.idx1) (hl : fs'.log = some (le32 v ++ encLog (E ++ E2))) :
    diskIndex fs' = applyEntriesL (diskIndex fs) (E2.map stripE) ∧ snapVer fs' = v := by
  have hp : pickIdx fs' = pickIdx fs := by unfold pickIdx; rw [h0, h1]
  have hver' : snapVer fs' = v := by unfold snapVer at hver ⊢; rw [hp]; exact hver
  have hb : snapBase fs' = snapBase fs := by unfold snapBase; rw [hp]
  have hEE : ∀ e ∈ E ++ E2, EntryFits e := by
    intro e he
    rcases List.mem_append.mp he with h | h
    · exact hE e h
    · exact hE2 e h
  have hle' := logEntries_of_state fs' v (E ++ E2) (Or.inr hl) hver' hv hEE
  have hle := logEntries_of_state fs v E hs hver hv hE
  unfold diskIndex
  rw [hle', hle, hb, List.map_append, applyEntriesL_append]
  exact ⟨rfl, hver'⟩

end GocoinV.Proofs.C19
