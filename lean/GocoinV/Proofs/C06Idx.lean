/-
  Proofs.C06Idx — the code looks blocks up through the 8-byte `BlockIndex` key and then compares the whole hash
  (`deliverIdx`, what the oracle runs); the theorems are about `deliver`, which looks blocks up by their whole id.
  The two agree whenever no node of the tree shares the 8-byte key of the delivered block's id or of its
  previous-block field without being that block (`KeysOK`: excluded are two DIFFERENT blocks with the same first 8 hash
  bytes — about 2^64 hash evaluations on top of the proof of work; the previous-block FIELD of a header, by contrast,
  is free data, and for it nothing is assumed: `deliverIdx_prefix_only_parent`).
-/
import GocoinV.Model.ChainTree
namespace GocoinV.ChainTree
open GocoinV.UtxoOps

/-- no node of the tree has the 8-byte key of `id` without having the id `id` -/
def KeyOK (c : Chain) (id : Nat) : Prop := ∀ n ∈ c.nodes, bidx n.id = bidx id → n.id = id

theorem find_congr_mem {α} (l : List α) (p q : α → Bool) (h : ∀ x ∈ l, p x = q x) : l.find? p = l.find? q := by
  induction l with
  | nil => rfl
  | cons a r ih =>
    simp only [List.find?_cons, h a List.mem_cons_self]
    rw [ih (fun x hx => h x (List.mem_cons_of_mem _ hx))]

theorem lookupIdx_eq_getNode {c : Chain} {id : Nat} (h : KeyOK c id) : lookupIdx c id = getNode c id := by
  unfold lookupIdx getNode
  apply find_congr_mem
  intro n hn
  show (bidx n.id == bidx id) = (n.id == id)
  by_cases e : n.id = id
  · rw [e]; simp
  · have : bidx n.id ≠ bidx id := fun hk => e (h n hn hk)
    have e1 : (bidx n.id == bidx id) = false := by simpa using this
    have e2 : (n.id == id) = false := by simpa using e
    rw [e1, e2]

theorem getNode_id' {c : Chain} {x : Nat} {n : Node} (h : getNode c x = some n) : n.id = x := by
  unfold getNode at h
  have := List.find?_some h
  simpa using this

theorem parentIdx_eq_getNode {c : Chain} {id : Nat} (h : KeyOK c id) : parentIdx c id = getNode c id := by
  unfold parentIdx
  rw [lookupIdx_eq_getNode h]
  cases hg : getNode c id with
  | none => rfl
  | some n => simp [Option.filter, getNode_id' hg]

/-- **the code's look-ups (8-byte key + whole-hash comparison) are look-ups by whole hash** as long as no other block
    of the tree shares the 8-byte key of the delivered block or of the block it names as parent -/
theorem deliverIdx_eq_deliver (c : Chain) (b : Block) (h1 : KeyOK c b.id) (h2 : KeyOK c b.parent) :
    deliverIdx c b = deliver c b := by
  unfold deliverIdx deliver
  rw [lookupIdx_eq_getNode h1, parentIdx_eq_getNode h2]
  cases hg : getNode c b.id with
  | some n => simp [getNode_id' hg]
  | none => simp

/-- **a previous-block field that shares only its 8-byte key with a known block is an unknown parent** — no
    assumption on keys: whatever entry sits under the key of `b.parent`, if its whole id is not `b.parent` the block
    is refused with `later` and the state is untouched (before fix 533896f3 the block was linked under that entry). -/
theorem deliverIdx_prefix_only_parent (c : Chain) (b : Block) (p : Node) (hnew : lookupIdx c b.id = none)
    (hp : lookupIdx c b.parent = some p) (hne : p.id ≠ b.parent) : deliverIdx c b = (c, Outcome.later) := by
  unfold deliverIdx parentIdx
  have : (p.id == b.parent) = false := by simpa using hne
  simp [hnew, hp, Option.filter, this]

end GocoinV.ChainTree
