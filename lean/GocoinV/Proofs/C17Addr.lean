/-
  Proofs.C17Addr — helper lemmas for GetAllUnspent on ANY address value (Model.BalancesAddr).
-/
import GocoinV.Proofs.C17
import GocoinV.Model.BalancesAddr
namespace GocoinV.Proofs.C17
open GocoinV GocoinV.Model.Balances GocoinV.Spec.Balances

/-- whenever GetAllUnspent's branches pick a sub-index and payload, the address's OutScript is exactly the standard
    script of that sub-index with that payload, and the payload has the sub-index's length -/
theorem addrKey_spec (tn : Bool) (q : QAddr) (hw : q.WF) (a : Addr) (h : addrKey tn q = some a) :
    q.outScript = some a.script ∧ a.idx < 5 ∧ a.payload.length = (if a.idx < 3 then 20 else 32) := by
  cases q with
  | segwit v p =>
    simp only [addrKey] at h
    split at h
    · rename_i hc
      injection h with h; subst h
      simp [QAddr.outScript, Addr.script, hc.1, hc.2]
    split at h
    · cases h
    rename_i h0
    have hv : v = 0 := by omega
    split at h
    · rename_i hl
      injection h with h; subst h
      simp [QAddr.outScript, Addr.script, hv, hl]
    split at h
    · rename_i hl
      injection h with h; subst h
      simp [QAddr.outScript, Addr.script, hv, hl]
    · cases h
  | base58 v hh =>
    have hl : hh.length = 20 := hw
    simp only [addrKey] at h
    split at h
    · rename_i hc
      injection h with h; subst h
      cases tn <;> simp [verPubkey] at hc <;> simp [QAddr.outScript, Addr.script, hc, hl]
    split at h
    · rename_i hc
      injection h with h; subst h
      cases tn <;> simp [verScript] at hc <;> simp [QAddr.outScript, Addr.script, hc, hl]
    · cases h

theorem getAllQ_some {H : Bytes → Nat} {tn : Bool} {q : QAddr} {a : Addr} (h : addrKey tn q = some a) (s : State) :
    getAllUnspentQ H tn s q = getAllUnspent H s a ∧ totalQ H tn s q = total H s a := by
  simp [getAllUnspentQ, totalQ, h]

theorem getAllQ_none {H : Bytes → Nat} {tn : Bool} {q : QAddr} (h : addrKey tn q = none) (s : State) :
    getAllUnspentQ H tn s q = [] ∧ totalQ H tn s q = 0 := by
  simp [getAllUnspentQ, totalQ, h]

/-- every standard address is accepted by GetAllUnspent's branches, with its own sub-index and payload -/
theorem addrKey_toQ (tn : Bool) (a : Addr) (hv : a.idx < 5) (hl : a.payload.length = if a.idx < 3 then 20 else 32) :
    addrKey tn (a.toQ tn) = some a ∧ (a.toQ tn).WF := by
  obtain ⟨idx, p⟩ := a
  simp only at hv hl
  have : idx = 0 ∨ idx = 1 ∨ idx = 2 ∨ idx = 3 ∨ idx = 4 := by omega
  rcases this with h | h | h | h | h <;> subst h <;> simp at hl <;>
    cases tn <;> simp [Addr.toQ, addrKey, QAddr.WF, verPubkey, verScript, hl]

end GocoinV.Proofs.C17
