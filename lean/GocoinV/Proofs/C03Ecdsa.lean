/-
  Proofs.C03Ecdsa — every output of `Signature.Sign` verifies, and public-key recovery returns the
  signer's key (under `SecpGroupLaw`, see Proofs/C03Group.lean).
-/
import GocoinV.Proofs.C03Group
import GocoinV.Proofs.C03Der
namespace GocoinV.Proofs.C03
open GocoinV GocoinV.Secp GocoinV.Model GocoinV.Model.Sig

variable [L : SecpGroupLaw]

omit L in
theorem recompute_eq (r s m : Nat) (Q : Point) (x y : Nat)
    (hpt : add (mul (modInvN s * r % n % n) Q) (mul (modInvN s * m % n % n) G) = some (x, y)) :
    recompute r s Q m = some (x % n) := by
  unfold recompute
  simp only [ecmult_nat]
  rw [hpt]

omit L in
/-- the scalar the verifier multiplies G with, in ZMod n -/
theorem verify_scalar (d m k x s : Nat) (hk0 : 0 < k) (hkn : k < n)
    (hs0 : modInvN k * ((x % n * d % n + m) % n) % n ≠ 0) (ε : ZMod n) (hε : ε = 1 ∨ ε = -1)
    (hs : (s : ZMod n) = ε * ((modInvN k * ((x % n * d % n + m) % n) % n : Nat) : ZMod n)) :
    (((d * (modInvN s * (x % n) % n % n) + modInvN s * m % n % n : Nat)) : ZMod n) = ε * (k : ZMod n) := by
  have hK := cast_ne_zero_of_lt k hk0 hkn
  have hS0 : ((modInvN k * ((x % n * d % n + m) % n) % n : Nat) : ZMod n) ≠ 0 :=
    cast_ne_zero_of_lt _ (Nat.pos_of_ne_zero hs0) (Nat.mod_lt _ n_pos)
  have hS0e : ((modInvN k * ((x % n * d % n + m) % n) % n : Nat) : ZMod n)
      = (k : ZMod n)⁻¹ * ((x : ZMod n) * d + m) := by
    unfold modInvN
    simp only [ZMod.natCast_mod, Nat.cast_mul, Nat.cast_add, invN_cast]
  have key := fld_verify (k : ZMod n) ((x : ZMod n) * d + m) _ (x : ZMod n) d m rfl hS0e hS0
  unfold modInvN
  simp only [ZMod.natCast_mod, Nat.cast_mul, Nat.cast_add, invN_cast]
  rw [hs]
  rcases hε with rfl | rfl
  · rw [one_mul, one_mul]; exact key
  · rw [neg_one_mul, neg_one_mul, inv_neg]
    rw [← key]; ring

/-- Every output of `Signature.Sign` (with R ≠ 0 mod n) passes `Signature.Verify` for the signer's
    public key d·G. -/
theorem sign_verify_core (d m k r s recid : Nat) (h : sign d m k = some (r, s, recid)) (hr : r ≠ 0) :
    sigVerify true r s (mul d G) m = true := by
  obtain ⟨hk0, hkn, x, y, hxy, hrx, hs0, hcase⟩ := sign_spec d m k r s recid h
  have hlt : modInvN k * ((x % n * d % n + m) % n) % n < n := Nat.mod_lt _ n_pos
  have hrn : r < n := by rw [hrx]; exact Nat.mod_lt _ n_pos
  -- the point the verifier recomputes has x-coordinate x
  have hpt : ∃ y', add (mul (modInvN s * r % n % n) (mul d G)) (mul (modInvN s * m % n % n) G) = some (x, y') := by
    rw [lin_G, hrx]
    rcases hcase with ⟨hs, _⟩ | ⟨hs, _⟩
    · have := verify_scalar d m k x s hk0 hkn hs0 1 (Or.inl rfl) (by rw [hs, one_mul])
      rw [one_mul] at this
      rw [nsmul_G_congr _ _ this, ← mul_G, hxy]
      exact ⟨y, rfl⟩
    · have hsc : (s : ZMod n) = -1 * ((modInvN k * ((x % n * d % n + m) % n) % n : Nat) : ZMod n) := by
        rw [hs, Nat.cast_sub (Nat.le_of_lt hlt), ZMod.natCast_self, zero_sub, neg_one_mul]
      have := verify_scalar d m k x s hk0 hkn hs0 (-1) (Or.inr rfl) hsc
      have e : (-1 : ZMod n) * (k : ZMod n) = ((n - k : Nat) : ZMod n) := by
        rw [Nat.cast_sub (Nat.le_of_lt hkn), ZMod.natCast_self, zero_sub, neg_one_mul]
      rw [e] at this
      rw [nsmul_G_congr _ _ this, mul_neg_G k x y (Nat.le_of_lt hkn) hxy]
      exact ⟨_, rfl⟩
  obtain ⟨y', hpt⟩ := hpt
  have hsr : s ≠ 0 ∧ s < n := by
    rcases hcase with ⟨hs, _⟩ | ⟨hs, _⟩ <;> omega
  unfold sigVerify
  have hrange : ¬ (true = true ∧ (r = 0 ∨ r ≥ n ∨ s = 0 ∨ s ≥ n)) := by omega
  rw [if_neg hrange, recompute_eq r s m _ x y' hpt, hrx]
  simp


/-! ### recovery -/

omit L in
theorem recid_bits (a b : Prop) [Decidable a] [Decidable b] :
    ((((if a then 2 else 0) ||| (if b then 1 else 0)) &&& 2 ≠ 0) ↔ a) ∧
    ((((if a then 2 else 0) ||| (if b then 1 else 0)) &&& 1 ≠ 0) ↔ b) ∧
    (((((if a then 2 else 0) ||| (if b then 1 else 0)) ^^^ 1) &&& 2 ≠ 0) ↔ a) ∧
    (((((if a then 2 else 0) ||| (if b then 1 else 0)) ^^^ 1) &&& 1 ≠ 0) ↔ ¬ b) := by
  by_cases ha : a <;> by_cases hb : b <;> simp [ha, hb]

theorem lin_G' (a k' b : Nat) : add (mul a (k' • Gc).1) (mul b G) = ((k' * a + b) • Gc).1 := by
  rw [mul_eq_nsmul a, mul_G b, ← val_add, ← mul_nsmul, ← add_nsmul]

omit L in
/-- the scalar the recovery multiplies G with, in ZMod n -/
theorem recover_scalar (d m k x r s k' : Nat) (hk0 : 0 < k) (hkn : k < n) (hrx : r = x % n) (hr : r ≠ 0)
    (ε : ZMod n) (hε : ε = 1 ∨ ε = -1)
    (hs : (s : ZMod n) = ε * ((modInvN k * ((x % n * d % n + m) % n) % n : Nat) : ZMod n))
    (hk' : (k' : ZMod n) = ε * (k : ZMod n)) :
    (((k' * (modInvN r * s % n % n) + (n - modInvN r * m % n) % n : Nat)) : ZMod n) = (d : ZMod n) := by
  have hK := cast_ne_zero_of_lt k hk0 hkn
  have hrn : r < n := by rw [hrx]; exact Nat.mod_lt _ n_pos
  have hR := cast_ne_zero_of_lt r (Nat.pos_of_ne_zero hr) hrn
  have hrX : (r : ZMod n) = (x : ZMod n) := by rw [hrx, ZMod.natCast_mod]
  have hS0e : ((modInvN k * ((x % n * d % n + m) % n) % n : Nat) : ZMod n)
      = (k : ZMod n)⁻¹ * ((r : ZMod n) * d + m) := by
    unfold modInvN
    simp only [ZMod.natCast_mod, Nat.cast_mul, Nat.cast_add, invN_cast, hrX]
  have key := fld_recover (k : ZMod n) ((r : ZMod n) * d + m) _ (r : ZMod n) d m rfl hS0e hK hR
  have hle : modInvN r * m % n ≤ n := Nat.le_of_lt (Nat.mod_lt _ n_pos)
  unfold modInvN at hle ⊢
  simp only [ZMod.natCast_mod, Nat.cast_mul, Nat.cast_add, Nat.cast_sub hle, ZMod.natCast_self, invN_cast,
    zero_sub]
  rw [hs, hk']
  rw [← key]
  rcases hε with rfl | rfl <;> ring

/-- the point `Signature.recover` computes (before the test for infinity the current code applies to
    it) on an output of `Signature.Sign` (with R ≠ 0 mod n) is the signer's public key d·G. -/
theorem recover_sign_core_legacy (d k r s recid : Nat) (hb : Bytes)
    (h : sign d (beVal hb) k = some (r, s, recid)) (hr : r ≠ 0) :
    recoverPublicKeyLegacy r s hb recid = some (mul d G) := by
  obtain ⟨hk0, hkn, x, y, hxy, hrx, hs0, hcase⟩ := sign_spec d (beVal hb) k r s recid h
  have hlt : modInvN k * ((x % n * d % n + beVal hb) % n) % n < n := Nat.mod_lt _ n_pos
  have hrn : r < n := by rw [hrx]; exact Nat.mod_lt _ n_pos
  have hon : onCurve (some (x, y)) = true := by
    have := (k • Gc).2
    rw [← mul_G, hxy] at this
    exact this
  obtain ⟨hxp, hyp, _⟩ := (onCurve_iff x y).mp hon
  have hpn : p < 2 * n := by decide
  have hbits := recid_bits (x ≥ n) (y % 2 = 1)
  have hsr : s ≠ 0 ∧ s < n := by
    rcases hcase with ⟨hs, _⟩ | ⟨hs, _⟩ <;> omega
  -- the x coordinate the code reconstructs
  have hrx' : ∀ c : Prop, [Decidable c] → (c ↔ x ≥ n) → (if c then r + n else r) = x := by
    intro c _ hc
    by_cases hge : x ≥ n
    · rw [if_pos (hc.mpr hge), hrx]
      have : x % n = x - n := by
        rw [Nat.mod_eq_sub_mod hge, Nat.mod_eq_of_lt (by omega)]
      omega
    · rw [if_neg (fun h => hge (hc.mp h)), hrx, Nat.mod_eq_of_lt (by omega)]
  unfold recoverPublicKeyLegacy
  have hrange : ¬ (r = 0 ∨ r ≥ n ∨ s = 0 ∨ s ≥ n) := by omega
  rw [if_neg hrange]
  unfold recoverLegacy
  rcases hcase with ⟨hs, hrec⟩ | ⟨hs, hrec⟩
  · -- S not negated: the reconstructed point is k·G
    have hx2 := hrx' (recid &&& 2 ≠ 0) (by rw [hrec]; exact hbits.1)
    have hodd : decide (recid &&& 1 ≠ 0) = (y % 2 == 1) := by
      rw [hrec]; show _ = decide (y % 2 = 1); exact decide_eq_decide.mpr hbits.2.1
    have hy' : setXO x (decide (recid &&& 1 ≠ 0)) = y := by
      rw [setXO_onCurve x y hon, hodd]; simp
    simp only [hx2, hy']
    have hnp : ¬ (recid &&& 2 ≠ 0 ∧ x ≥ p) := by omega
    rw [if_neg hnp]
    have hv : isValid x y = true := by rw [isValid_eq_onCurve x y hxp hyp]; exact hon
    simp only [hv, Bool.not_true, Bool.false_eq_true, ↓reduceIte, Nat.mod_eq_of_lt hxp, ecmult_nat]
    have hpt : (some (x, y) : Point) = (k • Gc).1 := by rw [← mul_G, hxy]
    rw [hpt, lin_G']
    have hsc := recover_scalar d (beVal hb) k x r s k hk0 hkn hrx hr 1 (Or.inl rfl)
      (by rw [hs, one_mul]) (by rw [one_mul])
    rw [nsmul_G_congr _ _ hsc, ← mul_G]
  · -- S negated: the parity bit was flipped, the reconstructed point is (n−k)·G
    have hx2 := hrx' (recid &&& 2 ≠ 0) (by rw [hrec]; exact hbits.2.2.1)
    have hodd : decide (recid &&& 1 ≠ 0) = !(y % 2 == 1) := by
      rw [hrec]; show _ = !decide (y % 2 = 1); rw [← decide_not]; exact decide_eq_decide.mpr hbits.2.2.2
    have hy' : setXO x (decide (recid &&& 1 ≠ 0)) = (p - y) % p := by
      rw [setXO_onCurve x y hon, hodd]
      cases (y % 2 == 1) <;> simp
    simp only [hx2, hy']
    have hnp : ¬ (recid &&& 2 ≠ 0 ∧ x ≥ p) := by omega
    rw [if_neg hnp]
    have hpt : (some (x, (p - y) % p) : Point) = ((n - k) • Gc).1 :=
      (mul_neg_G k x y (Nat.le_of_lt hkn) hxy).symm
    have hon' : onCurve (some (x, (p - y) % p)) = true := by rw [hpt]; exact ((n - k) • Gc).2
    have hv : isValid x ((p - y) % p) = true := by
      rw [isValid_eq_onCurve x _ hxp (Nat.mod_lt _ p_pos)]; exact hon'
    simp only [hv, Bool.not_true, Bool.false_eq_true, ↓reduceIte, Nat.mod_eq_of_lt hxp, ecmult_nat]
    rw [hpt, lin_G']
    have hsc := recover_scalar d (beVal hb) k x r s (n - k) hk0 hkn hrx hr (-1) (Or.inr rfl)
      (by rw [hs, Nat.cast_sub (Nat.le_of_lt hlt), ZMod.natCast_self, zero_sub, neg_one_mul])
      (by rw [Nat.cast_sub (Nat.le_of_lt hkn), ZMod.natCast_self, zero_sub, neg_one_mul])
    rw [nsmul_G_congr _ _ hsc, ← mul_G]


omit L in
/-- current code = pinned-snapshot computation followed by the refusal of the point at infinity -/
theorem recoverPublicKey_eq (r s : Nat) (hb : Bytes) (recid : Nat) :
    recoverPublicKey r s hb recid =
      match recoverPublicKeyLegacy r s hb recid with
      | some (some q) => some (some q)
      | _ => none := by
  unfold recoverPublicKey recoverPublicKeyLegacy
  by_cases hrange : r = 0 ∨ r ≥ n ∨ s = 0 ∨ s ≥ n
  · rw [if_pos hrange, if_pos hrange]
  rw [if_neg hrange, if_neg hrange]
  unfold recover recoverLegacy
  simp only
  by_cases h1 : recid &&& 2 ≠ 0 ∧ (if recid &&& 2 ≠ 0 then r + n else r) ≥ p
  · rw [if_pos h1, if_pos h1]
  rw [if_neg h1, if_neg h1]
  cases hv : isValid (if recid &&& 2 ≠ 0 then r + n else r)
      (setXO (if recid &&& 2 ≠ 0 then r + n else r) (decide (recid &&& 1 ≠ 0))) with
  | false => simp
  | true =>
    simp only [Bool.not_true, Bool.false_eq_true, ↓reduceIte]
    cases ecmult _ _ _ <;> rfl

/-- `Signature.RecoverPublicKey` on an output of `Signature.Sign` (with R ≠ 0 mod n) returns the
    signer's public key d·G — and nothing (nil) when d·G is the point at infinity, i.e. d ≡ 0 mod n. -/
theorem recover_sign_core (d k r s recid : Nat) (hb : Bytes)
    (h : sign d (beVal hb) k = some (r, s, recid)) (hr : r ≠ 0) :
    recoverPublicKey r s hb recid = (mul d G).map some := by
  rw [recoverPublicKey_eq, recover_sign_core_legacy d k r s recid hb h hr]
  cases mul d G <;> rfl

/-! ### at the level of bytes: `btc.EcdsaVerify(pubkey, sig.Bytes(), hash)` -/

/-- G has order exactly n: d·G ≠ ∞ for 0 < d < n -/
theorem mul_G_ne_none (d : Nat) (h0 : 0 < d) (hd : d < n) : mul d G ≠ none := by
  intro h
  have hz : d • Gc = 0 := Subtype.ext (by rw [← mul_G]; exact h)
  have hG : Gc ≠ 0 := by
    intro e
    have := congrArg Subtype.val e
    simp [Gc, G, val_zero] at this
  have hord : addOrderOf Gc = n := addOrderOf_eq_prime order_G hG
  have := addOrderOf_dvd_iff_nsmul_eq_zero.mpr hz
  rw [hord] at this
  exact absurd (Nat.le_of_dvd h0 this) (by omega)

omit L in
/-- `XY.ParsePubkey` reads back the compressed serialisation of a curve point -/
theorem parsePubkey_ser33 (x y : Nat) (h : onCurve (some (x, y)) = true) :
    Sig.parsePubkey true (ser33 (some (x, y))) = some (x, y) := by
  obtain ⟨hx, hy, _⟩ := (onCurve_iff x y).mp h
  have hp256 : p < 256 ^ 32 := by decide
  have hbv : beVal (beBytes 32 x) = x := beVal_beBytes 32 x (by omega)
  have hv : isValid x y = true := by rw [isValid_eq_onCurve x y hx hy]; exact h
  unfold ser33 Sig.parsePubkey
  have hlen : ((if y % 2 = 0 then (2 : UInt8) else 3) :: beBytes 32 x).length = 33 := by
    simp [beBytes]
  simp only [hlen, hbv, true_and]
  have hnx : ¬ x ≥ p := by omega
  rcases Nat.mod_two_eq_zero_or_one y with e | e
  · have hy' : setXO x ((2 : UInt8) == 3) = y := by
      rw [setXO_onCurve x y h]; simp [e]
    simp only [e, ↓reduceIte, hy', hnx, hv, true_or]
  · have hy' : setXO x ((3 : UInt8) == 3) = y := by
      rw [setXO_onCurve x y h]; simp [e]
    simp only [e, Nat.one_ne_zero, ↓reduceIte, hy', hnx, hv, or_true]

/-- What the signer hands out is accepted by `btc.EcdsaVerify`: for a secret key 0 < d < n, the
    DER bytes of an output of `Sign` verify against the compressed public key bytes of d·G. -/
theorem own_signature_accepted (d k r s recid : Nat) (msg : Bytes) (hd0 : 0 < d) (hdn : d < n)
    (h : sign d (beVal msg) k = some (r, s, recid)) (hr : r ≠ 0) :
    ∃ der, sigBytes r s = some der ∧ Spec.Ecdsa.isStrictDER der = true ∧
      Sig.ecdsaVerify true (ser33 (mul d G)) der msg = true := by
  have hlow := sign_low d (beVal msg) k r s recid h
  have hn256 : n < 2 ^ 256 := by decide
  obtain ⟨der, hder, hstrict, hdec⟩ :=
    sigBytes_canonical r s (Nat.pos_of_ne_zero hr) (by omega) hlow.1
      (by have : halfOrder < n := by decide
          omega)
  refine ⟨der, hder, hstrict, ?_⟩
  have hv := sign_verify_core d (beVal msg) k r s recid h hr
  have hon : onCurve (mul d G) = true := by rw [mul_G]; exact (d • Gc).2
  cases hQ : mul d G with
  | none => exact absurd hQ (mul_G_ne_none d hd0 hdn)
  | some q =>
    obtain ⟨x, y⟩ := q
    rw [hQ] at hv hon
    have hpb := parseBytes_eq der
    rw [hdec] at hpb
    cases hp : Sig.parseBytes der with
    | none => rw [hp] at hpb; simp at hpb
    | some t =>
      obtain ⟨r', s', c⟩ := t
      rw [hp] at hpb
      simp only [Option.map_some, Option.some.injEq, Prod.mk.injEq] at hpb
      obtain ⟨rfl, rfl⟩ := hpb
      unfold Sig.ecdsaVerify Sig.ecdsaVerifyCode
      rw [parsePubkey_ser33 x y hon, hp]
      have hl1 : ¬ ((ser33 (some (x, y))).length = 0 ∨ der.length = 0) := by
        have : der ≠ [] := by
          intro e; rw [e] at hp; simp [Sig.parseBytes] at hp
        simp [ser33, this]
      rw [if_neg hl1]
      simp only [hv, ↓reduceIte]
      rfl

end GocoinV.Proofs.C03
