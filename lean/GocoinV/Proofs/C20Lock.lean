/-
  Proofs.C20Lock — the class selected by a "good" selection term (Model/AllocLock.lean) is the class the
  model's Malloc / Free step edits.  Used by Props.C20.malloc_locks_own_class / free_locks_own_class with
  the terms regenerated from the source.
-/
import GocoinV.Model.AllocLock
import GocoinV.Proofs.C20Inv
namespace GocoinV.Alloc
open GocoinV.Gen.MemClasses
variable {V : Type}

/-- every class is the class of its own slot size (the table is strictly increasing) -/
theorem classOf_slotSize : ∀ c, c < nClasses → classOf (slotSize c) = c := by decide +kernel

/-- …and NOT of its slot size minus the slice header, for some class: `getSizeClass(Cap)` is a different
function from the page's class (witness for the documentation of `goodFreeSel`). -/
theorem classOf_cap_differs : ∃ c, c < nClasses ∧ classOf (slotSize c - sliceHdrLen) ≠ c := by decide +kernel

theorem selMalloc_good {e : ClassSel} (hg : goodMallocSel e = true) (size : Nat)
    (h : size + sliceHdrLen ≤ maxShared) : selMalloc e size = some (classOf (size + sliceHdrLen)) := by
  have : e = .sizeClass .reqSize sliceHdrLen := by simpa [goodMallocSel] using hg
  subst this
  simp only [selMalloc, getSizeClass]
  rw [if_neg (by omega)]

/-- the model's Malloc on the shared path is `allocLive` of exactly the class `classOf (size + 24)` -/
theorem malloc_shared_eq (s : State V) (size : Nat) (h : size + sliceHdrLen ≤ maxShared) :
    malloc s size = allocLive { s with allocs := s.allocs + 1 } (classOf (size + sliceHdrLen)) size
      (slotSize (classOf (size + sliceHdrLen)) - sliceHdrLen) none := by
  unfold malloc
  simp only []
  rw [if_neg (by omega)]

theorem selFree_good {e : ClassSel} (hg : goodFreeSel e = true) {s : State V} (inv : Inv s) {p i : Nat}
    {l : LiveRec V} (hq : s.live.get? (.sh p i) = some l) :
    ∃ h, s.pages.get? p = some h ∧ h.cls < nClasses ∧ selFree e s (.sh p i) = some h.cls := by
  obtain ⟨m, hm, _, _, _, _, h, g1, g2, g3⟩ := inv.g.live _ l hq
  have okp := inv.g.pages p h g1
  refine ⟨h, g1, okp.cls_lt, ?_⟩
  have : e = .pageHeader ∨ e = .sizeClass .slotCap sliceHdrLen := by
    simpa [goodFreeSel] using hg
  rcases this with e1 | e1
  · subst e1; simp [selFree, g1]
  · subst e1
    have t := (table_facts.2 _ okp.cls_lt).2.1
    simp only [selFree, hm, Option.bind_some, getSizeClass, g3]
    rw [if_neg (by omega), classOf_slotSize _ okp.cls_lt]

/-- the model's Free of a live shared slot is `freeSlot` on the slot's page header: it edits the lists and
counters of class `h.cls` (and of no other class). -/
theorem free_shared_eq {s : State V} (inv : Inv s) {p i : Nat} {l : LiveRec V}
    (hq : s.live.get? (.sh p i) = some l) :
    ∃ h, s.pages.get? p = some h ∧
      free s (.sh p i) = .ok (freeSlot { s with allocs := s.allocs - 1, live := s.live.del (.sh p i) } p i h) := by
  obtain ⟨m, hm, _, _, _, _, h, g1, g2, g3⟩ := inv.g.live _ l hq
  refine ⟨h, g1, ?_⟩
  unfold free
  simp only [hq, Option.isNone_some, Bool.false_eq_true, if_false, hm]
  have okp := inv.g.pages p h g1
  have t := (table_facts.2 _ okp.cls_lt).2.1
  rw [if_neg (by omega)]
  simp only [g1]
  have hev := inv.noEvac p h g1
  have ne := okp.ne hev
  have hlive : s.isLive (.sh p i) := by simp [State.isLive, hq]
  have inl : i ∉ h.freeList := fun x => ((ne.1 i g2).1 x) hlive
  have := nodup_bound h.brk (i :: h.freeList) (List.nodup_cons.2 ⟨inl, okp.fl_nodup⟩) (by
    intro x hx; simp only [List.mem_cons] at hx
    rcases hx with e | e
    · subst e; exact g2
    · exact okp.fl_lt x e)
  simp only [List.length_cons] at this
  rw [if_pos (by omega)]

/-- `freeSlot` leaves the state of every other class alone -/
theorem freeSlot_other (s : State V) (p i : Nat) (h : Page) (c : Nat) (hc : c ≠ h.cls) :
    (freeSlot s p i h).K c = s.K c := by
  unfold freeSlot
  simp only []
  split <;> simp only [State.K, KMap.get?_set, if_neg (Ne.symm hc)]

end GocoinV.Alloc
