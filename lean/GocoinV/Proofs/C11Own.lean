/-
  Proofs.C11Own — invariants of the ownership models of Model/ConcOwn.lean (Ring, Undo, Collect).
-/
import GocoinV.Model.ConcOwn
namespace GocoinV.Proofs.C11Own
open GocoinV.Conc.Own

/-! ## Ring -/
namespace RingP
open Ring

theorem mod_ne (a x n : Nat) (h1 : a < x) (h2 : x - a < n) : a % n ≠ x % n := by
  intro h
  have h3 := Nat.sub_mod_eq_zero_of_mod_eq h.symm
  rw [Nat.mod_eq_of_lt h2] at h3
  omega

structure Inv (st : St) : Prop where
  fr : st.flushed ≤ st.recvd
  rf : st.recvd ≤ st.flushed + 1
  rs : st.recvd ≤ st.sent
  room : st.sent - st.recvd ≤ st.cap
  clean : st.dirty = []
  ok : st.written.all (·.2) = true
  order : st.written.map (·.1) = List.range st.flushed

theorem clobbered_nil (st : St) (h : st.n = 0 ∨ st.cap + 1 ≤ st.n) (i : Inv st) (hroom : st.sent - st.recvd < st.cap) :
    clobbered st = [] := by
  unfold clobbered
  rw [List.filter_eq_nil_iff]
  intro c hc
  rw [List.mem_map] at hc
  obtain ⟨k, hk, rfl⟩ := hc
  rw [List.mem_range] at hk
  have h1 := i.fr; have h2 := i.rf; have h3 := i.rs; have h4 := i.room
  simp only [beq_iff_eq]
  unfold buf
  rcases h with h | h
  · simp only [h, if_true]; omega
  · have hn : st.n ≠ 0 := by omega
    simp only [hn, if_false]
    exact mod_ne (k + st.flushed) st.sent st.n (by omega) (by omega)

theorem step_n (st st' : St) (l : Lab) (h : step st l = some st') : st'.n = st.n ∧ st'.cap = st.cap := by
  cases l <;> simp only [step] at h <;> split at h <;> simp only [Option.some.injEq, reduceCtorEq] at h <;> subst h <;> exact ⟨rfl, rfl⟩

theorem inv_step (st st' : St) (l : Lab) (hn : st.n = 0 ∨ st.cap + 1 ≤ st.n) (i : Inv st) (h : step st l = some st') : Inv st' := by
  have h1 := i.fr; have h2 := i.rf; have h3 := i.rs; have h4 := i.room
  cases l <;> simp only [step] at h <;> split at h <;> simp only [Option.some.injEq, reduceCtorEq] at h <;> subst h
  · -- fill
    rename_i hc
    exact ⟨h1, h2, h3, h4, by simp [i.clean, clobbered_nil st hn i hc.2], i.ok, i.order⟩
  · -- send
    rename_i hc
    exact ⟨h1, h2, by simp only; omega, by simp only; omega, i.clean, i.ok, i.order⟩
  · -- recv
    rename_i hc
    exact ⟨by simp only; omega, by simp only; omega, by simp only; omega, by simp only; omega, i.clean, i.ok, i.order⟩
  · -- flush
    rename_i hc
    refine ⟨by simp only; omega, by simp only; omega, h3, h4, i.clean, ?_, ?_⟩
    · simp only [List.all_append, i.ok, i.clean, List.all_cons, List.all_nil, Bool.and_true, Bool.true_and]
      simp
    · simp only [List.map_append, i.order, List.map_cons, List.map_nil, List.range_succ]

theorem inv_init (n cap total : Nat) : Inv (init n cap total) :=
  ⟨Nat.le_refl _, Nat.le_succ _, Nat.le_refl _, Nat.zero_le _, rfl, rfl, rfl⟩

theorem inv_run (st : St) (ls : List Lab) (hn : st.n = 0 ∨ st.cap + 1 ≤ st.n) (i : Inv st) : Inv (run st ls) := by
  induction ls generalizing st with
  | nil => exact i
  | cons l r ih =>
    simp only [run]
    cases hs : step st l with
    | none => simpa using ih st hn i
    | some st' =>
      have hc := step_n st st' l hs
      simp only [Option.getD_some]
      exact ih st' (by rw [hc.1, hc.2]; exact hn) (inv_step st st' l hn i hs)

end RingP

/-! ## Undo -/
namespace UndoP
open Undo

def val : Entry → Option Nat
  | .copy v => some v
  | .alias _ => none

/-- all remaining entries are copies of `vs`' tail, and the file so far is the head -/
def Inv (vs : List Nat) (st : St) : Prop := st.out ++ st.todo.filterMap val = vs ∧ ∀ e ∈ st.todo, ∃ v, e = .copy v

theorem inv_step (vs : List Nat) (st st' : St) (l : Lab) (i : Inv vs st) (h : step st l = some st') : Inv vs st' := by
  cases l <;> simp only [step] at h
  · split at h <;> simp only [Option.some.injEq, reduceCtorEq] at h
    subst h; exact i
  · split at h
    · split at h <;> simp only [Option.some.injEq] at h <;> subst h <;> exact i
    · simp only [reduceCtorEq] at h
  · split at h
    · rename_i e r he
      simp only [Option.some.injEq] at h
      subst h
      obtain ⟨v, rfl⟩ := i.2 e (by rw [he]; exact List.mem_cons_self)
      refine ⟨?_, fun e' he' => i.2 e' (by rw [he]; exact List.mem_cons_of_mem _ he')⟩
      have := i.1
      rw [he] at this
      simpa [Entry.read, val, List.append_assoc] using this
    · simp only [reduceCtorEq] at h

theorem inv_run (vs : List Nat) (st : St) (ls : List Lab) (i : Inv vs st) : Inv vs (run st ls) := by
  induction ls generalizing st with
  | nil => exact i
  | cons l r ih =>
    simp only [run]
    cases hs : step st l with
    | none => simpa using ih st i
    | some st' => simpa using ih st' (inv_step vs st st' l i hs)

end UndoP

/-! ## Collect -/
namespace CollectP
open Collect

/-- with the workers started after the collection: a worker exists only once everything is resolved, and every recorded view
    is complete -/
def Inv (N : Nat) (st : St) : Prop :=
  st.nin = N ∧ st.early = false ∧ st.resolved ≤ st.nin ∧ (0 < st.spawned → st.resolved = st.nin) ∧ ∀ v ∈ st.views, v.2 = N

theorem inv_step (N : Nat) (st st' : St) (l : Lab) (i : Inv N st) (h : step st l = some st') : Inv N st' := by
  obtain ⟨hN, he, hr, hs, hv⟩ := i
  cases l <;> simp only [step] at h
  · split at h
    · simp only [he, Bool.false_eq_true, if_false, Option.some.injEq] at h
      subst h
      refine ⟨hN, rfl, by simp only; omega, ?_, hv⟩
      intro hp; have := hs hp; simp only at *; omega
    · split at h
      · simp only [Option.some.injEq] at h
        subst h
        exact ⟨hN, he, hr, fun _ => by simp only; omega, hv⟩
      · simp only [reduceCtorEq] at h
  · split at h
    · rename_i hc
      simp only [Option.some.injEq] at h
      subst h
      refine ⟨hN, he, hr, hs, ?_⟩
      intro v hm
      simp only [List.mem_append, List.mem_singleton] at hm
      rcases hm with hm | rfl
      · exact hv v hm
      · simp only; rw [← hN]; exact hs (by omega)
    · simp only [reduceCtorEq] at h

theorem inv_run (N : Nat) (st : St) (ls : List Lab) (i : Inv N st) : Inv N (run st ls) := by
  induction ls generalizing st with
  | nil => exact i
  | cons l r ih =>
    simp only [run]
    cases hs : step st l with
    | none => simpa using ih st i
    | some st' => simpa using ih st' (inv_step N st st' l i hs)

end CollectP

end GocoinV.Proofs.C11Own
