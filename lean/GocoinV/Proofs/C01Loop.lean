/-
  Proofs.C01Loop — every opcode falls into a proved group (`op_classify`), so one loop iteration agrees for EVERY
  opcode (`stepAt_agree_all`); lifting to the whole interpreter loop on scripts that decode to their end
  (`evalLoop_agree_wf`), the separate argument for scripts with a decode error (both interpreters fail, whatever
  happens on the way), and `evalScript` ≡ `EvalScript` for all scripts.
-/
import GocoinV.Proofs.C01Multisig
set_option linter.unusedSimpArgs false
namespace GocoinV.Proofs.C01
open GocoinV GocoinV.Script

/-- the opcodes with an own lemma each -/
def isSingleOp (op : Nat) : Bool :=
  op == 0xa5 || op == 0x74 || op == 0x82 || op == 0x79 || op == 0x7a || op == 0xab || op == 0xb1 || op == 0xb2 ||
  op == 0xac || op == 0xad || op == 0xba || op == 0xae || op == 0xaf

/-- every opcode above the push range falls into one of the groups for which the step simulation is proved -/
theorem op_classify (op : Nat) (h : op > 0x4e) :
    (isConstOp op || ScriptSpec.isShuffle op || isMiscOp op || isNopOp op || isCondOp op || isUnaryOp op ||
      ScriptSpec.isBinaryNum op || isSingleOp op || isBadOp op) = true := by
  by_cases hbig : op ≥ 0xbb
  · have : isBadOp op = true := by simp [isBadOp, hbig]
    simp [this]
  · have all : ∀ n, n < 0xbb → n > 0x4e →
        (isConstOp n || ScriptSpec.isShuffle n || isMiscOp n || isNopOp n || isCondOp n || isUnaryOp n ||
          ScriptSpec.isBinaryNum n || isSingleOp n || isBadOp n) = true := by decide +kernel
    exact all op (by omega) h

/-- the opcodes that ask the signature oracles -/
def isSigOp (op : Nat) : Bool := op == 0xac || op == 0xad || op == 0xba || op == 0xae || op == 0xaf

/-- side conditions of one step that do not change during a run -/
structure Side (T : TotalOracles) (c : Ctx) : Prop where
  tap : TapSigHashOk T c.tx
  nops : NopsOk c.flags

theorem condop_range (op : Nat) (h : isCondOp op = true) : 0x63 ≤ op ∧ op ≤ 0x68 := by
  simp only [isCondOp, Bool.or_eq_true, beq_iff_eq] at h; omega

/-- `execOp` and `execOpcode` agree on EVERY opcode above the push range -/
theorem execOp_agree_all (T : TotalOracles) (c : Ctx) (hO : c.O = T.toOracles) (leaf : Bytes) (annex : Option Bytes)
    (st : St) (s : ScriptSpec.State) (i : ScriptSpec.Instr) (idx pos : Nat) (hR : Rel c leaf annex st s)
    (hgt : i.op > 0x4e) (hside : Side T c) (hidx : c.p.drop idx = i.after)
    (hwfa : c.sv = .base → (ScriptSpec.parse c.p).2 = false → (ScriptSpec.parse i.after).2 = false ∧ i.after.length < 2 ^ 32)
    (hgood : isSigOp i.op = true → c.sv = .base → (ScriptSpec.parse c.p).2 = false)
    (hor : st.exe.all id = true ∨ (0x63 ≤ i.op ∧ i.op ≤ 0x68)) :
    Agree c leaf annex (execOp c st i.op idx pos (st.exe.all id))
      (ScriptSpec.execOpcode (envOf T c leaf annex) s i (st.exe.all id) pos) := by
  have hS : isSigOp i.op = true → SigSide T c s := fun h => ⟨hside.tap, fun hb => hR.wf hb (hgood h hb)⟩
  by_cases hcond : isCondOp i.op = true
  · exact cond_agree T c leaf annex st s i idx pos hR hcond
  by_cases hbad : isBadOp i.op = true
  · exact bad_agree T c leaf annex st s i idx pos _ hbad
  -- everything else is only reached in an executed branch
  have hex : st.exe.all id = true := by
    rcases hor with h | ⟨h1, h2⟩
    · exact h
    · exfalso
      have : i.op = 0x63 ∨ i.op = 0x64 ∨ i.op = 0x65 ∨ i.op = 0x66 ∨ i.op = 0x67 ∨ i.op = 0x68 := by omega
      rcases this with h | h | h | h | h | h <;> simp [h, isCondOp, isBadOp] at hcond hbad
  rw [hex]
  have hcl := op_classify i.op hgt
  simp only [Bool.or_eq_true] at hcl
  rcases hcl with (((((((h | h) | h) | h) | h) | h) | h) | h) | h
  · exact const_agree T c leaf annex st s i idx pos hR h
  · exact shuffle_agree T c leaf annex st s i idx pos hR h
  · exact misc_agree T c hO leaf annex st s i idx pos hR h
  · exact nop_agree T c leaf annex st s i idx pos hR h
  · exact absurd h hcond
  · exact unary_agree T c leaf annex st s i idx pos hR h
  · exact binary_agree T c leaf annex st s i idx pos hR h
  · simp only [isSingleOp, Bool.or_eq_true, beq_iff_eq] at h
    rcases h with (((((((((((h | h) | h) | h) | h) | h) | h) | h) | h) | h) | h) | h) | h
    · exact within_agree T c leaf annex st s i idx pos hR h
    · exact depth_size_agree T c leaf annex st s i idx pos hR (Or.inl h)
    · exact depth_size_agree T c leaf annex st s i idx pos hR (Or.inr h)
    · exact pickroll_agree T c leaf annex st s i idx pos hR (Or.inl h)
    · exact pickroll_agree T c leaf annex st s i idx pos hR (Or.inr h)
    · exact codesep_agree T c leaf annex st s i idx pos hR h hidx hwfa
    · exact cltv_agree T c leaf annex st s i idx pos hR h hside.nops
    · exact csv_agree T c leaf annex st s i idx pos hR h hside.nops
    · exact checksig_agree T c hO leaf annex st s i idx pos hR (Or.inl h) (hS (by simp [isSigOp, h]))
    · exact checksig_agree T c hO leaf annex st s i idx pos hR (Or.inr h) (hS (by simp [isSigOp, h]))
    · exact csa_agree T c hO leaf annex st s i idx pos hR h (hS (by simp [isSigOp, h]))
    · exact multisig_agree T c hO leaf annex st s i idx pos hR (Or.inl h) (hS (by simp [isSigOp, h]))
    · exact multisig_agree T c hO leaf annex st s i idx pos hR (Or.inr h) (hS (by simp [isSigOp, h]))
  · exact absurd h hbad

/-- one loop iteration agrees, for EVERY opcode -/
theorem stepAt_agree_all (T : TotalOracles) (c : Ctx) (hO : c.O = T.toOracles) (leaf : Bytes) (annex : Option Bytes)
    (st : St) (s : ScriptSpec.State) (op : Op) (i : ScriptSpec.Instr) (idx pos : Nat)
    (hop : i.op = op.opcode) (hdata : i.data = op.push.getD []) (hR : Rel c leaf annex st s) (hside : Side T c)
    (hidx : c.p.drop idx = i.after)
    (hwfa : c.sv = .base → (ScriptSpec.parse c.p).2 = false → (ScriptSpec.parse i.after).2 = false ∧ i.after.length < 2 ^ 32)
    (hgood : isSigOp i.op = true → c.sv = .base → (ScriptSpec.parse c.p).2 = false) :
    Agree c leaf annex (stepAt c st op idx pos) (ScriptSpec.execInstr (envOf T c leaf annex) s i pos) := by
  apply stepAt_frame T c hO leaf annex st s op i idx pos hop hdata hR
  intro hgt st1 s1 hR1 hor
  rw [← hop] at hgt hor ⊢
  exact execOp_agree_all T c hO leaf annex st1 s1 i idx pos hR1 hgt hside hidx hwfa hgood hor

/-- Whole-loop simulation on a script that decodes to its end: decoding while executing (model) against
    parse-then-execute (spec), every opcode. -/
theorem evalLoop_agree_wf (T : TotalOracles) (c : Ctx) (hO : c.O = T.toOracles) (leaf : Bytes) (annex : Option Bytes)
    (hside : Side T c) (hlen : c.sv = .base → c.p.length < 2 ^ 32) (hgood : (ScriptSpec.parse c.p).2 = false) :
    ∀ (f : Nat) (rest : Bytes) (pos : Nat) (st : St) (s : ScriptSpec.State), Rel c leaf annex st s →
      (∃ pre, c.p = pre ++ rest) → rest.length ≤ f → (ScriptSpec.parseAux f rest).2 = false →
      Agree c leaf annex (evalLoop c f rest pos st) (ScriptSpec.execInstrs (envOf T c leaf annex) (ScriptSpec.parseAux f rest).1 pos s) := by
  intro f
  induction f with
  | zero =>
    intro rest pos st s hR _ hl _
    have : rest = [] := List.eq_nil_of_length_eq_zero (by omega)
    subst this
    simp only [evalLoop, ScriptSpec.parseAux, ScriptSpec.execInstrs, List.isEmpty_nil, ↓reduceIte, pure, Except.pure, agree_ok]
    exact hR
  | succ f ih =>
    intro rest pos st s hR hpre hl hw
    simp only [evalLoop, ScriptSpec.parseAux]
    by_cases he : rest.isEmpty
    · simp only [he, ↓reduceIte, ScriptSpec.execInstrs, pure, Except.pure, agree_ok]; exact hR
    · simp only [ScriptSpec.parseAux, he, Bool.false_eq_true, ↓reduceIte] at hw
      simp only [he, Bool.false_eq_true, ↓reduceIte]
      cases hg : getOpcode rest with
      | none => simp [parseOne_none_of_getOpcode hg] at hw
      | some op =>
        obtain ⟨i, hp, h1, h2, h3, _, hn1, hn2⟩ := parseOne_of_getOpcode hg
        simp only [hp] at hw ⊢
        simp only [ScriptSpec.execInstrs]
        obtain ⟨pre, hpre⟩ := hpre
        have hidx : c.p.drop (c.p.length - rest.length + op.n) = i.after := by
          rw [h3, hpre]
          have : (pre ++ rest).length - rest.length + op.n = pre.length + op.n := by simp
          rw [this, List.drop_append]
          simp
        have hal : i.after.length ≤ f := by rw [h3]; simp; omega
        have hwfa : c.sv = .base → (ScriptSpec.parse c.p).2 = false → (ScriptSpec.parse i.after).2 = false ∧ i.after.length < 2 ^ 32 := by
          intro hb _
          refine ⟨(wf_iff i.after f hal).mpr hw, ?_⟩
          have := hlen hb
          rw [hpre] at this
          rw [h3]; simp at this ⊢; omega
        have hstep := stepAt_agree_all T c hO leaf annex st s op i (c.p.length - rest.length + op.n) pos h1 h2 hR hside hidx hwfa (fun _ _ => hgood)
        generalize stepAt c st op (c.p.length - rest.length + op.n) pos = X at hstep ⊢
        generalize ScriptSpec.execInstr (envOf T c leaf annex) s i pos = Y at hstep ⊢
        cases hstep with
        | fail => simp [bind, Except.bind, Res.bind]; exact Agree.fail
        | panic => simp [bind, Except.bind, Res.bind]; exact Agree.panic
        | ok hR' =>
          rename_i a b
          have := ih (rest.drop op.n) (pos + 1) a b hR' ⟨pre ++ rest.take op.n, by rw [hpre, List.append_assoc, List.take_append_drop]⟩
            (by simp; omega) (by rw [← h3]; exact hw)
          simpa [bind, Except.bind, Res.bind, h3] using this


/-- the result is not a request to the crypto table (always so for total oracles) -/
def NoNeed {α : Type} (r : Res α) : Prop := ∀ q, r ≠ .need q
theorem noNeed_ok {α} (a : α) : NoNeed (Res.ok a) := by intro q h; cases h
theorem noNeed_pure {α} (a : α) : NoNeed (pure a : Res α) := noNeed_ok a
theorem noNeed_fail {α} : NoNeed (Res.fail : Res α) := by intro q h; cases h
theorem noNeed_panic {α} : NoNeed (Res.panic : Res α) := by intro q h; cases h
theorem noNeed_bind {α β} (x : Res α) (f : α → Res β) (hx : NoNeed x) (hf : ∀ a, x = .ok a → NoNeed (f a)) : NoNeed (x >>= f) := by
  cases x with
  | ok a => simpa using hf a rfl
  | fail => exact noNeed_fail
  | panic => exact noNeed_panic
  | need q => exact absurd rfl (hx q)
theorem agree_noNeed {c : Ctx} {leaf : Bytes} {annex : Option Bytes} {X : Res St} {Y : ScriptSpec.E ScriptSpec.State}
    (h : Agree c leaf annex X Y) : NoNeed X := by
  cases h with
  | ok _ => exact noNeed_ok _
  | fail => exact noNeed_fail
  | panic => exact noNeed_panic

theorem top_noNeed (s : Stack) (k : Nat) : NoNeed (top s k) := by
  unfold top; split
  · exact noNeed_panic
  · split
    · exact noNeed_ok _
    · exact noNeed_panic
theorem topInt_noNeed (s : Stack) (k : Nat) (chk : Bool) : NoNeed (topInt s k chk) := by
  unfold topInt
  apply noNeed_bind _ _ (top_noNeed s k)
  intro d _
  split
  · exact noNeed_panic
  · unfold bts2int; split
    · exact noNeed_panic
    · exact noNeed_ok _

theorem preRes_noNeed (T : TotalOracles) (sig pk : Bytes) (flags : Nat) (sv : SigVersion) (ed : ExecData) (code : Bytes) (found : Nat) :
    NoNeed (preRes T sig pk flags sv ed code found) := by
  unfold preRes
  split
  · exact noNeed_ok _
  · split
    · exact noNeed_ok _
    · split <;> exact noNeed_ok _

theorem evalChecksig_noNeed (T : TotalOracles) (c : Ctx) (hO : c.O = T.toOracles) (hT : TapSigHashOk T c.tx)
    (sig pk : Bytes) (pbegin : Nat) (ed : ExecData) : NoNeed (evalChecksig c sig pk pbegin ed) := by
  unfold evalChecksig
  cases hsv : c.sv
  · simp only; rw [hO, checksigPre_model]; exact preRes_noNeed _ _ _ _ _ _ _ _
  · simp only; rw [hO, checksigPre_model]; exact preRes_noNeed _ _ _ _ _ _ _ _
  · exact noNeed_panic
  · simp only
    rw [hO]
    unfold evalChecksigTapscript
    have hsc : ∀ ed', NoNeed (checkSchnorrSignature T.toOracles sig pk SigVersion.tapscript ed') := by
      intro ed'
      have := checkSchnorr_agree T c hT sig pk ed'
      rw [hsv] at this
      rw [this]; exact noNeed_ok _
    simp only
    repeat' split
    all_goals first
      | exact noNeed_ok _
      | exact noNeed_pure _
      | (apply noNeed_bind _ _ (hsc _); intro r _; split <;> exact noNeed_pure _)

theorem delSigsList_noNeed (flags : Nat) : ∀ S x, NoNeed (delSigsList flags S x) := by
  intro S
  induction S with
  | nil => intro x; exact noNeed_ok _
  | cons s S' ih =>
    intro x
    simp only [delSigsList]
    split
    · exact noNeed_fail
    · exact ih _

theorem msVerifyLoop_noNeed (T : TotalOracles) (c : Ctx) (hO : c.O = T.toOracles) (stack : Stack) (xxx : Bytes) :
    ∀ k sg ikey isig, NoNeed (msVerifyLoop c stack xxx k sg ikey isig) := by
  intro k
  induction k with
  | zero =>
    intro sg ikey isig
    unfold msVerifyLoop
    split
    · exact noNeed_ok _
    · exact noNeed_panic
  | succ k ih =>
    intro sg ikey isig
    unfold msVerifyLoop
    split
    · exact noNeed_ok _
    · simp only
      apply noNeed_bind _ _ (top_noNeed _ _)
      intro pk _
      apply noNeed_bind _ _ (top_noNeed _ _)
      intro sig _
      split
      · exact noNeed_fail
      · rw [hO, verifyECDSA_eq]
        simp only [Res.ok_bind]
        repeat' split
        all_goals first | exact noNeed_pure _ | exact ih _ _ _

theorem msCleanup_noNeed (flags : Nat) (su : Bool) : ∀ n k s, NoNeed (msCleanup flags su n k s) := by
  intro n
  induction n with
  | zero => intro k s; exact noNeed_ok _
  | succ n ih =>
    intro k s
    unfold msCleanup
    split
    · exact noNeed_panic
    · split
      · exact noNeed_fail
      · exact ih _ _

theorem msDelSigs_noNeed (stack : Stack) (flags isig : Nat) : ∀ n k xxx, NoNeed (msDelSigs stack flags isig n k xxx) := by
  intro n
  induction n with
  | zero => intro k xxx; exact noNeed_ok _
  | succ n ih =>
    intro k xxx
    unfold msDelSigs
    apply noNeed_bind _ _ (top_noNeed _ _)
    intro sig _
    simp only
    split
    · exact noNeed_fail
    · exact ih _ _

theorem checkMultisig_noNeed (T : TotalOracles) (c : Ctx) (hO : c.O = T.toOracles) (st : St) (opcode : Nat) :
    NoNeed (checkMultisig c st opcode) := by
  unfold checkMultisig
  simp only
  split
  · exact noNeed_fail
  · split
    · exact noNeed_fail
    · apply noNeed_bind _ _ (topInt_noNeed _ _ _)
      intro kI _
      split
      · exact noNeed_fail
      · split
        · exact noNeed_fail
        · split
          · exact noNeed_fail
          · apply noNeed_bind _ _ (topInt_noNeed _ _ _)
            intro sI _
            split
            · exact noNeed_fail
            · split
              · exact noNeed_fail
              · apply noNeed_bind
                · split
                  · exact msDelSigs_noNeed _ _ _ _ _ _
                  · exact noNeed_pure _
                · intro xxx _
                  apply noNeed_bind _ _ (msVerifyLoop_noNeed T c hO _ _ _ _ _ _)
                  intro su _
                  apply noNeed_bind _ _ (msCleanup_noNeed _ _ _ _ _)
                  intro s1 _
                  split
                  · exact noNeed_fail
                  · repeat' split
                    all_goals first | exact noNeed_fail | exact noNeed_pure _

theorem sigop_noNeed (T : TotalOracles) (c : Ctx) (hO : c.O = T.toOracles) (hT : TapSigHashOk T c.tx) (st : St) (op idx pos : Nat) (b : Bool)
    (h : isSigOp op = true) : NoNeed (execOp c st op idx pos b) := by
  simp only [isSigOp, Bool.or_eq_true, beq_iff_eq] at h
  rcases h with (((h | h) | h) | h) | h
  · rw [execOp_checksig c st op idx pos b (Or.inl h)]
    unfold checksigBody
    split
    · apply noNeed_bind _ _ (evalChecksig_noNeed T c hO hT _ _ _ _)
      intro cs _
      repeat' split
      all_goals first | exact noNeed_fail | exact noNeed_pure _
    · exact noNeed_fail
  · rw [execOp_checksig c st op idx pos b (Or.inr h)]
    unfold checksigBody
    split
    · apply noNeed_bind _ _ (evalChecksig_noNeed T c hO hT _ _ _ _)
      intro cs _
      repeat' split
      all_goals first | exact noNeed_fail | exact noNeed_pure _
    · exact noNeed_fail
  · subst h
    rw [execOp_csa]
    split
    · exact noNeed_fail
    · split
      · exact noNeed_fail
      · apply noNeed_bind _ _ (top_noNeed _ _)
        intro sig _
        apply noNeed_bind _ _ (topInt_noNeed _ _ _)
        intro num _
        apply noNeed_bind _ _ (top_noNeed _ _)
        intro pk _
        apply noNeed_bind _ _ (evalChecksig_noNeed T c hO hT _ _ _ _)
        intro cs _
        split
        · exact noNeed_fail
        · exact noNeed_pure _
  · rw [execOp_multisig c st op idx pos b (Or.inl h)]
    exact checkMultisig_noNeed T c hO st op
  · rw [execOp_multisig c st op idx pos b (Or.inr h)]
    exact checkMultisig_noNeed T c hO st op

theorem execOp_noNeed_bad (T : TotalOracles) (c : Ctx) (hO : c.O = T.toOracles) (hside : Side T c)
    (hbad : (ScriptSpec.parse c.p).2 = true) (st : St) (op idx pos : Nat) (hgt : op > 0x4e)
    (hor : st.exe.all id = true ∨ (0x63 ≤ op ∧ op ≤ 0x68)) :
    NoNeed (execOp c st op idx pos (st.exe.all id)) := by
  by_cases hsig : isSigOp op = true
  · exact sigop_noNeed T c hO hside.tap st op idx pos _ hsig
  · let s : ScriptSpec.State := ⟨st.stack, st.alt, condOf st.exe, st.opcnt, c.p.drop st.pbegin, st.ed.codesepPos, st.ed.weightLeft⟩
    have hR : Rel c st.ed.tapleafHash st.ed.annexHash st s :=
      ⟨rfl, rfl, rfl, rfl, rfl, rfl, rfl, rfl, rfl, fun _ hg => by rw [hbad] at hg; cases hg⟩
    have := execOp_agree_all T c hO st.ed.tapleafHash st.ed.annexHash st s ⟨op, [], c.p.drop idx⟩ idx pos hR hgt hside rfl
      (fun _ hg => by rw [hbad] at hg; cases hg) (fun h => absurd h hsig) hor
    exact agree_noNeed this

theorem stepAt_noNeed_bad (T : TotalOracles) (c : Ctx) (hO : c.O = T.toOracles) (hside : Side T c)
    (hbad : (ScriptSpec.parse c.p).2 = true) (st : St) (op : Op) (idx pos : Nat) : NoNeed (stepAt c st op idx pos) := by
  have inner : ∀ n, NoNeed (do
      let st' ← (if st.exe.all id && op.opcode ≤ 0x4e then
          (if has c.flags VER_MINDATA && !checkMinimalPush (op.push.getD []) op.opcode then Res.fail
          else Res.ok (({ st with opcnt := n } : St).push (op.push.getD [])))
        else if st.exe.all id || (0x63 ≤ op.opcode && op.opcode ≤ 0x68) then execOp c { st with opcnt := n } op.opcode idx pos (st.exe.all id)
        else Res.ok { st with opcnt := n } : Res St)
      if st'.stack.length + st'.alt.length > 1000 then Res.fail else pure st') := by
    intro n
    apply noNeed_bind
    · by_cases hpush : (st.exe.all id && decide (op.opcode ≤ 0x4e)) = true
      · simp only [hpush, ↓reduceIte]
        split
        · exact noNeed_fail
        · exact noNeed_ok _
      · simp only [hpush, Bool.false_eq_true, ↓reduceIte]
        by_cases hex : (st.exe.all id || decide (0x63 ≤ op.opcode) && decide (op.opcode ≤ 0x68)) = true
        · simp only [hex, ↓reduceIte]
          have hgt : op.opcode > 0x4e := by
            simp only [Bool.and_eq_true, decide_eq_true_eq, not_and] at hpush
            simp only [Bool.or_eq_true, Bool.and_eq_true, decide_eq_true_eq] at hex
            rcases hex with h | h
            · have := hpush h; omega
            · omega
          have hor : (st.exe.all id = true ∨ (0x63 ≤ op.opcode ∧ op.opcode ≤ 0x68)) := by
            simpa only [Bool.or_eq_true, Bool.and_eq_true, decide_eq_true_eq] using hex
          exact execOp_noNeed_bad T c hO hside hbad { st with opcnt := n } op.opcode idx pos hgt hor
        · simp only [hex, Bool.false_eq_true, ↓reduceIte]
          exact noNeed_ok _
    · intro st' _
      split
      · exact noNeed_fail
      · exact noNeed_pure _
  unfold stepAt
  simp only
  by_cases hp : (op.push.getD []).length > MAX_SCRIPT_ELEMENT_SIZE
  · simp only [hp, ↓reduceIte]; exact noNeed_fail
  simp only [hp, ↓reduceIte]
  by_cases hcnt : ((c.sv == SigVersion.base || c.sv == SigVersion.witnessV0) && decide (op.opcode > 96)) = true
  · simp only [hcnt, ↓reduceIte, Bool.true_and]
    by_cases h201 : st.opcnt + 1 > MAX_OPS
    · simp only [h201, decide_true, ↓reduceIte]; exact noNeed_fail
    · simp only [h201, decide_false, Bool.false_eq_true, ↓reduceIte]
      split
      · exact noNeed_fail
      · split
        · exact noNeed_fail
        · exact inner (st.opcnt + 1)
  · simp only [hcnt, Bool.false_eq_true, ↓reduceIte, Bool.false_and]
    split
    · exact noNeed_fail
    · split
      · exact noNeed_fail
      · exact inner st.opcnt

/-- a script with a decode error: the model's loop does not return true, whatever happens on the way -/
theorem evalLoop_bad (c : Ctx) (hnn : ∀ st op idx pos, NoNeed (stepAt c st op idx pos)) :
    ∀ f rest pos st, (ScriptSpec.parseAux f rest).2 = true → (evalLoop c f rest pos st = .fail ∨ evalLoop c f rest pos st = .panic) := by
  intro f
  induction f with
  | zero =>
    intro rest pos st hb
    simp only [ScriptSpec.parseAux] at hb
    have : rest.isEmpty = false := by simpa using hb
    simp [evalLoop, this]
  | succ f ih =>
    intro rest pos st hb
    simp only [ScriptSpec.parseAux] at hb
    simp only [evalLoop]
    by_cases he : rest.isEmpty
    · simp [he] at hb
    · simp only [he, Bool.false_eq_true, ↓reduceIte] at hb ⊢
      cases hg : getOpcode rest with
      | none => left; rfl
      | some op =>
        obtain ⟨i, hp, _, _, h3, _⟩ := parseOne_of_getOpcode hg
        simp only [hp] at hb
        simp only
        have hnn' := hnn st op (c.p.length - rest.length + op.n) pos
        cases hst : stepAt c st op (c.p.length - rest.length + op.n) pos with
        | ok st' =>
          simp only [Res.ok_bind]
          exact ih (rest.drop op.n) (pos + 1) st' (by rw [← h3]; exact hb)
        | fail => left; rfl
        | panic => right; rfl
        | need q => exact absurd hst (hnn' q)

theorem specLoop_bad (e : ScriptSpec.Env) (instrs : List ScriptSpec.Instr) (s : ScriptSpec.State) :
    ∃ err, (do let st ← ScriptSpec.execInstrs e instrs 0 s
               if true then throw ScriptSpec.ScriptError.BAD_OPCODE
               if !st.cond.empty then throw ScriptSpec.ScriptError.UNBALANCED_CONDITIONAL
               pure st.stack : ScriptSpec.E (List Bytes)) = .error err := by
  cases ScriptSpec.execInstrs e instrs 0 s with
  | error x => exact ⟨x, rfl⟩
  | ok st => exact ⟨_, rfl⟩

/-- verdict and final stack agree -/
def EvalMatch (m : Res Stack) (sp : ScriptSpec.E (List Bytes)) : Prop :=
  match sp with
  | .ok s2 => m = .ok s2
  | .error _ => m = .fail

/-- `evalScript` (model, with its size check and recover) against `EvalScript` (spec) on EVERY script: both fail, or
    both succeed with the same final stack -/
theorem evalScript_agree_all (T : TotalOracles) (tx : TxCtx) (flags : Nat) (p : Bytes) (stack : Stack) (sv : SigVersion)
    (ed : ExecData) (hT : TapSigHashOk T tx) (hq : NopsOk flags) :
    EvalMatch (evalScript T.toOracles tx flags p stack sv ed)
      (ScriptSpec.evalScript (envOf T ⟨T.toOracles, tx, flags, sv, p⟩ ed.tapleafHash ed.annexHash) p stack ed.weightLeft) := by
  unfold evalScript ScriptSpec.evalScript
  simp only [envOf_sv, show ScriptSpec.MAX_SCRIPT_SIZE = MAX_SCRIPT_SIZE from rfl]
  by_cases hsz : ((sv == SigVersion.base || sv == SigVersion.witnessV0) && decide (p.length > MAX_SCRIPT_SIZE)) = true
  · simp [hsz, EvalMatch, bind, Except.bind, throw, throwThe, MonadExceptOf.throw]
  · simp only [hsz, Bool.false_eq_true, ↓reduceIte]
    have hside : Side T ⟨T.toOracles, tx, flags, sv, p⟩ := ⟨hT, hq⟩
    have hlen : sv = .base → p.length < 2 ^ 32 := by
      intro hb
      have : ¬ p.length > 10000 := by
        intro h; apply hsz; simp [hb, h, MAX_SCRIPT_SIZE]
      omega
    unfold ScriptSpec.parse
    cases hbad : (ScriptSpec.parseAux p.length p).2
    · -- the script decodes to its end: step simulation
      have hR0 : Rel ⟨T.toOracles, tx, flags, sv, p⟩ ed.tapleafHash ed.annexHash { stack := stack, ed := { ed with codesepPos := 0xFFFFFFFF } }
          { stack := stack, code := p, weightLeft := ed.weightLeft } :=
        ⟨rfl, rfl, rfl, rfl, by simp, rfl, rfl, rfl, rfl, fun hb _ => ⟨hbad, hlen hb⟩⟩
      have hloop := evalLoop_agree_wf T ⟨T.toOracles, tx, flags, sv, p⟩ rfl ed.tapleafHash ed.annexHash hside hlen hbad p.length p 0 _ _ hR0
        ⟨[], rfl⟩ (Nat.le_refl _) hbad
      generalize evalLoop ⟨T.toOracles, tx, flags, sv, p⟩ p.length p 0 _ = X at hloop ⊢
      generalize hpr : ScriptSpec.parseAux p.length p = pr at hloop hbad ⊢
      obtain ⟨instrs, bad⟩ := pr
      simp only at hloop hbad ⊢
      subst hbad
      generalize ScriptSpec.execInstrs _ instrs 0 _ = Y at hloop ⊢
      cases hloop with
      | fail => simp [EvalMatch, recoverPanic, Res.bind, bind, Except.bind]
      | panic => simp [EvalMatch, recoverPanic, Res.bind, bind, Except.bind]
      | ok hR =>
        rename_i a b
        simp only [bind, Except.bind, Res.bind, Bool.false_eq_true, ↓reduceIte, pure, Except.pure, hR.cond, condOf_empty]
        cases hex : a.exe with
        | nil => simp [EvalMatch, recoverPanic, hR.stack]
        | cons x r => simp [EvalMatch, recoverPanic, throw, throwThe, MonadExceptOf.throw]
    · -- a decode error somewhere: both interpreters fail
      have hnn := stepAt_noNeed_bad T ⟨T.toOracles, tx, flags, sv, p⟩ rfl hside hbad
      have hm := evalLoop_bad ⟨T.toOracles, tx, flags, sv, p⟩ hnn p.length p 0
        { stack := stack, ed := { ed with codesepPos := 0xFFFFFFFF } } hbad
      generalize hpr : ScriptSpec.parseAux p.length p = pr at hbad ⊢
      obtain ⟨instrs, bad⟩ := pr
      simp only at hbad ⊢
      subst hbad
      generalize ScriptSpec.execInstrs _ instrs 0 _ = Y
      cases Y <;> rcases hm with hm | hm <;>
        simp [hm, EvalMatch, recoverPanic, Res.bind, bind, Except.bind, throw, throwThe, MonadExceptOf.throw]

end GocoinV.Proofs.C01
