/-
  Proofs.C08_TabPrec — the comb table `prec` (64 rows × 16), `fin`, and the base point of `pre_g_128`,
  evaluated with the reference group law in the kernel.
-/
import GocoinV.Proofs.C08_TabDefs
import GocoinV.Gen.Tables

namespace GocoinV.C08
open GocoinV.Gen

/-- rows of 16: within a row every entry is the previous one plus the row's first entry
    (row = B, 2B, …, 16B); the next row starts at this row's last entry (16B); `n` rows, nothing left over -/
def precRowsOK : Nat → Secp.Point → List Secp.Point → Bool
  | 0, _, l => l.isEmpty
  | n+1, h, l =>
    let row := l.take 16
    (row.length == 16) && (row.headD none == h) && chainOK h row && precRowsOK n (row.getLastD none) (l.drop 16)

/-- Σ_j (first entry of row j), rows of 16, by reference additions -/
def headsSum : Nat → List Secp.Point → Secp.Point → Secp.Point
  | 0, _, acc => acc
  | n+1, l, acc => headsSum n (l.drop 16) (Secp.add acc (l.headD none))

theorem preG128_head : (pts Tables.preG12800).head? = some g128 := by decide +kernel

theorem prec_rows : precRowsOK 64 Secp.G (pts Tables.precAll) = true := by decide +kernel

/-- `fin` is the negative of the sum of the 64 row bases (Σ_j 16^j·G) -/
theorem fin_neg_sum : ptOfLimbs Tables.fin = Secp.neg (headsSum 64 (pts Tables.precAll) none) := by decide +kernel

end GocoinV.C08
