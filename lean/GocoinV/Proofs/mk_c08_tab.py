#!/usr/bin/env python3
"""One-off generator of the static per-chunk table proof modules Proofs/C08_Tab*.lean (C08).
Each chunk module evaluates, in the Lean kernel (`decide +kernel`), the reference group law on the 256
entries of one generated table chunk. Re-run only if the number of chunks changes."""
import os
D = os.path.dirname(os.path.abspath(__file__))
def w(name, s): open(os.path.join(D, name), "w").write(s)
HDR = "/- C08 table proof chunk (written once by Proofs/mk_c08_tab.py; static). -/\n"
mods = []
for tab, pref, nch, d in (("preG", "PreG", 16, "Secp.dbl Secp.G"), ("preG128", "PreG128", 16, "Secp.dbl g128")):
    for c in range(nch):
        m = "C08_Tab%s_%02d" % (pref, c)
        mods.append(m)
        imp = "import GocoinV.Proofs.C08_TabDefs\nimport GocoinV.Gen.Tables%s%02d\n" % (pref, c)
        if c > 0: imp += "import GocoinV.Gen.Tables%s%02d\n" % (pref, c - 1)
        body = "namespace GocoinV.C08\nopen GocoinV.Gen\n\n"
        if c == 0:
            body += "theorem %s_%02d : chainOK (%s) (pts Tables.%s%02d) = true := by decide +kernel\n" % (tab, c, d, tab, c)
        else:
            body += "theorem %s_%02d : chainOK (%s) ((pts Tables.%s%02d).getLastD none :: pts Tables.%s%02d) = true := by\n  decide +kernel\n" % (tab, c, d, tab, c - 1, tab, c)
        body += "theorem %s_%02d_ne : pts Tables.%s%02d ≠ [] := by decide +kernel\n" % (tab, c, tab, c)
        body += "\nend GocoinV.C08\n"
        w(m + ".lean", HDR + imp + body)
# assembly
s = HDR + "import GocoinV.Gen.Tables\n" + "".join("import GocoinV.Proofs.%s\n" % m for m in mods)
s += "import GocoinV.Proofs.C08_TabPrec\n"
s += """namespace GocoinV.C08
open GocoinV.Gen

theorem getLastD_append_ne {α : Type} (l1 l2 : List α) (d : α) (h : l2 ≠ []) :
    (l1 ++ l2).getLastD d = l2.getLastD d := by
  cases l2 with
  | nil => exact absurd rfl h
  | cons b t =>
    cases hl : (b :: t).getLast? with
    | none => exact absurd (List.getLast?_eq_none_iff.mp hl) (by simp)
    | some x => simp [List.getLastD_eq_getLast?, List.getLast?_append, hl]

theorem pts_append (a b : List (List Nat)) : pts (a ++ b) = pts a ++ pts b := List.map_append

theorem pts_getD (l : List (List Nat)) (i : Nat) (hi : i < l.length) :
    (pts l).getD i none = ptOfLimbs (l.getD i []) := by
  simp [pts, List.getD_eq_getElem?_getD, hi]

"""
for tab, d in (("preG", "Secp.dbl Secp.G"), ("preG128", "Secp.dbl g128")):
    s += "theorem %s_chain : chainOK (%s) (pts Tables.%sAll) = true := by\n" % (tab, d, tab)
    s += "  unfold Tables.%sAll\n" % tab
    s += "  have h0 := %s_00\n" % tab
    acc = "Tables.%s00" % tab
    for c in range(1, 16):
        s += "  have h%d : chainOK (%s) (pts (%s ++ Tables.%s%02d)) = true := by\n" % (c, d, acc, tab, c)
        s += "    rw [pts_append]\n"
        s += "    refine chainOK_glue _ _ _ h%d ?_ ?_\n" % (c - 1)
        if c == 1:
            s += "    · exact %s_%02d\n    · exact %s_00_ne\n" % (tab, c, tab)
        else:
            s += "    · rw [pts_append, getLastD_append_ne _ _ _ %s_%02d_ne]; exact %s_%02d\n" % (tab, c - 1, tab, c)
            s += "    · rw [pts_append]; intro h; exact %s_%02d_ne (List.append_eq_nil_iff.mp h).2\n" % (tab, c - 1)
        acc = "%s ++ Tables.%s%02d" % (acc, tab, c)
    s += "  exact h15\n\n"
s += "end GocoinV.C08\n"
w("C08_TabAll.lean", s)
