/-
  Proofs.C06Path — the active-branch invariant `PathOK` (Spec/ChainReplay) through the primitive steps of the chain
  model: UndoLastBlock, the disconnect loop of MoveToBlock (undoTo), the connect step of ParseTillBlock / CommitBlock.
-/
import GocoinV.Spec.ChainReplay
import GocoinV.Proofs.C06Replay
import GocoinV.Proofs.C06Chain
namespace GocoinV.ChainTree
open GocoinV.UtxoOps

theorem headId_congr {c c' : Chain} (hr : c'.root = c.root) (p : List PE) : headId c' p = headId c p := by
  cases p <;> simp [headId, hr]

theorem Linked_congr {c c' : Chain} (hn : c'.nodes = c.nodes) (hs : c'.store = c.store) (hr : c'.root = c.root)
    (p : List PE) (h : Linked c p) : Linked c' p := by
  induction p with
  | nil => trivial
  | cons e rest ih =>
    obtain ⟨⟨n, h1, h2⟩, ⟨blk, h3, h4⟩, h5⟩ := h
    refine ⟨⟨n, ?_, ?_⟩, ⟨blk, ?_, h4⟩, ih h5⟩
    · unfold getNode at h1 ⊢; rw [hn]; exact h1
    · rw [headId_congr hr]; exact h2
    · rw [hs]; exact h3

theorem UndoOK_congr {c c' : Chain} (hu : c'.undoFiles = c.undoFiles) (fl : Nat)
    (p : List PE) (h : UndoOK c fl p) : UndoOK c' fl p := by
  induction p with
  | nil => trivial
  | cons e rest ih =>
    refine ⟨?_, ih h.2⟩
    intro hgt
    obtain ⟨u, ch, h1, h2, h3⟩ := h.1 hgt
    exact ⟨u, ch, h1, h2, by rw [hu]; exact h3⟩

/-- **UndoLastBlock under the invariant**: it does not panic (tip node, stored block and undo file are found) and the
    result satisfies the invariant for the path without its tip — the unspent map is again the replay of the
    remaining branch. -/
theorem undoLast_path (c : Chain) (fl : Nat) (e : PE) (rest : List PE) (h : PathOK c fl (e :: rest))
    (hfl : rest.length + 1 > fl) :
    ∃ c', undoLast c = .ok c' ∧ PathOK c' fl rest ∧ c'.nodes = c.nodes ∧ c'.store = c.store ∧ c'.root = c.root ∧
      c'.undoFiles = c.undoFiles := by
  obtain ⟨htip, hlast, ⟨⟨n, hn, hnp⟩, ⟨blk, hblk, htxs⟩, hl⟩, ⟨u2, hr2, heq⟩, ⟨hun, hurest⟩, ⟨hfr, hfrest⟩⟩ := h
  obtain ⟨u, ch, hru, hct, hfile⟩ := hun hfl
  simp only [replay, hru, hct, Option.some.injEq] at hr2
  subst hr2
  have hid := getNode_id hn
  have htip' : c.tip = e.id := htip
  have hlast' : c.lastHeight = rest.length + 1 := by simpa using hlast
  refine ⟨_, undoLast_ok c n blk ch.undo (by rw [htip']; exact hn) (by rw [hid]; exact hblk)
    (by rw [hlast']; exact hfile), ?_, rfl, rfl, rfl, rfl⟩
  refine ⟨?_, ?_, ?_, ⟨u, hru, ?_⟩, ?_, hfrest⟩
  · show n.parent = headId _ rest
    rw [hnp]; exact (headId_congr rfl rest).symm
  · show c.lastHeight - 1 = rest.length
    omega
  · exact Linked_congr (c := c) (by rfl) (by rfl) (by rfl) rest hl
  · show DBEq (undoBlock c.utxo (blk.txs.map (·.txid)) ch.undo) u
    rw [htxs]
    exact undo_step heq hct (hfr u hru)
  · exact UndoOK_congr (c := c) (by rfl) fl rest hurest


/-- **The disconnect loop of MoveToBlock under the invariant**: unwinding the blocks `pre` above a block of the active
    branch (`post` = the branch up to and including the target) never panics and ends in a state whose unspent map is
    the replay of `post` — whatever happens afterwards, the disconnected blocks have left no residue. -/
theorem undoTo_path (target : Nat) (fl : Nat) (post : List PE) :
    ∀ (pre : List PE) (f : Nat) (c : Chain), PathOK c fl (pre ++ post) → post.length ≥ fl →
      target = headId c post → (∀ e ∈ pre, e.id ≠ target) → f > pre.length →
      ∃ c', undoTo target f c = .ok c' ∧ PathOK c' fl post ∧ c'.nodes = c.nodes ∧ c'.store = c.store ∧
        c'.root = c.root ∧ c'.undoFiles = c.undoFiles := by
  intro pre
  induction pre with
  | nil =>
    intro f c h _ ht _ hf
    cases f with
    | zero => omega
    | succ f =>
      refine ⟨c, ?_, h, rfl, rfl, rfl, rfl⟩
      have : c.tip = target := by rw [ht]; exact h.tip
      simp [undoTo, this, pure, Except.pure]
  | cons e pre ih =>
    intro f c h hfl ht hne hf
    cases f with
    | zero => omega
    | succ f =>
      have htip : c.tip = e.id := h.tip
      have hne1 : (c.tip == target) = false := by
        rw [htip]; simpa using hne e List.mem_cons_self
      obtain ⟨c1, h1, hp1, hn1, hs1, hr1, hu1⟩ :=
        undoLast_path c fl e (pre ++ post) h (by simp only [List.length_append]; omega)
      have ht1 : target = headId c1 post := by rw [ht]; exact (headId_congr hr1 post).symm
      obtain ⟨c2, h2, hp2, hn2, hs2, hr2, hu2⟩ :=
        ih f c1 hp1 hfl ht1 (fun x hx => hne x (List.mem_cons_of_mem _ hx)) (by simp only [List.length_cons] at hf; omega)
      refine ⟨c2, ?_, hp2, hn2.trans hn1, hs2.trans hs1, hr2.trans hr1, hu2.trans hu1⟩
      simp only [undoTo, hne1, Bool.false_eq_true, if_false, bind, Except.bind, h1]
      exact h2


-- ------------------------------------------------------------------------------------------ connecting a block

theorem alookup_aset_ne {β} (k j : Nat) (v : β) (l : List (Nat × β)) (h : k ≠ j) :
    alookup k (aset j v l) = alookup k l := by
  induction l with
  | nil =>
    have : (j == k) = false := by simpa using fun e => h e.symm
    simp [aset, alookup, this]
  | cons p ps ih =>
    obtain ⟨a, b⟩ := p
    by_cases h1 : a = j
    · subst h1
      have : (a == k) = false := by simpa using fun e => h e.symm
      simp [aset, alookup, this]
    · have h2 : (a == j) = false := by simpa using h1
      simp only [aset, h2, Bool.false_eq_true, if_false, alookup, ih]

theorem cbt_root (c : Chain) (h : Nat) (w : Bool) (t : List Nat) (ch : Changes) :
    (commitBlockTxs c h w t ch).root = c.root := by
  unfold commitBlockTxs
  by_cases hv : validChangesB c.utxo t ch = true <;> simp [hv]

/-- `commitBlockTxs` leaves every other undo file alone, except the one it prunes (height − UnwindBufLen) -/
theorem cbt_undo_other (c : Chain) (h k : Nat) (t : List Nat) (ch : Changes) (hk : k ≠ h)
    (hp : k + UnwindBufLen ≠ h) :
    alookup k (commitBlockTxs c h true t ch).undoFiles = alookup k c.undoFiles := by
  unfold commitBlockTxs
  by_cases hv : validChangesB c.utxo t ch = true <;> simp only [hv, if_true]
  all_goals
    by_cases hh : h > UnwindBufLen
    · simp only [hh, if_true]
      rw [alookup_filter_ne _ _ _ (by omega)]
      exact alookup_aset_ne _ _ _ _ hk
    · simp only [hh]
      exact alookup_aset_ne _ _ _ _ hk

theorem Linked_mono {c c' : Chain} (hr : c'.root = c.root) (p : List PE)
    (hnodes : ∀ e ∈ p, ∀ n, getNode c e.id = some n → ∃ n', getNode c' e.id = some n' ∧ n'.parent = n.parent)
    (hstore : ∀ e ∈ p, ∀ b0, alookup e.id c.store = some b0 → ∃ b1, alookup e.id c'.store = some b1 ∧ b1.txs = b0.txs)
    (h : Linked c p) : Linked c' p := by
  induction p with
  | nil => trivial
  | cons e rest ih =>
    obtain ⟨⟨n, h1, h2⟩, ⟨blk, h3, h4⟩, h5⟩ := h
    obtain ⟨n', hn', hp'⟩ := hnodes e List.mem_cons_self _ h1
    obtain ⟨b1, hb1, ht1⟩ := hstore e List.mem_cons_self _ h3
    exact ⟨⟨n', hn', by rw [hp', h2, headId_congr hr]⟩, ⟨b1, hb1, ht1.trans h4⟩,
      ih (fun x hx => hnodes x (List.mem_cons_of_mem _ hx)) (fun x hx => hstore x (List.mem_cons_of_mem _ hx)) h5⟩

theorem UndoOK_mono {c c' : Chain} (fl fl' N : Nat) (hfl : fl' ≥ fl)
    (hfiles : ∀ k, k > fl' → k ≤ N → alookup k c'.undoFiles = alookup k c.undoFiles)
    (p : List PE) (hN : p.length ≤ N) (h : UndoOK c fl p) : UndoOK c' fl' p := by
  induction p with
  | nil => trivial
  | cons e rest ih =>
    simp only [List.length_cons] at hN
    refine ⟨?_, ih (by omega) h.2⟩
    intro hgt
    obtain ⟨u, ch, h1, h2, h3⟩ := h.1 (by omega)
    exact ⟨u, ch, h1, h2, by rw [hfiles _ hgt (by omega)]; exact h3⟩

/-- **Connecting a block under the invariant** (the step shared by CommitBlock's tip extension and ParseTillBlock):
    `c1` is `c` with the block stored / marked trusted / its node's TxCount set (anything that keeps parents and stored
    transactions); if `commitTxs` accepts the block's transactions on the current map, its txids are not in the map
    (BIP30), and its node hangs below the tip, then after `CommitBlockTxs` + SetLast the invariant holds for the path
    extended by the block: the map is the replay of the longer branch and the new undo file is in place. -/
theorem connect_path (c c1 : Chain) (fl : Nat) (path : List PE) (h : PathOK c fl path) (nx : Nat) (txs : List Tx)
    (ch : Changes) (tr : Bool)
    (hroot : c1.root = c.root) (hutxo : c1.utxo = c.utxo) (hfiles : c1.undoFiles = c.undoFiles)
    (hnodes : ∀ e ∈ path, ∀ n, getNode c e.id = some n → ∃ n', getNode c1 e.id = some n' ∧ n'.parent = n.parent)
    (hstore : ∀ e ∈ path, ∀ b0, alookup e.id c.store = some b0 → ∃ b1, alookup e.id c1.store = some b1 ∧ b1.txs = b0.txs)
    (hn : ∃ n, getNode c1 nx = some n ∧ n.parent = c.tip)
    (hs : ∃ blk, alookup nx c1.store = some blk ∧ blk.txs = txs)
    (hct : commitTxs c.utxo (path.length + 1) (reward (path.length + 1)) tr txs = .ok ch)
    (hfresh : ∀ t ∈ txs.map (·.txid), c.utxo.get t = none) :
    PathOK { commitBlockTxs c1 (path.length + 1) true (txs.map (·.txid)) ch with tip := nx }
      (max fl (path.length + 1 - UnwindBufLen)) (⟨nx, txs⟩ :: path) := by
  obtain ⟨u, hru, heq⟩ := h.utxo
  have hf := cbt_fields c1 (path.length + 1) true (txs.map (·.txid)) ch
  have hst := cbt_store c1 (path.length + 1) true (txs.map (·.txid)) ch
  have hrt := cbt_root c1 (path.length + 1) true (txs.map (·.txid)) ch
  have hct' : commitTxs u (path.length + 1) (reward (path.length + 1)) true txs = .ok ch := by
    rw [← commitTxs_congr heq]; exact commitTxs_trusted hct
  have hrep : replay (⟨nx, txs⟩ :: path) = some (commit u ch) := by
    simp only [replay, hru, hct']
  -- the chain after the step, seen from `c`
  have hnodes' : ∀ e ∈ path, ∀ n, getNode c e.id = some n →
      ∃ n', getNode { commitBlockTxs c1 (path.length + 1) true (txs.map (·.txid)) ch with tip := nx } e.id = some n' ∧
        n'.parent = n.parent := by
    intro e he n hg
    obtain ⟨n', h1, h2⟩ := hnodes e he n hg
    refine ⟨n', ?_, h2⟩
    unfold getNode at h1 ⊢
    simp only [hf.2.2.2]; exact h1
  refine ⟨rfl, ?_, ⟨?_, ?_, ?_⟩, ⟨_, hrep, ?_⟩, ⟨?_, ?_⟩, ⟨?_, h.fresh⟩⟩
  · simp only [hf.2.1, List.length_cons]
  · obtain ⟨n, hg, hp⟩ := hn
    refine ⟨n, ?_, ?_⟩
    · unfold getNode at hg ⊢
      simp only [hf.2.2.2]; exact hg
    · rw [hp, h.tip]
      exact (headId_congr (c := c) (by simp only [hrt, hroot]) path).symm
  · obtain ⟨blk, hb, ht⟩ := hs
    exact ⟨blk, by simp only [hst]; exact hb, ht⟩
  · exact Linked_mono (c := c) (by simp only [hrt, hroot]) path hnodes'
      (by intro e he b0 hb0; simp only [hst]; exact hstore e he b0 hb0) h.linked
  · simp only [hf.1, hutxo]
    exact commit_congr heq ch
  · intro _
    exact ⟨u, ch, hru, hct', cbt_undo_file c1 _ _ ch⟩
  · refine UndoOK_mono (c := c) fl _ path.length (Nat.le_max_left _ _) ?_ path (Nat.le_refl _) h.undo
    intro k hk1 hk2
    simp only
    rw [cbt_undo_other c1 _ k _ ch (by omega) (by have := Nat.le_max_right fl (path.length + 1 - UnwindBufLen); omega), hfiles]
  · intro u' hu' t ht
    rw [hru] at hu'
    cases hu'
    rw [← heq t]; exact hfresh t ht


-- ------------------------------------------------------------------------------------------ the two callers

theorem find_map_node (l : List Node) (id x : Nat) (f : Node → Node) (n : Node)
    (hf : ∀ m, (f m).id = m.id ∧ (f m).parent = m.parent)
    (h : l.find? (fun m => m.id == x) = some n) :
    ∃ n', (l.map fun m => if m.id == id then f m else m).find? (fun m => m.id == x) = some n' ∧
      n'.parent = n.parent ∧ n'.id = n.id := by
  induction l with
  | nil => simp at h
  | cons m ms ih =>
    have hg : ∀ m : Node, (if m.id == id then f m else m).id = m.id ∧ (if m.id == id then f m else m).parent = m.parent := by
      intro m; by_cases hid : (m.id == id) = true
      · simp only [hid, if_true]; exact hf m
      · simp only [hid]; exact ⟨rfl, rfl⟩
    simp only [List.map_cons, List.find?_cons] at h ⊢
    by_cases hm : (m.id == x) = true
    · simp only [hm] at h
      cases h
      simp only [(hg n).1, hm]
      exact ⟨_, rfl, (hg n).2, (hg n).1⟩
    · have h1 : (m.id == x) = false := by simpa using hm
      simp only [h1] at h
      simp only [(hg m).1, h1]
      exact ih h

theorem getNode_modNode {c : Chain} {id x : Nat} {f : Node → Node} {n : Node}
    (hf : ∀ m, (f m).id = m.id ∧ (f m).parent = m.parent) (h : getNode c x = some n) :
    ∃ n', getNode (modNode c id f) x = some n' ∧ n'.parent = n.parent ∧ n'.id = n.id :=
  find_map_node c.nodes id x f n hf h

/-- **CommitBlock, tip extension, under the invariant.** -/
theorem commitBlock_path (c : Chain) (fl : Nat) (path : List PE) (h : PathOK c fl path) (b : Block) (ch : Changes)
    (htip : c.tip = b.parent)
    (hnode : ∃ n, getNode c b.id = some n ∧ n.parent = b.parent)
    (hnew : ∀ e ∈ path, e.id ≠ b.id)
    (hok : commitTxs c.utxo (path.length + 1) (reward (path.length + 1)) false b.txs = .ok ch)
    (hfresh : ∀ t ∈ b.txs.map (·.txid), c.utxo.get t = none) :
    PathOK (commitBlock c b (path.length + 1)).1 (max fl (path.length + 1 - UnwindBufLen)) (⟨b.id, b.txs⟩ :: path) := by
  rw [commitBlock_ok_eq c b _ ch htip hok]
  have hfm : ∀ m : Node, ({ m with txCount := b.txs.length } : Node).id = m.id ∧
      ({ m with txCount := b.txs.length } : Node).parent = m.parent := fun m => ⟨rfl, rfl⟩
  apply connect_path c (preCommit c b) fl path h b.id b.txs ch false rfl rfl rfl
  · intro e _ n hg
    obtain ⟨n', h1, h2, _⟩ := getNode_modNode (id := b.id) hfm hg
    exact ⟨n', h1, h2⟩
  · intro e he b0 hb0
    refine ⟨b0, ?_, rfl⟩
    show alookup e.id (aset b.id _ c.store) = some b0
    rw [alookup_aset_ne _ _ _ _ (hnew e he)]; exact hb0
  · obtain ⟨n, hg, hp⟩ := hnode
    obtain ⟨n', h1, h2, _⟩ := getNode_modNode (id := b.id) hfm hg
    exact ⟨n', h1, by rw [h2, hp, htip]⟩
  · exact ⟨_, alookup_aset _ _ _, rfl⟩
  · exact hok
  · exact hfresh

/-- the state ParseTillBlock produces when it connects the stored block `nx` (one loop iteration, success branch) -/
def parseStep (c : Chain) (nx : Nat) (nxt : Node) (blk : Stored) (ch : Changes) (w : Bool) : Chain :=
  { commitBlockTxs { c with store := aset nx { blk with trusted := true } c.store } nxt.height w
      (blk.txs.map (·.txid)) ch with tip := nx }

/-- **ParseTillBlock's connect step under the invariant** (undo data written, i.e. within UnwindBufLen of the target). -/
theorem parseStep_path (c : Chain) (fl : Nat) (path : List PE) (h : PathOK c fl path) (nx : Nat) (nxt : Node)
    (blk : Stored) (ch : Changes)
    (hnode : getNode c nx = some nxt) (hpar : nxt.parent = c.tip) (hh : nxt.height = path.length + 1)
    (hblk : alookup nx c.store = some blk)
    (hok : commitTxs c.utxo nxt.height (reward nxt.height) blk.trusted blk.txs = .ok ch)
    (hfresh : ∀ t ∈ blk.txs.map (·.txid), c.utxo.get t = none) :
    PathOK (parseStep c nx nxt blk ch true) (max fl (path.length + 1 - UnwindBufLen)) (⟨nx, blk.txs⟩ :: path) := by
  unfold parseStep
  rw [hh] at hok ⊢
  apply connect_path c { c with store := aset nx { blk with trusted := true } c.store } fl path h nx blk.txs ch
    blk.trusted rfl rfl rfl
  · intro e _ n hg; exact ⟨n, hg, rfl⟩
  · intro e _ b0 hb0
    by_cases he : e.id = nx
    · rw [he] at hb0 ⊢
      rw [hblk] at hb0; cases hb0
      exact ⟨_, alookup_aset _ _ _, rfl⟩
    · exact ⟨b0, by show alookup e.id (aset nx _ c.store) = some b0; rw [alookup_aset_ne _ _ _ _ he]; exact hb0, rfl⟩
  · exact ⟨nxt, hnode, hpar⟩
  · exact ⟨_, alookup_aset _ _ _, rfl⟩
  · exact hok
  · exact hfresh

theorem init_path (r bits : Nat) : PathOK (ChainTree.init r bits) 0 [] :=
  ⟨rfl, rfl, trivial, ⟨[], rfl, fun _ => rfl⟩, trivial, trivial⟩

theorem deleteBranch_fields (c : Chain) (id : Nat) :
    (deleteBranch c id).utxo = c.utxo ∧ (deleteBranch c id).undoFiles = c.undoFiles ∧
    (deleteBranch c id).tip = c.tip ∧ (deleteBranch c id).lastHeight = c.lastHeight ∧
    (deleteBranch c id).root = c.root := by
  unfold deleteBranch
  cases getNode c id with
  | none => exact ⟨rfl, rfl, rfl, rfl, rfl⟩
  | some n => exact ⟨rfl, rfl, rfl, rfl, rfl⟩



/-- `parseStep` IS the success branch of one `parseTill` iteration -/
theorem parseTill_step (f : Nat) (c : Chain) (e nx : Nat) (last en nxt : Node) (blk : Stored) (ch : Changes)
    (hne : c.tip ≠ e) (hlast : getNode c c.tip = some last) (hen : getNode c e = some en)
    (hpath : findPathTo c last en = .ok (some nx)) (hnxt : getNode c nx = some nxt) (htx : nxt.txCount ≠ 0)
    (hblk : alookup nx c.store = some blk)
    (hok : commitTxs c.utxo nxt.height (reward nxt.height) blk.trusted blk.txs = .ok ch) :
    parseTill (f + 1) c e =
      parseTill f (parseStep c nx nxt blk ch (decide (nxt.height + UnwindBufLen ≥ en.height))) e := by
  have h1 : (c.tip == e) = false := by simpa using hne
  have h2 : (nxt.txCount == 0) = false := by simpa using htx
  rw [parseTill]
  simp only [h1, Bool.false_eq_true, if_false, node!, hlast, hen, hnxt, bind, Except.bind, pure, Except.pure, hpath, h2, hblk, hok, parseStep]


/-- MoveToBlock = the three climbing loops, then the disconnect loop `undoTo` down to the common block, then ParseTillBlock -/
theorem moveTo_eq (f : Nat) (c : Chain) (dst : Nat) (d lb cur lb2 anc : Node)
    (hd : getNode c dst = some d) (hlb : getNode c c.tip = some lb)
    (h1 : climbChecked c lb.height (d.height + 1) d = .ok (some cur))
    (h2 : climbChecked c cur.height (lb.height + 1) lb = .ok (some lb2))
    (h3 : commonAnc c (cur.height + 2) lb2 cur = .ok (some anc)) :
    moveTo (f + 1) c dst = (undoTo anc.id (lb.height + 2) c >>= fun c1 => parseTill f c1 dst) := by
  rw [moveTo]
  simp only [node!, hd, hlb, bind, Except.bind, pure, Except.pure, h1, h2, h3]

/-- **A reorganisation's disconnect phase leaves no residue.** If the invariant holds for the active branch
    `pre ++ post`, where `post` ends in the common block `anc` found by MoveToBlock's climbing loops, then MoveToBlock
    does not panic while disconnecting and hands ParseTillBlock a state whose unspent map is exactly the replay of `post`
    (tip = the common block, LastBlockHeight = its height, undo files of `post` intact, tree and store untouched). -/
theorem moveTo_unwind (f : Nat) (c : Chain) (fl : Nat) (pre post : List PE) (dst : Nat) (d lb cur lb2 anc : Node)
    (h : PathOK c fl (pre ++ post)) (hfl : post.length ≥ fl)
    (hd : getNode c dst = some d) (hlb : getNode c c.tip = some lb)
    (h1 : climbChecked c lb.height (d.height + 1) d = .ok (some cur))
    (h2 : climbChecked c cur.height (lb.height + 1) lb = .ok (some lb2))
    (h3 : commonAnc c (cur.height + 2) lb2 cur = .ok (some anc))
    (hanc : anc.id = headId c post) (hne : ∀ e ∈ pre, e.id ≠ anc.id) (hh : lb.height + 1 ≥ pre.length) :
    ∃ c1, PathOK c1 fl post ∧ c1.nodes = c.nodes ∧ c1.store = c.store ∧ c1.root = c.root ∧
      moveTo (f + 1) c dst = parseTill f c1 dst := by
  obtain ⟨c1, hu, hp, hn, hs, hr, _⟩ := undoTo_path anc.id fl post pre (lb.height + 2) c h hfl hanc hne (by omega)
  refine ⟨c1, hp, hn, hs, hr, ?_⟩
  rw [moveTo_eq f c dst d lb cur lb2 anc hd hlb h1 h2 h3, hu]
  rfl

end GocoinV.ChainTree
