/-
  Proofs.C06Path — the active-branch invariant `PathOK` (Spec/ChainReplay) through the primitive steps of the chain
  model: UndoLastBlock, the disconnect loop of MoveToBlock (undoTo), the connect step of ParseTillBlock / CommitBlock.
-/
import GocoinV.Spec.ChainReplay
import GocoinV.Proofs.C06Replay
import GocoinV.Proofs.C06Chain
namespace GocoinV.ChainTree
open GocoinV.UtxoOps

theorem headId_congr {c c' : Chain} (hr : c'.root = c.root) (p : List PE) : headId c' p = headId c p := by
  cases p <;> simp [headId, hr]

theorem Linked_congr {c c' : Chain} (hn : c'.nodes = c.nodes) (hs : c'.store = c.store) (hr : c'.root = c.root)
    (p : List PE) (h : Linked c p) : Linked c' p := by
  induction p with
  | nil => trivial
  | cons e rest ih =>
    obtain ⟨⟨n, h1, h2⟩, ⟨blk, h3, h4⟩, h5⟩ := h
    refine ⟨⟨n, ?_, ?_⟩, ⟨blk, ?_, h4⟩, ih h5⟩
    · unfold getNode at h1 ⊢; rw [hn]; exact h1
    · rw [headId_congr hr]; exact h2
    · rw [hs]; exact h3

theorem UndoOK_congr {c c' : Chain} (hu : c'.undoFiles = c.undoFiles) (fl : Nat)
    (p : List PE) (h : UndoOK c fl p) : UndoOK c' fl p := by
  induction p with
  | nil => trivial
  | cons e rest ih =>
    refine ⟨?_, ih h.2⟩
    intro hgt
    obtain ⟨u, ch, h1, h2, h3⟩ := h.1 hgt
    exact ⟨u, ch, h1, h2, by rw [hu]; exact h3⟩

/-- **UndoLastBlock under the invariant**: it does not panic (tip node, stored block and undo file are found) and the
    result satisfies the invariant for the path without its tip — the unspent map is again the replay of the
    remaining branch. -/
theorem undoLast_path (c : Chain) (fl : Nat) (e : PE) (rest : List PE) (h : PathOK c fl (e :: rest))
    (hfl : rest.length + 1 > fl) :
    ∃ c', undoLast c = .ok c' ∧ PathOK c' fl rest ∧ c'.nodes = c.nodes ∧ c'.store = c.store ∧ c'.root = c.root ∧
      c'.undoFiles = c.undoFiles := by
  obtain ⟨htip, hlast, ⟨⟨n, hn, hnp⟩, ⟨blk, hblk, htxs⟩, hl⟩, ⟨u2, hr2, heq⟩, ⟨hun, hurest⟩, ⟨hfr, hfrest⟩⟩ := h
  obtain ⟨u, ch, hru, hct, hfile⟩ := hun hfl
  simp only [replay, hru, hct, Option.some.injEq] at hr2
  subst hr2
  have hid := getNode_id hn
  have htip' : c.tip = e.id := htip
  have hlast' : c.lastHeight = rest.length + 1 := by simpa using hlast
  refine ⟨_, undoLast_ok c n blk ch.undo (by rw [htip']; exact hn) (by rw [hid]; exact hblk)
    (by rw [hlast']; exact hfile), ?_, rfl, rfl, rfl, rfl⟩
  refine ⟨?_, ?_, ?_, ⟨u, hru, ?_⟩, ?_, hfrest⟩
  · show n.parent = headId _ rest
    rw [hnp]; exact (headId_congr rfl rest).symm
  · show c.lastHeight - 1 = rest.length
    omega
  · exact Linked_congr (c := c) (by rfl) (by rfl) (by rfl) rest hl
  · show DBEq (undoBlock c.utxo (blk.txs.map (·.txid)) ch.undo) u
    rw [htxs]
    exact undo_step heq hct (hfr u hru)
  · exact UndoOK_congr (c := c) (by rfl) fl rest hurest


/-- **The disconnect loop of MoveToBlock under the invariant**: unwinding the blocks `pre` above a block of the active
    branch (`post` = the branch up to and including the target) never panics and ends in a state whose unspent map is
    the replay of `post` — whatever happens afterwards, the disconnected blocks have left no residue. -/
theorem undoTo_path (target : Nat) (fl : Nat) (post : List PE) :
    ∀ (pre : List PE) (f : Nat) (c : Chain), PathOK c fl (pre ++ post) → post.length ≥ fl →
      target = headId c post → (∀ e ∈ pre, e.id ≠ target) → f > pre.length →
      ∃ c', undoTo target f c = .ok c' ∧ PathOK c' fl post ∧ c'.nodes = c.nodes ∧ c'.store = c.store ∧
        c'.root = c.root ∧ c'.undoFiles = c.undoFiles := by
  intro pre
  induction pre with
  | nil =>
    intro f c h _ ht _ hf
    cases f with
    | zero => omega
    | succ f =>
      refine ⟨c, ?_, h, rfl, rfl, rfl, rfl⟩
      have : c.tip = target := by rw [ht]; exact h.tip
      simp [undoTo, this, pure, Except.pure]
  | cons e pre ih =>
    intro f c h hfl ht hne hf
    cases f with
    | zero => omega
    | succ f =>
      have htip : c.tip = e.id := h.tip
      have hne1 : (c.tip == target) = false := by
        rw [htip]; simpa using hne e List.mem_cons_self
      obtain ⟨c1, h1, hp1, hn1, hs1, hr1, hu1⟩ :=
        undoLast_path c fl e (pre ++ post) h (by simp only [List.length_append]; omega)
      have ht1 : target = headId c1 post := by rw [ht]; exact (headId_congr hr1 post).symm
      obtain ⟨c2, h2, hp2, hn2, hs2, hr2, hu2⟩ :=
        ih f c1 hp1 hfl ht1 (fun x hx => hne x (List.mem_cons_of_mem _ hx)) (by simp only [List.length_cons] at hf; omega)
      refine ⟨c2, ?_, hp2, hn2.trans hn1, hs2.trans hs1, hr2.trans hr1, hu2.trans hu1⟩
      simp only [undoTo, hne1, Bool.false_eq_true, if_false, bind, Except.bind, h1]
      exact h2


-- ------------------------------------------------------------------------------------------ connecting a block

theorem alookup_aset_ne {β} (k j : Nat) (v : β) (l : List (Nat × β)) (h : k ≠ j) :
    alookup k (aset j v l) = alookup k l := by
  induction l with
  | nil =>
    have : (j == k) = false := by simpa using fun e => h e.symm
    simp [aset, alookup, this]
  | cons p ps ih =>
    obtain ⟨a, b⟩ := p
    by_cases h1 : a = j
    · subst h1
      have : (a == k) = false := by simpa using fun e => h e.symm
      simp [aset, alookup, this]
    · have h2 : (a == j) = false := by simpa using h1
      simp only [aset, h2, Bool.false_eq_true, if_false, alookup, ih]

theorem cbt_root (c : Chain) (h : Nat) (w : Bool) (t : List Nat) (ch : Changes) :
    (commitBlockTxs c h w t ch).root = c.root := by
  unfold commitBlockTxs
  by_cases hv : validChangesB c.utxo t ch = true <;> simp [hv]

/-- `commitBlockTxs` leaves every other undo file alone, except the one it prunes (height − UnwindBufLen) -/
theorem cbt_undo_other (c : Chain) (h k : Nat) (t : List Nat) (ch : Changes) (hk : k ≠ h)
    (hp : k + UnwindBufLen ≠ h) :
    alookup k (commitBlockTxs c h true t ch).undoFiles = alookup k c.undoFiles := by
  unfold commitBlockTxs
  by_cases hv : validChangesB c.utxo t ch = true <;> simp only [hv, if_true]
  all_goals
    by_cases hh : h > UnwindBufLen
    · simp only [hh, if_true]
      rw [alookup_filter_ne _ _ _ (by omega)]
      exact alookup_aset_ne _ _ _ _ hk
    · simp only [hh]
      exact alookup_aset_ne _ _ _ _ hk

theorem Linked_mono {c c' : Chain} (hr : c'.root = c.root) (p : List PE)
    (hnodes : ∀ e ∈ p, ∀ n, getNode c e.id = some n → ∃ n', getNode c' e.id = some n' ∧ n'.parent = n.parent)
    (hstore : ∀ e ∈ p, ∀ b0, alookup e.id c.store = some b0 → ∃ b1, alookup e.id c'.store = some b1 ∧ b1.txs = b0.txs)
    (h : Linked c p) : Linked c' p := by
  induction p with
  | nil => trivial
  | cons e rest ih =>
    obtain ⟨⟨n, h1, h2⟩, ⟨blk, h3, h4⟩, h5⟩ := h
    obtain ⟨n', hn', hp'⟩ := hnodes e List.mem_cons_self _ h1
    obtain ⟨b1, hb1, ht1⟩ := hstore e List.mem_cons_self _ h3
    exact ⟨⟨n', hn', by rw [hp', h2, headId_congr hr]⟩, ⟨b1, hb1, ht1.trans h4⟩,
      ih (fun x hx => hnodes x (List.mem_cons_of_mem _ hx)) (fun x hx => hstore x (List.mem_cons_of_mem _ hx)) h5⟩

theorem UndoOK_mono {c c' : Chain} (fl fl' N : Nat) (hfl : fl' ≥ fl)
    (hfiles : ∀ k, k > fl' → k ≤ N → alookup k c'.undoFiles = alookup k c.undoFiles)
    (p : List PE) (hN : p.length ≤ N) (h : UndoOK c fl p) : UndoOK c' fl' p := by
  induction p with
  | nil => trivial
  | cons e rest ih =>
    simp only [List.length_cons] at hN
    refine ⟨?_, ih (by omega) h.2⟩
    intro hgt
    obtain ⟨u, ch, h1, h2, h3⟩ := h.1 (by omega)
    exact ⟨u, ch, h1, h2, by rw [hfiles _ hgt (by omega)]; exact h3⟩

/-- **Connecting a block under the invariant** (the step shared by CommitBlock's tip extension and ParseTillBlock):
    `c1` is `c` with the block stored / marked trusted / its node's TxCount set (anything that keeps parents and stored
    transactions); if `commitTxs` accepts the block's transactions on the current map, its txids are not in the map
    (BIP30), and its node hangs below the tip, then after `CommitBlockTxs` + SetLast the invariant holds for the path
    extended by the block: the map is the replay of the longer branch and the new undo file is in place. -/
theorem connect_path (c c1 : Chain) (fl : Nat) (path : List PE) (h : PathOK c fl path) (nx : Nat) (txs : List Tx)
    (ch : Changes) (tr : Bool)
    (hroot : c1.root = c.root) (hutxo : c1.utxo = c.utxo) (hfiles : c1.undoFiles = c.undoFiles)
    (hnodes : ∀ e ∈ path, ∀ n, getNode c e.id = some n → ∃ n', getNode c1 e.id = some n' ∧ n'.parent = n.parent)
    (hstore : ∀ e ∈ path, ∀ b0, alookup e.id c.store = some b0 → ∃ b1, alookup e.id c1.store = some b1 ∧ b1.txs = b0.txs)
    (hn : ∃ n, getNode c1 nx = some n ∧ n.parent = c.tip)
    (hs : ∃ blk, alookup nx c1.store = some blk ∧ blk.txs = txs)
    (hct : commitTxs c.utxo (path.length + 1) (reward (path.length + 1)) tr txs = .ok ch)
    (hfresh : ∀ t ∈ txs.map (·.txid), c.utxo.get t = none) :
    PathOK { commitBlockTxs c1 (path.length + 1) true (txs.map (·.txid)) ch with tip := nx }
      (max fl (path.length + 1 - UnwindBufLen)) (⟨nx, txs⟩ :: path) := by
  obtain ⟨u, hru, heq⟩ := h.utxo
  have hf := cbt_fields c1 (path.length + 1) true (txs.map (·.txid)) ch
  have hst := cbt_store c1 (path.length + 1) true (txs.map (·.txid)) ch
  have hrt := cbt_root c1 (path.length + 1) true (txs.map (·.txid)) ch
  have hct' : commitTxs u (path.length + 1) (reward (path.length + 1)) true txs = .ok ch := by
    rw [← commitTxs_congr heq]; exact commitTxs_trusted hct
  have hrep : replay (⟨nx, txs⟩ :: path) = some (commit u ch) := by
    simp only [replay, hru, hct']
  -- the chain after the step, seen from `c`
  have hnodes' : ∀ e ∈ path, ∀ n, getNode c e.id = some n →
      ∃ n', getNode { commitBlockTxs c1 (path.length + 1) true (txs.map (·.txid)) ch with tip := nx } e.id = some n' ∧
        n'.parent = n.parent := by
    intro e he n hg
    obtain ⟨n', h1, h2⟩ := hnodes e he n hg
    refine ⟨n', ?_, h2⟩
    unfold getNode at h1 ⊢
    simp only [hf.2.2.2]; exact h1
  refine ⟨rfl, ?_, ⟨?_, ?_, ?_⟩, ⟨_, hrep, ?_⟩, ⟨?_, ?_⟩, ⟨?_, h.fresh⟩⟩
  · simp only [hf.2.1, List.length_cons]
  · obtain ⟨n, hg, hp⟩ := hn
    refine ⟨n, ?_, ?_⟩
    · unfold getNode at hg ⊢
      simp only [hf.2.2.2]; exact hg
    · rw [hp, h.tip]
      exact (headId_congr (c := c) (by simp only [hrt, hroot]) path).symm
  · obtain ⟨blk, hb, ht⟩ := hs
    exact ⟨blk, by simp only [hst]; exact hb, ht⟩
  · exact Linked_mono (c := c) (by simp only [hrt, hroot]) path hnodes'
      (by intro e he b0 hb0; simp only [hst]; exact hstore e he b0 hb0) h.linked
  · simp only [hf.1, hutxo]
    exact commit_congr heq ch
  · intro _
    exact ⟨u, ch, hru, hct', cbt_undo_file c1 _ _ ch⟩
  · refine UndoOK_mono (c := c) fl _ path.length (Nat.le_max_left _ _) ?_ path (Nat.le_refl _) h.undo
    intro k hk1 hk2
    simp only
    rw [cbt_undo_other c1 _ k _ ch (by omega) (by have := Nat.le_max_right fl (path.length + 1 - UnwindBufLen); omega), hfiles]
  · intro u' hu' t ht
    rw [hru] at hu'
    cases hu'
    rw [← heq t]; exact hfresh t ht


-- ------------------------------------------------------------------------------------------ the two callers

theorem find_map_node (l : List Node) (id x : Nat) (f : Node → Node) (n : Node)
    (hf : ∀ m, (f m).id = m.id ∧ (f m).parent = m.parent)
    (h : l.find? (fun m => m.id == x) = some n) :
    ∃ n', (l.map fun m => if m.id == id then f m else m).find? (fun m => m.id == x) = some n' ∧
      n'.parent = n.parent ∧ n'.id = n.id := by
  induction l with
  | nil => simp at h
  | cons m ms ih =>
    have hg : ∀ m : Node, (if m.id == id then f m else m).id = m.id ∧ (if m.id == id then f m else m).parent = m.parent := by
      intro m; by_cases hid : (m.id == id) = true
      · simp only [hid, if_true]; exact hf m
      · simp only [hid]; exact ⟨rfl, rfl⟩
    simp only [List.map_cons, List.find?_cons] at h ⊢
    by_cases hm : (m.id == x) = true
    · simp only [hm] at h
      cases h
      simp only [(hg n).1, hm]
      exact ⟨_, rfl, (hg n).2, (hg n).1⟩
    · have h1 : (m.id == x) = false := by simpa using hm
      simp only [h1] at h
      simp only [(hg m).1, h1]
      exact ih h

theorem getNode_modNode {c : Chain} {id x : Nat} {f : Node → Node} {n : Node}
    (hf : ∀ m, (f m).id = m.id ∧ (f m).parent = m.parent) (h : getNode c x = some n) :
    ∃ n', getNode (modNode c id f) x = some n' ∧ n'.parent = n.parent ∧ n'.id = n.id :=
  find_map_node c.nodes id x f n hf h

/-- **CommitBlock, tip extension, under the invariant.** -/
theorem commitBlock_path (c : Chain) (fl : Nat) (path : List PE) (h : PathOK c fl path) (b : Block) (ch : Changes)
    (htip : c.tip = b.parent)
    (hnode : ∃ n, getNode c b.id = some n ∧ n.parent = b.parent)
    (hnew : ∀ e ∈ path, e.id ≠ b.id)
    (hok : commitTxs c.utxo (path.length + 1) (reward (path.length + 1)) false b.txs = .ok ch)
    (hfresh : ∀ t ∈ b.txs.map (·.txid), c.utxo.get t = none) :
    PathOK (commitBlock c b (path.length + 1)).1 (max fl (path.length + 1 - UnwindBufLen)) (⟨b.id, b.txs⟩ :: path) := by
  rw [commitBlock_ok_eq c b _ ch htip hok]
  have hfm : ∀ m : Node, ({ m with txCount := b.txs.length } : Node).id = m.id ∧
      ({ m with txCount := b.txs.length } : Node).parent = m.parent := fun m => ⟨rfl, rfl⟩
  apply connect_path c (preCommit c b) fl path h b.id b.txs ch false rfl rfl rfl
  · intro e _ n hg
    obtain ⟨n', h1, h2, _⟩ := getNode_modNode (id := b.id) hfm hg
    exact ⟨n', h1, h2⟩
  · intro e he b0 hb0
    refine ⟨b0, ?_, rfl⟩
    show alookup e.id (aset b.id _ c.store) = some b0
    rw [alookup_aset_ne _ _ _ _ (hnew e he)]; exact hb0
  · obtain ⟨n, hg, hp⟩ := hnode
    obtain ⟨n', h1, h2, _⟩ := getNode_modNode (id := b.id) hfm hg
    exact ⟨n', h1, by rw [h2, hp, htip]⟩
  · exact ⟨_, alookup_aset _ _ _, rfl⟩
  · exact hok
  · exact hfresh

/-- the state ParseTillBlock produces when it connects the stored block `nx` (one loop iteration, success branch) -/
def parseStep (c : Chain) (nx : Nat) (nxt : Node) (blk : Stored) (ch : Changes) (w : Bool) : Chain :=
  { commitBlockTxs { c with store := aset nx { blk with trusted := true } c.store } nxt.height w
      (blk.txs.map (·.txid)) ch with tip := nx }

/-- **ParseTillBlock's connect step under the invariant** (undo data written, i.e. within UnwindBufLen of the target). -/
theorem parseStep_path (c : Chain) (fl : Nat) (path : List PE) (h : PathOK c fl path) (nx : Nat) (nxt : Node)
    (blk : Stored) (ch : Changes)
    (hnode : getNode c nx = some nxt) (hpar : nxt.parent = c.tip) (hh : nxt.height = path.length + 1)
    (hblk : alookup nx c.store = some blk)
    (hok : commitTxs c.utxo nxt.height (reward nxt.height) blk.trusted blk.txs = .ok ch)
    (hfresh : ∀ t ∈ blk.txs.map (·.txid), c.utxo.get t = none) :
    PathOK (parseStep c nx nxt blk ch true) (max fl (path.length + 1 - UnwindBufLen)) (⟨nx, blk.txs⟩ :: path) := by
  unfold parseStep
  rw [hh] at hok ⊢
  apply connect_path c { c with store := aset nx { blk with trusted := true } c.store } fl path h nx blk.txs ch
    blk.trusted rfl rfl rfl
  · intro e _ n hg; exact ⟨n, hg, rfl⟩
  · intro e _ b0 hb0
    by_cases he : e.id = nx
    · rw [he] at hb0 ⊢
      rw [hblk] at hb0; cases hb0
      exact ⟨_, alookup_aset _ _ _, rfl⟩
    · exact ⟨b0, by show alookup e.id (aset nx _ c.store) = some b0; rw [alookup_aset_ne _ _ _ _ he]; exact hb0, rfl⟩
  · exact ⟨nxt, hnode, hpar⟩
  · exact ⟨_, alookup_aset _ _ _, rfl⟩
  · exact hok
  · exact hfresh

theorem init_path (r bits : Nat) : PathOK (ChainTree.init r bits) 0 [] :=
  ⟨rfl, rfl, trivial, ⟨[], rfl, fun _ => rfl⟩, trivial, trivial⟩

theorem deleteBranch_fields (c : Chain) (id : Nat) :
    (deleteBranch c id).utxo = c.utxo ∧ (deleteBranch c id).undoFiles = c.undoFiles ∧
    (deleteBranch c id).tip = c.tip ∧ (deleteBranch c id).lastHeight = c.lastHeight ∧
    (deleteBranch c id).root = c.root := by
  unfold deleteBranch
  cases getNode c id with
  | none => exact ⟨rfl, rfl, rfl, rfl, rfl⟩
  | some n => exact ⟨rfl, rfl, rfl, rfl, rfl⟩



/-- `parseStep` IS the success branch of one `parseTill` iteration -/
theorem parseTill_step (f : Nat) (c : Chain) (e nx : Nat) (last en nxt : Node) (blk : Stored) (ch : Changes)
    (hne : c.tip ≠ e) (hlast : getNode c c.tip = some last) (hen : getNode c e = some en)
    (hpath : findPathTo c last en = .ok (some nx)) (hnxt : getNode c nx = some nxt) (htx : nxt.txCount ≠ 0)
    (hblk : alookup nx c.store = some blk)
    (hok : commitTxs c.utxo nxt.height (reward nxt.height) blk.trusted blk.txs = .ok ch) :
    parseTill (f + 1) c e =
      parseTill f (parseStep c nx nxt blk ch (decide (nxt.height + UnwindBufLen ≥ en.height))) e := by
  have h1 : (c.tip == e) = false := by simpa using hne
  have h2 : (nxt.txCount == 0) = false := by simpa using htx
  rw [parseTill]
  simp only [h1, Bool.false_eq_true, if_false, node!, hlast, hen, hnxt, bind, Except.bind, pure, Except.pure, hpath, h2, hblk, hok, parseStep]


/-- MoveToBlock = the three climbing loops, then the disconnect loop `undoTo` down to the common block, then ParseTillBlock -/
theorem moveTo_eq (f : Nat) (c : Chain) (dst : Nat) (d lb cur lb2 anc : Node)
    (hd : getNode c dst = some d) (hlb : getNode c c.tip = some lb)
    (h1 : climbChecked c lb.height (d.height + 1) d = .ok (some cur))
    (h2 : climbChecked c cur.height (lb.height + 1) lb = .ok (some lb2))
    (h3 : commonAnc c (cur.height + 2) lb2 cur = .ok (some anc)) :
    moveTo (f + 1) c dst = (undoTo anc.id (lb.height + 2) c >>= fun c1 => parseTill f c1 dst) := by
  rw [moveTo]
  simp only [node!, hd, hlb, bind, Except.bind, pure, Except.pure, h1, h2, h3]

/-- **A reorganisation's disconnect phase leaves no residue.** If the invariant holds for the active branch
    `pre ++ post`, where `post` ends in the common block `anc` found by MoveToBlock's climbing loops, then MoveToBlock
    does not panic while disconnecting and hands ParseTillBlock a state whose unspent map is exactly the replay of `post`
    (tip = the common block, LastBlockHeight = its height, undo files of `post` intact, tree and store untouched). -/
theorem moveTo_unwind (f : Nat) (c : Chain) (fl : Nat) (pre post : List PE) (dst : Nat) (d lb cur lb2 anc : Node)
    (h : PathOK c fl (pre ++ post)) (hfl : post.length ≥ fl)
    (hd : getNode c dst = some d) (hlb : getNode c c.tip = some lb)
    (h1 : climbChecked c lb.height (d.height + 1) d = .ok (some cur))
    (h2 : climbChecked c cur.height (lb.height + 1) lb = .ok (some lb2))
    (h3 : commonAnc c (cur.height + 2) lb2 cur = .ok (some anc))
    (hanc : anc.id = headId c post) (hne : ∀ e ∈ pre, e.id ≠ anc.id) (hh : lb.height + 1 ≥ pre.length) :
    ∃ c1, PathOK c1 fl post ∧ c1.nodes = c.nodes ∧ c1.store = c.store ∧ c1.root = c.root ∧
      moveTo (f + 1) c dst = parseTill f c1 dst := by
  obtain ⟨c1, hu, hp, hn, hs, hr, _⟩ := undoTo_path anc.id fl post pre (lb.height + 2) c h hfl hanc hne (by omega)
  refine ⟨c1, hp, hn, hs, hr, ?_⟩
  rw [moveTo_eq f c dst d lb cur lb2 anc hd hlb h1 h2 h3, hu]
  rfl

-- ------------------------------------------------------------------------------------------ deliveries on the tip


theorem getNode_append_left {c : Chain} {x : Nat} {n : Node} (extra : List Node) (h : getNode c x = some n) :
    getNode { c with nodes := c.nodes ++ extra } x = some n := by
  unfold getNode at *
  simp only [List.find?_append, h, Option.some_or]

theorem getNode_append_new {c : Chain} {n : Node} (h : getNode c n.id = none) :
    getNode { c with nodes := c.nodes ++ [n] } n.id = some n := by
  unfold getNode at *
  simp only [List.find?_append, h, Option.none_or, List.find?_cons, beq_self_eq_true]

theorem find_filter_ne (l : List Node) (x y : Nat) (hxy : x ≠ y) :
    (l.filter (fun m => m.id != y)).find? (fun m => m.id == x) = l.find? (fun m => m.id == x) := by
  induction l with
  | nil => rfl
  | cons m ms ih =>
    by_cases hy : m.id = y
    · have h1 : (m.id != y) = false := by simp [hy]
      have h2 : (m.id == x) = false := by simpa [hy] using fun e : y = x => hxy e.symm
      simp only [List.filter, h1, List.find?_cons, h2, ih]
    · have h1 : (m.id != y) = true := by simpa using hy
      simp only [List.filter, h1, List.find?_cons, ih]

theorem getNode_filter_ne {c : Chain} {x y : Nat} {n : Node} (hxy : x ≠ y) (h : getNode c x = some n) :
    getNode { c with nodes := c.nodes.filter (fun m => m.id != y) } x = some n := by
  unfold getNode at *
  simp only
  rw [find_filter_ne _ _ _ hxy]; exact h


/-- node `x` survives from `c` to `c'` with the same parent and height -/
def NP (c c' : Chain) (x : Nat) : Prop :=
  ∀ n, getNode c x = some n → ∃ n', getNode c' x = some n' ∧ n'.parent = n.parent ∧ n'.height = n.height

theorem NP.trans {a b c : Chain} {x : Nat} (h1 : NP a b x) (h2 : NP b c x) : NP a c x := by
  intro n hn
  obtain ⟨n1, g1, p1, q1⟩ := h1 n hn
  obtain ⟨n2, g2, p2, q2⟩ := h2 n1 g1
  exact ⟨n2, g2, p2.trans p1, q2.trans q1⟩

theorem find_map_node_h (l : List Node) (id x : Nat) (f : Node → Node) (n : Node)
    (hf : ∀ m, (f m).id = m.id ∧ (f m).parent = m.parent ∧ (f m).height = m.height)
    (h : l.find? (fun m => m.id == x) = some n) :
    ∃ n', (l.map fun m => if m.id == id then f m else m).find? (fun m => m.id == x) = some n' ∧
      n'.parent = n.parent ∧ n'.height = n.height := by
  induction l with
  | nil => simp at h
  | cons m ms ih =>
    have hg : ∀ m : Node, (if m.id == id then f m else m).id = m.id ∧ (if m.id == id then f m else m).parent = m.parent
        ∧ (if m.id == id then f m else m).height = m.height := by
      intro m; by_cases hid : (m.id == id) = true
      · simp only [hid, if_true]; exact hf m
      · simp only [hid]; exact ⟨rfl, rfl, rfl⟩
    simp only [List.map_cons, List.find?_cons] at h ⊢
    by_cases hm : (m.id == x) = true
    · simp only [hm] at h
      cases h
      simp only [(hg n).1, hm]
      exact ⟨_, rfl, (hg n).2.1, (hg n).2.2⟩
    · have h1 : (m.id == x) = false := by simpa using hm
      simp only [h1] at h
      simp only [(hg m).1, h1]
      exact ih h

theorem NP_modNode (c : Chain) (id x : Nat) (f : Node → Node)
    (hf : ∀ m, (f m).id = m.id ∧ (f m).parent = m.parent ∧ (f m).height = m.height) : NP c (modNode c id f) x :=
  fun n hn => find_map_node_h c.nodes id x f n hf hn

theorem NP_append (c : Chain) (extra : List Node) (x : Nat) : NP c { c with nodes := c.nodes ++ extra } x :=
  fun n hn => ⟨n, getNode_append_left extra hn, rfl, rfl⟩

theorem NP_filter (c : Chain) (x y : Nat) (hxy : x ≠ y) :
    NP c { c with nodes := c.nodes.filter (fun m => m.id != y) } x :=
  fun n hn => ⟨n, getNode_filter_ne hxy hn, rfl, rfl⟩

theorem Linked_ids {c : Chain} {p : List PE} (h : Linked c p) : ∀ e ∈ p, ∃ n, getNode c e.id = some n := by
  induction p with
  | nil => intro e he; cases he
  | cons a rest ih =>
    intro e he
    rcases List.mem_cons.mp he with rfl | h2
    · obtain ⟨⟨n, hn, _⟩, _⟩ := h; exact ⟨n, hn⟩
    · exact ih h.2.2 e h2

/-- the invariant is insensitive to changes of the tree that keep every node of the path (parent) and of the store
    that keep every block of the path -/
theorem PathOK_mono {c c' : Chain} {fl : Nat} {path : List PE} (h : PathOK c fl path)
    (hroot : c'.root = c.root) (htip : c'.tip = c.tip) (hutxo : c'.utxo = c.utxo) (hfiles : c'.undoFiles = c.undoFiles)
    (hlast : c'.lastHeight = c.lastHeight)
    (hnodes : ∀ e ∈ path, NP c c' e.id)
    (hstore : ∀ e ∈ path, ∀ b0, alookup e.id c.store = some b0 → ∃ b1, alookup e.id c'.store = some b1 ∧ b1.txs = b0.txs) :
    PathOK c' fl path := by
  refine ⟨?_, ?_, ?_, ?_, UndoOK_congr hfiles fl path h.undo, h.fresh⟩
  · rw [htip, h.tip, headId_congr hroot]
  · rw [hlast, h.lastH]
  · refine Linked_mono hroot path ?_ hstore h.linked
    intro e he n hn
    obtain ⟨n', g, p, _⟩ := hnodes e he n hn
    exact ⟨n', g, p⟩
  · rw [hutxo]; exact h.utxo


/-- `PathOK` plus: the tip node exists and its height is the length of the active branch -/
def PathOKH (c : Chain) (fl : Nat) (path : List PE) : Prop :=
  PathOK c fl path ∧ ∃ t, getNode c c.tip = some t ∧ t.height = path.length

/-- the chain after AcceptHeader for a block on the tip node `t` -/
def accepted (c : Chain) (b : Block) (t : Node) : Chain :=
  { modNode c t.id (fun q => { q with childs := q.childs ++ [b.id] }) with
    nodes := (modNode c t.id (fun q => { q with childs := q.childs ++ [b.id] })).nodes ++
      [{ id := b.id, parent := t.id, height := t.height + 1, bits := b.bits, childs := [], txCount := 0 }] }

theorem NP_accepted (c : Chain) (b : Block) (t : Node) (x : Nat) : NP c (accepted c b t) x :=
  (NP_modNode c t.id x (fun q => { q with childs := q.childs ++ [b.id] }) (fun _ => ⟨rfl, rfl, rfl⟩)).trans
    (NP_append (modNode c t.id (fun q => { q with childs := q.childs ++ [b.id] })) _ x)

theorem deliver_on_tip_eq (c : Chain) (b : Block) (t : Node) (hb : getNode c b.id = none)
    (ht : getNode c c.tip = some t) (hpar : b.parent = c.tip) :
    deliver c b = commitBlock (accepted c b t) b (t.height + 1) := by
  unfold deliver deliverAt accepted
  simp only [hb, Option.isSome_none, Bool.false_eq_true, if_false, hpar, ht, bne_self_eq_false, Bool.false_and]


theorem getNode_accepted_new (c : Chain) (b : Block) (t : Node) (hb : getNode c b.id = none) :
    getNode (accepted c b t) b.id =
      some { id := b.id, parent := t.id, height := t.height + 1, bits := b.bits, childs := [], txCount := 0 } := by
  have h0 : getNode (modNode c t.id (fun q => { q with childs := q.childs ++ [b.id] })) b.id = none := by
    unfold getNode modNode at *
    simp only
    rw [List.find?_eq_none] at hb ⊢
    intro m hm
    simp only [List.mem_map] at hm
    obtain ⟨a, ha, rfl⟩ := hm
    have := hb a ha
    by_cases hid : (a.id == t.id) = true
    · simp only [hid, if_true]; exact this
    · simp only [hid]; exact this
  exact getNode_append_new (n := { id := b.id, parent := t.id, height := t.height + 1, bits := b.bits, childs := [], txCount := 0 }) h0

theorem PathOK_accepted {c : Chain} {fl : Nat} {path : List PE} (h : PathOK c fl path) (b : Block) (t : Node) :
    PathOK (accepted c b t) fl path :=
  PathOK_mono h rfl rfl rfl rfl rfl (fun e _ => NP_accepted c b t e.id) (fun _ _ b0 hb0 => ⟨b0, hb0, rfl⟩)

/-- what `commitBlock` leaves when `commitTxs` rejects a block on the tip -/
def rejectedChain (a : Chain) (b : Block) : Chain :=
  { a with
    nodes := List.filter (fun n => n.id != b.id)
          (List.map (fun n => if (n.id == b.parent) = true then
                { n with childs := List.filter (fun x => x != b.id) n.childs } else n)
            (List.map (fun n => if (n.id == b.id) = true then { n with txCount := b.txs.length } else n) a.nodes)),
    tip := b.parent }

/-- **A delivery on the tip keeps the invariant** — whether the block is accepted (branch extended, map = replay of the
    longer branch) or rejected by `commitTxs` (block dropped from the tree, nothing else changes) or is a duplicate. -/
theorem deliver_on_tip (c : Chain) (fl : Nat) (path : List PE) (h : PathOKH c fl path) (b : Block)
    (hpar : b.parent = c.tip) (hfresh : ∀ t ∈ b.txs.map (·.txid), c.utxo.get t = none) :
    ∃ fl' path', PathOKH (deliver c b).1 fl' path' := by
  obtain ⟨hp, t, ht, hth⟩ := h
  cases hb : getNode c b.id with
  | some n0 =>
    have : deliver c b = (c, Outcome.dup) := by unfold deliver; simp [hb]
    rw [this]; exact ⟨fl, path, hp, t, ht, hth⟩
  | none =>
    rw [deliver_on_tip_eq c b t hb ht hpar, hth]
    have hpa := PathOK_accepted hp b t
    have htid : t.id = c.tip := getNode_id ht
    have hnewnode := getNode_accepted_new c b t hb
    have hnew : ∀ e ∈ path, e.id ≠ b.id := by
      intro e he heq
      obtain ⟨n, hn⟩ := Linked_ids hp.linked e he
      rw [heq, hb] at hn; cases hn
    cases hct : commitTxs c.utxo (path.length + 1) (reward (path.length + 1)) false b.txs with
    | ok ch =>
      have hok : commitTxs (accepted c b t).utxo (path.length + 1) (reward (path.length + 1)) false b.txs = .ok ch := hct
      have htip2 : (accepted c b t).tip = b.parent := hpar.symm
      refine ⟨_, _, commitBlock_path (accepted c b t) fl path hpa b ch htip2
        ⟨_, hnewnode, by simp only [htid, hpar]⟩ hnew hok hfresh, ?_⟩
      rw [commitBlock_ok_eq _ b _ ch htip2 hok]
      obtain ⟨n', g, _, hh⟩ := NP_modNode (accepted c b t) b.id b.id (fun n => { n with txCount := b.txs.length })
        (fun _ => ⟨rfl, rfl, rfl⟩) _ hnewnode
      refine ⟨n', ?_, by rw [hh, hth]; rfl⟩
      have hf := cbt_fields (preCommit (accepted c b t) b) (path.length + 1) true (b.txs.map (·.txid)) ch
      unfold getNode at g ⊢
      simp only [hf.2.2.2]
      exact g
    | error e =>
      have herr : commitTxs (accepted c b t).utxo (path.length + 1) (reward (path.length + 1)) false b.txs = .error e := hct
      have htip2 : (accepted c b t).tip = b.parent := hpar.symm
      refine ⟨fl, path, ?_⟩
      unfold commitBlock
      simp only [modNode, htip2, beq_self_eq_true, if_true, herr]
      show PathOKH (rejectedChain (accepted c b t) b) fl path
      have hNP : ∀ x, x ≠ b.id → ∀ R : Chain, R.nodes = List.filter (fun n => n.id != b.id)
          (List.map (fun n => if (n.id == b.parent) = true then
                { n with childs := List.filter (fun x => x != b.id) n.childs } else n)
            (List.map (fun n => if (n.id == b.id) = true then { n with txCount := b.txs.length } else n)
              (accepted c b t).nodes)) → NP c R x := by
        intro x hx R hR
        have h1 := NP_accepted c b t x
        have h2 := NP_modNode (accepted c b t) b.id x (fun n => { n with txCount := b.txs.length }) (fun _ => ⟨rfl, rfl, rfl⟩)
        have h3 := NP_modNode (modNode (accepted c b t) b.id (fun n => { n with txCount := b.txs.length })) b.parent x
          (fun n => { n with childs := List.filter (fun x => x != b.id) n.childs }) (fun _ => ⟨rfl, rfl, rfl⟩)
        have h4 := NP_filter (modNode (modNode (accepted c b t) b.id (fun n => { n with txCount := b.txs.length })) b.parent
          (fun n => { n with childs := List.filter (fun x => x != b.id) n.childs })) x b.id hx
        have h5 := ((h1.trans h2).trans h3).trans h4
        intro n hn
        obtain ⟨n', g, q⟩ := h5 n hn
        refine ⟨n', ?_, q⟩
        unfold getNode at g ⊢
        rw [hR]; exact g
      have htipne : c.tip ≠ b.id := by
        intro e; rw [e, hb] at ht; cases ht
      refine ⟨PathOK_mono hp rfl hpar rfl rfl rfl
        (fun e he => hNP e.id (hnew e he) (rejectedChain (accepted c b t) b) rfl)
        (fun _ _ b0 hb0 => ⟨b0, hb0, rfl⟩), ?_⟩
      obtain ⟨n', g, _, hh⟩ := hNP c.tip htipne (rejectedChain (accepted c b t) b) rfl t ht
      refine ⟨n', ?_, hh.trans hth⟩
      show getNode (rejectedChain (accepted c b t) b) b.parent = some n'
      rw [hpar]; exact g


/-- every block of the list is delivered on the then-current tip and re-uses no txid still in the map (BIP30) -/
def OnTip (c : Chain) : List Block → Prop
  | [] => True
  | b :: bs => b.parent = c.tip ∧ (∀ t ∈ b.txs.map (·.txid), c.utxo.get t = none) ∧ OnTip (deliver c b).1 bs

theorem deliver_all_on_tip (bs : List Block) : ∀ (c : Chain) (fl : Nat) (path : List PE), PathOKH c fl path →
    OnTip c bs → ∃ fl' path', PathOKH (bs.foldl (fun c b => (deliver c b).1) c) fl' path' := by
  induction bs with
  | nil => intro c fl path h _; exact ⟨fl, path, h⟩
  | cons b bs ih =>
    intro c fl path h hon
    obtain ⟨fl1, p1, h1⟩ := deliver_on_tip c fl path h b hon.1 hon.2.1
    exact ih _ fl1 p1 h1 hon.2.2

theorem init_pathH (r bits : Nat) : PathOKH (ChainTree.init r bits) 0 [] :=
  ⟨init_path r bits, { id := r, parent := r, height := 0, bits := bits, childs := [], txCount := 0 },
   by simp [getNode, ChainTree.init], rfl⟩

end GocoinV.ChainTree
