/-
  Proofs.C12 — helper lemmas for Props/C12 (core Lean only).
-/
import GocoinV.Model.Mempool
import GocoinV.Spec.MempoolTemplate
namespace GocoinV.Mempool

/-! ### block template -/

theorem blockOK_of (ls : List T2S) : ∀ (avail : OutPoint → Prop),
    (∀ t ∈ ls, t.tx.inOps.Nodup) →
    ls.Pairwise (fun a b => ∀ o ∈ a.tx.inOps, o ∉ b.tx.inOps) →
    (∀ pre t post, ls = pre ++ t :: post → ∀ o ∈ t.tx.inOps, avail o ∨ ∃ p ∈ pre, p.tx.creates o) →
    BlockOK avail (ls.map (·.tx)) := by
  induction ls with
  | nil => intro _ _ _ _; simp [BlockOK]
  | cons t r ih =>
    intro avail h1 h2 h3
    simp only [List.map_cons, BlockOK]
    refine ⟨h1 t (by simp), ?_, ?_⟩
    · intro o ho
      rcases h3 [] t r rfl o ho with h | ⟨p, hp, _⟩
      · exact h
      · simp at hp
    · rw [List.pairwise_cons] at h2
      apply ih
      · intro t' ht'; exact h1 t' (by simp [ht'])
      · exact h2.2
      · intro pre t' post heq o ho
        have hmem : t' ∈ r := by rw [heq]; simp
        have hnot : o ∉ t.tx.inOps := fun hin => h2.1 t' hmem o hin ho
        rcases h3 (t :: pre) t' post (by rw [heq]; rfl) o ho with h | ⟨p, hp, hc⟩
        · exact Or.inl (Or.inl ⟨h, hnot⟩)
        · rcases List.mem_cons.mp hp with rfl | hp'
          · exact Or.inl (Or.inr hc)
          · exact Or.inr ⟨p, hp', hc⟩

/-! ### parents first -/

theorem PFfrom_snoc (K : Keys) (x : Nat × T2S) : ∀ (res : List (Nat × T2S)) (seen : List Nat),
    PFfrom K seen res →
    (∀ p ∈ memParents K x.2, p ∈ seen ∨ p ∈ res.map (·.1)) →
    PFfrom K seen (res ++ [x]) := by
  intro res
  induction res with
  | nil =>
    intro seen _ h
    simp only [List.nil_append, PFfrom, and_true]
    intro p hp
    rcases h p hp with h | h
    · exact h
    · simp at h
  | cons y r ih =>
    intro seen hpf h
    simp only [List.cons_append, PFfrom] at hpf ⊢
    refine ⟨hpf.1, ih (y.1 :: seen) hpf.2 ?_⟩
    intro p hp
    rcases h p hp with h | h
    · exact Or.inl (List.mem_cons_of_mem _ h)
    · simp only [List.map_cons, List.mem_cons] at h
      rcases h with h | h
      · exact Or.inl (by rw [h]; exact List.mem_cons_self)
      · exact Or.inr h

theorem not_missing (K : Keys) (res : List (Nat × T2S)) (t : T2S)
    (h : missingParents K res t = false) : ∀ p ∈ memParents K t, p ∈ res.map (·.1) := by
  intro p hp
  unfold missingParents at h
  rw [List.any_eq_false] at h
  have := h p hp
  simpa using this

/-- the fold inside append_txs keeps the invariant, given that the recursive call does -/
theorem retry_fold_PF (K : Keys) (x : Nat × T2S)
    (f : List (Nat × T2S) × List (Nat × T2S) → Nat × T2S → List (Nat × T2S) × List (Nat × T2S))
    (hf : ∀ st d, ParentsFirst K st.1 → missingParents K st.1 d.2 = false → ParentsFirst K (f st d).1) :
    ∀ (l : List (Nat × T2S)) (st : List (Nat × T2S) × List (Nat × T2S)), ParentsFirst K st.1 →
    ParentsFirst K (l.foldl (fun st d =>
      if (st.1.map (·.1)).contains d.1 then st
      else if (memParents K d.2).contains x.1 && !missingParents K st.1 d.2 then f st d
      else st) st).1 := by
  intro l
  induction l with
  | nil => intro st h; exact h
  | cons d r ih =>
    intro st h
    simp only [List.foldl_cons]
    apply ih
    split
    · exact h
    · split
      · rename_i hc
        have hm : missingParents K st.1 d.2 = false := by
          simp only [Bool.and_eq_true, Bool.not_eq_true'] at hc
          exact hc.2
        exact hf st d h hm
      · exact h

theorem appendTxs_PF (K : Keys) : ∀ (fuel : Nat) (st : List (Nat × T2S) × List (Nat × T2S)) (x : Nat × T2S),
    ParentsFirst K st.1 → missingParents K st.1 x.2 = false →
    ParentsFirst K (appendTxs K fuel st x).1 := by
  intro fuel
  induction fuel with
  | zero => intro st x h _; simpa [appendTxs] using h
  | succ n ih =>
    intro st x h hm
    obtain ⟨res, deferred⟩ := st
    simp only [appendTxs]
    apply retry_fold_PF K x (fun st d => appendTxs K n st d) (fun st d h1 h2 => ih st d h1 h2)
    exact PFfrom_snoc K x res [] h (fun p hp => Or.inr (not_missing K res x.2 hm p hp))

theorem slowStep_PF (K : Keys) (fuel : Nat) (st : List (Nat × T2S) × List (Nat × T2S)) (p : Nat × T2S)
    (h : ParentsFirst K st.1) : ParentsFirst K (slowStep K fuel st p).1 := by
  unfold slowStep
  split
  · exact h
  · rename_i hm
    exact appendTxs_PF K fuel st p h (by simpa using hm)

theorem foldl_slowStep_PF (K : Keys) (fuel : Nat) : ∀ (l : List (Nat × T2S))
    (st : List (Nat × T2S) × List (Nat × T2S)), ParentsFirst K st.1 →
    ParentsFirst K (l.foldl (slowStep K fuel) st).1 := by
  intro l
  induction l with
  | nil => intro st h; exact h
  | cons p r ih => intro st h; exact ih _ (slowStep_PF K fuel st p h)

end GocoinV.Mempool

namespace GocoinV.Mempool

/-! ### association lists -/

namespace AList
variable {κ ν : Type} [DecidableEq κ]

theorem del_cons (p : κ × ν) (r : AList κ ν) (k : κ) :
    del (p :: r) k = if p.1 = k then del r k else p :: del r k := by
  unfold del
  rw [List.filter_cons]
  by_cases h : p.1 = k <;> simp [h]

theorem get?_del_self (m : AList κ ν) (k : κ) : (del m k).get? k = none := by
  induction m with
  | nil => rfl
  | cons p r ih =>
    rw [del_cons]
    by_cases h : p.1 = k
    · simp [h, ih]
    · simp [h, get?, ih]

theorem get?_del_other (m : AList κ ν) (k k' : κ) (hne : k' ≠ k) : (del m k).get? k' = m.get? k' := by
  induction m with
  | nil => rfl
  | cons p r ih =>
    obtain ⟨a, v⟩ := p
    rw [del_cons]
    by_cases h : a = k
    · have h3 : ¬ a = k' := fun e => hne (e.symm.trans h)
      simp only [h, if_true, get?]
      rw [if_neg (fun e : k = k' => hne e.symm)]
      exact ih
    · by_cases h2 : a = k'
      · subst h2
        simp only [if_neg h, get?, if_true]
      · simp only [if_neg h, get?, if_neg h2]
        exact ih

theorem get?_set_self (m : AList κ ν) (k : κ) (v : ν) : (set m k v).get? k = some v := by
  simp [set, get?]

theorem get?_set_other (m : AList κ ν) (k k' : κ) (v : ν) (hne : k' ≠ k) :
    (set m k v).get? k' = m.get? k' := by
  have : k ≠ k' := fun e => hne e.symm
  simp [set, get?, this, get?_del_other m k k' hne]

end AList

/-- the UIdx keys of a transaction's inputs -/
def uidxs (K : Keys) (t : Tx) : List Nat := t.ins.map fun i => K.uidx i.prev i.vout

theorem get?_foldl_set (f : TxIn → Nat) (b : Nat) : ∀ (ins : List TxIn) (m : AList Nat Nat) (u : Nat),
    (ins.foldl (fun m i => m.set (f i) b) m).get? u = if u ∈ ins.map f then some b else m.get? u := by
  intro ins
  induction ins with
  | nil => intro m u; simp
  | cons i r ih =>
    intro m u
    simp only [List.foldl_cons, List.map_cons, List.mem_cons]
    rw [ih]
    by_cases h1 : u ∈ r.map f
    · simp [h1]
    · by_cases h2 : u = f i
      · simp [h1, h2, AList.get?_set_self]
      · simp [h1, h2, AList.get?_set_other _ _ _ _ h2]

theorem get?_foldl_del (f : TxIn → Nat) : ∀ (ins : List TxIn) (m : AList Nat Nat) (u : Nat),
    (ins.foldl (fun m i => m.del (f i)) m).get? u = if u ∈ ins.map f then none else m.get? u := by
  intro ins
  induction ins with
  | nil => intro m u; simp
  | cons i r ih =>
    intro m u
    simp only [List.foldl_cons, List.map_cons, List.mem_cons]
    rw [ih]
    by_cases h1 : u ∈ r.map f
    · simp [h1]
    · by_cases h2 : u = f i
      · simp [h1, h2, AList.get?_del_self]
      · simp [h1, h2, AList.get?_del_other _ _ _ h2]

end GocoinV.Mempool

namespace GocoinV.Mempool

/-! ### the reject-list and sort-list functions do not touch the pool, SpentOutputs or the chain -/

/-- `s'` has the same pool, SpentOutputs, weight total and confirmed set as `s` -/
def SameCore (s s' : State) : Prop :=
  s'.pool = s.pool ∧ s'.spent = s.spent ∧ s'.utxo = s.utxo ∧ s'.weightTotal = s.weightTotal

theorem SameCore.refl (s : State) : SameCore s s := ⟨rfl, rfl, rfl, rfl⟩

theorem SameCore.trans {a b c : State} (h1 : SameCore a b) (h2 : SameCore b c) : SameCore a c :=
  ⟨h2.1.trans h1.1, h2.2.1.trans h1.2.1, h2.2.2.1.trans h1.2.2.1, h2.2.2.2.trans h1.2.2.2⟩

theorem rejCleanup_core (K : Keys) (s : State) (r : Rej) (t : Tx) : SameCore s (rejCleanup K s r t) :=
  ⟨rfl, rfl, rfl, rfl⟩

theorem rejDelete_core (K : Keys) (s : State) (r : Rej) : SameCore s (rejDelete K s r) := by
  unfold rejDelete
  cases r.tx with
  | none => exact ⟨rfl, rfl, rfl, rfl⟩
  | some t => exact ⟨rfl, rfl, rfl, rfl⟩

theorem rejDeleteByIdx_core (K : Keys) (s : State) (b : Nat) : SameCore s (rejDeleteByIdx K s b) := by
  unfold rejDeleteByIdx
  split
  · exact rejDelete_core K s _
  · exact SameCore.refl s

theorem rejEvictOldest_core (K : Keys) (s : State) : SameCore s (rejEvictOldest K s) := by
  unfold rejEvictOldest
  split
  · split
    · split
      · exact rejDelete_core K s _
      · exact ⟨rfl, rfl, rfl, rfl⟩
    · exact ⟨rfl, rfl, rfl, rfl⟩
  · exact SameCore.refl s

theorem rejAddRefs_core (K : Keys) (s : State) (r : Rej) : SameCore s (rejAddRefs K s r) := by
  unfold rejAddRefs
  cases r.tx with
  | none => exact SameCore.refl s
  | some t => exact ⟨rfl, rfl, rfl, rfl⟩

theorem rejAdd_core (K : Keys) (s : State) (r : Rej) : SameCore s (rejAdd K s r) := by
  unfold rejAdd
  have h0 : SameCore s { s with ring := s.ring ++ [some (K.bidx r.id)], rej := s.rej.set (K.bidx r.id) r } :=
    ⟨rfl, rfl, rfl, rfl⟩
  exact (h0.trans (rejEvictOldest_core K _)).trans (rejAddRefs_core K _ r)

theorem rejectTx_core (K : Keys) (s : State) (t : Tx) (why : Nat) (m : Option TxId) :
    SameCore s (rejectTx K s t why m) := rejAdd_core K s _

/-- `s'` differs from `s` only in the sorted-list fields (sorted, ranks, sortStep, rankWrap, sortDirty) and possibly a
    raised `panicked` flag -/
structure SortOnly (s s' : State) : Prop where
  pool : s'.pool = s.pool
  spent : s'.spent = s.spent
  utxo : s'.utxo = s.utxo
  wt : s'.weightTotal = s.weightTotal
  undo : s'.undo = s.undo
  rej : s'.rej = s.rej
  ring : s'.ring = s.ring
  waiting : s'.waiting = s.waiting
  rejSpent : s'.rejSpent = s.rejSpent
  cfg : s'.cfg = s.cfg
  height : s'.height = s.height
  disabled : s'.sortDisabled = s.sortDisabled
  sticky : s.panicked = true → s'.panicked = true

theorem SortOnly.refl (s : State) : SortOnly s s := ⟨rfl, rfl, rfl, rfl, rfl, rfl, rfl, rfl, rfl, rfl, rfl, rfl, id⟩

theorem SortOnly.trans {a b c : State} (h1 : SortOnly a b) (h2 : SortOnly b c) : SortOnly a c :=
  ⟨h2.pool.trans h1.pool, h2.spent.trans h1.spent, h2.utxo.trans h1.utxo, h2.wt.trans h1.wt, h2.undo.trans h1.undo,
   h2.rej.trans h1.rej, h2.ring.trans h1.ring, h2.waiting.trans h1.waiting, h2.rejSpent.trans h1.rejSpent,
   h2.cfg.trans h1.cfg, h2.height.trans h1.height, h2.disabled.trans h1.disabled, fun h => h2.sticky (h1.sticky h)⟩

theorem reindexAll_sortOnly (s : State) : SortOnly s (reindexAll s) :=
  ⟨rfl, rfl, rfl, rfl, rfl, rfl, rfl, rfl, rfl, rfl, rfl, rfl, id⟩

theorem reindexDown_sortOnly (s : State) (rb : Nat) (below : List Nat) : SortOnly s (reindexDown s rb below) := by
  unfold reindexDown
  dsimp only
  split
  · exact ⟨rfl, rfl, rfl, rfl, rfl, rfl, rfl, rfl, rfl, rfl, rfl, rfl, id⟩
  · exact reindexAll_sortOnly s

theorem fixIndex_sortOnly (s : State) (b : Nat) (bt wr : Option Nat) (below : List Nat) :
    SortOnly s (fixIndex s b bt wr below) := by
  unfold fixIndex
  split
  · exact ⟨rfl, rfl, rfl, rfl, rfl, rfl, rfl, rfl, rfl, rfl, rfl, rfl, id⟩
  · dsimp only
    split
    · exact ⟨rfl, rfl, rfl, rfl, rfl, rfl, rfl, rfl, rfl, rfl, rfl, rfl, id⟩
    · split
      · exact (SortOnly.trans (b := { s with ranks := s.ranks.set b (rankOf s _ / 2) })
          ⟨rfl, rfl, rfl, rfl, rfl, rfl, rfl, rfl, rfl, rfl, rfl, rfl, id⟩ (reindexAll_sortOnly _))
      · exact ⟨rfl, rfl, rfl, rfl, rfl, rfl, rfl, rfl, rfl, rfl, rfl, rfl, fun _ => rfl⟩
  · exact ⟨rfl, rfl, rfl, rfl, rfl, rfl, rfl, rfl, rfl, rfl, rfl, rfl, id⟩
  · dsimp only
    split
    · exact ⟨rfl, rfl, rfl, rfl, rfl, rfl, rfl, rfl, rfl, rfl, rfl, rfl, id⟩
    · exact reindexDown_sortOnly s _ _

theorem addToSort_sortOnly (K : Keys) (s : State) (b : Nat) (t : T2S) : SortOnly s (addToSort K s b t) := by
  unfold addToSort
  split
  · exact SortOnly.refl s
  · split
    · exact ⟨rfl, rfl, rfl, rfl, rfl, rfl, rfl, rfl, rfl, rfl, rfl, rfl, id⟩
    · split
      · exact ⟨rfl, rfl, rfl, rfl, rfl, rfl, rfl, rfl, rfl, rfl, rfl, rfl, id⟩
      · split
        · exact ⟨rfl, rfl, rfl, rfl, rfl, rfl, rfl, rfl, rfl, rfl, rfl, rfl, fun _ => rfl⟩
        · dsimp only
          exact SortOnly.trans (b := { s with sorted := _, ranks := s.ranks.del b })
            ⟨rfl, rfl, rfl, rfl, rfl, rfl, rfl, rfl, rfl, rfl, rfl, rfl, id⟩ (fixIndex_sortOnly _ _ _ _ _)

theorem addToSort_core (K : Keys) (s : State) (b : Nat) (t : T2S) : SameCore s (addToSort K s b t) :=
  have h := addToSort_sortOnly K s b t
  ⟨h.pool, h.spent, h.utxo, h.wt⟩

theorem delFromSort_core (s : State) (b : Nat) : SameCore s (delFromSort s b) := by
  unfold delFromSort
  split
  · exact SameCore.refl s
  · split <;> exact ⟨rfl, rfl, rfl, rfl⟩

/-! ### the structural invariant and the two primitives through which the pool changes -/

/-- TransactionsToSend is keyed by BIDX, SpentOutputs is exactly the inverse of the pooled inputs -/
structure InvS (K : Keys) (s : State) : Prop where
  key : ∀ b t, s.pool.get? b = some t → K.bidx t.tx.id = b
  sound : ∀ u b, s.spent.get? u = some b → ∃ t, s.pool.get? b = some t ∧ u ∈ uidxs K t.tx
  complete : ∀ b t, s.pool.get? b = some t → ∀ u ∈ uidxs K t.tx, s.spent.get? u = some b

theorem delOne_pool_spent (K : Keys) (s : State) (t : T2S) (reason : Nat) :
    (delOne K s t reason).pool = s.pool.del (K.bidx t.tx.id) ∧
    (delOne K s t reason).spent = t.tx.ins.foldl (fun (m : AList Nat Nat) i => m.del (K.uidx i.prev i.vout)) s.spent := by
  unfold delOne
  simp only
  generalize hs1 : ({ s with spent := t.tx.ins.foldl (fun (m : AList Nat Nat) i => m.del (K.uidx i.prev i.vout)) s.spent,
                             pool := s.pool.del (K.bidx t.tx.id) } : State) = s1
  have c1 := delFromSort_core s1 (K.bidx t.tx.id)
  have hp : s1.pool = s.pool.del (K.bidx t.tx.id) := by rw [← hs1]
  have hsp : s1.spent = t.tx.ins.foldl (fun (m : AList Nat Nat) i => m.del (K.uidx i.prev i.vout)) s.spent := by rw [← hs1]
  split
  · have c2 := rejectTx_core K { delFromSort s1 (K.bidx t.tx.id) with weightTotal := (delFromSort s1 (K.bidx t.tx.id)).weightTotal - t.tx.weight } t.tx reason none
    exact ⟨by rw [c2.1]; simp only; rw [c1.1, hp], by rw [c2.2.1]; simp only; rw [c1.2.1, hsp]⟩
  · exact ⟨by simp only; rw [c1.1, hp], by simp only; rw [c1.2.1, hsp]⟩

theorem delOne_InvS (K : Keys) (s : State) (t : T2S) (reason : Nat) (h : InvS K s)
    (hin : s.pool.get? (K.bidx t.tx.id) = some t) : InvS K (delOne K s t reason) := by
  obtain ⟨hp, hsp⟩ := delOne_pool_spent K s t reason
  have spent_eq : ∀ u, (delOne K s t reason).spent.get? u = if u ∈ uidxs K t.tx then none else s.spent.get? u := by
    intro u; rw [hsp]; exact get?_foldl_del (fun i => K.uidx i.prev i.vout) t.tx.ins s.spent u
  have pool_ne : ∀ b, b ≠ K.bidx t.tx.id → (delOne K s t reason).pool.get? b = s.pool.get? b := by
    intro b hb; rw [hp]; exact AList.get?_del_other _ _ _ hb
  have pool_self : (delOne K s t reason).pool.get? (K.bidx t.tx.id) = none := by
    rw [hp]; exact AList.get?_del_self _ _
  refine ⟨?_, ?_, ?_⟩
  · intro b t' ht'
    by_cases hb : b = K.bidx t.tx.id
    · rw [hb, pool_self] at ht'; cases ht'
    · rw [pool_ne b hb] at ht'; exact h.key b t' ht'
  · intro u b hu
    rw [spent_eq] at hu
    by_cases hmem : u ∈ uidxs K t.tx
    · simp [hmem] at hu
    · simp only [hmem, if_false] at hu
      obtain ⟨t', ht', hu'⟩ := h.sound u b hu
      have hb : b ≠ K.bidx t.tx.id := by
        intro e; rw [e, hin] at ht'; cases ht'; exact hmem hu'
      exact ⟨t', by rw [pool_ne b hb]; exact ht', hu'⟩
  · intro b t' ht' u hu
    by_cases hb : b = K.bidx t.tx.id
    · rw [hb, pool_self] at ht'; cases ht'
    · rw [pool_ne b hb] at ht'
      have := h.complete b t' ht' u hu
      rw [spent_eq]
      by_cases hmem : u ∈ uidxs K t.tx
      · have h2 := h.complete _ t hin u hmem
        rw [this] at h2; exact absurd (Option.some.inj h2) hb
      · simp only [hmem, if_false]; exact this

theorem addT2S_pool_spent (K : Keys) (s : State) (t : T2S) :
    (addT2S K s t).pool = s.pool.set (K.bidx t.tx.id) t ∧
    (addT2S K s t).spent = t.tx.ins.foldl (fun (m : AList Nat Nat) i => m.set (K.uidx i.prev i.vout) (K.bidx t.tx.id)) s.spent := by
  unfold addT2S
  simp only
  generalize hs1 : ({ s with spent := t.tx.ins.foldl (fun (m : AList Nat Nat) i => m.set (K.uidx i.prev i.vout) (K.bidx t.tx.id)) s.spent,
                             pool := s.pool.set (K.bidx t.tx.id) t,
                             weightTotal := s.weightTotal + t.tx.weight } : State) = s1
  have c1 := addToSort_core K s1 (K.bidx t.tx.id) t
  exact ⟨by rw [c1.1, ← hs1], by rw [c1.2.1, ← hs1]⟩

theorem addT2S_InvS (K : Keys) (s : State) (t : T2S) (h : InvS K s)
    (hfresh : s.pool.get? (K.bidx t.tx.id) = none)
    (hfree : ∀ u ∈ uidxs K t.tx, s.spent.get? u = none) : InvS K (addT2S K s t) := by
  obtain ⟨hp, hsp⟩ := addT2S_pool_spent K s t
  have spent_eq : ∀ u, (addT2S K s t).spent.get? u =
      if u ∈ uidxs K t.tx then some (K.bidx t.tx.id) else s.spent.get? u := by
    intro u; rw [hsp]; exact get?_foldl_set (fun i => K.uidx i.prev i.vout) (K.bidx t.tx.id) t.tx.ins s.spent u
  have pool_ne : ∀ b, b ≠ K.bidx t.tx.id → (addT2S K s t).pool.get? b = s.pool.get? b := by
    intro b hb; rw [hp]; exact AList.get?_set_other _ _ _ _ hb
  have pool_self : (addT2S K s t).pool.get? (K.bidx t.tx.id) = some t := by
    rw [hp]; exact AList.get?_set_self _ _ _
  refine ⟨?_, ?_, ?_⟩
  · intro b t' ht'
    by_cases hb : b = K.bidx t.tx.id
    · rw [hb, pool_self] at ht'; cases ht'; exact hb.symm
    · rw [pool_ne b hb] at ht'; exact h.key b t' ht'
  · intro u b hu
    rw [spent_eq] at hu
    by_cases hmem : u ∈ uidxs K t.tx
    · simp only [hmem, if_true] at hu
      cases hu
      exact ⟨t, pool_self, hmem⟩
    · simp only [hmem, if_false] at hu
      obtain ⟨t', ht', hu'⟩ := h.sound u b hu
      have hb : b ≠ K.bidx t.tx.id := by intro e; rw [e, hfresh] at ht'; cases ht'
      exact ⟨t', by rw [pool_ne b hb]; exact ht', hu'⟩
  · intro b t' ht' u hu
    rw [spent_eq]
    by_cases hb : b = K.bidx t.tx.id
    · rw [hb, pool_self] at ht'; cases ht'
      simp only [hu, if_true, hb]
    · rw [pool_ne b hb] at ht'
      have := h.complete b t' ht' u hu
      by_cases hmem : u ∈ uidxs K t.tx
      · rw [hfree u hmem] at this; cases this
      · simp only [hmem, if_false]; exact this

end GocoinV.Mempool

namespace GocoinV.Mempool

theorem InvS_of_core {K : Keys} {s s' : State} (h : InvS K s) (c : SameCore s s') : InvS K s' :=
  ⟨by rw [c.1]; exact h.key, by rw [c.1, c.2.1]; exact h.sound, by rw [c.1, c.2.1]; exact h.complete⟩

/-- deleting a list of pooled keys one by one (replacement, eviction) keeps the invariant -/
theorem deleteRbf_InvS (K : Keys) : ∀ (l : List Nat) (s : State), InvS K s →
    InvS K (l.foldl (fun s b => match s.pool.get? b with
      | some t => delOne K s t R_REPLACED
      | none => s) s) := by
  intro l
  induction l with
  | nil => intro s h; exact h
  | cons b r ih =>
    intro s h
    simp only [List.foldl_cons]
    apply ih
    cases hb : s.pool.get? b with
    | none => exact h
    | some t =>
      have hk := h.key b t hb
      exact delOne_InvS K s t _ h (by rw [hk]; exact hb)

theorem evict_InvS (K : Keys) : ∀ (l : List Nat) (s s' : State), InvS K s → evict K s l = some s' → InvS K s' := by
  intro l
  induction l with
  | nil => intro s s' h he; simp [evict] at he; rw [← he]; exact h
  | cons b r ih =>
    intro s s' h he
    simp only [evict, List.foldlM_cons] at he
    cases hb : s.pool.get? b with
    | none => simp [hb] at he
    | some t =>
      simp only [hb] at he
      by_cases hc : hasNoChildren K s t = true
      · simp only [hc, if_true, Option.bind_eq_bind, Option.bind_some] at he
        have hk := h.key b t hb
        exact ih _ s' (delOne_InvS K s t 0 h (by rw [hk]; exact hb)) he
      · simp [hc] at he

end GocoinV.Mempool
