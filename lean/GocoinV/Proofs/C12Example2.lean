/-
  Proofs.C12Example2 — a second non-vacuity instance for the all-histories theorems of Props/C12, over the keys the
  oracle executes (`realKeys`: BIDX = bytes 0..7 of the txid, UIdx = bytes 24..31 xor the output index) and 256-bit
  txids.  ONE world (`WR`, `uR`, `opsR`, `cfgR` with a 3-slot reject ring) whose history contains an RBF replacement
  (REPLACED records for the replaced parent and its child), ring evictions, an orphan (NO_TXOU with Waiting4) that
  stays, a data-less reject record (OVERSPEND), a local submission, a trusted submission (of a mature coinbase spend),
  `markLocal` on a pooled record, a block that mines a pooled transaction, `.reload`, and a CPFP package that changes
  the listing; the final reject list / ring are NOT empty.  `msR` is a resync trajectory with a non-identity `.ring`
  edit, a non-identity `.sort` edit, a refused load (`.init`) and the block.  Everything is kernel-checked
  (`decide`).  Core Lean only.
-/
import GocoinV.Model.Mempool
import GocoinV.Model.MempoolResync
import GocoinV.Spec.MempoolTemplate
import GocoinV.Proofs.C12
import GocoinV.Proofs.C12Inv
import GocoinV.Proofs.C12Rbf
import GocoinV.Proofs.C12Sort
import GocoinV.Proofs.C12Compose
import GocoinV.Proofs.C12SortRun
import GocoinV.Proofs.C12Chain
import GocoinV.Proofs.C12RejAdm
import GocoinV.Proofs.C12Resync
import GocoinV.Proofs.C12Real
namespace GocoinV.Props.C12Ex2
open GocoinV.Mempool

def idC1 : TxId := 0xd7ecfbb5816f7677d9b44b433aa2133a9616f743040c65150bdf701612aa21ba
def idC2 : TxId := 0x3f212a18c4b6dd3c7ecc6aa75f10cf391d7f5ebc093ff4c8a08e60fb2f50c463
def idC3 : TxId := 0x0d75d59fb3d7d96e68ac0fe9bfaac9d5b054951920ecbc2839c7754bda8e7de6
def idC4 : TxId := 0x947f2ea4337a7341d87f92d09c997de78b1c6f25b7299a784f500064b847577c
def idZ : TxId := 0xcb1a04d8df9937c3317e7c4629c7f33eb2519c67737d9244c412679799ff13ab
def idA : TxId := 0x0374c244560c47b03d217cbb4040adb958506dc152b386ab8631b4561fef7024
def idB : TxId := 0x8d5daf06f2d69347f0ee940de62dea405b82bb92e243206fefacbe466c64738a
def idA2 : TxId := 0x8e62e3fa2db9e7d316dffddacadc8f3d0636729bbc903b75e91d97b2402d8310
def idO : TxId := 0x69b1d7452cc4d5b8cecca147c5512113bdce00647bcdab85ae05a6a9607a88dc
def idV : TxId := 0xace7c98d2825693e27b3372a66568f4226511aa18cc39c941b7de5d9af12d168
def idL : TxId := 0xc059db915ded60e8e06834d814d559da30d10831c947ac71d335f646b9659e0c
def idT : TxId := 0xd038c8d0765ff1040f882399fabfd810e8926983d3a9733c8fa075410a604540
def idM : TxId := 0xa8416b5b6dd2f2324cb35519d5d35909ed15149a45689de23b7651a1e29a4d87
def idC : TxId := 0x59a220b8ee25b9a1208d35271bed5707afe9962209fde8c9d697a4abddd029c4

/-- the initial confirmed set: three plain coins of 1000 and a coinbase output of 5000 made at height 100 -/
def uR : UT :=
  [((idC1, 0), ⟨1000, 10, false⟩), ((idC2, 0), ⟨1000, 20, false⟩), ((idC3, 0), ⟨5000, 100, true⟩),
   ((idC4, 0), ⟨1000, 30, false⟩)]

/-- A: spends coin c1:0, two outputs, fee 1 -/
def xA : Tx := { id := idA, ins := [⟨idC1, 0, 0⟩], outs := [500, 499], nws := 100, size := 100, scriptOk := true }
/-- B: child of A:0, fee 2 -/
def xB : Tx := { id := idB, ins := [⟨idA, 0, 0⟩], outs := [498], nws := 100, size := 100, scriptOk := true }
/-- A2: conflicts with A (spends c1:0 too), fee 50: replaces A and B -/
def xA2 : Tx := { id := idA2, ins := [⟨idC1, 0, 0⟩], outs := [900, 50], nws := 100, size := 100, scriptOk := true }
/-- C: child of A2:0 paying fee 400 (CPFP) -/
def xC : Tx := { id := idC, ins := [⟨idA2, 0, 0⟩], outs := [500], nws := 100, size := 100, scriptOk := true }
/-- O: orphan, spends output 0 of `idZ`, which is neither a coin nor a transaction of the world -/
def xO : Tx := { id := idO, ins := [⟨idZ, 0, 0⟩], outs := [10], nws := 100, size := 100, scriptOk := true }
/-- V: spends c2:0 (1000) and pays out 2000: OVERSPEND -/
def xV : Tx := { id := idV, ins := [⟨idC2, 0, 0⟩], outs := [2000], nws := 100, size := 100, scriptOk := true }
/-- L: spends c2:0, fee 50; submitted locally -/
def xL : Tx := { id := idL, ins := [⟨idC2, 0, 0⟩], outs := [950], nws := 100, size := 100, scriptOk := true }
/-- T: spends the (mature) coinbase output c3:0, fee 100; submitted as trusted -/
def xT : Tx := { id := idT, ins := [⟨idC3, 0, 0⟩], outs := [4000, 900], nws := 100, size := 100, scriptOk := true }
/-- M: spends c4:0, fee 10; pooled, then mined by the block -/
def xM : Tx := { id := idM, ins := [⟨idC4, 0, 0⟩], outs := [990], nws := 100, size := 100, scriptOk := true }

/-- the universe of the history -/
def WR : Tx → Prop := fun t => t = xA ∨ t = xB ∨ t = xA2 ∨ t = xC ∨ t = xO ∨ t = xV ∨ t = xL ∨ t = xT ∨ t = xM

/-- every txid in play: the coins, the phantom parent Z of the orphan, the transactions -/
def idsR : List TxId := [idC1, idC2, idC3, idC4, idZ, idA, idB, idA2, idC, idO, idV, idL, idT, idM]

/-- acyclicity rank: coins and Z 0, their spenders 1, the grandchildren B and C 2 -/
def rankR (a : TxId) : Nat :=
  if a = idB ∨ a = idC then 2 else if a ∈ [idA, idA2, idO, idV, idL, idT, idM] then 1 else 0

/-- output values by txid -/
def outsR (a : TxId) : List Nat :=
  if a = idA then [500, 499] else if a = idB then [498] else if a = idA2 then [900, 50] else if a = idC then [500]
  else if a = idO then [10] else if a = idV then [2000] else if a = idL then [950] else if a = idT then [4000, 900]
  else if a = idM then [990] else []

/-- the value oracle: the initial coins, else the outputs of the transactions of the universe -/
def νR : OutPoint → Nat := fun o =>
  match uR.get? o with
  | some c => c.value
  | none => (outsR o.1).getD o.2 0

/-- a reject ring of 3 slots: `rejAdd` appends and then evicts the oldest record once the ring holds `ringCap` entries,
    so at most 2 records survive an Add -/
def cfgR : Cfg := { ringCap := 3 }

/-- the history: A ← B pooled, V refused (OVERSPEND, data-less record), M pooled, a (no-op) rebuild, A2 replaces A and B
    (two REPLACED records enter the ring, V's record is evicted), C (child of A2) pooled, the orphan O (NO_TXOU, waits for
    Z; the REPLACED record of B is evicted), L submitted locally, T submitted as trusted, A2 submitted locally again
    (already pooled: 1001, marked Local), a block mining the pooled M, the tip move, a rebuild, save + load, a rebuild. -/
def opsR : List Op :=
  [.tip 500, .submitNet xA false 0, .submitNet xB false 0, .submitNet xV false 0, .submitNet xM false 0, .resort,
   .submitNet xA2 false 0, .submitNet xC false 0, .submitNet xO false 0, .submitLocal xL 0, .submitNet xT true 0,
   .submitLocal xA2 0, .block 501 [xM] 0, .tip 501, .resort, .reload, .resort]

/-- the state after the first `n` operations -/
def sR (n : Nat) : State := run realKeys (genesis cfgR uR 0) (opsR.take n)

/-- the CPFP package: parent A2 (fee 50), child C (fee 400) -/
def pkR : Pkg := { txs := [realKeys.bidx idA2, realKeys.bidx idC], fee := 450, weight := 800 }
def pksR : List Pkg := [pkR]

/-! ### the hypotheses of the theorems -/

theorem playR : ∀ a : TxId, Play WR a → a ∈ idsR := by
  rintro a (⟨t, ht, rfl⟩ | ⟨t, ht, i, hi, rfl⟩)
  · rcases ht with rfl | rfl | rfl | rfl | rfl | rfl | rfl | rfl | rfl <;> decide
  · revert i
    rcases ht with rfl | rfl | rfl | rfl | rfl | rfl | rfl | rfl | rfl <;> decide

/-- the txids in play differ pairwise in bytes 0..7 (BIDX) … -/
theorem loR : ∀ a ∈ idsR, ∀ b ∈ idsR, a % 2 ^ 64 = b % 2 ^ 64 → a = b := by decide

/-- … and in bytes 28..31 (the half of the UIdx word the output index cannot reach) -/
theorem hiR : ∀ a ∈ idsR, ∀ b ∈ idsR, hi32 a = hi32 b → a = b := by decide

theorem vplayR : ∀ v, VPlay WR v → v < 2 ^ 32 := by
  rintro v (⟨t, ht, i, hi, rfl⟩ | ⟨t, ht, hv⟩)
  · revert i
    rcases ht with rfl | rfl | rfl | rfl | rfl | rfl | rfl | rfl | rfl <;> decide
  · have : t.outs.length ≤ 2 := by
      rcases ht with rfl | rfl | rfl | rfl | rfl | rfl | rfl | rfl | rfl <;> decide
    have : (2 : Nat) < 2 ^ 32 := by decide
    omega

theorem uR_none (a : TxId) (v : Nat) (h : a ∉ [idC1, idC2, idC3, idC4]) : uR.get? (a, v) = none := by
  simp only [List.mem_cons, List.not_mem_nil, or_false, not_or] at h
  obtain ⟨h1, h2, h3, h4⟩ := h
  have e : ∀ c : TxId, ¬ a = c → ¬ ((c, 0) : TxId × Nat) = (a, v) := fun c hc e => hc (congrArg Prod.fst e).symm
  simp [uR, AList.get?, e _ h1, e _ h2, e _ h3, e _ h4]

theorem univR : Univ2 realKeys WR rankR uR νR := by
  obtain ⟨k1, k2, k3, k4⟩ := realKeys_collision_free WR
    (fun a b ha hb h => loR a (playR a ha) b (playR b hb) h)
    (fun a b ha hb h => hiR a (playR a ha) b (playR b hb) h) vplayR
  have hout : ∀ t, WR t → outsR t.id = t.outs := by
    intro t ht
    rcases ht with rfl | rfl | rfl | rfl | rfl | rfl | rfl | rfl | rfl <;> decide
  have hgen : ∀ t, WR t → ∀ v, uR.get? (t.id, v) = none := by
    intro t ht v
    apply uR_none
    rcases ht with rfl | rfl | rfl | rfl | rfl | rfl | rfl | rfl | rfl <;> decide
  refine ⟨⟨k1, k2, ?_, ?_, ?_⟩, k3, k4, hgen, ?_, ?_⟩
  · intro a b ha hb h
    rcases ha with rfl | rfl | rfl | rfl | rfl | rfl | rfl | rfl | rfl <;>
      rcases hb with rfl | rfl | rfl | rfl | rfl | rfl | rfl | rfl | rfl <;>
      first | rfl | exact absurd h (by decide)
  · intro a ha
    rcases ha with rfl | rfl | rfl | rfl | rfl | rfl | rfl | rfl | rfl <;> decide
  · intro a ha
    show ∀ i ∈ a.ins, rankR i.prev < rankR a.id
    rcases ha with rfl | rfl | rfl | rfl | rfl | rfl | rfl | rfl | rfl <;> decide
  · intro t ht v
    simp only [νR, hgen t ht v, hout t ht]
  · intro o c h
    simp only [νR, h]

theorem hWR : ∀ op ∈ opsR, ∀ t ∈ op.txs, WR t := by
  intro op ho t ht
  simp only [opsR, List.mem_cons, List.not_mem_nil, or_false] at ho
  rcases ho with rfl | rfl | rfl | rfl | rfl | rfl | rfl | rfl | rfl | rfl | rfl | rfl | rfl | rfl | rfl | rfl | rfl <;>
    simp [Op.txs] at ht <;> subst ht <;> simp [WR]

theorem aliveR : (run realKeys (genesis cfgR uR 0) opsR).panicked = false := by decide

/-- executable form of `BlockOK` -/
def okBR (avail : OutPoint → Bool) : List Tx → Bool
  | [] => true
  | t :: r => decide t.inOps.Nodup && t.inOps.all avail &&
      okBR (fun o => (avail o && !t.inOps.contains o) || (decide (o.1 = t.id) && decide (o.2 < t.outs.length))) r

theorem okBR_sound : ∀ (l : List Tx) (avail : OutPoint → Bool) (P : OutPoint → Prop),
    (∀ o, avail o = true → P o) → okBR avail l = true → BlockOK P l := by
  intro l
  induction l with
  | nil => intro _ _ _ _; trivial
  | cons t r ih =>
    intro avail P hP h
    simp only [okBR, Bool.and_eq_true, decide_eq_true_eq, List.all_eq_true] at h
    refine ⟨h.1.1, fun o ho => hP o (h.1.2 o ho), ih _ _ ?_ h.2⟩
    intro o ho
    simp only [Bool.or_eq_true, Bool.and_eq_true, Bool.not_eq_true', decide_eq_true_eq] at ho
    rcases ho with ⟨h1, h2⟩ | h3
    · refine Or.inl ⟨hP o h1, ?_⟩
      intro hm
      simp [hm] at h2
    · exact Or.inr h3

/-- a body is valid in `s` when it passes the executable input-availability check against the confirmed set of `s`, no
    block is connected above the initial confirmed set, its ids are not ids of initial coins and pairwise different -/
theorem blockValidR_of (s : State) (txs : List Tx) (hok : okBR (fun o => (s.utxo.get? o).isSome) txs = true)
    (hu : s.undo = []) (h0 : ∀ t ∈ txs, ∀ v, uR.get? (t.id, v) = none)
    (hp : txs.Pairwise (fun a b => a.id ≠ b.id)) : BlockValid uR s txs := by
  refine ⟨okBR_sound txs _ _ (fun _ h => h) hok, ?_, hp⟩
  intro t ht
  rintro (⟨v, c, h⟩ | ⟨e, he, _⟩)
  · rw [h0 t ht v] at h; cases h
  · rw [hu] at he; cases he

theorem validR : ValidRun realKeys uR (genesis cfgR uR 0) opsR := by
  refine ⟨trivial, trivial, trivial, trivial, trivial, trivial, trivial, trivial, trivial, trivial, trivial, trivial,
    ?_, trivial, trivial, trivial, trivial, trivial⟩
  show BlockValid uR (sR 12) [xM]
  refine blockValidR_of _ _ (by decide) (by decide) ?_ (by decide)
  intro t ht
  exact univR.genesis t (hWR (.block 501 [xM] 0) (by simp [opsR]) t ht)

theorem pkgsR : ∀ pk ∈ pksR, pkgOK realKeys (run realKeys (genesis cfgR uR 0) opsR) pk = true := by
  intro pk h
  simp only [pksR, List.mem_cons, List.not_mem_nil, or_false] at h
  subst h
  decide

theorem cleanR : (run realKeys (genesis cfgR uR 0) opsR).sortDirty = false := by decide

theorem wrapR : (run realKeys (genesis cfgR uR 0) opsR).rankWrap = false := by decide

theorem nowrapR : (run realKeys (genesis cfgR uR 0) opsR).sortDirty = false →
    (run realKeys (genesis cfgR uR 0) opsR).rankWrap = false := fun _ => wrapR

theorem capR : 2 ≤ cfgR.ringCap := by decide

/-! ### the instances (Props/C12 `pool_inv`, `sorted_list_inv`, `reject_index_inv` re-derived from the Proofs-level lemmas;
  `template_from_pool` takes `univR cfgR hWR validR aliveR pksR pkgsR nowrapR`) -/

theorem admR : AdmRun realKeys uR νR (genesis cfgR uR 0) opsR := admRun_genesis univR cfgR 0 opsR hWR validR

theorem fullR : Full realKeys WR uR νR (run realKeys (genesis cfgR uR 0) opsR) :=
  run_full univR opsR _ (full_genesis univR cfgR 0) hWR admR

theorem distinctR : BlocksDistinct realKeys opsR := by
  intro op ho h txs mf e
  simp only [opsR, List.mem_cons, List.not_mem_nil, or_false] at ho
  rcases ho with rfl | rfl | rfl | rfl | rfl | rfl | rfl | rfl | rfl | rfl | rfl | rfl | rfl | rfl | rfl | rfl | rfl <;>
    cases e <;> simp

theorem poolInvR : PoolInv realKeys νR (run realKeys (genesis cfgR uR 0) opsR) :=
  PoolInv.of_good fullR.chain (fullR.good aliveR)

theorem sortOKR : SortOK realKeys (run realKeys (genesis cfgR uR 0) opsR) :=
  run_sort univR opsR _ (full_genesis univR cfgR 0) (sort_genesis realKeys cfgR uR 0) hWR admR aliveR cleanR wrapR

theorem rejInvR : RejInv realKeys (run realKeys (genesis cfgR uR 0) opsR) :=
  rejInv_all_histories univR cfgR 0 capR opsR hWR admR distinctR aliveR

/-! ### resync trajectories: `RAdm` from block validity -/

/-- validity of one move: no `undo`, a `block` carries a `BlockValid` body -/
def MoveValid (u0 : UT) (s : State) : Move → Prop
  | .op (.undo _ _) => False
  | .op o => ValidOp u0 s o
  | _ => True

def RValid (K : Keys) (u0 : UT) : State → List Move → Prop
  | _, [] => True
  | s, m :: r => MoveValid u0 s m ∧ RValid K u0 (rstep K s m) r

/-- the resync edits and a refused load leave the chain side alone -/
theorem rstep_chainInv {K : Keys} {u0 : UT} {ν : OutPoint → Nat} (s : State) (hc : ChainInv u0 ν s) :
    (∀ ks, ChainInv u0 ν (rstep K s (.ring ks))) ∧ (∀ ks, ChainInv u0 ν (rstep K s (.sort ks))) ∧
    (∀ k j, ChainInv u0 ν (rstep K s (.init k j))) := by
  refine ⟨?_, ?_, ?_⟩
  · intro ks
    simp only [rstep]
    cases h : ringorder s ks with
    | none => exact hc
    | some s' => obtain ⟨_, rfl⟩ := ringorder_spec h; exact hc.of_eq rfl rfl
  · intro ks
    simp only [rstep]
    cases h : setorder K s ks with
    | none => exact hc
    | some s' => obtain ⟨_, _, _, rfl⟩ := setorder_spec h; exact hc.of_eq rfl rfl
  · intro k j
    simp only [rstep]
    rw [loadRefused_eq]
    exact hc.of_eq rfl rfl

/-- `RAdm` (the hypothesis of `rrun_inv` / `resync_run_inv`) for every undo-free trajectory of valid blocks, pool
    operations, resync edits and refused loads from a state with the chain-side history invariant: `ConnectSound` of each
    block is derived (`step_chainInv`), as `admRun_genesis` does for plain runs -/
theorem radm_of_valid {K : Keys} {W : Tx → Prop} {rank : TxId → Nat} {u0 : UT} {ν : OutPoint → Nat}
    (U : Univ2 K W rank u0 ν) : ∀ (ms : List Move) (s : State), ChainInv u0 ν s →
    (∀ m ∈ ms, ∀ o, m = .op o → ∀ t ∈ o.txs, W t) → RValid K u0 s ms → RAdm K W u0 ν s ms := by
  intro ms
  induction ms with
  | nil => intro _ _ _ _; trivial
  | cons m r ih =>
    intro s hc hW hv
    have hWr : ∀ m' ∈ r, ∀ o, m' = .op o → ∀ t ∈ o.txs, W t := fun m' hm' => hW m' (List.mem_cons_of_mem _ hm')
    obtain ⟨c1, c2, c3⟩ := rstep_chainInv (K := K) s hc
    cases m with
    | ring ks => exact ⟨trivial, ih _ (c1 ks) hWr hv.2⟩
    | sort ks => exact ⟨trivial, ih _ (c2 ks) hWr hv.2⟩
    | init k j => exact ⟨trivial, ih _ (c3 k j) hWr hv.2⟩
    | op o =>
      have hWo : ∀ t ∈ o.txs, W t := hW _ List.mem_cons_self o rfl
      have key : ValidOp u0 s o → UndoOK K s o → RAdm K W u0 ν s (.op o :: r) := by
        intro hvo hu
        obtain ⟨ha, hc'⟩ := step_chainInv U s o hc hWo hvo
        exact ⟨⟨hWo, ha, hu⟩, ih _ hc' hWr hv.2⟩
      cases o with
      | undo h mf => exact hv.1.elim
      | submitNet t tr mf => exact key hv.1 trivial
      | submitLocal t mf => exact key hv.1 trivial
      | block h txs mf => exact key hv.1 trivial
      | tip h => exact key hv.1 trivial
      | expire old => exact key hv.1 trivial
      | evict v => exact key hv.1 trivial
      | resort => exact key hv.1 trivial
      | commitFlag y => exact key hv.1 trivial
      | reload => exact key hv.1 trivial

/-- the resync trajectory: L pooled and V refused, then a refused load of the file cut after one pool record
    (`.init 1 none`: everything is gone), then the history `opsR` — including its block — with two REAL edits:
    after the replacement the two REPLACED records B, A of the ring are swapped (the Go loop over the rbf map may push
    them in either order), and after T the tie A2 / L of the sorted list is swapped (C stays behind its parent A2) -/
def msR : List Move :=
  [.op (.tip 500), .op (.submitNet xL false 0), .op (.submitNet xV false 0), .init 1 none,
   .op (.submitNet xA false 0), .op (.submitNet xB false 0), .op (.submitNet xV false 0), .op (.submitNet xM false 0),
   .op .resort, .op (.submitNet xA2 false 0),
   .ring [realKeys.bidx idA, realKeys.bidx idB],
   .op (.submitNet xC false 0), .op (.submitNet xO false 0), .op (.submitLocal xL 0), .op (.submitNet xT true 0),
   .sort [realKeys.bidx idT, realKeys.bidx idL, realKeys.bidx idA2, realKeys.bidx idC, realKeys.bidx idM],
   .op (.submitLocal xA2 0), .op (.block 501 [xM] 0), .op (.tip 501), .op .resort, .op .reload, .op .resort]

/-- the state after the first `n` moves -/
def mR (n : Nat) : State := rrun realKeys (genesis cfgR uR 0) (msR.take n)

theorem hWmR : ∀ m ∈ msR, ∀ o, m = .op o → ∀ t ∈ o.txs, WR t := by
  intro m hm o e t ht
  simp only [msR, List.mem_cons, List.not_mem_nil, or_false] at hm
  rcases hm with rfl | rfl | rfl | rfl | rfl | rfl | rfl | rfl | rfl | rfl | rfl | rfl | rfl | rfl | rfl | rfl | rfl |
    rfl | rfl | rfl | rfl | rfl <;> cases e <;> simp [Op.txs] at ht <;> subst ht <;> simp [WR]

theorem rvalidR : RValid realKeys uR (genesis cfgR uR 0) msR := by
  refine ⟨trivial, trivial, trivial, trivial, trivial, trivial, trivial, trivial, trivial, trivial, trivial, trivial,
    trivial, trivial, trivial, trivial, trivial, ?_, trivial, trivial, trivial, trivial, trivial⟩
  show BlockValid uR (mR 17) [xM]
  refine blockValidR_of _ _ (by decide) (by decide) ?_ (by decide)
  intro t ht
  exact univR.genesis t (hWmR (.op (.block 501 [xM] 0)) (by simp [msR]) _ rfl t ht)

theorem radmR : RAdm realKeys WR uR νR (genesis cfgR uR 0) msR :=
  radm_of_valid univR msR _ (chainInv_genesis univR cfgR 0) hWmR rvalidR

/-- the three carried invariants at the end of the resync trajectory (what `resync_run_inv` states) -/
theorem resyncR : Full realKeys WR uR νR (rrun realKeys (genesis cfgR uR 0) msR) ∧
    RejInv realKeys (rrun realKeys (genesis cfgR uR 0) msR) ∧ SortInvP realKeys (rrun realKeys (genesis cfgR uR 0) msR) :=
  rrun_inv univR msR _ radmR (full_genesis univR cfgR 0) (rejInv_genesis realKeys cfgR uR 0 capR)
    (sort_genesis realKeys cfgR uR 0)

/-! ### what the history does (all by kernel evaluation of the model over `realKeys`) -/

-- `sR 17` is the final state of `opsR`, `mR 22` the final state of `msR`
example : sR 17 = run realKeys (genesis cfgR uR 0) opsR := rfl
example : mR 22 = rrun realKeys (genesis cfgR uR 0) msR := rfl

-- the keys are the code's: 8-byte words of the 256-bit txids
example : realKeys.bidx idA = 0x8631b4561fef7024 ∧ realKeys.uidx idA 1 = 0x0374c244560c47b1 ∧
    realKeys.bidx idA2 = 0xe91d97b2402d8310 ∧ realKeys.uidx idC1 0 = 0xd7ecfbb5816f7677 := by decide

-- THE FINAL REJECT LIST AND RING ARE NOT EMPTY: the orphan O (NO_TXOU = 202, with its data, waits for Z) and the
-- REPLACED (213) record of A with its data; WaitingForInputs and RejectedSpentOutputs index them
example : (sR 17).rej.map (fun p => (p.1, p.2.id, p.2.reason, p.2.tx, p.2.waiting4)) =
    [(realKeys.bidx idO, idO, 202, some xO, some idZ), (realKeys.bidx idA, idA, 213, some xA, none)] := by decide
example : (sR 17).ring = [some (realKeys.bidx idA), some (realKeys.bidx idO)] := by decide
example : (sR 17).waiting = [(realKeys.bidx idZ, (idZ, [realKeys.bidx idO]))] ∧
    (sR 17).rejSpent = [(realKeys.uidx idZ 0, [realKeys.bidx idO]), (realKeys.uidx idC1 0, [realKeys.bidx idA])] := by
  decide
-- the final pool: A2 (Local since the second submission), T (trusted), L (Local), C (flagged child of A2)
example : (sR 17).pool.map (fun p => (p.1, p.2.tx.id, p.2.fee, p.2.mem, p.2.loc)) =
    [(realKeys.bidx idA2, idA2, 50, [], true), (realKeys.bidx idT, idT, 100, [], false),
     (realKeys.bidx idL, idL, 50, [], true), (realKeys.bidx idC, idC, 400, [true], false)] := by decide
example : (sR 17).sorted = [realKeys.bidx idT, realKeys.bidx idA2, realKeys.bidx idC, realKeys.bidx idL] ∧
    (sR 17).weightTotal = 1600 ∧ (sR 17).height = 501 := by decide

-- V is refused with OVERSPEND = 154: a record WITHOUT data
example : (submitNet realKeys 0 (sR 3) xV false).1 = 154 ∧
    (sR 4).rej.map (fun p => (p.1, p.2.reason, p.2.tx, p.2.waiting4)) = [(realKeys.bidx idV, 154, none, none)] ∧
    (sR 4).ring = [some (realKeys.bidx idV)] := by decide

-- THE REPLACEMENT (operation 6, `sR 6` → `sR 7`): A and its child B are pooled before; A2 is accepted (code 0), A and B
-- are gone from the pool and from SpentOutputs, A2 owns the outpoint c1:0, and two REPLACED records entered the ring
example : (sR 6).pool.map (·.1) = [realKeys.bidx idM, realKeys.bidx idB, realKeys.bidx idA] ∧
    (sR 6).spent.get? (realKeys.uidx idC1 0) = some (realKeys.bidx idA) := by decide
example : (submitNet realKeys 0 (sR 6) xA2 false).1 = 0 ∧
    (sR 7).pool.map (·.1) = [realKeys.bidx idA2, realKeys.bidx idM] ∧
    (sR 7).spent.get? (realKeys.uidx idC1 0) = some (realKeys.bidx idA2) ∧
    (sR 7).spent.get? (realKeys.uidx idA 0) = none := by decide
example : (sR 7).rej.map (fun p => (p.1, p.2.reason, p.2.tx)) =
    [(realKeys.bidx idA, 213, some xA), (realKeys.bidx idB, 213, some xB)] ∧
    (sR 7).ring = [some (realKeys.bidx idB), some (realKeys.bidx idA)] := by decide
-- a replacement whose fee rate does not beat what it replaces (fee 1 / 100 vbytes against 3 / 200) is refused with
-- RBF_LOWFEE = 210
example : (submitNet realKeys 0 (sR 6) { xA2 with outs := [900, 99] } false).1 = 210 := by decide

-- RING EVICTIONS: the second REPLACED record fills the 3rd slot, the oldest record (V) is dropped (`sR 6` → `sR 7`);
-- the orphan's record drops the REPLACED record of B (`sR 8` → `sR 9`); the ring never holds more than 2 entries
example : (sR 6).rej.has (realKeys.bidx idV) = true ∧ (sR 7).rej.has (realKeys.bidx idV) = false ∧
    (sR 7).ring.contains (some (realKeys.bidx idV)) = false := by decide
example : (sR 8).rej.has (realKeys.bidx idB) = true ∧ (sR 9).rej.has (realKeys.bidx idB) = false ∧
    (sR 9).ring = [some (realKeys.bidx idA), some (realKeys.bidx idO)] ∧
    (sR 9).rejSpent.get? (realKeys.uidx idA 0) = none := by decide
example : ∀ n ∈ List.range 18, (sR n).ring.length ≤ 2 ∧ (sR n).rej.length = (sR n).ring.length := by decide
-- without the eviction the ring would hold 4 records at the end: V, B, A, O entered it
example : ((List.range 18).map fun n => (sR n).ring.length) = [0, 0, 0, 0, 1, 1, 1, 2, 2, 2, 2, 2, 2, 2, 2, 2, 2, 2] := by
  decide

-- THE ORPHAN (operation 8): NO_TXOU = 202, the record keeps the transaction and waits for Z
example : (submitNet realKeys 0 (sR 8) xO false).1 = 202 ∧
    (sR 9).waiting = [(realKeys.bidx idZ, (idZ, [realKeys.bidx idO]))] := by decide

-- THE LOCAL AND THE TRUSTED SUBMISSION are accepted (code 0); L is Local, T is not; T spends a mature coinbase output
-- (at height 0 the same submission is refused with CB_INMATURE = 209)
example : (submitLocal realKeys 0 (sR 9) xL).1 = 0 ∧ ((sR 10).pool.get? (realKeys.bidx idL)).map (·.loc) = some true := by
  decide
example : (submitNet realKeys 0 (sR 10) xT true).1 = 0 ∧
    ((sR 11).pool.get? (realKeys.bidx idT)).map (fun t => (t.loc, t.volume)) = some (false, 5000) ∧
    (submitNet realKeys 0 (genesis cfgR uR 0) xT true).1 = 209 := by decide

-- MARKLOCAL (operation 11): A2 is pooled, the local submission answers 1001 and only sets the Local flag
example : (submitLocal realKeys 0 (sR 11) xA2).1 = 1001 ∧
    ((sR 11).pool.get? (realKeys.bidx idA2)).map (·.loc) = some false ∧
    ((sR 12).pool.get? (realKeys.bidx idA2)).map (·.loc) = some true ∧
    (sR 12).sorted = (sR 11).sorted ∧ (sR 12).rej = (sR 11).rej := by decide

-- THE BLOCK (operation 12) mines the pooled M: gone from the pool and the (non-dirty) list, its output confirmed
example : (sR 12).pool.has (realKeys.bidx idM) = true ∧ (sR 13).pool.has (realKeys.bidx idM) = false ∧
    (sR 13).utxo.get? (idM, 0) = some ⟨990, 501, false⟩ ∧ (sR 13).utxo.get? (idC4, 0) = none ∧
    (sR 13).undo.length = 1 ∧ (sR 13).sortDirty = false ∧
    (sR 13).sorted = [realKeys.bidx idT, realKeys.bidx idA2, realKeys.bidx idC, realKeys.bidx idL] := by decide

-- RELOAD (operation 15): the pool keys, the records' flags and SpentOutputs survive, the list is gone and dirty, the
-- reject list and the ring are rebuilt from the ring (same records, same order)
example : (sR 16).pool.map (·.1) = (sR 15).pool.map (·.1) ∧
    (sR 16).pool.map (fun p => (p.2.mem, p.2.memCnt, p.2.loc)) = (sR 15).pool.map (fun p => (p.2.mem, p.2.memCnt, p.2.loc)) ∧
    (sR 16).sorted = [] ∧ (sR 16).sortDirty = true ∧ (sR 15).sortDirty = false ∧
    (sR 16).ring = (sR 15).ring ∧ (sR 16).ring.length = 2 ∧
    (sR 16).rej.map (fun p => (p.1, p.2.reason)) = [(realKeys.bidx idO, 202), (realKeys.bidx idA, 213)] ∧
    (sR 16).waiting = (sR 15).waiting ∧ (sR 16).weightTotal = 1600 := by decide
example : ∀ u, u ∈ [realKeys.uidx idC1 0, realKeys.uidx idC2 0, realKeys.uidx idC3 0, realKeys.uidx idA2 0] →
    (sR 16).spent.get? u = (sR 15).spent.get? u ∧ ((sR 16).spent.get? u).isSome = true := by decide

-- THE PACKAGE MATTERS: A2 + C (450 / 800) beats T (100 / 400): with it the listing starts with A2, C
example : pkgOK realKeys (sR 17) pkR = true := by decide
example : sortedRBF realKeys (sR 17) pksR = [realKeys.bidx idA2, realKeys.bidx idC, realKeys.bidx idT, realKeys.bidx idL] ∧
    sortedRBF realKeys (sR 17) [] = [realKeys.bidx idT, realKeys.bidx idA2, realKeys.bidx idC, realKeys.bidx idL] := by
  decide
example : (recsOf (sR 17) (sortedRBF realKeys (sR 17) pksR)).map (·.tx.id) = [idA2, idC, idT, idL] := by decide

/-! ### what the resync trajectory does -/

-- the refused load (move 3) wipes the pooled L and the record of V
example : (mR 3).pool.map (·.1) = [realKeys.bidx idL] ∧ (mR 3).ring = [some (realKeys.bidx idV)] ∧
    (mR 4).pool = [] ∧ (mR 4).rej = [] ∧ (mR 4).ring = [] ∧ (mR 4).utxo = uR ∧ (mR 4).height = 500 := by decide

-- THE RING EDIT (move 10) is accepted and is not the identity: the two REPLACED records change places …
example : (mR 10).ring = [some (realKeys.bidx idB), some (realKeys.bidx idA)] ∧
    (ringorder (mR 10) [realKeys.bidx idA, realKeys.bidx idB]).isSome = true ∧
    (mR 11).ring = [some (realKeys.bidx idA), some (realKeys.bidx idB)] ∧ (mR 11).ring ≠ (mR 10).ring ∧
    (mR 11).rej = (mR 10).rej := by decide
-- … and it matters later: the orphan's record now evicts A (in `opsR` it evicted B)
example : (mR 13).ring = [some (realKeys.bidx idB), some (realKeys.bidx idO)] ∧
    (mR 13).rej.has (realKeys.bidx idA) = false ∧ (sR 9).rej.has (realKeys.bidx idA) = true := by decide
-- a list that is not a permutation of the occupied slots is refused
example : (ringorder (mR 10) [realKeys.bidx idA, realKeys.bidx idV]).isSome = false := by decide

-- THE SORT EDIT (move 15) is accepted on a clean list of five pooled transactions and is not the identity: the tie
-- A2 / L (fee 50 each) is swapped, C stays behind its flagged parent A2; the ranks are rebuilt, no wrap
example : (mR 15).sortDirty = false ∧
    (mR 15).sorted = [realKeys.bidx idT, realKeys.bidx idA2, realKeys.bidx idC, realKeys.bidx idL, realKeys.bidx idM] ∧
    (setorder realKeys (mR 15)
      [realKeys.bidx idT, realKeys.bidx idL, realKeys.bidx idA2, realKeys.bidx idC, realKeys.bidx idM]).isSome = true ∧
    (mR 16).sorted = [realKeys.bidx idT, realKeys.bidx idL, realKeys.bidx idA2, realKeys.bidx idC, realKeys.bidx idM] ∧
    (mR 16).sorted ≠ (mR 15).sorted ∧ (mR 16).ranks ≠ (mR 15).ranks ∧ (mR 16).rankWrap = false ∧
    (mR 16).pool = (mR 15).pool := by decide
-- a permutation that puts the child C before its parent A2 is refused
example : (setorder realKeys (mR 15)
    [realKeys.bidx idT, realKeys.bidx idC, realKeys.bidx idA2, realKeys.bidx idL, realKeys.bidx idM]).isSome = false := by
  decide
-- the adopted order survives markLocal and the block (incremental DelFromSort of M) until the list is rebuilt
example : (mR 18).sorted = [realKeys.bidx idT, realKeys.bidx idL, realKeys.bidx idA2, realKeys.bidx idC] ∧
    (mR 18).sortDirty = false := by decide +kernel

-- the end of the trajectory: alive, clean, no wrap; reject list and ring NOT empty (REPLACED B, orphan O)
example : (mR 22).panicked = false ∧ (mR 22).sortDirty = false ∧ (mR 22).rankWrap = false ∧
    (mR 22).rej.map (fun p => (p.1, p.2.reason, p.2.waiting4)) =
      [(realKeys.bidx idO, 202, some idZ), (realKeys.bidx idB, 213, none)] ∧
    (mR 22).ring = [some (realKeys.bidx idB), some (realKeys.bidx idO)] ∧
    (mR 22).pool.map (·.1) = [realKeys.bidx idA2, realKeys.bidx idT, realKeys.bidx idL, realKeys.bidx idC] := by
  decide +kernel

end GocoinV.Props.C12Ex2
