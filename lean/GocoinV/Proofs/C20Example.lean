/-
  Proofs.C20Example — a relocating defragClass pass, evaluated inside Lean.  Std.HashMap does not reduce in
  the kernel, so the pass is evaluated by `simp` with the map laws (`KMap.get?_set` …) instead of `decide`:
  `s1` is the state after `Malloc(131040)` on the empty allocator (largest shared class 49, 8 slots per page);
  `defragClass s1 49 [1]` accepts the order [page 1], marks page 1, relocates its one live record to a fresh
  page 2, unlinks and unmaps page 1 (`s2`).  (DefragAllImproved itself would not start class 49 in `s1`: the
  trigger needs more than 12 pages' worth of free slots, i.e. a trace of > 200 operations — such passes are
  exercised by the correspondence run only.)  The numbers 49 / 8 / 131064 are those of the generated table.
-/
import GocoinV.Proofs.C20Total
namespace GocoinV.Alloc
open GocoinV.Gen.MemClasses

theorem c49 : classOf 131064 = 49 ∧ capOf 49 = 8 ∧ maxShared = 131064 ∧ slotSize 49 = 131064 ∧
    minFreePagesTo = 4 := by decide +kernel

def exS1 : State Nat :=
  { cls := (KMap.empty.set 49 { cur := some 1, plist := [1], pageCount := 1, freeSlots := 8 }).set 49
              { cur := some 1, plist := [1], pageCount := 1, freeSlots := 7 },
    pages := (KMap.empty.set 1 { cls := 49, free := 8 }).set 1 { cls := 49, brk := 1, used := 1, free := 7 },
    mem := KMap.empty.set (Addr.sh 1 0) { data := some (Addr.sh 1 0), len := 131040, cap := 131040, val := none },
    nextPage := 2, allocs := 1, bytes := pageSize, sharedMmaps := 1,
    live := KMap.empty.set (Addr.sh 1 0) { size := 131040, val := none },
    heap := hLinkPage { } 49 1 }

def exS2 : State Nat :=
  { cls :=
      ((((((KMap.empty.set 49 { cur := some 1, plist := [1], pageCount := 1, freeSlots := 8 }).set 49
        { cur := some 1, plist := [1], pageCount := 1, freeSlots := 7 }).set
        49 { plist := [1], pageCount := 1, freeSlots := 7 }).set
        49 { cur := some 2, plist := [1, 2], pageCount := 2, freeSlots := 15 }).set
        49 { cur := some 2, plist := [1, 2], pageCount := 2, freeSlots := 14 }).set
        49 { cur := some 2, plist := [1, 2], pageCount := 2, freeSlots := 15 }).set
        49 { cur := some 2, plist := [2], pageCount := 1, freeSlots := 7 },
    pages :=
      ((((((KMap.empty.set 1 { cls := 49, free := 8 }).set 1 { cls := 49, brk := 1, used := 1, free := 7 }).set 1
        { cls := 49, evac := true, brk := 1, used := 1, free := 7 }).set
        2 { cls := 49, free := 8 }).set
        2 { cls := 49, brk := 1, used := 1, free := 7 }).set
        1 { cls := 49, evac := true, brk := 1, free := 8, scan := 1 }).del 1,
    mem :=
      (KMap.empty.set (Addr.sh 1 0) { data := some (Addr.sh 1 0), len := 131040, cap := 131040, val := none }).set
        (Addr.sh 2 0) { data := some (Addr.sh 2 0), len := 131040, cap := 131040, val := none },
    nextPage := 3, allocs := 1, bytes := pageSize, sharedMmaps := 1,
    live :=
      (((KMap.empty.set (Addr.sh 1 0) { size := 131040, val := none }).set (Addr.sh 2 0)
        { size := 131040, val := none }).del (Addr.sh 1 0)).set (Addr.sh 2 0) { size := 131040, val := none },
    relog := [(Addr.sh 1 0, Addr.sh 2 0)],
    heap := hUnlinkPage (hLinkPage (hPurge (hLinkPage { } 49 1) 49 1 1) 49 2) 49 1 }

theorem exS1_malloc : malloc (init : State Nat) 131040 = .ok (exS1, .sh 1 0) := by
  simp [malloc, c49, allocLive, allocSlot, newPage, init, State.K, KMap.get?_set, sliceHdrLen, exS1]

theorem exS1_choice : choiceOk exS1 49 [1] = true := by
  simp [choiceOk, exS1, State.K, KMap.get?_set, c49, usedOf, selUsed, sortNat, insertSorted, selCount, legalChoice]

theorem exS1_defrag : defragClass exS1 49 [1] = .ok exS2 := by
  simp [defragClass, exS1, exS2, State.K, KMap.get?_set, c49, usedOf, selUsed, sortNat, insertSorted, selCount,
    legalChoice, foldE, beginEvac, evacPage, iter, moveNext, allocLive, allocSlot, newPage, freeSlot, endEvac,
    clobber]

theorem exS2_facts : exS2.relog = [(Addr.sh 1 0, Addr.sh 2 0)] ∧
    exS2.live.get? (.sh 2 0) = some ⟨131040, none⟩ ∧ exS2.live.get? (.sh 1 0) = none ∧
    exS2.pages.get? 1 = none ∧
    exS2.mem.get? (.sh 2 0) = some ⟨some (.sh 2 0), 131040, 131040, none⟩ := by
  simp [exS2, KMap.get?_set, KMap.get?_del]

/-! ### non-trivial states for the non-vacuity examples of node_writes_clobbered / rep_step / counters_step -/

theorem exS1_run : run (init : State Nat) [.malloc 131040] = .ok exS1 := by
  simp [run, foldE, step, exS1_malloc]

/-- in `exS1` (one page of class 49, one live record) allocSlot succeeds (bump path) -/
theorem exS1_allocSlot : ∃ r, allocSlot exS1 49 = .ok r := by
  simp [allocSlot, exS1, State.K, KMap.get?_set, c49]

/-- in `exS1` beginEvac of page 1 succeeds -/
theorem exS1_beginEvac : ∃ s', beginEvac exS1 49 1 = .ok s' := by
  simp [beginEvac, exS1, State.K, KMap.get?_set]

/-- A reachable state in which a freeSlot really changes ANOTHER slot's node: after Malloc, Malloc, Free(1,0)
the global list of class 49 is [(1,0)]; freeing (1,1) pushes it in front and writes `(1,0).prev = (1,1)`
(the back-link `next.prev = p` of uintptrFreeShared). -/
theorem exFree_changes_node : ∃ (s : State Nat) (h : Page),
    run init [.malloc 131040, .malloc 131040, .free (.sh 1 0)] = .ok s ∧ s.pages.get? 1 = some h ∧
    (freeSlot s 1 1 h).heap.N (1, 0) ≠ s.heap.N (1, 0) := by
  have g1 : lnkPushGlobalBack = true := by decide
  have g2 : lnkPushPageBack = true := by decide
  simp [run, foldE, step, exS1_malloc]
  simp [malloc, free, c49, allocLive, allocSlot, freeSlot, exS1, State.K, KMap.get?_set, sliceHdrLen,
    hPush, hLinkPage, Heap.setN, Heap.setH, Heap.setC, Heap.N, Heap.H, Heap.C, onSome, g1, g2]

end GocoinV.Alloc
