/-
  Proofs.C14Wallet — helper lemmas for the path-walk / key-list / round-trip theorems of Props/C14.
-/
import GocoinV.Model.WalletKeys
import GocoinV.Proofs.C14HD
import GocoinV.Proofs.C15Base58
namespace GocoinV.Proofs.C14
open GocoinV HD WalletKeys

/-- derivation along a list of indexes by repeated `Child` (the spec of the path walk) -/
def derive (C : WalletCrypto) : HDWallet → List Nat → Except Fail HDWallet
  | w, [] => .ok w
  | w, x :: t => match child C w x with
    | .error e => .error e
    | .ok w' => derive C w' t

theorem derive_append (C : WalletCrypto) (w : HDWallet) (xs ys : List Nat) :
    derive C w (xs ++ ys) = match derive C w xs with
      | .error e => .error e
      | .ok w' => derive C w' ys := by
  induction xs generalizing w with
  | nil => rfl
  | cons x t ih =>
    simp only [List.cons_append, derive]
    cases child C w x with
    | error e => rfl
    | ok w' => exact ih w'

/-- walkPath = derive, and the remembered parent is the wallet one step before the end -/
theorem walkPath_spec (C : WalletCrypto) (xs : List Nat) (w w' : HDWallet) (prv prv' : Option (HDWallet × Nat))
    (h : walkPath C xs w prv = .ok (w', prv')) :
    derive C w xs = .ok w' ∧
    (xs = [] → prv' = prv) ∧
    (xs ≠ [] → ∃ pw, prv' = some (pw, xs.getLast?.getD 0) ∧ derive C w xs.dropLast = .ok pw ∧
                 child C pw (xs.getLast?.getD 0) = .ok w') := by
  induction xs generalizing w prv with
  | nil =>
    simp only [walkPath, Except.ok.injEq, Prod.mk.injEq] at h
    obtain ⟨rfl, rfl⟩ := h
    simp [derive]
  | cons x t ih =>
    simp only [walkPath] at h
    cases hc : child C w x with
    | error e => simp [hc] at h
    | ok w1 =>
      simp only [hc] at h
      obtain ⟨h1, h2, h3⟩ := ih w1 (some (w, x)) h
      refine ⟨by simp [derive, hc, h1], by simp, fun _ => ?_⟩
      by_cases ht : t = []
      · subst ht
        have := h2 rfl
        subst this
        simp only [derive, Except.ok.injEq] at h1
        subst h1
        exact ⟨w, by simp, by simp [derive], by simpa using hc⟩
      · obtain ⟨pw, e1, e2, e3⟩ := h3 ht
        refine ⟨pw, ?_, ?_, ?_⟩
        · rw [e1]; simp
          cases t with
          | nil => exact absurd rfl ht
          | cons a b => simp
        · have : (x :: t).dropLast = x :: t.dropLast := by
            cases t with
            | nil => exact absurd rfl ht
            | cons a b => simp
          rw [this]; simp [derive, hc, e2]
        · have : (x :: t).getLast? = t.getLast? := by
            cases t with
            | nil => exact absurd rfl ht
            | cons a b => simp
          rw [this]; exact e3

/-- the Type-4 pass lists exactly keycnt children of `hdwal`, at indexes last+i, last+i+1, … (mod 2³²) -/
theorem type4Pass_spec (C : WalletCrypto) (hdwal : HDWallet) (last : Nat) (pre : Bytes) (k i : Nat)
    (ks : List (Bytes × Bytes)) (h : type4Pass C hdwal last pre k i = .ok ks) :
    ks.length = k ∧ ∀ j (hj : j < ks.length), ∃ hd, child C hdwal ((i + j + last) % 2 ^ 32) = .ok hd ∧
      (ks[j]).1 = hd.key.drop 1 := by
  induction k generalizing i ks with
  | zero =>
    simp only [type4Pass, Except.ok.injEq] at h
    subst h; simp
  | succ k ih =>
    simp only [type4Pass] at h
    cases hc : child C hdwal ((i + last) % 2 ^ 32) with
    | error e => simp [hc] at h
    | ok hd =>
      simp only [hc] at h
      cases hr : type4Pass C hdwal last pre k (i + 1) with
      | error e => simp [hr] at h
      | ok rest =>
        simp only [hr, Except.ok.injEq] at h
        subst h
        obtain ⟨hl, hall⟩ := ih (i + 1) rest hr
        refine ⟨by simp [hl], fun j hj => ?_⟩
        cases j with
        | zero => exact ⟨hd, by simpa using hc, rfl⟩
        | succ j =>
          obtain ⟨hd', e1, e2⟩ := hall j (by simpa using hj)
          refine ⟨hd', ?_, by simpa using e2⟩
          have : i + (j + 1) + last = i + 1 + j + last := by omega
          rw [this]; exact e1

/-- the label of the j-th key of a Type-4 pass: prefix, "/", the decimal number (last mod 2³¹) + i + j
    (mod 2³²), and "'" exactly when the LAST PATH ELEMENT is hardened (not the index actually derived) -/
theorem type4Pass_label (C : WalletCrypto) (hdwal : HDWallet) (last : Nat) (pre : Bytes) (k i : Nat)
    (ks : List (Bytes × Bytes)) (h : type4Pass C hdwal last pre k i = .ok ks) :
    ∀ j (hj : j < ks.length),
      (ks[j]).2 = pre ++ [47] ++ decStr ((i + j + last % Gen.HDConsts.hardenedFrom) % 2 ^ 32) ++
        (if last ≥ Gen.HDConsts.hardenedFrom then [39] else []) := by
  induction k generalizing i ks with
  | zero =>
    simp only [type4Pass, Except.ok.injEq] at h
    subst h; simp
  | succ k ih =>
    simp only [type4Pass] at h
    cases hc : child C hdwal ((i + last) % 2 ^ 32) with
    | error e => simp [hc] at h
    | ok hd =>
      simp only [hc] at h
      cases hr : type4Pass C hdwal last pre k (i + 1) with
      | error e => simp [hr] at h
      | ok rest =>
        simp only [hr, Except.ok.injEq] at h
        subst h
        intro j hj
        cases j with
        | zero => simp
        | succ j =>
          have e := ih (i + 1) rest hr j (by simpa using hj)
          have : i + (j + 1) + last % Gen.HDConsts.hardenedFrom = i + 1 + j + last % Gen.HDConsts.hardenedFrom := by omega
          rw [this]; simpa using e

/-- one step of the hdsubs loop -/
theorem type4Subs_step (C : WalletCrypto) (prvwal : HDWallet) (prvidx last keycnt k sub : Nat) (pre : Bytes)
    (ks : List (Bytes × Bytes)) (h : type4Subs C prvwal prvidx last keycnt (k + 1) sub pre = .ok ks) :
    ∃ acct ks0 rest, child C prvwal ((prvidx + sub) % 2 ^ 32) = .ok acct ∧
      type4Pass C acct last (subLabel pre prvidx sub) keycnt 0 = .ok ks0 ∧
      type4Subs C prvwal prvidx last keycnt k (sub + 1) (subLabel pre prvidx sub) = .ok rest ∧
      ks = ks0 ++ rest := by
  simp only [type4Subs] at h
  cases hc : child C prvwal ((prvidx + sub) % 2 ^ 32) with
  | error e => simp [hc] at h
  | ok acct =>
    simp only [hc] at h
    cases hp : type4Pass C acct last (subLabel pre prvidx sub) keycnt 0 with
    | error e => simp [hp] at h
    | ok ks0 =>
      simp only [hp] at h
      cases hr : type4Subs C prvwal prvidx last keycnt k (sub + 1) (subLabel pre prvidx sub) with
      | error e => simp [hr] at h
      | ok rest =>
        simp only [hr, Except.ok.injEq] at h
        exact ⟨acct, ks0, rest, rfl, hp, rfl, h.symm⟩

/-- well-formed extended key: what `Serialize` can represent -/
def SerWF (w : HDWallet) : Prop :=
  (isPrivatePfx w.pfx = true ∨ isPublicPfx w.pfx = true) ∧ w.depth < 256 ∧ w.checksum.length = 4 ∧
  w.idx < 2 ^ 32 ∧ w.chCode.length = 32 ∧ w.key.length = 33 ∧
  (isPublicPfx w.pfx = true → Secp.parsePubkey w.key ≠ none)

theorem pfx_lt (p : Nat) (h : isPrivatePfx p = true ∨ isPublicPfx p = true) : p < 2 ^ 32 := by
  rcases h with h | h
  · have : p ∈ Gen.HDConsts.setIsPrivateHDPrefix := by simpa [isPrivatePfx] using h
    simp only [Gen.HDConsts.setIsPrivateHDPrefix, List.mem_cons, List.not_mem_nil, or_false] at this
    rcases this with h | h | h | h | h | h <;> rw [h] <;> decide
  · have : p ∈ Gen.HDConsts.setIsPublicHDPrefix := by simpa [isPublicPfx] using h
    simp only [Gen.HDConsts.setIsPublicHDPrefix, List.mem_cons, List.not_mem_nil, or_false] at this
    rcases this with h | h | h | h | h | h <;> rw [h] <;> decide

theorem take_append_len {α} (a b : List α) (n : Nat) (h : a.length = n) : (a ++ b).take n = a := by
  subst h; simp
theorem drop_append_len {α} (a b : List α) (n : Nat) (h : a.length = n) : (a ++ b).drop n = b := by
  subst h; simp

theorem parseBytes_serialize (C : WalletCrypto) (w : HDWallet) (hw : SerWF w)
    (hlen : ∀ b, (C.shaHash b).length = 32) : parseBytes C (serialize C w) = .ok w := by
  obtain ⟨hp, hd, hc, hi, hcc, hk, hpub⟩ := hw
  have hplt := pfx_lt w.pfx hp
  have hbody : (serializeBody w).length = 78 := by
    simp [serializeBody, beBytes_length, hc, hcc, hk]
  have hcs : ((C.shaHash (serializeBody w)).take 4).length = 4 := by simp [hlen]
  have e_take78 : (serialize C w).take 78 = serializeBody w := take_append_len _ _ 78 hbody
  have e_drop78 : (serialize C w).drop 78 = (C.shaHash (serializeBody w)).take 4 := drop_append_len _ _ 78 hbody
  have e_len : (serialize C w).length = 82 := by simp [serialize, hbody, hcs]
  have b4 : (beBytes 4 w.pfx).length = 4 := beBytes_length _ _
  have e_pfx : (serialize C w).take 4 = beBytes 4 w.pfx := by
    simp only [serialize, serializeBody, List.append_assoc]
    exact take_append_len _ _ 4 b4
  have v_pfx : beVal (beBytes 4 w.pfx) = w.pfx := by
    rw [beVal_beBytes]; exact Nat.mod_eq_of_lt (by simpa using hplt)
  have v_idx : beVal (beBytes 4 w.idx) = w.idx := by
    rw [beVal_beBytes]; exact Nat.mod_eq_of_lt (by simpa using hi)
  have e_d4 : (serialize C w).drop 4 = [UInt8.ofNat w.depth] ++ (w.checksum ++ (beBytes 4 w.idx ++ (w.chCode ++ (w.key ++ (C.shaHash (serializeBody w)).take 4)))) := by
    simp only [serialize, serializeBody, List.append_assoc]
    exact drop_append_len _ _ 4 b4
  have e_d5 : (serialize C w).drop 5 = w.checksum ++ (beBytes 4 w.idx ++ (w.chCode ++ (w.key ++ (C.shaHash (serializeBody w)).take 4))) := by
    have : (serialize C w).drop 5 = ((serialize C w).drop 4).drop 1 := by simp
    rw [this, e_d4]; rfl
  have e_d9 : (serialize C w).drop 9 = beBytes 4 w.idx ++ (w.chCode ++ (w.key ++ (C.shaHash (serializeBody w)).take 4)) := by
    have : (serialize C w).drop 9 = ((serialize C w).drop 5).drop 4 := by simp
    rw [this, e_d5]; exact drop_append_len _ _ 4 hc
  have e_d13 : (serialize C w).drop 13 = w.chCode ++ (w.key ++ (C.shaHash (serializeBody w)).take 4) := by
    have : (serialize C w).drop 13 = ((serialize C w).drop 9).drop 4 := by simp
    rw [this, e_d9]; exact drop_append_len _ _ 4 (beBytes_length _ _)
  have e_d45 : (serialize C w).drop 45 = w.key ++ (C.shaHash (serializeBody w)).take 4 := by
    have : (serialize C w).drop 45 = ((serialize C w).drop 13).drop 32 := by simp
    rw [this, e_d13]; exact drop_append_len _ _ 32 hcc
  have e_key : ((serialize C w).drop 45).take 33 = w.key := by rw [e_d45]; exact take_append_len _ _ 33 hk
  have e_cc : ((serialize C w).drop 13).take 32 = w.chCode := by rw [e_d13]; exact take_append_len _ _ 32 hcc
  have e_idx : ((serialize C w).drop 9).take 4 = beBytes 4 w.idx := by rw [e_d9]; exact take_append_len _ _ 4 (beBytes_length _ _)
  have e_cs : ((serialize C w).drop 5).take 4 = w.checksum := by rw [e_d5]; exact take_append_len _ _ 4 hc
  have e_dep : (((serialize C w).drop 4).headD 0).toNat = w.depth := by
    rw [e_d4]; simp [UInt8.toNat_ofNat']; omega
  have hbc : byteCheck (serialize C w) = none := by
    unfold byteCheck
    simp only [e_len, ne_eq, not_true_eq_false, ↓reduceIte, e_pfx, v_pfx, e_key]
    rcases hp with hp | hp
    · have hnpub : isPublicPfx w.pfx = false := by
        have : w.pfx ∈ Gen.HDConsts.setIsPrivateHDPrefix := by simpa [isPrivatePfx] using hp
        simp only [Gen.HDConsts.setIsPrivateHDPrefix, List.mem_cons, List.not_mem_nil, or_false] at this
        rcases this with h | h | h | h | h | h <;> rw [h] <;> decide
      simp [hp, hnpub]
    · simp [hp, hpub hp]
  unfold parseBytes
  simp only [hbc, e_take78, e_drop78, ne_eq, not_true_eq_false, ↓reduceIte, e_pfx, v_pfx, e_dep, e_cs, e_idx, v_idx, e_cc, e_key]

/-- the Base58 round trip on one byte string (proved for all strings in C15's scope) -/
def B58RoundTrip (b : Bytes) : Prop := Base58.decode (Base58.encode b) = some b

theorem stringWallet_toString (C : WalletCrypto) (w : HDWallet) (hw : SerWF w)
    (hlen : ∀ b, (C.shaHash b).length = 32) (hb58 : B58RoundTrip (serialize C w)) :
    stringWallet C (HD.toString C w) = .ok w := by
  unfold stringWallet HD.toString
  rw [hb58]
  exact parseBytes_serialize C w hw hlen

theorem wif_roundtrip_core (C : WalletCrypto) (key : Bytes) (ver : UInt8) (compr : Bool) (pa : PrivAddr) (s : Bytes)
    (hk : key.length = 32) (hlen : ∀ b, (C.shaHash b).length = 32)
    (hnew : newPrivateAddr C key ver compr = .ok pa) (hs : privAddrString C pa = .ok s)
    (hb58 : ∀ b, s = Base58.encode b → B58RoundTrip b) :
    decodePrivateAddr C s = .ok (.ok pa) := by
  unfold newPrivateAddr at hnew
  cases hpub : publicFromPrivate key compr with
  | none => simp [hpub] at hnew
  | some pb =>
    simp only [hpub, Except.ok.injEq] at hnew
    have hpl : pb.length = if compr then 33 else 65 := by
      unfold publicFromPrivate serPoint at hpub
      cases hm : Secp.mul (beVal key) Secp.G with
      | none => simp [hm] at hpub
      | some P =>
        simp only [hm, Option.some.injEq] at hpub
        subst hpub
        cases compr <;> simp [Secp.ser33, Secp.ser65, beBytes_length]
    subst hnew
    unfold privAddrString at hs
    cases compr with
    | true =>
      simp only [hpl, ↓reduceIte, Except.ok.injEq] at hs
      have hrt := hb58 _ hs.symm
      subst hs
      unfold decodePrivateAddr
      rw [hrt]
      have l1 : (ver :: (key ++ [1])).length = 34 := by simp [hk]
      have l2 : (ver :: (key ++ [1]) ++ (C.shaHash (ver :: (key ++ [1]))).take 4).length = 38 := by simp [hk, hlen]
      have t1 : (ver :: (key ++ [1]) ++ (C.shaHash (ver :: (key ++ [1]))).take 4).take 34 = ver :: (key ++ [1]) :=
        take_append_len _ _ 34 l1
      have d1 : (ver :: (key ++ [1]) ++ (C.shaHash (ver :: (key ++ [1]))).take 4).drop 34 = (C.shaHash (ver :: (key ++ [1]))).take 4 :=
        drop_append_len _ _ 34 l1
      have k1 : ((ver :: (key ++ [1]) ++ (C.shaHash (ver :: (key ++ [1]))).take 4).drop 1).take 32 = key := by
        simp only [List.cons_append, List.drop_succ_cons, List.drop_zero, List.append_assoc]
        exact take_append_len _ _ 32 hk
      have g33 : (ver :: (key ++ [1]) ++ (C.shaHash (ver :: (key ++ [1]))).take 4).getD 33 0 = 1 := by
        simp only [List.cons_append, List.append_assoc, List.getD_cons_succ]
        rw [List.getD_eq_getElem?_getD, List.getElem?_append_right (by omega)]
        simp [hk]
      have h0 : (ver :: (key ++ [1]) ++ (C.shaHash (ver :: (key ++ [1]))).take 4).headD 0 = ver := rfl
      generalize (ver :: (key ++ [1]) ++ (C.shaHash (ver :: (key ++ [1]))).take 4) = pkb at *
      simp only [l2, Nat.lt_irrefl, ↓reduceIte, Nat.reduceLT, Nat.reduceSub, t1, d1, ne_eq, not_true_eq_false, k1,
        h0, g33, and_self, decide_true, newPrivateAddr, hpub, and_false]
    | false =>
      simp only [hpl, Bool.false_eq_true, ↓reduceIte, Nat.reduceEqDiff, Except.ok.injEq] at hs
      have hrt := hb58 _ hs.symm
      subst hs
      unfold decodePrivateAddr
      rw [hrt]
      have l1 : (ver :: key).length = 33 := by simp [hk]
      have l2 : (ver :: key ++ (C.shaHash (ver :: key)).take 4).length = 37 := by simp [hk, hlen]
      have t1 : (ver :: key ++ (C.shaHash (ver :: key)).take 4).take 33 = ver :: key := take_append_len _ _ 33 l1
      have d1 : (ver :: key ++ (C.shaHash (ver :: key)).take 4).drop 33 = (C.shaHash (ver :: key)).take 4 :=
        drop_append_len _ _ 33 l1
      have k1 : ((ver :: key ++ (C.shaHash (ver :: key)).take 4).drop 1).take 32 = key := by
        simp only [List.cons_append, List.drop_succ_cons, List.drop_zero]
        exact take_append_len _ _ 32 hk
      have h0 : (ver :: key ++ (C.shaHash (ver :: key)).take 4).headD 0 = ver := rfl
      generalize (ver :: key ++ (C.shaHash (ver :: key)).take 4) = pkb at *
      simp only [l2, Nat.lt_irrefl, ↓reduceIte, Nat.reduceSub, t1, d1, ne_eq, not_true_eq_false, k1,
        h0, Nat.reduceEqDiff, false_and, decide_false, newPrivateAddr, hpub, Nat.reduceGT]

/-- discharged by C15's Base58 theorem (Proofs/C15Base58.lean) -/
theorem b58RoundTrip_of_ne (b : Bytes) (h : b ≠ []) : B58RoundTrip b := Base58.decode_encode b h

theorem b58_encode_nil : Base58.encode [] = [] := by
  have : Base58.digits 0 = [] := by rw [Base58.digits]; simp
  simp [Base58.encode, Base58.leadingZeros, beVal, leVal, this]

theorem b58_decode_nil : Base58.decode [] = none := by
  have : Base58.natBytes 0 = [] := by rw [Base58.natBytes]; simp
  simp [Base58.decode, Base58.value?, this]

/-- a non-empty byte string is never encoded like the empty one -/
theorem b58_encode_ne_nil (b : Bytes) (h : b ≠ []) : Base58.encode b ≠ Base58.encode [] := by
  intro e
  have := congrArg Base58.decode e
  rw [Base58.decode_encode b h, b58_encode_nil, b58_decode_nil] at this
  exact absurd this (by simp)

theorem findIdx_le_of_pred {α} (p : α → Bool) : ∀ (l : List α) (i : Nat) (h : i < l.length), p l[i] = true →
    l.findIdx p ≤ i
  | [], i, h, _ => by simp at h
  | a :: l, 0, _, hp => by
    simp only [List.getElem_cons_zero] at hp
    simp [List.findIdx_cons, hp]
  | a :: l, i+1, h, hp => by
    simp only [List.getElem_cons_succ] at hp
    rw [List.findIdx_cons]
    cases p a with
    | true => simp
    | false =>
      have := findIdx_le_of_pred p l i (by simpa using h) hp
      simp; omega

/-- the signer's lookup finds, for the hash of key i, the first key whose P2KH hash or segwit-slot hash
    equals it — an index j ≤ i -/
theorem hashToKeyIdx_spec (C : WalletCrypto) (c : Config) (keys : List KeyRec) (i : Nat) (hi : i < keys.length) :
    ∃ j, ∃ hj : j < keys.length, j ≤ i ∧ hashToKeyIdx C c keys keys[i].h160 = some j ∧
      (keys[j].h160 = keys[i].h160 ∨ segwitH160 C c keys[j] = keys[i].h160) := by
  let p : KeyRec → Bool := fun k => k.h160 == keys[i].h160 || segwitH160 C c k == keys[i].h160
  have hp : p keys[i] = true := by simp [p]
  have hle := findIdx_le_of_pred p keys i hi hp
  have hlt : keys.findIdx p < keys.length := by omega
  refine ⟨keys.findIdx p, hlt, hle, ?_, ?_⟩
  · unfold hashToKeyIdx
    show (if keys.findIdx p < keys.length then some (keys.findIdx p) else none) = _
    rw [if_pos hlt]
  · have := List.findIdx_getElem (w := hlt)
    simpa [p] using this

/-- what `mkKeyRec` puts into a key record -/
theorem mkKeyRec_spec (C : WalletCrypto) (c : Config) (kl : Bytes × Bytes) (r : KeyRec)
    (h : mkKeyRec C c kl = .ok r) :
    r.priv = kl.1 ∧ publicFromPrivate r.priv true = some r.pubkey ∧ r.h160 = C.hash160 r.pubkey ∧
    r.p2kh = addrStr C (some (.b58 (verPubkey c) r.h160 none)) ∧
    privAddrString C { key := r.priv, version := verSecret c, addrVersion := verPubkey c, pubkey := r.pubkey, h160 := r.h160 } = .ok r.wif ∧
    (c.atype = .p2kh → r.listed = r.p2kh) ∧
    (c.atype = .segwit → r.listed = addrStr C (some (.b58 (verScript c) (C.hash160 ([0, 20] ++ r.h160)) none))) ∧
    (c.atype = .bech32 → r.listed = addrStr C (Addr.fromPkScript C.hashes ([0, 20] ++ r.h160) c.testnet)) ∧
    (c.atype = .tap → r.listed = addrStr C (Addr.fromPkScript C.hashes ([0x51, 32] ++ r.pubkey.drop 1) c.testnet)) := by
  unfold mkKeyRec newPrivateAddr at h
  cases hpub : publicFromPrivate kl.1 true with
  | none => simp [hpub] at h
  | some pb =>
    have hv : verSecret c - 0x80 = verPubkey c := by
      unfold verSecret
      exact UInt8.add_sub_cancel _ 128
    simp only [hpub] at h
    split at h
    · simp at h
    · rename_i wif hwif
      simp only [Except.ok.injEq] at h
      subst h
      simp only [hv] at hwif
      refine ⟨rfl, hpub, rfl, ?_, hwif, ?_, ?_, ?_, ?_⟩
      · simp only [hv]
      all_goals (intro ha; simp [ha, segwitMode, bech32Mode, hv])

end GocoinV.Proofs.C14
