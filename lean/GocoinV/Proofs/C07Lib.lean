/-
  Proofs.C07Lib — the library-mode tail of NewChainExt after a clean shutdown, the lock file, the walking snapshot writer.
  Core Lean only.
-/
import GocoinV.Proofs.C07KMain
import GocoinV.Model.PersistLib
namespace GocoinV.Proofs.C07
open GocoinV.Persist
open GocoinV.Gen.C07Facts (ReapplyGuard LockOpenMode)

/-! ### library mode after a clean shutdown -/

/-- after Close no block in the re-opened tree is higher than the re-opened tip (the first half of `clean_restart'`, for every
    node of the tree) -/
theorem clean_restart_maxH (bigs : List Coin) (ops : List Op) (hwf : WF (submitted (ops ++ [.close])))
    (hrun : (run bigs (ops ++ [.close])).foreign = false) :
    ∃ s1, openNode (run bigs (ops ++ [.close])).d bigs 0 = .ok s1 ∧
      s1.n.tip = (run bigs (ops ++ [.close])).n.tip ∧ s1.n.utxo = (run bigs (ops ++ [.close])).n.utxo ∧
      s1.err = none ∧ ∀ t ∈ s1.n.tree, t.height ≤ s1.n.tipHeight := by
  have jw := run_J hwf bigs (ops ++ [.close]) (fun _ h => h) hrun
  obtain ⟨kw, uw⟩ := run_K hwf bigs (ops ++ [.close]) (fun _ h => h) hrun
  have hne : (run bigs (ops ++ [.close])).err = none := kw.k0.err
  obtain ⟨q, hq⟩ := run_inv bigs (ops ++ [.close])
  obtain ⟨s1, ho, e1, e2, e3⟩ := clean_restart_reopen' bigs ops hne
  obtain ⟨j1, _, he1⟩ := openNode_J hwf jw.jd.prov hq.disk bigs 0 ho
  obtain ⟨_, _, th1, d1⟩ := openNode_K hq.disk uw.disk bigs 0 ho
  obtain ⟨pathw, hcw⟩ := jw.chain
  refine ⟨s1, ho, e1, e2, he1, ?_⟩
  intro t ht
  obtain ⟨⟨r, hr, rid, rh⟩, _⟩ := d1 t ht
  have hrid : r.id ∈ ids (run bigs (ops ++ [.close])).d := by
    simp only [ids, List.mem_map]; exact ⟨r, hr, rfl⟩
  have hsome := hq.node.idxRec r.id hrid
  obtain ⟨rec, hrec⟩ := Option.isSome_iff_exists.1 hsome
  have hrm := List.mem_of_find?_eq_some hrec
  have hre : rec.id = r.id := by simpa using List.find?_some hrec
  obtain ⟨tw, htw, etw⟩ := kw.k0.recT rec hrm
  obtain ⟨b, hb, b1, _, b3⟩ := jw.jd.prov.idxB r hr
  have := (tree_of_block hwf jw.jd hb htw (etw.trans (hre.trans b1.symm))).2
  have hm := kw.maxH tw htw
  rw [← rh, ← b3, ← this, th1, e3, hcw.lastH, ← hcw.tipH]
  exact hm

/-- with the guard as written ("strictly higher") the tail is a no-op whenever no block of the tree is higher than the tip -
    in WHATEVER order the tree is listed -/
theorem libraryTail_higher_noop (s : St) (h : ∀ t ∈ s.n.tree, t.height ≤ s.n.tipHeight) :
    libraryTail .higher s = s := by
  have hf : (farthest s.n).2.1 ≤ s.n.tipHeight := by
    rcases (farthest_spec s.n).2 with ⟨_, h0⟩ | ⟨t, ht, _, hth⟩
    · omega
    · rw [← hth]; exact h t ht
  unfold libraryTail reapplyWanted
  simp only [gt_iff_lt, Bool.not_eq_eq_eq_not, Bool.not_true, decide_eq_false_iff_not, Nat.not_lt]
  rw [if_pos hf]

theorem withTree_tipHeight (s : St) (tree : List TNode) : (withTree s tree).n.tipHeight = s.n.tipHeight := rfl
theorem withTree_tree (s : St) (tree : List TNode) : (withTree s tree).n.tree = tree := rfl

/-! ### the lock file -/

/-- with a mode that accepts an existing file no start is ever refused, and the file is there exactly while / after a run -/
theorem lockRun_never_refused (m : LockOpenMode) (hm : m ≠ .createExcl) (es : List LEvent) :
    (lockRun m es).refused = false := by
  unfold lockRun
  suffices h : ∀ (s : LockSt), s.refused = false → (es.foldl (lockStep m) s).refused = false from h {} rfl
  induction es with
  | nil => intro s h; exact h
  | cons e es ih =>
    intro s h
    apply ih
    cases e with
    | start =>
      simp only [lockStep]
      split
      · exact h
      · have : lockStart m s.file = true := by
          cases m with
          | openOrCreate => rfl
          | removeThenExcl => rfl
          | createExcl => exact absurd rfl hm
        rw [if_pos this]; exact h
    | crash => exact h
    | stop => simp only [lockStep]; split <;> exact h

/-! ### the walking snapshot writer -/

theorem walkFrom_append (recs : List LRec) (m a b : Nat) :
    walkFrom recs m (a + b) = walkFrom recs m a ++ walkFrom recs (m + a) b := by
  induction a generalizing m with
  | zero => simp [walkFrom]
  | succ a ih =>
    have : a + 1 + b = (a + b) + 1 := by omega
    rw [this]
    simp only [walkFrom, List.append_assoc]
    rw [ih (m + 1)]
    have : m + 1 + a = m + (a + 1) := by omega
    rw [this]

theorem walkFrom_succ (recs : List LRec) (m k : Nat) :
    walkFrom recs m (k + 1) = walkFrom recs m k ++ walkMap recs (m + k) := by
  rw [walkFrom_append recs m k 1]
  simp [walkFrom]

/-- the invariant of the writer when every mutator aborts it first -/
structure LInv (nmaps : Nat) (s : LSt) : Prop where
  cur : (s.tip, s.recs) ∈ s.held
  save : ∀ sv, s.save = some sv → sv.tip = s.tip ∧ sv.count = s.recs.length ∧ sv.next ≤ nmaps ∧ sv.written = walkFrom s.recs 0 sv.next
  file : fileHeld nmaps s = true

theorem fileHeld_mono {nmaps : Nat} {s : LSt} (h : fileHeld nmaps s = true) (x : Nat × List LRec) (s' : LSt)
    (hdb : s'.db = s.db) (hh : s'.held = x :: s.held) : fileHeld nmaps s' = true := by
  unfold fileHeld at *
  rw [hdb, hh]
  cases hd : s.db with
  | none => rfl
  | some f =>
    rw [hd] at h
    simp only [List.any_cons, Bool.or_eq_true]
    exact Or.inr h

theorem mutate_inv {nmaps : Nat} {s : LSt} (h : LInv nmaps s) (tip : Nat) (del add : List LRec) :
    LInv nmaps (mutate s true tip del add) := by
  refine ⟨?_, ?_, ?_⟩
  · simp [mutate]
  · intro sv hsv; simp [mutate] at hsv
  · exact fileHeld_mono h.file (tip, s.recs.filter (fun r => !del.contains r) ++ add) _ (by simp [mutate]) (by simp [mutate])

theorem lstep_inv {nmaps : Nat} {s : LSt} (h : LInv nmaps s) (op : LOp) : LInv nmaps (lstep nmaps true true s op) := by
  cases op with
  | saveStart =>
    simp only [lstep]
    split
    · exact h
    · refine ⟨h.cur, ?_, ?_⟩
      · intro sv hsv
        simp only [Option.some.injEq] at hsv
        subst hsv
        exact ⟨rfl, rfl, Nat.zero_le _, rfl⟩
      · have := h.file; unfold fileHeld at *; exact this
  | saveStep =>
    simp only [lstep]
    cases hs : s.save with
    | none => exact h
    | some sv =>
      simp only []
      obtain ⟨a, b, c, d⟩ := h.save sv hs
      split
      · rename_i hlt
        refine ⟨h.cur, ?_, ?_⟩
        · intro sv' hsv'
          simp only [Option.some.injEq] at hsv'
          subst hsv'
          refine ⟨a, b, hlt, ?_⟩
          simp only []
          rw [walkFrom_succ, d, Nat.zero_add]
        · have := h.file; unfold fileHeld at *; exact this
      · exact h
  | saveFinish =>
    simp only [lstep]
    cases hs : s.save with
    | none => exact h
    | some sv =>
      simp only []
      obtain ⟨a, b, c, d⟩ := h.save sv hs
      refine ⟨h.cur, ?_, ?_⟩
      · intro sv' hsv'; simp at hsv'
      · unfold fileHeld
        simp only [List.any_eq_true, Bool.and_eq_true, beq_iff_eq]
        refine ⟨(s.tip, s.recs), h.cur, ⟨a.symm, ?_⟩, b⟩
        have hw : walkAll s.recs nmaps = walkFrom s.recs 0 (sv.next + (nmaps - sv.next)) := by
          unfold walkAll; congr 1; omega
        rw [hw, walkFrom_append, d, Nat.zero_add]
  | commit tip del add => exact mutate_inv h tip del add
  | undo tip del add => exact mutate_inv h tip del add

theorem lrun_inv (nmaps : Nat) (ops : List LOp) : LInv nmaps (lrun nmaps true true ops) := by
  unfold lrun
  have h0 : LInv nmaps ({} : LSt) := ⟨by simp, by intro sv h; simp at h, rfl⟩
  generalize ({} : LSt) = s at h0
  induction ops generalizing s with
  | nil => exact h0
  | cons op ops ih => exact ih _ (lstep_inv h0 op)

end GocoinV.Proofs.C07
