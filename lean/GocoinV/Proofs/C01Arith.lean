/-
  Proofs.C01Arith — numeric opcodes (1ADD … WITHIN, NUMEQUAL(VERIFY), BOOLAND/OR, MIN/MAX), PICK/ROLL, DEPTH/SIZE,
  CODESEPARATOR, CHECKLOCKTIMEVERIFY / CHECKSEQUENCEVERIFY: model (`popInt`, `bts2int`, `pushInt`) vs spec (CScriptNum).
-/
import GocoinV.Proofs.C01CondOps
set_option linter.unusedSimpArgs false
namespace GocoinV.Proofs.C01
open GocoinV GocoinV.Script

/-- `popInt(check_for_min)` on a non-empty stack is `CScriptNum(top, fRequireMinimal)`: a panic where Core throws -/
theorem popInt_cons (chk : Bool) (d : Bytes) (r : Stack) :
    popInt chk (d :: r) = (match ScriptSpec.ScriptNum.read d chk 4 with
      | .ok v => Res.ok (v, r)
      | .error _ => Res.panic) := by
  unfold popInt pop bts2int ScriptSpec.ScriptNum.read nMaxNumSize
  simp only [Res.ok_bind, isMinimal_eq, numOfBytes_eq_decode]
  by_cases h1 : d.length > 4
  · by_cases h2 : (chk && !ScriptSpec.ScriptNum.minimal d) = true <;>
      simp [h1, h2, throw, throwThe, MonadExceptOf.throw]
  · by_cases h2 : (chk && !ScriptSpec.ScriptNum.minimal d) = true <;>
      simp [h1, h2, throw, throwThe, MonadExceptOf.throw, pure, Except.pure]

theorem topInt_eq (s : Stack) (k : Nat) (chk : Bool) (d : Bytes) (h : top s k = .ok d) :
    topInt s k chk = (match ScriptSpec.ScriptNum.read d chk 4 with
      | .ok v => Res.ok v
      | .error _ => Res.panic) := by
  unfold topInt bts2int ScriptSpec.ScriptNum.read nMaxNumSize
  simp only [h, Res.ok_bind, isMinimal_eq, numOfBytes_eq_decode]
  by_cases h1 : d.length > 4
  · by_cases h2 : (chk && !ScriptSpec.ScriptNum.minimal d) = true <;>
      simp [h1, h2, throw, throwThe, MonadExceptOf.throw]
  · by_cases h2 : (chk && !ScriptSpec.ScriptNum.minimal d) = true <;>
      simp [h1, h2, throw, throwThe, MonadExceptOf.throw, pure, Except.pure]

theorem encode_one : ScriptSpec.ScriptNum.encode 1 = [1] := by decide
theorem encode_zero : ScriptSpec.ScriptNum.encode 0 = [] := by decide

theorem boolBytes_eq (b : Bool) : boolBytes b = ScriptSpec.ScriptNum.encode (if b then 1 else 0) := by
  cases b <;> simp [boolBytes, encode_one, encode_zero]

theorem boolBytes_ofBool (b : Bool) : boolBytes b = ScriptSpec.ofBool b := by
  cases b <;> rfl

@[simp] theorem popNum_cons (e : ScriptSpec.Env) (d : Bytes) (r alt : List Bytes) (cond : ScriptSpec.Cond) (opc : Nat) (code : Bytes) (csp : Nat) (w : Int) :
    ScriptSpec.popNum e ⟨d :: r, alt, cond, opc, code, csp, w⟩ = (match ScriptSpec.ScriptNum.read d e.f.minimaldata 4 with
      | .ok v => .ok (v, ⟨r, alt, cond, opc, code, csp, w⟩)
      | .error x => .error x) := by
  unfold ScriptSpec.popNum ScriptSpec.pop1
  simp only [bind, Except.bind, pure, Except.pure]
  cases ScriptSpec.ScriptNum.read d e.f.minimaldata 4 <;> rfl

@[simp] theorem popNum_nil (e : ScriptSpec.Env) (alt : List Bytes) (cond : ScriptSpec.Cond) (opc : Nat) (code : Bytes) (csp : Nat) (w : Int) :
    ScriptSpec.popNum e ⟨[], alt, cond, opc, code, csp, w⟩ = .error ScriptSpec.ScriptError.INVALID_STACK_OPERATION := rfl

def isUnaryOp (op : Nat) : Bool := ScriptSpec.isUnaryNum op

theorem unary_agree (T : TotalOracles) (c : Ctx) (leaf : Bytes) (annex : Option Bytes) (st : St) (s : ScriptSpec.State)
    (i : ScriptSpec.Instr) (idx pos : Nat) (hR : Rel c leaf annex st s) (hs : isUnaryOp i.op = true) :
    Agree c leaf annex (execOp c st i.op idx pos true) (ScriptSpec.execOpcode (envOf T c leaf annex) s i true pos) := by
  obtain ⟨h1, h2, h3, h5, h6, h7, h8, h9, h10, h11⟩ := hR
  obtain ⟨sstack, salt, scond, sop, scode, scsp, sw⟩ := s
  obtain ⟨stack, alt, exe, pbegin, opcnt, ed⟩ := st
  simp only at h1 h2 h3 h5 h6 h7 h8 h9 h10 h11
  subst h1 h2 h3 h5
  obtain ⟨iop, idata, iafter⟩ := i
  simp only [isUnaryOp, ScriptSpec.isUnaryNum, Bool.or_eq_true, beq_iff_eq] at hs
  rcases hs with ((((h|h)|h)|h)|h)|h <;> subst h <;>
    simp only [execOp, ScriptSpec.execOpcode, ScriptSpec.isShuffle, ScriptSpec.isUnaryNum, ScriptSpec.opUnaryNum,
      unaryNum, ScriptSpec.unaryNum, ScriptSpec.pushNum, ScriptSpec.push] <;>
    rcases stack with _ | ⟨a, r⟩ <;>
    (try (simp [agree_fail, throw, throwThe, MonadExceptOf.throw, bind, Except.bind]; done)) <;>
    simp only [popInt_cons, popNum_cons, envOf_f, ← flag_mindata] <;>
    (cases hrd : ScriptSpec.ScriptNum.read a (has c.flags VER_MINDATA) 4) <;>
    (try (simp [agree_panic, bind, Except.bind, Res.bind]; done)) <;>
    simp [agree_ok, bind, Except.bind, Res.bind, pure, Except.pure, intBytes_eq_encode, boolBytes_eq] <;>
    (try split) <;>
    exact ⟨by simp_all, rfl, rfl, rfl, h6, h7, h8, h9, h10, h11⟩

theorem b2i_eq (b : Bool) : b2i b = ScriptSpec.bi b := rfl

theorem binArith_eq (op : Nat) (a b : Int) (h : ScriptSpec.isBinaryNum op = true) :
    binArith op a b = .ok (ScriptSpec.binaryNum op a b) := by
  simp only [ScriptSpec.isBinaryNum, Bool.or_eq_true, Bool.and_eq_true, decide_eq_true_eq] at h
  have : op = 0x93 ∨ op = 0x94 ∨ op = 0x9a ∨ op = 0x9b ∨ op = 0x9c ∨ op = 0x9d ∨ op = 0x9e ∨ op = 0x9f ∨ op = 0xa0 ∨
      op = 0xa1 ∨ op = 0xa2 ∨ op = 0xa3 ∨ op = 0xa4 := by omega
  rcases this with h|h|h|h|h|h|h|h|h|h|h|h|h <;> subst h <;> simp [binArith, ScriptSpec.binaryNum, b2i_eq]
  · by_cases hab : a < b
    · simp [hab]; omega
    · simp [hab]; omega
  · by_cases hab : a > b
    · simp [hab]; omega
    · have : ¬ b < a := by omega
      simp [this]; omega

theorem isBinArith_eq (op : Nat) : isBinArith op = ScriptSpec.isBinaryNum op := by
  by_cases h : op < 256
  · have all : ∀ n, n < 256 → isBinArith n = ScriptSpec.isBinaryNum n := by decide +kernel
    exact all op h
  · unfold isBinArith ScriptSpec.isBinaryNum
    have e : ∀ k, k < 256 → (op == k) = false := by intro k hk; simp; omega
    have l : ∀ k, k < 256 → decide (op ≤ k) = false := by intro k hk; simp; omega
    simp [e, l]


/-- the body of the two-operand arithmetic branch of `execOp` -/
def binBody (c : Ctx) (st : St) (opcode : Nat) : Res St :=
  let chk := has c.flags VER_MINDATA
  if st.stack.length < 2 then .fail else do
    let (bn2, s1) ← popInt chk st.stack
    let (bn1, s2) ← popInt chk s1
    let bn ← binArith opcode bn1 bn2
    if opcode == 0x9d then (if bn == 0 then .fail else pure { st with stack := s2 })
    else pure { st with stack := intBytes bn :: s2 }

theorem binary_ops (op : Nat) (h : ScriptSpec.isBinaryNum op = true) :
    op = 0x93 ∨ op = 0x94 ∨ op = 0x9a ∨ op = 0x9b ∨ op = 0x9c ∨ op = 0x9d ∨ op = 0x9e ∨ op = 0x9f ∨ op = 0xa0 ∨
      op = 0xa1 ∨ op = 0xa2 ∨ op = 0xa3 ∨ op = 0xa4 := by
  simp only [ScriptSpec.isBinaryNum, Bool.or_eq_true, Bool.and_eq_true, decide_eq_true_eq] at h
  omega

theorem execOp_bin (c : Ctx) (st : St) (op idx pos : Nat) (b : Bool) (h : ScriptSpec.isBinaryNum op = true) :
    execOp c st op idx pos b = binBody c st op := by
  rcases binary_ops op h with h|h|h|h|h|h|h|h|h|h|h|h|h <;> subst h <;> simp only [execOp, isBinArith, binBody] <;> rfl

theorem execOpcode_bin (e : ScriptSpec.Env) (s : ScriptSpec.State) (i : ScriptSpec.Instr) (pos : Nat) (b : Bool)
    (h : ScriptSpec.isBinaryNum i.op = true) :
    ScriptSpec.execOpcode e s i b pos = ScriptSpec.opBinaryNum e s i.op := by
  obtain ⟨iop, idata, iafter⟩ := i
  simp only at h
  rcases binary_ops iop h with h|h|h|h|h|h|h|h|h|h|h|h|h <;> subst h <;>
    simp [ScriptSpec.execOpcode, ScriptSpec.isShuffle, ScriptSpec.isUnaryNum, ScriptSpec.isBinaryNum]

theorem binary_agree (T : TotalOracles) (c : Ctx) (leaf : Bytes) (annex : Option Bytes) (st : St) (s : ScriptSpec.State)
    (i : ScriptSpec.Instr) (idx pos : Nat) (hR : Rel c leaf annex st s) (hs : ScriptSpec.isBinaryNum i.op = true) :
    Agree c leaf annex (execOp c st i.op idx pos true) (ScriptSpec.execOpcode (envOf T c leaf annex) s i true pos) := by
  rw [execOp_bin c st i.op idx pos true hs, execOpcode_bin _ s i pos true hs]
  obtain ⟨h1, h2, h3, h5, h6, h7, h8, h9, h10, h11⟩ := hR
  obtain ⟨sstack, salt, scond, sop, scode, scsp, sw⟩ := s
  obtain ⟨stack, alt, exe, pbegin, opcnt, ed⟩ := st
  simp only at h1 h2 h3 h5 h6 h7 h8 h9 h10 h11
  subst h1 h2 h3 h5
  have hb := fun a b => binArith_eq i.op a b hs
  simp only [binBody, ScriptSpec.opBinaryNum, ScriptSpec.pushNum, ScriptSpec.push, hb]
  rcases stack with _ | ⟨a, _ | ⟨b, r⟩⟩
  · simp [agree_fail, throw, throwThe, MonadExceptOf.throw, bind, Except.bind]
  · simp [agree_fail, throw, throwThe, MonadExceptOf.throw, bind, Except.bind]
  · have hlen : ¬ (r.length + 1 + 1 < 2) := by omega
    simp only [List.length_cons, hlen, ↓reduceIte, popInt_cons, popNum_cons, envOf_f, ← flag_mindata]
    cases hrd : ScriptSpec.ScriptNum.read a (has c.flags VER_MINDATA) 4
    · simp [agree_panic, agree_fail, bind, Except.bind, Res.bind, throw, throwThe, MonadExceptOf.throw, pure, Except.pure]
    · simp only [bind, Except.bind, Res.bind, popInt_cons, popNum_cons, envOf_f, ← flag_mindata]
      cases hrd2 : ScriptSpec.ScriptNum.read b (has c.flags VER_MINDATA) 4
      · simp [agree_panic, agree_fail, throw, throwThe, MonadExceptOf.throw, pure, Except.pure]
      · rename_i va vb
        simp only [pure, Except.pure, intBytes_eq_encode, throw, throwThe, MonadExceptOf.throw, bne_iff_ne, ne_eq, beq_iff_eq, ite_not]
        by_cases h9d : i.op = 0x9d
        · simp only [h9d, ↓reduceIte]
          by_cases hz : ScriptSpec.binaryNum 157 vb va = 0
          · simp [hz, agree_fail]
          · simp [hz, agree_ok]
            exact ⟨rfl, rfl, rfl, rfl, h6, h7, h8, h9, h10, h11⟩
        · simp [h9d, agree_ok]
          exact ⟨rfl, rfl, rfl, rfl, h6, h7, h8, h9, h10, h11⟩

theorem execOp_within (c : Ctx) (st : St) (idx pos : Nat) (b : Bool) :
    execOp c st 0xa5 idx pos b =
      (if st.stack.length < 3 then .fail else do
        let (bn3, s1) ← popInt (has c.flags VER_MINDATA) st.stack
        let (bn2, s2) ← popInt (has c.flags VER_MINDATA) s1
        let (bn1, s3) ← popInt (has c.flags VER_MINDATA) s2
        pure { st with stack := boolBytes (bn2 ≤ bn1 && bn1 < bn3) :: s3 }) := by
  simp only [execOp, isBinArith]; rfl

theorem within_agree (T : TotalOracles) (c : Ctx) (leaf : Bytes) (annex : Option Bytes) (st : St) (s : ScriptSpec.State)
    (i : ScriptSpec.Instr) (idx pos : Nat) (hR : Rel c leaf annex st s) (hs : i.op = 0xa5) :
    Agree c leaf annex (execOp c st i.op idx pos true) (ScriptSpec.execOpcode (envOf T c leaf annex) s i true pos) := by
  obtain ⟨iop, idata, iafter⟩ := i
  simp only at hs; subst hs
  rw [execOp_within]
  obtain ⟨h1, h2, h3, h5, h6, h7, h8, h9, h10, h11⟩ := hR
  obtain ⟨sstack, salt, scond, sop, scode, scsp, sw⟩ := s
  obtain ⟨stack, alt, exe, pbegin, opcnt, ed⟩ := st
  simp only at h1 h2 h3 h5 h6 h7 h8 h9 h10 h11
  subst h1 h2 h3 h5
  simp only [ScriptSpec.execOpcode, ScriptSpec.isShuffle, ScriptSpec.isUnaryNum, ScriptSpec.isBinaryNum, ScriptSpec.opWithin, ScriptSpec.push]
  rcases stack with _ | ⟨a, _ | ⟨b, _ | ⟨d, r⟩⟩⟩
  · simp [agree_fail, throw, throwThe, MonadExceptOf.throw, bind, Except.bind]
  · simp [agree_fail, throw, throwThe, MonadExceptOf.throw, bind, Except.bind]
  · simp [agree_fail, throw, throwThe, MonadExceptOf.throw, bind, Except.bind]
  · have hlen : ¬ (r.length + 1 + 1 + 1 < 3) := by omega
    simp only [List.length_cons, hlen, ↓reduceIte, popInt_cons, popNum_cons, envOf_f, ← flag_mindata]
    cases hrd : ScriptSpec.ScriptNum.read a (has c.flags VER_MINDATA) 4
    · simp [agree_panic, agree_fail, bind, Except.bind, Res.bind, throw, throwThe, MonadExceptOf.throw, pure, Except.pure]
    · simp only [bind, Except.bind, Res.bind, popInt_cons, popNum_cons, envOf_f, ← flag_mindata]
      cases hrd2 : ScriptSpec.ScriptNum.read b (has c.flags VER_MINDATA) 4
      · simp [agree_panic, agree_fail, throw, throwThe, MonadExceptOf.throw, pure, Except.pure]
      · simp only [bind, Except.bind, Res.bind, popInt_cons, popNum_cons, envOf_f, ← flag_mindata]
        cases hrd3 : ScriptSpec.ScriptNum.read d (has c.flags VER_MINDATA) 4
        · simp [agree_panic, agree_fail, throw, throwThe, MonadExceptOf.throw, pure, Except.pure]
        · simp [agree_ok, pure, Except.pure, boolBytes_ofBool]
          exact ⟨rfl, rfl, rfl, rfl, h6, h7, h8, h9, h10, h11⟩

theorem depth_size_agree (T : TotalOracles) (c : Ctx) (leaf : Bytes) (annex : Option Bytes) (st : St) (s : ScriptSpec.State)
    (i : ScriptSpec.Instr) (idx pos : Nat) (hR : Rel c leaf annex st s) (hs : i.op = 0x74 ∨ i.op = 0x82) :
    Agree c leaf annex (execOp c st i.op idx pos true) (ScriptSpec.execOpcode (envOf T c leaf annex) s i true pos) := by
  obtain ⟨iop, idata, iafter⟩ := i
  obtain ⟨h1, h2, h3, h5, h6, h7, h8, h9, h10, h11⟩ := hR
  obtain ⟨sstack, salt, scond, sop, scode, scsp, sw⟩ := s
  obtain ⟨stack, alt, exe, pbegin, opcnt, ed⟩ := st
  simp only at h1 h2 h3 h5 h6 h7 h8 h9 h10 h11 hs
  subst h1 h2 h3 h5
  rcases hs with h | h <;> subst h
  · simp [execOp, ScriptSpec.execOpcode, ScriptSpec.isShuffle, St.push, ScriptSpec.pushNum, ScriptSpec.push, intBytes_eq_encode, agree_ok, pure, Except.pure]
    exact ⟨rfl, rfl, rfl, rfl, h6, h7, h8, h9, h10, h11⟩
  · rcases stack with _ | ⟨a, r⟩ <;>
      simp [execOp, ScriptSpec.execOpcode, ScriptSpec.isShuffle, St.push, ScriptSpec.pushNum, ScriptSpec.push, intBytes_eq_encode, agree_ok, agree_fail, pure, Except.pure,
        throw, throwThe, MonadExceptOf.throw]
    exact ⟨rfl, rfl, rfl, rfl, h6, h7, h8, h9, h10, h11⟩



def pickRollBody (c : Ctx) (st : St) (opcode : Nat) : Res St :=
    if st.stack.length < 2 then .fail else do
      let (n, s) ← popInt (has c.flags VER_MINDATA) st.stack
      if n < 0 || n ≥ s.length then .fail
      else if opcode == 0x79 then do
        let x ← top s (1 + n.toNat)
        pure { st with stack := x :: s }
      else if n > 0 then
        match s[n.toNat]? with
        | some xn => pure { st with stack := xn :: s.eraseIdx n.toNat }
        | none => .panic
      else pure { st with stack := s }

theorem execOp_pickroll (c : Ctx) (st : St) (op idx pos : Nat) (b : Bool) (h : op = 0x79 ∨ op = 0x7a) :
    execOp c st op idx pos b = pickRollBody c st op := by
  rcases h with h | h <;> subst h <;> simp only [execOp, pickRollBody] <;> rfl

theorem top_succ (s : Stack) (k : Nat) : top s (1 + k) = (match s[k]? with | some x => .ok x | none => .panic) := by
  unfold top
  have : ¬ (1 + k = 0) := by omega
  simp only [this, ↓reduceIte, Nat.add_sub_cancel_left]
  cases s[k]? <;> rfl

theorem pickroll_agree (T : TotalOracles) (c : Ctx) (leaf : Bytes) (annex : Option Bytes) (st : St) (s : ScriptSpec.State)
    (i : ScriptSpec.Instr) (idx pos : Nat) (hR : Rel c leaf annex st s) (hs : i.op = 0x79 ∨ i.op = 0x7a) :
    Agree c leaf annex (execOp c st i.op idx pos true) (ScriptSpec.execOpcode (envOf T c leaf annex) s i true pos) := by
  rw [execOp_pickroll c st i.op idx pos true hs]
  obtain ⟨iop, idata, iafter⟩ := i
  obtain ⟨h1, h2, h3, h5, h6, h7, h8, h9, h10, h11⟩ := hR
  obtain ⟨sstack, salt, scond, sop, scode, scsp, sw⟩ := s
  obtain ⟨stack, alt, exe, pbegin, opcnt, ed⟩ := st
  simp only at h1 h2 h3 h5 h6 h7 h8 h9 h10 h11 hs
  subst h1 h2 h3 h5
  have hspec : ScriptSpec.execOpcode (envOf T c leaf annex) { stack := stack, alt := alt, cond := condOf exe, opCount := opcnt, code := scode, codesepPos := scsp, weightLeft := sw } ⟨iop, idata, iafter⟩ true pos =
      ScriptSpec.opPickRoll (envOf T c leaf annex) { stack := stack, alt := alt, cond := condOf exe, opCount := opcnt, code := scode, codesepPos := scsp, weightLeft := sw } (iop == 0x7a) := by
    rcases hs with h | h <;> subst h <;> simp [ScriptSpec.execOpcode, ScriptSpec.isShuffle]
  rw [hspec]
  simp only [pickRollBody, ScriptSpec.opPickRoll]
  rcases stack with _ | ⟨a, _ | ⟨b, r⟩⟩
  · simp [agree_fail, throw, throwThe, MonadExceptOf.throw, bind, Except.bind]
  · simp [agree_fail, throw, throwThe, MonadExceptOf.throw, bind, Except.bind]
  · have hlen : ¬ (r.length + 1 + 1 < 2) := by omega
    simp only [List.length_cons, hlen, ↓reduceIte, popInt_cons, popNum_cons, envOf_f, ← flag_mindata]
    cases hrd : ScriptSpec.ScriptNum.read a (has c.flags VER_MINDATA) 4
    · simp [agree_panic, agree_fail, bind, Except.bind, Res.bind, throw, throwThe, MonadExceptOf.throw, pure, Except.pure]
    · rename_i n
      simp only [bind, Except.bind, Res.bind, pure, Except.pure, throw, throwThe, MonadExceptOf.throw, List.length_cons]
      by_cases hrange : n < 0 ∨ (r.length : Int) + 1 ≤ n
      · simp [hrange, agree_fail]
      · have hk : n.toNat < (b :: r).length := by simp; omega
        have hget : (b :: r)[n.toNat]? = some ((b :: r)[n.toNat]) := List.getElem?_eq_getElem hk
        rcases hs with h | h <;> subst h
        · simp [hrange, top_succ, hget, agree_ok]
          exact ⟨rfl, rfl, rfl, rfl, h6, h7, h8, h9, h10, h11⟩
        · by_cases hpos : n > 0
          · simp [hrange, hget, hpos, agree_ok]
            exact ⟨rfl, rfl, rfl, rfl, h6, h7, h8, h9, h10, h11⟩
          · have hn0 : n = 0 := by omega
            subst hn0
            have hlen0 : ¬ ((r.length : Int) + 1 ≤ 0) := by omega
            simp [hlen0, agree_ok]
            exact ⟨rfl, rfl, rfl, rfl, h6, h7, h8, h9, h10, h11⟩


theorem flag_cltv (f : Nat) : has f VER_CLTV = (ScriptSpec.Flags.ofMask f).cltv := by
  unfold VER_CLTV; rw [has_testBit]; rfl
theorem flag_csv (f : Nat) : has f VER_CSV = (ScriptSpec.Flags.ofMask f).csv := by
  unfold VER_CSV; rw [has_testBit]; rfl

/-- `bts2int_ext(d, max, forcemin)` = CScriptNum(d, forcemin, max): a panic exactly where Core throws -/
theorem bts2intExt_eq (d : Bytes) (mx : Nat) (fm : Bool) :
    bts2intExt d mx fm =
      match ScriptSpec.ScriptNum.read d fm mx with
      | Except.ok v => Res.ok v
      | Except.error _ => Res.panic := by
  unfold bts2intExt ScriptSpec.ScriptNum.read
  rw [numOfBytes_eq_decode, isMinimal_eq]
  by_cases h1 : d.length > mx
  · simp [h1, throw, throwThe, MonadExceptOf.throw]
  · by_cases h2 : d.length = 0
    · have : d = [] := List.eq_nil_of_length_eq_zero h2
      subst this
      simp [ScriptSpec.ScriptNum.minimal, ScriptSpec.ScriptNum.decode, pure, Except.pure]
    · by_cases h3 : (fm && !ScriptSpec.ScriptNum.minimal d) = true
      · simp [h1, h2, h3, throw, throwThe, MonadExceptOf.throw]
      · simp [h1, h2, h3, pure, Except.pure]

theorem codesep_agree (T : TotalOracles) (c : Ctx) (leaf : Bytes) (annex : Option Bytes) (st : St) (s : ScriptSpec.State)
    (i : ScriptSpec.Instr) (idx pos : Nat) (hR : Rel c leaf annex st s) (hs : i.op = 0xab) (hidx : c.p.drop idx = i.after)
    (hwfa : c.sv = .base → (ScriptSpec.parse c.p).2 = false → (ScriptSpec.parse i.after).2 = false ∧ i.after.length < 2 ^ 32) :
    Agree c leaf annex (execOp c st i.op idx pos true) (ScriptSpec.execOpcode (envOf T c leaf annex) s i true pos) := by
  obtain ⟨iop, idata, iafter⟩ := i
  obtain ⟨h1, h2, h3, h5, h6, h7, h8, h9, h10, h11⟩ := hR
  obtain ⟨sstack, salt, scond, sop, scode, scsp, sw⟩ := s
  obtain ⟨stack, alt, exe, pbegin, opcnt, ed⟩ := st
  simp only at h1 h2 h3 h5 h6 h7 h8 h9 h10 h11 hs hidx hwfa
  subst h1 h2 h3 h5 hs
  simp [execOp, isBinArith, ScriptSpec.execOpcode, ScriptSpec.isShuffle, ScriptSpec.isUnaryNum, ScriptSpec.isBinaryNum, agree_ok, pure, Except.pure]
  exact ⟨rfl, rfl, rfl, rfl, hidx, rfl, h8, h9, h10, hwfa⟩

theorem execOp_cltv (c : Ctx) (st : St) (idx pos : Nat) (b : Bool) :
    execOp c st 0xb1 idx pos b =
    (if !has c.flags VER_CLTV then (if has c.flags VER_BLOCK_OPS then .fail else .ok st)
    else match st.stack with
    | [] => .fail
    | d :: _ =>
      if d.length > 5 then .fail else do
        let locktime ← bts2intExt d 5 (has c.flags VER_MINDATA)
        if locktime < 0 then .fail
        else if !((c.tx.lockTime < LOCKTIME_THRESHOLD && locktime < LOCKTIME_THRESHOLD) ||
                  (c.tx.lockTime ≥ LOCKTIME_THRESHOLD && locktime ≥ LOCKTIME_THRESHOLD)) then .fail
        else if locktime > c.tx.lockTime then .fail
        else if c.tx.sequence == 0xffffffff then .fail
        else pure st) := by
  simp only [execOp, isBinArith]; rfl

theorem execOp_csv (c : Ctx) (st : St) (idx pos : Nat) (b : Bool) :
    execOp c st 0xb2 idx pos b =
    (if !has c.flags VER_CSV then (if has c.flags VER_BLOCK_OPS then .fail else .ok st)
    else match st.stack with
    | [] => .fail
    | d :: _ =>
      if d.length > 5 then .fail else do
        let sequence ← bts2intExt d 5 (has c.flags VER_MINDATA)
        if sequence < 0 then .fail
        else if (sequence.toNat &&& SEQUENCE_LOCKTIME_DISABLE_FLAG) != 0 then pure st
        else if !checkSequence c.tx sequence.toNat then .fail
        else pure st) := by
  simp only [execOp, isBinArith]; rfl

/-- the CLTV / CSV policy difference (known finding `cltv-csv-discouraged-nop`) is excluded by this side
    condition on the flags: DISCOURAGE_UPGRADABLE_NOPS only together with CLTV and CSV (true of the consensus
    flag sets, where the policy flag is off, and of the standard flag set) -/
def NopsOk (flags : Nat) : Prop :=
  has flags VER_BLOCK_OPS = true → has flags VER_CLTV = true ∧ has flags VER_CSV = true

theorem execOpcode_cltv (e : ScriptSpec.Env) (s : ScriptSpec.State) (d a : Bytes) (pos : Nat) (b : Bool) :
    ScriptSpec.execOpcode e s ⟨0xb1, d, a⟩ b pos = ScriptSpec.opCltv e s := by
  simp [ScriptSpec.execOpcode]
theorem execOpcode_csv (e : ScriptSpec.Env) (s : ScriptSpec.State) (d a : Bytes) (pos : Nat) (b : Bool) :
    ScriptSpec.execOpcode e s ⟨0xb2, d, a⟩ b pos = ScriptSpec.opCsv e s := by
  simp [ScriptSpec.execOpcode]

theorem cltv_agree (T : TotalOracles) (c : Ctx) (leaf : Bytes) (annex : Option Bytes) (st : St) (s : ScriptSpec.State)
    (i : ScriptSpec.Instr) (idx pos : Nat) (hR : Rel c leaf annex st s) (hs : i.op = 0xb1) (hq : NopsOk c.flags) :
    Agree c leaf annex (execOp c st i.op idx pos true) (ScriptSpec.execOpcode (envOf T c leaf annex) s i true pos) := by
  obtain ⟨iop, idata, iafter⟩ := i
  simp only at hs; subst hs
  rw [execOp_cltv, execOpcode_cltv]
  have hR' := hR
  obtain ⟨h1, h2, h3, h5, h6, h7, h8, h9, h10, h11⟩ := hR
  obtain ⟨sstack, salt, scond, sop, scode, scsp, sw⟩ := s
  obtain ⟨stack, alt, exe, pbegin, opcnt, ed⟩ := st
  simp only at h1 h2 h3 h5 h6 h7 h8 h9 h10 h11
  subst h1 h2 h3 h5
  simp only [ScriptSpec.opCltv, envOf_f, envOf_q, envOf_tx, ← flag_cltv, ← flag_mindata, ← flag_nops]
  by_cases hc : has c.flags VER_CLTV = true
  · simp only [hc, Bool.not_true, Bool.false_eq_true, ↓reduceIte]
    rcases stack with _ | ⟨d, r⟩
    · simp [agree_fail, throw, throwThe, MonadExceptOf.throw, bind, Except.bind, pure, Except.pure]
    · simp only [bts2intExt_eq]
      by_cases hl : d.length > 5
      · have : ScriptSpec.ScriptNum.read d (has c.flags VER_MINDATA) 5 = .error ScriptSpec.ScriptError.UNKNOWN_ERROR := by
          simp [ScriptSpec.ScriptNum.read, hl, throw, throwThe, MonadExceptOf.throw]
        simp [hl, this, agree_fail, bind, Except.bind, pure, Except.pure]
      · simp only [hl, ↓reduceIte]
        cases hrd : ScriptSpec.ScriptNum.read d (has c.flags VER_MINDATA) 5
        · simp [agree_panic, bind, Except.bind, Res.bind, pure, Except.pure]
        · rename_i n
          simp only [bind, Except.bind, Res.bind, pure, Except.pure, throw, throwThe, MonadExceptOf.throw, ScriptSpec.checkLockTime,
            show ScriptSpec.LOCKTIME_THRESHOLD = LOCKTIME_THRESHOLD from rfl]
          by_cases hneg : n < 0
          · simp [hneg, agree_fail]
          · simp only [hneg, ↓reduceIte]
            by_cases hty : (decide (c.tx.lockTime < LOCKTIME_THRESHOLD) && decide (n < ↑LOCKTIME_THRESHOLD) ||
                decide (c.tx.lockTime ≥ LOCKTIME_THRESHOLD) && decide (n ≥ ↑LOCKTIME_THRESHOLD)) = true
            · by_cases hle : n > ↑c.tx.lockTime
              · have : ¬ n ≤ ↑c.tx.lockTime := by omega
                simp [hty, hle, this, agree_fail]
              · have : n ≤ ↑c.tx.lockTime := by omega
                by_cases hsq : c.tx.sequence = 4294967295
                · simp [hty, hle, this, hsq, agree_fail]
                · simp [hty, hle, this, hsq, agree_ok]
                  exact hR'
            · simp [hty, agree_fail]
  · have hb : has c.flags VER_BLOCK_OPS = false := by
      cases hb : has c.flags VER_BLOCK_OPS
      · rfl
      · exact absurd (hq hb).1 hc
    simp [hc, hb, agree_ok, pure, Except.pure, bind, Except.bind]
    exact hR'

theorem disableFlag_testBit (x : Nat) : ((x &&& SEQUENCE_LOCKTIME_DISABLE_FLAG) != 0) = x.testBit 31 := by
  have := has_testBit x 31
  unfold has at this
  exact this

theorem checkSequence_eq (tx : TxCtx) (n : Nat) : checkSequence tx n = ScriptSpec.checkSequence tx n := by
  unfold checkSequence ScriptSpec.checkSequence
  simp only [disableFlag_testBit]
  have hm : SEQUENCE_LOCKTIME_TYPE_FLAG ||| SEQUENCE_LOCKTIME_MASK = 2 ^ 22 + 0xffff := by decide
  have ht : SEQUENCE_LOCKTIME_TYPE_FLAG = 2 ^ 22 := by decide
  simp only [hm]
  simp only [ht]
  by_cases hv : tx.version < 2
  · have : ¬ tx.version ≥ 2 := by omega
    simp [hv, this]
  · have hv2 : tx.version ≥ 2 := by omega
    simp only [hv, ↓reduceIte, hv2, decide_true, Bool.true_and]
    cases hb : tx.sequence.testBit 31
    · simp only [Bool.false_eq_true, ↓reduceIte, Bool.not_false, Bool.true_and]
      generalize tx.sequence &&& (2 ^ 22 + 65535) = a
      generalize n &&& (2 ^ 22 + 65535) = b
      by_cases h1 : (decide (a < 2 ^ 22) && decide (b < 2 ^ 22) || decide (a ≥ 2 ^ 22) && decide (b ≥ 2 ^ 22)) = true
      · by_cases h2 : b > a
        · have : ¬ b ≤ a := by omega
          simp [h1, h2, this]
        · have : b ≤ a := by omega
          simp [h1, h2, this]
      · simp [h1]
    · simp

theorem csv_agree (T : TotalOracles) (c : Ctx) (leaf : Bytes) (annex : Option Bytes) (st : St) (s : ScriptSpec.State)
    (i : ScriptSpec.Instr) (idx pos : Nat) (hR : Rel c leaf annex st s) (hs : i.op = 0xb2) (hq : NopsOk c.flags) :
    Agree c leaf annex (execOp c st i.op idx pos true) (ScriptSpec.execOpcode (envOf T c leaf annex) s i true pos) := by
  obtain ⟨iop, idata, iafter⟩ := i
  simp only at hs; subst hs
  rw [execOp_csv, execOpcode_csv]
  have hR' := hR
  obtain ⟨h1, h2, h3, h5, h6, h7, h8, h9, h10, h11⟩ := hR
  obtain ⟨sstack, salt, scond, sop, scode, scsp, sw⟩ := s
  obtain ⟨stack, alt, exe, pbegin, opcnt, ed⟩ := st
  simp only at h1 h2 h3 h5 h6 h7 h8 h9 h10 h11
  subst h1 h2 h3 h5
  simp only [ScriptSpec.opCsv, envOf_f, envOf_q, envOf_tx, ← flag_csv, ← flag_mindata, ← flag_nops]
  by_cases hc : has c.flags VER_CSV = true
  · simp only [hc, Bool.not_true, Bool.false_eq_true, ↓reduceIte]
    rcases stack with _ | ⟨d, r⟩
    · simp [agree_fail, throw, throwThe, MonadExceptOf.throw, bind, Except.bind, pure, Except.pure]
    · simp only [bts2intExt_eq]
      by_cases hl : d.length > 5
      · have : ScriptSpec.ScriptNum.read d (has c.flags VER_MINDATA) 5 = .error ScriptSpec.ScriptError.UNKNOWN_ERROR := by
          simp [ScriptSpec.ScriptNum.read, hl, throw, throwThe, MonadExceptOf.throw]
        simp [hl, this, agree_fail, bind, Except.bind, pure, Except.pure]
      · simp only [hl, ↓reduceIte]
        cases hrd : ScriptSpec.ScriptNum.read d (has c.flags VER_MINDATA) 5
        · simp [agree_panic, bind, Except.bind, Res.bind, pure, Except.pure]
        · rename_i n
          simp only [bind, Except.bind, Res.bind, pure, Except.pure, throw, throwThe, MonadExceptOf.throw, disableFlag_testBit, checkSequence_eq]
          by_cases hneg : n < 0
          · simp [hneg, agree_fail]
          · simp only [hneg, ↓reduceIte]
            cases hb : n.toNat.testBit 31
            · by_cases hcs : ScriptSpec.checkSequence c.tx n.toNat = true
              · simp [hcs, agree_ok]; exact hR'
              · simp [hcs, agree_fail]
            · simp [agree_ok]; exact hR'
  · have hb : has c.flags VER_BLOCK_OPS = false := by
      cases hb : has c.flags VER_BLOCK_OPS
      · rfl
      · exact absurd (hq hb).2 hc
    simp [hc, hb, agree_ok, pure, Except.pure, bind, Except.bind]
    exact hR'

end GocoinV.Proofs.C01
