/-
  Proofs.C12SortDef — the invariant of the incrementally maintained (non-dirty) sorted list BestT2S…WorstT2S with its
  SortRank values (sort.go AddToSort / DelFromSort / fixIndex / reindexDown / reindexEverything / buildSortedList):
  definitions and the lifting lemmas shared by C12SortDel (deletions, frames), C12SortIns (insertion) and C12SortRun.
  Core Lean only.
-/
import GocoinV.Proofs.C12Env
namespace GocoinV.Mempool

/-- `y` is not a flagged (MemInputs) parent of the pooled record with key `x` -/
def NoLaterParent (K : Keys) (s : State) (x y : Nat) : Prop := ∀ t, s.pool.get? x = some t → y ∉ memParents K t

/-- what the non-dirty sorted list satisfies -/
structure SortOK (K : Keys) (s : State) : Prop where
  /-- SortRank strictly increases from BestT2S to WorstT2S … -/
  asc : (s.sorted.map (rankOf s)).Pairwise (· < ·)
  /-- … inside uint64 -/
  bnd : ∀ b ∈ s.sorted, rankOf s b < U64
  /-- the list holds exactly the keys of TransactionsToSend -/
  sync : ∀ b, b ∈ s.sorted ↔ (s.pool.get? b).isSome = true
  /-- nothing listed after a record is one of its flagged parents -/
  pf : s.sorted.Pairwise (NoLaterParent K s)
  /-- no record is its own flagged parent -/
  irr : ∀ b t, s.pool.get? b = some t → b ∉ memParents K t

/-- the invariant: whenever the list is not dirty and no SortRank computation since its last rebuild left the uint64
    range (ghost flag `rankWrap`) -/
def SortInv (K : Keys) (s : State) : Prop := s.sortDirty = false → s.rankWrap = false → SortOK K s

/-- … claimed for states in which the process is alive -/
def SortInvP (K : Keys) (s : State) : Prop := s.panicked = false → SortInv K s

theorem SortInvP.lift {K : Keys} {s s' : State} (e : Env s s') (f : SortInv K s → SortInv K s')
    (h : SortInvP K s) : SortInvP K s' :=
  fun hp => f (h (alive_of_env' e hp))
where
  alive_of_env' {s s' : State} (e : Env s s') (h : s'.panicked = false) : s.panicked = false := by
    cases hp : s.panicked with
    | false => rfl
    | true => rw [e.sticky hp] at h; cases h

/-- the fields `SortOK` reads are the same in both states -/
structure SortSame (s s' : State) : Prop where
  pool : ∀ x, s'.pool.get? x = s.pool.get? x
  sorted : s'.sorted = s.sorted
  ranks : s'.ranks = s.ranks
  dirty : s'.sortDirty = s.sortDirty
  wrap : s'.rankWrap = s.rankWrap

theorem SortSame.refl (s : State) : SortSame s s := ⟨fun _ => rfl, rfl, rfl, rfl, rfl⟩

/-- … in particular when the pool is literally the same -/
theorem SortSame.of_eq {s s' : State} (h1 : s'.pool = s.pool) (h2 : s'.sorted = s.sorted) (h3 : s'.ranks = s.ranks)
    (h4 : s'.sortDirty = s.sortDirty) (h5 : s'.rankWrap = s.rankWrap) : SortSame s s' :=
  ⟨fun _ => by rw [h1], h2, h3, h4, h5⟩

theorem SortSame.trans {a b c : State} (h1 : SortSame a b) (h2 : SortSame b c) : SortSame a c :=
  ⟨fun x => (h2.pool x).trans (h1.pool x), h2.sorted.trans h1.sorted, h2.ranks.trans h1.ranks, h2.dirty.trans h1.dirty,
   h2.wrap.trans h1.wrap⟩

theorem rankOf_congr {s s' : State} (h : s'.ranks = s.ranks) (b : Nat) : rankOf s' b = rankOf s b := by
  unfold rankOf; rw [h]

theorem SortOK.of_same {K : Keys} {s s' : State} (f : SortSame s s') (h : SortOK K s) : SortOK K s' := by
  have hr : rankOf s' = rankOf s := funext (rankOf_congr f.ranks)
  refine ⟨?_, ?_, ?_, ?_, ?_⟩
  · rw [f.sorted, hr]; exact h.asc
  · rw [f.sorted, hr]; exact h.bnd
  · intro b; rw [f.sorted, f.pool b]; exact h.sync b
  · rw [f.sorted]
    have : NoLaterParent K s' = NoLaterParent K s := by
      funext x y; unfold NoLaterParent; rw [f.pool x]
    rw [this]; exact h.pf
  · intro b t hb; rw [f.pool b] at hb; exact h.irr b t hb

theorem SortInv.of_same {K : Keys} {s s' : State} (f : SortSame s s') (h : SortInv K s) : SortInv K s' := by
  intro hd hw
  rw [f.dirty] at hd
  rw [f.wrap] at hw
  exact (h hd hw).of_same f

/-- a state whose list is dirty satisfies the invariant trivially -/
theorem SortInv.of_dirty {K : Keys} {s : State} (h : s.sortDirty = true) : SortInv K s := by
  intro hd; rw [h] at hd; cases hd

end GocoinV.Mempool
