/-
  Proofs.C15Sched — helper lemmas for the step-level model of Encodeb58 (Model/Base58Sched.lean):
  with a private remainder, a caller's state after any schedule depends only on how many steps IT was given,
  and a caller that left the loop holds exactly the digits of `Base58.encode`.
-/
import GocoinV.Model.Base58Sched
namespace GocoinV.Base58Sched
open Base58

/-- private remainder: the step neither reads nor writes the package-level cell -/
theorem stepTh_false (c : Nat) (t : Th) : stepTh false c t = ((stepTh false 0 t).1, c) := by
  unfold stepTh
  by_cases hp : t.pending = true
  · simp [hp]
  · by_cases hb : t.bn = 0 <;> simp [hp, hb]

theorem step_false_ths (s : St) (j i : Nat) :
    (step false s j).ths[i]? = if i = j then (s.ths[i]?).map (fun t => (stepTh false 0 t).1) else s.ths[i]? := by
  unfold step
  by_cases hij : i = j
  · subst hij
    cases h : s.ths[i]? with
    | none => simp [h]
    | some t =>
      have hlt : i < s.ths.length := by
        rcases Nat.lt_or_ge i s.ths.length with h' | h'
        · exact h'
        · rw [List.getElem?_eq_none h'] at h; cases h
      simp [stepTh_false s.cell t, hlt]
  · cases h : s.ths[j]? with
    | none => simp [hij]
    | some t =>
      have : j ≠ i := fun e => hij e.symm
      simp [hij, this]

theorem alone_add (t : Th) (m n : Nat) : alone t (m + n) = alone (alone t m) n := by
  induction m generalizing t with
  | zero => simp [alone]
  | succ m ih => rw [Nat.succ_add]; simp [alone, ih]

/-- schedule independence with a private remainder -/
theorem run_false_ths (s : St) (sched : List Nat) (i : Nat) :
    (run false s sched).ths[i]? = (s.ths[i]?).map (fun t => alone t (sched.count i)) := by
  induction sched generalizing s with
  | nil => simp [run, alone]
  | cons j rest ih =>
    have : run false s (j :: rest) = run false (step false s j) rest := by simp [run]
    rw [this, ih, step_false_ths]
    by_cases hij : i = j
    · subst hij
      cases h : s.ths[i]? with
      | none => simp
      | some t => simp [alone]
    · have hji : (j == i) = false := by simpa using fun e : j = i => hij e.symm
      simp [hij, List.count_cons, hji]

/-- what a caller has produced so far, read most-significant first: digits still in `bn`, the outstanding
    remainder, the digits already stored -/
def Inv (n0 : Nat) (t : Th) : Prop :=
  (digits t.bn ++ (if t.pending then [t.rem] else [])).map digitChar ++ t.out = (digits n0).map digitChar

theorem digits_pos (n : Nat) (h : n ≠ 0) : digits n = digits (n / 58) ++ [n % 58] := by
  rw [digits]; simp [h]

theorem digits_zero : digits 0 = [] := by rw [digits]; simp

theorem inv_init (n : Nat) : Inv n (Th.ofNat n) := by simp [Inv, Th.ofNat]

theorem inv_step (n0 : Nat) (t : Th) (h : Inv n0 t) : Inv n0 (stepTh false 0 t).1 := by
  unfold Inv at *
  unfold stepTh
  by_cases hp : t.pending = true
  · simpa [hp] using h
  · by_cases hb : t.bn = 0
    · simpa [hp, hb] using h
    · have hp' : t.pending = false := by simpa using hp
      rw [hp', digits_pos _ hb] at h
      simpa [hp, hb] using h

theorem inv_alone (n0 : Nat) (t : Th) (k : Nat) (h : Inv n0 t) : Inv n0 (alone t k) := by
  induction k generalizing t with
  | zero => simpa [alone] using h
  | succ k ih => simp only [alone]; exact ih _ (inv_step n0 t h)

theorem inv_done (n0 : Nat) (t : Th) (h : Inv n0 t) (hd : t.done) : t.out = (digits n0).map digitChar := by
  obtain ⟨hb, hp⟩ := hd
  unfold Inv at h
  simpa [hb, hp, digits_zero] using h

/-- a caller that left the loop returns `Base58.encode` of its own argument -/
theorem alone_done_result (a : Bytes) (k : Nat) (hd : (alone (Th.init a) k).done) :
    (alone (Th.init a) k).result a = encode a := by
  have h := inv_done (beVal a) (alone (Th.init a) k) (inv_alone _ _ k (inv_init _)) hd
  unfold Th.result encode
  rw [h]

/-- and it does leave the loop: two steps per digit -/
theorem alone_finishes (n : Nat) : ∀ (t : Th), t.bn = n → t.pending = false →
    (alone t (2 * (digits n).length)).done := by
  induction n using Nat.strongRecOn with
  | _ n ih =>
    intro t hb hp
    by_cases hz : n = 0
    · subst hz; simp [digits_zero, alone, Th.done, hb, hp]
    · rw [digits_pos n hz]
      have hlen : 2 * (digits (n / 58) ++ [n % 58]).length = 2 + 2 * (digits (n / 58)).length := by
        simp; omega
      rw [hlen, alone_add]
      have hbn : t.bn ≠ 0 := by rw [hb]; exact hz
      have h2 : alone t 2 = ⟨t.bn / 58, t.bn % 58, false, digitChar (t.bn % 58) :: t.out⟩ := by
        simp [alone, stepTh, hp, hbn]
      rw [h2]
      exact ih (n / 58) (Nat.div_lt_self (Nat.pos_of_ne_zero hz) (by omega)) _ (by simp [hb]) rfl

theorem alone_done_stays (t : Th) (hd : t.done) (k : Nat) : alone t k = t := by
  induction k with
  | zero => rfl
  | succ k ih =>
    obtain ⟨hb, hp⟩ := hd
    have : (stepTh false 0 t).1 = t := by simp [stepTh, hb, hp]
    simp only [alone, this]; exact ih

end GocoinV.Base58Sched
