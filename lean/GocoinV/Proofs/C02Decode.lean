/-
  Proofs.C02Decode — C02's own spec-level script decoder (`Spec.SigHash.nextOp` / `parseOps` / `parse`, the one
  `Spec.legacy` and `Spec.findAndDelete` use) against C01's independently written reference decoder
  (`ScriptSpec.parseOne` / `parseAux` / `parse`, Spec/Script.lean):

    nextOp_parseOne       the two one-instruction decoders fail on the same inputs, and where they succeed they
                          leave the SAME rest of the script (and C02's operation ++ rest is the input)
    nextOp_none_iff       `nextOp s = none ↔ parseOne s = none`
    parseOps_none_iff     same fuel: C02's parser fails iff C01's parser reports a decode error
    parse_none_iff        `Spec.SigHash.parse s = none ↔ (ScriptSpec.parse s).2 = true`
    parse_lengths         where both succeed they yield the same number of operations

  Core only.
-/
import GocoinV.Spec.SigHash
import GocoinV.Spec.Script
namespace GocoinV.Proofs.C02D
open GocoinV GocoinV.Spec.SigHash

theorem u8_eq_of_toNat {c : UInt8} {n : Nat} (hn : n < 256) (h : c.toNat = n) : c = UInt8.ofNat n := by
  apply UInt8.toNat_inj.mp
  simp [h, Nat.mod_eq_of_lt hn]

theorem drop_cons_add (c : UInt8) (t : Bytes) (a k : Nat) (h : a = k + 1) : List.drop a (c :: t) = t.drop k := by
  subst h; rfl

theorem drop3 (x a b : UInt8) (t : Bytes) (n : Nat) : List.drop (3 + n) (x :: a :: b :: t) = t.drop n := by
  rw [show 3 + n = n + 3 by omega]; rfl

theorem drop5 (x a b c d : UInt8) (t : Bytes) (n : Nat) :
    List.drop (5 + n) (x :: a :: b :: c :: d :: t) = t.drop n := by
  rw [show 5 + n = n + 5 by omega]; rfl

/-- the one-instruction decoders of C02's spec and of C01's spec agree: same failures, same rest -/
theorem nextOp_parseOne (s : Bytes) :
    match nextOp s, ScriptSpec.parseOne s with
    | none, none => True
    | some (_, rest), some i => i.after = rest
    | _, _ => False := by
  cases s with
  | nil => simp [nextOp, opLen, ScriptSpec.parseOne]
  | cons c t =>
    by_cases h1 : c.toNat < 0x4c
    · -- direct push of c bytes
      have h1' : c.toNat ≤ 0x4e := by omega
      simp only [nextOp, opLen, ScriptSpec.parseOne, h1, h1', ↓reduceIte, List.length_cons, Nat.not_lt_zero,
        List.drop_zero]
      by_cases h3 : t.length < c.toNat
      · have : ¬ (1 + c.toNat ≤ t.length + 1) := by omega
        simp [h3, this]
      · have : 1 + c.toNat ≤ t.length + 1 := by omega
        simp only [h3, this, ↓reduceIte, drop_cons_add c t (1 + c.toNat) c.toNat (by omega)]
    · by_cases h2 : c.toNat = 0x4c
      · have hc : c = 0x4c := u8_eq_of_toNat (by decide) h2
        subst hc
        cases t with
        | nil => simp [nextOp, opLen, ScriptSpec.parseOne]
        | cons a t =>
          simp only [nextOp, opLen, ScriptSpec.parseOne]
          by_cases h3 : t.length < a.toNat
          · have : ¬ (2 + a.toNat ≤ t.length + 1 + 1) := by omega
            simp [leVal, h3, this]
          · have : 2 + a.toNat ≤ t.length + 1 + 1 := by omega
            simp [leVal, h3, this, drop_cons_add _ _ (2 + a.toNat) (a.toNat + 1) (by omega)]
      · by_cases h4 : c.toNat = 0x4d
        · have hc : c = 0x4d := u8_eq_of_toNat (by decide) h4
          subst hc
          match t with
          | [] => simp [nextOp, opLen, ScriptSpec.parseOne]
          | [_] => simp [nextOp, opLen, ScriptSpec.parseOne]
          | a :: b :: t =>
            simp only [nextOp, opLen, ScriptSpec.parseOne]
            by_cases h3 : t.length < a.toNat + 256 * b.toNat
            · have : ¬ (3 + (a.toNat + 256 * b.toNat) ≤ t.length + 1 + 1 + 1) := by omega
              simp [leVal, h3, this]
            · have : 3 + (a.toNat + 256 * b.toNat) ≤ t.length + 1 + 1 + 1 := by omega
              have hk : ¬ (t.length + 1 + 1 < 2) := by omega
              simp [leVal, h3, this, hk, drop3]
        · by_cases h5 : c.toNat = 0x4e
          · have hc : c = 0x4e := u8_eq_of_toNat (by decide) h5
            subst hc
            match t with
            | [] => simp [nextOp, opLen, ScriptSpec.parseOne]
            | [_] => simp [nextOp, opLen, ScriptSpec.parseOne]
            | [_, _] => simp [nextOp, opLen, ScriptSpec.parseOne]
            | [_, _, _] => simp [nextOp, opLen, ScriptSpec.parseOne]
            | a :: b :: c :: d :: t =>
              simp only [nextOp, opLen, ScriptSpec.parseOne]
              by_cases h3 : t.length < a.toNat + 256 * (b.toNat + 256 * (c.toNat + 256 * d.toNat))
              · have : ¬ (5 + (a.toNat + 256 * (b.toNat + 256 * (c.toNat + 256 * d.toNat))) ≤ t.length + 1 + 1 + 1 + 1 + 1) := by omega
                simp [leVal, h3, this]
              · have : 5 + (a.toNat + 256 * (b.toNat + 256 * (c.toNat + 256 * d.toNat))) ≤ t.length + 1 + 1 + 1 + 1 + 1 := by omega
                have hk : ¬ (t.length + 1 + 1 + 1 + 1 < 4) := by omega
                simp [leVal, h3, this, hk, drop5]
          · -- a non-push opcode
            have h6 : ¬ c.toNat ≤ 0x4e := by omega
            have e1 : ¬ c = 0x4c := fun h => h2 (by subst h; rfl)
            have e2 : ¬ c = 0x4d := fun h => h4 (by subst h; rfl)
            have e3 : ¬ c = 0x4e := fun h => h5 (by subst h; rfl)
            simp [nextOp, opLen, ScriptSpec.parseOne, h1, h6, e1, e2, e3]

/-- `Spec.SigHash.nextOp s = none ↔ ScriptSpec.parseOne s = none` (the audit's item 2) -/
theorem nextOp_none_iff (s : Bytes) : nextOp s = none ↔ ScriptSpec.parseOne s = none := by
  have h := nextOp_parseOne s
  cases h1 : nextOp s with
  | none =>
    cases h2 : ScriptSpec.parseOne s with
    | none => simp
    | some i => rw [h1, h2] at h; exact h.elim
  | some p =>
    cases h2 : ScriptSpec.parseOne s with
    | none => rw [h1, h2] at h; exact h.elim
    | some i => simp

/-- where C02's decoder succeeds, C01's does too and leaves the same rest -/
theorem parseOne_of_nextOp {s op rest : Bytes} (h : nextOp s = some (op, rest)) :
    ∃ i, ScriptSpec.parseOne s = some i ∧ i.after = rest := by
  have hh := nextOp_parseOne s
  rw [h] at hh
  cases h2 : ScriptSpec.parseOne s with
  | none => rw [h2] at hh; exact hh.elim
  | some i => rw [h2] at hh; exact ⟨i, rfl, hh⟩

/-- the first operation has at least its opcode byte -/
theorem opLen_pos {s : Bytes} {n : Nat} (h : opLen s = some n) : 1 ≤ n := by
  cases s with
  | nil => simp [opLen] at h
  | cons c t =>
    simp only [opLen] at h
    split at h
    · simp at h; omega
    · split at h
      · split at h <;> simp at h; omega
      · split at h
        · split at h <;> simp at h; omega
        · split at h
          · split at h <;> simp at h; omega
          · simp at h; omega

/-- C02's decoder splits the script: operation ++ rest = script, and the operation is not empty
    (so the rest is strictly shorter) -/
theorem nextOp_split {s op rest : Bytes} (h : nextOp s = some (op, rest)) :
    op ++ rest = s ∧ 1 ≤ op.length ∧ rest.length < s.length := by
  unfold nextOp at h
  cases hl : opLen s with
  | none => simp [hl] at h
  | some n =>
    have hp := opLen_pos hl
    simp only [hl] at h
    split at h
    · rename_i hle
      simp only [Option.some.injEq, Prod.mk.injEq] at h
      obtain ⟨rfl, rfl⟩ := h
      refine ⟨List.take_append_drop _ _, ?_, ?_⟩
      · simp; omega
      · simp; omega
    · simp at h

/-- with the same fuel, C02's parser fails exactly where C01's parser reports a decode error, and where both
    succeed they yield the same number of operations -/
theorem parseOps_parseAux : ∀ (f : Nat) (s : Bytes),
    match parseOps f s with
    | none => (ScriptSpec.parseAux f s).2 = true
    | some ops => (ScriptSpec.parseAux f s).2 = false ∧ (ScriptSpec.parseAux f s).1.length = ops.length := by
  intro f
  induction f with
  | zero =>
    intro s
    cases s <;> simp [parseOps, ScriptSpec.parseAux]
  | succ f ih =>
    intro s
    cases s with
    | nil => simp [parseOps, ScriptSpec.parseAux]
    | cons c t =>
      simp only [parseOps, ScriptSpec.parseAux, List.isEmpty_cons, Bool.false_eq_true, ↓reduceIte]
      cases hn : nextOp (c :: t) with
      | none => simp [(nextOp_none_iff _).mp hn]
      | some p =>
        obtain ⟨op, rest⟩ := p
        obtain ⟨i, hp, ha⟩ := parseOne_of_nextOp hn
        have := ih rest
        simp only [hp, ha]
        cases hr : parseOps f rest with
        | none => rw [hr] at this; simpa using this
        | some ops => rw [hr] at this; simpa using this

theorem parseOps_none_iff (f : Nat) (s : Bytes) : parseOps f s = none ↔ (ScriptSpec.parseAux f s).2 = true := by
  have h := parseOps_parseAux f s
  cases hp : parseOps f s with
  | none => rw [hp] at h; simp [h]
  | some ops => rw [hp] at h; simp [h.1]

/-- C02's own parser (`Spec.SigHash.parse`, the one `Spec.legacy` / `Spec.findAndDelete` are defined with) fails
    exactly on the scripts for which C01's reference parser reports a decode error -/
theorem parse_none_iff (s : Bytes) : Spec.SigHash.parse s = none ↔ (ScriptSpec.parse s).2 = true :=
  parseOps_none_iff s.length s

/-- … and on every other script both succeed with the same number of operations -/
theorem parse_lengths (s : Bytes) (ops : List Bytes) (h : Spec.SigHash.parse s = some ops) :
    (ScriptSpec.parse s).2 = false ∧ (ScriptSpec.parse s).1.length = ops.length := by
  have := parseOps_parseAux s.length s
  unfold Spec.SigHash.parse at h
  rw [h] at this
  exact this

/-! ### a decode error in a suffix at an instruction boundary is a decode error of the whole script -/

/-- fuel beyond the script length changes nothing -/
theorem parseOps_fuel : ∀ (f : Nat) (s : Bytes) (f' : Nat), s.length ≤ f → f ≤ f' → parseOps f' s = parseOps f s := by
  intro f
  induction f with
  | zero =>
    intro s f' hs _
    have : s = [] := List.eq_nil_of_length_eq_zero (by omega)
    subst this
    cases f' <;> simp [parseOps]
  | succ f ih =>
    intro s f' hs hf
    cases s with
    | nil => cases f' <;> simp [parseOps]
    | cons c t =>
      obtain ⟨f'', rfl⟩ : ∃ k, f' = k + 1 := ⟨f' - 1, by omega⟩
      simp only [parseOps]
      cases hn : nextOp (c :: t) with
      | none => rfl
      | some p =>
        obtain ⟨op, rest⟩ := p
        have hl := (nextOp_split hn).2.2
        simp only [List.length_cons] at hl hs
        simp only []
        rw [ih rest f'' (by omega) (by omega)]

theorem opLen_append {s : Bytes} {n : Nat} (x : Bytes) (h : opLen s = some n) : opLen (s ++ x) = some n := by
  cases s with
  | nil => simp [opLen] at h
  | cons c t =>
    simp only [List.cons_append, opLen] at h ⊢
    split
    · rename_i h1; simpa [h1] using h
    · rename_i h1
      simp only [h1, ↓reduceIte] at h
      split
      · rename_i h2
        simp only [h2, ↓reduceIte] at h
        cases t with
        | nil => simp at h
        | cons a t => simpa using h
      · rename_i h2
        simp only [h2, ↓reduceIte] at h
        split
        · rename_i h3
          simp only [h3, ↓reduceIte] at h
          match t, h with
          | [], h => simp at h
          | [_], h => simp at h
          | a :: b :: t, h => simpa using h
        · rename_i h3
          simp only [h3, ↓reduceIte] at h
          split
          · rename_i h4
            simp only [h4, ↓reduceIte] at h
            match t, h with
            | [], h => simp at h
            | [_], h => simp at h
            | [_, _], h => simp at h
            | [_, _, _], h => simp at h
            | a :: b :: c :: d :: t, h => simpa using h
          · rename_i h4
            simpa [h4] using h

theorem nextOp_append {s op rest : Bytes} (x : Bytes) (h : nextOp s = some (op, rest)) :
    nextOp (s ++ x) = some (op, rest ++ x) := by
  unfold nextOp at h ⊢
  cases hl : opLen s with
  | none => simp [hl] at h
  | some n =>
    rw [opLen_append x hl]
    simp only [hl] at h ⊢
    split at h
    · rename_i hle
      simp only [Option.some.injEq, Prod.mk.injEq] at h
      obtain ⟨rfl, rfl⟩ := h
      have : n ≤ (s ++ x).length := by simp; omega
      simp only [this, ↓reduceIte, List.take_append_of_le_length hle, List.drop_append_of_le_length hle]
    · simp at h

theorem parseOps_append_bad : ∀ (f : Nat) (pre : Bytes) (ops : List Bytes) (g : Nat) (sc : Bytes),
    parseOps f pre = some ops → sc.length ≤ g → parseOps g sc = none → parseOps (f + g) (pre ++ sc) = none := by
  intro f
  induction f with
  | zero =>
    intro pre ops g sc hp hg hs
    cases pre with
    | nil => simpa using hs
    | cons c t => simp [parseOps] at hp
  | succ f ih =>
    intro pre ops g sc hp hg hs
    cases pre with
    | nil =>
      simp only [List.nil_append]
      rw [parseOps_fuel g sc (f + 1 + g) hg (by omega)]; exact hs
    | cons c t =>
      simp only [parseOps] at hp
      cases hn : nextOp (c :: t) with
      | none => simp [hn] at hp
      | some p =>
        obtain ⟨op, rest⟩ := p
        simp only [hn] at hp
        cases hr : parseOps f rest with
        | none => simp [hr] at hp
        | some ops' =>
          have h2 := nextOp_append sc hn
          rw [show f + 1 + g = (f + g) + 1 by omega]
          simp only [List.cons_append] at h2 ⊢
          simp only [parseOps, h2, ih rest ops' g sc hr hg hs]

/-- a script that consists of well-formed operations followed by a rest that does not decode does not decode -/
theorem parse_append_bad (pre sc : Bytes) (ops : List Bytes) (hp : Spec.SigHash.parse pre = some ops)
    (hs : Spec.SigHash.parse sc = none) : Spec.SigHash.parse (pre ++ sc) = none := by
  unfold Spec.SigHash.parse at *
  rw [List.length_append]
  exact parseOps_append_bad pre.length pre ops sc.length sc hp (Nat.le_refl _) hs

end GocoinV.Proofs.C02D
