/-
  Proofs.C14Wif — the IMPORT direction of the WIF clause of C14 ("exported WIF … re-import to the same keys"),
  available since the `fix:` commit for finding `wif-flag-byte-unchecked`: whatever string `DecodePrivateAddr`
  accepts is the string `String()` exports for the record it returns, so one key record has one importable
  spelling. Uses C15's string-level codec theorems (Proofs/C15Wif.lean), which are about the same definitions.
-/
import GocoinV.Proofs.C15Wif
namespace GocoinV.HD

/-- `DecodePrivateAddr(s) = pa` ⇒ `pa.String() = s` and the key has 32 bytes -/
theorem privAddrString_of_decode (C : WalletCrypto) (s : Bytes) (pa : PrivAddr)
    (h : decodePrivateAddr C s = .ok (.ok pa)) : privAddrString C pa = .ok s ∧ pa.key.length = 32 := by
  rw [AddrWif.decodePrivateAddr_factors] at h
  cases hd : AddrWif.decode C s with
  | error e => simp [hd] at h
  | ok t =>
    obtain ⟨v, k, c⟩ := t
    simp only [hd, Except.ok.injEq] at h
    have he := AddrWif.encode_decode C s v k c hd
    have hs := AddrWif.privAddrString_factors C k v c pa h
    have hkey : pa.key = k := by
      unfold newPrivateAddr at h
      cases hp : publicFromPrivate k c with
      | none => simp [hp] at h
      | some pb =>
        simp only [hp, Except.ok.injEq] at h
        rw [← h]
    exact ⟨by rw [hs, he.1], by rw [hkey]; exact he.2⟩

/-- two strings that import to the same key record are the same string -/
theorem decodePrivateAddr_inj (C : WalletCrypto) (s s' : Bytes) (pa : PrivAddr)
    (h : decodePrivateAddr C s = .ok (.ok pa)) (h' : decodePrivateAddr C s' = .ok (.ok pa)) : s = s' := by
  have a := (privAddrString_of_decode C s pa h).1
  have b := (privAddrString_of_decode C s' pa h').1
  rw [a] at b
  exact Except.ok.inj b

end GocoinV.HD
