/- C08 table proof chunk (written once by Proofs/mk_c08_tab.py; static). -/
import GocoinV.Proofs.C08_TabDefs
import GocoinV.Gen.TablesPreG00
namespace GocoinV.C08
open GocoinV.Gen

theorem preG_00 : chainOK (Secp.dbl Secp.G) (pts Tables.preG00) = true := by decide +kernel
theorem preG_00_ne : pts Tables.preG00 ≠ [] := by decide +kernel

end GocoinV.C08
