/-
  Proofs.C12SortDel — every operation of Model/Mempool.lean that does not insert into the sorted list keeps the
  invariant `SortInv` of the incrementally maintained list (Proofs/C12SortDef.lean), with no hypothesis about the pool:
  the reject-list functions and the chain side do not touch the fields it reads (`SortSame`), Delete removes the key from
  the map, the list and the ranks together (`delOne_sort` and everything built from it), the MemInputs flag maintenance
  either marks the list dirty or stores the same record again.  Core Lean only.
-/
import GocoinV.Proofs.C12SortDef
namespace GocoinV.Mempool

/-- `SortInv.of_same` with the invariant first (fixes the source state before the frame is elaborated) -/
theorem SortInv.same {K : Keys} {s s' : State} (h : SortInv K s) (f : SortSame s s') : SortInv K s' := h.of_same f

/-! ### the reject list -/

theorem rejDelete_same (K : Keys) (s : State) (r : Rej) : SortSame s (rejDelete K s r) := by
  unfold rejDelete
  cases r.tx <;> exact SortSame.of_eq rfl rfl rfl rfl rfl

theorem rejDeleteByIdx_same (K : Keys) (s : State) (b : Nat) : SortSame s (rejDeleteByIdx K s b) := by
  unfold rejDeleteByIdx
  split
  · exact rejDelete_same K s _
  · exact SortSame.refl s

theorem rejEvictOldest_same (K : Keys) (s : State) : SortSame s (rejEvictOldest K s) := by
  unfold rejEvictOldest
  split
  · split
    · split
      · exact rejDelete_same K s _
      · exact SortSame.of_eq rfl rfl rfl rfl rfl
    · exact SortSame.of_eq rfl rfl rfl rfl rfl
  · exact SortSame.refl s

theorem rejAddRefs_same (K : Keys) (s : State) (r : Rej) : SortSame s (rejAddRefs K s r) := by
  unfold rejAddRefs
  cases r.tx with
  | none => exact SortSame.refl s
  | some t => exact SortSame.of_eq rfl rfl rfl rfl rfl

theorem rejAdd_same (K : Keys) (s : State) (r : Rej) : SortSame s (rejAdd K s r) := by
  unfold rejAdd
  have h0 : SortSame s { s with ring := s.ring ++ [some (K.bidx r.id)], rej := s.rej.set (K.bidx r.id) r } :=
    SortSame.of_eq rfl rfl rfl rfl rfl
  exact (h0.trans (rejEvictOldest_same K _)).trans (rejAddRefs_same K _ r)

theorem rejectTx_same (K : Keys) (s : State) (t : Tx) (why : Nat) (m : Option TxId) :
    SortSame s (rejectTx K s t why m) := rejAdd_same K s _

/-! ### DelFromSort together with the removal from the map -/

/-- a record found after the deletion of `b` was there before -/
theorem get?_of_del {s s' : State} {b : Nat} (hp : s'.pool = s.pool.del b) {x : Nat} {t : T2S}
    (h : s'.pool.get? x = some t) : s.pool.get? x = some t := by
  rw [hp] at h
  by_cases hx : x = b
  · rw [hx, AList.get?_del_self] at h; cases h
  · rw [AList.get?_del_other _ _ _ hx] at h; exact h

/-- the key leaves the map, the list and the ranks together -/
theorem SortOK.del {K : Keys} {s s' : State} (b : Nat) (hp : s'.pool = s.pool.del b)
    (hs : s'.sorted = s.sorted.filter (· ≠ b)) (hr : s'.ranks = s.ranks.del b) (h : SortOK K s) : SortOK K s' := by
  have hrank : ∀ x, x ≠ b → rankOf s' x = rankOf s x := by
    intro x hx
    unfold rankOf
    rw [hr, AList.get?_del_other _ _ _ hx]
  have hmem : ∀ x, x ∈ s'.sorted ↔ x ∈ s.sorted ∧ x ≠ b := by
    intro x
    rw [hs, List.mem_filter]
    simp
  refine ⟨?_, ?_, ?_, ?_, ?_⟩
  · have e : s'.sorted.map (rankOf s') = (s.sorted.filter (· ≠ b)).map (rankOf s) := by
      rw [hs]
      apply List.map_congr_left
      intro x hx
      rw [← hs] at hx
      exact hrank x ((hmem x).1 hx).2
    rw [e]
    exact h.asc.sublist (List.Sublist.map _ List.filter_sublist)
  · intro x hx
    have := (hmem x).1 hx
    rw [hrank x this.2]
    exact h.bnd x this.1
  · intro x
    rw [hmem x, hp]
    by_cases hx : x = b
    · rw [hx, AList.get?_del_self]
      simp
    · rw [AList.get?_del_other _ _ _ hx, h.sync x]
      simp [hx]
  · rw [hs]
    refine (h.pf.filter _).imp ?_
    intro x y hxy t ht
    exact hxy t (get?_of_del hp ht)
  · intro x t ht
    exact h.irr x t (get?_of_del hp ht)

theorem delFromSort_sort (K : Keys) (s s1 : State) (b : Nat) (hp : s1.pool = s.pool.del b)
    (hs : s1.sorted = s.sorted) (hr : s1.ranks = s.ranks) (hd : s1.sortDirty = s.sortDirty)
    (hw : s1.rankWrap = s.rankWrap) (h : SortInv K s) : SortInv K (delFromSort s1 b) := by
  unfold delFromSort
  split
  · rename_i hdirty
    exact SortInv.of_dirty hdirty
  · split
    · exact SortInv.of_dirty rfl
    · intro hd' hw'
      have hd2 : s1.sortDirty = false := hd'
      have hw2 : s1.rankWrap = false := hw'
      rw [hd] at hd2
      rw [hw] at hw2
      refine SortOK.del (s := s) b hp ?_ ?_ (h hd2 hw2)
      · show s1.sorted.filter (· ≠ b) = _
        rw [hs]
      · show s1.ranks.del b = _
        rw [hr]

theorem delOne_sort (K : Keys) (s : State) (t : T2S) (reason : Nat) : SortInv K s → SortInv K (delOne K s t reason) := by
  intro h
  unfold delOne
  simp only
  generalize hs1 : ({ s with spent := t.tx.ins.foldl (fun (m : AList Nat Nat) i => m.del (K.uidx i.prev i.vout)) s.spent,
                             pool := s.pool.del (K.bidx t.tx.id) } : State) = s1
  have e2 : SortInv K (delFromSort s1 (K.bidx t.tx.id)) := by
    apply delFromSort_sort K s s1 _ _ _ _ _ _ h <;> (rw [← hs1])
  have e3 : SortInv K
      { delFromSort s1 (K.bidx t.tx.id) with weightTotal := (delFromSort s1 (K.bidx t.tx.id)).weightTotal - t.tx.weight } :=
    SortInv.of_same (s := delFromSort s1 (K.bidx t.tx.id)) (SortSame.of_eq rfl rfl rfl rfl rfl) e2
  split
  · exact e3.of_same (rejectTx_same K _ _ _ _)
  · exact e3

theorem delKeys_sort (K : Keys) (reason : Nat) : ∀ (l : List Nat) (s : State), SortInv K s →
    SortInv K (delKeys K reason s l) := by
  intro l s h
  unfold delKeys
  refine foldl_inv (SortInv K) _ ?_ l s h
  intro s b hs
  split
  · exact delOne_sort K s _ reason hs
  · exact hs

theorem deleteRbf_sort (K : Keys) (s : State) (rbf : List Nat) : SortInv K s → SortInv K (deleteRbf K s rbf) :=
  delKeys_sort K R_REPLACED rbf.reverse s

theorem delWithChildren_sort (K : Keys) (reason : Nat) : ∀ (fuel : Nat) (s : State) (t : T2S), SortInv K s →
    SortInv K (delWithChildren K reason fuel s t) := by
  intro fuel
  induction fuel with
  | zero => intro s t h; exact SortInv.of_same (s := s) (SortSame.of_eq rfl rfl rfl rfl rfl) h
  | succ n ih =>
    intro s t h
    unfold delWithChildren
    dsimp only
    refine delOne_sort K _ t reason (foldl_inv (SortInv K) _ ?_ _ s h)
    intro s v hs
    split
    · exact hs
    · split
      · exact hs
      · exact ih _ _ hs

theorem expire_sort (K : Keys) (s : State) (old : List Nat) : SortInv K s → SortInv K (expire K s old) := by
  intro h
  unfold expire
  refine foldl_inv (SortInv K) _ ?_ old s h
  intro s b hs
  split
  · exact delWithChildren_sort K 0 _ _ _ hs
  · exact hs

theorem evict_sort (K : Keys) (v : List Nat) : ∀ (s s' : State), evict K s v = some s' → SortInv K s → SortInv K s' := by
  induction v with
  | nil => intro s s' he h; simp [evict] at he; rw [← he]; exact h
  | cons b r ih =>
    intro s s' he h
    simp only [evict, List.foldlM_cons] at he
    cases hb : s.pool.get? b with
    | none => simp [hb] at he
    | some t =>
      simp only [hb] at he
      by_cases hc : hasNoChildren K s t = true
      · simp only [hc, if_true, Option.bind_eq_bind, Option.bind_some] at he
        exact ih _ s' he (delOne_sort K s t 0 h)
      · simp [hc] at he

/-! ### MemInputs flag maintenance (mining.go mined / unmined) -/

theorem minedFlags_sort (K : Keys) (s : State) (t : T2S) : SortInv K s → SortInv K (minedFlags K s t) := by
  intro h
  unfold minedFlags
  refine foldl_inv (SortInv K) _ ?_ _ s h
  intro s v hs
  dsimp only
  repeat' split
  all_goals first
    | exact hs
    | exact SortInv.of_dirty rfl
    | exact SortInv.of_same (s := s) (SortSame.of_eq rfl rfl rfl rfl rfl) hs

theorem getD_replicate_false (n idx : Nat) : (List.replicate n false).getD idx false = false := by
  rw [List.getD_eq_getElem?_getD, List.getElem?_replicate]
  split <;> rfl

/-- storing the record that is already there -/
theorem set_same_get? (m : AList Nat T2S) (b : Nat) (r : T2S) (h : m.get? b = some r) (x : Nat) :
    (m.set b r).get? x = m.get? x := by
  by_cases hx : x = b
  · rw [hx, AList.get?_set_self, h]
  · rw [AList.get?_set_other _ _ _ _ hx]

theorem unminedFlags_sort (K : Keys) (s : State) (t : T2S) : SortInv K s → SortInv K (unminedFlags K s t) := by
  intro h
  unfold unminedFlags
  refine foldl_inv (SortInv K) _ ?_ _ s h
  intro s v hs
  dsimp only
  split
  · exact hs
  · split
    · exact hs
    · rename_i val _ r hr
      by_cases he : r.mem.isEmpty = true
      · rw [if_pos he]
        split
        · exact hs.same (SortSame.of_eq rfl rfl rfl rfl rfl)
        · rw [getD_replicate_false]
          split
          · rename_i hf; cases hf
          · exact SortInv.of_dirty rfl
      · rw [if_neg he]
        split
        · exact hs.same (SortSame.of_eq rfl rfl rfl rfl rfl)
        · split
          · have hrr : ({ r with mem := r.mem } : T2S) = r := rfl
            rw [hrr]
            exact hs.same ⟨set_same_get? s.pool _ r hr, rfl, rfl, rfl, rfl⟩
          · exact SortInv.of_dirty rfl

/-! ### txMined -/

theorem txMinedStep_sort (K : Keys) (b : Nat) (wasIn : Bool) (acc : Bool × State) (i : TxIn) :
    SortInv K acc.2 → SortInv K (txMinedStep K b wasIn acc i).2 := by
  intro h
  unfold txMinedStep
  dsimp only
  have h1 : SortInv K (if wasIn then acc.2 else
      match acc.2.spent.get? (K.uidx i.prev i.vout) with
      | none => acc.2
      | some val => match acc.2.pool.get? val with
        | some r => delWithChildren K 0 (acc.2.pool.length + 1) acc.2 r
        | none => { acc.2 with spent := acc.2.spent.del (K.uidx i.prev i.vout) }) := by
    split
    · exact h
    · split
      · exact h
      · split
        · exact delWithChildren_sort K 0 _ _ _ h
        · exact SortInv.of_same (s := acc.2) (SortSame.of_eq rfl rfl rfl rfl rfl) h
  generalize (if wasIn then acc.2 else
      match acc.2.spent.get? (K.uidx i.prev i.vout) with
      | none => acc.2
      | some val => match acc.2.pool.get? val with
        | some r => delWithChildren K 0 (acc.2.pool.length + 1) acc.2 r
        | none => { acc.2 with spent := acc.2.spent.del (K.uidx i.prev i.vout) }) = s1 at h1 ⊢
  split
  · exact h1
  · rename_i lst _
    have h2 := foldl_pair_inv (SortInv K) (fun (acc : Bool × State) rb =>
      match acc.2.rej.get? rb with
      | some txr => (acc.1 || rb = b, rejDelete K acc.2 txr)
      | none => (acc.1, acc.2)) (by
        intro a rb ha
        split
        · exact SortInv.of_same (rejDelete_same K _ _) ha
        · exact ha) lst (acc.1, s1) h1
    exact h2.same (SortSame.of_eq rfl rfl rfl rfl rfl)

theorem txMined_sort_aux (K : Keys) (t : Tx) (p : Bool × State) (hp : SortInv K p.2) :
    SortInv K (if (t.ins.foldl (txMinedStep K (K.bidx t.id) p.1) (false, p.2)).1 || p.1
      then (t.ins.foldl (txMinedStep K (K.bidx t.id) p.1) (false, p.2)).2
      else rejDeleteByIdx K (t.ins.foldl (txMinedStep K (K.bidx t.id) p.1) (false, p.2)).2 (K.bidx t.id)) := by
  have hq := foldl_pair_inv (SortInv K) (txMinedStep K (K.bidx t.id) p.1)
    (fun acc i => txMinedStep_sort K _ _ acc i) t.ins (false, p.2) hp
  split
  · exact hq
  · exact SortInv.of_same (rejDeleteByIdx_same K _ _) hq

theorem txMined_sort (K : Keys) (s : State) (t : Tx) : SortInv K s → SortInv K (txMined K s t) := by
  intro h
  rw [txMined_eq]
  unfold txMined'
  apply txMined_sort_aux
  split
  · exact delOne_sort K _ _ 0 (minedFlags_sort K s _ h)
  · exact h

theorem foldl_txMined_sort (K : Keys) : ∀ (l : List Tx) (s : State), SortInv K s → SortInv K (l.foldl (txMined K) s) :=
  foldl_inv (SortInv K) (txMined K) (fun s t hs => txMined_sort K s t hs)

/-! ### save + load, the chain side -/

theorem reload_sort (K : Keys) (s : State) : SortInv K (reload K s) := by
  rw [reload_eq]
  refine foldl_inv (SortInv K) _ ?_ _ _ (SortInv.of_dirty rfl)
  intro st slot hst
  unfold reloadRej
  split
  · exact hst
  · split
    · exact hst
    · exact SortInv.of_same (rejAdd_same K st _) hst

theorem connectUtxo_same (s : State) (h : Nat) (txs : List Tx) : SortSame s (connectUtxo s h txs) := by
  unfold connectUtxo
  split
  exact SortSame.of_eq rfl rfl rfl rfl rfl

theorem disconnectUtxo_same (s s' : State) (txs : List Tx) : disconnectUtxo s = some (s', txs) → SortSame s s' := by
  intro hd
  unfold disconnectUtxo at hd
  split at hd
  · cases hd
  · simp only [Option.some.injEq, Prod.mk.injEq] at hd
    obtain ⟨rfl, rfl⟩ := hd
    exact SortSame.of_eq rfl rfl rfl rfl rfl

end GocoinV.Mempool
