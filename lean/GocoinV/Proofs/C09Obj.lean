/-
  Proofs.C09Obj — the stateful `btc.Block` object (Model/WireBlockObj.lean): the pair (TxCount, TxOffset) always
  belongs to the current Raw (invariant over every history), hence BuildTxListExt on any reachable object is the
  pure decode of the current Raw. Core tactics only.
-/
import GocoinV.Model.WireBlockObj
import GocoinV.Proofs.C09
namespace GocoinV.Wire
open GocoinV GocoinV.CompactSize

theorem vlenWire_rest_obj {b r : Bytes} {v : Nat} (h : vlenWire b = some (v, r)) :
    b.drop (b.length - r.length) = r ∧ b.length - r.length = vlenSize v ∧ 1 ≤ b.length - r.length := by
  obtain ⟨hb, _, _⟩ := vlenWire_spec h
  have hl : b.length = (putULe v).length + r.length := by
    have := congrArg List.length hb
    simpa using this
  have hn : b.length - r.length = (putULe v).length := by omega
  refine ⟨?_, ?_, ?_⟩
  · rw [hn]
    conv => lhs; rw [hb]
    exact List.drop_left
  · rw [hn, putULe_length]
  · rw [hn, putULe_length]; exact vlenSize_pos v

/-- the (TxCount, TxOffset) pair is either "not parsed yet" or the count field of the CURRENT Raw -/
def BlockObj.Inv (s : BlockObj) : Prop :=
  80 ≤ s.raw.length ∧
  (s.txCount ≠ 0 → ∃ rest, vlenWire (s.raw.drop 80) = some (s.txCount, rest) ∧
      s.txOffset = 80 + ((s.raw.drop 80).length - rest.length))

theorem vlenWireGo_none {b : Bytes} (h : vlenWire b = none) : vlenWireGo b = (0, 0) := by
  simp [vlenWireGo, h]

theorem vlenWireGo_some {b r : Bytes} {v : Nat} (h : vlenWire b = some (v, r)) :
    vlenWireGo b = (v, b.length - r.length) := by
  simp [vlenWireGo, h]

theorem inv_update (d : Bytes) (s : BlockObj) (hs : s.Inv ∨ 80 ≤ d.length) : (updateContent d s).1.Inv := by
  unfold updateContent
  by_cases h80 : d.length < 80
  · simp only [h80, ↓reduceIte]
    rcases hs with hs | hs
    · exact hs
    · omega
  · simp only [h80, ↓reduceIte]
    by_cases hg : d.length > 80
    · simp only [hg, ↓reduceIte]
      cases hv : vlenWire (d.drop 80) with
      | none =>
        rw [vlenWireGo_none hv]
        simp only [↓reduceIte]
        exact ⟨by simp only []; omega, fun hc => absurd rfl hc⟩
      | some p =>
        obtain ⟨v, r⟩ := p
        rw [vlenWireGo_some hv]
        have h1 := (vlenWire_rest_obj hv).2.2
        have hne : ¬ ((d.drop 80).length - r.length = 0) := by omega
        simp only [hne, ↓reduceIte]
        refine ⟨by simp only []; omega, fun _ => ⟨r, hv, ?_⟩⟩
        simp only []
        omega
    · simp only [hg, ↓reduceIte]
      exact ⟨by simp only []; omega, fun hc => absurd rfl hc⟩

theorem inv_build (H : Bytes → Bytes) (b : Bool) (s : BlockObj) (hs : s.Inv) : (buildTxListExt H b s).1.Inv := by
  obtain ⟨hlen, hcnt⟩ := hs
  unfold buildTxListExt
  by_cases hp : s.txCount = 0
  · -- the count is parsed from Raw now
    cases hv : vlenWire (s.raw.drop 80) with
    | none =>
      simp only [hp, vlenWireGo_none hv, true_and, or_self, ↓reduceIte]
      exact ⟨hlen, fun hc => absurd rfl hc⟩
    | some p =>
      obtain ⟨v, r⟩ := p
      have hr := vlenWire_rest_obj hv
      simp only [hp, vlenWireGo_some hv, true_and, ↓reduceIte]
      by_cases hz : v = 0 ∨ (s.raw.drop 80).length - r.length = 0
      · simp only [hz, ↓reduceIte]
        refine ⟨hlen, fun hc => ?_⟩
        rcases hz with hz | hz
        · exact absurd hz hc
        · omega
      · simp only [hz, ↓reduceIte]
        have key : BlockObj.Inv { s with txCount := v, txOffset := (s.raw.drop 80).length - r.length + 80 } :=
          ⟨hlen, fun _ => ⟨r, hv, by simp only []; omega⟩⟩
        split
        · exact ⟨hlen, fun _ => ⟨r, hv, by simp only []; omega⟩⟩
        · exact ⟨hlen, fun _ => ⟨r, hv, by simp only []; omega⟩⟩
  · simp only [hp, false_and, ↓reduceIte]
    split
    · exact ⟨hlen, hcnt⟩
    · exact ⟨hlen, hcnt⟩

theorem inv_clean (s : BlockObj) (hs : s.Inv) : (clean s).1.Inv := by
  unfold clean
  split <;> exact hs

theorem inv_step (H : Bytes → Bytes) (op : Op) (hw : op.WF) (s : BlockObj) (hs : s.Inv) : (step H op s).1.Inv := by
  cases op with
  | update d => exact inv_update d s (Or.inl hs)
  | build b => exact inv_build H b s hs
  | clean => exact inv_clean s hs
  | discard r => exact ⟨hw, fun hc => absurd rfl hc⟩

theorem inv_run (H : Bytes → Bytes) : ∀ (ops : List Op), (∀ op ∈ ops, op.WF) → ∀ s : BlockObj, s.Inv → (run H ops s).Inv
  | [], _, _, hs => hs
  | op :: ops, hw, s, hs =>
    inv_run H ops (fun o ho => hw o (List.mem_cons_of_mem _ ho)) _
      (inv_step H op (hw op List.mem_cons_self) s hs)

/-! ### Raw follows the history -/

theorem raw_update (d : Bytes) (s : BlockObj) :
    (updateContent d s).1.raw = if d.length < 80 then s.raw else d := by
  unfold updateContent
  by_cases h : d.length < 80
  · simp [h]
  · simp only [h, ↓reduceIte]
    split
    · split <;> rfl
    · rfl

theorem raw_build (H : Bytes → Bytes) (b : Bool) (s : BlockObj) : (buildTxListExt H b s).1.raw = s.raw := by
  unfold buildTxListExt
  by_cases hp : s.txCount = 0
  · simp only [hp, true_and, ↓reduceIte]
    split
    · rfl
    · split <;> rfl
  · simp only [hp, false_and, ↓reduceIte]
    split <;> rfl

theorem raw_clean (s : BlockObj) : (clean s).1.raw = s.raw := by
  unfold clean
  split <;> rfl

theorem raw_run (H : Bytes → Bytes) : ∀ (ops : List Op) (s : BlockObj), (run H ops s).raw = currentRaw ops s.raw
  | [], _ => rfl
  | .update d :: ops, s => by
    show (run H ops (updateContent d s).1).raw = _
    rw [raw_run H ops, raw_update]; rfl
  | .build b :: ops, s => by
    show (run H ops (buildTxListExt H b s).1).raw = _
    rw [raw_run H ops, raw_build]; rfl
  | .clean :: ops, s => by
    show (run H ops (clean s).1).raw = _
    rw [raw_run H ops, raw_clean]; rfl
  | .discard r :: ops, s => by
    show (run H ops (discard r s).1).raw = _
    rw [raw_run H ops]; rfl

/-! ### BuildTxListExt on an object satisfying the invariant = pure decode of its Raw -/

def outcomeOf : Option BlockErr → Outcome
  | none => .ok
  | some .tooShort => .tooShort
  | some .badCount => .badCount
  | some .txFailed => .txFailed

theorem build_pure (H : Bytes → Bytes) (b : Bool) (s : BlockObj) (hs : s.Inv) :
    let r := decodeBlockExt H b s.raw
    let res := buildTxListExt H b s
    res.2 = outcomeOf r.err ∧ res.2 ≠ .panic ∧ res.2 ≠ .tooShort ∧
    (res.2 = .badCount → res.1.txCount = 0 ∧ res.1.txs = s.txs ∧ res.1.weight = s.weight) ∧
    (res.2 ≠ .badCount → res.1.txCount = r.txCount ∧ res.1.txOffset = 80 + vlenSize r.txCount ∧
        res.1.txs = some r.txs ∧ res.1.weight = r.weight) := by
  obtain ⟨hlen, hcnt⟩ := hs
  have h80 : ¬ s.raw.length < 80 := by omega
  have hl80 : (s.raw.drop 80).length = s.raw.length - 80 := by simp
  cases hv : vlenWire (s.raw.drop 80) with
  | none =>
    have hp : s.txCount = 0 := by
      apply Classical.byContradiction
      intro hp
      obtain ⟨r, hv', _⟩ := hcnt hp
      rw [hv] at hv'; cases hv'
    simp [decodeBlockExt, buildTxListExt, h80, hv, hp, vlenWireGo, outcomeOf]
  | some p =>
    obtain ⟨v, r⟩ := p
    obtain ⟨hd, hn, h1⟩ := vlenWire_rest_obj hv
    by_cases hz : v = 0
    · have hp : s.txCount = 0 := by
        apply Classical.byContradiction
        intro hp
        obtain ⟨r', hv', _⟩ := hcnt hp
        rw [hv] at hv'
        simp only [Option.some.injEq, Prod.mk.injEq] at hv'
        omega
      simp [decodeBlockExt, buildTxListExt, h80, hv, hp, hz, vlenWireGo, outcomeOf]
    · by_cases hp : s.txCount = 0
      · rw [hl80] at hd hn h1
        have hne : ¬ (s.raw.length - 80 - r.length = 0) := by omega
        have hle : ¬ (s.raw.length < s.raw.length - 80 - r.length + 80) := by omega
        have hdrop : s.raw.drop (s.raw.length - 80 - r.length + 80) = r := by
          rw [Nat.add_comm, ← List.drop_drop]; exact hd
        cases hq : (decodeTxs v r).2 <;>
          simp [decodeBlockExt, buildTxListExt, h80, hv, hp, hz, vlenWireGo, outcomeOf, hne, hle, hdrop, hq] <;> omega
      · obtain ⟨r', hv', ho⟩ := hcnt hp
        rw [hv] at hv'
        simp only [Option.some.injEq, Prod.mk.injEq] at hv'
        obtain ⟨hv1, hv2⟩ := hv'
        subst hv2
        have hle : ¬ (s.raw.length < s.txOffset) := by omega
        have hdrop : s.raw.drop s.txOffset = r := by
          rw [ho, ← List.drop_drop]; exact hd
        cases hq : (decodeTxs v r).2 <;>
          simp [decodeBlockExt, buildTxListExt, h80, hv, hp, hz, outcomeOf, hle, hdrop, hq, ← hv1] <;> omega

/-- with `dohash = true` the pure reference is `Wire.decodeBlock` (NewBlock + BuildTxList), the function
    `block_weight_spec`, `block_txids_spec`, `merkle_root_spec` are about -/
theorem decodeBlockExt_true (H : Bytes → Bytes) (raw : Bytes) :
    let r := decodeBlockExt H true raw
    let r' := decodeBlock H raw
    r.err = r'.err ∧ r.txCount = r'.txCount ∧ r.txs = r'.txs ∧ r.weight = r'.weight := by
  unfold decodeBlockExt decodeBlock
  by_cases h80 : raw.length < 80
  · simp [h80]
  · simp only [h80, ↓reduceIte]
    cases hv : vlenWire (raw.drop 80) with
    | none => simp
    | some p =>
      obtain ⟨v, r⟩ := p
      by_cases hz : v = 0
      · simp [hz]
      · simp only [hz, ↓reduceIte]
        cases hq : decodeTxs v r with
        | mk l ok => simp [mkBlockTxsExt, blockWeightOf]

theorem mkBlockTxs_proj (H : Bytes → Bytes) : ∀ (l : List (Decoded × Bytes)) (f : Bool),
    (mkBlockTxs H f l).map (fun t => (t.tx, t.raw, t.ids.size, t.ids.noWitSize)) =
    l.map (fun p => (p.1.tx, p.2, p.2.length % 2^32, p.1.noWitSize)) := by
  intro l
  induction l with
  | nil => intro f; simp [mkBlockTxs]
  | cons p l ih =>
    intro f
    obtain ⟨d, raw⟩ := p
    simp only [mkBlockTxs, List.map_cons, ih false, List.cons.injEq, and_true]
    unfold blockTxIds
    split <;> simp

theorem blockWeightOf_congr (cnt : Nat) (a b : List BlockTx)
    (h : a.map (fun t => (t.tx, t.raw, t.ids.size, t.ids.noWitSize)) = b.map (fun t => (t.tx, t.raw, t.ids.size, t.ids.noWitSize))) :
    blockWeightOf cnt a = blockWeightOf cnt b := by
  have e : ∀ l : List BlockTx, l.map (fun t => (3 * t.ids.noWitSize + t.ids.size) % 2^32) =
      (l.map (fun t => (t.tx, t.raw, t.ids.size, t.ids.noWitSize))).map (fun q => (3 * q.2.2.2 + q.2.2.1) % 2^32) := by
    intro l; simp [List.map_map]
  unfold blockWeightOf
  rw [e a, e b, h]

/-- `BuildTxListExt(false)` builds the same transactions with the same sizes and the same BlockWeight; only the
    ids stay zero -/
theorem decodeBlockExt_false (H : Bytes → Bytes) (raw : Bytes) :
    let r := decodeBlockExt H false raw
    let r' := decodeBlockExt H true raw
    r.err = r'.err ∧ r.txCount = r'.txCount ∧ r.weight = r'.weight ∧
    r.txs.map (fun t => (t.tx, t.raw, t.ids.size, t.ids.noWitSize)) =
      r'.txs.map (fun t => (t.tx, t.raw, t.ids.size, t.ids.noWitSize)) ∧
    ∀ t ∈ r.txs, t.ids.hash = List.replicate 32 0 := by
  unfold decodeBlockExt
  by_cases h80 : raw.length < 80
  · simp [h80]
  · simp only [h80, ↓reduceIte]
    cases hv : vlenWire (raw.drop 80) with
    | none => simp
    | some p =>
      obtain ⟨v, r⟩ := p
      by_cases hz : v = 0
      · simp [hz]
      · simp only [hz, ↓reduceIte]
        have hm : (mkBlockTxsExt H false (decodeTxs v r).1).map (fun t => (t.tx, t.raw, t.ids.size, t.ids.noWitSize)) =
            (mkBlockTxsExt H true (decodeTxs v r).1).map (fun t => (t.tx, t.raw, t.ids.size, t.ids.noWitSize)) := by
          simp only [mkBlockTxsExt, ↓reduceIte, Bool.false_eq_true, mkBlockTxs_proj]
          simp [List.map_map, blockTxIdsNoHash, Function.comp_def]
        refine ⟨trivial, trivial, blockWeightOf_congr v _ _ hm, hm, ?_⟩
        intro t ht
        simp only [mkBlockTxsExt, Bool.false_eq_true, ↓reduceIte, List.mem_map] at ht
        obtain ⟨p, _, rfl⟩ := ht
        rfl

end GocoinV.Wire
