/-
  Proofs.C05Sort — helper lemmas for C05: insertion sort is a sorted permutation; order statistics of a sorted list.
-/
import GocoinV.Model.Retarget
open GocoinV GocoinV.Retarget

namespace GocoinV.Proofs.C05

theorem insertSorted_perm (x : Nat) (l : List Nat) : (insertSorted x l).Perm (x :: l) := by
  induction l with
  | nil => simp [insertSorted]
  | cons y ys ih =>
    simp only [insertSorted]
    split
    · exact List.Perm.refl _
    · exact (List.Perm.cons y ih).trans (List.Perm.swap x y ys)

theorem isort_perm (l : List Nat) : (isort l).Perm l := by
  induction l with
  | nil => simp [isort]
  | cons x xs ih => exact (insertSorted_perm x (isort xs)).trans (List.Perm.cons x ih)

theorem insertSorted_sorted (x : Nat) (l : List Nat) (h : l.Pairwise (· ≤ ·)) :
    (insertSorted x l).Pairwise (· ≤ ·) := by
  induction l with
  | nil => simp [insertSorted]
  | cons y ys ih =>
    simp only [insertSorted]
    rw [List.pairwise_cons] at h
    split
    · rename_i hxy
      rw [List.pairwise_cons]
      refine ⟨?_, List.pairwise_cons.mpr h⟩
      intro a ha
      rcases List.mem_cons.mp ha with rfl | ha
      · exact hxy
      · exact Nat.le_trans hxy (h.1 a ha)
    · rename_i hxy
      rw [List.pairwise_cons]
      refine ⟨?_, ih h.2⟩
      intro a ha
      have := (insertSorted_perm x ys).mem_iff.mp ha
      rcases List.mem_cons.mp this with rfl | ha
      · omega
      · exact h.1 a ha

theorem isort_sorted (l : List Nat) : (isort l).Pairwise (· ≤ ·) := by
  induction l with
  | nil => simp [isort]
  | cons x xs ih => exact insertSorted_sorted x _ ih

theorem sorted_getElem_le (s : List Nat) (hs : s.Pairwise (· ≤ ·)) (i j : Nat) (hij : i ≤ j) (hj : j < s.length) :
    s[i]'(by omega) ≤ s[j] := by
  rcases Nat.lt_or_eq_of_le hij with h | h
  · exact (List.pairwise_iff_getElem.mp hs) i j (by omega) hj h
  · subst h; exact Nat.le_refl _

theorem sorted_count_lt (s : List Nat) (hs : s.Pairwise (· ≤ ·)) (k : Nat) (hk : k < s.length) :
    s.countP (· < s[k]) ≤ k := by
  have h1 : s = s.take k ++ s.drop k := (List.take_append_drop k s).symm
  have h0 : (s.drop k).countP (· < s[k]) = 0 := by
    rw [List.countP_eq_zero]
    intro a ha
    obtain ⟨i, hi, rfl⟩ := List.mem_drop_iff_getElem.mp ha
    have := sorted_getElem_le s hs k (k+i) (by omega) (by omega)
    simp; omega
  calc s.countP (· < s[k]) = (s.take k ++ s.drop k).countP (· < s[k]) := by rw [← h1]
    _ = (s.take k).countP (· < s[k]) + (s.drop k).countP (· < s[k]) := List.countP_append ..
    _ ≤ (s.take k).length + 0 := by rw [h0]; exact Nat.add_le_add_right (List.countP_le_length) 0
    _ ≤ k := by simp; omega

theorem sorted_count_le (s : List Nat) (hs : s.Pairwise (· ≤ ·)) (k : Nat) (hk : k < s.length) :
    k + 1 ≤ s.countP (· ≤ s[k]) := by
  have h1 : s = s.take (k+1) ++ s.drop (k+1) := (List.take_append_drop (k+1) s).symm
  have h0 : (s.take (k+1)).countP (· ≤ s[k]) = (s.take (k+1)).length := by
    rw [List.countP_eq_length]
    intro a ha
    obtain ⟨i, hi, rfl⟩ := List.mem_take_iff_getElem.mp ha
    have := sorted_getElem_le s hs i k (by omega) hk
    simpa using this
  calc k + 1 = (s.take (k+1)).length := by simp; omega
    _ = (s.take (k+1)).countP (· ≤ s[k]) := h0.symm
    _ ≤ (s.take (k+1)).countP (· ≤ s[k]) + (s.drop (k+1)).countP (· ≤ s[k]) := Nat.le_add_right ..
    _ = (s.take (k+1) ++ s.drop (k+1)).countP (· ≤ s[k]) := (List.countP_append ..).symm
    _ = s.countP (· ≤ s[k]) := by rw [← h1]

/-- the value picked by `GetMedianTimePast` is an order statistic of the collected timestamps -/
theorem median_spec (l : List Nat) (m : Nat) (h : (isort l)[l.length / 2]? = some m) :
    m ∈ l ∧ l.countP (· < m) ≤ l.length / 2 ∧ l.length / 2 < l.countP (· ≤ m) := by
  have hp := isort_perm l
  have hs := isort_sorted l
  obtain ⟨hk, hm⟩ := List.getElem?_eq_some_iff.mp h
  subst hm
  refine ⟨hp.mem_iff.mp (List.getElem_mem hk), ?_, ?_⟩
  · rw [← hp.countP_eq]
    exact sorted_count_lt _ hs _ hk
  · rw [← hp.countP_eq]
    exact sorted_count_le _ hs _ hk

end GocoinV.Proofs.C05
