/-
  Proofs.C06Replay — the unspent map as a partial function: `commitTxs`, `commit`, `undoBlock` depend on the map only
  through `DB.get` (congruence w.r.t. `DBEq`), `commitTxs` with the trusted flag, and the DB-level undo step.
-/
import GocoinV.Spec.ChainReplay
import GocoinV.Proofs.C06Commit
namespace GocoinV.UtxoOps



theorem DBEq.refl (u : DB) : DBEq u u := fun _ => rfl
theorem DBEq.symm {u u' : DB} (h : DBEq u u') : DBEq u' u := fun k => (h k).symm
theorem DBEq.trans {a b c : DB} (h1 : DBEq a b) (h2 : DBEq b c) : DBEq a c := fun k => (h1 k).trans (h2 k)

theorem unspentGet_congr {u u' : DB} (h : DBEq u u') (t v : Nat) : unspentGet u t v = unspentGet u' t v := by
  unfold unspentGet; rw [h t]

theorem procInput_congr {u u' : DB} (h : DBEq u u') (ht : Nat) (st : CState) (i : TxIn) :
    procInput u ht st i = procInput u' ht st i := by
  unfold procInput
  simp only [unspentGet_congr h]

theorem procInputs_congr {u u' : DB} (h : DBEq u u') (ht : Nat) (st : CState) (is : List TxIn) :
    procInputs u ht st is = procInputs u' ht st is := by
  induction is generalizing st with
  | nil => rfl
  | cons i is ih =>
    simp only [procInputs, procInput_congr h, ih]

theorem procTxs_congr {u u' : DB} (h : DBEq u u') (ht : Nat) (first : Bool) (st : CState) (txs : List Tx) :
    procTxs u ht first st txs = procTxs u' ht first st txs := by
  induction txs generalizing st first with
  | nil => rfl
  | cons t ts ih =>
    simp only [procTxs, procInputs_congr h, ih]

theorem commitTxs_congr {u u' : DB} (h : DBEq u u') (ht rwd : Nat) (tr : Bool) (txs : List Tx) :
    commitTxs u ht rwd tr txs = commitTxs u' ht rwd tr txs := by
  unfold commitTxs
  simp only [procTxs_congr h]

theorem foldl_congr {α} (step : DB → α → DB)
    (hstep : ∀ d d' x, DBEq d d' → DBEq (step d x) (step d' x)) (l : List α) (d d' : DB) (h : DBEq d d') :
    DBEq (l.foldl step d) (l.foldl step d') := by
  induction l generalizing d d' with
  | nil => exact h
  | cons x xs ih => exact ih _ _ (hstep d d' x h)

theorem del_congr (d d' : DB) (p : Nat × List Bool) (h : DBEq d d') : DBEq (d.del p.1 p.2) (d'.del p.1 p.2) := by
  intro k; rw [get_del, get_del, h p.1, h k]

theorem put_congr (d d' : DB) (r : Rec) (h : DBEq d d') : DBEq (d.put r) (d'.put r) := by
  intro k; rw [get_put, get_put, h k]

theorem erase_congr (d d' : DB) (t : Nat) (h : DBEq d d') : DBEq (d.erase t) (d'.erase t) := by
  intro k; rw [get_erase, get_erase, h k]

theorem undoOne_congr (d d' : DB) (r : Rec) (h : DBEq d d') : DBEq (undoOne d r) (undoOne d' r) := by
  intro k; rw [get_undoOne, get_undoOne, h k, h r.txid]

theorem commit_congr {u u' : DB} (h : DBEq u u') (ch : Changes) : DBEq (commit u ch) (commit u' ch) := by
  unfold commit
  exact foldl_congr DB.put put_congr _ _ _ (foldl_congr (fun (d : DB) (p : Nat × List Bool) => d.del p.1 p.2) del_congr _ _ _ h)

theorem undoBlock_congr {u u' : DB} (h : DBEq u u') (txids : List Nat) (undo : List Rec) :
    DBEq (undoBlock u txids undo) (undoBlock u' txids undo) := by
  unfold undoBlock
  exact foldl_congr undoOne undoOne_congr _ _ _ (foldl_congr DB.erase erase_congr _ _ _ h)

theorem commitTxs_trusted {u : DB} {ht rwd : Nat} {tr : Bool} {txs : List Tx} {ch : Changes}
    (h : commitTxs u ht rwd tr txs = .ok ch) : commitTxs u ht rwd true txs = .ok ch := by
  unfold commitTxs at h ⊢
  simp only [bind, Except.bind, pure, Except.pure, throw, throwThe, MonadExceptOf.throw] at h ⊢
  split at h
  · cases h
  · rename_i hne
    rw [if_neg hne]
    cases hx : procTxs u ht true {} txs with
    | error e => rw [hx] at h; cases h
    | ok x =>
      rw [hx] at h
      simp only at h ⊢
      split at h
      · cases h
      · simpa using h


/-- DB-level undo step: a map that agrees with `commit u ch` (ch = what `commitTxs` computed on `u` for a block whose
    txids are not in `u`), undone with `ch.undo`, agrees with `u` -/
theorem undo_step {cu u : DB} {h rwd : Nat} {tr : Bool} {txs : List Tx} {ch : Changes}
    (heq : DBEq cu (commit u ch)) (hct : commitTxs u h rwd tr txs = .ok ch)
    (hfresh : ∀ t ∈ txs.map (·.txid), u.get t = none) :
    DBEq (undoBlock cu (txs.map (·.txid)) ch.undo) u := by
  intro k
  rw [undoBlock_congr heq (txs.map (·.txid)) ch.undo k]
  exact undo_commit_get u _ ch (commitTxs_validChanges u h rwd tr txs ch hct hfresh) k

end GocoinV.UtxoOps
