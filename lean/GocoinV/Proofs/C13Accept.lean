import GocoinV.Proofs.C13Sig
import GocoinV.Proofs.C13Script
namespace GocoinV.WalletTx
open GocoinV.WalletSpec GocoinV.ScriptSpec GocoinV.Proofs.C13S
open GocoinV.Script (Oracles TxCtx SigVersion)

/-- what script verification reads from the spending transaction for input `i` -/
def txCtxOf (t : Tx) (i : Nat) : TxCtx :=
  { version := t.version, lockTime := t.lockTime, sequence := ((t.ins[i]?).map (·.sequence)).getD 0, idx := i,
    nOuts := t.outs.length, sigScript := ((t.ins[i]?).map (·.scriptSig)).getD [],
    witness := (t.wit.getD []).getD i [] }

theorem p2pkh_eq (h : Bytes) : p2pkhScript h = pkhScript h := by simp [p2pkhScript, pkhScript]
theorem p2wpkh_eq (h : Bytes) : p2wpkhScript h = wpkhScript h := rfl
theorem p2tr_eq (q : Bytes) : p2trScript q = trScript q := rfl
theorem p2sh_eq (sh : Bytes) : p2shScript sh = shScript sh := by simp [p2shScript, shScript]
theorem push1_eq (b : Bytes) : push1 b = dpush b := rfl


/-- what the signer has to deliver for input `i` of `t` (whichever key index `j` the wallet looks up) — ONLY the one
    request the type of the spent script needs (told apart by its length: 25 = P2PKH, 22 = P2WPKH, 23 = P2SH, 34 = P2TR):
    a good ECDSA signature for the legacy request (P2PKH) resp. the BIP143 request (P2WPKH, P2SH-P2WPKH), a good 64-byte
    Schnorr signature for the taproot one (P2TR) -/
structure SignerOk (O : Oracles) (ks : List KeyRec) (sg : SigFn) (i : Nat) (uo : TxOut) : Prop where
  legacy : ∀ j krj, ks[j]? = some krj → uo.script.length = 25 →
    GoodSig O .base uo.script (sg i (.legacy j uo.script) ++ [1]) krj.pub ∧
    sg i (.legacy j uo.script) ++ [1] ≠ krj.h160
  witv0 : ∀ j krj, ks[j]? = some krj → uo.script.length = 22 ∨ uo.script.length = 23 →
    GoodSig O .witnessV0 (p2pkhScript krj.h160) (sg i (.witv0 j (p2pkhScript krj.h160) uo.value) ++ [1]) krj.pub
  taproot : ∀ j krj, ks[j]? = some krj → uo.script.length = 34 → (sg i (.taproot j)).length = 64 ∧
    ∃ d, O.sigHashTap none [] 0 0 false = some d ∧ O.schnorrVerify ((krj.pub.drop 1).take 32) (sg i (.taproot j)) d = some true

theorem accept_aux (H : Addr.Hashes) (O : Oracles) (f : Flags) (q : Quirks) (c : Cfg) (pubs : List Bytes) (ms : MsFn)
    (sig : Skeleton → SigFn) (t : Tx) (spent : List TxOut) (i : Nat) (inp : TxIn) (uo : TxOut)
    (hf : FlagsOk f)
    (hash_same : O.hash160 = H.hash160) (hash_len : ∀ b, (H.hash160 b).length = 20)
    (pub_len : ∀ p ∈ pubs, p.length = 33)
    (nonzero : ∀ (k : Nat) (kr : KeyRec), (keyTable H c.bech32 pubs)[k]? = some kr →
      castToBool kr.h160 = true ∧ castToBool ((kr.pub.drop 1).take 32) = true)
    (hsigner : SignerOk O (keyTable H c.bech32 pubs) (sig (skeleton t)) i uo)
    (hwit : t.wit = none) (hin : t.ins[i]? = some inp) (hsp : spent[i]? = some uo) (hms : ms i = none)
    (hown : OwnScript c (keyTable H c.bech32 pubs) uo.script)
    (haddr : (Addr.fromPkScript H uo.script c.testnet).isSome)
    (hss : inp.scriptSig = [] ∨ uo.script.length = 25 ∨ uo.script.length = 23) :
    verifyScript O (txCtxOf (signTx H c (keyTable H c.bech32 pubs) sig ms t (spent.map some)).1 i) uo.script f q = .ok () := by
  obtain ⟨h1, h2, h3⟩ := signed_at H c (keyTable H c.bech32 pubs) sig ms t spent i inp uo hwit hin hsp hms
  have keyfacts : ∀ (k : Nat) (kr : KeyRec), (keyTable H c.bech32 pubs)[k]? = some kr →
      kr.pub.length = 33 ∧ kr.h160 = H.hash160 kr.pub ∧ kr.h160.length = 20 ∧ (c.bech32 = false → kr.segH160.length = 20) ∧
      (c.bech32 = false → kr.segH160 = H.hash160 ([0, 20] ++ kr.h160)) := by
    intro k kr hk
    obtain ⟨p, hp, rfl⟩ := keyTable_getElem? H c.bech32 pubs k kr hk
    have hp33 : p.length = 33 := pub_len p (List.mem_of_getElem? hp)
    refine ⟨hp33, rfl, hash_len _, ?_, ?_⟩
    · intro hb; rw [mkKey_seg_of_33 H _ p hp33]; simp [hb, hash_len]
    · intro hb; rw [mkKey_seg_of_33 H _ p hp33]; simp [mkKey, hb]
  obtain ⟨hL, hW, hT⟩ := hsigner
  generalize hT' : (signTx H c (keyTable H c.bech32 pubs) sig ms t (spent.map some)).1 = t' at h1 h2 h3
  have hctxS : (txCtxOf t' i).sigScript = (signInput H c (keyTable H c.bech32 pubs) (sig (skeleton t)) i (some uo)).scriptSig.getD inp.scriptSig := by
    simp [txCtxOf, h1]
  have hctxW : (txCtxOf t' i).witness = (signInput H c (keyTable H c.bech32 pubs) (sig (skeleton t)) i (some uo)).witness.getD [] := h2
  obtain ⟨val, scr⟩ := uo
  simp only at hown haddr hss hL hW hT ⊢
  cases hown with
  | p2pkh k kr hk =>
    obtain ⟨_, _, hl, _, _⟩ := keyfacts k kr hk
    obtain ⟨j, krj, hj, hje, hsi⟩ := signInput_p2pkh H c _ (sig (skeleton t)) i k kr val hk hl
    obtain ⟨hjl, hjh, _, _, _⟩ := keyfacts j krj hj
    obtain ⟨g, gne⟩ := hL j krj hj (by simp [p2pkhScript, hl])
    rw [hsi] at hctxS hctxW
    generalize sig (skeleton t) i (.legacy j (p2pkhScript kr.h160)) = S at g gne hctxS
    show verifyScript O _ (pkhScript kr.h160) f q = _
    exact verifyScript_p2pkh O _ f q kr.h160 _ krj.pub hf hl hctxS (by simpa using hctxW)
      (by omega) (by omega) (by rw [hash_same, ← hjh, hje]) (fun e => gne (e.trans hje.symm)) g
  | p2wpkh k kr hk =>
    obtain ⟨_, _, hl, _, _⟩ := keyfacts k kr hk
    obtain ⟨adr, ha⟩ := Option.isSome_iff_exists.mp haddr
    obtain ⟨j, krj, hj, hje, hsi⟩ := signInput_p2wpkh H c _ (sig (skeleton t)) i k kr val hk hl adr ha
    obtain ⟨hjl, hjh, _, _, _⟩ := keyfacts j krj hj
    have g := hW j krj hj (Or.inl (by simp [p2wpkhScript, hl]))
    have hs : inp.scriptSig = [] := by
      rcases hss with h | h | h
      · exact h
      · simp [p2wpkhScript, hl] at h
      · simp [p2wpkhScript, hl] at h
    rw [hsi] at hctxS hctxW
    generalize sig (skeleton t) i (.witv0 j (p2pkhScript krj.h160) val) = S at g hctxW
    have g' : GoodSig O .witnessV0 (pkhScript krj.h160) (S ++ [1]) krj.pub := g
    rw [hje] at g'
    show verifyScript O _ (wpkhScript kr.h160) f q = _
    exact verifyScript_p2wpkh O _ f q kr.h160 _ krj.pub hf hl (by simpa [hs] using hctxS) (by simpa using hctxW)
      (by omega) (by rw [hash_same, ← hjh, hje]) (nonzero k kr hk).1 g'
  | p2sh k kr hk hb =>
    obtain ⟨_, _, _, hl', _⟩ := keyfacts k kr hk
    have hl := hl' hb
    obtain ⟨j, krj, hj, hje, hsi⟩ := signInput_p2sh H c _ (sig (skeleton t)) i k kr val hk hl hb
    obtain ⟨hjl, hjh, hjl20, _, hjs⟩ := keyfacts j krj hj
    have g := hW j krj hj (Or.inr (by simp [p2shScript, hl]))
    rw [hsi] at hctxS hctxW
    generalize sig (skeleton t) i (.witv0 j (p2pkhScript krj.h160) val) = S at g hctxW
    have g' : GoodSig O .witnessV0 (pkhScript krj.h160) (S ++ [1]) krj.pub := g
    show verifyScript O _ (shScript kr.segH160) f q = _
    have hss' : (txCtxOf t' i).sigScript = dpush (wpkhScript krj.h160) := by
      rw [hctxS]; simp [dpush, wpkhScript, hjl20]
    exact verifyScript_p2sh_p2wpkh O _ f q kr.segH160 krj.h160 _ krj.pub hf hjl20 hl hss' (by simpa using hctxW)
      (by omega) (by rw [hash_same, ← hjh]) (by rw [hash_same, ← hje, hjs hb]; rfl) (nonzero j krj hj).1 g'
  | p2tr k kr hk =>
    obtain ⟨hpl, _, _, _, _⟩ := keyfacts k kr hk
    have hl : ((kr.pub.drop 1).take 32).length = 32 := by simp; omega
    obtain ⟨adr, ha⟩ := Option.isSome_iff_exists.mp haddr
    obtain ⟨j, krj, hj1, hj, hje⟩ := lookup_xo (keyTable H c.bech32 pubs) k kr hk
    obtain ⟨h64, d, hd, hv⟩ := hT j krj hj (by simp [p2trScript]; omega)
    have hsi : signInput H c (keyTable H c.bech32 pubs) (sig (skeleton t)) i
        (some { value := val, script := p2trScript ((kr.pub.drop 1).take 32) }) =
        { scriptSig := none, witness := some [sig (skeleton t) i (.taproot j)], signed := true } := by
      unfold signInput
      simp only [ha, isWitnessProgram_p2tr _ hl, hl, hj1]
      simp [h64]
    have hs : inp.scriptSig = [] := by
      rcases hss with h | h | h
      · exact h
      · simp [p2trScript] at h; omega
      · simp [p2trScript] at h; omega
    rw [hsi] at hctxS hctxW
    show verifyScript O _ (trScript ((kr.pub.drop 1).take 32)) f q = _
    rw [hje] at hv
    exact verifyScript_p2tr O _ f q _ _ d hf hl (by simpa [hs] using hctxS) (by simpa using hctxW) h64
      (nonzero k kr hk).2 hd hv

end GocoinV.WalletTx
