/-
  Proofs.C01NoPanic — where a Go panic can escape script verification. `NP r` = "r is not a panic".
  evalScript has a recover (NP by construction); VerifyWitnessProgram / ExecuteWitnessScript / CheckSchnorrSignature /
  VerifyTaprootCommitment have no panicking statement that is reachable; VerifyTxScript has three candidates:
  `stack.pop()` of the P2SH branch (shown unreachable with an empty stack) and the two explicit
  `panic("VER_CLEANSTACK without VER_P2SH")` / `panic("VER_WITNESS must be used with P2SH")` (excluded by FlagsOk).
-/
import GocoinV.Proofs.C01Ops
namespace GocoinV.Proofs.C01
open GocoinV GocoinV.Script

def NP {α : Type} (r : Res α) : Prop := r ≠ .panic
theorem NP_ok {α} (a : α) : NP (Res.ok a) := by simp [NP]
theorem NP_pure {α} (a : α) : NP (pure a : Res α) := by simp [NP]
theorem NP_fail {α} : NP (Res.fail : Res α) := by simp [NP]
theorem NP_need {α} (q) : NP (Res.need q : Res α) := by simp [NP]
theorem NP_ask {α} (q) (o : Option α) : NP (Res.ask q o) := by cases o <;> simp [NP, Res.ask]
theorem NP_bind {α β} (x : Res α) (f : α → Res β) (hx : NP x) (hf : ∀ a, x = .ok a → NP (f a)) : NP (x >>= f) := by
  cases x with
  | ok a => simpa using hf a rfl
  | fail => simp [NP]
  | panic => exact absurd rfl hx
  | need q => simp [NP]

theorem NP_evalScript (O : Oracles) (tx : TxCtx) (flags : Nat) (p : Bytes) (stack : Stack) (sv : SigVersion) (ed : ExecData) :
    NP (evalScript O tx flags p stack sv ed) := by
  unfold NP evalScript
  split
  · simp
  · generalize (do
      let c : Ctx := ⟨O, tx, flags, sv, p⟩
      let st ← evalLoop c p.length p 0 { stack := stack, ed := { ed with codesepPos := 0xFFFFFFFF } }
      if st.exe.length > 0 then Res.fail else pure st.stack : Res Stack) = r
    cases r <;> simp [recoverPanic]

theorem NP_checkSchnorr (O : Oracles) (sig pk : Bytes) (sv : SigVersion) (ed : ExecData) :
    NP (checkSchnorrSignature O sig pk sv ed) := by
  unfold checkSchnorrSignature
  split
  · exact NP_ok _
  · split
    · exact NP_ok _
    · apply NP_bind _ _ (NP_ask _ _)
      intro a _
      split
      · exact NP_pure _
      · exact NP_ask _ _

theorem NP_executeWitnessScript (O : Oracles) (tx : TxCtx) (stack : Stack) (script : Bytes) (flags : Nat) (sv : SigVersion)
    (ed : ExecData) : NP (executeWitnessScript O tx stack script flags sv ed) := by
  unfold executeWitnessScript
  dsimp only
  split
  · rename_i r hr
    split at hr
    · split at hr
      · cases hr; exact NP_fail
      · split at hr <;> cases hr
        · exact NP_fail
        · exact NP_ok _
      · split at hr <;> cases hr
        exact NP_fail
    · cases hr
  · split
    · exact NP_fail
    · apply NP_bind _ _ (NP_evalScript O tx flags script stack sv ed)
      intro a _
      split
      · split
        · exact NP_pure _
        · exact NP_fail
      · exact NP_fail

theorem NP_verifyTaprootCommitment (O : Oracles) (control program script : Bytes) :
    NP (verifyTaprootCommitment O control program script) := by
  unfold verifyTaprootCommitment
  dsimp only
  apply NP_bind _ _ (NP_ask _ _)
  intro a _
  exact NP_pure _

theorem NP_verifyWitnessProgram (O : Oracles) (tx : TxCtx) (witness : List Bytes) (ver : Nat) (prog : Bytes) (flags : Nat)
    (isP2sh : Bool) : NP (verifyWitnessProgram O tx witness ver prog flags isP2sh) := by
  unfold verifyWitnessProgram
  dsimp only
  split
  · split
    · split
      · exact NP_fail
      · split
        · exact NP_fail
        · exact NP_executeWitnessScript _ _ _ _ _ _ _
    · split
      · split
        · exact NP_fail
        · exact NP_executeWitnessScript _ _ _ _ _ _ _
      · exact NP_fail
  · split
    · split
      · exact NP_ok _
      · split
        · exact NP_fail
        · rename_i hlen
          cases hw : witness.reverse with
          | nil => simp [hw] at hlen
          | cons dat rest =>
            simp only
            by_cases hc : ((dat :: rest).length ≥ 2 && decide (dat.length > 0) && at' dat 0 == ANNEX_TAG) = true
            · simp only [hc, ↓reduceIte]
              cases rest with
              | nil => simp at hc
              | cons x r =>
                cases r with
                | nil =>
                  simp only
                  apply NP_bind _ _ (NP_checkSchnorr _ _ _ _ _)
                  intro a _
                  split
                  · exact NP_pure _
                  · exact NP_fail
                | cons y r2 =>
                  simp only
                  split
                  · exact NP_fail
                  · apply NP_bind _ _ (NP_verifyTaprootCommitment _ _ _ _)
                    intro a _
                    split
                    · exact NP_fail
                    · split
                      · exact NP_executeWitnessScript _ _ _ _ _ _ _
                      · split
                        · exact NP_fail
                        · exact NP_pure _
            · simp only [hc, Bool.false_eq_true, ↓reduceIte]
              cases rest with
              | nil =>
                simp only
                apply NP_bind _ _ (NP_checkSchnorr _ _ _ _ _)
                intro a _
                split
                · exact NP_pure _
                · exact NP_fail
              | cons y r2 =>
                simp only
                split
                · exact NP_fail
                · apply NP_bind _ _ (NP_verifyTaprootCommitment _ _ _ _)
                  intro a _
                  split
                  · exact NP_fail
                  · split
                    · exact NP_executeWitnessScript _ _ _ _ _ _ _
                    · split
                      · exact NP_fail
                      · exact NP_pure _
    · split
      · exact NP_fail
      · exact NP_ok _
/-- a P2SH scriptPubKey (HASH160 <20 bytes> EQUAL) evaluated on the EMPTY stack returns false — so the
    `stack.pop()` of VerifyTxScript's P2SH branch (outside any recover) is never reached with an empty stackCopy -/
theorem p2sh_on_empty_stack_fails (O : Oracles) (tx : TxCtx) (flags : Nat) (pk : Bytes) (ed : ExecData)
    (h : isPayToScript pk = true) : evalScript O tx flags pk [] .base ed = .fail := by
  unfold isPayToScript at h
  simp only [Bool.and_eq_true, beq_iff_eq] at h
  obtain ⟨⟨⟨hlen, h0⟩, _⟩, _⟩ := h
  match pk, hlen, h0 with
  | c :: t, hlen, h0 =>
    simp only [List.getD_cons_zero] at h0
    subst h0
    have hl : t.length = 22 := by simpa using hlen
    unfold evalScript
    have : ¬ ((0xa9 :: t : Bytes).length > MAX_SCRIPT_SIZE) := by simp [hl, MAX_SCRIPT_SIZE]
    simp only [this, decide_false, Bool.and_false, Bool.false_eq_true, ↓reduceIte]
    have hfuel : (0xa9 :: t : Bytes).length = 22 + 1 := by simp [hl]
    rw [hfuel]
    simp only [evalLoop, List.isEmpty_cons, Bool.false_eq_true, ↓reduceIte]
    have hg : getOpcode (0xa9 :: t) = some ⟨0xa9, none, 1⟩ := by
      simp [getOpcode]
    rw [hg]
    simp [stepAt, isDisabled, execOp, hashOp, isBinArith, MAX_SCRIPT_ELEMENT_SIZE, MAX_OPS, recoverPanic, bind, Res.bind]

theorem flag_p2sh (f : Nat) : has f VER_P2SH = (ScriptSpec.Flags.ofMask f).p2sh := by
  unfold VER_P2SH; rw [has_testBit]; rfl
theorem flag_cleanstack (f : Nat) : has f VER_CLEANSTACK = (ScriptSpec.Flags.ofMask f).cleanstack := by
  unfold VER_CLEANSTACK; rw [has_testBit]; rfl
theorem flag_witness (f : Nat) : has f VER_WITNESS = (ScriptSpec.Flags.ofMask f).witness := by
  unfold VER_WITNESS; rw [has_testBit]; rfl

theorem NP_resize1 (t : Bytes) (r : Stack) : NP (resize1 (t :: r)) := by
  unfold resize1
  cases h : (t :: r).getLast? with
  | none => simp at h
  | some b => exact NP_ok _

theorem NP_verifyTxScript (O : Oracles) (tx : TxCtx) (pk : Bytes) (flags : Nat)
    (hf : ScriptSpec.FlagsOk (ScriptSpec.Flags.ofMask flags)) : NP (verifyTxScript O tx pk flags) := by
  obtain ⟨hw, hc, _⟩ := hf
  rw [← flag_witness, ← flag_p2sh] at hw
  rw [← flag_cleanstack, ← flag_p2sh, ← flag_witness] at hc
  unfold verifyTxScript
  dsimp only
  split
  · exact NP_fail
  · apply NP_bind _ _ (NP_evalScript _ _ _ _ _ _ _)
    intro stack1 hs1
    apply NP_bind _ _ (NP_evalScript _ _ _ _ _ _ _)
    intro stack2 hs2
    split
    · exact NP_fail
    · rename_i t rest
      split
      · exact NP_fail
      · apply NP_bind
        · -- bare witness block
          split
          · split
            · split
              · exact NP_fail
              · apply NP_bind _ _ (NP_verifyWitnessProgram _ _ _ _ _ _ _)
                intro _ _
                apply NP_bind _ _ (NP_resize1 _ _)
                intro _ _
                exact NP_pure _
            · exact NP_pure _
          · exact NP_pure _
        · intro hw1 _
          apply NP_bind
          · -- P2SH block
            split
            · rename_i hp2sh
              split
              · exact NP_fail
              · -- pop stackCopy: stackCopy is empty only if the scriptSig left nothing, and then the P2SH script failed
                simp only [Bool.and_eq_true] at hp2sh
                have hP : has flags VER_P2SH = true := hp2sh.1
                cases stack1 with
                | nil =>
                  exfalso
                  rw [p2sh_on_empty_stack_fails O tx flags pk {} hp2sh.2] at hs2
                  cases hs2
                | cons x xs =>
                  simp only [hP, List.length_cons, Bool.true_and]
                  have : decide (xs.length + 1 > 0) = true := by simp
                  simp only [this, ↓reduceIte, pop, Res.ok_bind]
                  apply NP_bind _ _ (NP_evalScript _ _ _ _ _ _ _)
                  intro stack3 _
                  split
                  · exact NP_fail
                  · split
                    · exact NP_fail
                    · split
                      · split
                        · split
                          · exact NP_fail
                          · apply NP_bind _ _ (NP_verifyWitnessProgram _ _ _ _ _ _ _)
                            intro _ _
                            apply NP_bind _ _ (NP_resize1 _ _)
                            intro _ _
                            exact NP_pure _
                        · exact NP_pure _
                      · exact NP_pure _
            · exact NP_pure _
          · intro hw2 _
            -- the two explicit panics need CLEANSTACK or WITNESS without P2SH, which FlagsOk excludes
            split
            · rename_i hcp
              simp only [Bool.and_eq_true, Bool.not_eq_true'] at hcp
              have := (hc hcp.1).1
              rw [this] at hcp; simp at hcp
            · split
              · exact NP_fail
              · split
                · rename_i hwp
                  simp only [Bool.and_eq_true, Bool.not_eq_true'] at hwp
                  have := hw hwp.1
                  rw [this] at hwp; simp at hwp
                · split <;> (first | exact NP_fail | exact NP_pure _ | (split <;> first | exact NP_fail | exact NP_pure _))

end GocoinV.Proofs.C01
