/-
  Proofs.C12Proc — processTx keeps the full pool invariant: the rbf list is closed under in-pool children
  (GetAllChildren is complete, its fuel suffices), the input loop resolves every input in the pool or the confirmed
  set, the new record's Fee/Volume/MemInputs are exact (helper lemmas for Props/C12 `pool_inv`).  Core Lean only.
-/
import GocoinV.Proofs.C12Good
namespace GocoinV.Mempool

/-! ### GetChildren / GetAllChildren -/

def addAll (acc cs : List Nat) : List Nat := cs.foldl (fun a c => if a.contains c then a else a ++ [c]) acc

theorem addAll_cons (acc : List Nat) (c : Nat) (r : List Nat) :
    addAll acc (c :: r) = addAll (if acc.contains c then acc else acc ++ [c]) r := rfl

theorem addAll_spec : ∀ (cs acc : List Nat), acc.Nodup →
    (addAll acc cs).Nodup ∧ (∀ x, x ∈ addAll acc cs ↔ x ∈ acc ∨ x ∈ cs) ∧ ∃ extra, addAll acc cs = acc ++ extra := by
  intro cs
  induction cs with
  | nil => intro acc h; exact ⟨h, by simp [addAll], [], by simp [addAll]⟩
  | cons c r ih =>
    intro acc h
    rw [addAll_cons]
    by_cases hc : acc.contains c = true
    · rw [if_pos hc]
      obtain ⟨i1, i2, e, i3⟩ := ih acc h
      refine ⟨i1, ?_, e, i3⟩
      intro x
      rw [i2 x]
      constructor
      · rintro (h1 | h1)
        · exact Or.inl h1
        · exact Or.inr (List.mem_cons_of_mem _ h1)
      · rintro (h1 | h1)
        · exact Or.inl h1
        · rcases List.mem_cons.mp h1 with h2 | h2
          · left; rw [h2]; simpa using hc
          · exact Or.inr h2
    · rw [if_neg hc]
      have hnc : c ∉ acc := by simpa using hc
      have h' : (acc ++ [c]).Nodup :=
        List.nodup_append.mpr ⟨h, by simp, fun a ha b hb e => by
          simp only [List.mem_singleton] at hb; rw [hb] at e; exact hnc (e ▸ ha)⟩
      obtain ⟨i1, i2, e, i3⟩ := ih (acc ++ [c]) h'
      refine ⟨i1, ?_, [c] ++ e, by rw [i3]; simp⟩
      intro x
      rw [i2 x]
      constructor
      · rintro (h1 | h1)
        · rcases List.mem_append.mp h1 with h2 | h2
          · exact Or.inl h2
          · exact Or.inr (List.mem_cons.mpr (Or.inl (List.mem_singleton.mp h2)))
        · exact Or.inr (List.mem_cons_of_mem _ h1)
      · rintro (h1 | h1)
        · exact Or.inl (List.mem_append_left _ h1)
        · rcases List.mem_cons.mp h1 with h2 | h2
          · exact Or.inl (List.mem_append_right _ (List.mem_singleton.mpr h2))
          · exact Or.inr h2

theorem children_fold (K : Keys) (s : State) (id : TxId) : ∀ (l : List Nat) (acc : List Nat) (x : Nat),
    x ∈ l.foldl (fun acc vout =>
      match s.spent.get? (K.uidx id vout) with
      | none => acc
      | some so => if acc.contains so then acc else acc ++ [so]) acc ↔
    x ∈ acc ∨ ∃ v ∈ l, s.spent.get? (K.uidx id v) = some x := by
  intro l
  induction l with
  | nil => intro acc x; simp
  | cons v r ih =>
    intro acc x
    simp only [List.foldl_cons]
    rw [ih]
    cases hv : s.spent.get? (K.uidx id v) with
    | none =>
      simp only [List.mem_cons]
      constructor
      · rintro (h | ⟨w, hw, e⟩)
        · exact Or.inl h
        · exact Or.inr ⟨w, Or.inr hw, e⟩
      · rintro (h | ⟨w, hw | hw, e⟩)
        · exact Or.inl h
        · rw [hw, hv] at e; cases e
        · exact Or.inr ⟨w, hw, e⟩
    | some so =>
      simp only [List.mem_cons]
      constructor
      · rintro (h | ⟨w, hw, e⟩)
        · split at h
          · exact Or.inl h
          · rcases List.mem_append.mp h with h1 | h1
            · exact Or.inl h1
            · simp only [List.mem_singleton] at h1
              exact Or.inr ⟨v, Or.inl rfl, by rw [hv, h1]⟩
        · exact Or.inr ⟨w, Or.inr hw, e⟩
      · rintro (h | ⟨w, hw | hw, e⟩)
        · left
          split
          · exact h
          · exact List.mem_append_left _ h
        · rw [hw, hv] at e
          cases e
          left
          split
          · rename_i hc; simpa using hc
          · simp
        · exact Or.inr ⟨w, hw, e⟩

theorem mem_children (K : Keys) (s : State) (t : T2S) (x : Nat) :
    x ∈ children K s t ↔ ∃ v, v < t.tx.outs.length ∧ s.spent.get? (K.uidx t.tx.id v) = some x := by
  unfold children iota
  refine (children_fold K s t.tx.id _ [] x).trans ?_
  simp [List.mem_range]

/-- `R` contains every pooled spender of an output of each of its pooled members -/
def ChildClosed (K : Keys) (s : State) (R : List Nat) : Prop :=
  ∀ x ∈ R, ∀ p, s.pool.get? x = some p → ∀ c ∈ children K s p, c ∈ R

theorem pooled_length_le (s : State) (acc : List Nat) (hn : acc.Nodup)
    (hp : ∀ x ∈ acc, ∃ p, s.pool.get? x = some p) : acc.length ≤ s.pool.length := by
  have : acc ⊆ s.pool.map Prod.fst := by
    intro x hx
    obtain ⟨p, hp⟩ := hp x hx
    exact List.mem_map.mpr ⟨(x, p), AList.mem_of_get? _ _ _ hp, rfl⟩
  have := List.Nodup.length_le_of_subset hn this
  simpa using this

theorem allChildrenAux_closed (K : Keys) (s : State) (hs : InvS K s) : ∀ (fuel : Nat) (acc : List Nat) (idx : Nat),
    acc.Nodup → (∀ x ∈ acc, ∃ p, s.pool.get? x = some p) →
    (∀ j b, j < idx → acc[j]? = some b → ∀ p, s.pool.get? b = some p → ∀ c ∈ children K s p, c ∈ acc) →
    s.pool.length + 1 ≤ fuel + idx →
    (∀ x ∈ acc, x ∈ allChildrenAux K s fuel acc idx) ∧ ChildClosed K s (allChildrenAux K s fuel acc idx) := by
  intro fuel
  have done : ∀ (acc : List Nat) (idx : Nat), acc.length ≤ idx →
      (∀ j b, j < idx → acc[j]? = some b → ∀ p, s.pool.get? b = some p → ∀ c ∈ children K s p, c ∈ acc) →
      ChildClosed K s acc := by
    intro acc idx hle hproc x hx p hp c hc
    obtain ⟨j, hj⟩ := List.mem_iff_getElem?.mp hx
    have hjl : j < acc.length := by
      apply Classical.byContradiction
      intro hn
      rw [List.getElem?_eq_none (by omega)] at hj
      cases hj
    exact hproc j x (by omega) hj p hp c hc
  induction fuel with
  | zero =>
    intro acc idx hn hp hproc hf
    simp only [allChildrenAux]
    have := pooled_length_le s acc hn hp
    exact ⟨fun x hx => hx, done acc idx (by omega) hproc⟩
  | succ n ih =>
    intro acc idx hn hp hproc hf
    unfold allChildrenAux
    split
    · rename_i hnone
      have hle : acc.length ≤ idx := by
        apply Classical.byContradiction
        intro hc
        have : idx < acc.length := by omega
        rw [List.getElem?_eq_getElem this] at hnone
        cases hnone
      exact ⟨fun x hx => hx, done acc idx hle hproc⟩
    · rename_i b hb
      have hidx : idx < acc.length := by
        apply Classical.byContradiction
        intro hc
        rw [List.getElem?_eq_none (by omega)] at hb
        cases hb
      split
      · rename_i hnone
        apply ih acc (idx + 1) hn hp _ (by omega)
        intro j b' hj hb' p hp' c hc
        by_cases e : j = idx
        · rw [e, hb] at hb'; cases hb'; rw [hnone] at hp'; cases hp'
        · exact hproc j b' (by omega) hb' p hp' c hc
      · rename_i t ht
        dsimp only
        obtain ⟨a1, a2, extra, a3⟩ := addAll_spec (children K s t) acc hn
        have e : (children K s t).foldl (fun a c => if a.contains c then a else a ++ [c]) acc =
            addAll acc (children K s t) := rfl
        rw [e]
        have := ih (addAll acc (children K s t)) (idx + 1) a1 ?_ ?_ (by omega)
        · exact ⟨fun x hx => this.1 x ((a2 x).mpr (Or.inl hx)), this.2⟩
        · intro x hx
          rcases (a2 x).mp hx with h1 | h1
          · exact hp x h1
          · obtain ⟨v, _, hv⟩ := (mem_children K s t x).mp h1
            obtain ⟨t', ht', _⟩ := hs.sound _ _ hv
            exact ⟨t', ht'⟩
        · intro j b' hj hb' p hp' c hc
          have hjl : j < acc.length := by omega
          have hb'' : acc[j]? = some b' := by
            rw [a3, List.getElem?_append_left hjl] at hb'; exact hb'
          by_cases e2 : j = idx
          · rw [e2, hb] at hb''; cases hb''
            rw [ht] at hp'; cases hp'
            exact (a2 c).mpr (Or.inr hc)
          · exact (a2 c).mpr (Or.inl (hproc j b' (by omega) hb'' p hp' c hc))

theorem children_nodup (K : Keys) (s : State) (t : T2S) : (children K s t).Nodup := by
  unfold children
  generalize iota t.tx.outs.length = l
  have : ∀ (l : List Nat) (acc : List Nat), acc.Nodup → (l.foldl (fun acc vout =>
      match s.spent.get? (K.uidx t.tx.id vout) with
      | none => acc
      | some so => if acc.contains so then acc else acc ++ [so]) acc).Nodup := by
    intro l
    induction l with
    | nil => intro acc h; exact h
    | cons v r ih =>
      intro acc h
      simp only [List.foldl_cons]
      apply ih
      split
      · exact h
      · split
        · exact h
        · rename_i so _ hc
          have hnc : so ∉ acc := by simpa using hc
          exact List.nodup_append.mpr ⟨h, by simp, fun a ha b hb e => by
            simp only [List.mem_singleton] at hb; rw [hb] at e; exact hnc (e ▸ ha)⟩
  exact this l [] List.nodup_nil

/-- GetAllChildren returns a set that contains the first-level children and is closed under children -/
theorem allChildren_closed (K : Keys) (s : State) (hs : InvS K s) (t : T2S) :
    (∀ c ∈ children K s t, c ∈ allChildren K s t) ∧ ChildClosed K s (allChildren K s t) := by
  unfold allChildren
  dsimp only
  apply allChildrenAux_closed K s hs _ _ 0 (children_nodup K s t)
  · intro x hx
    obtain ⟨v, _, hv⟩ := (mem_children K s t x).mp hx
    obtain ⟨t', ht', _⟩ := hs.sound _ _ hv
    exact ⟨t', ht'⟩
  · intro j b hj; omega
  · omega

/-! ### the rbf list is closed under children -/

theorem foldlM_addRbf {ε : Type} (f : List Nat → Nat → Except ε (List Nat))
    (hf : ∀ r0 c r1, f r0 c = .ok r1 → r1 = addRbf r0 c) : ∀ (L r0 r : List Nat),
    L.foldlM f r0 = .ok r → ∀ x, x ∈ r ↔ x ∈ r0 ∨ x ∈ L := by
  intro L
  induction L with
  | nil => intro r0 r h x; simp [List.foldlM, pure, Except.pure] at h; rw [← h]; simp
  | cons c L ih =>
    intro r0 r h x
    simp only [List.foldlM_cons, bind, Except.bind] at h
    cases hc : f r0 c with
    | error e => rw [hc] at h; cases h
    | ok r1 =>
      rw [hc] at h
      rw [ih r1 r h x, hf r0 c r1 hc, mem_addRbf]
      simp only [List.mem_cons]
      constructor
      · rintro ((h1 | h1) | h1)
        · exact Or.inl h1
        · exact Or.inr (Or.inl h1)
        · exact Or.inr (Or.inr h1)
      · rintro (h1 | h1 | h1)
        · exact Or.inl (Or.inl h1)
        · exact Or.inl (Or.inr h1)
        · exact Or.inr h1

theorem rbfStep_mem (K : Keys) (s : State) (fl : Flags) (so : Nat) (rbf r : List Nat)
    (h : rbfStep K s fl so rbf = .ok r) :
    ∃ ctx, s.pool.get? so = some ctx ∧ ∀ x, x ∈ r ↔ x ∈ rbf ∨ x = so ∨ x ∈ allChildren K s ctx := by
  unfold rbfStep at h
  split at h
  · cases h
  · rename_i ctx hctx
    refine ⟨ctx, hctx, ?_⟩
    dsimp only at h
    split at h
    · cases h
    · split at h
      · cases h
      · intro x
        rw [foldlM_addRbf _ ?_ _ _ _ h x, mem_addRbf]
        · constructor
          · rintro ((h1 | h1) | h1)
            · exact Or.inl h1
            · exact Or.inr (Or.inl h1)
            · exact Or.inr (Or.inr h1)
          · rintro (h1 | h1 | h1)
            · exact Or.inl (Or.inl h1)
            · exact Or.inl (Or.inr h1)
            · exact Or.inr h1
        · intro r0 c r1 hf
          split at hf
          · cases hf
          · split at hf
            · cases hf
            · split at hf
              · cases hf
              · cases hf; rfl

theorem rbfStep_closed (K : Keys) (s : State) (hs : InvS K s) (fl : Flags) (so : Nat) (rbf r : List Nat)
    (h : rbfStep K s fl so rbf = .ok r) (hc : ChildClosed K s rbf) : ChildClosed K s r := by
  obtain ⟨ctx, hctx, hm⟩ := rbfStep_mem K s fl so rbf r h
  obtain ⟨a1, a2⟩ := allChildren_closed K s hs ctx
  intro x hx p hp c hcc
  rcases (hm x).mp hx with h1 | h1 | h1
  · exact (hm c).mpr (Or.inl (hc x h1 p hp c hcc))
  · rw [h1, hctx] at hp; cases hp
    exact (hm c).mpr (Or.inr (Or.inr (a1 c hcc)))
  · exact (hm c).mpr (Or.inr (Or.inr (a2 x h1 p hp c hcc)))

/-! ### one input of the loop -/

/-- what `inputStep` did with the rbf list -/
theorem inputStep_rbf2 (K : Keys) (s : State) (fl : Flags) (a a1 : Acc) (i : TxIn)
    (h : inputStep K s fl a i = .ok a1) :
    a1.rbf = a.rbf ∨ ∃ so, rbfStep K s fl so a.rbf = .ok a1.rbf := by
  unfold inputStep at h
  simp only [bind, Except.bind, pure, Except.pure] at h
  cases hsp : s.spent.get? (K.uidx i.prev i.vout) with
  | none =>
    rw [hsp] at h
    simp only at h
    left
    repeat' split at h
    all_goals first | (cases h; rfl) | (simp [throw, throwThe, MonadExcept.throw] at h)
  | some so =>
    rw [hsp] at h
    simp only at h
    cases hr : rbfStep K s fl so a.rbf with
    | error e => rw [hr] at h; cases h
    | ok v =>
      rw [hr] at h
      simp only at h
      right
      refine ⟨so, ?_⟩
      have e : a1.rbf = v := by
        repeat' split at h
        all_goals first | (cases h; rfl) | (simp [throw, throwThe, MonadExcept.throw] at h)
      rw [e]
      exact hr

theorem inputs_rbf_closed (K : Keys) (s : State) (hs : InvS K s) (fl : Flags) : ∀ (ins : List TxIn) (a a' : Acc),
    ins.foldlM (inputStep K s fl) a = .ok a' → ChildClosed K s a.rbf → ChildClosed K s a'.rbf := by
  intro ins
  induction ins with
  | nil => intro a a' h hc; simp [List.foldlM, pure, Except.pure] at h; rw [← h]; exact hc
  | cons i r ih =>
    intro a a' h hc
    simp only [List.foldlM_cons, bind, Except.bind] at h
    cases hf : inputStep K s fl a i with
    | error e => rw [hf] at h; cases h
    | ok a1 =>
      rw [hf] at h
      apply ih a1 a' h
      rcases inputStep_rbf2 K s fl a a1 i hf with e | ⟨so, e⟩
      · rw [e]; exact hc
      · exact rbfStep_closed K s hs fl so _ _ e hc

/-- how `inputStep` resolved the input: in the pool (flag set) or in the confirmed set (flag clear) -/
def Res (K : Keys) (s : State) (i : TxIn) (m : Bool) (v : Nat) : Prop :=
  (m = true ∧ ∃ par, s.pool.get? (K.bidx i.prev) = some par ∧ i.vout < par.tx.outs.length ∧
      v = par.tx.outs.getD i.vout 0) ∨
  (m = false ∧ ∃ c, s.utxo.get? (i.prev, i.vout) = some c ∧ v = c.value)

theorem inputStep_res (K : Keys) (s : State) (fl : Flags) (a a1 : Acc) (i : TxIn)
    (h : inputStep K s fl a i = .ok a1) :
    ∃ m v, a1.frommem = a.frommem ++ [m] ∧ a1.totinp = (a.totinp + v) % U64 ∧ Res K s i m v := by
  unfold inputStep at h
  simp only [bind, Except.bind, pure, Except.pure] at h
  cases hsp : s.spent.get? (K.uidx i.prev i.vout) with
  | none =>
    rw [hsp] at h
    simp only at h
    repeat' split at h
    all_goals first
      | (simp [throw, throwThe, MonadExcept.throw] at h; done)
      | (cases h; exact ⟨true, _, rfl, rfl, Or.inl ⟨rfl, _, ‹s.pool.get? _ = some _›, by omega, rfl⟩⟩)
      | (cases h; exact ⟨false, _, rfl, rfl, Or.inr ⟨rfl, _, ‹s.utxo.get? _ = some _›, rfl⟩⟩)
  | some so =>
    rw [hsp] at h
    simp only at h
    cases hr : rbfStep K s fl so a.rbf with
    | error e => rw [hr] at h; cases h
    | ok v =>
      rw [hr] at h
      simp only at h
      repeat' split at h
      all_goals first
        | (simp [throw, throwThe, MonadExcept.throw] at h; done)
        | (cases h; exact ⟨true, _, rfl, rfl, Or.inl ⟨rfl, _, ‹s.pool.get? _ = some _›, by omega, rfl⟩⟩)
        | (cases h; exact ⟨false, _, rfl, rfl, Or.inr ⟨rfl, _, ‹s.utxo.get? _ = some _›, rfl⟩⟩)

theorem inputs_res (K : Keys) (s : State) (fl : Flags) (ν : OutPoint → Nat) : ∀ (ins : List TxIn) (a a' : Acc),
    (∀ i ∈ ins, ∀ m v, Res K s i m v → v = ν (i.prev, i.vout)) →
    ins.foldlM (inputStep K s fl) a = .ok a' →
    ∃ ms : List Bool, a'.frommem = a.frommem ++ ms ∧ ms.length = ins.length ∧ a'.totinp = sumν ν ins a.totinp ∧
      ∀ k i, ins[k]? = some i → ∃ v, Res K s i (ms.getD k false) v := by
  intro ins
  induction ins with
  | nil =>
    intro a a' _ h
    simp [List.foldlM, pure, Except.pure] at h
    rw [← h]
    exact ⟨[], by simp, rfl, rfl, by simp⟩
  | cons i r ih =>
    intro a a' hv h
    simp only [List.foldlM_cons, bind, Except.bind] at h
    cases hf : inputStep K s fl a i with
    | error e => rw [hf] at h; cases h
    | ok a1 =>
      rw [hf] at h
      obtain ⟨m, v, e1, e2, e3⟩ := inputStep_res K s fl a a1 i hf
      obtain ⟨ms, f1, f2, f3, f4⟩ := ih a1 a' (fun j hj => hv j (List.mem_cons_of_mem _ hj)) h
      refine ⟨m :: ms, by rw [f1, e1]; simp, by simp [f2], ?_, ?_⟩
      · rw [f3, e2, hv i List.mem_cons_self m v e3]
        rfl
      · intro k j hk
        cases k with
        | zero =>
          simp only [List.getElem?_cons_zero, Option.some.injEq] at hk
          subst hk
          exact ⟨v, by simpa using e3⟩
        | succ n =>
          simp only [List.getElem?_cons_succ] at hk
          simpa using f4 n j hk

theorem hasDupInput_nodup : ∀ (ins : List TxIn), hasDupInput ins = false → (ins.map TxIn.op).Nodup := by
  intro ins
  induction ins with
  | nil => intro _; simp
  | cons i r ih =>
    intro h
    simp only [hasDupInput, Bool.or_eq_false_iff] at h
    simp only [List.map_cons, List.nodup_cons]
    refine ⟨?_, ih h.2⟩
    intro hm
    obtain ⟨j, hj, e⟩ := List.mem_map.mp hm
    have := List.any_eq_false.mp h.1 j hj
    simp only [TxIn.op, Prod.mk.injEq] at e
    simp [e.1, e.2] at this

theorem spendsReplaced_spec (K : Keys) (rbf : List Nat) : ∀ (ins : List TxIn) (ms : List Bool),
    spendsReplaced K ins ms rbf = false → ∀ k i, ins[k]? = some i → ms.getD k false = true →
    K.bidx i.prev ∉ rbf := by
  intro ins
  induction ins with
  | nil => intro ms _ k i hk; simp at hk
  | cons a r ih =>
    intro ms h k i hk hm
    cases ms with
    | nil => simp at hm
    | cons m ms' =>
      unfold spendsReplaced at h
      simp only [List.zip_cons_cons, List.any_cons, Bool.or_eq_false_iff] at h
      cases k with
      | zero =>
        simp only [List.getElem?_cons_zero, Option.some.injEq] at hk
        simp only [List.getD_cons_zero] at hm
        subst hk
        have := h.1
        simp only [hm, Bool.true_and] at this
        simpa using this
      | succ n =>
        simp only [List.getElem?_cons_succ] at hk
        exact ih ms' h.2 n i hk (by simpa using hm)

/-! ### processTx -/

theorem delKeys_w {K : Keys} {W : Tx → Prop} {ν : OutPoint → Nat} {A : OutPoint → Prop} {Cf : TxId → Prop}
    (reason : Nat) : ∀ (l : List Nat) (s : State), PoolW K W ν A Cf s → PoolW K W ν A Cf (delKeys K reason s l) := by
  intro l
  induction l with
  | nil => intro s h; exact h
  | cons b r ih =>
    intro s h
    rw [delKeys_cons]
    cases hb : s.pool.get? b with
    | none => exact ih s h
    | some t =>
      have hk := h.base.str.key b t hb
      exact ih _ (delOne_w s t reason h (by rw [hk]; exact hb))

/-- a pooled parent found under the BIDX of an input's previous txid is that transaction -/
theorem parent_id {K : Keys} {W : Tx → Prop} {rank : TxId → Nat} {u0 : UT} {ν : OutPoint → Nat}
    (U : Univ2 K W rank u0 ν) {s : State} (hb : InvR K W s) {t : Tx} (ht : W t) {i : TxIn} (hi : i ∈ t.ins)
    {par : T2S} (hp : s.pool.get? (K.bidx i.prev) = some par) : par.tx.id = i.prev :=
  U.bidx_play _ _ (Play.self (hb.poolW _ _ hp)) (Play.prev ht hi) (hb.str.key _ _ hp)

/-- the record processTx adds -/
def newRec (t : Tx) (a : Acc) (loc : Bool) : T2S :=
  { tx := t, fee := a.totinp - sumU64 t.outs, volume := a.totinp,
    mem := if (a.frommem.filter id).length = 0 then [] else a.frommem,
    memCnt := (a.frommem.filter id).length, loc := loc, final := a.final }

/-- the accepted branch of processTx: the rbf list is removed, the new record added -/
theorem accept_ok {K : Keys} {W : Tx → Prop} {rank : TxId → Nat} {u0 : UT} {ν : OutPoint → Nat}
    {A : OutPoint → Prop} {Cf : TxId → Prop} (U : Univ2 K W rank u0 ν) (s : State) (t : Tx) (fl : Flags) (a : Acc)
    (loc : Bool) (h : PoolOK K W ν A Cf s) (ht : W t)
    (hA : ∀ o, (s.utxo.get? o).isSome → A o)
    (hV : ∀ o c, s.utxo.get? o = some c → c.value = ν o)
    (hcf : Cf t.id → ∃ i ∈ t.ins, s.utxo.get? (i.prev, i.vout) = none ∧ Cf i.prev)
    (hnd : t.inOps.Nodup)
    (ha : t.ins.foldlM (inputStep K s fl) ({} : Acc) = .ok a)
    (hsr : spendsReplaced K t.ins a.frommem a.rbf = false)
    (hov : ¬ sumU64 t.outs > a.totinp) :
    PoolOK K W ν A Cf (addT2S K (deleteRbf K s a.rbf) (newRec t a loc)) := by
  have hb := h.w.base
  -- the input loop
  have hval : ∀ i ∈ t.ins, ∀ m v, Res K s i m v → v = ν (i.prev, i.vout) := by
    intro i hi m v hr
    rcases hr with ⟨_, par, hp, _, e⟩ | ⟨_, c, hc, e⟩
    · rw [e, ← parent_id U hb ht hi hp]
      exact (U.val_tx _ (hb.poolW _ _ hp) _).symm
    · rw [e]; exact hV _ c hc
  obtain ⟨ms, f1, f2, f3, f4⟩ := inputs_res K s fl ν t.ins {} a hval ha
  have f1' : a.frommem = ms := by simpa using f1
  -- the state after the replaced records are gone
  have e : deleteRbf K s a.rbf = delKeys K R_REPLACED s a.rbf.reverse := rfl
  obtain ⟨i1, i2, i3, _⟩ := delList_spec K W R_REPLACED a.rbf.reverse s hb
  obtain ⟨d1, d2, d3⟩ := deleteRbf_spec K W s a.rbf hb
  have w1 : PoolW K W ν A Cf (deleteRbf K s a.rbf) := by rw [e]; exact delKeys_w R_REPLACED _ s h.w
  have closed := inputs_rbf_closed K s hb.str fl t.ins {} a ha (by intro x hx; simp at hx)
  have notin : ∀ b x, (deleteRbf K s a.rbf).pool.get? b = some x → b ∉ a.rbf := by
    intro b x hx hm
    rw [e, i2 b (List.mem_reverse.mpr hm)] at hx; cases hx
  have keep : ∀ b, b ∉ a.rbf → (deleteRbf K s a.rbf).pool.get? b = s.pool.get? b := by
    intro b hn; rw [e]; exact i3 b (fun hm => hn (List.mem_reverse.mp hm))
  have p1 : ParOK K (deleteRbf K s a.rbf) := by
    intro b x hx k i hk hf
    have hx0 := d3 b x hx
    obtain ⟨p, hp1, hp2, hp3⟩ := h.par b x hx0 k i hk hf
    refine ⟨p, ?_, hp2, hp3⟩
    rw [keep]
    · exact hp1
    · intro hm
      apply notin b x hx
      apply closed _ hm p hp1
      rw [mem_children]
      refine ⟨i.vout, hp3, ?_⟩
      rw [hp2]
      exact hb.str.complete b x hx0 _ (List.mem_map.mpr ⟨i, List.mem_of_getElem? hk, rfl⟩)
  -- the new record
  obtain ⟨_, cov⟩ := inputs_rbf_cover K s fl t.ins _ a ha
  have hfree : ∀ u ∈ uidxs K t, (deleteRbf K s a.rbf).spent.get? u = none := by
    intro u hu
    obtain ⟨i, hi, rfl⟩ := List.mem_map.mp hu
    cases hx : (deleteRbf K s a.rbf).spent.get? (K.uidx i.prev i.vout) with
    | none => rfl
    | some x =>
      obtain ⟨e1, e2⟩ := d2 _ x hx
      exact absurd (cov i hi x e1) e2
  have hfresh : (deleteRbf K s a.rbf).pool.get? (K.bidx t.id) = none := by
    cases hx : (deleteRbf K s a.rbf).pool.get? (K.bidx t.id) with
    | none => rfl
    | some old =>
      exfalso
      have k := d1.str.key _ old hx
      have e : old.tx = t := U.base.id_fun _ _ (d1.poolW _ old hx) ht (U.base.bidx_inj _ _ (d1.poolW _ old hx) ht k)
      have hne := U.base.ins_ne t ht
      cases hi : t.ins with
      | nil => exact hne hi
      | cons i r =>
        have hu : K.uidx i.prev i.vout ∈ uidxs K t := by
          unfold uidxs; rw [hi]; simp
        have c := d1.str.complete _ old hx (K.uidx i.prev i.vout) (by rw [e]; exact hu)
        rw [hfree _ hu] at c
        cases c
  have hflag : ∀ k, flag (newRec t a loc) k = ms.getD k false := by
    intro k
    unfold flag newRec
    dsimp only
    split
    · rename_i hz
      rw [f1'] at hz
      rw [count_zero_getD ms k hz]; simp
    · rw [f1']
  apply addT2S_ok _ (newRec t a loc) ⟨w1, p1⟩ ht hfresh hfree
  · refine ⟨?_, ?_, hnd, ?_, ?_⟩
    · unfold newRec
      dsimp only
      split
      · exact Or.inl rfl
      · right; rw [f1']; exact f2
    · unfold newRec
      dsimp only
      split
      · rename_i hz; rw [hz]; rfl
      · rfl
    · exact f3
    · unfold newRec; dsimp only; omega
  · intro k i hk hf
    rw [hflag] at hf
    obtain ⟨v, hr⟩ := f4 k i hk
    rcases hr with ⟨_, par, hp, hlt, _⟩ | ⟨hm, _⟩
    · have hi : i ∈ t.ins := List.mem_of_getElem? hk
      have hnr := spendsReplaced_spec K a.rbf t.ins a.frommem hsr k i hk (by rw [f1']; exact hf)
      exact ⟨par, by rw [keep _ hnr]; exact hp, parent_id U hb ht hi hp, hlt⟩
    · rw [hm] at hf; cases hf
  · intro k i hk hf
    rw [hflag] at hf
    obtain ⟨v, hr⟩ := f4 k i hk
    rcases hr with ⟨hm, _⟩ | ⟨_, c, hc, _⟩
    · rw [hm] at hf; cases hf
    · exact hA _ (by rw [hc]; rfl)
  · intro hc
    obtain ⟨i, hi, hnone, hci⟩ := hcf hc
    obtain ⟨k, hk⟩ := List.mem_iff_getElem?.mp hi
    obtain ⟨v, hr⟩ := f4 k i hk
    rcases hr with ⟨_, par, hp, _, _⟩ | ⟨_, c, hc', _⟩
    · have := h.w.ncf _ par hp
      rw [parent_id U hb ht hi hp] at this
      exact this hci
    · rw [hnone] at hc'; cases hc'

theorem processTx_ok {K : Keys} {W : Tx → Prop} {rank : TxId → Nat} {u0 : UT} {ν : OutPoint → Nat}
    {A : OutPoint → Prop} {Cf : TxId → Prop} (U : Univ2 K W rank u0 ν) (mf : Nat) (s : State) (t : Tx) (fl : Flags)
    (h : PoolOK K W ν A Cf s) (ht : W t)
    (hA : ∀ o, (s.utxo.get? o).isSome → A o)
    (hV : ∀ o c, s.utxo.get? o = some c → c.value = ν o)
    (hnd : fl.unmined = true → t.inOps.Nodup)
    (hcf : Cf t.id → ∃ i ∈ t.ins, s.utxo.get? (i.prev, i.vout) = none ∧ Cf i.prev) :
    PoolOK K W ν A Cf (processTx K mf s t fl).2 := by
  have fr : ∀ (c why : Nat) m, PoolOK K W ν A Cf (c, rejectTx K s t why m).2 :=
    fun _ why m => h.frame (rejectTx_frame K W s t why m ht)
  unfold processTx
  split
  · exact fr _ _ _
  · split
    · exact fr _ _ _
    · rename_i hdup
      split
      · dsimp only
        split
        · exact fr 0 _ _
        · split
          · exact h.frame (Frame.of_eq rfl rfl rfl rfl rfl rfl)
          · exact h
      · rename_i a ha
        dsimp only
        split
        · exact fr _ _ _
        · rename_i hsr
          split
          · exact fr _ _ _
          · rename_i hov
            split
            · exact h
            · split
              · exact fr _ _ _
              · split
                · exact h
                · have hnd' : t.inOps.Nodup := by
                    cases hu : fl.unmined with
                    | true => exact hnd hu
                    | false =>
                      apply hasDupInput_nodup
                      simpa [hu] using hdup
                  exact accept_ok U s t fl a fl.loc h ht hA hV hcf hnd' ha (by simpa using hsr) hov

end GocoinV.Mempool
