/-
  Proofs.C14Getpass — the interactive branch of wallet/stuff.go:getpass (password typed, optionally saved to the
  seed file) against the seed-file branch of the NEXT run: the saved file reproduces the password of the run in
  which it was typed, hence the same wallet. Core Lean only.
-/
import GocoinV.Model.WalletKeys
namespace GocoinV.WalletKeys

theorem length_dropWhile_le' {α} (p : α → Bool) (l : List α) : (l.dropWhile p).length ≤ l.length := by
  induction l with
  | nil => simp
  | cons x t ih =>
    rw [List.dropWhile_cons]
    split
    · exact Nat.le_trans ih (Nat.le_succ _)
    · exact Nat.le_refl _

theorem readPassword_length_le (chunk : Bytes) : (readPassword chunk).length ≤ 1024 := by
  unfold readPassword
  rw [List.length_reverse]
  refine Nat.le_trans (length_dropWhile_le' _ _) ?_
  rw [List.length_reverse, List.length_take]
  exact Nat.min_le_left _ _

/-- the outcome of a typed session, stated outright -/
theorem getpassTyped_ok (c : Config) (t : Typed) (out : Bytes) (sv : Option Bytes)
    (h : getpassTyped c t = .ok (out, sv)) :
    readPassword t.first ≠ [] ∧ out = c.secretSeed ++ readPassword t.first ∧
    (t.genMode = true → t.singleAsk = false → readPassword t.second = readPassword t.first) ∧
    sv = (if t.genMode ∧ !t.ask4pass ∧ t.save then some (readPassword t.first) else none) := by
  unfold getpassTyped at h
  simp only at h
  split at h; · simp at h
  rename_i h0
  split at h; · simp at h
  rename_i h1
  simp only [Except.ok.injEq, Prod.mk.injEq] at h
  refine ⟨?_, h.1.symm, ?_, h.2.symm⟩
  · intro hn; rw [hn] at h0; simp at h0
  · intro hg hs
    apply Classical.byContradiction
    intro hne
    exact h1 ⟨hg, by simp [hs], hne⟩

/-- the seed-file branch on the saved bytes returns the password of the typed session -/
theorem getpass_of_saved (c : Config) (t : Typed) (out f : Bytes)
    (h : getpassTyped c t = .ok (out, some f)) : getpass c f = some out := by
  obtain ⟨hne, hout, _, hsv⟩ := getpassTyped_ok c t out (some f) h
  have hf : f = readPassword t.first := by
    split at hsv
    · exact Option.some.inj hsv
    · simp at hsv
  subst hf
  unfold getpass
  have hl := readPassword_length_le t.first
  rw [List.take_of_length_le hl]
  have : (readPassword t.first).length ≠ 0 := fun h0 => hne (List.eq_nil_of_length_eq_zero h0)
  simp only [this, ↓reduceIte, hout]

theorem makeWallet_of_saved (C : WalletCrypto) (c : Config) (t : Typed) (out f : Bytes)
    (h : getpassTyped c t = .ok (out, some f)) : makeWallet C c f = makeWalletTyped C c t := by
  unfold makeWallet makeWalletTyped
  rw [getpass_of_saved c t out f h, h]

end GocoinV.WalletKeys
