/-
  Proofs.C18 — helper lemmas and per-handler totality proofs for the C18 model
  (Model/NetParse.lean). Core tactics only (no Mathlib).
-/
import GocoinV.Model.NetParse
import GocoinV.Model.Wire
import GocoinV.Gen.NetFacts
namespace GocoinV.NetParse
open GocoinV GocoinV.CompactSize

/-- a result is acceptable: no panic, no lock held at exit -/
def Good (r : Res) : Prop := r.out.isPanic = false ∧ r.locks = []

theorem wrap_id {x : Int} (h0 : 0 ≤ x) (h1 : x < 9223372036854775808) : wrap x = x := by
  unfold wrap; simp only []; split <;> omega
theorem vule_size_le (b : Bytes) : (vule b).2 ≤ b.length ∧ (vule b).2 ≤ 9 := by
  unfold vule
  split
  · simp
  · rename_i h t
    simp only [List.length_cons]
    repeat' split
    all_goals simp_all
    all_goals omega
theorem vlen_size_le (b : Bytes) : (vlen b).2 ≤ b.length ∧ (vlen b).2 ≤ 9 := by
  have := vule_size_le b
  unfold vlen
  exact this

theorem handleVersion_total (pl : Bytes) (hl : pl.length < 2^62) :
    Good (handleVersion pl) ∧ (handleVersion pl).steps ≤ 1 := by
  unfold handleVersion handleVersionG Good
  have fin_good : ∀ (ver services ts ip : Nat) (nonce agent : Bytes) (height hasH dnr : Nat),
      let r : Res := match versionChecks ver services nonce with
        | some r => ⟨.reject r, [], 1⟩
        | none => ⟨.ok "version" [ver, services, ts, ip, height, hasH, dnr] [nonce, agent], [], 1⟩
      (r.out.isPanic = false ∧ r.locks = []) ∧ r.steps ≤ 1 := by
    intro ver services ts ip nonce agent height hasH dnr
    cases versionChecks ver services nonce <;> simp [Out.isPanic]
  simp only []
  split
  · simp [Out.isPanic]
  · split
    · -- n ≥ 82
      generalize hv : vlen (List.drop 80 pl) = v
      obtain ⟨le, ofs⟩ := v
      have hsz := vlen_size_le (List.drop 80 pl)
      rw [hv] at hsz
      simp only [List.length_drop] at hsz
      simp only [↓reduceIte]
      split
      · simp [Out.isPanic]
      · rename_i hbad
        simp only [Bool.or_eq_true, beq_iff_eq, decide_eq_true_eq, not_or, Int.not_lt] at hbad
        obtain ⟨⟨h1, h2⟩, h3⟩ := hbad
        have e1 : wrap ((ofs : Int) + 80) = ofs + 80 := wrap_id (by omega) (by omega)
        have e2 : wrap ((ofs : Int) + 80 + le) = ofs + 80 + le := wrap_id (by omega) (by omega)
        simp only [e1, e2]
        have s1 : sliceOk (pl.length : Int) ((ofs : Int) + 80) (ofs + 80 + le) = true := by
          unfold sliceOk; simp; omega
        simp only [s1, Bool.not_true, Bool.false_eq_true, ↓reduceIte]
        have e3 : wrap ((ofs : Int) + 80 + le + 4) = ofs + 80 + le + 4 := wrap_id (by omega) (by omega)
        simp only [e3]
        split
        · rename_i h4
          have s2 : sliceOk (pl.length : Int) ((ofs : Int) + 80 + le) (ofs + 80 + le + 4) = true := by
            unfold sliceOk; simp; omega
          simp only [s2, Bool.not_true, Bool.false_eq_true, ↓reduceIte]
          split
          · rename_i h5
            have s3 : indexOk (pl.length : Int) ((ofs : Int) + 80 + le + 4) = true := by
              unfold indexOk; simp; omega
            simp only [s3, Bool.not_true, Bool.false_eq_true, ↓reduceIte]
            exact fin_good ..
          · exact fin_good ..
        · exact fin_good ..
    · exact fin_good ..

theorem invLoop_good (n : Int) (hb : n < 2^62) : ∀ (k : Nat) (of : Int) (rest : Bytes) (acc : List Bytes) (st : Nat),
    0 ≤ of → of + 36 * (k : Int) = n →
    Good (invLoop n k of rest acc st) ∧ (invLoop n k of rest acc st).steps = st + k := by
  intro k
  induction k with
  | zero => intro of rest acc st _ _; simp [invLoop, Good, Out.isPanic]
  | succ k ih =>
    intro of rest acc st h0 hn
    unfold invLoop
    have e4 : wrap (of + 4) = of + 4 := wrap_id (by omega) (by omega)
    have e36 : wrap (of + 36) = of + 36 := wrap_id (by omega) (by omega)
    have s1 : sliceOk n of (of + 4) = true := by unfold sliceOk; simp; omega
    have s2 : sliceOk n (of + 4) (of + 36) = true := by unfold sliceOk; simp; omega
    simp only [e4, e36, s1, s2, Bool.not_true, Bool.false_eq_true, ↓reduceIte]
    have := ih (of + 36) (rest.drop 36) (rest.take 36 :: acc) (st + 1) (by omega) (by omega)
    constructor
    · exact this.1
    · rw [this.2]; omega

theorem processInv_total (pl : Bytes) (hl : pl.length < 2^62) :
    Good (processInv pl) ∧ (processInv pl).steps ≤ pl.length + 1 := by
  unfold processInv processInvG
  simp only []
  split
  · simp [Good, Out.isPanic]
  · generalize hv : vlen pl = v
    obtain ⟨cnt, ofs⟩ := v
    have hsz := vlen_size_le pl
    rw [hv] at hsz
    simp only [↓reduceIte]
    split
    · simp [Good, Out.isPanic]
    · rename_i hbad
      simp only [Bool.or_eq_true, beq_iff_eq, decide_eq_true_eq, not_or, Int.not_lt] at hbad
      obtain ⟨⟨⟨h1, h2⟩, h3⟩, h4⟩ := hbad
      have e1 : wrap (36 * cnt) = 36 * cnt := wrap_id (by omega) (by omega)
      rw [e1] at h4
      have e2 : wrap ((ofs : Int) + 36 * cnt) = ofs + 36 * cnt := wrap_id (by omega) (by omega)
      rw [e2] at h4
      have h5 : (pl.length : Int) = ofs + 36 * cnt := by omega
      have hk : ((cnt.toNat : Nat) : Int) = cnt := Int.toNat_of_nonneg (by omega)
      have := invLoop_good (pl.length : Int) (by omega) cnt.toNat ofs (pl.drop ofs) [] 1 (by omega) (by omega)
      refine ⟨this.1, ?_⟩
      rw [this.2]; omega

theorem readVLen_shrinks {b r : Bytes} {v : Nat} (h : readVLen b = some (v, r)) : r.length < b.length := by
  unfold readVLen at h
  split at h
  · simp at h
  · rename_i hd t
    by_cases h1 : hd.toNat < 0xfd
    · simp [h1] at h; obtain ⟨_, rfl⟩ := h; simp
    · simp only [h1, ↓reduceIte] at h
      generalize (if hd = 0xfd then 2 else if hd = 0xfe then 4 else 8) = c at h
      split at h
      · simp at h
      · simp only [Option.some.injEq, Prod.mk.injEq] at h
        obtain ⟨_, rfl⟩ := h
        simp only [List.length_drop, List.length_cons]; omega

theorem gbtLoop_good (ntx : Nat) : ∀ (f : Nat) (req : Bytes) (il exp : Nat) (acc : List Nat) (st : Nat),
    req.length < f →
    Good (gbtLoop true ntx f req il exp acc st) ∧ (gbtLoop true ntx f req il exp acc st).steps ≤ st + f := by
  intro f
  induction f with
  | zero => intro req il exp acc st h; omega
  | succ f ih =>
    intro req il exp acc st hf
    unfold gbtLoop
    split
    · simp [Good, Out.isPanic]
    · rename_i d req' hr
      have hs := readVLen_shrinks hr
      simp only [↓reduceIte]
      split
      · simp [Good, Out.isPanic]
      · rename_i hidx
        simp only [decide_eq_true_eq, Nat.not_le, ge_iff_le] at hidx
        have s : indexOk (ntx : Int) (((d + exp) % 18446744073709551616 : Nat) : Int) = true := by
          unfold indexOk; simp; omega
        simp only [s, Bool.not_true, Bool.false_eq_true, ↓reduceIte]
        split
        · simp [Good, Out.isPanic]
        · have := ih req' (il - 1) (((d + exp) % 18446744073709551616 + 1) % 18446744073709551616)
            ((d + exp) % 18446744073709551616 :: acc) (st + 1) (by omega)
          exact ⟨this.1, by have := this.2; omega⟩

theorem processGetBlockTxn_total (ntx : Option Nat) (pl : Bytes) :
    Good (processGetBlockTxn ntx pl) ∧ (processGetBlockTxn ntx pl).steps ≤ pl.length + 2 := by
  unfold processGetBlockTxn processGetBlockTxnG
  split
  · simp [Good, Out.isPanic]
  · cases ntx with
    | none => simp [Good, Out.isPanic]
    | some ntx =>
      simp only []
      cases hr : readVLen (List.drop 32 pl) with
      | none => simp [Good, Out.isPanic]
      | some x =>
        obtain ⟨il, req'⟩ := x
        simp only []
        have hs := readVLen_shrinks hr
        simp only [List.length_drop] at hs
        split
        · simp [Good, Out.isPanic]
        · have := gbtLoop_good ntx (req'.length + 1) req' il 0 [] 1 (by omega)
          exact ⟨this.1, by have := this.2; omega⟩


theorem leVal_take2_lt (t : Bytes) : leVal (t.take 2) < 65536 := by
  have := leVal_lt (t.take 2)
  have h2 : (t.take 2).length ≤ 2 := by simp [List.length_take]; omega
  have : 256 ^ (t.take 2).length ≤ 256 ^ 2 := Nat.pow_le_pow_right (by omega) h2
  omega

theorem vule_small (b : Bytes) (hm : (vule b).2 ≤ 3) : (vule b).1 < 65536 := by
  unfold vule at *
  split
  · simp
  · rename_i h t
    repeat' split
    all_goals simp_all
    · exact leVal_take2_lt t
    · have := h.toNat_lt; omega

theorem vlen_small (b : Bytes) (hm : (vlen b).2 ≤ 3) : 0 ≤ (vlen b).1 ∧ (vlen b).1 < 65536 := by
  have h := vule_small b (by unfold vlen at hm; exact hm)
  unfold vlen
  simp only []
  unfold toInt64
  split <;> omega

/-- what the short-id loop guarantees: an early exit is acceptable, a normal exit leaves the offset inside the payload -/
def ShortIdPost (n : Int) (bound : Nat) : Except Res (Int × List Bytes × Nat) → Prop
  | .error r => Good r ∧ r.steps ≤ bound
  | .ok (offs', _, st') => 0 ≤ offs' ∧ offs' ≤ n ∧ st' ≤ bound

theorem shortIdLoop_spec (pl : Bytes) (n : Int) (hb : n < 2^62) : ∀ (k : Nat) (offs : Int) (seen : List Bytes) (st : Nat),
    0 ≤ offs → offs ≤ n → ShortIdPost n (st + k) (shortIdLoop pl n k offs seen st) := by
  intro k
  induction k with
  | zero => intro offs seen st h0 h1; simp [shortIdLoop, ShortIdPost]; omega
  | succ k ih =>
    intro offs seen st h0 h1
    unfold shortIdLoop
    have e6 : wrap (offs + 6) = offs + 6 := wrap_id (by omega) (by omega)
    simp only [e6]
    split
    · simp [ShortIdPost, Good, Out.isPanic] <;> omega
    · rename_i h6
      have s : sliceOk n offs (offs + 6) = true := by unfold sliceOk; simp; omega
      simp only [s, Bool.not_true, Bool.false_eq_true, ↓reduceIte]
      split
      · simp [ShortIdPost, Good, Out.isPanic] <;> omega
      · have := ih (offs + 6) (sub pl offs (offs + 6) :: seen) (st + 1) (by omega) (by omega)
        revert this
        cases shortIdLoop pl n k (offs + 6) (sub pl offs (offs + 6) :: seen) (st + 1) with
        | error r => simp only [ShortIdPost]; intro h; exact ⟨h.1, by omega⟩
        | ok v => obtain ⟨a, b, c⟩ := v; simp only [ShortIdPost]; intro h; exact ⟨h.1, h.2.1, by omega⟩

theorem prefilledLoop_good (txSize : Bytes → Nat) (hts : ∀ b, txSize b ≤ b.length) (pl : Bytes) (n : Int)
    (hn : n = pl.length) (hb : n < 2^62) (total : Int) (ht : total < 2^20) :
    ∀ (k : Nat) (offs exp : Int) (acc : List Nat) (st : Nat), 0 ≤ offs → offs ≤ n → 0 ≤ exp → exp ≤ total →
    Good (prefilledLoop true txSize pl n total k offs exp acc st) ∧
      (prefilledLoop true txSize pl n total k offs exp acc st).steps ≤ st + k := by
  intro k
  induction k with
  | zero => intro offs exp acc st _ _ _ _; simp [prefilledLoop, Good, Out.isPanic]
  | succ k ih =>
    intro offs exp acc st h0 h1 he0 he1
    unfold prefilledLoop
    have s0 : sliceOk n offs n = true := by unfold sliceOk; simp; omega
    simp only [s0, Bool.not_true, Bool.false_eq_true, ↓reduceIte]
    generalize hv : vlen (List.drop offs.toNat pl) = v
    obtain ⟨idx0, m⟩ := v
    have hsz := vlen_size_le (List.drop offs.toNat pl)
    rw [hv] at hsz
    simp only [List.length_drop] at hsz
    simp only []
    split
    · simp [Good, Out.isPanic] <;> omega
    · rename_i hbad
      simp only [Bool.or_eq_true, beq_iff_eq, decide_eq_true_eq, not_or, Int.not_lt, Nat.not_lt] at hbad
      obtain ⟨⟨hm0, hi0⟩, hm3⟩ := hbad
      have hsm := vlen_small (List.drop offs.toNat pl) (by rw [hv]; simp; omega)
      rw [hv] at hsm
      simp only [] at hsm
      have ei : wrap (idx0 + exp) = idx0 + exp := wrap_id (by omega) (by omega)
      simp only [ei]
      split
      · simp [Good, Out.isPanic] <;> omega
      · rename_i hidx
        simp only [decide_eq_true_eq, Int.not_le, ge_iff_le] at hidx
        have hoff : (offs.toNat : Int) = offs := Int.toNat_of_nonneg h0
        have eo : wrap (offs + m) = offs + m := wrap_id (by omega) (by omega)
        simp only [eo]
        have s1 : sliceOk n (offs + m) n = true := by unfold sliceOk; simp; omega
        simp only [s1, Bool.not_true, Bool.false_eq_true, ↓reduceIte]
        have hsz2 := hts (List.drop (offs + ↑m).toNat pl)
        simp only [List.length_drop] at hsz2
        have hoff2 : ((offs + (m : Int)).toNat : Int) = offs + m := Int.toNat_of_nonneg (by omega)
        split
        · simp [Good, Out.isPanic] <;> omega
        · have s2 : indexOk total (idx0 + exp) = true := by unfold indexOk; simp; omega
          simp only [s2, Bool.not_true, Bool.false_eq_true, ↓reduceIte]
          have es : wrap (offs + ↑m + ↑(txSize (List.drop (offs + ↑m).toNat pl))) = offs + ↑m + ↑(txSize (List.drop (offs + ↑m).toNat pl)) :=
            wrap_id (by omega) (by omega)
          simp only [es]
          have s3 : sliceOk n (offs + ↑m) (offs + ↑m + ↑(txSize (List.drop (offs + ↑m).toNat pl))) = true := by
            unfold sliceOk; simp; omega
          simp only [s3, Bool.not_true, Bool.false_eq_true, ↓reduceIte]
          have e1 : wrap (idx0 + exp + 1) = idx0 + exp + 1 := wrap_id (by omega) (by omega)
          simp only [e1]
          have := ih (offs + ↑m + ↑(txSize (List.drop (offs + ↑m).toNat pl))) (idx0 + exp + 1)
            ((↑(txSize (List.drop (offs + ↑m).toNat pl)) : Int).toNat :: (idx0 + exp).toNat :: acc) (st + 1)
            (by omega) (by omega) (by omega) (by omega)
          exact ⟨this.1, by have := this.2; omega⟩


theorem processCmpctBlock_total (txSize : Bytes → Nat) (hts : ∀ b, txSize b ≤ b.length) (pl : Bytes)
    (hl : pl.length < 2^62) :
    Good (processCmpctBlock txSize pl) ∧ (processCmpctBlock txSize pl).steps ≤ 131073 := by
  unfold processCmpctBlock processCmpctBlockG
  simp only []
  split
  · simp [Good, Out.isPanic]
  · rename_i h90
    generalize hv : vlen (List.drop 88 pl) = v
    obtain ⟨scnt, m⟩ := v
    have hsz := vlen_size_le (List.drop 88 pl)
    rw [hv] at hsz
    simp only [List.length_drop] at hsz
    simp only []
    split
    · simp [Good, Out.isPanic]
    · rename_i hbad
      simp only [Bool.or_eq_true, beq_iff_eq, decide_eq_true_eq, not_or, Int.not_lt, Nat.not_lt] at hbad
      obtain ⟨⟨hm0, hs0⟩, hm3⟩ := hbad
      have hsm := vlen_small (List.drop 88 pl) (by rw [hv]; simp; omega)
      rw [hv] at hsm
      simp only [] at hsm
      have hsn : ((scnt.toNat : Nat) : Int) = scnt := Int.toNat_of_nonneg hs0
      have hsp := shortIdLoop_spec pl (pl.length : Int) (by omega) scnt.toNat (88 + (m : Int)) [] 1 (by omega) (by omega)
      revert hsp
      cases shortIdLoop pl (pl.length : Int) scnt.toNat (88 + (m : Int)) [] 1 with
      | error r => simp only [ShortIdPost]; intro h; exact ⟨h.1, by have := h.2; omega⟩
      | ok v =>
        obtain ⟨offs, seen, st⟩ := v
        simp only [ShortIdPost]
        intro ⟨ho0, ho1, hst⟩
        have s0 : sliceOk (pl.length : Int) offs pl.length = true := by unfold sliceOk; simp; omega
        simp only [s0, Bool.not_true, Bool.false_eq_true, ↓reduceIte]
        generalize hv2 : vlen (List.drop offs.toNat pl) = v2
        obtain ⟨pcnt, m2⟩ := v2
        have hsz2 := vlen_size_le (List.drop offs.toNat pl)
        rw [hv2] at hsz2
        simp only [List.length_drop] at hsz2
        simp only []
        split
        · simp [Good, Out.isPanic] <;> omega
        · rename_i hbad2
          simp only [Bool.or_eq_true, beq_iff_eq, decide_eq_true_eq, not_or, Int.not_lt, Nat.not_lt] at hbad2
          obtain ⟨⟨hm20, hp0⟩, hm23⟩ := hbad2
          have hsm2 := vlen_small (List.drop offs.toNat pl) (by rw [hv2]; simp; omega)
          rw [hv2] at hsm2
          simp only [] at hsm2
          have hoff : (offs.toNat : Int) = offs := Int.toNat_of_nonneg ho0
          have eo : wrap (offs + m2) = offs + m2 := wrap_id (by omega) (by omega)
          simp only [eo]
          have hpn : ((pcnt.toNat : Nat) : Int) = pcnt := Int.toNat_of_nonneg hp0
          have hpl := prefilledLoop_good txSize hts pl (pl.length : Int) rfl (by omega) (pcnt + scnt) (by omega)
            pcnt.toNat (offs + m2) 0 [] st (by omega) (by omega) (by omega) (by omega)
          revert hpl
          generalize prefilledLoop true txSize pl (pl.length : Int) (pcnt + scnt) pcnt.toNat (offs + m2) 0 [] st = r
          intro ⟨⟨hg1, hg2⟩, hg3⟩
          obtain ⟨out, locks, steps⟩ := r
          cases out with
          | ok t nums bl => simp only [] at *; exact ⟨⟨by simp [Out.isPanic], hg2⟩, by omega⟩
          | reject r => simp only [] at *; exact ⟨⟨hg1, hg2⟩, by omega⟩
          | panic s => simp [Out.isPanic] at hg1

theorem blockTxnLoop_good (txSize : Bytes → Nat) (hts : ∀ b, txSize b ≤ b.length) (pl : Bytes) (n : Int)
    (hn : n = pl.length) (hb : n < 2^62) : ∀ (f : Nat) (offs : Int) (acc : List Nat) (st : Nat),
    0 ≤ offs → offs ≤ n → n - offs < f →
    Good (blockTxnLoop txSize pl n f offs acc st) ∧ (blockTxnLoop txSize pl n f offs acc st).steps ≤ st + f := by
  intro f
  induction f with
  | zero => intro offs acc st h0 h1 h2; omega
  | succ f ih =>
    intro offs acc st h0 h1 h2
    unfold blockTxnLoop
    split
    · simp [Good, Out.isPanic]
    · rename_i hlt
      simp only [decide_eq_false_iff_not, Decidable.not_not, Bool.not_eq_eq_eq_not, Bool.not_true] at hlt
      have s0 : sliceOk n offs n = true := by unfold sliceOk; simp; omega
      simp only [s0, Bool.not_true, Bool.false_eq_true, ↓reduceIte]
      have hsz := hts (List.drop offs.toNat pl)
      simp only [List.length_drop] at hsz
      have hoff : (offs.toNat : Int) = offs := Int.toNat_of_nonneg h0
      split
      · simp [Good, Out.isPanic]
      · rename_i hz
        have es : wrap (offs + ↑(txSize (List.drop offs.toNat pl))) = offs + ↑(txSize (List.drop offs.toNat pl)) :=
          wrap_id (by omega) (by omega)
        simp only [es]
        have s1 : sliceOk n offs (offs + ↑(txSize (List.drop offs.toNat pl))) = true := by unfold sliceOk; simp; omega
        simp only [s1, Bool.not_true, Bool.false_eq_true, ↓reduceIte]
        have := ih (offs + ↑(txSize (List.drop offs.toNat pl))) ((↑(txSize (List.drop offs.toNat pl)) : Int).toNat :: acc) (st + 1)
          (by omega) (by omega) (by omega)
        exact ⟨this.1, by have := this.2; omega⟩

theorem processBlockTxn_total (txSize : Bytes → Nat) (hts : ∀ b, txSize b ≤ b.length) (pl : Bytes)
    (hl : pl.length < 2^62) :
    Good (processBlockTxn txSize pl) ∧ (processBlockTxn txSize pl).steps ≤ pl.length + 2 := by
  unfold processBlockTxn
  simp only []
  split
  · simp [Good, Out.isPanic]
  · generalize hv : vlen (List.drop 32 pl) = v
    obtain ⟨le, m⟩ := v
    have hsz := vlen_size_le (List.drop 32 pl)
    rw [hv] at hsz
    simp only [List.length_drop] at hsz
    simp only []
    split
    · simp [Good, Out.isPanic]
    · have := blockTxnLoop_good txSize hts pl (pl.length : Int) rfl (by omega) (pl.length + 1) (32 + (m : Int)) [] 1
        (by omega) (by omega) (by omega)
      exact ⟨this.1, by have := this.2; omega⟩


theorem addrLoop_good : ∀ (k : Nat) (b : Bytes) (acc : List Bytes) (st : Nat),
    Good (addrLoop k b acc st) ∧ (addrLoop k b acc st).steps ≤ st + k := by
  intro k
  induction k with
  | zero => intros; simp [addrLoop, Good, Out.isPanic]
  | succ k ih =>
    intro b acc st
    unfold addrLoop
    simp only [readUpTo]
    by_cases hc : (List.take 30 b).length = 30
    · simp only [hc, ne_eq, not_true_eq_false, ↓reduceIte]
      have := ih (b.drop 30) (b.take 30 :: acc) (st + 1)
      exact ⟨this.1, by have := this.2; omega⟩
    · simp only [ne_eq, hc, not_false_eq_true, ↓reduceIte]; simp [Good, Out.isPanic]

theorem parseAddr_total (pl : Bytes) : Good (parseAddr pl) ∧ (parseAddr pl).steps ≤ pl.length + 2 := by
  unfold parseAddr
  simp only []
  cases hr : readVLen pl with
  | none =>
    simp only []
    have := addrLoop_good (min (wrap ((0 : Nat) : Int)).toNat (([] : Bytes).length / 30 + 1)) [] [] 1
    refine ⟨this.1, ?_⟩
    have h2 := this.2
    have : min (wrap ((0 : Nat) : Int)).toNat (([] : Bytes).length / 30 + 1) ≤ 1 := Nat.min_le_right _ _
    omega
  | some x =>
    obtain ⟨cnt, b⟩ := x
    simp only []
    have hs := readVLen_shrinks hr
    have := addrLoop_good (min (wrap (cnt : Int)).toNat (b.length / 30 + 1)) b [] 1
    refine ⟨this.1, ?_⟩
    have h2 := this.2
    have : min (wrap (cnt : Int)).toNat (b.length / 30 + 1) ≤ b.length / 30 + 1 := Nat.min_le_right _ _
    omega

theorem getDataLoop_good : ∀ (f : Nat) (b : Bytes) (acc : List Bytes) (st : Nat), b.length < f →
    Good (getDataLoop f b acc st) ∧ (getDataLoop f b acc st).steps ≤ st + f := by
  intro f
  induction f with
  | zero => intro b acc st h; omega
  | succ f ih =>
    intro b acc st hf
    unfold getDataLoop
    split
    · simp [Good, Out.isPanic]
    · rename_i hne
      simp only [readUpTo]
      have := ih (b.drop 36) (b.take 36 :: acc) (st + 1) (by simp only [List.length_drop]; omega)
      exact ⟨this.1, by have := this.2; omega⟩

theorem processGetData_total (pl : Bytes) : Good (processGetData pl) ∧ (processGetData pl).steps ≤ pl.length + 2 := by
  unfold processGetData
  cases hr : readVLen pl with
  | none => simp [Good, Out.isPanic]
  | some x =>
    obtain ⟨cnt, b⟩ := x
    simp only []
    have hs := readVLen_shrinks hr
    split
    · simp [Good, Out.isPanic]
    · have := getDataLoop_good (b.length + 1) b [] 1 (by omega)
      exact ⟨this.1, by have := this.2; omega⟩

theorem cap_le (c : Nat) : (if c > 101 then 101 else c) + 1 ≤ 102 := by
  by_cases h : c > 101 <;> simp [h] <;> omega

theorem parseLocators_steps (pl : Bytes) : (parseLocators pl).2 ≤ 102 := by
  unfold parseLocators
  split
  · simp
  · split
    · simp
    · simp only [MAX_LOCATOR_SZ]
      split <;> exact cap_le _

theorem getBlocks_total (pl : Bytes) : Good (getBlocks pl) ∧ (getBlocks pl).steps ≤ 102 := by
  have h := parseLocators_steps pl
  unfold getBlocks
  revert h
  cases parseLocators pl with
  | mk a st =>
    cases a with
    | none => simp [Good, Out.isPanic]
    | some x => obtain ⟨hs, stop⟩ := x; simp only []; intro h; split <;> simp [Good, Out.isPanic] <;> omega

theorem getHeaders_total (pl : Bytes) : Good (getHeaders pl) ∧ (getHeaders pl).steps ≤ 102 := by
  have h := parseLocators_steps pl
  unfold getHeaders
  revert h
  cases parseLocators pl with
  | mk a st =>
    cases a with
    | none => simp [Good, Out.isPanic]
    | some x => obtain ⟨hs, stop⟩ := x; simp only []; intro h; split <;> simp [Good, Out.isPanic] <;> omega

theorem hdrLoop_good : ∀ (k : Nat) (b : Bytes) (acc : List Bytes) (st : Nat),
    Good (hdrLoop k b acc st) ∧ (hdrLoop k b acc st).steps ≤ st + k := by
  intro k
  induction k with
  | zero => intros; simp [hdrLoop, Good, Out.isPanic]
  | succ k ih =>
    intro b acc st
    unfold hdrLoop
    simp only [readUpTo]
    by_cases hc : (List.take 80 b).length = 80
    · simp only [hc, ne_eq, not_true_eq_false, ↓reduceIte]
      split
      · simp [Good, Out.isPanic]
      · rename_i x r' _
        have := ih r' (b.take 80 :: acc) (st + 1)
        exact ⟨this.1, by have := this.2; omega⟩
    · simp only [ne_eq, hc, not_false_eq_true, ↓reduceIte]; simp [Good, Out.isPanic]

theorem handleHeaders_total (pl : Bytes) : Good (handleHeaders pl) ∧ (handleHeaders pl).steps ≤ 2001 := by
  unfold handleHeaders
  cases hr : readVLen pl with
  | none => simp [Good, Out.isPanic]
  | some x =>
    obtain ⟨cnt, b⟩ := x
    simp only []
    split
    · simp [Good, Out.isPanic]
    · have := hdrLoop_good cnt b [] 1
      exact ⟨this.1, by have := this.2; omega⟩

theorem getMPLoop_good : ∀ (k : Nat) (b : Bytes) (got : Nat) (st : Nat),
    Good (getMPLoop k b got st) ∧ (getMPLoop k b got st).steps ≤ st + k := by
  intro k
  induction k with
  | zero => intros; simp [getMPLoop, Good, Out.isPanic]
  | succ k ih =>
    intro b got st
    unfold getMPLoop
    simp only [readUpTo]
    by_cases hc : (List.take 8 b).length = 8
    · simp only [hc, ne_eq, not_true_eq_false, ↓reduceIte]
      have := ih (b.drop 8) (got + 1) (st + 1)
      exact ⟨this.1, by have := this.2; omega⟩
    · simp only [ne_eq, hc, not_false_eq_true, ↓reduceIte]; simp [Good, Out.isPanic]

theorem processGetMP_total (pl : Bytes) : Good (processGetMP pl) ∧ (processGetMP pl).steps ≤ pl.length + 2 := by
  unfold processGetMP
  cases hr : readVLen pl with
  | none => simp [Good, Out.isPanic]
  | some x =>
    obtain ⟨cnt, b⟩ := x
    simp only []
    have hs := readVLen_shrinks hr
    have := getMPLoop_good (min (wrap (cnt : Int)).toNat (b.length / 8 + 1)) b 0 1
    refine ⟨this.1, ?_⟩
    have h2 := this.2
    have : min (wrap (cnt : Int)).toNat (b.length / 8 + 1) ≤ b.length / 8 + 1 := Nat.min_le_right _ _
    omega

theorem parseTxNet_total (newTx : Bytes → Option (Nat × Nat)) (pl : Bytes) :
    Good (parseTxNet newTx pl) ∧ (parseTxNet newTx pl).steps ≤ 1 := by
  unfold parseTxNet
  split
  · simp [Good, Out.isPanic]
  · split
    · simp [Good, Out.isPanic]
    · split <;> simp [Good, Out.isPanic]

theorem netBlockReceived_total (pl : Bytes) : Good (netBlockReceived pl) ∧ (netBlockReceived pl).steps ≤ 1 := by
  unfold netBlockReceived; split <;> simp [Good, Out.isPanic]

theorem feeFilter_total (pl : Bytes) : Good (feeFilter pl) ∧ (feeFilter pl).steps ≤ 1 := by
  unfold feeFilter
  split
  · rename_i h
    have s : sliceOk (pl.length : Int) 0 8 = true := by unfold sliceOk; simp; omega
    simp [s, Good, Out.isPanic]
  · simp [Good, Out.isPanic]

theorem sendCmpct_total (pl : Bytes) : Good (sendCmpct pl) ∧ (sendCmpct pl).steps ≤ 1 := by
  unfold sendCmpct
  split
  · rename_i h
    have s : sliceOk (pl.length : Int) 1 9 = true := by unfold sliceOk; simp; omega
    simp [s, Good, Out.isPanic]
  · simp [Good, Out.isPanic]

theorem authRcvd_total (already : Bool) (pl : Bytes) : Good (authRcvd already pl) ∧ (authRcvd already pl).steps ≤ 1 := by
  unfold authRcvd
  split
  · simp [Good, Out.isPanic]
  · split
    · simp [Good, Out.isPanic]
    · rename_i h
      have s1 : sliceOk (pl.length : Int) 0 33 = true := by unfold sliceOk; simp; omega
      have s2 : sliceOk (pl.length : Int) 33 pl.length = true := by unfold sliceOk; simp; omega
      simp [s1, s2, Good, Out.isPanic]

theorem fetchMessage_total (E : FetchEnv) (w : Bytes) : Good (fetchMessage E w) ∧ (fetchMessage E w).steps ≤ 1 := by
  unfold fetchMessage fetchMessageG
  simp only []
  repeat' split
  all_goals first | (simp [Good, Out.isPanic]; done) | simp_all


/-- `if x = c then A else B`: close the `then` goal with `t`, continue with `B` (avoids `split`,
    which normalises the string comparison at great cost) -/
macro "case_cmd " x:term:max c:str " => " t:tactic : tactic =>
  `(tactic| (by_cases hcmd : $x = $c; (· (rw [if_pos hcmd] <;> $t)); rw [if_neg hcmd]; clear hcmd))

theorem maxMsgSize_le (cmd : String) : Gen.NetFacts.maxMsgSize cmd ≤ 8000009 := by
  unfold Gen.NetFacts.maxMsgSize
  case_cmd cmd "inv" => (try omega)
  case_cmd cmd "tx" => (try omega)
  case_cmd cmd "addr" => (try omega)
  case_cmd cmd "block" => (try omega)
  case_cmd cmd "getblocks" => (try omega)
  case_cmd cmd "getdata" => (try omega)
  case_cmd cmd "headers" => (try omega)
  case_cmd cmd "getheaders" => (try omega)
  case_cmd cmd "cmpctblock" => (try omega)
  case_cmd cmd "getblocktxn" => (try omega)
  case_cmd cmd "blocktxn" => (try omega)
  case_cmd cmd "notfound" => (try omega)
  case_cmd cmd "getmp" => (try omega)
  omega

theorem lift {r : Res} {b B : Nat} (h : Good r ∧ r.steps ≤ b) (hb : b ≤ B) :
    r.out.isPanic = false ∧ r.locks = [] ∧ r.steps ≤ B :=
  ⟨h.1.1, h.1.2, by omega⟩

theorem parse_total (E : Env) (hts : ∀ b, E.txSize b ≤ b.length) (cmd : String) (pl : Bytes)
    (hl : pl.length < 2^62) :
    (parse E cmd pl).out.isPanic = false ∧ (parse E cmd pl).locks = [] ∧ (parse E cmd pl).steps ≤ pl.length + 131073 := by
  unfold parse
  case_cmd cmd "version" => exact lift (handleVersion_total pl hl) (by omega)
  case_cmd cmd "inv" => exact lift (processInv_total pl hl) (by omega)
  case_cmd cmd "tx" => exact lift (parseTxNet_total E.newTx pl) (by omega)
  case_cmd cmd "addr" => exact lift (parseAddr_total pl) (by omega)
  case_cmd cmd "block" => exact lift (netBlockReceived_total pl) (by omega)
  case_cmd cmd "getblocks" => exact lift (getBlocks_total pl) (by omega)
  case_cmd cmd "getdata" => exact lift (processGetData_total pl) (by omega)
  case_cmd cmd "pong" => exact ⟨by simp [handlePong, Out.isPanic], by simp [handlePong], by simp [handlePong]⟩
  case_cmd cmd "getheaders" => exact lift (getHeaders_total pl) (by omega)
  case_cmd cmd "headers" => exact lift (handleHeaders_total pl) (by omega)
  case_cmd cmd "feefilter" => exact lift (feeFilter_total pl) (by omega)
  case_cmd cmd "sendcmpct" => exact lift (sendCmpct_total pl) (by omega)
  case_cmd cmd "cmpctblock" => exact lift (processCmpctBlock_total E.txSize hts pl hl) (by omega)
  case_cmd cmd "getblocktxn" => exact lift (processGetBlockTxn_total E.ntx pl) (by omega)
  case_cmd cmd "blocktxn" => exact lift (processBlockTxn_total E.txSize hts pl hl) (by omega)
  case_cmd cmd "getmp" => (cases E.authorized <;> first | exact lift (processGetMP_total pl) (by omega) | simp [Out.isPanic])
  case_cmd cmd "xauth" => exact lift (authRcvd_total E.authGot pl) (by omega)
  simp [Out.isPanic]


theorem wire_txSize_le (b : Bytes) : Wire.txSize b ≤ b.length := by
  unfold Wire.txSize
  simp only []
  cases h1 : Wire.readN 4 b with
  | none => simp
  | some x =>
    obtain ⟨x4, b1⟩ := x
    have hl : 4 ≤ b.length := by
      unfold Wire.readN at h1
      split at h1
      · omega
      · simp at h1
    simp only []
    repeat' split
    all_goals simp
    all_goals omega

end GocoinV.NetParse
