/-
  Proofs.C18 — helper lemmas and per-handler totality proofs for the C18 model
  (Model/NetParse.lean). Core tactics only (no Mathlib).
-/
import GocoinV.Model.NetParse
import GocoinV.Model.Wire
import GocoinV.Gen.NetFacts
namespace GocoinV.NetParse
open GocoinV GocoinV.CompactSize

/-- a result is acceptable: no panic, no lock held at exit -/
def Good (r : Res) : Prop := r.out.isPanic = false ∧ r.locks = []

theorem wrap_id {x : Int} (h0 : 0 ≤ x) (h1 : x < 9223372036854775808) : wrap x = x := by
  unfold wrap; simp only []; split <;> omega
theorem vule_size_le (b : Bytes) : (vule b).2 ≤ b.length ∧ (vule b).2 ≤ 9 := by
  unfold vule
  split
  · simp
  · rename_i h t
    simp only [List.length_cons]
    repeat' split
    all_goals simp_all
    all_goals omega
theorem vlen_size_le (b : Bytes) : (vlen b).2 ≤ b.length ∧ (vlen b).2 ≤ 9 := by
  have := vule_size_le b
  unfold vlen
  exact this

theorem handleVersion_total (pl : Bytes) (hl : pl.length < 2^62) :
    Good (handleVersion pl) ∧ (handleVersion pl).steps ≤ 1 := by
  unfold handleVersion handleVersionG Good
  have fin_good : ∀ (ver services ts ip : Nat) (nonce agent : Bytes) (height hasH dnr : Nat),
      let r : Res := match versionChecks ver services nonce with
        | some r => ⟨.reject r, [], 1⟩
        | none => ⟨.ok "version" [ver, services, ts, ip, height, hasH, dnr] [nonce, agent], [], 1⟩
      (r.out.isPanic = false ∧ r.locks = []) ∧ r.steps ≤ 1 := by
    intro ver services ts ip nonce agent height hasH dnr
    cases versionChecks ver services nonce <;> simp [Out.isPanic]
  simp only []
  split
  · simp [Out.isPanic]
  · split
    · -- n ≥ 82
      generalize hv : vlen (List.drop 80 pl) = v
      obtain ⟨le, ofs⟩ := v
      have hsz := vlen_size_le (List.drop 80 pl)
      rw [hv] at hsz
      simp only [List.length_drop] at hsz
      simp only [↓reduceIte]
      split
      · simp [Out.isPanic]
      · rename_i hbad
        simp only [Bool.or_eq_true, beq_iff_eq, decide_eq_true_eq, not_or, Int.not_lt] at hbad
        obtain ⟨⟨h1, h2⟩, h3⟩ := hbad
        have e1 : wrap ((ofs : Int) + 80) = ofs + 80 := wrap_id (by omega) (by omega)
        have e2 : wrap ((ofs : Int) + 80 + le) = ofs + 80 + le := wrap_id (by omega) (by omega)
        simp only [e1, e2]
        have s1 : sliceOk (pl.length : Int) ((ofs : Int) + 80) (ofs + 80 + le) = true := by
          unfold sliceOk; simp; omega
        simp only [s1, Bool.not_true, Bool.false_eq_true, ↓reduceIte]
        have e3 : wrap ((ofs : Int) + 80 + le + 4) = ofs + 80 + le + 4 := wrap_id (by omega) (by omega)
        simp only [e3]
        split
        · rename_i h4
          have s2 : sliceOk (pl.length : Int) ((ofs : Int) + 80 + le) (ofs + 80 + le + 4) = true := by
            unfold sliceOk; simp; omega
          simp only [s2, Bool.not_true, Bool.false_eq_true, ↓reduceIte]
          split
          · rename_i h5
            have s3 : indexOk (pl.length : Int) ((ofs : Int) + 80 + le + 4) = true := by
              unfold indexOk; simp; omega
            simp only [s3, Bool.not_true, Bool.false_eq_true, ↓reduceIte]
            exact fin_good ..
          · exact fin_good ..
        · exact fin_good ..
    · exact fin_good ..

theorem invLoop_good (n : Int) (hb : n < 2^62) : ∀ (k : Nat) (of : Int) (rest : Bytes) (acc : List Bytes) (st : Nat),
    0 ≤ of → of + 36 * (k : Int) = n →
    Good (invLoop n k of rest acc st) ∧ (invLoop n k of rest acc st).steps = st + k := by
  intro k
  induction k with
  | zero => intro of rest acc st _ _; simp [invLoop, Good, Out.isPanic]
  | succ k ih =>
    intro of rest acc st h0 hn
    unfold invLoop
    have e4 : wrap (of + 4) = of + 4 := wrap_id (by omega) (by omega)
    have e36 : wrap (of + 36) = of + 36 := wrap_id (by omega) (by omega)
    have s1 : sliceOk n of (of + 4) = true := by unfold sliceOk; simp; omega
    have s2 : sliceOk n (of + 4) (of + 36) = true := by unfold sliceOk; simp; omega
    simp only [e4, e36, s1, s2, Bool.not_true, Bool.false_eq_true, ↓reduceIte]
    have := ih (of + 36) (rest.drop 36) (rest.take 36 :: acc) (st + 1) (by omega) (by omega)
    constructor
    · exact this.1
    · rw [this.2]; omega

theorem processInv_total (pl : Bytes) (hl : pl.length < 2^62) :
    Good (processInv pl) ∧ (processInv pl).steps ≤ pl.length + 1 := by
  unfold processInv processInvG
  simp only []
  split
  · simp [Good, Out.isPanic]
  · generalize hv : vlen pl = v
    obtain ⟨cnt, ofs⟩ := v
    have hsz := vlen_size_le pl
    rw [hv] at hsz
    simp only [↓reduceIte]
    split
    · simp [Good, Out.isPanic]
    · rename_i hbad
      simp only [Bool.or_eq_true, beq_iff_eq, decide_eq_true_eq, not_or, Int.not_lt] at hbad
      obtain ⟨⟨⟨h1, h2⟩, h3⟩, h4⟩ := hbad
      have e1 : wrap (36 * cnt) = 36 * cnt := wrap_id (by omega) (by omega)
      rw [e1] at h4
      have e2 : wrap ((ofs : Int) + 36 * cnt) = ofs + 36 * cnt := wrap_id (by omega) (by omega)
      rw [e2] at h4
      have h5 : (pl.length : Int) = ofs + 36 * cnt := by omega
      have hk : ((cnt.toNat : Nat) : Int) = cnt := Int.toNat_of_nonneg (by omega)
      have := invLoop_good (pl.length : Int) (by omega) cnt.toNat ofs (pl.drop ofs) [] 1 (by omega) (by omega)
      refine ⟨this.1, ?_⟩
      rw [this.2]; omega

theorem readVLen_shrinks {b r : Bytes} {v : Nat} (h : readVLen b = some (v, r)) : r.length < b.length := by
  unfold readVLen at h
  split at h
  · simp at h
  · rename_i hd t
    by_cases h1 : hd.toNat < 0xfd
    · simp [h1] at h; obtain ⟨_, rfl⟩ := h; simp
    · simp only [h1, ↓reduceIte] at h
      generalize (if hd = 0xfd then 2 else if hd = 0xfe then 4 else 8) = c at h
      split at h
      · simp at h
      · simp only [Option.some.injEq, Prod.mk.injEq] at h
        obtain ⟨_, rfl⟩ := h
        simp only [List.length_drop, List.length_cons]; omega

theorem gbtLoop_good (ntx : Nat) : ∀ (f : Nat) (req : Bytes) (il exp : Nat) (acc : List Nat) (st : Nat),
    req.length < f →
    Good (gbtLoop true ntx f req il exp acc st) ∧ (gbtLoop true ntx f req il exp acc st).steps ≤ st + f := by
  intro f
  induction f with
  | zero => intro req il exp acc st h; omega
  | succ f ih =>
    intro req il exp acc st hf
    unfold gbtLoop
    split
    · simp [Good, Out.isPanic]
    · rename_i d req' hr
      have hs := readVLen_shrinks hr
      simp only [↓reduceIte]
      split
      · simp [Good, Out.isPanic]
      · rename_i hidx
        simp only [decide_eq_true_eq, Nat.not_le, ge_iff_le] at hidx
        have s : indexOk (ntx : Int) (((d + exp) % 18446744073709551616 : Nat) : Int) = true := by
          unfold indexOk; simp; omega
        simp only [s, Bool.not_true, Bool.false_eq_true, ↓reduceIte]
        split
        · simp [Good, Out.isPanic]
        · have := ih req' (il - 1) (((d + exp) % 18446744073709551616 + 1) % 18446744073709551616)
            ((d + exp) % 18446744073709551616 :: acc) (st + 1) (by omega)
          exact ⟨this.1, by have := this.2; omega⟩

theorem processGetBlockTxn_total (ntx : Option Nat) (pl : Bytes) :
    Good (processGetBlockTxn ntx pl) ∧ (processGetBlockTxn ntx pl).steps ≤ pl.length + 2 := by
  unfold processGetBlockTxn processGetBlockTxnG
  split
  · simp [Good, Out.isPanic]
  · cases ntx with
    | none => simp [Good, Out.isPanic]
    | some ntx =>
      simp only []
      cases hr : readVLen (List.drop 32 pl) with
      | none => simp [Good, Out.isPanic]
      | some x =>
        obtain ⟨il, req'⟩ := x
        simp only []
        have hs := readVLen_shrinks hr
        simp only [List.length_drop] at hs
        split
        · simp [Good, Out.isPanic]
        · have := gbtLoop_good ntx (req'.length + 1) req' il 0 [] 1 (by omega)
          exact ⟨this.1, by have := this.2; omega⟩


theorem leVal_take2_lt (t : Bytes) : leVal (t.take 2) < 65536 := by
  have := leVal_lt (t.take 2)
  have h2 : (t.take 2).length ≤ 2 := by simp [List.length_take]; omega
  have : 256 ^ (t.take 2).length ≤ 256 ^ 2 := Nat.pow_le_pow_right (by omega) h2
  omega

theorem vule_small (b : Bytes) (hm : (vule b).2 ≤ 3) : (vule b).1 < 65536 := by
  unfold vule at *
  split
  · simp
  · rename_i h t
    repeat' split
    all_goals simp_all
    · exact leVal_take2_lt t
    · have := h.toNat_lt; omega

theorem vlen_small (b : Bytes) (hm : (vlen b).2 ≤ 3) : 0 ≤ (vlen b).1 ∧ (vlen b).1 < 65536 := by
  have h := vule_small b (by unfold vlen at hm; exact hm)
  unfold vlen
  simp only []
  unfold toInt64
  split <;> omega

/-- what the short-id loop guarantees: an early exit is acceptable; a normal exit after `k` iterations
    from `offs` leaves the offset at offs + 6k inside the payload, keeps what was in the map and has
    put every short id it read (`pl[offs+6j : offs+6j+6]`, j < k) into the map -/
def ShortIdPost (pl : Bytes) (n : Int) (bound : Nat) (offs : Int) (k : Nat) (seen : List Bytes) :
    Except Res (Int × List Bytes × Nat) → Prop
  | .error r => Good r ∧ r.steps ≤ bound
  | .ok (offs', seen', st') => offs' = offs + 6 * (k : Int) ∧ offs' ≤ n ∧ st' ≤ bound ∧ (∀ x, x ∈ seen → x ∈ seen') ∧
      ∀ j : Nat, j < k → ∀ a : Int, a = offs + 6 * (j : Int) → sub pl a (a + 6) ∈ seen'

theorem shortIdLoop_spec (pl : Bytes) (n : Int) (hb : n < 2^62) : ∀ (k : Nat) (offs : Int) (seen : List Bytes) (st : Nat),
    0 ≤ offs → offs ≤ n → ShortIdPost pl n (st + k) offs k seen (shortIdLoop pl n k offs seen st) := by
  intro k
  induction k with
  | zero =>
    intro offs seen st h0 h1
    simp only [shortIdLoop, ShortIdPost]
    exact ⟨by omega, h1, by omega, fun x hx => hx, fun j hj => by omega⟩
  | succ k ih =>
    intro offs seen st h0 h1
    unfold shortIdLoop
    have e6 : wrap (offs + 6) = offs + 6 := wrap_id (by omega) (by omega)
    simp only [e6]
    split
    · simp [ShortIdPost, Good, Out.isPanic] <;> omega
    · rename_i h6
      have s : sliceOk n offs (offs + 6) = true := by unfold sliceOk; simp; omega
      simp only [s, Bool.not_true, Bool.false_eq_true, ↓reduceIte]
      split
      · simp [ShortIdPost, Good, Out.isPanic] <;> omega
      · have := ih (offs + 6) (sub pl offs (offs + 6) :: seen) (st + 1) (by omega) (by omega)
        revert this
        cases shortIdLoop pl n k (offs + 6) (sub pl offs (offs + 6) :: seen) (st + 1) with
        | error r => simp only [ShortIdPost]; intro h; exact ⟨h.1, by omega⟩
        | ok v =>
          obtain ⟨a, b, c⟩ := v
          simp only [ShortIdPost]
          intro ⟨h1', h2', h3', h4', h5'⟩
          refine ⟨by omega, h2', by omega, fun x hx => h4' x (List.mem_cons_of_mem _ hx), ?_⟩
          intro j hj a' ha'
          cases j with
          | zero =>
            have : a' = offs := by omega
            subst this
            exact h4' _ (List.mem_cons_self ..)
          | succ j => exact h5' j (by omega) a' (by omega)

/-- the accumulator of the prefilled loop, [szₖ, idxₖ, …, sz₁, idx₁]: pairs, indices strictly
    decreasing from the head, all below `e` -/
def AccInv : Nat → List Nat → Prop
  | _, [] => True
  | _, [_] => False
  | e, _ :: idx :: t => idx < e ∧ AccInv idx t

theorem AccInv_mono {e e' : Nat} (h : e ≤ e') : ∀ {acc : List Nat}, AccInv e acc → AccInv e' acc
  | [], _ => by simp [AccInv]
  | [_], h' => by simp [AccInv] at h'
  | _ :: idx :: t, h' => by
    simp only [AccInv] at h' ⊢
    exact ⟨by omega, h'.2⟩

/-- what the prefilled loop guarantees about a normal exit: its result list is an accumulator of
    `len` numbers whose indices are strictly increasing and below `total` -/
def PrefPost (total : Int) (len : Nat) (r : Res) : Prop :=
  match r.out with
  | .ok _ nums _ => ∃ e : Nat, (e : Int) ≤ total ∧ AccInv e nums.reverse ∧ nums.length = len
  | _ => True

theorem prefilledLoop_good (txSize : Bytes → Nat) (hts : ∀ b, txSize b ≤ b.length) (pl : Bytes) (n : Int)
    (hn : n = pl.length) (hb : n < 2^62) (total : Int) (ht : total < 2^20) :
    ∀ (k : Nat) (offs exp : Int) (acc : List Nat) (st : Nat), 0 ≤ offs → offs ≤ n → 0 ≤ exp → exp ≤ total →
    AccInv exp.toNat acc →
    Good (prefilledLoop true txSize pl n total k offs exp acc st) ∧
      (prefilledLoop true txSize pl n total k offs exp acc st).steps ≤ st + k ∧
      PrefPost total (acc.length + 2 * k) (prefilledLoop true txSize pl n total k offs exp acc st) := by
  intro k
  induction k with
  | zero =>
    intro offs exp acc st _ _ he0 he1 hacc
    refine ⟨by simp [prefilledLoop, Good, Out.isPanic], by simp [prefilledLoop], ?_⟩
    simp only [prefilledLoop, PrefPost, List.reverse_reverse, List.length_reverse]
    exact ⟨exp.toNat, by omega, hacc, by omega⟩
  | succ k ih =>
    intro offs exp acc st h0 h1 he0 he1 hacc
    unfold prefilledLoop
    have s0 : sliceOk n offs n = true := by unfold sliceOk; simp; omega
    simp only [s0, Bool.not_true, Bool.false_eq_true, ↓reduceIte]
    generalize hv : vlen (List.drop offs.toNat pl) = v
    obtain ⟨idx0, m⟩ := v
    have hsz := vlen_size_le (List.drop offs.toNat pl)
    rw [hv] at hsz
    simp only [List.length_drop] at hsz
    simp only []
    split
    · simp [Good, Out.isPanic, PrefPost] <;> omega
    · rename_i hbad
      simp only [Bool.or_eq_true, beq_iff_eq, decide_eq_true_eq, not_or, Int.not_lt, Nat.not_lt] at hbad
      obtain ⟨⟨hm0, hi0⟩, hm3⟩ := hbad
      have hsm := vlen_small (List.drop offs.toNat pl) (by rw [hv]; simp; omega)
      rw [hv] at hsm
      simp only [] at hsm
      have ei : wrap (idx0 + exp) = idx0 + exp := wrap_id (by omega) (by omega)
      simp only [ei]
      split
      · simp [Good, Out.isPanic, PrefPost] <;> omega
      · rename_i hidx
        simp only [decide_eq_true_eq, Int.not_le, ge_iff_le] at hidx
        have hoff : (offs.toNat : Int) = offs := Int.toNat_of_nonneg h0
        have eo : wrap (offs + m) = offs + m := wrap_id (by omega) (by omega)
        simp only [eo]
        have s1 : sliceOk n (offs + m) n = true := by unfold sliceOk; simp; omega
        simp only [s1, Bool.not_true, Bool.false_eq_true, ↓reduceIte]
        have hsz2 := hts (List.drop (offs + ↑m).toNat pl)
        simp only [List.length_drop] at hsz2
        have hoff2 : ((offs + (m : Int)).toNat : Int) = offs + m := Int.toNat_of_nonneg (by omega)
        split
        · simp [Good, Out.isPanic, PrefPost] <;> omega
        · have s2 : indexOk total (idx0 + exp) = true := by unfold indexOk; simp; omega
          simp only [s2, Bool.not_true, Bool.false_eq_true, ↓reduceIte]
          have es : wrap (offs + ↑m + ↑(txSize (List.drop (offs + ↑m).toNat pl))) = offs + ↑m + ↑(txSize (List.drop (offs + ↑m).toNat pl)) :=
            wrap_id (by omega) (by omega)
          simp only [es]
          have s3 : sliceOk n (offs + ↑m) (offs + ↑m + ↑(txSize (List.drop (offs + ↑m).toNat pl))) = true := by
            unfold sliceOk; simp; omega
          simp only [s3, Bool.not_true, Bool.false_eq_true, ↓reduceIte]
          have e1 : wrap (idx0 + exp + 1) = idx0 + exp + 1 := wrap_id (by omega) (by omega)
          simp only [e1]
          have hacc' : AccInv (idx0 + exp + 1).toNat
              ((↑(txSize (List.drop (offs + ↑m).toNat pl)) : Int).toNat :: (idx0 + exp).toNat :: acc) := by
            simp only [AccInv]
            exact ⟨by omega, AccInv_mono (by omega) hacc⟩
          have := ih (offs + ↑m + ↑(txSize (List.drop (offs + ↑m).toNat pl))) (idx0 + exp + 1)
            ((↑(txSize (List.drop (offs + ↑m).toNat pl)) : Int).toNat :: (idx0 + exp).toNat :: acc) (st + 1)
            (by omega) (by omega) (by omega) (by omega) hacc'
          refine ⟨this.1, by have := this.2.1; omega, ?_⟩
          have h3 := this.2.2
          simp only [List.length_cons] at h3
          have el : acc.length + 1 + 1 + 2 * k = acc.length + 2 * (k + 1) := by omega
          rw [el] at h3
          exact h3


/-- the slot array as a list: `List.set` for every written index on `total` empty slots -/
theorem slotsOf_toList (total : Nat) (w : List Nat) :
    (slotsOf total w).toList = w.foldl (fun l i => l.set i true) (List.replicate total false) := by
  unfold slotsOf
  rw [← Array.toList_replicate]
  generalize Array.replicate total false = a
  induction w generalizing a with
  | nil => rfl
  | cons i t ih => simp only [List.foldl_cons]; rw [ih, Array.toList_setIfInBounds]

/-- marking the (strictly decreasing, in range) indices of an accumulator on a slot list whose slots
    below `e` are all empty fills exactly one empty slot per index -/
theorem mark_count : ∀ (acc : List Nat) (e : Nat) (l : List Bool), AccInv e acc → e ≤ l.length →
    (∀ i, i < e → l[i]? = some false) →
    ((pairIdx acc).foldl (fun l i => l.set i true) l).count false + (pairIdx acc).length = l.count false ∧
    ((pairIdx acc).foldl (fun l i => l.set i true) l).length = l.length ∧ 2 * (pairIdx acc).length = acc.length
  | [], _, _, _, _, _ => by simp [pairIdx]
  | [_], _, _, h, _, _ => by simp [AccInv] at h
  | _ :: idx :: t, e, l, h, hl, hf => by
    simp only [AccInv] at h
    obtain ⟨h1, h2⟩ := h
    have ih := mark_count t idx (l.set idx true) h2 (by simp only [List.length_set]; omega)
      (by intro i hi; rw [List.getElem?_set_ne (by omega)]; exact hf i (by omega))
    simp only [pairIdx, List.foldl_cons, List.length_cons, List.length_set] at ih ⊢
    have hc : (l.set idx true).count false + 1 = l.count false := by
      have hlt : idx < l.length := by omega
      have hi : l[idx] = false := by
        have := hf idx h1
        rw [List.getElem?_eq_getElem hlt] at this
        exact Option.some.inj this
      have hpos : 0 < l.count false := List.count_pos_iff.2 (hi ▸ List.getElem_mem hlt)
      rw [List.count_set hlt]
      have hne : (true == false) = false := rfl
      simp only [hi, beq_self_eq_true, ↓reduceIte, hne, Bool.false_eq_true]
      omega
    omega

/-- the slot list of an accumulator of `2·p` numbers with indices below `total`: `total` slots of which
    exactly `total - p` are not prefilled -/
theorem slots_count (total e : Nat) (acc : List Nat) (h : AccInv e acc) (he : e ≤ total) :
    ((slotsOf total (pairIdx acc)).toList).count false + acc.length / 2 = total ∧
    ((slotsOf total (pairIdx acc)).toList).length = total := by
  rw [slotsOf_toList]
  have := mark_count acc e (List.replicate total false) h (by simp only [List.length_replicate]; omega)
    (by intro i hi; rw [List.getElem?_replicate]; simp; omega)
  simp only [List.count_replicate_self, List.length_replicate] at this
  omega

/-- TOTALITY OF THE SECOND PASS: when the map `seen` holds every short id of the region
    pl[base : base + 6·scnt] (which lies inside the payload) and at most `scnt` slots are not
    prefilled, every read-back slice is legal and every lookup succeeds: neither panic is reachable. -/
theorem secondPass_good (pl : Bytes) (n : Int) (hb : n < 2^62) (seen : List Bytes) (base : Int) (scnt : Nat)
    (h0 : 0 ≤ base) (hin : base + 6 * (scnt : Int) ≤ n)
    (hseen : ∀ j : Nat, j < scnt → ∀ a : Int, a = base + 6 * (j : Int) → sub pl a (a + 6) ∈ seen) :
    ∀ (sl : List Bool) (j : Nat) (sidx : Int) (st : Nat), sidx = base + 6 * (j : Int) → j + sl.count false ≤ scnt →
      Good (secondPass pl n seen sl sidx st) ∧ (secondPass pl n seen sl sidx st).steps ≤ st + sl.length := by
  intro sl
  induction sl with
  | nil => intro j sidx st _ _; simp [secondPass, Good, Out.isPanic]
  | cons b sl ih =>
    intro j sidx st hs hc
    cases b with
    | true =>
      unfold secondPass
      have := ih j sidx (st + 1) hs (by simpa using hc)
      exact ⟨this.1, by have := this.2; simp only [List.length_cons]; omega⟩
    | false =>
      unfold secondPass
      simp only [List.count_cons, beq_self_eq_true, ↓reduceIte] at hc
      have e6 : wrap (sidx + 6) = sidx + 6 := wrap_id (by omega) (by omega)
      have s1 : sliceOk n sidx (sidx + 6) = true := by unfold sliceOk; simp; omega
      have s2 : seen.contains (sub pl sidx (sidx + 6)) = true :=
        List.contains_iff_mem.2 (hseen j (by omega) sidx hs)
      simp only [e6, s1, s2, Bool.not_true, Bool.false_eq_true, ↓reduceIte]
      have := ih (j + 1) (sidx + 6) (st + 1) (by omega) (by omega)
      exact ⟨this.1, by have := this.2; simp only [List.length_cons]; omega⟩

/-- ProcessCmpctBlock, all three loops. Steps: 1 + scnt (short ids) + pcnt (prefilled) + (pcnt + scnt)
    (second pass over col.Txs) with both counts below 2^16 (at most 3 CompactSize bytes):
    ≤ 1 + 2·(65535 + 65535) = 262141. -/
theorem processCmpctBlock_total (txSize : Bytes → Nat) (hts : ∀ b, txSize b ≤ b.length) (pl : Bytes)
    (hl : pl.length < 2^62) :
    Good (processCmpctBlock txSize pl) ∧ (processCmpctBlock txSize pl).steps ≤ 262141 := by
  unfold processCmpctBlock processCmpctBlockG
  simp only []
  split
  · simp [Good, Out.isPanic]
  · rename_i h90
    generalize hv : vlen (List.drop 88 pl) = v
    obtain ⟨scnt, m⟩ := v
    have hsz := vlen_size_le (List.drop 88 pl)
    rw [hv] at hsz
    simp only [List.length_drop] at hsz
    simp only []
    split
    · simp [Good, Out.isPanic]
    · rename_i hbad
      simp only [Bool.or_eq_true, beq_iff_eq, decide_eq_true_eq, not_or, Int.not_lt, Nat.not_lt] at hbad
      obtain ⟨⟨hm0, hs0⟩, hm3⟩ := hbad
      have hsm := vlen_small (List.drop 88 pl) (by rw [hv]; simp; omega)
      rw [hv] at hsm
      simp only [] at hsm
      have hsn : ((scnt.toNat : Nat) : Int) = scnt := Int.toNat_of_nonneg hs0
      have hsp := shortIdLoop_spec pl (pl.length : Int) (by omega) scnt.toNat (88 + (m : Int)) [] 1 (by omega) (by omega)
      revert hsp
      cases shortIdLoop pl (pl.length : Int) scnt.toNat (88 + (m : Int)) [] 1 with
      | error r => simp only [ShortIdPost]; intro h; exact ⟨h.1, by have := h.2; omega⟩
      | ok v =>
        obtain ⟨offs, seen, st⟩ := v
        simp only [ShortIdPost]
        intro ⟨hoe, ho1, hst, _, hseen⟩
        have ho0 : 0 ≤ offs := by omega
        have s0 : sliceOk (pl.length : Int) offs pl.length = true := by unfold sliceOk; simp; omega
        simp only [s0, Bool.not_true, Bool.false_eq_true, ↓reduceIte]
        generalize hv2 : vlen (List.drop offs.toNat pl) = v2
        obtain ⟨pcnt, m2⟩ := v2
        have hsz2 := vlen_size_le (List.drop offs.toNat pl)
        rw [hv2] at hsz2
        simp only [List.length_drop] at hsz2
        simp only []
        split
        · simp [Good, Out.isPanic] <;> omega
        · rename_i hbad2
          simp only [Bool.or_eq_true, beq_iff_eq, decide_eq_true_eq, not_or, Int.not_lt, Nat.not_lt] at hbad2
          obtain ⟨⟨hm20, hp0⟩, hm23⟩ := hbad2
          have hsm2 := vlen_small (List.drop offs.toNat pl) (by rw [hv2]; simp; omega)
          rw [hv2] at hsm2
          simp only [] at hsm2
          have hoff : (offs.toNat : Int) = offs := Int.toNat_of_nonneg ho0
          have eo : wrap (offs + m2) = offs + m2 := wrap_id (by omega) (by omega)
          simp only [eo]
          have hpn : ((pcnt.toNat : Nat) : Int) = pcnt := Int.toNat_of_nonneg hp0
          have hpl := prefilledLoop_good txSize hts pl (pl.length : Int) rfl (by omega) (pcnt + scnt) (by omega)
            pcnt.toNat (offs + m2) 0 [] st (by omega) (by omega) (by omega) (by omega) (by simp [AccInv])
          revert hpl
          generalize prefilledLoop true txSize pl (pl.length : Int) (pcnt + scnt) pcnt.toNat (offs + m2) 0 [] st = r
          intro ⟨⟨hg1, hg2⟩, hg3, hg4⟩
          obtain ⟨out, locks, steps⟩ := r
          cases out with
          | reject r => simp only [] at *; exact ⟨⟨hg1, hg2⟩, by omega⟩
          | panic s => simp [Out.isPanic] at hg1
          | ok t nums bl =>
            simp only [PrefPost] at hg4
            obtain ⟨e, he, hacc, hlen⟩ := hg4
            simp only [] at hg3 ⊢
            have hcnt := slots_count (pcnt + scnt).toNat e nums.reverse hacc (by omega)
            simp only [List.length_reverse, hlen, List.length_nil] at hcnt
            have hsec := secondPass_good pl (pl.length : Int) (by omega) seen (88 + (m : Int)) scnt.toNat
              (by omega) (by omega) hseen
              (slotsOf (pcnt + scnt).toNat (pairIdx nums.reverse)).toList 0 (88 + (m : Int)) steps
              (by omega) (by omega)
            revert hsec
            generalize secondPass pl (pl.length : Int) seen (slotsOf (pcnt + scnt).toNat (pairIdx nums.reverse)).toList
              (88 + (m : Int)) steps = r2
            intro ⟨⟨hh1, hh2⟩, hh3⟩
            obtain ⟨out2, locks2, steps2⟩ := r2
            cases out2 with
            | ok t2 n2 b2 => simp only [] at *; exact ⟨⟨by simp [Out.isPanic], hh2⟩, by omega⟩
            | reject r => simp only [] at *; exact ⟨⟨hh1, hh2⟩, by omega⟩
            | panic s => simp [Out.isPanic] at hh1

theorem blockTxnLoop_good (txSize : Bytes → Nat) (hts : ∀ b, txSize b ≤ b.length) (pl : Bytes) (n : Int)
    (hn : n = pl.length) (hb : n < 2^62) : ∀ (f : Nat) (offs : Int) (acc : List Nat) (st : Nat),
    0 ≤ offs → offs ≤ n → n - offs < f →
    Good (blockTxnLoop txSize pl n f offs acc st) ∧ (blockTxnLoop txSize pl n f offs acc st).steps ≤ st + f := by
  intro f
  induction f with
  | zero => intro offs acc st h0 h1 h2; omega
  | succ f ih =>
    intro offs acc st h0 h1 h2
    unfold blockTxnLoop
    split
    · simp [Good, Out.isPanic]
    · rename_i hlt
      simp only [decide_eq_false_iff_not, Decidable.not_not, Bool.not_eq_eq_eq_not, Bool.not_true] at hlt
      have s0 : sliceOk n offs n = true := by unfold sliceOk; simp; omega
      simp only [s0, Bool.not_true, Bool.false_eq_true, ↓reduceIte]
      have hsz := hts (List.drop offs.toNat pl)
      simp only [List.length_drop] at hsz
      have hoff : (offs.toNat : Int) = offs := Int.toNat_of_nonneg h0
      split
      · simp [Good, Out.isPanic]
      · rename_i hz
        have es : wrap (offs + ↑(txSize (List.drop offs.toNat pl))) = offs + ↑(txSize (List.drop offs.toNat pl)) :=
          wrap_id (by omega) (by omega)
        simp only [es]
        have s1 : sliceOk n offs (offs + ↑(txSize (List.drop offs.toNat pl))) = true := by unfold sliceOk; simp; omega
        simp only [s1, Bool.not_true, Bool.false_eq_true, ↓reduceIte]
        have := ih (offs + ↑(txSize (List.drop offs.toNat pl))) ((↑(txSize (List.drop offs.toNat pl)) : Int).toNat :: acc) (st + 1)
          (by omega) (by omega) (by omega)
        exact ⟨this.1, by have := this.2; omega⟩

theorem processBlockTxn_total (txSize : Bytes → Nat) (hts : ∀ b, txSize b ≤ b.length) (pl : Bytes)
    (hl : pl.length < 2^62) :
    Good (processBlockTxn txSize pl) ∧ (processBlockTxn txSize pl).steps ≤ pl.length + 2 := by
  unfold processBlockTxn
  simp only []
  split
  · simp [Good, Out.isPanic]
  · generalize hv : vlen (List.drop 32 pl) = v
    obtain ⟨le, m⟩ := v
    have hsz := vlen_size_le (List.drop 32 pl)
    rw [hv] at hsz
    simp only [List.length_drop] at hsz
    simp only []
    split
    · simp [Good, Out.isPanic]
    · have := blockTxnLoop_good txSize hts pl (pl.length : Int) rfl (by omega) (pl.length + 1) (32 + (m : Int)) [] 1
        (by omega) (by omega) (by omega)
      exact ⟨this.1, by have := this.2; omega⟩


/-- the addr loop leaves at the first short read: whatever the announced count `k`, it makes at most
    |b|/30 iterations (every iteration that continues has consumed 30 bytes) -/
theorem addrLoop_good : ∀ (k : Nat) (b : Bytes) (acc : List Bytes) (st : Nat),
    Good (addrLoop k b acc st) ∧ (addrLoop k b acc st).steps ≤ st + b.length / 30 := by
  intro k
  induction k with
  | zero => intros; simp [addrLoop, Good, Out.isPanic]
  | succ k ih =>
    intro b acc st
    unfold addrLoop
    simp only [readUpTo]
    by_cases hc : (List.take 30 b).length = 30
    · simp only [hc, ne_eq, not_true_eq_false, ↓reduceIte]
      have := ih (b.drop 30) (b.take 30 :: acc) (st + 1)
      refine ⟨this.1, ?_⟩
      have h2 := this.2
      simp only [List.length_take, List.length_drop] at hc h2
      omega
    · simp only [ne_eq, hc, not_false_eq_true, ↓reduceIte]; simp [Good, Out.isPanic]

theorem parseAddr_total (pl : Bytes) : Good (parseAddr pl) ∧ (parseAddr pl).steps ≤ pl.length / 30 + 2 := by
  unfold parseAddr
  simp only []
  cases hr : readVLen pl with
  | none =>
    simp only []
    have := addrLoop_good (wrap ((0 : Nat) : Int)).toNat [] [] 1
    refine ⟨this.1, ?_⟩
    have h2 := this.2
    simp only [List.length_nil] at h2
    omega
  | some x =>
    obtain ⟨cnt, b⟩ := x
    simp only []
    have hs := readVLen_shrinks hr
    have := addrLoop_good (wrap (cnt : Int)).toNat b [] 1
    refine ⟨this.1, ?_⟩
    have h2 := this.2
    omega

theorem getDataLoop_good : ∀ (f : Nat) (b : Bytes) (acc : List Bytes) (st : Nat), b.length < f →
    Good (getDataLoop f b acc st) ∧ (getDataLoop f b acc st).steps ≤ st + f := by
  intro f
  induction f with
  | zero => intro b acc st h; omega
  | succ f ih =>
    intro b acc st hf
    unfold getDataLoop
    split
    · simp [Good, Out.isPanic]
    · rename_i hne
      simp only [readUpTo]
      have := ih (b.drop 36) (b.take 36 :: acc) (st + 1) (by simp only [List.length_drop]; omega)
      exact ⟨this.1, by have := this.2; omega⟩

theorem processGetData_total (pending : Option Nat) (pl : Bytes) :
    Good (processGetData pending pl) ∧ (processGetData pending pl).steps ≤ pl.length + 2 := by
  unfold processGetData
  cases hr : readVLen pl with
  | none => simp [Good, Out.isPanic]
  | some x =>
    obtain ⟨cnt, b⟩ := x
    simp only []
    have hs := readVLen_shrinks hr
    split
    · simp [Good, Out.isPanic]
    · cases pending with
      | some p => simp only []; split <;> simp [Good, Out.isPanic]
      | none =>
        simp only []
        have := getDataLoop_good (b.length + 1) b [] 1 (by omega)
        exact ⟨this.1, by have := this.2; omega⟩

theorem cap_le (c : Nat) : (if c > 101 then 101 else c) + 1 ≤ 102 := by
  by_cases h : c > 101 <;> simp [h] <;> omega

theorem parseLocators_steps (pl : Bytes) : (parseLocators pl).2 ≤ 102 := by
  unfold parseLocators
  split
  · simp
  · split
    · simp
    · simp only [MAX_LOCATOR_SZ]
      split <;> exact cap_le _

theorem getBlocks_total (pl : Bytes) : Good (getBlocks pl) ∧ (getBlocks pl).steps ≤ 102 := by
  have h := parseLocators_steps pl
  unfold getBlocks
  revert h
  cases parseLocators pl with
  | mk a st =>
    cases a with
    | none => simp [Good, Out.isPanic]
    | some x => obtain ⟨hs, stop⟩ := x; simp only []; intro h; split <;> simp [Good, Out.isPanic] <;> omega

theorem getHeaders_total (pl : Bytes) : Good (getHeaders pl) ∧ (getHeaders pl).steps ≤ 102 := by
  have h := parseLocators_steps pl
  unfold getHeaders
  revert h
  cases parseLocators pl with
  | mk a st =>
    cases a with
    | none => simp [Good, Out.isPanic]
    | some x => obtain ⟨hs, stop⟩ := x; simp only []; intro h; split <;> simp [Good, Out.isPanic] <;> omega

theorem hdrLoop_good : ∀ (k : Nat) (b : Bytes) (acc : List Bytes) (st : Nat),
    Good (hdrLoop k b acc st) ∧ (hdrLoop k b acc st).steps ≤ st + k := by
  intro k
  induction k with
  | zero => intros; simp [hdrLoop, Good, Out.isPanic]
  | succ k ih =>
    intro b acc st
    unfold hdrLoop
    simp only [readUpTo]
    by_cases hc : (List.take 80 b).length = 80
    · simp only [hc, ne_eq, not_true_eq_false, ↓reduceIte]
      split
      · simp [Good, Out.isPanic]
      · rename_i x r' _
        have := ih r' (b.take 80 :: acc) (st + 1)
        exact ⟨this.1, by have := this.2; omega⟩
    · simp only [ne_eq, hc, not_false_eq_true, ↓reduceIte]; simp [Good, Out.isPanic]

theorem handleHeaders_total (pl : Bytes) : Good (handleHeaders pl) ∧ (handleHeaders pl).steps ≤ 2001 := by
  unfold handleHeaders
  cases hr : readVLen pl with
  | none => simp [Good, Out.isPanic]
  | some x =>
    obtain ⟨cnt, b⟩ := x
    simp only []
    split
    · simp [Good, Out.isPanic]
    · have := hdrLoop_good cnt b [] 1
      exact ⟨this.1, by have := this.2; omega⟩

/-- the getmp loop leaves at the first short read: at most |b|/8 iterations whatever the count says -/
theorem getMPLoop_good : ∀ (k : Nat) (b : Bytes) (got : Nat) (st : Nat),
    Good (getMPLoop k b got st) ∧ (getMPLoop k b got st).steps ≤ st + b.length / 8 := by
  intro k
  induction k with
  | zero => intros; simp [getMPLoop, Good, Out.isPanic]
  | succ k ih =>
    intro b got st
    unfold getMPLoop
    simp only [readUpTo]
    by_cases hc : (List.take 8 b).length = 8
    · simp only [hc, ne_eq, not_true_eq_false, ↓reduceIte]
      have := ih (b.drop 8) (got + 1) (st + 1)
      refine ⟨this.1, ?_⟩
      have h2 := this.2
      simp only [List.length_take, List.length_drop] at hc h2
      omega
    · simp only [ne_eq, hc, not_false_eq_true, ↓reduceIte]; simp [Good, Out.isPanic]

theorem processGetMP_total (pl : Bytes) : Good (processGetMP pl) ∧ (processGetMP pl).steps ≤ pl.length / 8 + 2 := by
  unfold processGetMP
  cases hr : readVLen pl with
  | none => simp [Good, Out.isPanic]
  | some x =>
    obtain ⟨cnt, b⟩ := x
    simp only []
    have hs := readVLen_shrinks hr
    have := getMPLoop_good (wrap (cnt : Int)).toNat b 0 1
    refine ⟨this.1, ?_⟩
    have h2 := this.2
    omega

theorem parseTxNet_total (newTx : Bytes → Option (Nat × Nat)) (pl : Bytes) :
    Good (parseTxNet newTx pl) ∧ (parseTxNet newTx pl).steps ≤ 1 := by
  unfold parseTxNet
  split
  · simp [Good, Out.isPanic]
  · split
    · simp [Good, Out.isPanic]
    · split <;> simp [Good, Out.isPanic]

theorem netBlockReceived_total (pl : Bytes) : Good (netBlockReceived pl) ∧ (netBlockReceived pl).steps ≤ 1 := by
  unfold netBlockReceived; split <;> simp [Good, Out.isPanic]

theorem feeFilter_total (pl : Bytes) : Good (feeFilter pl) ∧ (feeFilter pl).steps ≤ 1 := by
  unfold feeFilter
  split
  · rename_i h
    have s : sliceOk (pl.length : Int) 0 8 = true := by unfold sliceOk; simp; omega
    simp [s, Good, Out.isPanic]
  · simp [Good, Out.isPanic]

theorem sendCmpct_total (pl : Bytes) : Good (sendCmpct pl) ∧ (sendCmpct pl).steps ≤ 1 := by
  unfold sendCmpct
  split
  · rename_i h
    have s : sliceOk (pl.length : Int) 1 9 = true := by unfold sliceOk; simp; omega
    simp [s, Good, Out.isPanic]
  · simp [Good, Out.isPanic]

theorem authRcvd_total (already : Bool) (pl : Bytes) : Good (authRcvd already pl) ∧ (authRcvd already pl).steps ≤ 1 := by
  unfold authRcvd
  split
  · simp [Good, Out.isPanic]
  · split
    · simp [Good, Out.isPanic]
    · rename_i h
      have s1 : sliceOk (pl.length : Int) 0 33 = true := by unfold sliceOk; simp; omega
      have s2 : sliceOk (pl.length : Int) 33 pl.length = true := by unfold sliceOk; simp; omega
      simp [s1, s2, Good, Out.isPanic]

theorem authAck_total (trusted : Bool) (pl : Bytes) : Good (authAck trusted pl) ∧ (authAck trusted pl).steps ≤ 1 := by
  unfold authAck
  split
  · simp [Good, Out.isPanic]
  · split
    · rename_i h
      have s : indexOk (pl.length : Int) 0 = true := by unfold indexOk; simp; omega
      simp [s, Good, Out.isPanic]
    · simp [Good, Out.isPanic]

theorem getMPDone_total (ours : Bool) (pl : Bytes) : Good (getMPDone ours pl) ∧ (getMPDone ours pl).steps ≤ 1 := by
  unfold getMPDone
  split
  · simp [Good, Out.isPanic]
  · split
    · simp [Good, Out.isPanic]
    · rename_i h
      have s : indexOk (pl.length : Int) 0 = true := by unfold indexOk; simp; omega
      simp [s, Good, Out.isPanic]

theorem fetchMessage_total (E : FetchEnv) (w : Bytes) : Good (fetchMessage E w) ∧ (fetchMessage E w).steps ≤ 1 := by
  unfold fetchMessage fetchMessageG
  simp only []
  repeat' split
  all_goals first | (simp [Good, Out.isPanic]; done) | simp_all


/-- `if x = c then A else B`: close the `then` goal with `t`, continue with `B` (avoids `split`,
    which normalises the string comparison at great cost) -/
macro "case_cmd " x:term:max c:str " => " t:tactic : tactic =>
  `(tactic| (by_cases hcmd : $x = $c; (· (rw [if_pos hcmd] <;> $t)); rw [if_neg hcmd]; clear hcmd))

theorem maxMsgSize_le (cmd : String) : Gen.NetFacts.maxMsgSize cmd ≤ 8000009 := by
  unfold Gen.NetFacts.maxMsgSize
  case_cmd cmd "inv" => (try omega)
  case_cmd cmd "tx" => (try omega)
  case_cmd cmd "addr" => (try omega)
  case_cmd cmd "block" => (try omega)
  case_cmd cmd "getblocks" => (try omega)
  case_cmd cmd "getdata" => (try omega)
  case_cmd cmd "headers" => (try omega)
  case_cmd cmd "getheaders" => (try omega)
  case_cmd cmd "cmpctblock" => (try omega)
  case_cmd cmd "getblocktxn" => (try omega)
  case_cmd cmd "blocktxn" => (try omega)
  case_cmd cmd "notfound" => (try omega)
  case_cmd cmd "getmp" => (try omega)
  omega

theorem lift {r : Res} {b B : Nat} (h : Good r ∧ r.steps ≤ b) (hb : b ≤ B) :
    r.out.isPanic = false ∧ r.locks = [] ∧ r.steps ≤ B :=
  ⟨h.1.1, h.1.2, by omega⟩

theorem parse_total (E : Env) (hts : ∀ b, E.txSize b ≤ b.length) (cmd : String) (pl : Bytes)
    (hl : pl.length < 2^62) :
    (parse E cmd pl).out.isPanic = false ∧ (parse E cmd pl).locks = [] ∧ (parse E cmd pl).steps ≤ pl.length + 262141 := by
  unfold parse
  case_cmd cmd "version" => exact lift (handleVersion_total pl hl) (by omega)
  case_cmd cmd "inv" => exact lift (processInv_total pl hl) (by omega)
  case_cmd cmd "tx" => exact lift (parseTxNet_total E.newTx pl) (by omega)
  case_cmd cmd "addr" => exact lift (parseAddr_total pl) (by omega)
  case_cmd cmd "block" => exact lift (netBlockReceived_total pl) (by omega)
  case_cmd cmd "getblocks" => exact lift (getBlocks_total pl) (by omega)
  case_cmd cmd "getdata" => exact lift (processGetData_total E.pendingGetData pl) (by omega)
  case_cmd cmd "pong" => exact ⟨by simp [handlePong, Out.isPanic], by simp [handlePong], by simp [handlePong]⟩
  case_cmd cmd "getheaders" => exact lift (getHeaders_total pl) (by omega)
  case_cmd cmd "headers" => exact lift (handleHeaders_total pl) (by omega)
  case_cmd cmd "feefilter" => exact lift (feeFilter_total pl) (by omega)
  case_cmd cmd "sendcmpct" => exact lift (sendCmpct_total pl) (by omega)
  case_cmd cmd "cmpctblock" => exact lift (processCmpctBlock_total E.txSize hts pl hl) (by omega)
  case_cmd cmd "getblocktxn" => exact lift (processGetBlockTxn_total E.ntx pl) (by omega)
  case_cmd cmd "blocktxn" => exact lift (processBlockTxn_total E.txSize hts pl hl) (by omega)
  case_cmd cmd "getmp" => (cases E.authorized <;> first | exact lift (processGetMP_total pl) (by omega) | simp [Out.isPanic])
  case_cmd cmd "xauth" => exact lift (authRcvd_total E.authGot pl) (by omega)
  case_cmd cmd "authack" => exact lift (authAck_total E.trusted pl) (by omega)
  case_cmd cmd "getmpdone" => exact lift (getMPDone_total E.getmpOurs pl) (by omega)
  simp [Out.isPanic]


theorem wire_txSize_le (b : Bytes) : Wire.txSize b ≤ b.length := by
  unfold Wire.txSize
  simp only []
  cases h1 : Wire.readN 4 b with
  | none => simp
  | some x =>
    obtain ⟨x4, b1⟩ := x
    have hl : 4 ≤ b.length := by
      unfold Wire.readN at h1
      split at h1
      · omega
      · simp at h1
    simp only []
    repeat' split
    all_goals simp
    all_goals omega

end GocoinV.NetParse
